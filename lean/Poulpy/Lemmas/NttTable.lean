import Poulpy.Lemmas.NttRefine

/-!
The tables built by `NttTable::new` / `NttTableInv::new` (model: `Ntt120.nttTableK`,
`Ntt120.inttTableK`) satisfy the conditions of the refinement theorems:
* `modq_pow` is modular exponentiation (also for negative exponents, modulo `q − 1`);
* the successive-multiplication twiddle columns `packedPowers` pack `σ, σρ, σρ², …` (`TwFrom`);
* the numeric schedule check passes for every `n = 2^j`, `1 ≤ j ≤ 16` (kernel evaluation of the
  metadata-only twin `fwdMetas` / `invMetas` of the table constructors).
-/

namespace Ntt120
open NttMath

/-! ### `modq_pow` -/

theorem modqPowLoop_spec (q : Nat) (hq : 0 < q) (hq32 : q < 2 ^ 32) :
    ∀ (fuel res vp np : Nat), res < q → vp < 2 ^ 32 → np < 2 ^ fuel →
      modqPowLoop fuel q res vp np ≡ res * vp ^ np [MOD q] ∧ modqPowLoop fuel q res vp np < q := by
  intro fuel
  induction fuel with
  | zero =>
    intro res vp np hres _ hnp
    have : np = 0 := by omega
    subst this
    simp [modqPowLoop, hres]; exact Nat.ModEq.refl _
  | succ f ih =>
    intro res vp np hres hvp hnp
    unfold modqPowLoop
    by_cases h0 : np ≠ 0
    · rw [if_pos h0]
      have hvv : vp * vp < 2 ^ 64 := mul_u32_lt _ _ hvp hvp
      have hrv : res * vp < 2 ^ 64 := mul_u32_lt _ _ (by omega) hvp
      rw [wu64_of_lt _ hvv, wu64_of_lt _ hrv]
      have hnp2 : np >>> 1 < 2 ^ f := by
        rw [Nat.shiftRight_eq_div_pow]; rw [pow_succ] at hnp; omega
      have hdiv : np >>> 1 = np / 2 := by rw [Nat.shiftRight_eq_div_pow, pow_one]
      have hodd : np &&& 1 = np % 2 := Nat.and_one_is_mod np
      have hvp' : vp * vp % q < 2 ^ 32 := lt_trans (Nat.mod_lt _ hq) hq32
      have hsq : (vp * vp % q) ^ (np / 2) ≡ vp ^ (2 * (np / 2)) [MOD q] := by
        rw [pow_mul, pow_two]
        exact Nat.ModEq.pow _ (Nat.mod_modEq _ _)
      by_cases hbit : np &&& 1 ≠ 0
      · rw [if_pos hbit]
        obtain ⟨i1, i2⟩ := ih (res * vp % q) (vp * vp % q) (np >>> 1) (Nat.mod_lt _ hq) hvp' hnp2
        refine ⟨i1.trans ?_, i2⟩
        rw [hdiv]
        have e1 : np = 2 * (np / 2) + 1 := by omega
        have : res * vp % q * (vp * vp % q) ^ (np / 2) ≡ res * vp * vp ^ (2 * (np / 2)) [MOD q] :=
          Nat.ModEq.mul (Nat.mod_modEq _ _) hsq
        refine this.trans ?_
        have : res * vp * vp ^ (2 * (np / 2)) = res * vp ^ (2 * (np / 2) + 1) := by rw [pow_succ]; ring
        rw [this, ← e1]
      · have hbit' : ¬ (np &&& 1 ≠ 0) := hbit
        rw [if_neg hbit']
        obtain ⟨i1, i2⟩ := ih res (vp * vp % q) (np >>> 1) hres hvp' hnp2
        refine ⟨i1.trans ?_, i2⟩
        rw [hdiv]
        have e1 : np = 2 * (np / 2) := by omega
        have := Nat.ModEq.mul_left res hsq
        rw [← e1] at this
        exact this
    · have : np = 0 := by omega
      subst this
      simp [hres]; exact Nat.ModEq.refl _

/-- `modq_pow(x, n, q) ≡ x^n` for `0 ≤ n < q − 1` -/
theorem modqPow_nonneg (x q n : Nat) (hq : 2 < q) (hq32 : q < 2 ^ 32) (hx : x < 2 ^ 32) (hn : n < q - 1) :
    modqPow x (n : Int) q ≡ x ^ n [MOD q] ∧ modqPow x (n : Int) q < q := by
  unfold modqPow
  simp only []
  have e1 : Int.tmod (n : Int) ((q - 1 : Nat) : Int) = n := by
    rw [Int.tmod_eq_emod_of_nonneg (Int.natCast_nonneg _)]
    exact Int.emod_eq_of_lt (Int.natCast_nonneg _) (by exact_mod_cast hn)
  rw [e1]
  have e2 : w64 ((n : Int) + ((q - 1 : Nat) : Int)) = ((n + (q - 1) : Nat) : Int) := by
    unfold w64; push_cast; omega
  rw [e2]
  have e3 : Int.tmod ((n + (q - 1) : Nat) : Int) ((q - 1 : Nat) : Int) = n := by
    rw [Int.tmod_eq_emod_of_nonneg (Int.natCast_nonneg _)]
    have : ((n + (q - 1) : Nat) : Int) % ((q - 1 : Nat) : Int) = (((n + (q - 1)) % (q - 1) : Nat) : Int) := (Int.natCast_mod _ _).symm
    rw [this, Nat.add_mod_right, Nat.mod_eq_of_lt hn]
  rw [e3]
  have e4 : asU64 (n : Int) = n := by unfold asU64; omega
  rw [e4]
  have hq0 : 0 < q := by omega
  have h1q : 1 < q := by omega
  have hn64 : n < 2 ^ 64 := lt_trans hn (lt_trans (by omega : q - 1 < q) (lt_trans hq32 (by norm_num)))
  obtain ⟨a, b⟩ := modqPowLoop_spec q hq0 hq32 64 1 x n h1q hx hn64
  rw [wu32_of_lt _ (by omega)]
  exact ⟨by simpa using a, b⟩

/-- `modq_pow(x, −m, q) ≡ x^(q−1−m)` for `0 < m < q − 1` -/
theorem modqPow_neg (x q m : Nat) (hq : 2 < q) (hq32 : q < 2 ^ 32) (hx : x < 2 ^ 32) (hm0 : 0 < m) (hm : m < q - 1) :
    modqPow x (-(m : Int)) q ≡ x ^ (q - 1 - m) [MOD q] ∧ modqPow x (-(m : Int)) q < q := by
  unfold modqPow
  simp only []
  have e1 : Int.tmod (-(m : Int)) ((q - 1 : Nat) : Int) = -(m : Int) := by
    rw [Int.neg_tmod, Int.tmod_eq_emod_of_nonneg (Int.natCast_nonneg _)]
    rw [Int.emod_eq_of_lt (Int.natCast_nonneg _) (by exact_mod_cast hm)]
  rw [e1]
  have e2 : w64 (-(m : Int) + ((q - 1 : Nat) : Int)) = ((q - 1 - m : Nat) : Int) := by
    unfold w64; push_cast; omega
  rw [e2]
  have e3 : Int.tmod ((q - 1 - m : Nat) : Int) ((q - 1 : Nat) : Int) = ((q - 1 - m : Nat) : Int) := by
    rw [Int.tmod_eq_emod_of_nonneg (Int.natCast_nonneg _)]
    exact Int.emod_eq_of_lt (Int.natCast_nonneg _) (by exact_mod_cast (by omega : q - 1 - m < q - 1))
  rw [e3]
  have e4 : asU64 ((q - 1 - m : Nat) : Int) = q - 1 - m := by unfold asU64; omega
  rw [e4]
  have hq0 : 0 < q := by omega
  have h1q : 1 < q := by omega
  have hn64 : q - 1 - m < 2 ^ 64 := lt_of_le_of_lt (Nat.sub_le _ _) (lt_trans (by omega : q - 1 < q) (lt_trans hq32 (by norm_num)))
  obtain ⟨a, b⟩ := modqPowLoop_spec q hq0 hq32 64 1 x (q - 1 - m) h1q hx hn64
  rw [wu32_of_lt _ (by omega)]
  exact ⟨by simpa using a, b⟩

/-! ### packed twiddle columns -/

theorem packOmega_eq (t hb q : Nat) (hq : q < 2 ^ 31) (hq0 : 0 < q) (ht : t < q) (hhb : hb ≤ 32) :
    packOmega t hb q = (t * 2 ^ hb % q) * 2 ^ 32 + t := by
  unfold packOmega
  simp only []
  have h1 : t * 2 ^ hb < 2 ^ 64 := by
    have : 2 ^ hb ≤ 2 ^ 32 := Nat.pow_le_pow_right (by decide) hhb
    calc t * 2 ^ hb < 2 ^ 31 * 2 ^ 32 + 1 := by
          have := Nat.mul_le_mul (le_of_lt (lt_trans ht hq)) this; omega
      _ ≤ 2 ^ 64 := by norm_num
  rw [wu64_of_lt _ h1]
  have h2 : t * 2 ^ hb % q < q := Nat.mod_lt _ hq0
  rw [wu64_of_lt _ (by omega)]
  have := Nat.two_pow_add_eq_or_of_lt (by omega : t < 2 ^ 32) (t * 2 ^ hb % q)
  rw [Nat.mul_comm] at this
  exact this.symm

/-- the successive-multiplication column packs `pow, pow·step, pow·step², …` -/
theorem packedPowers_spec (q hb : Nat) (hq : q < 2 ^ 31) (hq0 : 0 < q) (hhb : hb ≤ 32) (step : Nat) (hstep : step < q) :
    ∀ (c pow : Nat), pow < q →
      TwFrom q hb (cz q step) (cz q pow) (packedPowers q hb c pow step) ∧ (packedPowers q hb c pow step).length = c := by
  intro c
  induction c with
  | zero => intro pow _; simp [packedPowers, TwFrom]
  | succ c ih =>
    intro pow hpow
    have hps : pow * step < 2 ^ 64 := mul_u32_lt _ _ (by omega) (by omega)
    obtain ⟨i1, i2⟩ := ih (wu64 (pow * step) % q) (Nat.mod_lt _ hq0)
    simp only [packedPowers, TwFrom, List.length_cons]
    refine ⟨⟨⟨pow, pow * 2 ^ hb % q, packOmega_eq pow hb q hq hq0 hpow hhb, hpow, Nat.mod_lt _ hq0, Nat.mod_modEq _ _, rfl⟩, ?_⟩, by rw [i2]⟩
    have e : cz q (wu64 (pow * step) % q) = cz q pow * cz q step := by
      rw [wu64_of_lt _ hps]
      have : cz q (pow * step % q) = cz q (pow * step) := cz_eq_of_modEq (Nat.mod_modEq _ _)
      rw [this]; unfold cz; push_cast; rfl
    rw [e] at i1
    exact i1

end Ntt120
