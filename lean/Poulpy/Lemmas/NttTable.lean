import Poulpy.Lemmas.NttRefine

/-!
The tables built by `NttTable::new` / `NttTableInv::new` (model: `Ntt120.nttTableK`,
`Ntt120.inttTableK`) satisfy the conditions of the refinement theorems:
* `modq_pow` is modular exponentiation (also for negative exponents, modulo `q − 1`);
* the successive-multiplication twiddle columns `packedPowers` pack `σ, σρ, σρ², …` (`TwFrom`);
* the numeric schedule check passes for every `n = 2^j`, `1 ≤ j ≤ 16` (kernel evaluation of the
  metadata-only twin `fwdMetas` / `invMetas` of the table constructors).
-/

namespace Ntt120
open NttMath

/-! ### `modq_pow` -/

theorem modqPowLoop_spec (q : Nat) (hq : 0 < q) (hq32 : q < 2 ^ 32) :
    ∀ (fuel res vp np : Nat), res < q → vp < 2 ^ 32 → np < 2 ^ fuel →
      modqPowLoop fuel q res vp np ≡ res * vp ^ np [MOD q] ∧ modqPowLoop fuel q res vp np < q := by
  intro fuel
  induction fuel with
  | zero =>
    intro res vp np hres _ hnp
    have : np = 0 := by omega
    subst this
    simp [modqPowLoop, hres]; exact Nat.ModEq.refl _
  | succ f ih =>
    intro res vp np hres hvp hnp
    unfold modqPowLoop
    by_cases h0 : np ≠ 0
    · rw [if_pos h0]
      have hvv : vp * vp < 2 ^ 64 := mul_u32_lt _ _ hvp hvp
      have hrv : res * vp < 2 ^ 64 := mul_u32_lt _ _ (by omega) hvp
      rw [wu64_of_lt _ hvv, wu64_of_lt _ hrv]
      have hnp2 : np >>> 1 < 2 ^ f := by
        rw [Nat.shiftRight_eq_div_pow]; rw [pow_succ] at hnp; omega
      have hdiv : np >>> 1 = np / 2 := by rw [Nat.shiftRight_eq_div_pow, pow_one]
      have hodd : np &&& 1 = np % 2 := Nat.and_one_is_mod np
      have hvp' : vp * vp % q < 2 ^ 32 := lt_trans (Nat.mod_lt _ hq) hq32
      have hsq : (vp * vp % q) ^ (np / 2) ≡ vp ^ (2 * (np / 2)) [MOD q] := by
        rw [pow_mul, pow_two]
        exact Nat.ModEq.pow _ (Nat.mod_modEq _ _)
      by_cases hbit : np &&& 1 ≠ 0
      · rw [if_pos hbit]
        obtain ⟨i1, i2⟩ := ih (res * vp % q) (vp * vp % q) (np >>> 1) (Nat.mod_lt _ hq) hvp' hnp2
        refine ⟨i1.trans ?_, i2⟩
        rw [hdiv]
        have e1 : np = 2 * (np / 2) + 1 := by omega
        have : res * vp % q * (vp * vp % q) ^ (np / 2) ≡ res * vp * vp ^ (2 * (np / 2)) [MOD q] :=
          Nat.ModEq.mul (Nat.mod_modEq _ _) hsq
        refine this.trans ?_
        have : res * vp * vp ^ (2 * (np / 2)) = res * vp ^ (2 * (np / 2) + 1) := by rw [pow_succ]; ring
        rw [this, ← e1]
      · have hbit' : ¬ (np &&& 1 ≠ 0) := hbit
        rw [if_neg hbit']
        obtain ⟨i1, i2⟩ := ih res (vp * vp % q) (np >>> 1) hres hvp' hnp2
        refine ⟨i1.trans ?_, i2⟩
        rw [hdiv]
        have e1 : np = 2 * (np / 2) := by omega
        have := Nat.ModEq.mul_left res hsq
        rw [← e1] at this
        exact this
    · have : np = 0 := by omega
      subst this
      simp [hres]; exact Nat.ModEq.refl _

/-- `modq_pow(x, n, q) ≡ x^n` for `0 ≤ n < q − 1` -/
theorem modqPow_nonneg (x q n : Nat) (hq : 2 < q) (hq32 : q < 2 ^ 32) (hx : x < 2 ^ 32) (hn : n < q - 1) :
    modqPow x (n : Int) q ≡ x ^ n [MOD q] ∧ modqPow x (n : Int) q < q := by
  unfold modqPow
  simp only []
  have e1 : Int.tmod (n : Int) ((q - 1 : Nat) : Int) = n := by
    rw [Int.tmod_eq_emod_of_nonneg (Int.natCast_nonneg _)]
    exact Int.emod_eq_of_lt (Int.natCast_nonneg _) (by exact_mod_cast hn)
  rw [e1]
  have e2 : w64 ((n : Int) + ((q - 1 : Nat) : Int)) = ((n + (q - 1) : Nat) : Int) := by
    unfold w64; push_cast; omega
  rw [e2]
  have e3 : Int.tmod ((n + (q - 1) : Nat) : Int) ((q - 1 : Nat) : Int) = n := by
    rw [Int.tmod_eq_emod_of_nonneg (Int.natCast_nonneg _)]
    have : ((n + (q - 1) : Nat) : Int) % ((q - 1 : Nat) : Int) = (((n + (q - 1)) % (q - 1) : Nat) : Int) := (Int.natCast_mod _ _).symm
    rw [this, Nat.add_mod_right, Nat.mod_eq_of_lt hn]
  rw [e3]
  have e4 : asU64 (n : Int) = n := by unfold asU64; omega
  rw [e4]
  have hq0 : 0 < q := by omega
  have h1q : 1 < q := by omega
  have hn64 : n < 2 ^ 64 := lt_trans hn (lt_trans (by omega : q - 1 < q) (lt_trans hq32 (by norm_num)))
  obtain ⟨a, b⟩ := modqPowLoop_spec q hq0 hq32 64 1 x n h1q hx hn64
  rw [wu32_of_lt _ (by omega)]
  exact ⟨by simpa using a, b⟩

/-- `modq_pow(x, −m, q) ≡ x^(q−1−m)` for `0 < m < q − 1` -/
theorem modqPow_neg (x q m : Nat) (hq : 2 < q) (hq32 : q < 2 ^ 32) (hx : x < 2 ^ 32) (hm0 : 0 < m) (hm : m < q - 1) :
    modqPow x (-(m : Int)) q ≡ x ^ (q - 1 - m) [MOD q] ∧ modqPow x (-(m : Int)) q < q := by
  unfold modqPow
  simp only []
  have e1 : Int.tmod (-(m : Int)) ((q - 1 : Nat) : Int) = -(m : Int) := by
    rw [Int.neg_tmod, Int.tmod_eq_emod_of_nonneg (Int.natCast_nonneg _)]
    rw [Int.emod_eq_of_lt (Int.natCast_nonneg _) (by exact_mod_cast hm)]
  rw [e1]
  have e2 : w64 (-(m : Int) + ((q - 1 : Nat) : Int)) = ((q - 1 - m : Nat) : Int) := by
    unfold w64; push_cast; omega
  rw [e2]
  have e3 : Int.tmod ((q - 1 - m : Nat) : Int) ((q - 1 : Nat) : Int) = ((q - 1 - m : Nat) : Int) := by
    rw [Int.tmod_eq_emod_of_nonneg (Int.natCast_nonneg _)]
    exact Int.emod_eq_of_lt (Int.natCast_nonneg _) (by exact_mod_cast (by omega : q - 1 - m < q - 1))
  rw [e3]
  have e4 : asU64 ((q - 1 - m : Nat) : Int) = q - 1 - m := by unfold asU64; omega
  rw [e4]
  have hq0 : 0 < q := by omega
  have h1q : 1 < q := by omega
  have hn64 : q - 1 - m < 2 ^ 64 := lt_of_le_of_lt (Nat.sub_le _ _) (lt_trans (by omega : q - 1 < q) (lt_trans hq32 (by norm_num)))
  obtain ⟨a, b⟩ := modqPowLoop_spec q hq0 hq32 64 1 x (q - 1 - m) h1q hx hn64
  rw [wu32_of_lt _ (by omega)]
  exact ⟨by simpa using a, b⟩

/-! ### packed twiddle columns -/

theorem packOmega_eq (t hb q : Nat) (hq : q < 2 ^ 31) (hq0 : 0 < q) (ht : t < q) (hhb : hb ≤ 32) :
    packOmega t hb q = (t * 2 ^ hb % q) * 2 ^ 32 + t := by
  unfold packOmega
  simp only []
  have h1 : t * 2 ^ hb < 2 ^ 64 := by
    have : 2 ^ hb ≤ 2 ^ 32 := Nat.pow_le_pow_right (by decide) hhb
    calc t * 2 ^ hb < 2 ^ 31 * 2 ^ 32 + 1 := by
          have := Nat.mul_le_mul (le_of_lt (lt_trans ht hq)) this; omega
      _ ≤ 2 ^ 64 := by norm_num
  rw [wu64_of_lt _ h1]
  have h2 : t * 2 ^ hb % q < q := Nat.mod_lt _ hq0
  rw [wu64_of_lt _ (by omega)]
  have := Nat.two_pow_add_eq_or_of_lt (by omega : t < 2 ^ 32) (t * 2 ^ hb % q)
  rw [Nat.mul_comm] at this
  exact this.symm

/-- the successive-multiplication column packs `pow, pow·step, pow·step², …` -/
theorem packedPowers_spec (q hb : Nat) (hq : q < 2 ^ 31) (hq0 : 0 < q) (hhb : hb ≤ 32) (step : Nat) (hstep : step < q) :
    ∀ (c pow : Nat), pow < q →
      TwFrom q hb (cz q step) (cz q pow) (packedPowers q hb c pow step) ∧ (packedPowers q hb c pow step).length = c := by
  intro c
  induction c with
  | zero => intro pow _; simp [packedPowers, TwFrom]
  | succ c ih =>
    intro pow hpow
    have hps : pow * step < 2 ^ 64 := mul_u32_lt _ _ (by omega) (by omega)
    obtain ⟨i1, i2⟩ := ih (wu64 (pow * step) % q) (Nat.mod_lt _ hq0)
    simp only [packedPowers, TwFrom, List.length_cons]
    refine ⟨⟨⟨pow, pow * 2 ^ hb % q, packOmega_eq pow hb q hq hq0 hpow hhb, hpow, Nat.mod_lt _ hq0, Nat.mod_modEq _ _, rfl⟩, ?_⟩, by rw [i2]⟩
    have e : cz q (wu64 (pow * step) % q) = cz q pow * cz q step := by
      rw [wu64_of_lt _ hps]
      have : cz q (pow * step % q) = cz q (pow * step) := cz_eq_of_modEq (Nat.mod_modEq _ _)
      rw [this]; unfold cz; push_cast; rfl
    rw [e] at i1
    exact i1

/-! ### metadata-only twins of the table constructors -/

def fwdMetas (q logQ bsAfter : Nat) : Nat → Nat → Nat → Outcome (List StepMeta × Nat)
  | 0, _, bs => .ok ([], bs)
  | fuel + 1, nn, bs =>
    let doReduce := bs == 64
    let bs := if doReduce then bsAfter else bs
    let q2bs := wu64 (q * 2 ^ (bs - logQ))
    if nn ≥ 4 then
      let bs1 := bs + 1
      let halfBs := (bs1 + 1) / 2
      let bs2 := halfBs + logQ + 1
      let newBs := max bs1 bs2
      if newBs > 64 then .panic "assert"
      else
        match fwdMetas q logQ bsAfter fuel (nn / 2) newBs with
        | .ok (ls, b) => .ok ({ q2bs := q2bs, bs := newBs, halfBs := halfBs, mask := maskOf halfBs, reduce := doReduce } :: ls, b)
        | o => o
    else
      match fwdMetas q logQ bsAfter fuel (nn / 2) (bs + 1) with
      | .ok (ls, b) => .ok ({ q2bs := q2bs, bs := bs + 1, halfBs := 0, mask := 0, reduce := doReduce } :: ls, b)
      | o => o

theorem fwdLevels_metas (q logQ omega n bsAfter : Nat) :
    ∀ (fuel nn bs : Nat) (ls : List Level) (b : Nat), fwdLevels q logQ omega n bsAfter fuel nn bs = .ok (ls, b) →
      fwdMetas q logQ bsAfter fuel nn bs = .ok (ls.map Prod.fst, b) ∧ ls.length = fuel := by
  intro fuel
  induction fuel with
  | zero =>
    intro nn bs ls b h
    simp only [fwdLevels, Outcome.ok.injEq, Prod.mk.injEq] at h
    obtain ⟨rfl, rfl⟩ := h
    simp [fwdMetas]
  | succ f ih =>
    intro nn bs ls b h
    unfold fwdLevels at h
    unfold fwdMetas
    simp only [] at h ⊢
    generalize (if (bs == 64) = true then bsAfter else bs) = bsx at h ⊢
    by_cases h4 : nn ≥ 4
    · rw [if_pos h4] at h ⊢
      by_cases hnb : max (bsx + 1) ((bsx + 1 + 1) / 2 + logQ + 1) > 64
      · rw [if_pos hnb] at h; cases h
      · rw [if_neg hnb] at h ⊢
        cases hrec : fwdLevels q logQ omega n bsAfter f (nn / 2) (max (bsx + 1) ((bsx + 1 + 1) / 2 + logQ + 1)) with
        | ok v =>
          obtain ⟨ls', b'⟩ := v
          rw [hrec] at h
          simp only [Outcome.ok.injEq, Prod.mk.injEq] at h
          obtain ⟨rfl, rfl⟩ := h
          obtain ⟨i1, i2⟩ := ih _ _ _ _ hrec
          rw [i1]
          simp [i2]
        | err e => rw [hrec] at h; cases h
        | panic c => rw [hrec] at h; cases h
    · rw [if_neg h4] at h ⊢
      cases hrec : fwdLevels q logQ omega n bsAfter f (nn / 2) (bsx + 1) with
      | ok v =>
        obtain ⟨ls', b'⟩ := v
        rw [hrec] at h
        simp only [Outcome.ok.injEq, Prod.mk.injEq] at h
        obtain ⟨rfl, rfl⟩ := h
        obtain ⟨i1, i2⟩ := ih _ _ _ _ hrec
        rw [i1]
        simp [i2]
      | err e => rw [hrec] at h; cases h
      | panic c => rw [hrec] at h; cases h

/-! ### twiddles of the forward table -/

theorem pow_two_pow_sq {R : Type*} [Monoid R] (x : R) (e : Nat) : x ^ 2 ^ e * x ^ 2 ^ e = x ^ 2 ^ (e + 1) := by
  rw [← pow_add, pow_succ]; congr 1; ring

theorem fwdLevels_tw (q logQ omega n bsAfter k : Nat) (hn : n = 2 ^ k) (hk : k ≤ 16)
    (hq : 2 ^ 17 < q) (hq31 : q < 2 ^ 31) (hω : omega < q) :
    ∀ (j : Nat), j ≤ k → ∀ (bs : Nat) (ls : List Level) (b : Nat),
      fwdLevels q logQ omega n bsAfter j (2 ^ j) bs = .ok (ls, b) → FwdTwOK q ((cz q omega) ^ 2 ^ (k - j + 1)) ls := by
  intro j
  induction j with
  | zero =>
    intro _ bs ls b h
    simp only [fwdLevels, Outcome.ok.injEq, Prod.mk.injEq] at h
    obtain ⟨rfl, rfl⟩ := h
    trivial
  | succ j ih =>
    intro hj bs ls b h
    unfold fwdLevels at h
    simp only [] at h
    have hhalf : 2 ^ (j + 1) / 2 = 2 ^ j := by rw [pow_succ]; omega
    rw [hhalf] at h
    generalize (if (bs == 64) = true then bsAfter else bs) = bsx at h
    by_cases h4 : 2 ^ (j + 1) ≥ 4
    · rw [if_pos h4] at h
      by_cases hnb : max (bsx + 1) ((bsx + 1 + 1) / 2 + logQ + 1) > 64
      · rw [if_pos hnb] at h; cases h
      · rw [if_neg hnb] at h
        set hb := (bsx + 1 + 1) / 2 with hhb
        have hb32 : hb ≤ 32 := by
          have : max (bsx + 1) (hb + logQ + 1) ≤ 64 := by omega
          have : bsx + 1 ≤ 64 := le_trans (le_max_left _ _) this
          omega
        cases hrec : fwdLevels q logQ omega n bsAfter j (2 ^ j) (max (bsx + 1) (hb + logQ + 1)) with
        | ok v =>
          obtain ⟨ls', b'⟩ := v
          rw [hrec] at h
          simp only [Outcome.ok.injEq, Prod.mk.injEq] at h
          obtain ⟨rfl, rfl⟩ := h
          have hlen := (fwdLevels_metas q logQ omega n bsAfter _ _ _ _ _ hrec).2
          have hdiv : n / 2 ^ j = 2 ^ (k - j) := by rw [hn, Nat.pow_div (by omega) (by decide)]
          have hexp : 2 ^ (k - j) < q - 1 := by
            have : 2 ^ (k - j) ≤ 2 ^ 16 := Nat.pow_le_pow_right (by decide) (by omega)
            omega
          obtain ⟨pe, pl⟩ := modqPow_nonneg omega q (2 ^ (k - j)) (by omega) (by omega) (by omega) hexp
          rw [← hdiv] at pe pl
          obtain ⟨t1, t2⟩ := packedPowers_spec q hb hq31 (by omega) hb32 _ pl (2 ^ j - 1) _ pl
          have hroot : cz q (modqPow omega ((n / 2 ^ j : Nat) : Int) q) = (cz q omega) ^ 2 ^ (k - j) := by
            rw [cz_eq_of_modEq pe, hdiv]; unfold cz; push_cast; rfl
          have hkj : k - (j + 1) + 1 = k - j := by omega
          rw [hkj]
          refine ⟨?_, ?_, ?_⟩
          · show (packedPowers q hb (2 ^ j - 1) _ _).length + 1 = 2 ^ ls'.length
            rw [t2, hlen]; have := Nat.one_le_two_pow (n := j); omega
          · show TwFrom q hb _ _ (packedPowers q hb (2 ^ j - 1) _ _)
            rw [← hroot]; exact t1
          · have := ih (by omega) _ _ _ hrec
            rw [pow_two_pow_sq]
            exact this
        | err e => rw [hrec] at h; cases h
        | panic c => rw [hrec] at h; cases h
    · rw [if_neg h4] at h
      have hj0 : j = 0 := by
        rcases Nat.eq_zero_or_pos j with h0 | h0
        · exact h0
        · exfalso; apply h4
          have : 2 ^ 1 ≤ 2 ^ j := Nat.pow_le_pow_right (by decide) h0
          rw [pow_succ]; omega
      subst hj0
      simp only [fwdLevels, pow_zero] at h
      simp only [Outcome.ok.injEq, Prod.mk.injEq] at h
      obtain ⟨rfl, rfl⟩ := h
      exact ⟨by simp, trivial, trivial⟩

/-! ### the forward table satisfies `FwdTableOK` -/

/-- the schedule check of the whole forward table of size `2^j`, prime `k` (metadata only) -/
def fwdCheck (P : PrimeSet) (k j : Nat) : Bool :=
  let q := P.qs.getD k 1
  match fwdMetas q P.logQ (reducOf P k).2 j (2 ^ j) (32 + P.logQ + 1) with
  | .ok (ms, _) => fwdSchedOK q (reducOf P k).1 ms (spmBound q 32 (2 ^ 64 - 1))
  | _ => false

/-- closed facts about lane `k` of a prime set used by the forward table -/
structure LaneFwd (P : PrimeSet) (k : Nat) : Prop where
  q_gt : 2 ^ 17 < P.qs.getD k 1
  q_lt : P.qs.getD k 1 < 2 ^ 31
  om_lt : P.omega.getD k 0 < P.qs.getD k 1
  om_pow : (P.omega.getD k 0) ^ 2 ^ 16 % P.qs.getD k 1 = P.qs.getD k 1 - 1
  reduc : ReducOK (P.qs.getD k 1) (reducOf P k).1
  fwd : ∀ j, 1 ≤ j → j ≤ 16 → fwdCheck P k j = true

/-- the `2n`-th root of unity used for size `n = 2^j`: `OMEGA^(2^16/n)` -/
def omegaZ (P : PrimeSet) (k j : Nat) : ZMod (P.qs.getD k 1) := (cz (P.qs.getD k 1) (P.omega.getD k 0)) ^ 2 ^ (16 - j)

theorem omegaZ_pow (P : PrimeSet) (k j : Nat) (g : LaneFwd P k) (hj : j ≤ 16) : omegaZ P k j ^ 2 ^ j = -1 := by
  unfold omegaZ
  rw [← pow_mul, ← pow_add]
  have : 16 - j + j = 16 := by omega
  rw [this]
  have hq := g.q_gt
  have h1 : cz (P.qs.getD k 1) ((P.omega.getD k 0) ^ 2 ^ 16) = cz (P.qs.getD k 1) (P.qs.getD k 1 - 1) := by
    apply cz_eq_of_modEq
    unfold Nat.ModEq
    rw [g.om_pow, Nat.mod_eq_of_lt (by omega)]
  have h2 : cz (P.qs.getD k 1) (P.omega.getD k 0) ^ 2 ^ 16 = cz (P.qs.getD k 1) ((P.omega.getD k 0) ^ 2 ^ 16) :=
    (Nat.cast_pow _ _).symm
  rw [h2, h1]
  unfold cz
  rw [Nat.cast_sub (by omega), ZMod.natCast_self]
  simp

theorem isPow2_two_pow (j : Nat) : isPow2 (2 ^ j) = true := by
  unfold isPow2
  have h0 : 2 ^ j ≠ 0 := by positivity
  have h1 : 2 ^ j &&& (2 ^ j - 1) = 0 := by
    rw [Nat.and_two_pow_sub_one_eq_mod, Nat.mod_self]
  simp [h0, h1]

theorem nttTableK_spec (P : PrimeSet) (k j : Nat) (g : LaneFwd P k) (hj1 : 1 ≤ j) (hj : j ≤ 16) (t : TableK)
    (ht : nttTableK P k (2 ^ j) = .ok t) :
    FwdTableOK (P.qs.getD k 1) t (omegaZ P k j) ∧ t.levels.length = j + 1 := by
  unfold nttTableK at ht
  have hle : (2 : Nat) ^ j ≤ 2 ^ 16 := Nat.pow_le_pow_right (by decide) hj
  have hne1 : (2 : Nat) ^ j ≠ 1 := by
    have : 2 ^ 1 ≤ 2 ^ j := Nat.pow_le_pow_right (by decide) hj1
    omega
  simp only [isPow2_two_pow, hle, decide_true, Bool.and_self, Bool.not_true, Bool.false_eq_true, if_false, hne1, Nat.log2_two_pow] at ht
  set q := P.qs.getD k 1 with hq
  have hdiv : 2 ^ 16 / 2 ^ j = 2 ^ (16 - j) := Nat.pow_div hj (by decide)
  rw [hdiv] at ht
  have hqg := g.q_gt
  have hql := g.q_lt
  have hexp : 2 ^ (16 - j) < q - 1 := by
    have : 2 ^ (16 - j) ≤ 2 ^ 16 := Nat.pow_le_pow_right (by decide) (by omega)
    omega
  obtain ⟨pe, pl⟩ := modqPow_nonneg (P.omega.getD k 0) q (2 ^ (16 - j)) (by omega) (by omega) (by have := g.om_lt; omega) hexp
  set om := modqPow (P.omega.getD k 0) ((2 ^ (16 - j) : Nat) : Int) q with hom
  have hωz : cz q om = omegaZ P k j := by
    rw [cz_eq_of_modEq pe]; unfold omegaZ cz; push_cast; rfl
  cases hrec : fwdLevels q P.logQ om (2 ^ j) (reducOf P k).2 j (2 ^ j) (32 + P.logQ + 1) with
  | ok v =>
    obtain ⟨ls, b⟩ := v
    rw [hrec] at ht
    simp only [Outcome.ok.injEq] at ht
    subst ht
    obtain ⟨hmet, hlen⟩ := fwdLevels_metas q P.logQ om (2 ^ j) (reducOf P k).2 _ _ _ _ _ hrec
    have hchk := g.fwd j hj1 hj
    unfold fwdCheck at hchk
    simp only [← hq, hmet] at hchk
    have htw := fwdLevels_tw q P.logQ om (2 ^ j) (reducOf P k).2 j rfl hj (by omega) hql pl j (le_refl _) _ _ _ hrec
    obtain ⟨t1, t2⟩ := packedPowers_spec q 32 hql (by omega) (le_refl _) om pl (2 ^ j) 1 (by omega)
    refine ⟨⟨g.reduc, ?_⟩, by simp [hlen]⟩
    simp only []
    refine ⟨⟨hql, maskOf_eq 32 (by omega), le_refl _, by show 2 ^ 64 - 1 < 2 ^ (2 * 32); norm_num⟩, by rw [t2, hlen], ?_, hchk, ?_⟩
    · rw [← hωz]
      have : cz q 1 = (1 : ZMod q) := by unfold cz; simp
      rw [this] at t1; exact t1
    · have e : j - j + 1 = 1 := by omega
      rw [e, pow_one, hωz] at htw
      rw [← pow_two]; exact htw
  | err e => rw [hrec] at ht; cases ht
  | panic c => rw [hrec] at ht; cases ht

/-! ### the inverse table -/

def invMetas (q logQ bsAfter : Nat) : Nat → Nat → Nat → Outcome (List StepMeta × Nat)
  | 0, _, bs => .ok ([], bs)
  | fuel + 1, nn, bs =>
    let doReduce := bs == 64
    let bs := if doReduce then bsAfter else bs
    let halfBs := (bs + 1) / 2
    let bsMult := halfBs + logQ + 1
    let newBs := 1 + max bs bsMult
    if newBs > 64 then .panic "assert"
    else
      match invMetas q logQ bsAfter fuel (nn * 2) newBs with
      | .ok (ls, b) => .ok ({ q2bs := wu64 (q * 2 ^ (bsMult - logQ)), bs := newBs, halfBs := halfBs, mask := maskOf halfBs, reduce := doReduce } :: ls, b)
      | o => o

theorem invLevels_metas (q logQ omega n bsAfter : Nat) :
    ∀ (fuel nn bs : Nat) (ls : List Level) (b : Nat), invLevels q logQ omega n bsAfter fuel nn bs = .ok (ls, b) →
      invMetas q logQ bsAfter fuel nn bs = .ok (ls.map Prod.fst, b) ∧ ls.length = fuel := by
  intro fuel
  induction fuel with
  | zero =>
    intro nn bs ls b h
    simp only [invLevels, Outcome.ok.injEq, Prod.mk.injEq] at h
    obtain ⟨rfl, rfl⟩ := h
    simp [invMetas]
  | succ f ih =>
    intro nn bs ls b h
    unfold invLevels at h
    unfold invMetas
    simp only [] at h ⊢
    generalize (if (bs == 64) = true then bsAfter else bs) = bsx at h ⊢
    by_cases hnb : 1 + max bsx ((bsx + 1) / 2 + logQ + 1) > 64
    · rw [if_pos hnb] at h; cases h
    · rw [if_neg hnb] at h ⊢
      cases hrec : invLevels q logQ omega n bsAfter f (nn * 2) (1 + max bsx ((bsx + 1) / 2 + logQ + 1)) with
      | ok v =>
        obtain ⟨ls', b'⟩ := v
        rw [hrec] at h
        simp only [Outcome.ok.injEq, Prod.mk.injEq] at h
        obtain ⟨rfl, rfl⟩ := h
        obtain ⟨i1, i2⟩ := ih _ _ _ _ hrec
        rw [i1]
        simp [i2]
      | err e => rw [hrec] at h; cases h
      | panic c => rw [hrec] at h; cases h

/-- twiddle facts of the level of block size `2^i` in an inverse table of size `2^k` -/
def LvlTw (q : Nat) (ω' : ZMod q) (k i : Nat) (l : Level) : Prop :=
  l.2.length + 1 = 2 ^ (i - 1) ∧ TwFrom q l.1.halfBs (ω' ^ 2 ^ (k + 1 - i)) (ω' ^ 2 ^ (k + 1 - i)) l.2

def AscTw (q : Nat) (ω' : ZMod q) (k : Nat) : Nat → List Level → Prop
  | _, [] => True
  | i, l :: rest => LvlTw q ω' k i l ∧ AscTw q ω' k (i + 1) rest

def DescTw (q : Nat) (ω' : ZMod q) (k : Nat) : List Level → Prop
  | [] => True
  | l :: rest => LvlTw q ω' k (rest.length + 1) l ∧ DescTw q ω' k rest

theorem desc_of_asc (q : Nat) (ω' : ZMod q) (k : Nat) :
    ∀ (A B : List Level) (i0 : Nat), AscTw q ω' k i0 A → DescTw q ω' k B → B.length + 1 = i0 → DescTw q ω' k (A.reverse ++ B) := by
  intro A
  induction A with
  | nil => intro B i0 _ hB _; simpa using hB
  | cons l A' ih =>
    intro B i0 hA hB hlen
    obtain ⟨hl, hA'⟩ := hA
    rw [List.reverse_cons, List.append_assoc]
    apply ih (l :: B) (i0 + 1) hA'
    · exact ⟨by rw [hlen]; exact hl, hB⟩
    · simp [hlen]

theorem invTwOK_of_desc (q : Nat) (ω' : ZMod q) (k : Nat) :
    ∀ (D : List Level), DescTw q ω' k D → D.length ≤ k → InvTwOK q (ω' ^ 2 ^ (k + 1 - D.length)) D := by
  intro D
  induction D with
  | nil => intro _ _; trivial
  | cons l rest ih =>
    intro hD hlen
    obtain ⟨m, tw⟩ := l
    obtain ⟨⟨h1, h2⟩, hrest⟩ := hD
    simp only [List.length_cons] at hlen h1 h2 ⊢
    refine ⟨by simpa using h1, h2, ?_⟩
    have := ih hrest (by omega)
    rw [pow_two_pow_sq]
    have e : k + 1 - (rest.length + 1) + 1 = k + 1 - rest.length := by omega
    rw [e]; exact this

theorem inv_unique {R : Type*} [CommMonoid R] (x y z : R) (h1 : x * y = 1) (h2 : y * z = 1) : x = z := by
  calc x = x * (y * z) := by rw [h2, mul_one]
    _ = (x * y) * z := by rw [mul_assoc]
    _ = z := by rw [h1, one_mul]

theorem invLevels_tw (q logQ omega n bsAfter k : Nat) (hn : n = 2 ^ k) (hk : k ≤ 16)
    (hq : 2 ^ 17 < q) (hq31 : q < 2 ^ 31) (hω : omega < q) (ω' : ZMod q) (hinv : cz q omega * ω' = 1)
    (hord : (cz q omega) ^ (q - 1) = 1) :
    ∀ (fuel i bs : Nat) (ls : List Level) (b : Nat), 2 ≤ i → i + fuel ≤ k + 1 →
      invLevels q logQ omega n bsAfter fuel (2 ^ i) bs = .ok (ls, b) → AscTw q ω' k i ls := by
  intro fuel
  induction fuel with
  | zero =>
    intro i bs ls b _ _ h
    simp only [invLevels, Outcome.ok.injEq, Prod.mk.injEq] at h
    obtain ⟨rfl, rfl⟩ := h
    trivial
  | succ f ih =>
    intro i bs ls b hi hik h
    unfold invLevels at h
    simp only [] at h
    generalize (if (bs == 64) = true then bsAfter else bs) = bsx at h
    by_cases hnb : 1 + max bsx ((bsx + 1) / 2 + logQ + 1) > 64
    · rw [if_pos hnb] at h; cases h
    · rw [if_neg hnb] at h
      set hb := (bsx + 1) / 2 with hhb
      have hb32 : hb ≤ 32 := by
        have : bsx ≤ max bsx (hb + logQ + 1) := le_max_left _ _
        omega
      have hdbl : 2 ^ i * 2 = 2 ^ (i + 1) := by rw [pow_succ]
      rw [hdbl] at h
      cases hrec : invLevels q logQ omega n bsAfter f (2 ^ (i + 1)) (1 + max bsx (hb + logQ + 1)) with
      | ok v =>
        obtain ⟨ls', b'⟩ := v
        rw [hrec] at h
        simp only [Outcome.ok.injEq, Prod.mk.injEq] at h
        obtain ⟨rfl, rfl⟩ := h
        have hhalf : 2 ^ i / 2 = 2 ^ (i - 1) := by
          have : i = (i - 1) + 1 := by omega
          conv_lhs => rw [this, pow_succ]
          omega
        have hdiv : n / 2 ^ (i - 1) = 2 ^ (k + 1 - i) := by
          rw [hn, Nat.pow_div (by omega) (by decide)]; congr 1; omega
        set m := 2 ^ (k + 1 - i) with hm
        have hm0 : 0 < m := Nat.two_pow_pos _
        have hmlt : m < q - 1 := by
          have : m ≤ 2 ^ 16 := Nat.pow_le_pow_right (by decide) (by omega)
          omega
        obtain ⟨pe, pl⟩ := modqPow_neg omega q m (by omega) (by omega) (by omega) hm0 hmlt
        have hroot : cz q (modqPow omega (-(m : Int)) q) = ω' ^ m := by
          apply inv_unique _ ((cz q omega) ^ m) _
          · rw [cz_eq_of_modEq pe]
            have : cz q (omega ^ (q - 1 - m)) = (cz q omega) ^ (q - 1 - m) := Nat.cast_pow _ _
            rw [this, ← pow_add]
            have : q - 1 - m + m = q - 1 := by omega
            rw [this, hord]
          · rw [← mul_pow, hinv, one_pow]
        rw [hhalf, hdiv] at *
        obtain ⟨t1, t2⟩ := packedPowers_spec q hb hq31 (by omega) hb32 _ pl (2 ^ (i - 1) - 1) _ pl
        refine ⟨⟨?_, ?_⟩, ih (i + 1) _ _ _ (by omega) (by omega) hrec⟩
        · show (packedPowers q hb (2 ^ (i - 1) - 1) _ _).length + 1 = 2 ^ (i - 1)
          rw [t2]; have := Nat.one_le_two_pow (n := i - 1); omega
        · show TwFrom q hb _ _ (packedPowers q hb (2 ^ (i - 1) - 1) _ _)
          rw [← hroot]; exact t1
      | err e => rw [hrec] at h; cases h
      | panic c => rw [hrec] at h; cases h

/-- the schedule check of the whole inverse table of size `2^j`, prime `k` (metadata only) -/
def invCheck (P : PrimeSet) (k j : Nat) : Bool :=
  let q := P.qs.getD k 1
  let r := (reducOf P k).1
  let bsA := (reducOf P k).2
  let m0 : StepMeta := { q2bs := wu64 (q * 2 ^ (bsA - P.logQ)), bs := bsA + 1, halfBs := 0, mask := 0, reduce := true }
  match invMetas q P.logQ bsA (j - 1) 4 (bsA + 1) with
  | .ok (ms, b) =>
    let doReduce := b == 64
    let bs := if doReduce then bsA else b
    let hb := (bs + 1) / 2
    let revM := ms.reverse ++ [m0]
    !(decide (hb + P.logQ + 1 > 64)) && invSchedOK q r revM (2 ^ 64 - 1) && decide ((invChainOut q r revM (2 ^ 64 - 1)).1 < 2 ^ 64) &&
    decide (maskOf hb = 2 ^ hb - 1) && decide (hb ≤ 32) && decide (redBound r doReduce (invChainOut q r revM (2 ^ 64 - 1)).1 < 2 ^ (2 * hb))
  | _ => false

/-- closed facts about lane `k` of a prime set used by the inverse table -/
structure LaneInv (P : PrimeSet) (k : Nat) : Prop where
  ord : (P.qs.getD k 1 - 1) % 2 ^ 17 = 0
  two : pow2Mod (P.qs.getD k 1 - 1) (P.qs.getD k 1) = 1
  inv : ∀ j, 1 ≤ j → j ≤ 16 → invCheck P k j = true

/-- the lazy representative of `ω` the tables are built from, its inverse `ω⁻¹`, and `n⁻¹` -/
def omegaN (P : PrimeSet) (k j : Nat) : Nat := modqPow (P.omega.getD k 0) ((2 ^ (16 - j) : Nat) : Int) (P.qs.getD k 1)
def omegaInvZ (P : PrimeSet) (k j : Nat) : ZMod (P.qs.getD k 1) := cz (P.qs.getD k 1) (modqPow (omegaN P k j) (-1) (P.qs.getD k 1))
def nInvZ (P : PrimeSet) (k j : Nat) : ZMod (P.qs.getD k 1) := cz (P.qs.getD k 1) (modqPow (2 ^ j) (-1) (P.qs.getD k 1))

theorem omegaN_spec (P : PrimeSet) (k j : Nat) (g : LaneFwd P k) (hj : j ≤ 16) :
    cz (P.qs.getD k 1) (omegaN P k j) = omegaZ P k j ∧ omegaN P k j < P.qs.getD k 1 := by
  have hqg := g.q_gt
  have hql := g.q_lt
  have hexp : 2 ^ (16 - j) < P.qs.getD k 1 - 1 := by
    have : 2 ^ (16 - j) ≤ 2 ^ 16 := Nat.pow_le_pow_right (by decide) (by omega)
    omega
  obtain ⟨pe, pl⟩ := modqPow_nonneg (P.omega.getD k 0) (P.qs.getD k 1) (2 ^ (16 - j)) (by omega) (by omega) (by have := g.om_lt; omega) hexp
  refine ⟨?_, pl⟩
  unfold omegaN
  rw [cz_eq_of_modEq pe]; unfold omegaZ cz; push_cast; rfl

theorem omegaZ_ord (P : PrimeSet) (k j : Nat) (g : LaneFwd P k) (gi : LaneInv P k) (hj : j ≤ 16) :
    omegaZ P k j ^ (P.qs.getD k 1 - 1) = 1 := by
  have h1 := omegaZ_pow P k j g hj
  have h2 : omegaZ P k j ^ 2 ^ 17 = 1 := by
    have : (2 : Nat) ^ 17 = 2 ^ j * (2 * 2 ^ (16 - j)) := by
      rw [← pow_succ', ← pow_add]; congr 1; omega
    rw [this, pow_mul, h1, pow_mul]; simp
  obtain ⟨c, hc⟩ := Nat.dvd_of_mod_eq_zero gi.ord
  rw [hc, pow_mul, h2, one_pow]

theorem omegaInv_spec (P : PrimeSet) (k j : Nat) (g : LaneFwd P k) (gi : LaneInv P k) (hj : j ≤ 16) :
    omegaZ P k j * omegaInvZ P k j = 1 ∧ modqPow (omegaN P k j) (-1) (P.qs.getD k 1) < P.qs.getD k 1 := by
  have hqg := g.q_gt
  have hql := g.q_lt
  obtain ⟨e, l⟩ := omegaN_spec P k j g hj
  obtain ⟨pe, pl⟩ := modqPow_neg (omegaN P k j) (P.qs.getD k 1) 1 (by omega) (by omega) (by omega) (by omega) (by omega)
  refine ⟨?_, pl⟩
  unfold omegaInvZ
  have : ((1 : Nat) : Int) = 1 := rfl
  rw [this] at pe
  rw [cz_eq_of_modEq pe]
  have h2 : cz (P.qs.getD k 1) (omegaN P k j ^ (P.qs.getD k 1 - 1 - 1)) = (omegaZ P k j) ^ (P.qs.getD k 1 - 1 - 1) := by
    rw [← e]; exact Nat.cast_pow _ _
  rw [h2, ← pow_succ']
  have : P.qs.getD k 1 - 1 - 1 + 1 = P.qs.getD k 1 - 1 := by omega
  rw [this]
  exact omegaZ_ord P k j g gi hj

theorem nInv_spec (P : PrimeSet) (k j : Nat) (g : LaneFwd P k) (gi : LaneInv P k) (hj : j ≤ 16) :
    nInvZ P k j * 2 ^ j = 1 ∧ modqPow (2 ^ j) (-1) (P.qs.getD k 1) < P.qs.getD k 1 := by
  have hqg := g.q_gt
  have hql := g.q_lt
  have hn : (2 : Nat) ^ j < 2 ^ 32 := Nat.pow_lt_pow_right (by decide) (by omega)
  obtain ⟨pe, pl⟩ := modqPow_neg (2 ^ j) (P.qs.getD k 1) 1 (by omega) (by omega) hn (by omega) (by omega)
  refine ⟨?_, pl⟩
  unfold nInvZ
  have : ((1 : Nat) : Int) = 1 := rfl
  rw [this] at pe
  rw [cz_eq_of_modEq pe]
  have h2 : cz (P.qs.getD k 1) ((2 ^ j) ^ (P.qs.getD k 1 - 1 - 1)) = ((2 : ZMod (P.qs.getD k 1)) ^ j) ^ (P.qs.getD k 1 - 1 - 1) := by
    unfold cz; push_cast; rfl
  rw [h2, ← pow_succ]
  have : P.qs.getD k 1 - 1 - 1 + 1 = P.qs.getD k 1 - 1 := by omega
  rw [this, ← pow_mul, mul_comm, pow_mul]
  have h3 : (2 : ZMod (P.qs.getD k 1)) ^ (P.qs.getD k 1 - 1) = 1 := by
    have hs := pow2Mod_spec (P.qs.getD k 1 - 1) (P.qs.getD k 1) (by omega) (by omega)
    rw [gi.two] at hs
    have := cz_eq_of_modEq hs
    unfold cz at this; push_cast at this
    exact this.symm
  rw [h3, one_pow]

theorem inttTableK_spec (P : PrimeSet) (k j : Nat) (g : LaneFwd P k) (gi : LaneInv P k) (hj1 : 1 ≤ j) (hj : j ≤ 16) (t : TableK)
    (ht : inttTableK P k (2 ^ j) = .ok t) :
    InvTableOK (P.qs.getD k 1) t (omegaInvZ P k j) (nInvZ P k j) ∧ t.levels.length = j + 1 := by
  unfold inttTableK at ht
  have hle : (2 : Nat) ^ j ≤ 2 ^ 16 := Nat.pow_le_pow_right (by decide) hj
  have hne1 : (2 : Nat) ^ j ≠ 1 := by
    have : 2 ^ 1 ≤ 2 ^ j := Nat.pow_le_pow_right (by decide) hj1
    omega
  simp only [isPow2_two_pow, hle, decide_true, Bool.and_self, Bool.not_true, Bool.false_eq_true, if_false, hne1, Nat.log2_two_pow] at ht
  set q := P.qs.getD k 1 with hq
  have hdiv : 2 ^ 16 / 2 ^ j = 2 ^ (16 - j) := Nat.pow_div hj (by decide)
  rw [hdiv] at ht
  have hqg := g.q_gt
  have hql := g.q_lt
  obtain ⟨eω, lω⟩ := omegaN_spec P k j g hj
  obtain ⟨einv, linv⟩ := omegaInv_spec P k j g gi hj
  obtain ⟨en, ln⟩ := nInv_spec P k j g gi hj
  have hom : modqPow (P.omega.getD k 0) ((2 ^ (16 - j) : Nat) : Int) q = omegaN P k j := rfl
  rw [hom] at ht
  have h4 : (4 : Nat) = 2 ^ 2 := rfl
  cases hrec : invLevels q P.logQ (omegaN P k j) (2 ^ j) (reducOf P k).2 (j - 1) 4 ((reducOf P k).2 + 1) with
  | ok v =>
    obtain ⟨ls, b⟩ := v
    rw [hrec] at ht
    simp only [] at ht
    obtain ⟨hmet, hlen⟩ := invLevels_metas q P.logQ (omegaN P k j) (2 ^ j) (reducOf P k).2 _ _ _ _ _ hrec
    have hchk := gi.inv j hj1 hj
    unfold invCheck at hchk
    simp only [← hq, hmet] at hchk
    generalize hbsx : (if (b == 64) = true then (reducOf P k).2 else b) = bsx at ht hchk
    simp only [Bool.and_eq_true, Bool.not_eq_true', decide_eq_false_iff_not, decide_eq_true_eq] at hchk
    obtain ⟨⟨⟨⟨⟨c0, c1⟩, c2⟩, c3⟩, c4⟩, c5⟩ := hchk
    rw [if_neg c0] at ht
    simp only [Outcome.ok.injEq] at ht
    subst ht
    have hasc := invLevels_tw q P.logQ (omegaN P k j) (2 ^ j) (reducOf P k).2 j rfl hj (by omega) hql lω (omegaInvZ P k j)
      (by rw [eω]; exact einv) (by rw [eω]; exact omegaZ_ord P k j g gi hj) (j - 1) 2 _ _ _ (le_refl _) (by omega) (by rw [← h4]; exact hrec)
    set l0 : Level := ({ q2bs := wu64 (q * 2 ^ ((reducOf P k).2 - P.logQ)), bs := (reducOf P k).2 + 1, halfBs := 0, mask := 0, reduce := true }, []) with hl0
    have hdesc0 : DescTw q (omegaInvZ P k j) j [l0] := ⟨⟨by simp [hl0], trivial⟩, trivial⟩
    have hdesc := desc_of_asc q (omegaInvZ P k j) j ls [l0] 2 hasc hdesc0 rfl
    have hdlen : (ls.reverse ++ [l0]).length = j := by simp [hlen]; omega
    have htwo := invTwOK_of_desc q (omegaInvZ P k j) j _ hdesc (by omega)
    rw [hdlen] at htwo
    have e1 : j + 1 - j = 1 := by omega
    rw [e1, pow_one, pow_two] at htwo
    obtain ⟨t1, t2⟩ := packedPowers_spec q ((bsx + 1) / 2) hql (by omega) c4 _ linv (2 ^ j) _ ln
    have hrevmap : (ls.reverse ++ [l0]).map Prod.fst = (ls.map Prod.fst).reverse ++ [l0.1] := by
      simp [List.map_reverse]
    refine ⟨⟨g.reduc, ?_⟩, by simp [hlen]; omega⟩
    simp only [List.reverse_cons, List.reverse_append, List.reverse_nil, List.nil_append, List.cons_append]
    rw [hrevmap]
    refine ⟨c1, htwo, c2, ⟨hql, c3, c4, c5⟩, by rw [t2, hdlen], t1⟩
  | err e => rw [hrec] at ht; cases ht
  | panic c => rw [hrec] at ht; cases ht

/-! ### the table constructors succeed whenever the metadata twins do -/

theorem fwdLevels_of_metas (q logQ omega n bsAfter : Nat) :
    ∀ (fuel nn bs : Nat) (ms : List StepMeta) (b : Nat), fwdMetas q logQ bsAfter fuel nn bs = .ok (ms, b) →
      ∃ ls, fwdLevels q logQ omega n bsAfter fuel nn bs = .ok (ls, b) := by
  intro fuel
  induction fuel with
  | zero =>
    intro nn bs ms b h
    simp only [fwdMetas, Outcome.ok.injEq, Prod.mk.injEq] at h
    exact ⟨[], by simp [fwdLevels, h.2]⟩
  | succ f ih =>
    intro nn bs ms b h
    unfold fwdMetas at h
    unfold fwdLevels
    simp only [] at h ⊢
    generalize (if (bs == 64) = true then bsAfter else bs) = bsx at h ⊢
    by_cases h4 : nn ≥ 4
    · rw [if_pos h4] at h ⊢
      by_cases hnb : max (bsx + 1) ((bsx + 1 + 1) / 2 + logQ + 1) > 64
      · rw [if_pos hnb] at h; cases h
      · rw [if_neg hnb] at h ⊢
        cases hrec : fwdMetas q logQ bsAfter f (nn / 2) (max (bsx + 1) ((bsx + 1 + 1) / 2 + logQ + 1)) with
        | ok v =>
          obtain ⟨ms', b'⟩ := v
          rw [hrec] at h
          simp only [Outcome.ok.injEq, Prod.mk.injEq] at h
          obtain ⟨ls, hls⟩ := ih _ _ _ _ hrec
          rw [hls]
          exact ⟨_, by rw [h.2]⟩
        | err e => rw [hrec] at h; cases h
        | panic c => rw [hrec] at h; cases h
    · rw [if_neg h4] at h ⊢
      cases hrec : fwdMetas q logQ bsAfter f (nn / 2) (bsx + 1) with
      | ok v =>
        obtain ⟨ms', b'⟩ := v
        rw [hrec] at h
        simp only [Outcome.ok.injEq, Prod.mk.injEq] at h
        obtain ⟨ls, hls⟩ := ih _ _ _ _ hrec
        rw [hls]
        exact ⟨_, by rw [h.2]⟩
      | err e => rw [hrec] at h; cases h
      | panic c => rw [hrec] at h; cases h

theorem invLevels_of_metas (q logQ omega n bsAfter : Nat) :
    ∀ (fuel nn bs : Nat) (ms : List StepMeta) (b : Nat), invMetas q logQ bsAfter fuel nn bs = .ok (ms, b) →
      ∃ ls, invLevels q logQ omega n bsAfter fuel nn bs = .ok (ls, b) := by
  intro fuel
  induction fuel with
  | zero =>
    intro nn bs ms b h
    simp only [invMetas, Outcome.ok.injEq, Prod.mk.injEq] at h
    exact ⟨[], by simp [invLevels, h.2]⟩
  | succ f ih =>
    intro nn bs ms b h
    unfold invMetas at h
    unfold invLevels
    simp only [] at h ⊢
    generalize (if (bs == 64) = true then bsAfter else bs) = bsx at h ⊢
    by_cases hnb : 1 + max bsx ((bsx + 1) / 2 + logQ + 1) > 64
    · rw [if_pos hnb] at h; cases h
    · rw [if_neg hnb] at h ⊢
      cases hrec : invMetas q logQ bsAfter f (nn * 2) (1 + max bsx ((bsx + 1) / 2 + logQ + 1)) with
      | ok v =>
        obtain ⟨ms', b'⟩ := v
        rw [hrec] at h
        simp only [Outcome.ok.injEq, Prod.mk.injEq] at h
        obtain ⟨ls, hls⟩ := ih _ _ _ _ hrec
        rw [hls]
        exact ⟨_, by rw [h.2]⟩
      | err e => rw [hrec] at h; cases h
      | panic c => rw [hrec] at h; cases h

/-- `NttTable::new(2^j)` does not panic (its bit-size assertions hold), `1 ≤ j ≤ 16` -/
theorem nttTableK_ok (P : PrimeSet) (k j : Nat) (g : LaneFwd P k) (hj1 : 1 ≤ j) (hj : j ≤ 16) :
    ∃ t, nttTableK P k (2 ^ j) = .ok t := by
  have hchk := g.fwd j hj1 hj
  unfold fwdCheck at hchk
  simp only [] at hchk
  unfold nttTableK
  have hle : (2 : Nat) ^ j ≤ 2 ^ 16 := Nat.pow_le_pow_right (by decide) hj
  have hne1 : (2 : Nat) ^ j ≠ 1 := by
    have : 2 ^ 1 ≤ 2 ^ j := Nat.pow_le_pow_right (by decide) hj1
    omega
  simp only [isPow2_two_pow, hle, decide_true, Bool.and_self, Bool.not_true, Bool.false_eq_true, if_false, hne1, Nat.log2_two_pow]
  cases hm : fwdMetas (P.qs.getD k 1) P.logQ (reducOf P k).2 j (2 ^ j) (32 + P.logQ + 1) with
  | ok v =>
    obtain ⟨ms, b⟩ := v
    obtain ⟨ls, hls⟩ := fwdLevels_of_metas (P.qs.getD k 1) P.logQ
      (modqPow (P.omega.getD k 0) ((2 ^ 16 / 2 ^ j : Nat) : Int) (P.qs.getD k 1)) (2 ^ j) (reducOf P k).2 _ _ _ _ _ hm
    rw [hls]
    exact ⟨_, rfl⟩
  | err e => rw [hm] at hchk; cases hchk
  | panic c => rw [hm] at hchk; cases hchk

/-- `NttTableInv::new(2^j)` does not panic, `1 ≤ j ≤ 16` -/
theorem inttTableK_ok (P : PrimeSet) (k j : Nat) (gi : LaneInv P k) (hj1 : 1 ≤ j) (hj : j ≤ 16) :
    ∃ t, inttTableK P k (2 ^ j) = .ok t := by
  have hchk := gi.inv j hj1 hj
  unfold invCheck at hchk
  simp only [] at hchk
  unfold inttTableK
  have hle : (2 : Nat) ^ j ≤ 2 ^ 16 := Nat.pow_le_pow_right (by decide) hj
  have hne1 : (2 : Nat) ^ j ≠ 1 := by
    have : 2 ^ 1 ≤ 2 ^ j := Nat.pow_le_pow_right (by decide) hj1
    omega
  simp only [isPow2_two_pow, hle, decide_true, Bool.and_self, Bool.not_true, Bool.false_eq_true, if_false, hne1, Nat.log2_two_pow]
  cases hm : invMetas (P.qs.getD k 1) P.logQ (reducOf P k).2 (j - 1) 4 ((reducOf P k).2 + 1) with
  | ok v =>
    obtain ⟨ms, b⟩ := v
    obtain ⟨ls, hls⟩ := invLevels_of_metas (P.qs.getD k 1) P.logQ
      (modqPow (P.omega.getD k 0) ((2 ^ 16 / 2 ^ j : Nat) : Int) (P.qs.getD k 1)) (2 ^ j) (reducOf P k).2 _ _ _ _ _ hm
    rw [hls]
    rw [hm] at hchk
    simp only [Bool.and_eq_true, Bool.not_eq_true', decide_eq_false_iff_not] at hchk
    simp only []
    rw [if_neg hchk.1.1.1.1.1]
    exact ⟨_, rfl⟩
  | err e => rw [hm] at hchk; cases hchk
  | panic c => rw [hm] at hchk; cases hchk

end Ntt120
