import Poulpy.Lemmas.CoreOpsPhase

/-!
The column loops of the operations: a loop whose iteration `i` rewrites column `i` from the old
content of column `i` (and operand columns) succeeds and has a closed form.
-/

namespace C02L
open Hal Core Core.Ops

/-- what stays fixed across an operation -/
def Same (g r : GLWE) : Prop :=
  r.base2k = g.base2k ∧ r.k = g.k ∧ r.n = g.n ∧ r.cols.length = g.cols.length

theorem Same.refl (g : GLWE) : Same g g := ⟨rfl, rfl, rfl, rfl⟩
theorem Same.trans {a b c : GLWE} (h1 : Same a b) (h2 : Same b c) : Same a c :=
  ⟨h2.1.trans h1.1, h2.2.1.trans h1.2.1, h2.2.2.1.trans h1.2.2.1, h2.2.2.2.trans h1.2.2.2⟩

theorem Same.rank {g r : GLWE} (h : Same g r) : r.rank = g.rank := by
  unfold GLWE.rank; rw [h.2.2.2]

theorem getD_set {α} (l : List α) (i j : Nat) (x d : α) (hi : i < l.length) :
    (l.set i x).getD j d = if j = i then x else l.getD j d := by
  by_cases h : j = i
  · subst h; simp [List.getD_eq_getElem?_getD, hi]
  · simp [h, List.getD_eq_getElem?_getD, List.getElem?_set, Ne.symm h]

theorem forCols_spec (F : Nat → Col → Col) (body : Nat → GLWE → Outcome GLWE) (cnt : Nat) :
    ∀ (lo : Nat) (g : GLWE),
    (∀ i r, lo ≤ i → i < lo + cnt → r.cols.length = g.cols.length →
        body i r = .ok { r with cols := r.cols.set i (F i (r.cols.getD i [])) }) →
    lo + cnt ≤ g.cols.length →
    ∃ r', forCols cnt lo body g = .ok r' ∧ Same g r' ∧
      ∀ i, col r' i = if lo ≤ i ∧ i < lo + cnt then F i (col g i) else col g i := by
  induction cnt with
  | zero =>
    intro lo g _ _
    exact ⟨g, rfl, Same.refl g, fun i => by simp⟩
  | succ cnt ih =>
    intro lo g hb hlen
    have h0 := hb lo g (Nat.le_refl _) (by omega) rfl
    let g1 : GLWE := { g with cols := g.cols.set lo (F lo (g.cols.getD lo [])) }
    have hl1 : g1.cols.length = g.cols.length := by simp [g1]
    obtain ⟨r', hr, hs, hc⟩ := ih (lo + 1) g1
      (fun i r h1 h2 h3 => hb i r (by omega) (by omega) (by rw [h3, hl1])) (by rw [hl1]; omega)
    refine ⟨r', ?_, ⟨hs.1, hs.2.1, hs.2.2.1, hs.2.2.2.trans hl1⟩, ?_⟩
    · show bind (body lo g) (forCols cnt (lo + 1) body) = _
      rw [h0]; exact hr
    · intro i
      rw [hc i]
      have e : col g1 i = if i = lo then F lo (col g lo) else col g i := getD_set _ _ _ _ _ (by omega)
      rw [e]
      by_cases h1 : i = lo
      · subst h1; simp
      · by_cases h2 : lo + 1 ≤ i ∧ i < lo + 1 + cnt
        · have : lo ≤ i ∧ i < lo + (cnt + 1) := by omega
          simp [h1, h2, this]
        · have : ¬ (lo ≤ i ∧ i < lo + (cnt + 1)) := by omega
          simp [h1, h2, this]

theorem forRange_spec (F : Nat → Col → Col) (body : Nat → GLWE → Outcome GLWE) (lo hi : Nat) (g : GLWE)
    (hb : ∀ i r, lo ≤ i → i < hi → r.cols.length = g.cols.length →
        body i r = .ok { r with cols := r.cols.set i (F i (r.cols.getD i [])) })
    (hlen : hi ≤ g.cols.length) :
    ∃ r', forRange lo hi body g = .ok r' ∧ Same g r' ∧
      ∀ i, col r' i = if lo ≤ i ∧ i < hi then F i (col g i) else col g i := by
  unfold forRange
  by_cases h : lo ≤ hi
  · obtain ⟨r', h1, h2, h3⟩ := forCols_spec F body (hi - lo) lo g
      (fun i r a b c => hb i r a (by omega) c) (by omega)
    refine ⟨r', h1, h2, fun i => ?_⟩
    rw [h3 i]
    have : (lo ≤ i ∧ i < lo + (hi - lo)) ↔ (lo ≤ i ∧ i < hi) := by omega
    simp [this]
  · have e : hi - lo = 0 := by omega
    rw [e]
    refine ⟨g, rfl, Same.refl g, fun i => ?_⟩
    have : ¬ (lo ≤ i ∧ i < hi) := by omega
    simp [this]

/-! ### the loop bodies -/

theorem colOf_ok (a : GLWE) (i : Nat) (h : i < a.cols.length) : colOf a i = .ok (col a i) := by
  simp [colOf, col, List.getD_eq_getElem?_getD, List.getElem?_eq_getElem h]

theorem updCol_ok (i : Nat) (k : Col → Outcome Col) (r : GLWE) (c : Col) (h : i < r.cols.length)
    (hk : k (r.cols.getD i []) = .ok c) : updCol i k r = .ok { r with cols := r.cols.set i c } := by
  unfold updCol
  have e : r.cols[i]? = some (r.cols.getD i []) := by
    simp [List.getD_eq_getElem?_getD, List.getElem?_eq_getElem h]
  rw [e]
  simp only [hk, Ops.bind]

theorem fromCol_ok (a : GLWE) (K : Col → Col) (i : Nat) (r : GLWE) (ha : i < a.cols.length) (hr : i < r.cols.length) :
    fromCol a K i r = .ok { r with cols := r.cols.set i (K (col a i)) } := by
  unfold fromCol
  rw [colOf_ok a i ha]
  exact updCol_ok i _ r _ hr rfl

theorem withCol_ok (a : GLWE) (K : Col → Col → Col) (i : Nat) (r : GLWE) (ha : i < a.cols.length) (hr : i < r.cols.length) :
    withCol a K i r = .ok { r with cols := r.cols.set i (K (r.cols.getD i []) (col a i)) } := by
  unfold withCol
  rw [colOf_ok a i ha]
  exact updCol_ok i _ r _ hr rfl

theorem selfCol_ok (K : Col → Col) (i : Nat) (r : GLWE) (hr : i < r.cols.length) :
    selfCol K i r = .ok { r with cols := r.cols.set i (K (r.cols.getD i [])) } :=
  updCol_ok i _ r _ hr rfl

theorem check_true {α} (c : Bool) (k : Outcome α) (h : c = true) : check c k = k := by simp [check, h]

/-- well-formedness of a result all of whose columns have the right shape -/
theorem gwf_of_cols {N : Nat} {g r : GLWE} (hg : GWF N g) (hs : Same g r)
    (hc : ∀ i, i ≤ g.rank → ColWF N g.size (col r i)) : GWF N r ∧ r.size = g.size := by
  have hlen : r.cols.length = g.rank + 1 := by rw [hs.2.2.2, hg.len]
  have hsz : r.size = g.size := by
    have := (hc 0 (Nat.zero_le _)).1
    simpa [GLWE.size, col] using this
  refine ⟨⟨hs.2.2.1.trans hg.1, fun e => by simp [e] at hlen, ?_⟩, hsz⟩
  intro c hcm
  obtain ⟨i, hi, rfl⟩ := List.getElem_of_mem hcm
  have := hc i (by omega)
  rw [hsz]
  simpa [col, List.getD_eq_getElem?_getD, List.getElem?_eq_getElem hi] using this

end C02L
