import Poulpy.Model.Core.Ks
import Poulpy.Lemmas.HalSpec
import Poulpy.Lemmas.NegMul
import Poulpy.Lemmas.GadgetAlg
import Poulpy.Lemmas.GadgetPhase

/-!
Accumulation over the passes of the `dsize > 1` branch of `gglwe_product_dft`
(`Ks.gglweProductDft`): the result is characterised limb by limb and column by column as
"pass 0 writes its vector-matrix product into the limbs `< passSize 0` and zeroes the others, every
later pass `di` adds its vector-matrix product into the limbs `< passSize di`"; consequently the result
does not depend on the previous content of `res` (`product_determined_gt1`).

Every per-pass quantity (`aiSize`, `passSize`, `aiFlatOf`, `passEntry`) is an explicit function of
the inputs `a`, `key` only — independent of the loop state.
-/

namespace Ks
open Hal

/-! ### explicit per-pass quantities -/

/-- size of `ai_dft` in pass `di` -/
def aiSize (a : Buf) (key : Key) (di : Nat) : Nat := min ((a.size + di) / key.dsize) key.mat.rows

/-- size of `res` / `res_dft_tmp` in pass `di` -/
def passSize (key : Key) (di : Nat) : Nat := key.mat.size - (key.dsize - di - 2)

/-- the flat (limb-major) view of the `ai_dft` buffer of pass `di`, as a function of the input only:
entry `r` is limb `r / cols` of `dftApplyCol n dsize (dsize-di-1) (aiSize di) (a.act (r % cols))` -/
def aiFlatOf (a : Buf) (key : Key) (n di : Nat) : List Poly :=
  (List.range (aiSize a key di * a.cols)).map (fun r =>
    limbOr0 n (dftApplyCol n key.dsize (key.dsize - di - 1) (aiSize a key di) (a.act (r % a.cols))) (r / a.cols))

/-- entry (limb `l`, column `c`) of the vector-matrix product of pass `di` (`limb_offset = di`) -/
def passEntry (a : Buf) (key : Key) (n di l c : Nat) : Poly :=
  (vmpFlat n (aiFlatOf a key n di) key.mat di (passSize key di * key.mat.colsOut)).getD (l * key.mat.colsOut + c) (zeroP n)

/-- raw limb `l` of column `c` of a buffer, *including* the limbs between `size` and `maxSize` -/
def rawLimb (n : Nat) (b : Buf) (c l : Nat) : Poly := limbOr0 n (b.data.getD c []) l

/-- effect of pass `di` on the value `v` held by limb `l`, column `c` of `res`: pass 0 writes its
product into the limbs `< passSize 0` and zeroes the others; pass `di > 0` adds its product into the
limbs `< passSize di` -/
def stepVal (a : Buf) (key : Key) (n l c di : Nat) (v : Poly) : Poly :=
  if di = 0 then
    (if l < passSize key 0 then passEntry a key n 0 l c else zeroP n)
  else
    (if l < passSize key di then polyAdd v (passEntry a key n di l c) else v)

/-! ### list / buffer plumbing on the raw data -/

theorem getD_append_drop {α} (x ys : List α) (s l : Nat) (d : α) (hx : x.length = s) :
    (x ++ ys.drop s).getD l d = if l < s then x.getD l d else ys.getD l d := by
  subst hx
  by_cases h : l < x.length
  · rw [if_pos h]
    simp [List.getD_eq_getElem?_getD, List.getElem?_append_left h]
  · rw [if_neg h]
    have h' : x.length ≤ l := Nat.le_of_not_lt h
    simp only [List.getD_eq_getElem?_getD, List.getElem?_append_right h', List.getElem?_drop]
    congr 2
    omega

theorem setAct_maxSize (b : Buf) (c : Nat) (x : Col) : (b.setAct c x).maxSize = b.maxSize := rfl

theorem setAct_data_same (b : Buf) (h : b.WF) (c : Nat) (hc : c < b.cols) (x : Col) (hx : x.length = b.size) :
    (b.setAct c x).data.getD c [] = x ++ (b.data.getD c []).drop b.size := by
  unfold Buf.setAct
  simp only
  rw [getD_set_same _ _ _ _ (by rw [h.1]; exact hc)]
  rw [List.take_of_length_le (by omega : (x).length ≤ b.size)]

theorem setAct_data_other (b : Buf) (c c' : Nat) (x : Col) (h : c' ≠ c) :
    (b.setAct c x).data.getD c' [] = b.data.getD c' [] := by
  unfold Buf.setAct
  simp only
  rw [getD_set_other _ _ _ _ _ h]

/-- column loop `for c in L { acc.setAct c (F acc c) }` where the written value only depends on the
shape of the accumulator and on its column `c`: raw-data version (limbs `≥ size` are kept). -/
theorem foldl_setActF (F : Buf → Nat → Col) (L : List Nat) (b : Buf) (hb : b.WF) (hL : L.Nodup) (hLc : ∀ c ∈ L, c < b.cols)
    (hF : ∀ acc acc' c, acc.n = acc'.n → acc.size = acc'.size → acc.act c = acc'.act c → F acc c = F acc' c)
    (hg : ∀ acc c, acc.WF → acc.size = b.size → c < acc.cols → (F acc c).length = acc.size) :
    let r := L.foldl (fun (acc : Buf) c => acc.setAct c (F acc c)) b
    r.WF ∧ r.cols = b.cols ∧ r.size = b.size ∧ r.n = b.n ∧ r.maxSize = b.maxSize ∧
      ∀ c, r.data.getD c [] = if c ∈ L then F b c ++ (b.data.getD c []).drop b.size else b.data.getD c [] := by
  induction L generalizing b with
  | nil => simp [hb]
  | cons c0 rest ih =>
    have hc0 : c0 < b.cols := hLc c0 List.mem_cons_self
    have hnd := List.nodup_cons.mp hL
    have hlen := hg b c0 hb rfl hc0
    have hwf := Buf.setAct_WF b hb c0 hc0 (F b c0) hlen
    have := ih (b.setAct c0 (F b c0)) hwf hnd.2 (fun c hc => hLc c (List.mem_cons_of_mem _ hc)) hg
    simp only [List.foldl_cons]
    refine ⟨this.1, this.2.1, this.2.2.1, this.2.2.2.1, this.2.2.2.2.1, ?_⟩
    intro c
    rw [this.2.2.2.2.2 c]
    by_cases hcr : c ∈ rest
    · have hne : c ≠ c0 := fun e => hnd.1 (e ▸ hcr)
      simp only [hcr, if_true, List.mem_cons, or_true]
      rw [setAct_data_other _ _ _ _ hne,
        hF (b.setAct c0 (F b c0)) b c rfl rfl (Buf.act_setAct_other b c0 c _ hne)]
      rfl
    · by_cases hcc : c = c0
      · subst hcc
        simp only [hcr, if_false, List.mem_cons, true_or, if_true]
        exact setAct_data_same b hb c hc0 _ hlen
      · simp only [hcr, if_false, List.mem_cons, hcc, false_or]
        exact setAct_data_other b c0 c _ hcc

/-- active column from the raw data -/
theorem act_of_data (r : Buf) (c : Nat) (x tl : Col) (hx : x.length = r.size) (h : r.data.getD c [] = x ++ tl) :
    r.act c = x := by
  unfold Buf.act
  rw [h, List.take_append_of_le_length (by omega), List.take_of_length_le (by omega)]

theorem getD_take' {α} (x : List α) (s l : Nat) (d : α) (h : l < s) : (x.take s).getD l d = x.getD l d := by
  simp [List.getD_eq_getElem?_getD, h]

theorem assignCol_getD (f : Poly → Poly → Poly) (r t : Col) (j : Nat) (d d' : Poly) (hr : j < r.length) (ht : j < t.length) :
    (assignCol f r t).getD j d = f (r.getD j d) (t.getD j d') := by
  unfold assignCol
  simp [List.getD_eq_getElem?_getD, hr, ht]

/-- `Buf.setFlat` on the raw data: the active limbs receive the flat vector, the others are kept -/
theorem setFlat_spec (b : Buf) (hb : b.WF) (fl : List Poly) :
    (b.setFlat fl).WF ∧ (b.setFlat fl).cols = b.cols ∧ (b.setFlat fl).size = b.size ∧ (b.setFlat fl).n = b.n ∧
    (b.setFlat fl).maxSize = b.maxSize ∧
    ∀ c l, c < b.cols → rawLimb b.n (b.setFlat fl) c l =
      if l < b.size then fl.getD (l * b.cols + c) (zeroP b.n) else rawLimb b.n b c l := by
  unfold Buf.setFlat
  have h := foldl_setActF (fun _ c => (List.range b.size).map (fun j => fl.getD (j * b.cols + c) (zeroP b.n)))
    (List.range b.cols) b hb List.nodup_range (fun c hc => List.mem_range.mp hc)
    (by intro _ _ _ _ _ _; rfl) (by intro acc c _ hs _; simp [hs])
  simp only at h
  obtain ⟨h1, h2, h3, h4, h5, h6⟩ := h
  refine ⟨h1, h2, h3, h4, h5, ?_⟩
  intro c l hc
  unfold rawLimb limbOr0
  rw [h6 c, if_pos (List.mem_range.mpr hc), getD_append_drop _ _ b.size l _ (by simp)]
  by_cases hl : l < b.size
  · rw [if_pos hl, if_pos hl, mapRange_getD _ _ _ _ hl]
  · rw [if_neg hl, if_neg hl]

/-- the loop `for c in 0..cols { vec_znx_dft_add_assign(res, c, tmp, c) }` on the raw data -/
theorem addAssign_spec (b t : Buf) (n : Nat) (hb : b.WF) (ht : t.WF) (hc : t.cols = b.cols) (hs : t.size = b.size) :
    let r := (List.range b.cols).foldl (fun (acc : Buf) c => opAssign polyAdd acc c t c) b
    r.WF ∧ r.cols = b.cols ∧ r.size = b.size ∧ r.n = b.n ∧ r.maxSize = b.maxSize ∧
    ∀ c l, c < b.cols → rawLimb n r c l =
      if l < b.size then polyAdd (rawLimb n b c l) (limbOr0 n (t.act c) l) else rawLimb n b c l := by
  have h := foldl_setActF (fun acc c => assignCol polyAdd (acc.act c) (t.act c))
    (List.range b.cols) b hb List.nodup_range (fun c hc => List.mem_range.mp hc)
    (by intro acc acc' c _ _ h3; simp only [h3])
    (by intro acc c hw _ hcc; rw [assignCol_length]; exact Buf.act_length acc hw c hcc)
  simp only at h
  obtain ⟨h1, h2, h3, h4, h5, h6⟩ := h
  refine ⟨h1, h2, h3, h4, h5, ?_⟩
  intro c l hcl
  unfold rawLimb limbOr0
  unfold opAssign
  rw [h6 c, if_pos (List.mem_range.mpr hcl),
    getD_append_drop _ _ b.size l _ (by rw [assignCol_length]; exact Buf.act_length b hb c hcl)]
  by_cases hl : l < b.size
  · rw [if_pos hl, if_pos hl,
      assignCol_getD polyAdd _ _ l _ (zeroP n) (by rw [Buf.act_length b hb c hcl]; exact hl)
        (by rw [Buf.act_length t ht c (by rw [hc]; exact hcl), hs]; exact hl)]
    congr 1
    unfold Buf.act
    exact getD_take' _ _ _ _ hl
  · rw [if_neg hl, if_neg hl]

theorem getD_take_append_replicate {α} (x : List α) (w k l : Nat) (z : α) (hw : w ≤ x.length) :
    (x.take w ++ List.replicate k z).getD l z = if l < w then x.getD l z else z := by
  have hlen : (x.take w).length = w := by rw [List.length_take]; omega
  by_cases h : l < w
  · rw [if_pos h, List.getD_eq_getElem?_getD, List.getElem?_append_left (by omega), ← List.getD_eq_getElem?_getD]
    exact getD_take' _ _ _ _ h
  · rw [if_neg h, List.getD_eq_getElem?_getD, List.getElem?_append_right (by omega), List.getElem?_replicate]
    split <;> simp

/-- a raw limb beyond the capacity reads as the default -/
theorem rawLimb_ge (n : Nat) (b : Buf) (hb : b.WF) (c l : Nat) (hc : c < b.cols) (hl : b.maxSize ≤ l) :
    rawLimb n b c l = zeroP n := by
  unfold rawLimb limbOr0
  rw [List.getD_eq_getElem?_getD, List.getElem?_eq_none (by rw [hb.2.2 c hc]; exact hl)]
  rfl

/-- the loop `for col in 0..cols { zeroFrom(b, col, w) }` on the raw data: the active limbs `≥ w` of
every column are zeroed, everything else is kept -/
theorem zeroFrom_spec (b : Buf) (n w : Nat) (hb : b.WF) (hn : b.n = n) (hw : w ≤ b.size) :
    let r := (List.range b.cols).foldl (fun (acc : Buf) col => zeroFrom acc col w) b
    r.WF ∧ r.cols = b.cols ∧ r.size = b.size ∧ r.n = b.n ∧ r.maxSize = b.maxSize ∧
    ∀ c l, c < b.cols → rawLimb n r c l =
      if l < b.size then (if l < w then rawLimb n b c l else zeroP n) else rawLimb n b c l := by
  have h := foldl_setActF (fun acc c => (acc.act c).take w ++ List.replicate (acc.size - w) (zeroP acc.n))
    (List.range b.cols) b hb List.nodup_range (fun c hc => List.mem_range.mp hc)
    (by intro acc acc' c h1 h2 h3; simp only [h1, h2, h3])
    (by intro acc c hwf hs hcc
        rw [List.length_append, List.length_take, List.length_replicate, Buf.act_length acc hwf c hcc]
        omega)
  simp only at h
  obtain ⟨h1, h2, h3, h4, h5, h6⟩ := h
  refine ⟨h1, h2, h3, h4, h5, ?_⟩
  intro c l hcl
  unfold zeroFrom
  unfold rawLimb limbOr0
  rw [h6 c, if_pos (List.mem_range.mpr hcl),
    getD_append_drop _ _ b.size l _ (by
      rw [List.length_append, List.length_take, List.length_replicate, Buf.act_length b hb c hcl]; omega)]
  by_cases hl : l < b.size
  · rw [if_pos hl, if_pos hl, hn,
      getD_take_append_replicate _ _ _ _ _ (by rw [Buf.act_length b hb c hcl]; exact hw)]
    by_cases hlw : l < w
    · rw [if_pos hlw, if_pos hlw]
      unfold Buf.act
      exact getD_take' _ _ _ _ hl
    · rw [if_neg hlw, if_neg hlw]
  · rw [if_neg hl, if_neg hl]

/-! ### one pass of the loop -/

/-- `set_size` -/
@[reducible] def resize (b : Buf) (s : Nat) : Buf := { b with size := s }

@[simp] theorem resize_n (b : Buf) (s : Nat) : (resize b s).n = b.n := rfl
@[simp] theorem resize_cols (b : Buf) (s : Nat) : (resize b s).cols = b.cols := rfl
@[simp] theorem resize_size (b : Buf) (s : Nat) : (resize b s).size = s := rfl
@[simp] theorem resize_maxSize (b : Buf) (s : Nat) : (resize b s).maxSize = b.maxSize := rfl
@[simp] theorem resize_data (b : Buf) (s : Nat) : (resize b s).data = b.data := rfl
@[simp] theorem rawLimb_resize (n : Nat) (b : Buf) (s c l : Nat) : rawLimb n (resize b s) c l = rawLimb n b c l := rfl

theorem resize_WF (b : Buf) (s : Nat) (hb : b.WF) (hs : s ≤ b.maxSize) : (resize b s).WF := ⟨hb.1, hs, hb.2.2⟩

/-- `vmp_apply_dft_to_dft(d, ai, m, lo)` on the raw data -/
theorem opVmp_spec (d ai : Buf) (m : PMat) (lo : Nat) (hd : d.WF) :
    (opVmp d ai m lo).WF ∧ (opVmp d ai m lo).cols = d.cols ∧ (opVmp d ai m lo).size = d.size ∧
    (opVmp d ai m lo).n = d.n ∧ (opVmp d ai m lo).maxSize = d.maxSize ∧
    ∀ c l, c < d.cols → rawLimb d.n (opVmp d ai m lo) c l =
      if l < d.size then (vmpFlat d.n ai.flat m lo (d.size * d.cols)).getD (l * d.cols + c) (zeroP d.n)
      else rawLimb d.n d c l :=
  setFlat_spec d hd _

/-- the `ai_dft` buffer after the column loop of pass `di` -/
def aiStep (a : Buf) (key : Key) (st : ProdSt) (di : Nat) : Buf :=
  (List.range a.cols).foldl
    (fun (acc : Buf) j => acc.setAct j (dftApplyCol acc.n key.dsize (key.dsize - di - 1) acc.size (a.act j)))
    (resize st.ai (aiSize a key di))

theorem productStep_zero_eq (a : Buf) (key : Key) (st : ProdSt) :
    productStep a key st 0 =
      { res := (List.range (opVmp (resize st.res (passSize key 0)) (aiStep a key st 0) key.mat 0).cols).foldl
          (fun (acc : Buf) col => zeroFrom acc col
            (opVmp (resize st.res (passSize key 0)) (aiStep a key st 0) key.mat 0).size)
          (resize (opVmp (resize st.res (passSize key 0)) (aiStep a key st 0) key.mat 0) key.mat.size),
        ai := aiStep a key st 0, tmp := st.tmp } := by
  unfold productStep aiStep aiSize passSize resize
  rfl

theorem productStep_pos_eq (a : Buf) (key : Key) (st : ProdSt) (di : Nat) (hdi : di ≠ 0) :
    productStep a key st di =
      { res := (List.range st.res.cols).foldl
          (fun (acc : Buf) c => opAssign polyAdd acc c
            (opVmp (resize st.tmp (passSize key di)) (aiStep a key st di) key.mat di) c)
          (resize st.res (passSize key di)),
        ai := aiStep a key st di,
        tmp := opVmp (resize st.tmp (passSize key di)) (aiStep a key st di) key.mat di } := by
  unfold productStep aiStep aiSize passSize resize
  simp only [if_neg hdi]
  rfl

/-- **the `ai_dft` buffer of pass `di` depends only on the input**: whatever the previous passes left
in it, after the `vec_znx_dft_copy` loop its flat view is `aiFlatOf a key n di` -/
theorem aiStep_spec (a : Buf) (key : Key) (st : ProdSt) (di : Nat) (hwf : st.ai.WF) (hcols : st.ai.cols = a.cols)
    (hsz : aiSize a key di ≤ st.ai.maxSize) :
    (aiStep a key st di).WF ∧ (aiStep a key st di).cols = a.cols ∧ (aiStep a key st di).n = st.ai.n ∧
    (aiStep a key st di).maxSize = st.ai.maxSize ∧ (aiStep a key st di).flat = aiFlatOf a key st.ai.n di := by
  have hwf' : (resize st.ai (aiSize a key di)).WF := resize_WF _ _ hwf hsz
  have h := foldl_setActF (fun acc j => dftApplyCol acc.n key.dsize (key.dsize - di - 1) acc.size (a.act j))
    (List.range a.cols) _ hwf' List.nodup_range
    (fun j hj => by show j < st.ai.cols; rw [hcols]; exact List.mem_range.mp hj)
    (by intro acc acc' c h1 h2 _; simp only [h1, h2]) (by intro acc c _ _ _; simp)
  simp only at h
  unfold aiStep
  generalize hX : (List.range a.cols).foldl
    (fun (acc : Buf) j => acc.setAct j (dftApplyCol acc.n key.dsize (key.dsize - di - 1) acc.size (a.act j)))
    (resize st.ai (aiSize a key di)) = X at h ⊢
  obtain ⟨h1, h2, h3, h4, h5, h6⟩ := h
  have h2' : X.cols = a.cols := h2.trans hcols
  refine ⟨h1, h2', h4, h5, ?_⟩
  unfold Buf.flat aiFlatOf
  rw [h3, h2', h4]
  apply List.map_congr_left
  intro r hr
  have hr' : r < aiSize a key di * a.cols := List.mem_range.mp hr
  have hpos : 0 < a.cols := by
    rcases Nat.eq_zero_or_pos a.cols with h0 | h0
    · rw [h0] at hr'; omega
    · exact h0
  have hmod : r % a.cols < a.cols := Nat.mod_lt _ hpos
  rw [act_of_data X (r % a.cols)
    (dftApplyCol st.ai.n key.dsize (key.dsize - di - 1) (aiSize a key di) (a.act (r % a.cols)))
    (List.drop (aiSize a key di) (st.ai.data.getD (r % a.cols) [])) (by rw [h3]; simp)
    (by rw [h6, if_pos (List.mem_range.mpr hmod)])]

/-- shape invariant of the loop state -/
structure Shapes (res a : Buf) (key : Key) (st : ProdSt) : Prop where
  rwf : st.res.WF
  rcols : st.res.cols = res.cols
  rn : st.res.n = res.n
  rmax : st.res.maxSize = key.mat.size
  awf : st.ai.WF
  acols : st.ai.cols = a.cols
  an : st.ai.n = res.n
  amax : st.ai.maxSize = min (divCeil a.size key.dsize) key.mat.rows
  twf : st.tmp.WF
  tcols : st.tmp.cols = res.cols
  tn : st.tmp.n = res.n
  tmax : st.tmp.maxSize = key.mat.size

theorem aiSize_le (a : Buf) (key : Key) (di : Nat) (hdi : di < key.dsize) :
    aiSize a key di ≤ min (divCeil a.size key.dsize) key.mat.rows := by
  unfold aiSize divCeil
  have := Nat.div_le_div_right (c := key.dsize) (show a.size + di ≤ a.size + key.dsize - 1 by omega)
  omega

theorem passSize_le (key : Key) (di : Nat) : passSize key di ≤ key.mat.size := by
  unfold passSize; omega

/-- **pass 0**: shapes are preserved; limbs `< passSize 0` of `res` are overwritten with the
vector-matrix product, the other limbs are zeroed: the previous content of `res` is erased -/
theorem productStep_zero (res a : Buf) (key : Key) (st : ProdSt) (hcols : res.cols = key.mat.colsOut)
    (hD : 0 < key.dsize) (hs : Shapes res a key st) :
    Shapes res a key (productStep a key st 0) ∧
    ∀ c l, c < res.cols →
      rawLimb res.n (productStep a key st 0).res c l = stepVal a key res.n l c 0 (rawLimb res.n st.res c l) := by
  obtain ⟨a1, a2, a3, a4, a5⟩ := aiStep_spec a key st 0 hs.awf hs.acols (by rw [hs.amax]; exact aiSize_le a key 0 hD)
  have hwf : (resize st.res (passSize key 0)).WF :=
    resize_WF _ _ hs.rwf (by rw [hs.rmax]; exact passSize_le key 0)
  obtain ⟨r1, r2, r3, r4, r5, r6⟩ := opVmp_spec _ (aiStep a key st 0) key.mat 0 hwf
  rw [productStep_zero_eq]
  simp only [rawLimb_resize, hs.rn, hs.rcols, hcols, a5, hs.an] at r2 r3 r4 r5 r6
  generalize opVmp (resize st.res (passSize key 0)) (aiStep a key st 0) key.mat 0 = r0 at r1 r2 r3 r4 r5 r6 ⊢
  have hwf1 : (resize r0 key.mat.size).WF := resize_WF _ _ r1 (by rw [r5, hs.rmax])
  have hz := zeroFrom_spec (resize r0 key.mat.size) res.n (passSize key 0) hwf1 r4 (passSize_le key 0)
  simp only [rawLimb_resize] at hz
  obtain ⟨z1, z2, z3, z4, z5, z6⟩ := hz
  rw [r2, r3]
  rw [r2] at z1 z2 z3 z4 z5 z6
  refine ⟨⟨z1, z2.trans hcols.symm, z4.trans r4, z5.trans (r5.trans hs.rmax), a1, a2, a3.trans hs.an,
    a4.trans hs.amax, hs.twf, hs.tcols, hs.tn, hs.tmax⟩, ?_⟩
  intro c l hc
  have hc' : c < key.mat.colsOut := by rw [← hcols]; exact hc
  simp only [z6 c l hc']
  unfold stepVal passEntry
  simp only [if_true]
  by_cases hl : l < passSize key 0
  · have hl' : l < key.mat.size := Nat.lt_of_lt_of_le hl (passSize_le key 0)
    simp only [if_pos hl, if_pos hl', r6 c l hc']
  · simp only [if_neg hl]
    by_cases hl' : l < key.mat.size
    · simp only [if_pos hl']
    · simp only [if_neg hl']
      exact rawLimb_ge res.n r0 r1 c l (by rw [r2]; exact hc') (by rw [r5, hs.rmax]; omega)

/-- **pass `di > 0`**: shapes are preserved; the vector-matrix product with `limb_offset = di` is
*added* into the limbs `< passSize di` of `res`, the other limbs keep their previous content -/
theorem productStep_pos (res a : Buf) (key : Key) (st : ProdSt) (di : Nat) (hdi0 : di ≠ 0) (hdi : di < key.dsize)
    (hcols : res.cols = key.mat.colsOut) (hs : Shapes res a key st) :
    Shapes res a key (productStep a key st di) ∧
    ∀ c l, c < res.cols →
      rawLimb res.n (productStep a key st di).res c l = stepVal a key res.n l c di (rawLimb res.n st.res c l) := by
  obtain ⟨a1, a2, a3, a4, a5⟩ := aiStep_spec a key st di hs.awf hs.acols (by rw [hs.amax]; exact aiSize_le a key di hdi)
  have hwt : (resize st.tmp (passSize key di)).WF :=
    resize_WF _ _ hs.twf (by rw [hs.tmax]; exact passSize_le key di)
  obtain ⟨t1, t2, t3, t4, t5, t6⟩ := opVmp_spec _ (aiStep a key st di) key.mat di hwt
  have hwr : (resize st.res (passSize key di)).WF :=
    resize_WF _ _ hs.rwf (by rw [hs.rmax]; exact passSize_le key di)
  have h := addAssign_spec (resize st.res (passSize key di))
    (opVmp (resize st.tmp (passSize key di)) (aiStep a key st di) key.mat di) res.n hwr t1
    (t2.trans (hs.tcols.trans hs.rcols.symm)) t3
  simp only [rawLimb_resize] at h t2 t3 t4 t5 t6
  obtain ⟨r1, r2, r3, r4, r5, r6⟩ := h
  rw [productStep_pos_eq _ _ _ _ hdi0]
  refine ⟨⟨r1, r2.trans hs.rcols, r4.trans hs.rn, r5.trans hs.rmax, a1, a2, a3.trans hs.an, a4.trans hs.amax,
    t1, t2.trans hs.tcols, t4.trans hs.tn, t5.trans hs.tmax⟩, ?_⟩
  intro c l hc
  have hc' : c < st.res.cols := by rw [hs.rcols]; exact hc
  simp only [r6 c l hc']
  unfold stepVal
  rw [if_neg hdi0]
  by_cases hl : l < passSize key di
  · simp only [if_pos hl]
    congr 1
    have ht := t6 c l (by rw [hs.tcols]; exact hc)
    simp only [hs.tn, hs.tcols, hcols, a5, hs.an, if_pos hl] at ht
    unfold passEntry
    rw [← ht]
    unfold rawLimb limbOr0 Buf.act
    rw [t3]
    exact getD_take' _ _ _ _ hl
  · simp only [if_neg hl]

/-- one pass, any `di < dsize` -/
theorem productStep_spec (res a : Buf) (key : Key) (st : ProdSt) (di : Nat) (hdi : di < key.dsize)
    (hcols : res.cols = key.mat.colsOut) (hs : Shapes res a key st) :
    Shapes res a key (productStep a key st di) ∧
    ∀ c l, c < res.cols →
      rawLimb res.n (productStep a key st di).res c l = stepVal a key res.n l c di (rawLimb res.n st.res c l) := by
  by_cases h0 : di = 0
  · subst h0
    exact productStep_zero res a key st hcols hdi hs
  · exact productStep_pos res a key st di h0 hdi hcols hs

/-! ### the loop -/

/-- the loop invariant after `k ≤ dsize` passes -/
theorem product_loop (res a : Buf) (key : Key) (st0 : ProdSt) (hcols : res.cols = key.mat.colsOut)
    (hs : Shapes res a key st0) (k : Nat) (hk : k ≤ key.dsize) :
    Shapes res a key ((List.range k).foldl (productStep a key) st0) ∧
    ∀ c l, c < res.cols →
      rawLimb res.n ((List.range k).foldl (productStep a key) st0).res c l =
        (List.range k).foldl (fun v di => stepVal a key res.n l c di v) (rawLimb res.n st0.res c l) := by
  induction k with
  | zero => exact ⟨hs, fun _ _ _ => rfl⟩
  | succ k ih =>
    obtain ⟨ih1, ih2⟩ := ih (by omega)
    rw [List.range_succ, List.foldl_append]
    simp only [List.foldl_cons, List.foldl_nil]
    obtain ⟨s1, s2⟩ := productStep_spec res a key _ k (by omega) hcols ih1
    refine ⟨s1, ?_⟩
    intro c l hc
    rw [s2 c l hc, ih2 c l hc, List.foldl_append]
    rfl

theorem initial_shapes (res a : Buf) (key : Key) (hres : res.WF) (hmax : res.maxSize = key.mat.size) (hn : res.n = a.n) :
    Shapes res a key
      { res := res, ai := zeroBuf a.n a.cols (min (divCeil a.size key.dsize) key.mat.rows),
        tmp := zeroBuf res.n res.cols key.mat.size } :=
  ⟨hres, rfl, rfl, hmax, zeroBuf_WF _ _ _, rfl, hn.symm, rfl, zeroBuf_WF _ _ _, rfl, rfl, rfl⟩

/-- fold form of the accumulation theorem over all `dsize` passes (`stepVal`); also covers `dsize = 0`,
where no pass runs and the raw limbs of `res` are returned. -/
theorem product_accum_raw (res a : Buf) (key : Key) (hD : key.dsize ≠ 1) (hres : res.WF)
    (hmax : res.maxSize = key.mat.size) (hcols : res.cols = key.mat.colsOut)
    (hn : res.n = a.n) (l c : Nat) (hc : c < res.cols) :
    limbOr0 res.n ((gglweProductDft res a key).act c) l =
      (List.range key.dsize).foldl (fun v di => stepVal a key res.n l c di v) (rawLimb res.n res c l) := by
  obtain ⟨h1, h2⟩ := product_loop res a key _ hcols (initial_shapes res a key hres hmax hn) key.dsize (Nat.le_refl _)
  rw [← h2 c l hc]
  unfold gglweProductDft
  simp only [if_neg hD]
  generalize (List.range key.dsize).foldl (productStep a key)
    { res := res, ai := zeroBuf a.n a.cols (min (divCeil a.size key.dsize) key.mat.rows),
      tmp := zeroBuf res.n res.cols key.mat.size } = st at h1
  show limbOr0 res.n ((st.res.data.getD c []).take st.res.maxSize) l = limbOr0 res.n (st.res.data.getD c []) l
  rw [List.take_of_length_le (by have := h1.rwf.2.2 c (by rw [h1.rcols]; exact hc); omega)]

theorem passSize_last (key : Key) (hD : 0 < key.dsize) : passSize key (key.dsize - 1) = key.mat.size := by
  unfold passSize; omega

theorem passSize_mono (key : Key) (d d' : Nat) (h : d ≤ d') : passSize key d ≤ passSize key d' := by
  unfold passSize; omega

/-- **Accumulation over the passes of the `dsize > 1` branch of `gglwe_product_dft`.**
Limb `l`, column `c` of the result: pass 0 writes its vector-matrix product into the limbs
`< passSize 0` and zeroes the others, and every later pass `di = k+1` *adds* its product
(`limb_offset = di`) into the limbs `< passSize di`.  The previous content of `res` does not appear. -/
theorem product_accum (res a : Buf) (key : Key) (hD : 2 ≤ key.dsize) (hres : res.WF)
    (hmax : res.maxSize = key.mat.size) (hcols : res.cols = key.mat.colsOut)
    (hn : res.n = a.n) (l c : Nat) (hc : c < res.cols) :
    limbOr0 res.n ((gglweProductDft res a key).act c) l =
      (List.range (key.dsize - 1)).foldl
        (fun acc k => if l < passSize key (k + 1) then polyAdd acc (passEntry a key res.n (k + 1) l c) else acc)
        (if l < passSize key 0 then passEntry a key res.n 0 l c else zeroP res.n) := by
  rw [product_accum_raw res a key (by omega) hres hmax hcols hn l c hc]
  have hd : key.dsize = (key.dsize - 1) + 1 := by omega
  conv => lhs; rw [hd, List.range_succ_eq_map, List.foldl_cons, List.foldl_map]
  congr 1

/-- the result has `key.mat.size` active limbs in every column -/
theorem product_act_length (res a : Buf) (key : Key) (hD : key.dsize ≠ 1) (hres : res.WF)
    (hmax : res.maxSize = key.mat.size) (hcols : res.cols = key.mat.colsOut) (hn : res.n = a.n)
    (c : Nat) (hc : c < res.cols) :
    ((gglweProductDft res a key).act c).length = key.mat.size := by
  obtain ⟨h1, _⟩ := product_loop res a key _ hcols (initial_shapes res a key hres hmax hn) key.dsize (Nat.le_refl _)
  unfold gglweProductDft
  simp only [if_neg hD]
  generalize (List.range key.dsize).foldl (productStep a key)
    { res := res, ai := zeroBuf a.n a.cols (min (divCeil a.size key.dsize) key.mat.rows),
      tmp := zeroBuf res.n res.cols key.mat.size } = st at h1
  show ((st.res.data.getD c []).take st.res.maxSize).length = key.mat.size
  rw [List.length_take, h1.rwf.2.2 c (by rw [h1.rcols]; exact hc), h1.rmax]
  omega

theorem ext_getD {α} (x y : List α) (d : α) (hlen : x.length = y.length) (h : ∀ l, x.getD l d = y.getD l d) : x = y := by
  apply List.ext_getElem hlen
  intro i h1 h2
  have := h i
  simpa [List.getD_eq_getElem?_getD, h1, h2] using this

/-- **Determinacy of the `dsize > 1` branch**: the result does not depend on the previous content
(nor on the entry size) of `res`. -/
theorem product_determined_gt1 (r₁ r₂ a : Buf) (key : Key) (hD : 2 ≤ key.dsize) (h1 : r₁.WF) (h2 : r₂.WF)
    (hm1 : r₁.maxSize = key.mat.size) (hm2 : r₂.maxSize = key.mat.size)
    (hc1 : r₁.cols = key.mat.colsOut) (hc2 : r₂.cols = key.mat.colsOut)
    (hn1 : r₁.n = a.n) (hn2 : r₂.n = a.n) (c : Nat) (hc : c < r₁.cols) :
    (gglweProductDft r₁ a key).act c = (gglweProductDft r₂ a key).act c := by
  have hc' : c < r₂.cols := by rw [hc2, ← hc1]; exact hc
  apply ext_getD _ _ (zeroP a.n)
  · rw [product_act_length r₁ a key (by omega) h1 hm1 hc1 hn1 c hc,
      product_act_length r₂ a key (by omega) h2 hm2 hc2 hn2 c hc']
  · intro l
    have e1 := product_accum r₁ a key hD h1 hm1 hc1 hn1 l c hc
    have e2 := product_accum r₂ a key hD h2 hm2 hc2 hn2 l c hc'
    rw [hn1] at e1
    rw [hn2] at e2
    exact e1.trans e2.symm

/-! ### a concrete instance (`dsize = 3`, one row, one column, `n = 1`) -/

namespace AccumExample

def exKey3 : Key := { base2k := 4, dsize := 3, p := 1,
                      mat := { n := 1, rows := 1, colsIn := 1, colsOut := 1, size := 4, data := [[[[1], [1], [1], [1]]]] } }
def exA3 : Buf := { n := 1, cols := 1, size := 1, maxSize := 1, data := [[[1]]] }
def dirty3 : Buf := { n := 1, cols := 1, size := 4, maxSize := 4, data := [[[0], [0], [0], [5]]] }

theorem dirty3_WF : dirty3.WF := by
  refine ⟨rfl, Nat.le_refl _, ?_⟩
  intro c hc
  have : c = 0 := by simp only [dirty3] at hc; omega
  subst this
  rfl

/-- non-vacuity: `product_accum` applies to a zeroed `res` … -/
example (l : Nat) :
    limbOr0 1 ((gglweProductDft (zeroBuf 1 1 4) exA3 exKey3).act 0) l =
      (List.range 2).foldl
        (fun acc k => if l < passSize exKey3 (k + 1) then polyAdd acc (passEntry exA3 exKey3 1 (k + 1) l 0) else acc)
        (if l < passSize exKey3 0 then passEntry exA3 exKey3 1 0 l 0 else zeroP 1) :=
  product_accum (zeroBuf 1 1 4) exA3 exKey3 (by decide) (zeroBuf_WF 1 1 4) rfl rfl rfl l 0 (by decide)

/-- … and to a dirty one -/
example (l : Nat) :
    limbOr0 1 ((gglweProductDft dirty3 exA3 exKey3).act 0) l =
      (List.range 2).foldl
        (fun acc k => if l < passSize exKey3 (k + 1) then polyAdd acc (passEntry exA3 exKey3 1 (k + 1) l 0) else acc)
        (if l < passSize exKey3 0 then passEntry exA3 exKey3 1 0 l 0 else zeroP 1) :=
  product_accum dirty3 exA3 exKey3 (by decide) dirty3_WF rfl rfl rfl l 0 (by decide)

/-- the right-hand side evaluated: `passSize = 3, 4, 4`; only pass 2 has a non-empty `ai_dft`
(`aiSize = 0, 0, 1`) and contributes `a₀·M[l+2]` to limbs `l < 2`; limb 3 is zeroed by pass 0. -/
example :
    (List.range 4).map (fun l =>
      (List.range 2).foldl
        (fun acc k => if l < passSize exKey3 (k + 1) then polyAdd acc (passEntry exA3 exKey3 1 (k + 1) l 0) else acc)
        (if l < passSize exKey3 0 then passEntry exA3 exKey3 1 0 l 0 else zeroP 1))
      = [[1], [1], [0], [0]] := by decide

/-- and the executable model agrees, limb by limb, whatever `res` held before -/
example : (List.range 4).map (fun l => limbOr0 1 ((gglweProductDft dirty3 exA3 exKey3).act 0) l) = [[1], [1], [0], [0]] := by
  decide

example : (List.range 4).map (fun l => limbOr0 1 ((gglweProductDft (zeroBuf 1 1 4) exA3 exKey3).act 0) l) = [[1], [1], [0], [0]] := by
  decide

/-- determinacy, instantiated -/
example : (gglweProductDft dirty3 exA3 exKey3).act 0 = (gglweProductDft (zeroBuf 1 1 4) exA3 exKey3).act 0 :=
  product_determined_gt1 dirty3 (zeroBuf 1 1 4) exA3 exKey3 (by decide) dirty3_WF (zeroBuf_WF 1 1 4) rfl rfl rfl rfl rfl rfl 0
    (by decide)

end AccumExample

end Ks
