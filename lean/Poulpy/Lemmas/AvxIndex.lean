import Poulpy.Lemmas.Avx
import Poulpy.Lemmas.RingAuto
import Poulpy.Lemmas.RingSwitch
import Poulpy.Lemmas.RingWrap
/-
C10, index kernels: the gather / strided-store patterns of `znx_switch_ring_avx` and `znx_automorphism_avx`
(model: `Avx.switchRingAvx`, `Avx.automorphismAvx`) equal the index formulas of the C09 ring model
(`znxSwitchRing`, `znxAutomorphism` of `Model/Ring.lean`) for every power-of-two degree.
Lists of lanes are converted with `toI` / `ofI` (`BitVec.toInt` / `BitVec.ofInt 64`).
-/
namespace Avx

def toI (l : List W) : Poly := l.map BitVec.toInt
def ofI (p : Poly) : List W := p.map (BitVec.ofInt 64)

theorem ofI_toI (l : List W) : ofI (toI l) = l := by
  unfold ofI toI
  rw [List.map_map]
  conv => rhs; rw [← List.map_id l]
  apply List.map_congr_left
  intro x _
  simp [BitVec.ofInt_toInt]

theorem toI_length (l : List W) : (toI l).length = l.length := by simp [toI]

theorem isPow2_pow (k : Nat) : isPow2 (2 ^ k) = true := by
  unfold isPow2
  have : (2 ^ k) &&& (2 ^ k - 1) = 0 := by
    rw [Nat.and_two_pow_sub_one_eq_mod, Nat.mod_self]
  simp [this]

/-- four consecutive lanes per vector, `q` vectors = the first `4q` indices -/
theorem lanes4 {α : Type} (f : Nat → α) (q : Nat) :
    (List.range q).flatMap (fun j => [f (4 * j), f (4 * j + 1), f (4 * j + 2), f (4 * j + 3)]) = (List.range (4 * q)).map f := by
  induction q with
  | zero => rfl
  | succ k ih =>
    rw [List.range_succ, List.flatMap_append, ih]
    simp only [List.flatMap_cons, List.flatMap_nil, List.append_nil]
    have : 4 * (k + 1) = 4 * k + 1 + 1 + 1 + 1 := by omega
    rw [this, List.range_succ, List.range_succ, List.range_succ, List.range_succ]
    simp [List.append_assoc]

theorem pow_div4 (k : Nat) (hk : 2 ≤ k) : 4 * (2 ^ k >>> 2) = 2 ^ k := by
  rw [Nat.shiftRight_eq_div_pow]
  obtain ⟨j, rfl⟩ : ∃ j, k = j + 2 := ⟨k - 2, by omega⟩
  rw [Nat.pow_add]; omega

/-- `switch_ring`, going down (`n_in = 2^(ko+g) > n_out = 2^ko ≥ 4`): the `span = n_out >> 2` gathers
`a[(4j + l)·gap]` are the sub-sampling of the ring model -/
theorem switchRingAvx_down (res a : List W) (ko g : Nat) (hko : 2 ≤ ko) (hg : 1 ≤ g)
    (hr : res.length = 2 ^ ko) (ha : a.length = 2 ^ (ko + g)) :
    switchRingAvx res a = .ok (ofI (znxSwitchRing res.length (toI a))) := by
  have hO : 0 < 2 ^ ko := by positivity
  have hgap : 2 ^ (ko + g) = 2 ^ ko * 2 ^ g := Nat.pow_add 2 ko g
  have hg2 : 2 ≤ 2 ^ g := by
    calc 2 = 2 ^ 1 := rfl
      _ ≤ 2 ^ g := Nat.pow_le_pow_right (by decide) hg
  have h4 : 4 ≤ 2 ^ ko := by
    calc 4 = 2 ^ 2 := rfl
      _ ≤ 2 ^ ko := Nat.pow_le_pow_right (by decide) hko
  have hlt : 2 ^ ko < 2 ^ ko * 2 ^ g := by
    calc 2 ^ ko = 2 ^ ko * 1 := (Nat.mul_one _).symm
      _ < 2 ^ ko * 2 ^ g := Nat.mul_lt_mul_of_pos_left (by omega) hO
  have hdiv : 2 ^ ko * 2 ^ g / 2 ^ ko = 2 ^ g := Nat.mul_div_cancel_left _ hO
  have hin : ∀ i, i < 2 ^ ko → i * 2 ^ g < a.length := by
    intro i hi; rw [ha, hgap]
    have := mul_gap_lt (k := i) (cnt := 2 ^ ko) (gap := 2 ^ g) (i := 0) hi (by omega)
    omega
  unfold switchRingAvx
  simp only [ha, hr, isPow2_pow, Bool.not_true, Bool.false_eq_true, if_false]
  rw [hgap]
  have e1 : (Nat.min (2 ^ ko * 2 ^ g) (2 ^ ko)) = 2 ^ ko := Nat.min_eq_right (by omega)
  have e2 : (Nat.max (2 ^ ko * 2 ^ g) (2 ^ ko)) = 2 ^ ko * 2 ^ g := Nat.max_eq_left (by omega)
  simp only [e1, e2, Nat.mul_mod_right]
  have e3 : (2 ^ ko == 0) = false := beq_eq_false_iff_ne.mpr (by omega)
  have e4 : (2 ^ ko * 2 ^ g == 2 ^ ko) = false := beq_eq_false_iff_ne.mpr (by omega)
  simp only [e3, e4, bne_self_eq_false, Bool.false_eq_true, if_false, hdiv]
  rw [if_neg (by omega), if_pos hlt]
  simp only [lanes4 (fun i => a[i * 2 ^ g]?), pow_div4 ko hko]
  have hall : ∀ i ∈ List.range (2 ^ ko), a[i * 2 ^ g]? = some (a.getD (i * 2 ^ g) 0#64) := by
    intro i hi
    have := hin i (List.mem_range.mp hi)
    simp [List.getD_eq_getElem?_getD, List.getElem?_eq_getElem this]
  have hany : ((List.range (2 ^ ko)).map (fun i => a[i * 2 ^ g]?)).any Option.isNone = false := by
    rw [List.any_eq_false]
    intro x hx
    obtain ⟨i, hi, rfl⟩ := List.mem_map.mp hx
    rw [hall i hi]; simp
  rw [hany]
  simp only [Bool.false_eq_true, if_false]
  rw [List.filterMap_map]
  have hdrop : List.drop (2 ^ ko) res = [] := by
    apply List.drop_eq_nil_of_le; omega
  rw [hdrop, List.append_nil]
  -- ring model side
  have hsw : znxSwitchRing (2 ^ ko) (toI a) = znxSubsample (2 ^ ko) (2 ^ g) (toI a) := by
    unfold znxSwitchRing
    simp only [toI_length, ha, hgap]
    rw [if_neg (by omega), if_pos hlt, hdiv]
  rw [hsw, subsample_eq_map _ _ _ (by intro k hk; rw [toI_length]; exact hin k hk)]
  unfold ofI
  rw [List.map_map]
  congr 1
  rw [filterMap_eq_map_of _ _ (fun i => a.getD (i * 2 ^ g) 0#64) (by
    intro i hi; simpa using hall i hi)]
  apply List.map_congr_left
  intro i hi
  have := hin i (List.mem_range.mp hi)
  simp [toI, List.getD_eq_getElem?_getD, List.getElem?_eq_getElem this, BitVec.ofInt_toInt]

/-- the strided stores of the up path: after the first `m` stores, slot `k·gap + r` holds `a[k]` if
`r = 0 ∧ k < m` and `0` otherwise -/
theorem scatter_get (a : List W) (gap nOut : Nat) (hg : 0 < gap) (hlen : nOut = a.length * gap) (m : Nat) (hm : m ≤ a.length)
    (k r : Nat) (hk : k < a.length) (hr : r < gap) :
    ((List.range m).foldl (upStore a gap) (List.replicate nOut 0#64))[k * gap + r]?
      = some (if r = 0 ∧ k < m then a.getD k 0#64 else 0#64) ∧
    ((List.range m).foldl (upStore a gap) (List.replicate nOut 0#64)).length = nOut := by
  have hin : k * gap + r < nOut := by rw [hlen]; exact mul_gap_lt hk hr
  induction m with
  | zero => simp [hin]
  | succ m ih =>
    obtain ⟨ih1, ih2⟩ := ih (by omega)
    rw [List.range_succ, List.foldl_append]
    simp only [List.foldl_cons, List.foldl_nil]
    have hma : m < a.length := by omega
    generalize List.foldl (upStore a gap) (List.replicate nOut 0#64) (List.range m) = X at ih1 ih2 ⊢
    unfold upStore
    rw [List.getElem?_eq_getElem hma]
    simp only [List.length_set, ih2, and_true]
    rw [List.getElem?_set]
    by_cases e : m * gap = k * gap + r
    · -- the slot just written: then r = 0 and k = m
      have hr0 : r = 0 := by
        have h1 : (k * gap + r) % gap = r := by rw [Nat.mul_add_mod_self_right]; exact Nat.mod_eq_of_lt hr
        have h2 : (m * gap) % gap = 0 := Nat.mul_mod_left _ _
        rw [e] at h2; omega
      subst hr0
      have hkm : k = m := by
        have : m * gap = k * gap := by omega
        exact (Nat.eq_of_mul_eq_mul_right hg this).symm
      subst hkm
      have : k * gap < nOut := by omega
      simp [ih2, this, List.getD_eq_getElem?_getD, List.getElem?_eq_getElem hma]
    · rw [if_neg e, ih1]
      congr 1
      by_cases h0 : r = 0
      · subst h0
        have hne : k ≠ m := by intro h; subst h; exact e (by omega)
        have : (k < m + 1) = (k < m) := by apply propext; omega
        simp [this]
      · simp [h0]

/-- the complete sequence of strided stores = `X ↦ X^gap` of the ring model -/
theorem upFold_eq_ring (a : List W) (ki g : Nat) (hg : 1 ≤ g) (ha : a.length = 2 ^ ki) :
    (List.range (2 ^ ki)).foldl (upStore a (2 ^ g)) (List.replicate (2 ^ ki * 2 ^ g) 0#64)
      = ofI (znxSwitchRing (2 ^ ki * 2 ^ g) (toI a)) := by
  have hI : 0 < 2 ^ ki := by positivity
  have hG : 0 < 2 ^ g := by positivity
  have hg2 : 2 ≤ 2 ^ g := by
    calc 2 = 2 ^ 1 := rfl
      _ ≤ 2 ^ g := Nat.pow_le_pow_right (by decide) hg
  have hsw : znxSwitchRing (2 ^ ki * 2 ^ g) (toI a) = znxUpsample (2 ^ g) (toI a) := by
    have := switch_up_eq (2 ^ g) hg2 (toI a) (by rw [toI_length, ha]; exact hI)
    rw [toI_length, ha] at this
    exact this
  rw [hsw]
  have hul : (znxUpsample (2 ^ g) (toI a)).length = 2 ^ ki * 2 ^ g := by
    rw [upsample_length _ hG, toI_length, ha]
  apply List.ext_getElem?
  intro m
  by_cases hm : m < 2 ^ ki * 2 ^ g
  · have hk : m / 2 ^ g < a.length := by
      rw [ha]; exact Nat.div_lt_of_lt_mul (by rw [Nat.mul_comm]; exact hm)
    have hrr : m % 2 ^ g < 2 ^ g := Nat.mod_lt _ hG
    have hm' : m = (m / 2 ^ g) * 2 ^ g + m % 2 ^ g := by
      rw [Nat.mul_comm]; exact (Nat.div_add_mod m (2 ^ g)).symm
    rw [hm']
    have h1 := (scatter_get a (2 ^ g) (2 ^ ki * 2 ^ g) hG (by rw [ha]) (2 ^ ki) (by omega) (m / 2 ^ g) (m % 2 ^ g) hk hrr).1
    rw [h1]
    unfold ofI
    rw [List.getElem?_map, upsample_getElem? _ hG _ _ _ (by rw [toI_length]; exact hk) hrr]
    have hk' : m / 2 ^ g < 2 ^ ki := by rw [← ha]; exact hk
    by_cases h0 : m % 2 ^ g = 0
    · simp [h0, hk', toI, List.getD_eq_getElem?_getD, List.getElem?_eq_getElem hk, BitVec.ofInt_toInt]
    · simp [h0]
  · have l1 := (scatter_get a (2 ^ g) (2 ^ ki * 2 ^ g) hG (by rw [ha]) (2 ^ ki) (by omega) 0 0 (by omega) hG).2
    rw [List.getElem?_eq_none (by omega), List.getElem?_eq_none (by unfold ofI; rw [List.length_map, hul]; omega)]


/-- `switch_ring`, going up (`4 ≤ n_in = 2^ki < n_out = 2^(ki+g)`): zero + strided stores = `X ↦ X^gap` of the
ring model -/
theorem switchRingAvx_up (res a : List W) (ki g : Nat) (hki : 2 ≤ ki) (hg : 1 ≤ g)
    (hr : res.length = 2 ^ (ki + g)) (ha : a.length = 2 ^ ki) :
    switchRingAvx res a = .ok (ofI (znxSwitchRing res.length (toI a))) := by
  have hI : 0 < 2 ^ ki := by positivity
  have hG : 0 < 2 ^ g := by positivity
  have hgap : 2 ^ (ki + g) = 2 ^ ki * 2 ^ g := Nat.pow_add 2 ki g
  have hg2 : 2 ≤ 2 ^ g := by
    calc 2 = 2 ^ 1 := rfl
      _ ≤ 2 ^ g := Nat.pow_le_pow_right (by decide) hg
  have h4 : 4 ≤ 2 ^ ki := by
    calc 4 = 2 ^ 2 := rfl
      _ ≤ 2 ^ ki := Nat.pow_le_pow_right (by decide) hki
  have hlt : 2 ^ ki < 2 ^ ki * 2 ^ g := by
    calc 2 ^ ki = 2 ^ ki * 1 := (Nat.mul_one _).symm
      _ < 2 ^ ki * 2 ^ g := Nat.mul_lt_mul_of_pos_left (by omega) hI
  have hdiv : 2 ^ ki * 2 ^ g / 2 ^ ki = 2 ^ g := Nat.mul_div_cancel_left _ hI
  have hq : 4 * ((2 ^ ki + 3) / 4) = 2 ^ ki := by
    have := pow_div4 ki hki
    rw [Nat.shiftRight_eq_div_pow] at this
    omega
  unfold switchRingAvx
  simp only [ha, hr, isPow2_pow, Bool.not_true, Bool.false_eq_true, if_false]
  rw [hgap]
  have e1 : (Nat.min (2 ^ ki) (2 ^ ki * 2 ^ g)) = 2 ^ ki := Nat.min_eq_left (by omega)
  have e2 : (Nat.max (2 ^ ki) (2 ^ ki * 2 ^ g)) = 2 ^ ki * 2 ^ g := Nat.max_eq_right (by omega)
  simp only [e1, e2, Nat.mul_mod_right]
  have e3 : (2 ^ ki == 0) = false := beq_eq_false_iff_ne.mpr (by omega)
  have e4 : (2 ^ ki == 2 ^ ki * 2 ^ g) = false := beq_eq_false_iff_ne.mpr (by omega)
  simp only [e3, e4, bne_self_eq_false, Bool.false_eq_true, if_false, hdiv]
  rw [if_neg (by omega), if_neg (by omega)]
  have hid : (List.range ((2 ^ ki + 3) / 4)).flatMap (fun j => [4 * j, 4 * j + 1, 4 * j + 2, 4 * j + 3]) = List.range (2 ^ ki) := by
    rw [lanes4 (fun i => i), hq, List.map_id']
  rw [hid]
  have hany : (List.range (2 ^ ki)).any (fun i => decide (i ≥ 2 ^ ki) || decide (i * 2 ^ g ≥ 2 ^ ki * 2 ^ g)) = false := by
    rw [List.any_eq_false]
    intro i hi
    have h1 := List.mem_range.mp hi
    have h2 := mul_gap_lt (k := i) (cnt := 2 ^ ki) (gap := 2 ^ g) (i := 0) h1 hG
    simp; omega
  rw [hany]
  simp only [Bool.false_eq_true, if_false]
  congr 1
  exact upFold_eq_ring a ki g hg ha

theorem scatterStep_eq (g : Nat) (res vs : List W) :
    scatterStep g res vs = (List.range vs.length).foldl (upStore vs g) res := by
  unfold scatterStep
  congr 1
  funext r i
  unfold upStore
  cases vs[i]? with
  | none => rfl
  | some v =>
    by_cases h : i * g < r.length
    · simp [h]
    · simp only [h, if_false]
      rw [List.set_eq_of_length_le (by omega)]

/-- reference kernel, going down, any `n_out = 2^ko ≥ 1` -/
theorem switchRingRef_down (res a : List W) (ko g : Nat) (hg : 1 ≤ g)
    (hr : res.length = 2 ^ ko) (ha : a.length = 2 ^ (ko + g)) :
    switchRingRef res a = .ok (ofI (znxSwitchRing res.length (toI a))) := by
  have hO : 0 < 2 ^ ko := by positivity
  have hG : 0 < 2 ^ g := by positivity
  have hgap : 2 ^ (ko + g) = 2 ^ ko * 2 ^ g := Nat.pow_add 2 ko g
  have hg2 : 2 ≤ 2 ^ g := by
    calc 2 = 2 ^ 1 := rfl
      _ ≤ 2 ^ g := Nat.pow_le_pow_right (by decide) hg
  have hlt : 2 ^ ko < 2 ^ ko * 2 ^ g := by
    calc 2 ^ ko = 2 ^ ko * 1 := (Nat.mul_one _).symm
      _ < 2 ^ ko * 2 ^ g := Nat.mul_lt_mul_of_pos_left (by omega) hO
  have hdiv : 2 ^ ko * 2 ^ g / 2 ^ ko = 2 ^ g := Nat.mul_div_cancel_left _ hO
  have hin : ∀ i, i < 2 ^ ko → i * 2 ^ g < a.length := by
    intro i hi; rw [ha, hgap]
    have := mul_gap_lt (k := i) (cnt := 2 ^ ko) (gap := 2 ^ g) (i := 0) hi (by omega)
    omega
  have hcnt : (2 ^ ko * 2 ^ g + 2 ^ g - 1) / 2 ^ g = 2 ^ ko := by
    have : 2 ^ ko * 2 ^ g + 2 ^ g - 1 = 2 ^ g * 2 ^ ko + (2 ^ g - 1) := by rw [Nat.mul_comm]; omega
    rw [this, Nat.mul_add_div hG, Nat.div_eq_of_lt (by omega)]; rfl
  unfold switchRingRef
  simp only [ha, hr, isPow2_pow, Bool.not_true, Bool.false_eq_true, if_false]
  rw [hgap]
  have e1 : (Nat.min (2 ^ ko * 2 ^ g) (2 ^ ko)) = 2 ^ ko := Nat.min_eq_right (by omega)
  have e2 : (Nat.max (2 ^ ko * 2 ^ g) (2 ^ ko)) = 2 ^ ko * 2 ^ g := Nat.max_eq_left (by omega)
  simp only [e1, e2, Nat.mul_mod_right]
  have e3 : (2 ^ ko == 0) = false := beq_eq_false_iff_ne.mpr (by omega)
  have e4 : (2 ^ ko * 2 ^ g == 2 ^ ko) = false := beq_eq_false_iff_ne.mpr (by omega)
  simp only [e3, e4, bne_self_eq_false, Bool.false_eq_true, if_false, hdiv]
  rw [if_pos hlt]
  have hall : ∀ i ∈ List.range (2 ^ ko), a[i * 2 ^ g]? = some (a.getD (i * 2 ^ g) 0#64) := by
    intro i hi
    have := hin i (List.mem_range.mp hi)
    simp [List.getD_eq_getElem?_getD, List.getElem?_eq_getElem this]
  have hvs : stepBy (2 ^ g) a = (List.range (2 ^ ko)).map (fun i => a.getD (i * 2 ^ g) 0#64) := by
    unfold stepBy
    rw [ha, hgap, hcnt]
    exact filterMap_eq_map_of _ _ _ hall
  have hvl : (stepBy (2 ^ g) a).length = 2 ^ ko := by rw [hvs]; simp
  rw [List.take_of_length_le (by omega), hvl, List.drop_eq_nil_of_le (by omega), List.append_nil, hvs]
  have hsw : znxSwitchRing (2 ^ ko) (toI a) = znxSubsample (2 ^ ko) (2 ^ g) (toI a) := by
    unfold znxSwitchRing
    simp only [toI_length, ha, hgap]
    rw [if_neg (by omega), if_pos hlt, hdiv]
  rw [hsw, subsample_eq_map _ _ _ (by intro k hk; rw [toI_length]; exact hin k hk)]
  unfold ofI
  rw [List.map_map]
  congr 1
  apply List.map_congr_left
  intro i hi
  have := hin i (List.mem_range.mp hi)
  simp [toI, List.getD_eq_getElem?_getD, List.getElem?_eq_getElem this, BitVec.ofInt_toInt]

/-- reference kernel, going up, any `n_in = 2^ki ≥ 1` -/
theorem switchRingRef_up (res a : List W) (ki g : Nat) (hg : 1 ≤ g)
    (hr : res.length = 2 ^ (ki + g)) (ha : a.length = 2 ^ ki) :
    switchRingRef res a = .ok (ofI (znxSwitchRing res.length (toI a))) := by
  have hI : 0 < 2 ^ ki := by positivity
  have hgap : 2 ^ (ki + g) = 2 ^ ki * 2 ^ g := Nat.pow_add 2 ki g
  have hg2 : 2 ≤ 2 ^ g := by
    calc 2 = 2 ^ 1 := rfl
      _ ≤ 2 ^ g := Nat.pow_le_pow_right (by decide) hg
  have hlt : 2 ^ ki < 2 ^ ki * 2 ^ g := by
    calc 2 ^ ki = 2 ^ ki * 1 := (Nat.mul_one _).symm
      _ < 2 ^ ki * 2 ^ g := Nat.mul_lt_mul_of_pos_left (by omega) hI
  have hdiv : 2 ^ ki * 2 ^ g / 2 ^ ki = 2 ^ g := Nat.mul_div_cancel_left _ hI
  unfold switchRingRef
  simp only [ha, hr, isPow2_pow, Bool.not_true, Bool.false_eq_true, if_false]
  rw [hgap]
  have e1 : (Nat.min (2 ^ ki) (2 ^ ki * 2 ^ g)) = 2 ^ ki := Nat.min_eq_left (by omega)
  have e2 : (Nat.max (2 ^ ki) (2 ^ ki * 2 ^ g)) = 2 ^ ki * 2 ^ g := Nat.max_eq_right (by omega)
  simp only [e1, e2, Nat.mul_mod_right]
  have e3 : (2 ^ ki == 0) = false := beq_eq_false_iff_ne.mpr (by omega)
  have e4 : (2 ^ ki == 2 ^ ki * 2 ^ g) = false := beq_eq_false_iff_ne.mpr (by omega)
  simp only [e3, e4, bne_self_eq_false, Bool.false_eq_true, if_false, hdiv]
  rw [if_neg (by omega), scatterStep_eq, ha]
  congr 1
  exact upFold_eq_ring a ki g hg ha

/-- equal degrees: both kernels copy -/
theorem switchRing_same (res a : List W) (k : Nat) (hr : res.length = 2 ^ k) (ha : a.length = 2 ^ k) :
    switchRingRef res a = .ok (ofI (znxSwitchRing res.length (toI a))) ∧
    switchRingAvx res a = .ok (ofI (znxSwitchRing res.length (toI a))) := by
  have hI : 0 < 2 ^ k := by positivity
  have e3 : (2 ^ k == 0) = false := beq_eq_false_iff_ne.mpr (by omega)
  have hsw : znxSwitchRing (2 ^ k) (toI a) = toI a := by
    unfold znxSwitchRing; simp [toI_length, ha]
  constructor
  · unfold switchRingRef
    simp only [ha, hr, isPow2_pow, Bool.not_true, Bool.false_eq_true, if_false, Nat.min_self, Nat.max_self, Nat.mod_self, e3,
      bne_self_eq_false, beq_self_eq_true, if_true, hsw, ofI_toI]
  · unfold switchRingAvx
    simp only [ha, hr, isPow2_pow, Bool.not_true, Bool.false_eq_true, if_false, Nat.min_self, Nat.max_self, Nat.mod_self, e3,
      bne_self_eq_false, beq_self_eq_true, if_true, hsw, ofI_toI]

/-- small rings: the AVX kernel calls the reference kernel -/
theorem switchRingAvx_small (res a : List W) (ki ko : Nat) (hr : res.length = 2 ^ ko) (ha : a.length = 2 ^ ki)
    (hne : ki ≠ ko) (hs : ki < 2 ∨ ko < 2) : switchRingAvx res a = switchRingRef res a := by
  have hI : 0 < 2 ^ ki := by positivity
  have hO : 0 < 2 ^ ko := by positivity
  have hmin : Nat.min (2 ^ ki) (2 ^ ko) < 4 := by
    rcases hs with h | h
    · have : 2 ^ ki < 2 ^ 2 := Nat.pow_lt_pow_right (by decide) h
      exact Nat.lt_of_le_of_lt (Nat.min_le_left _ _) this
    · have : 2 ^ ko < 2 ^ 2 := Nat.pow_lt_pow_right (by decide) h
      exact Nat.lt_of_le_of_lt (Nat.min_le_right _ _) this
  have hneq : (2 ^ ki == 2 ^ ko) = false :=
    beq_eq_false_iff_ne.mpr (fun h => hne (Nat.pow_right_injective (le_refl 2) h))
  have hdvd : Nat.max (2 ^ ki) (2 ^ ko) % Nat.min (2 ^ ki) (2 ^ ko) = 0 := by
    rcases Nat.le_total ki ko with h | h
    · have hle : 2 ^ ki ≤ 2 ^ ko := Nat.pow_le_pow_right (by decide) h
      have e1 : Nat.max (2 ^ ki) (2 ^ ko) = 2 ^ ko := Nat.max_eq_right hle
      have e2 : Nat.min (2 ^ ki) (2 ^ ko) = 2 ^ ki := Nat.min_eq_left hle
      rw [e1, e2]
      exact Nat.mod_eq_zero_of_dvd (Nat.pow_dvd_pow 2 h)
    · have hle : 2 ^ ko ≤ 2 ^ ki := Nat.pow_le_pow_right (by decide) h
      have e1 : Nat.max (2 ^ ki) (2 ^ ko) = 2 ^ ki := Nat.max_eq_left hle
      have e2 : Nat.min (2 ^ ki) (2 ^ ko) = 2 ^ ko := Nat.min_eq_right hle
      rw [e1, e2]
      exact Nat.mod_eq_zero_of_dvd (Nat.pow_dvd_pow 2 h)
  have hm0 : (Nat.min (2 ^ ki) (2 ^ ko) == 0) = false := by
    apply beq_eq_false_iff_ne.mpr
    have : 0 < Nat.min (2 ^ ki) (2 ^ ko) := Nat.lt_min.mpr ⟨hI, hO⟩
    omega
  conv => lhs; unfold switchRingAvx
  simp only [ha, hr, isPow2_pow, Bool.not_true, Bool.false_eq_true, if_false, hm0, hdvd, bne_self_eq_false, hneq]
  rw [if_pos hmin]

/-- every admissible degree pair (powers of two): the AVX kernel and the reference kernel both compute the ring
model's `znxSwitchRing` -/
theorem switchRing_all (res a : List W) (ki ko : Nat) (hr : res.length = 2 ^ ko) (ha : a.length = 2 ^ ki) :
    switchRingRef res a = .ok (ofI (znxSwitchRing res.length (toI a))) ∧
    switchRingAvx res a = .ok (ofI (znxSwitchRing res.length (toI a))) := by
  rcases Nat.lt_trichotomy ki ko with h | h | h
  · obtain ⟨g, rfl⟩ : ∃ g, ko = ki + g := ⟨ko - ki, by omega⟩
    have hg : 1 ≤ g := by omega
    have hR := switchRingRef_up res a ki g hg hr ha
    refine ⟨hR, ?_⟩
    by_cases h2 : 2 ≤ ki
    · exact switchRingAvx_up res a ki g h2 hg hr ha
    · rw [switchRingAvx_small res a ki (ki + g) hr ha (by omega) (Or.inl (by omega))]; exact hR
  · subst h; exact switchRing_same res a ki hr ha
  · obtain ⟨g, rfl⟩ : ∃ g, ki = ko + g := ⟨ki - ko, by omega⟩
    have hg : 1 ≤ g := by omega
    have hR := switchRingRef_down res a ko g hg hr ha
    refine ⟨hR, ?_⟩
    by_cases h2 : 2 ≤ ko
    · exact switchRingAvx_down res a ko g h2 hg hr ha
    · rw [switchRingAvx_small res a (ko + g) ko hr ha (by omega) (Or.inr (by omega))]; exact hR

end Avx
