import Poulpy.Lemmas.Avx
import Poulpy.Lemmas.RingAuto
import Poulpy.Lemmas.RingSwitch
import Poulpy.Lemmas.RingWrap
import Mathlib.Data.BitVec
import Mathlib.Tactic.Zify
import Mathlib.Tactic.NormNum
/-
C10, index kernels: the gather / strided-store patterns of `znx_switch_ring_avx` and `znx_automorphism_avx`
(model: `Avx.switchRingAvx`, `Avx.automorphismAvx`) equal the index formulas of the C09 ring model
(`znxSwitchRing`, `znxAutomorphism` of `Model/Ring.lean`) for every power-of-two degree.
Lists of lanes are converted with `toI` / `ofI` (`BitVec.toInt` / `BitVec.ofInt 64`).
-/
namespace Avx

def toI (l : List W) : Poly := l.map BitVec.toInt
def ofI (p : Poly) : List W := p.map (BitVec.ofInt 64)

theorem ofI_toI (l : List W) : ofI (toI l) = l := by
  unfold ofI toI
  rw [List.map_map]
  conv => rhs; rw [← List.map_id l]
  apply List.map_congr_left
  intro x _
  simp [BitVec.ofInt_toInt]

theorem toI_length (l : List W) : (toI l).length = l.length := by simp [toI]

theorem isPow2_pow (k : Nat) : isPow2 (2 ^ k) = true := by
  unfold isPow2
  have : (2 ^ k) &&& (2 ^ k - 1) = 0 := by
    rw [Nat.and_two_pow_sub_one_eq_mod, Nat.mod_self]
  simp [this]

/-- four consecutive lanes per vector, `q` vectors = the first `4q` indices -/
theorem lanes4 {α : Type} (f : Nat → α) (q : Nat) :
    (List.range q).flatMap (fun j => [f (4 * j), f (4 * j + 1), f (4 * j + 2), f (4 * j + 3)]) = (List.range (4 * q)).map f := by
  induction q with
  | zero => rfl
  | succ k ih =>
    rw [List.range_succ, List.flatMap_append, ih]
    simp only [List.flatMap_cons, List.flatMap_nil, List.append_nil]
    have : 4 * (k + 1) = 4 * k + 1 + 1 + 1 + 1 := by omega
    rw [this, List.range_succ, List.range_succ, List.range_succ, List.range_succ]
    simp [List.append_assoc]

theorem pow_div4 (k : Nat) (hk : 2 ≤ k) : 4 * (2 ^ k >>> 2) = 2 ^ k := by
  rw [Nat.shiftRight_eq_div_pow]
  obtain ⟨j, rfl⟩ : ∃ j, k = j + 2 := ⟨k - 2, by omega⟩
  rw [Nat.pow_add]; omega

/-- `switch_ring`, going down (`n_in = 2^(ko+g) > n_out = 2^ko ≥ 4`): the `span = n_out >> 2` gathers
`a[(4j + l)·gap]` are the sub-sampling of the ring model -/
theorem switchRingAvx_down (res a : List W) (ko g : Nat) (hko : 2 ≤ ko) (hg : 1 ≤ g)
    (hr : res.length = 2 ^ ko) (ha : a.length = 2 ^ (ko + g)) :
    switchRingAvx res a = .ok (ofI (znxSwitchRing res.length (toI a))) := by
  have hO : 0 < 2 ^ ko := by positivity
  have hgap : 2 ^ (ko + g) = 2 ^ ko * 2 ^ g := Nat.pow_add 2 ko g
  have hg2 : 2 ≤ 2 ^ g := by
    calc 2 = 2 ^ 1 := rfl
      _ ≤ 2 ^ g := Nat.pow_le_pow_right (by decide) hg
  have h4 : 4 ≤ 2 ^ ko := by
    calc 4 = 2 ^ 2 := rfl
      _ ≤ 2 ^ ko := Nat.pow_le_pow_right (by decide) hko
  have hlt : 2 ^ ko < 2 ^ ko * 2 ^ g := by
    calc 2 ^ ko = 2 ^ ko * 1 := (Nat.mul_one _).symm
      _ < 2 ^ ko * 2 ^ g := Nat.mul_lt_mul_of_pos_left (by omega) hO
  have hdiv : 2 ^ ko * 2 ^ g / 2 ^ ko = 2 ^ g := Nat.mul_div_cancel_left _ hO
  have hin : ∀ i, i < 2 ^ ko → i * 2 ^ g < a.length := by
    intro i hi; rw [ha, hgap]
    have := mul_gap_lt (k := i) (cnt := 2 ^ ko) (gap := 2 ^ g) (i := 0) hi (by omega)
    omega
  unfold switchRingAvx
  simp only [ha, hr, isPow2_pow, Bool.not_true, Bool.false_eq_true, if_false]
  rw [hgap]
  have e1 : (Nat.min (2 ^ ko * 2 ^ g) (2 ^ ko)) = 2 ^ ko := Nat.min_eq_right (by omega)
  have e2 : (Nat.max (2 ^ ko * 2 ^ g) (2 ^ ko)) = 2 ^ ko * 2 ^ g := Nat.max_eq_left (by omega)
  simp only [e1, e2, Nat.mul_mod_right]
  have e3 : (2 ^ ko == 0) = false := beq_eq_false_iff_ne.mpr (by omega)
  have e4 : (2 ^ ko * 2 ^ g == 2 ^ ko) = false := beq_eq_false_iff_ne.mpr (by omega)
  simp only [e3, e4, bne_self_eq_false, Bool.false_eq_true, if_false, hdiv]
  rw [if_neg (by omega), if_pos hlt]
  simp only [lanes4 (fun i => a[i * 2 ^ g]?), pow_div4 ko hko]
  have hall : ∀ i ∈ List.range (2 ^ ko), a[i * 2 ^ g]? = some (a.getD (i * 2 ^ g) 0#64) := by
    intro i hi
    have := hin i (List.mem_range.mp hi)
    simp [List.getD_eq_getElem?_getD, List.getElem?_eq_getElem this]
  have hany : ((List.range (2 ^ ko)).map (fun i => a[i * 2 ^ g]?)).any Option.isNone = false := by
    rw [List.any_eq_false]
    intro x hx
    obtain ⟨i, hi, rfl⟩ := List.mem_map.mp hx
    rw [hall i hi]; simp
  rw [hany]
  simp only [Bool.false_eq_true, if_false]
  rw [List.filterMap_map]
  have hdrop : List.drop (2 ^ ko) res = [] := by
    apply List.drop_eq_nil_of_le; omega
  rw [hdrop, List.append_nil]
  -- ring model side
  have hsw : znxSwitchRing (2 ^ ko) (toI a) = znxSubsample (2 ^ ko) (2 ^ g) (toI a) := by
    unfold znxSwitchRing
    simp only [toI_length, ha, hgap]
    rw [if_neg (by omega), if_pos hlt, hdiv]
  rw [hsw, subsample_eq_map _ _ _ (by intro k hk; rw [toI_length]; exact hin k hk)]
  unfold ofI
  rw [List.map_map]
  congr 1
  rw [filterMap_eq_map_of _ _ (fun i => a.getD (i * 2 ^ g) 0#64) (by
    intro i hi; simpa using hall i hi)]
  apply List.map_congr_left
  intro i hi
  have := hin i (List.mem_range.mp hi)
  simp [toI, List.getD_eq_getElem?_getD, List.getElem?_eq_getElem this, BitVec.ofInt_toInt]

/-- the strided stores of the up path: after the first `m` stores, slot `k·gap + r` holds `a[k]` if
`r = 0 ∧ k < m` and `0` otherwise -/
theorem scatter_get (a : List W) (gap nOut : Nat) (hg : 0 < gap) (hlen : nOut = a.length * gap) (m : Nat) (hm : m ≤ a.length)
    (k r : Nat) (hk : k < a.length) (hr : r < gap) :
    ((List.range m).foldl (upStore a gap) (List.replicate nOut 0#64))[k * gap + r]?
      = some (if r = 0 ∧ k < m then a.getD k 0#64 else 0#64) ∧
    ((List.range m).foldl (upStore a gap) (List.replicate nOut 0#64)).length = nOut := by
  have hin : k * gap + r < nOut := by rw [hlen]; exact mul_gap_lt hk hr
  induction m with
  | zero => simp [hin]
  | succ m ih =>
    obtain ⟨ih1, ih2⟩ := ih (by omega)
    rw [List.range_succ, List.foldl_append]
    simp only [List.foldl_cons, List.foldl_nil]
    have hma : m < a.length := by omega
    generalize List.foldl (upStore a gap) (List.replicate nOut 0#64) (List.range m) = X at ih1 ih2 ⊢
    unfold upStore
    rw [List.getElem?_eq_getElem hma]
    simp only [List.length_set, ih2, and_true]
    rw [List.getElem?_set]
    by_cases e : m * gap = k * gap + r
    · -- the slot just written: then r = 0 and k = m
      have hr0 : r = 0 := by
        have h1 : (k * gap + r) % gap = r := by rw [Nat.mul_add_mod_self_right]; exact Nat.mod_eq_of_lt hr
        have h2 : (m * gap) % gap = 0 := Nat.mul_mod_left _ _
        rw [e] at h2; omega
      subst hr0
      have hkm : k = m := by
        have : m * gap = k * gap := by omega
        exact (Nat.eq_of_mul_eq_mul_right hg this).symm
      subst hkm
      have : k * gap < nOut := by omega
      simp [ih2, this, List.getD_eq_getElem?_getD, List.getElem?_eq_getElem hma]
    · rw [if_neg e, ih1]
      congr 1
      by_cases h0 : r = 0
      · subst h0
        have hne : k ≠ m := by intro h; subst h; exact e (by omega)
        have : (k < m + 1) = (k < m) := by apply propext; omega
        simp [this]
      · simp [h0]

/-- the complete sequence of strided stores = `X ↦ X^gap` of the ring model -/
theorem upFold_eq_ring (a : List W) (ki g : Nat) (hg : 1 ≤ g) (ha : a.length = 2 ^ ki) :
    (List.range (2 ^ ki)).foldl (upStore a (2 ^ g)) (List.replicate (2 ^ ki * 2 ^ g) 0#64)
      = ofI (znxSwitchRing (2 ^ ki * 2 ^ g) (toI a)) := by
  have hI : 0 < 2 ^ ki := by positivity
  have hG : 0 < 2 ^ g := by positivity
  have hg2 : 2 ≤ 2 ^ g := by
    calc 2 = 2 ^ 1 := rfl
      _ ≤ 2 ^ g := Nat.pow_le_pow_right (by decide) hg
  have hsw : znxSwitchRing (2 ^ ki * 2 ^ g) (toI a) = znxUpsample (2 ^ g) (toI a) := by
    have := switch_up_eq (2 ^ g) hg2 (toI a) (by rw [toI_length, ha]; exact hI)
    rw [toI_length, ha] at this
    exact this
  rw [hsw]
  have hul : (znxUpsample (2 ^ g) (toI a)).length = 2 ^ ki * 2 ^ g := by
    rw [upsample_length _ hG, toI_length, ha]
  apply List.ext_getElem?
  intro m
  by_cases hm : m < 2 ^ ki * 2 ^ g
  · have hk : m / 2 ^ g < a.length := by
      rw [ha]; exact Nat.div_lt_of_lt_mul (by rw [Nat.mul_comm]; exact hm)
    have hrr : m % 2 ^ g < 2 ^ g := Nat.mod_lt _ hG
    have hm' : m = (m / 2 ^ g) * 2 ^ g + m % 2 ^ g := by
      rw [Nat.mul_comm]; exact (Nat.div_add_mod m (2 ^ g)).symm
    rw [hm']
    have h1 := (scatter_get a (2 ^ g) (2 ^ ki * 2 ^ g) hG (by rw [ha]) (2 ^ ki) (by omega) (m / 2 ^ g) (m % 2 ^ g) hk hrr).1
    rw [h1]
    unfold ofI
    rw [List.getElem?_map, upsample_getElem? _ hG _ _ _ (by rw [toI_length]; exact hk) hrr]
    have hk' : m / 2 ^ g < 2 ^ ki := by rw [← ha]; exact hk
    by_cases h0 : m % 2 ^ g = 0
    · simp [h0, hk', toI, List.getD_eq_getElem?_getD, List.getElem?_eq_getElem hk, BitVec.ofInt_toInt]
    · simp [h0]
  · have l1 := (scatter_get a (2 ^ g) (2 ^ ki * 2 ^ g) hG (by rw [ha]) (2 ^ ki) (by omega) 0 0 (by omega) hG).2
    rw [List.getElem?_eq_none (by omega), List.getElem?_eq_none (by unfold ofI; rw [List.length_map, hul]; omega)]


/-- `switch_ring`, going up (`4 ≤ n_in = 2^ki < n_out = 2^(ki+g)`): zero + strided stores = `X ↦ X^gap` of the
ring model -/
theorem switchRingAvx_up (res a : List W) (ki g : Nat) (hki : 2 ≤ ki) (hg : 1 ≤ g)
    (hr : res.length = 2 ^ (ki + g)) (ha : a.length = 2 ^ ki) :
    switchRingAvx res a = .ok (ofI (znxSwitchRing res.length (toI a))) := by
  have hI : 0 < 2 ^ ki := by positivity
  have hG : 0 < 2 ^ g := by positivity
  have hgap : 2 ^ (ki + g) = 2 ^ ki * 2 ^ g := Nat.pow_add 2 ki g
  have hg2 : 2 ≤ 2 ^ g := by
    calc 2 = 2 ^ 1 := rfl
      _ ≤ 2 ^ g := Nat.pow_le_pow_right (by decide) hg
  have h4 : 4 ≤ 2 ^ ki := by
    calc 4 = 2 ^ 2 := rfl
      _ ≤ 2 ^ ki := Nat.pow_le_pow_right (by decide) hki
  have hlt : 2 ^ ki < 2 ^ ki * 2 ^ g := by
    calc 2 ^ ki = 2 ^ ki * 1 := (Nat.mul_one _).symm
      _ < 2 ^ ki * 2 ^ g := Nat.mul_lt_mul_of_pos_left (by omega) hI
  have hdiv : 2 ^ ki * 2 ^ g / 2 ^ ki = 2 ^ g := Nat.mul_div_cancel_left _ hI
  have hq : 4 * ((2 ^ ki + 3) / 4) = 2 ^ ki := by
    have := pow_div4 ki hki
    rw [Nat.shiftRight_eq_div_pow] at this
    omega
  unfold switchRingAvx
  simp only [ha, hr, isPow2_pow, Bool.not_true, Bool.false_eq_true, if_false]
  rw [hgap]
  have e1 : (Nat.min (2 ^ ki) (2 ^ ki * 2 ^ g)) = 2 ^ ki := Nat.min_eq_left (by omega)
  have e2 : (Nat.max (2 ^ ki) (2 ^ ki * 2 ^ g)) = 2 ^ ki * 2 ^ g := Nat.max_eq_right (by omega)
  simp only [e1, e2, Nat.mul_mod_right]
  have e3 : (2 ^ ki == 0) = false := beq_eq_false_iff_ne.mpr (by omega)
  have e4 : (2 ^ ki == 2 ^ ki * 2 ^ g) = false := beq_eq_false_iff_ne.mpr (by omega)
  simp only [e3, e4, bne_self_eq_false, Bool.false_eq_true, if_false, hdiv]
  rw [if_neg (by omega), if_neg (by omega)]
  have hid : (List.range ((2 ^ ki + 3) / 4)).flatMap (fun j => [4 * j, 4 * j + 1, 4 * j + 2, 4 * j + 3]) = List.range (2 ^ ki) := by
    rw [lanes4 (fun i => i), hq, List.map_id']
  rw [hid]
  have hany : (List.range (2 ^ ki)).any (fun i => decide (i ≥ 2 ^ ki) || decide (i * 2 ^ g ≥ 2 ^ ki * 2 ^ g)) = false := by
    rw [List.any_eq_false]
    intro i hi
    have h1 := List.mem_range.mp hi
    have h2 := mul_gap_lt (k := i) (cnt := 2 ^ ki) (gap := 2 ^ g) (i := 0) h1 hG
    simp; omega
  rw [hany]
  simp only [Bool.false_eq_true, if_false]
  congr 1
  exact upFold_eq_ring a ki g hg ha

theorem scatterStep_eq (g : Nat) (res vs : List W) :
    scatterStep g res vs = (List.range vs.length).foldl (upStore vs g) res := by
  unfold scatterStep
  congr 1
  funext r i
  unfold upStore
  cases vs[i]? with
  | none => rfl
  | some v =>
    by_cases h : i * g < r.length
    · simp [h]
    · simp only [h, if_false]
      rw [List.set_eq_of_length_le (by omega)]

/-- reference kernel, going down, any `n_out = 2^ko ≥ 1` -/
theorem switchRingRef_down (res a : List W) (ko g : Nat) (hg : 1 ≤ g)
    (hr : res.length = 2 ^ ko) (ha : a.length = 2 ^ (ko + g)) :
    switchRingRef res a = .ok (ofI (znxSwitchRing res.length (toI a))) := by
  have hO : 0 < 2 ^ ko := by positivity
  have hG : 0 < 2 ^ g := by positivity
  have hgap : 2 ^ (ko + g) = 2 ^ ko * 2 ^ g := Nat.pow_add 2 ko g
  have hg2 : 2 ≤ 2 ^ g := by
    calc 2 = 2 ^ 1 := rfl
      _ ≤ 2 ^ g := Nat.pow_le_pow_right (by decide) hg
  have hlt : 2 ^ ko < 2 ^ ko * 2 ^ g := by
    calc 2 ^ ko = 2 ^ ko * 1 := (Nat.mul_one _).symm
      _ < 2 ^ ko * 2 ^ g := Nat.mul_lt_mul_of_pos_left (by omega) hO
  have hdiv : 2 ^ ko * 2 ^ g / 2 ^ ko = 2 ^ g := Nat.mul_div_cancel_left _ hO
  have hin : ∀ i, i < 2 ^ ko → i * 2 ^ g < a.length := by
    intro i hi; rw [ha, hgap]
    have := mul_gap_lt (k := i) (cnt := 2 ^ ko) (gap := 2 ^ g) (i := 0) hi (by omega)
    omega
  have hcnt : (2 ^ ko * 2 ^ g + 2 ^ g - 1) / 2 ^ g = 2 ^ ko := by
    have : 2 ^ ko * 2 ^ g + 2 ^ g - 1 = 2 ^ g * 2 ^ ko + (2 ^ g - 1) := by rw [Nat.mul_comm]; omega
    rw [this, Nat.mul_add_div hG, Nat.div_eq_of_lt (by omega)]; rfl
  unfold switchRingRef
  simp only [ha, hr, isPow2_pow, Bool.not_true, Bool.false_eq_true, if_false]
  rw [hgap]
  have e1 : (Nat.min (2 ^ ko * 2 ^ g) (2 ^ ko)) = 2 ^ ko := Nat.min_eq_right (by omega)
  have e2 : (Nat.max (2 ^ ko * 2 ^ g) (2 ^ ko)) = 2 ^ ko * 2 ^ g := Nat.max_eq_left (by omega)
  simp only [e1, e2, Nat.mul_mod_right]
  have e3 : (2 ^ ko == 0) = false := beq_eq_false_iff_ne.mpr (by omega)
  have e4 : (2 ^ ko * 2 ^ g == 2 ^ ko) = false := beq_eq_false_iff_ne.mpr (by omega)
  simp only [e3, e4, bne_self_eq_false, Bool.false_eq_true, if_false, hdiv]
  rw [if_pos hlt]
  have hall : ∀ i ∈ List.range (2 ^ ko), a[i * 2 ^ g]? = some (a.getD (i * 2 ^ g) 0#64) := by
    intro i hi
    have := hin i (List.mem_range.mp hi)
    simp [List.getD_eq_getElem?_getD, List.getElem?_eq_getElem this]
  have hvs : stepBy (2 ^ g) a = (List.range (2 ^ ko)).map (fun i => a.getD (i * 2 ^ g) 0#64) := by
    unfold stepBy
    rw [ha, hgap, hcnt]
    exact filterMap_eq_map_of _ _ _ hall
  have hvl : (stepBy (2 ^ g) a).length = 2 ^ ko := by rw [hvs]; simp
  rw [List.take_of_length_le (by omega), hvl, List.drop_eq_nil_of_le (by omega), List.append_nil, hvs]
  have hsw : znxSwitchRing (2 ^ ko) (toI a) = znxSubsample (2 ^ ko) (2 ^ g) (toI a) := by
    unfold znxSwitchRing
    simp only [toI_length, ha, hgap]
    rw [if_neg (by omega), if_pos hlt, hdiv]
  rw [hsw, subsample_eq_map _ _ _ (by intro k hk; rw [toI_length]; exact hin k hk)]
  unfold ofI
  rw [List.map_map]
  congr 1
  apply List.map_congr_left
  intro i hi
  have := hin i (List.mem_range.mp hi)
  simp [toI, List.getD_eq_getElem?_getD, List.getElem?_eq_getElem this, BitVec.ofInt_toInt]

/-- reference kernel, going up, any `n_in = 2^ki ≥ 1` -/
theorem switchRingRef_up (res a : List W) (ki g : Nat) (hg : 1 ≤ g)
    (hr : res.length = 2 ^ (ki + g)) (ha : a.length = 2 ^ ki) :
    switchRingRef res a = .ok (ofI (znxSwitchRing res.length (toI a))) := by
  have hI : 0 < 2 ^ ki := by positivity
  have hgap : 2 ^ (ki + g) = 2 ^ ki * 2 ^ g := Nat.pow_add 2 ki g
  have hg2 : 2 ≤ 2 ^ g := by
    calc 2 = 2 ^ 1 := rfl
      _ ≤ 2 ^ g := Nat.pow_le_pow_right (by decide) hg
  have hlt : 2 ^ ki < 2 ^ ki * 2 ^ g := by
    calc 2 ^ ki = 2 ^ ki * 1 := (Nat.mul_one _).symm
      _ < 2 ^ ki * 2 ^ g := Nat.mul_lt_mul_of_pos_left (by omega) hI
  have hdiv : 2 ^ ki * 2 ^ g / 2 ^ ki = 2 ^ g := Nat.mul_div_cancel_left _ hI
  unfold switchRingRef
  simp only [ha, hr, isPow2_pow, Bool.not_true, Bool.false_eq_true, if_false]
  rw [hgap]
  have e1 : (Nat.min (2 ^ ki) (2 ^ ki * 2 ^ g)) = 2 ^ ki := Nat.min_eq_left (by omega)
  have e2 : (Nat.max (2 ^ ki) (2 ^ ki * 2 ^ g)) = 2 ^ ki * 2 ^ g := Nat.max_eq_right (by omega)
  simp only [e1, e2, Nat.mul_mod_right]
  have e3 : (2 ^ ki == 0) = false := beq_eq_false_iff_ne.mpr (by omega)
  have e4 : (2 ^ ki == 2 ^ ki * 2 ^ g) = false := beq_eq_false_iff_ne.mpr (by omega)
  simp only [e3, e4, bne_self_eq_false, Bool.false_eq_true, if_false, hdiv]
  rw [if_neg (by omega), scatterStep_eq, ha]
  congr 1
  exact upFold_eq_ring a ki g hg ha

/-- equal degrees: both kernels copy -/
theorem switchRing_same (res a : List W) (k : Nat) (hr : res.length = 2 ^ k) (ha : a.length = 2 ^ k) :
    switchRingRef res a = .ok (ofI (znxSwitchRing res.length (toI a))) ∧
    switchRingAvx res a = .ok (ofI (znxSwitchRing res.length (toI a))) := by
  have hI : 0 < 2 ^ k := by positivity
  have e3 : (2 ^ k == 0) = false := beq_eq_false_iff_ne.mpr (by omega)
  have hsw : znxSwitchRing (2 ^ k) (toI a) = toI a := by
    unfold znxSwitchRing; simp [toI_length, ha]
  constructor
  · unfold switchRingRef
    simp only [ha, hr, isPow2_pow, Bool.not_true, Bool.false_eq_true, if_false, Nat.min_self, Nat.max_self, Nat.mod_self, e3,
      bne_self_eq_false, beq_self_eq_true, if_true, hsw, ofI_toI]
  · unfold switchRingAvx
    simp only [ha, hr, isPow2_pow, Bool.not_true, Bool.false_eq_true, if_false, Nat.min_self, Nat.max_self, Nat.mod_self, e3,
      bne_self_eq_false, beq_self_eq_true, if_true, hsw, ofI_toI]

/-- small rings: the AVX kernel calls the reference kernel -/
theorem switchRingAvx_small (res a : List W) (ki ko : Nat) (hr : res.length = 2 ^ ko) (ha : a.length = 2 ^ ki)
    (hne : ki ≠ ko) (hs : ki < 2 ∨ ko < 2) : switchRingAvx res a = switchRingRef res a := by
  have hI : 0 < 2 ^ ki := by positivity
  have hO : 0 < 2 ^ ko := by positivity
  have hmin : Nat.min (2 ^ ki) (2 ^ ko) < 4 := by
    rcases hs with h | h
    · have : 2 ^ ki < 2 ^ 2 := Nat.pow_lt_pow_right (by decide) h
      exact Nat.lt_of_le_of_lt (Nat.min_le_left _ _) this
    · have : 2 ^ ko < 2 ^ 2 := Nat.pow_lt_pow_right (by decide) h
      exact Nat.lt_of_le_of_lt (Nat.min_le_right _ _) this
  have hneq : (2 ^ ki == 2 ^ ko) = false :=
    beq_eq_false_iff_ne.mpr (fun h => hne (Nat.pow_right_injective (le_refl 2) h))
  have hdvd : Nat.max (2 ^ ki) (2 ^ ko) % Nat.min (2 ^ ki) (2 ^ ko) = 0 := by
    rcases Nat.le_total ki ko with h | h
    · have hle : 2 ^ ki ≤ 2 ^ ko := Nat.pow_le_pow_right (by decide) h
      have e1 : Nat.max (2 ^ ki) (2 ^ ko) = 2 ^ ko := Nat.max_eq_right hle
      have e2 : Nat.min (2 ^ ki) (2 ^ ko) = 2 ^ ki := Nat.min_eq_left hle
      rw [e1, e2]
      exact Nat.mod_eq_zero_of_dvd (Nat.pow_dvd_pow 2 h)
    · have hle : 2 ^ ko ≤ 2 ^ ki := Nat.pow_le_pow_right (by decide) h
      have e1 : Nat.max (2 ^ ki) (2 ^ ko) = 2 ^ ki := Nat.max_eq_left hle
      have e2 : Nat.min (2 ^ ki) (2 ^ ko) = 2 ^ ko := Nat.min_eq_right hle
      rw [e1, e2]
      exact Nat.mod_eq_zero_of_dvd (Nat.pow_dvd_pow 2 h)
  have hm0 : (Nat.min (2 ^ ki) (2 ^ ko) == 0) = false := by
    apply beq_eq_false_iff_ne.mpr
    have : 0 < Nat.min (2 ^ ki) (2 ^ ko) := Nat.lt_min.mpr ⟨hI, hO⟩
    omega
  conv => lhs; unfold switchRingAvx
  simp only [ha, hr, isPow2_pow, Bool.not_true, Bool.false_eq_true, if_false, hm0, hdvd, bne_self_eq_false, hneq]
  rw [if_pos hmin]

/-- every admissible degree pair (powers of two): the AVX kernel and the reference kernel both compute the ring
model's `znxSwitchRing` -/
theorem switchRing_all (res a : List W) (ki ko : Nat) (hr : res.length = 2 ^ ko) (ha : a.length = 2 ^ ki) :
    switchRingRef res a = .ok (ofI (znxSwitchRing res.length (toI a))) ∧
    switchRingAvx res a = .ok (ofI (znxSwitchRing res.length (toI a))) := by
  rcases Nat.lt_trichotomy ki ko with h | h | h
  · obtain ⟨g, rfl⟩ : ∃ g, ko = ki + g := ⟨ko - ki, by omega⟩
    have hg : 1 ≤ g := by omega
    have hR := switchRingRef_up res a ki g hg hr ha
    refine ⟨hR, ?_⟩
    by_cases h2 : 2 ≤ ki
    · exact switchRingAvx_up res a ki g h2 hg hr ha
    · rw [switchRingAvx_small res a ki (ki + g) hr ha (by omega) (Or.inl (by omega))]; exact hR
  · subst h; exact switchRing_same res a ki hr ha
  · obtain ⟨g, rfl⟩ : ∃ g, ki = ko + g := ⟨ki - ko, by omega⟩
    have hg : 1 ≤ g := by omega
    have hR := switchRingRef_down res a ko g hg hr ha
    refine ⟨hR, ?_⟩
    by_cases h2 : 2 ≤ ko
    · exact switchRingAvx_down res a ko g h2 hg hr ha
    · rw [switchRingAvx_small res a (ko + g) ko hr ha (by omega) (Or.inr (by omega))]; exact hR

/-! ### `znx_automorphism_avx` -/

theorem hensel_id (p x : BitVec 64) : p * (x * (2#64 - p * x)) - 1#64 = -((p * x - 1#64) * (p * x - 1#64)) := by
  have e2 : (2#64 : BitVec 64) = 2 := rfl
  have e1 : (1#64 : BitVec 64) = 1 := rfl
  rw [e2, e1]; ring

theorem sqz (z : BitVec 64) (i : Nat) (hi : i = 1 ∨ i = 2 ∨ i = 4 ∨ i = 8 ∨ i = 16 ∨ i = 32)
    (h : z <<< (64 - i) = 0#64) : (-(z * z)) <<< (64 - 2 * i) = 0#64 := by
  rcases hi with rfl | rfl | rfl | rfl | rfl | rfl <;> norm_num at h ⊢ <;> bv_decide

/-- `go` of `inv_mod_pow2`: started at `i` (a power of two ≤ 64) with `p·x ≡ 1 (mod 2^i)`, it returns `x'` with
`p·x' ≡ 1 (mod 2^bits)` -/
theorem go_spec (p : BitVec 64) (bits : Nat) (hb : bits ≤ 64) :
    ∀ (fuel e : Nat) (x : BitVec 64), e + fuel = 7 → e ≤ 6 → (p * x - 1#64) <<< (64 - 2 ^ e) = 0#64 →
      (p * (invModPow2.go p bits fuel (2 ^ e) x) - 1#64) <<< (64 - bits) = 0#64 := by
  have mono : ∀ (z : BitVec 64) (a b : Nat), a ≤ b → z <<< a = 0#64 → z <<< b = 0#64 := by
    intro z a b hab h
    have : b = a + (b - a) := by omega
    rw [this, BitVec.shiftLeft_add, h]; simp
  intro fuel
  induction fuel with
  | zero => intro e x h1 h2; omega
  | succ f ih =>
    intro e x h1 h2 hinv
    unfold invModPow2.go
    by_cases hlt : 2 ^ e < bits
    · simp only [hlt, if_true]
      have he5 : e ≤ 5 := by
        by_contra hc
        have : e = 6 := by omega
        subst this; norm_num at hlt; omega
      have e' : 2 ^ e <<< 1 = 2 ^ (e + 1) := by simp [Nat.shiftLeft_eq, Nat.pow_succ]
      rw [e']
      apply ih (e + 1) _ (by omega) (by omega)
      rw [hensel_id]
      have hi : 2 ^ e = 1 ∨ 2 ^ e = 2 ∨ 2 ^ e = 4 ∨ 2 ^ e = 8 ∨ 2 ^ e = 16 ∨ 2 ^ e = 32 := by
        have : e = 0 ∨ e = 1 ∨ e = 2 ∨ e = 3 ∨ e = 4 ∨ e = 5 := by omega
        rcases this with rfl | rfl | rfl | rfl | rfl | rfl <;> simp
      have := sqz (p * x - 1#64) (2 ^ e) hi hinv
      rw [Nat.pow_succ, Nat.mul_comm]; exact this
    · simp only [hlt, if_false]
      exact mono _ _ _ (by omega) hinv

theorem shl_zero_dvd (y : BitVec 64) (s : Nat) (hs : s ≤ 64) (h : y <<< s = 0#64) : 2 ^ (64 - s) ∣ y.toNat := by
  have := congrArg BitVec.toNat h
  rw [BitVec.toNat_shiftLeft] at this
  simp only [BitVec.toNat_ofNat, Nat.zero_mod] at this
  rw [Nat.shiftLeft_eq] at this
  have hd : 2 ^ 64 ∣ y.toNat * 2 ^ s := Nat.dvd_of_mod_eq_zero this
  have e : (2 : Nat) ^ 64 = 2 ^ (64 - s) * 2 ^ s := by rw [← Nat.pow_add]; congr 1; omega
  rw [e] at hd
  exact Nat.dvd_of_mul_dvd_mul_right (by positivity) hd

theorem inv_spec (p : BitVec 64) (bits : Nat) (h1 : 1 ≤ bits) (hb : bits ≤ 63) (hodd : p &&& 1#64 = 1#64) :
    ((invModPow2 p bits).toNat * p.toNat) % 2 ^ bits = 1 ∧ (invModPow2 p bits).toNat < 2 ^ bits := by
  have h0 : (p * 1#64 - 1#64) <<< (64 - 2 ^ 0) = 0#64 := by
    norm_num; bv_decide
  have hg := go_spec p bits (by omega) 7 0 1#64 (by omega) (by omega) h0
  simp only [Nat.pow_zero] at hg
  obtain ⟨x, hx⟩ : ∃ x, x = invModPow2.go p bits 7 1 1#64 := ⟨_, rfl⟩
  rw [← hx] at hg
  have hdvd := shl_zero_dvd _ (64 - bits) (by omega) hg
  have e64 : 64 - (64 - bits) = bits := by omega
  rw [e64] at hdvd
  have hmask : ((1#64 <<< bits) - 1#64).toNat = 2 ^ bits - 1 := by
    have hlt : 2 ^ bits < 2 ^ 64 := Nat.pow_lt_pow_right (by decide) (by omega)
    have hpos : 0 < 2 ^ bits := by positivity
    rw [BitVec.toNat_sub, BitVec.toNat_shiftLeft]
    simp only [BitVec.toNat_ofNat, Nat.shiftLeft_eq]
    norm_num at hlt ⊢
    omega
  have hinv : (invModPow2 p bits).toNat = x.toNat % 2 ^ bits := by
    have : invModPow2 p bits = x &&& ((1#64 <<< bits) - 1#64) := by rw [hx]; rfl
    rw [this]
    rw [BitVec.toNat_and, hmask, Nat.and_two_pow_sub_one_eq_mod]
  have hpow : 2 ^ bits ∣ 2 ^ 64 := Nat.pow_dvd_pow 2 (by omega)
  have hP : (p * x).toNat % 2 ^ bits = 1 := by
    have hy : (p * x).toNat = ((p * x - 1#64).toNat + 1) % 2 ^ 64 := by
      have : p * x = (p * x - 1#64) + 1#64 := by
        have e1 : (1#64 : BitVec 64) = 1 := rfl
        rw [e1]; ring
      conv => lhs; rw [this]
      rw [BitVec.toNat_add]; simp
    rw [hy, Nat.mod_mod_of_dvd _ hpow]
    obtain ⟨q, hq⟩ := hdvd
    rw [hq, Nat.add_comm, Nat.add_mul_mod_self_left]
    have : 1 < 2 ^ bits := Nat.one_lt_two_pow (by omega)
    exact Nat.mod_eq_of_lt this
  constructor
  · rw [hinv, Nat.mul_mod, Nat.mod_mod, ← Nat.mul_mod, Nat.mul_comm]
    have : (p * x).toNat = p.toNat * x.toNat % 2 ^ 64 := BitVec.toNat_mul p x
    rw [this, Nat.mod_mod_of_dvd _ hpow] at hP
    exact hP
  · rw [hinv]; exact Nat.mod_lt _ (by positivity)

theorem ofNat_mask_toNat (m : Nat) (hm : m ≤ 64) : (BitVec.ofNat 64 (2 ^ m - 1)).toNat = 2 ^ m - 1 := by
  rw [BitVec.toNat_ofNat]
  apply Nat.mod_eq_of_lt
  have : 2 ^ m ≤ 2 ^ 64 := Nat.pow_le_pow_right (by decide) hm
  have : 0 < 2 ^ m := by positivity
  omega

theorem pw_and (p : Int) (m : Nat) (hm : m ≤ 64) :
    ((BitVec.ofInt 64 p) &&& BitVec.ofNat 64 (2 ^ m - 1)).toNat = (p % (2 ^ m : Int)).toNat := by
  rw [BitVec.toNat_and, ofNat_mask_toNat m hm, Nat.and_two_pow_sub_one_eq_mod, BitVec.toNat_ofInt]
  have h64 : (0 : Int) ≤ p % 2 ^ 64 := Int.emod_nonneg _ (by positivity)
  have hm0 : (0 : Int) ≤ p % 2 ^ m := Int.emod_nonneg _ (by positivity)
  have hd : ((2 : Int) ^ m) ∣ 2 ^ 64 := pow_dvd_pow 2 hm
  have := Int.emod_emod_of_dvd p hd
  zify
  rw [Int.toNat_of_nonneg (by exact_mod_cast h64), Int.toNat_of_nonneg hm0]
  exact_mod_cast this

/-- `p_2n` of `znx_automorphism_avx` -/
theorem p2_toNat (p : Int) (k : Nat) (hk : k + 1 ≤ 63) :
    (((BitVec.ofInt 64 p &&& BitVec.ofNat 64 (2 ^ (k + 1) - 1)) + BitVec.ofNat 64 (2 ^ (k + 1))) &&&
      BitVec.ofNat 64 (2 ^ (k + 1) - 1)).toNat = (p % (2 ^ (k + 1) : Int)).toNat := by
  have hlt : (p % (2 ^ (k + 1) : Int)).toNat < 2 ^ (k + 1) := by
    have h1 : p % (2 ^ (k + 1) : Int) < 2 ^ (k + 1) := Int.emod_lt_of_pos _ (by positivity)
    have h0 : (0 : Int) ≤ p % 2 ^ (k + 1) := Int.emod_nonneg _ (by positivity)
    zify; rw [Int.toNat_of_nonneg h0]; exact_mod_cast h1
  have h63 : 2 ^ (k + 1) ≤ 2 ^ 63 := Nat.pow_le_pow_right (by decide) hk
  rw [BitVec.toNat_and, ofNat_mask_toNat _ (by omega), Nat.and_two_pow_sub_one_eq_mod, BitVec.toNat_add, pw_and p (k + 1) (by omega),
    BitVec.toNat_ofNat]
  have e1 : 2 ^ (k + 1) % 2 ^ 64 = 2 ^ (k + 1) := Nat.mod_eq_of_lt (by omega)
  have e2 : ((p % (2 ^ (k + 1) : Int)).toNat + 2 ^ (k + 1)) % 2 ^ 64 = (p % (2 ^ (k + 1) : Int)).toNat + 2 ^ (k + 1) :=
    Nat.mod_eq_of_lt (by omega)
  rw [e1, e2, Nat.add_mod_right, Nat.mod_eq_of_lt hlt]

/-- index arithmetic of the vector loop: `t_base` after `q` iterations plus the lane offset `l` is
`(4q + l)·inv mod 2n` -/
theorem lane_index (q l inv M : Nat) :
    ((q * ((inv <<< 2) % M)) % M + (inv * l) % M) % M = ((4 * q + l) * inv) % M := by
  have h1 : (q * ((inv <<< 2) % M)) % M ≡ q * (inv * 4) [MOD M] := by
    refine (Nat.mod_modEq _ _).trans ?_
    apply Nat.ModEq.mul_left
    rw [Nat.shiftLeft_eq]
    exact Nat.mod_modEq _ _
  have h2 : (inv * l) % M ≡ inv * l [MOD M] := Nat.mod_modEq _ _
  have := h1.add h2
  have e : q * (inv * 4) + inv * l = (4 * q + l) * inv := by ring
  rw [e] at this
  exact this

theorem lane_index' (q l inv M o : Nat) (ho : o % M = (inv * l) % M) :
    ((q * ((inv <<< 2) % M)) % M + o) % M = ((4 * q + l) * inv) % M := by
  rw [Nat.add_mod, Nat.mod_mod, ho, ← lane_index q l inv M, Nat.add_mod ((q * ((inv <<< 2) % M)) % M), Nat.mod_mod, Nat.mod_mod]

/-- the vector loop of `znx_automorphism_avx` after `q` iterations: lane `j` holds the gather at `j·inv mod 2n` -/
theorem autoFold (a : List W) (n m inv q : Nat) :
    (List.range q).foldl (autoStep a n (2 ^ m - 1) ((inv <<< 2) &&& (2 ^ m - 1))
        [0, inv, (inv * 2) &&& (2 ^ m - 1), (inv * 3) &&& (2 ^ m - 1)]) (0, [])
      = ((q * ((inv <<< 2) % 2 ^ m)) % 2 ^ m, (List.range (4 * q)).map (fun j => autoLane a n ((j * inv) % 2 ^ m))) := by
  induction q with
  | zero => simp
  | succ q ih =>
    rw [List.range_succ, List.foldl_append, ih]
    simp only [List.foldl_cons, List.foldl_nil, autoStep, Nat.and_two_pow_sub_one_eq_mod, List.map_cons, List.map_nil]
    have l0 := lane_index' q 0 inv (2 ^ m) 0 (by simp)
    have l1 := lane_index' q 1 inv (2 ^ m) inv (by simp)
    have l2 := lane_index' q 2 inv (2 ^ m) ((inv * 2) % 2 ^ m) (by simp)
    have l3 := lane_index' q 3 inv (2 ^ m) ((inv * 3) % 2 ^ m) (by simp)
    rw [l0, l1, l2, l3]
    congr 1
    · rw [Nat.add_mod, Nat.mod_mod, Nat.mod_mod, ← Nat.add_mod, Nat.succ_mul]
      conv => rhs; rw [Nat.add_mod, Nat.mod_mod, ← Nat.add_mod]
    · have : 4 * (q + 1) = 4 * q + 1 + 1 + 1 + 1 := by omega
      rw [this, List.range_succ, List.range_succ, List.range_succ, List.range_succ]
      simp [List.append_assoc]

theorem slt_ofNat (x y : Nat) (hx : x < 2 ^ 63) (hy : y < 2 ^ 63) :
    BitVec.slt (BitVec.ofNat 64 x) (BitVec.ofNat 64 y) = decide (x < y) := by
  have ex : (BitVec.ofNat 64 x).toInt = x := by
    rw [BitVec.toInt_eq_toNat_cond, BitVec.toNat_ofNat]
    have : x % 2 ^ 64 = x := Nat.mod_eq_of_lt (by omega)
    rw [this]; simp; omega
  have ey : (BitVec.ofNat 64 y).toInt = y := by
    rw [BitVec.toInt_eq_toNat_cond, BitVec.toNat_ofNat]
    have : y % 2 ^ 64 = y := Nat.mod_eq_of_lt (by omega)
    rw [this]; simp; omega
  rw [BitVec.slt, ex, ey]; simp

theorem ofInt_w64_neg (x : W) : BitVec.ofInt 64 (w64 (-(x.toInt))) = -x := by
  have h : BitVec.ofInt 64 (w64 (-(x.toInt))) = BitVec.ofInt 64 (-(x.toInt)) := by
    apply BitVec.eq_of_toInt_eq
    rw [BitVec.toInt_ofInt, BitVec.toInt_ofInt]
    unfold w64
    simp [Int.bmod]
  rw [h, BitVec.ofInt_neg, BitVec.ofInt_toInt]

/-- one gathered lane = the negacyclic extension of `a` at `t` (ring model `coeffZ`) -/
theorem autoLane_val (a : List W) (k t : Nat) (hk : k ≤ 61) (ha : a.length = 2 ^ k) (ht : t < 2 * 2 ^ k) :
    autoLane a (2 ^ k) t = some (BitVec.ofInt 64 (coeffZ w64 (toI a) (t : Int))) := by
  have hn : 0 < 2 ^ k := by positivity
  have h62 : 2 ^ k ≤ 2 ^ 61 := Nat.pow_le_pow_right (by decide) hk
  have hidx : t % 2 ^ k < a.length := by rw [ha]; exact Nat.mod_lt _ hn
  unfold autoLane
  simp only [Nat.and_two_pow_sub_one_eq_mod, List.getElem?_eq_getElem hidx, Option.map_some, condNegate_eq,
    slt_ofNat (2 ^ k - 1) t (by omega) (by omega)]
  congr 1
  unfold coeffZ
  have hs : (((t : Int)) % (2 * ((2 ^ k : Nat) : Int))).toNat = t := by
    have : ((t : Int)) % (2 * ((2 ^ k : Nat) : Int)) = t := Int.emod_eq_of_lt (by omega) (by omega)
    rw [this]; simp
  simp only [toI_length, ha]
  rw [hs]
  by_cases hlt : t < 2 ^ k
  · have h1 : ¬ (2 ^ k - 1 < t) := by omega
    have h2 : t % 2 ^ k = t := Nat.mod_eq_of_lt hlt
    simp only [h1, decide_false, Bool.false_eq_true, if_false, hlt, if_true]
    have ht' : t < a.length := by omega
    simp [toI, h2, List.getD_eq_getElem?_getD, List.getElem?_eq_getElem ht', BitVec.ofInt_toInt]
  · have h1 : 2 ^ k - 1 < t := by omega
    have h2 : t % 2 ^ k = t - 2 ^ k := by
      rw [Nat.mod_eq_sub_mod (by omega), Nat.mod_eq_of_lt (by omega)]
    simp only [h1, decide_true, if_true, hlt, if_false]
    have ht' : t - 2 ^ k < a.length := by omega
    have : (toI a).getD (t - 2 ^ k) 0 = (a[t - 2 ^ k]'ht').toInt := by
      simp [toI, List.getD_eq_getElem?_getD, List.getElem?_eq_getElem ht']
    rw [this, ofInt_w64_neg]
    simp [h2]

theorem toI_allP (a : List W) : AllP I64 (toI a) := by
  intro x hx
  unfold toI at hx
  obtain ⟨v, _, rfl⟩ := List.mem_map.mp hx
  have h1 : v.toInt < 2 ^ 63 := BitVec.toInt_lt (x := v)
  have h2 : -(2 ^ 63) ≤ v.toInt := BitVec.le_toInt v
  exact ⟨h2, h1⟩

/-- ring-model side: coefficient `j` of `σ_p a` is the negacyclic extension of `a` at `j·inv` whenever
`inv·p ≡ 1 (mod 2n)` -/
theorem auto_getD_inv (p : Int) (aI : Poly) (inv : Nat) (hn : 0 < aI.length) (hA : AllP I64 aI) (hg : GalOk p aI.length)
    (hinv : (inv * (p % (2 * (aI.length : Int))).toNat) % (2 * aI.length) = 1) (j : Nat) (hj : j < aI.length) :
    (znxAutomorphism p aI).getD j 0 = coeffZ w64 aI ((j : Int) * inv) := by
  have hlen := auto_length w64 p aI
  have h1 : coeffZ w64 (znxAutomorphismW w64 p aI) (j : Int) = (znxAutomorphismW w64 p aI).getD j 0 :=
    coeffZ_of_lt w64 _ j (by rw [hlen]; exact hj)
  show (znxAutomorphismW w64 p aI).getD j 0 = _
  rw [← h1, ← auto_coeffZ negOn64 p aI hn hA hg ((j : Int) * inv)]
  apply coeffZ_congr
  rw [hlen]
  -- (j·inv·p) ≡ j (mod 2n)
  have hM : (0 : Int) < 2 * (aI.length : Int) := by omega
  have h0 : 0 ≤ p % (2 * (aI.length : Int)) := Int.emod_nonneg _ (by omega)
  have hP : ((inv : Int) * p) % (2 * (aI.length : Int)) = 1 := by
    have : ((inv : Int) * p) % (2 * (aI.length : Int)) = ((inv : Int) * (p % (2 * (aI.length : Int)))) % (2 * (aI.length : Int)) := by
      rw [Int.mul_emod, Int.mul_emod (inv : Int) (p % _), Int.emod_emod_of_dvd _ (dvd_refl _)]
    rw [this]
    have hc : ((inv * (p % (2 * (aI.length : Int))).toNat : Nat) : Int) = (inv : Int) * (p % (2 * (aI.length : Int))) := by
      push_cast; rw [Int.toNat_of_nonneg h0]
    rw [← hc]
    have := congrArg (fun x : Nat => (x : Int)) hinv
    push_cast at this ⊢
    exact_mod_cast this
  have : (j : Int) * inv * p = j * ((inv : Int) * p) := by ring
  rw [this, Int.mul_emod, hP, Int.mul_one, Int.emod_emod_of_dvd _ (dvd_refl _)]

/-- `znx_automorphism_avx`, vector path (`4 ≤ n = 2^k ≤ 2^61`, `p` odd): the gather through `inv_mod_pow2(p mod 2n)`
with conditional negation is the ring model's Galois automorphism `σ_p` -/
theorem automorphismAvx_eq_ring (p : Int) (res a : List W) (k : Nat) (hk2 : 2 ≤ k) (hk : k ≤ 61)
    (hr : res.length = 2 ^ k) (ha : a.length = 2 ^ k) (hp : p % 2 = 1) :
    automorphismAvx p res a = .ok (ofI (znxAutomorphism p (toI a))) := by
  have hn : 0 < 2 ^ k := by positivity
  have h4 : 4 ≤ 2 ^ k := by
    calc 4 = 2 ^ 2 := rfl
      _ ≤ 2 ^ k := Nat.pow_le_pow_right (by decide) hk2
  have hM : 2 ^ k <<< 1 = 2 ^ (k + 1) := by simp [Nat.shiftLeft_eq, Nat.pow_succ]
  have hM2 : 2 ^ (k + 1) = 2 * 2 ^ k := by rw [Nat.pow_succ]; omega
  unfold automorphismAvx
  simp only [ha, hr, bne_self_eq_false, Bool.false_eq_true, if_false, isPow2_pow, Bool.not_true, hM, Nat.log2_two_pow]
  have e0 : (2 ^ k == 0) = false := beq_eq_false_iff_ne.mpr (by omega)
  have e1 : (p % 2 == 0) = false := beq_eq_false_iff_ne.mpr (by omega)
  simp only [e0, e1, Bool.false_eq_true, if_false]
  rw [if_neg (by omega)]
  -- the exponent and its inverse
  have hp2 := p2_toNat p k (by omega)
  generalize hP : (((BitVec.ofInt 64 p &&& BitVec.ofNat 64 (2 ^ (k + 1) - 1)) + BitVec.ofNat 64 (2 ^ (k + 1))) &&&
      BitVec.ofNat 64 (2 ^ (k + 1) - 1)) = p2 at hp2 ⊢
  have hodd : p2 &&& 1#64 = 1#64 := by
    apply BitVec.eq_of_toNat_eq
    rw [BitVec.toNat_and, hp2]
    simp only [BitVec.toNat_ofNat]
    norm_num
    have h0 : (0 : Int) ≤ p % 2 ^ (k + 1) := Int.emod_nonneg _ (by positivity)
    have hd : ((2 : Int)) ∣ 2 ^ (k + 1) := dvd_pow_self 2 (by omega)
    have := Int.emod_emod_of_dvd p hd
    zify
    rw [Int.toNat_of_nonneg h0, this]; exact hp
  obtain ⟨hinv, _⟩ := inv_spec p2 (k + 1) (by omega) (by omega) hodd
  generalize (invModPow2 p2 (k + 1)).toNat = inv at hinv ⊢
  -- the loop
  rw [autoFold a (2 ^ k) (k + 1) inv (2 ^ k >>> 2), pow_div4 k hk2]
  simp only []
  have hlane : ∀ j ∈ List.range (2 ^ k), autoLane a (2 ^ k) (j * inv % 2 ^ (k + 1))
      = some (BitVec.ofInt 64 (coeffZ w64 (toI a) (((j * inv % 2 ^ (k + 1) : Nat) : Int)))) := by
    intro j _
    exact autoLane_val a k _ hk ha (by rw [← hM2]; exact Nat.mod_lt _ (by positivity))
  have hany : ((List.range (2 ^ k)).map (fun j => autoLane a (2 ^ k) (j * inv % 2 ^ (k + 1)))).any Option.isNone = false := by
    rw [List.any_eq_false]
    intro x hx
    obtain ⟨j, hj, rfl⟩ := List.mem_map.mp hx
    rw [hlane j hj]; simp
  rw [hany]
  simp only [Bool.false_eq_true, if_false]
  congr 1
  rw [List.filterMap_map, filterMap_eq_map_of _ _ _ (by intro j hj; simpa using hlane j hj)]
  -- ring model side
  have hlenI : (toI a).length = 2 ^ k := by rw [toI_length, ha]
  have hG : GalOk p (toI a).length := by rw [hlenI]; exact galOk_pow2 k hp
  have hinv' : (inv * (p % (2 * ((toI a).length : Int))).toNat) % (2 * (toI a).length) = 1 := by
    rw [hlenI]
    have : (2 * ((2 ^ k : Nat) : Int)) = 2 ^ (k + 1) := by push_cast; ring
    rw [this, ← hM2]
    rw [hp2] at hinv
    exact hinv
  apply List.ext_getElem?
  intro j
  by_cases hj : j < 2 ^ k
  · rw [List.getElem?_map, List.getElem?_range hj]
    unfold ofI
    rw [List.getElem?_map]
    have hl : j < (znxAutomorphism p (toI a)).length := by
      show j < (znxAutomorphismW w64 p (toI a)).length
      rw [auto_length, hlenI]; exact hj
    rw [List.getElem?_eq_getElem hl]
    simp only [Option.map_some]
    congr 2
    have hget := auto_getD_inv p (toI a) inv (by rw [hlenI]; exact hn) (toI_allP a) hG hinv' j (by rw [hlenI]; exact hj)
    rw [List.getD_eq_getElem?_getD, List.getElem?_eq_getElem hl] at hget
    simp only [Option.getD_some] at hget
    rw [hget]
    apply coeffZ_congr
    rw [hlenI]
    have : (2 * ((2 ^ k : Nat) : Int)) = ((2 ^ (k + 1) : Nat) : Int) := by push_cast; ring
    rw [this]
    push_cast
    rw [Int.emod_emod_of_dvd _ (dvd_refl _)]
  · rw [List.getElem?_eq_none (by simp; omega), List.getElem?_eq_none]
    unfold ofI
    rw [List.length_map]
    show (znxAutomorphismW w64 p (toI a)).length ≤ j
    rw [auto_length, hlenI]; omega

/-! ### reference automorphism kernel = ring model -/

theorem toInt_ofInt_I64 (y : Int) (h : I64 y) : (BitVec.ofInt 64 y).toInt = y := by
  rw [BitVec.toInt_ofInt]
  unfold I64 at h
  simp [Int.bmod]
  omega

theorem toInt_neg_w64 (x : W) : (-x).toInt = w64 (-(x.toInt)) := by
  rw [← ofInt_w64_neg x, toInt_ofInt_I64 _ (w64_I64 _)]

theorem toI_set (r : List W) (i : Nat) (v : W) : toI (r.set i v) = (toI r).set i v.toInt := by
  unfold toI; rw [List.map_set]

/-- the scalar loop on lanes simulates the ring model's `autoLoop` -/
theorem autoRef_sim (kk pp : Nat) (rest : List W) (k : Nat) (r : List W) :
    toI (rest.foldl (autoRefStep (2 ^ kk) pp (2 * 2 ^ kk - 1)) (k, r)).2 = autoLoop w64 (2 ^ kk) pp (toI rest) k (toI r) := by
  have hM : 2 * 2 ^ kk = 2 ^ (kk + 1) := by rw [Nat.pow_succ]; omega
  induction rest generalizing k r with
  | nil => simp [autoLoop, toI]
  | cons ai rest ih =>
    simp only [List.foldl_cons]
    have hstep : autoRefStep (2 ^ kk) pp (2 * 2 ^ kk - 1) (k, r) ai
        = ((k + pp) % (2 * 2 ^ kk), if (k + pp) % (2 * 2 ^ kk) < 2 ^ kk then r.set ((k + pp) % (2 * 2 ^ kk)) ai
            else r.set ((k + pp) % (2 * 2 ^ kk) - 2 ^ kk) (-ai)) := by
      unfold autoRefStep
      simp only [hM, Nat.and_two_pow_sub_one_eq_mod]
    rw [hstep, ih]
    have hc : toI (ai :: rest) = ai.toInt :: toI rest := by simp [toI]
    rw [hc, autoLoop]
    congr 1
    split
    · rw [toI_set]
    · rw [toI_set, toInt_neg_w64]

/-- `znx_automorphism_ref` on lanes = `znxAutomorphismIntoW` of the ring model (any exponent, `n = 2^k ≤ 2^62`) -/
theorem automorphismRef_eq_ring (p : Int) (res a : List W) (k : Nat) (hk : k ≤ 62) (hr : res.length = 2 ^ k) (ha : a.length = 2 ^ k) :
    automorphismRef p res a = .ok (ofI (znxAutomorphismIntoW w64 p (toI res) (toI a))) := by
  have hn : 0 < 2 ^ k := by positivity
  have hM : 2 * 2 ^ k = 2 ^ (k + 1) := by rw [Nat.pow_succ]; omega
  unfold automorphismRef
  simp only [ha, hr, bne_self_eq_false, Bool.false_eq_true, if_false]
  have e0 : (2 ^ k == 0) = false := beq_eq_false_iff_ne.mpr (by omega)
  simp only [e0, Bool.false_eq_true, if_false]
  congr 1
  obtain ⟨a0, rest, rfl⟩ : ∃ a0 rest, a = a0 :: rest := by
    cases a with
    | nil => simp at ha; omega
    | cons x t => exact ⟨x, t, rfl⟩
  have hpp : ((BitVec.ofInt 64 p) &&& BitVec.ofNat 64 (2 * 2 ^ k - 1)).toNat = (p % (2 * ((2 ^ k : Nat) : Int))).toNat := by
    rw [hM, pw_and p (k + 1) (by omega)]
    congr 2
    push_cast; ring
  rw [hpp]
  simp only [List.drop_succ_cons, List.drop_zero, List.getD_cons_zero]
  generalize hF : List.foldl (autoRefStep (2 ^ k) (p % (2 * ((2 ^ k : Nat) : Int))).toNat (2 * 2 ^ k - 1)) (0, res.set 0 a0) rest = F
  rw [← ofI_toI F.2, ← hF, autoRef_sim]
  congr 1
  unfold znxAutomorphismIntoW
  simp only [toI_length, hr]
  have ht : List.take (2 ^ k) (toI (a0 :: rest)) = a0.toInt :: toI rest := by
    rw [List.take_of_length_le (by rw [toI_length, ha])]; simp [toI]
  rw [ht]
  simp only [toI_set]

/-- every power-of-two degree `n = 2^k ≤ 2^61`, every odd exponent: reference kernel and AVX kernel (including its
`n < 4` fallback) both compute the ring model's `σ_p`, whatever `res` held before -/
theorem automorphism_all (p : Int) (res a : List W) (k : Nat) (hk : k ≤ 61)
    (hr : res.length = 2 ^ k) (ha : a.length = 2 ^ k) (hp : p % 2 = 1) :
    automorphismRef p res a = .ok (ofI (znxAutomorphism p (toI a))) ∧
    automorphismAvx p res a = .ok (ofI (znxAutomorphism p (toI a))) := by
  have hn : 0 < 2 ^ k := by positivity
  have hlenI : (toI a).length = 2 ^ k := by rw [toI_length, ha]
  have hR : automorphismRef p res a = .ok (ofI (znxAutomorphism p (toI a))) := by
    rw [automorphismRef_eq_ring p res a k (by omega) hr ha]
    congr 2
    exact autoInto_eq_auto negOn64 p (toI res) (toI a) (by rw [hlenI]; exact hn) (by rw [toI_length, toI_length, hr, ha])
      (toI_allP res) (toI_allP a) (by rw [hlenI]; exact galOk_pow2 k hp)
  refine ⟨hR, ?_⟩
  by_cases h2 : 2 ≤ k
  · exact automorphismAvx_eq_ring p res a k h2 hk hr ha hp
  · have hlt : 2 ^ k < 4 := by
      have : 2 ^ k < 2 ^ 2 := Nat.pow_lt_pow_right (by decide) (by omega)
      simpa using this
    rw [← hR]
    unfold automorphismAvx
    simp only [ha, hr, bne_self_eq_false, Bool.false_eq_true, if_false, isPow2_pow, Bool.not_true]
    have e0 : (2 ^ k == 0) = false := beq_eq_false_iff_ne.mpr (by omega)
    have e1 : (p % 2 == 0) = false := beq_eq_false_iff_ne.mpr (by omega)
    simp only [e0, e1, Bool.false_eq_true, if_false]
    rw [if_pos hlt]

end Avx
