/-
Key generation as encryption (C01 → the key hypotheses of C03/C04/C05/C14/C15), part 1: one cell.
`glwe_encrypt_sk_internal` with the plaintext in ANY column (`Some((pt, col))`, the GGSW rows): reduction to the
plaintext-free routine on a modified mask list, then the exact phase.
-/
import Poulpy.Lemmas.CoreEncMain
import Poulpy.Lemmas.CoreEncPoly
import Poulpy.Lemmas.NormRun

namespace CoreEnc
open NormL

/-- what the loop multiplies by `s_col` when the plaintext sits in column `col ≥ 1`: `normalize(a − pt)` -/
def srcOf (b n size : Nat) (p a : Col) : Col := normalizeAssignCol b (vecSub n size a p) n

/-- the mask list with the column whose loop index is `col` replaced (`i` = loop index of the head) -/
def replCol (f : Col → Col) : Nat → Nat → List Col → List Col
  | _, _, [] => []
  | i, col, a :: as => (if i = col then f a else a) :: replCol f (i + 1) col as

theorem replCol_length (f : Col → Col) : ∀ (i col : Nat) (l : List Col), (replCol f i col l).length = l.length := by
  intro i col l
  induction l generalizing i with
  | nil => rfl
  | cons a as ih => simp [replCol, ih]

theorem encSkStep_repl (bits b n size : Nat) (p : Col) (col i : Nat) (a : Col) (s : Poly) (c0 : Col) :
    Core.encSkStep bits b n size (some (p, col)) i a s c0
      = Core.encSkStep bits b n size none i (if i = col then srcOf b n size p a else a) s c0 := by
  unfold Core.encSkStep srcOf
  by_cases h : i = col <;> simp [h]

theorem encSkLoop_repl (bits b n size : Nat) (p : Col) (col : Nat) : ∀ (masks : List Col) (sk : List Poly) (i : Nat) (c0 : Col),
    Core.encSkLoop bits b n size (some (p, col)) i masks sk c0
      = Core.encSkLoop bits b n size none i (replCol (srcOf b n size p) i col masks) sk c0 := by
  intro masks
  induction masks with
  | nil => intro sk i c0; simp [replCol, Core.encSkLoop]
  | cons a as ih =>
    intro sk i c0
    cases sk with
    | nil => simp [replCol, Core.encSkLoop]
    | cons s ss =>
      simp only [replCol, Core.encSkLoop, encSkStep_repl]
      cases Core.encSkStep bits b n size none i (if i = col then srcOf b n size p a else a) s c0 with
      | none => rfl
      | some c1 => exact ih ss (i + 1) c1

theorem encSkFinish_col (b n size kxe : Nat) (p : Col) (col : Nat) (hc : col ≠ 0) (e : Poly) (c0 : Col) :
    Core.encSkFinish b n size kxe (some (p, col)) e c0 = Core.encSkFinish b n size kxe none e c0 := by
  unfold Core.encSkFinish Core.addPtCol0
  simp [hc]

/-- **plaintext in column `col ≥ 1`** = the plaintext-free routine on the masks with column `col` replaced by `normalize(a_col − pt)` -/
theorem encryptSkBody_col (bits b n size kxe : Nat) (masks : List Col) (p : Col) (col : Nat) (hc : col ≠ 0) (sk : List Poly) (e : Poly) :
    Core.encryptSkBody bits b n size kxe masks (some (p, col)) sk e
      = Core.encryptSkBody bits b n size kxe (replCol (srcOf b n size p) 1 col masks) none sk e := by
  unfold Core.encryptSkBody
  rw [encSkLoop_repl]
  cases Core.encSkLoop bits b n size none 1 (replCol (srcOf b n size p) 1 col masks) sk (Core.zeroCol n size) with
  | none => rfl
  | some c0 => exact encSkFinish_col b n size kxe p col hc e c0

/-- `vec_znx_normalize_assign` on one coefficient (C08 `normalize_assign_value`, restated here for the lemma layer) -/
theorem normAssign_value {b : Nat} {H : Int} (hr : HeadRoom 64 b 0 H) (a : List Int) (ha : ∀ x ∈ a, |x| ≤ H) :
    (normalizeAssignCoef b a).length = a.length ∧ (∀ d ∈ normalizeAssignCoef b a, Balanced b d) ∧
    TorusEq (valI b (normalizeAssignCoef b a)) (b * a.length) (valI b a) (b * a.length) := by
  unfold normalizeAssignCoef
  rw [assignRun_eq hr a ha]
  have h0 : |(0 : Int)| ≤ H + 3 := by have := hr.hH0; simp; linarith
  obtain ⟨⟨q, hq⟩, hl, hb⟩ := finalTopRun_spec hr a ha 0 h0
  refine ⟨hl, hb, -q, ?_⟩
  simp only [pow_zero, mul_one, add_zero] at hq
  have : (2 : Int) ^ (b * a.length + b * a.length) = 2 ^ (b * a.length) * 2 ^ (b * a.length) := by rw [pow_add]
  rw [this]
  linear_combination (2 ^ (b * a.length)) * hq

theorem vecSub_same (n size : Nat) (a p : Col) (ha : a.length = size) (hp : p.length = size) :
    vecSub n size a p = List.zipWith (fun x y => List.zipWith (fun u v => w64 (u - v)) x y) a p := by
  unfold vecSub vecSubW
  rw [if_pos (by omega)]
  simp only [ha, hp, Nat.min_self, List.take_of_length_le (le_of_eq ha), List.take_of_length_le (le_of_eq hp),
    List.drop_of_length_le (le_of_eq hp), List.map_nil, Nat.sub_self, List.replicate_zero, List.append_nil]
  rfl

/-- `normalize(a − pt)`: shape, balanced limbs, value `≡ val(a) − val(pt)` modulo `2^(b·size)` -/
theorem srcOf_spec {b n size : Nat} (hb1 : 1 ≤ b) (hb : b ≤ 61) (a p : Col) (ha : a.length = size) (hp : p.length = size)
    (hwa : WF n a) (hwp : WF n p) (A P : Int) (hA : CoefBounded n A a) (hP : CoefBounded n P p) (hAP : A + P ≤ 2 ^ 62) :
    (srcOf b n size p a).length = size ∧ WF n (srcOf b n size p a) ∧ Bounded (2 ^ (b - 1)) (srcOf b n size p a) ∧
    ∀ t, t < n → ∃ K : Int,
      valI b (coefAt (srcOf b n size p a) t) = valI b (coefAt a t) - valI b (coefAt p t) + K * 2 ^ (b * size) := by
  have hr := headRoom64 hb1 hb
  unfold srcOf
  rw [vecSub_same n size a p ha hp]
  obtain ⟨z1, z2, z3⟩ := colZip_spec (n := n) (fun u v => w64 (u - v)) a p hwa hwp (by rw [ha, hp])
  set d := List.zipWith (fun x y => List.zipWith (fun u v => w64 (u - v)) x y) a p with hd
  have hnowrap : ∀ t, t < n → coefAt d t = List.zipWith (· - ·) (coefAt a t) (coefAt p t) := by
    intro t ht
    rw [z3 t ht]
    apply zipWith_wrap_eq w64 (· - ·) (B1 := A) (B2 := P) _ _ _ (hA t ht) (hP t ht)
    intro x y hx hy
    apply w64_id
    have := abs_sub x y
    have : (2 : Int) ^ 62 < 2 ^ 63 := by norm_num
    linarith
  have hdB : ∀ t, t < n → ∀ x ∈ coefAt d t, |x| ≤ 2 ^ 62 := by
    intro t ht x hx
    rw [hnowrap t ht] at hx
    refine zipWith_bound (· - ·) (B1 := A) (B2 := P) ?_ _ _ (hA t ht) (hP t ht) x hx
    intro u v hu hv
    have := abs_sub u v
    show |u - v| ≤ 2 ^ 62
    linarith
  have hlen : ∀ t, t < n → (normalizeAssignCoef b (coefAt d t)).length = d.length := by
    intro t ht
    rw [(normAssign_value hr _ (hdB t ht)).1, coefAt_length]
  unfold normalizeAssignCol
  refine ⟨by rw [mapCoefs_length, z1, ha], mapCoefs_WF _ _ _, ?_, ?_⟩
  · apply bounded_of_coef (mapCoefs_WF _ _ _)
    intro t ht v hv
    rw [coefAt_mapCoefs n d.length _ t ht (hlen t ht)] at hv
    have hbal := (normAssign_value hr _ (hdB t ht)).2.1 v hv
    unfold Balanced at hbal
    rw [abs_le]; constructor <;> linarith [hbal.1, hbal.2]
  · intro t ht
    rw [coefAt_mapCoefs n d.length _ t ht (hlen t ht)]
    obtain ⟨k, hk⟩ := torusEq_same (normAssign_value hr _ (hdB t ht)).2.2
    refine ⟨k, ?_⟩
    rw [hk, hnowrap t ht, valI_zipWith_sub b _ _ (by rw [coefAt_length, coefAt_length, ha, hp])]
    simp [coefAt_length, ha, hp]

end CoreEnc
