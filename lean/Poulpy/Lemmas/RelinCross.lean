import Poulpy.Lemmas.EpConvert
import Poulpy.Lemmas.MulCompose

/-!
Relinearisation of a tensor that is NOT in the tensor-key radix: `glwe_tensor_relinearize` converts every column it reads
(`vec_znx_normalize` into `⌈size·ab/bg⌉` limbs of the key radix) — it is the same-radix relinearisation of the converted tensor, and the
conversion is exact on the torus under every secret (in particular the grouped secret of `glwe_tensor_decrypt`).
-/

namespace Core
open Hal Ks Finset C02L Core.Ops KsDec

/-- `glwe_normalize` of a column list into another radix, total and exact (`ab ≠ bg`) -/
theorem glweNormalize_total (N : Nat) (hN : 0 < N) (a : List Col) (ab bg sa : Nat) (Hin : Int)
    (hne : a ≠ []) (hwf : ∀ c ∈ a, ColWF N sa c)
    (hab1 : 1 ≤ ab) (hab : ab ≤ 62) (hbg1 : 1 ≤ bg) (hbg : bg ≤ 62)
    (hH0 : 0 ≤ Hin) (hH : Hin + 8 ≤ 2 ^ 62) (hb : ∀ c ∈ a, ∀ l ∈ c, ∀ x ∈ l, |x| ≤ Hin) :
    ∃ a', a.mapM (fun c => normalizeCol? bg ((sa * ab + bg - 1) / bg) 0 c ab N) = some a' ∧ a'.length = a.length ∧
      (∀ c ∈ a', ColWF N ((sa * ab + bg - 1) / bg) c) ∧ (∀ c ∈ a', ∀ l ∈ c, ∀ x ∈ l, |x| ≤ 2 ^ bg - 1) ∧
      ∀ (s : List Poly), ∃ Q : Poly, Q.length = N ∧
        (2 : R N) ^ (ab * sa) * ι N (valP bg N (phase s (Ks.mkCt bg N a')))
          = (2 : R N) ^ (bg * ((sa * ab + bg - 1) / bg)) * ι N (valP ab N (phase s (Ks.mkCt ab N a)))
            + (2 : R N) ^ (bg * ((sa * ab + bg - 1) / bg) + ab * sa) * ι N Q := by
  obtain ⟨cs, h1, h2, h3, h4, h5⟩ := norm_stage_ring false N bg ((sa * ab + bg - 1) / bg) ab sa 0 Hin a hN hbg1 hbg hab1 hab hH0
    (by simpa [bitsOf] using hH) hne hwf hb
  refine ⟨cs, h1, h2, h3, h4, ?_⟩
  intro s
  obtain ⟨E, Q, hE, hQ, hn, he⟩ := h5 s
  have hcov : ab * sa ≤ bg * ((sa * ab + bg - 1) / bg) := by
    have h1 := Nat.div_add_mod (sa * ab + bg - 1) bg
    have h2 := Nat.mod_lt (sa * ab + bg - 1) (by omega : 0 < bg)
    rw [Nat.mul_comm ab sa]
    generalize bg * ((sa * ab + bg - 1) / bg) = z at h1 ⊢
    generalize sa * ab = w at h1 h2 ⊢
    omega
  have htol : normTolOff (bg * ((sa * ab + bg - 1) / bg)) (ab * sa) 0 = 0 := by
    rw [normTolOff_zero]; unfold C02.normTol; rw [if_pos hcov]
  rw [htol, mul_zero] at hn
  have hE0 := ι_of_normInf_le_zero N E hn
  refine ⟨Q, hQ, ?_⟩
  rw [hE0] at he
  push_cast at he
  simpa using he

theorem mapM_congr_mem {α β} (f g : α → Option β) : ∀ (l : List α), (∀ x ∈ l, f x = g x) → l.mapM f = l.mapM g
  | [], _ => rfl
  | x :: xs, h => by
    rw [List.mapM_cons, List.mapM_cons, h x List.mem_cons_self, mapM_congr_mem f g xs (fun y hy => h y (List.mem_cons_of_mem _ hy))]

/-- **cross-radix relinearisation = same-radix relinearisation of the converted tensor** -/
theorem relinearize_cross (big128 : Bool) (n rb rs : Nat) (a a' : List Col) (ab : Nat) (g : GGLWE) (res0 : List Col) (sa : Nat)
    (hne : ab ≠ g.base2k) (hb1 : 1 ≤ g.base2k) (hsa : (a.getD 0 []).length = sa)
    (hlen : a.length = g.colsOut + g.colsIn)
    (hconv : a.mapM (fun c => normalizeCol? g.base2k ((sa * ab + g.base2k - 1) / g.base2k) 0 c ab n) = some a')
    (hsa' : (a'.getD 0 []).length = (sa * ab + g.base2k - 1) / g.base2k) :
    relinearize big128 n rb rs a ab g g.size res0 = relinearize big128 n rb rs a' g.base2k g g.size res0 := by
  have hget : ∀ i, i < a.length → normalizeCol? g.base2k ((sa * ab + g.base2k - 1) / g.base2k) 0 (a.getD i []) ab n = some (a'.getD i []) :=
    fun i hi => mapM_some_getD _ [] [] _ _ hconv i hi
  have e2 : ((sa * ab + g.base2k - 1) / g.base2k * g.base2k + g.base2k - 1) / g.base2k = (sa * ab + g.base2k - 1) / g.base2k := by
    generalize (sa * ab + g.base2k - 1) / g.base2k = c
    have : c * g.base2k + g.base2k - 1 = g.base2k * c + (g.base2k - 1) := by rw [Nat.mul_comm]; omega
    rw [this, Nat.mul_add_div (by omega), Nat.div_eq_of_lt (by omega)]; omega
  unfold relinearize
  simp only [hsa, hsa', e2, ne_eq, hne, not_false_eq_true, if_true, not_true_eq_false, if_false]
  have hpairs : (List.range g.colsIn).mapM (fun i =>
        (normalizeCol? g.base2k ((sa * ab + g.base2k - 1) / g.base2k) 0 (a.getD (g.colsOut + i) []) ab n).map
          (fun c => Hal.dftApplyCol n 1 0 ((sa * ab + g.base2k - 1) / g.base2k) c))
      = (List.range g.colsIn).mapM (fun i => some (Hal.dftApplyCol n 1 0 ((sa * ab + g.base2k - 1) / g.base2k) (a'.getD (g.colsOut + i) []))) := by
    apply mapM_congr_mem
    intro i hi
    rw [hget (g.colsOut + i) (by have := List.mem_range.mp hi; omega)]
    rfl
  rw [hpairs]
  congr 1
  funext aD
  have hfirst : ∀ resBig : List Col, (List.range g.colsOut).mapM (fun i =>
        (normalizeCol? g.base2k ((sa * ab + g.base2k - 1) / g.base2k) 0 (a.getD i []) ab n).map
          (fun c => bigAddSmallAssign big128 (resBig.getD i []) c))
      = (List.range g.colsOut).mapM (fun i => some (bigAddSmallAssign big128 (resBig.getD i []) (a'.getD i []))) := by
    intro resBig
    apply mapM_congr_mem
    intro i hi
    rw [hget i (by have := List.mem_range.mp hi; omega)]
    rfl
  simp only [hfirst]

end Core
