import Poulpy.Lemmas.F64Ops

namespace F64

/-- the rounded magnitude as a real number -/
noncomputable def rv (m : Nat) (e : Int) : ℝ := (roundSig m e : ℝ) * (2:ℝ) ^ quantum m e

theorem val_round_eq (d : Dy) (hm : d.m ≠ 0) (hx : (d.m:ℝ) * (2:ℝ) ^ d.e < (2:ℝ) ^ (1023:Int)) :
    val (round d) = (if d.neg then -1 else 1) * rv d.m d.e := by
  obtain ⟨hq1, _⟩ := quantum_ge d.m d.e
  have hq2 := quantum_le_of_lt d.m d.e hm hx
  obtain ⟨hs1, hs2⟩ := roundSig_bounds d.m d.e hm
  obtain ⟨r0, hr0, hneg, hval⟩ := decode_encode (quantum d.m d.e) (roundSig d.m d.e) hq1 hq2 hs1 hs2
  have hrm : roundMag d.m d.e = encode (quantum d.m d.e) (roundSig d.m d.e) := by
    unfold roundMag; rw [if_neg hm]
  have hdec : decode (round d) = some ⟨d.neg, r0.m, r0.e⟩ := by
    unfold round; rw [hrm]; exact decode_pack _ _ _ hr0 hneg
  rw [val_of_decode hdec]; unfold Dy.val rv; simp only; rw [hval]

/-- on an exact tie the rounded significand is even -/
theorem roundSig_tie_even (m : Nat) (e : Int)
    (h : |(roundSig m e : ℝ) * (2:ℝ) ^ quantum m e - (m:ℝ) * (2:ℝ) ^ e| = (2:ℝ) ^ (quantum m e - 1)) :
    roundSig m e % 2 = 0 := by
  have h2 : (2:ℝ) ≠ 0 := by norm_num
  obtain ⟨_, hex⟩ := roundSig_err m e
  by_cases hqe : quantum m e ≤ e
  · rw [hex hqe, sub_self, abs_zero] at h
    have : (0:ℝ) < (2:ℝ) ^ (quantum m e - 1) := by positivity
    linarith
  · set q := quantum m e with hq
    have hrs : roundSig m e = rneShift m (q - e).toNat := by unfold roundSig; simp only [← hq]; rw [if_neg hqe]
    set sh := (q - e).toNat with hsh
    obtain ⟨s, hs⟩ : ∃ s, sh = s + 1 := ⟨sh - 1, by omega⟩
    have hq' : (2:ℝ) ^ q = (2:ℝ) ^ sh * (2:ℝ) ^ e := by
      rw [← zpow_natCast, ← zpow_add₀ h2]; congr 1; omega
    have hq1 : (2:ℝ) ^ (q - 1) = (2:ℝ) ^ s * (2:ℝ) ^ e := by
      rw [← zpow_natCast, ← zpow_add₀ h2]; congr 1; omega
    have he : (0:ℝ) < (2:ℝ) ^ e := by positivity
    rw [hrs, hq', hq1] at h
    have e1 : (rneShift m sh : ℝ) * ((2:ℝ) ^ sh * (2:ℝ) ^ e) - (m:ℝ) * (2:ℝ) ^ e
        = ((rneShift m sh : ℝ) * (2:ℝ) ^ sh - m) * (2:ℝ) ^ e := by ring
    rw [e1, abs_mul, abs_of_pos he] at h
    have h' : |(rneShift m sh : ℝ) * (2:ℝ) ^ sh - m| = (2:ℝ) ^ s := mul_right_cancel₀ he.ne' h
    -- back to naturals
    have hP : 2 ^ sh = 2 * 2 ^ s := by rw [hs, pow_succ]; ring
    have hdm := Nat.div_add_mod m (2 ^ sh)
    have hlt := Nat.mod_lt m (show 0 < 2 ^ sh by positivity)
    rw [hrs]
    have key : (rneShift m sh * 2 ^ sh = m + 2 ^ s) ∨ (rneShift m sh * 2 ^ sh + 2 ^ s = m) := by
      rcases abs_eq (by positivity : (0:ℝ) ≤ (2:ℝ) ^ s) |>.mp h' with h1 | h1
      · left
        have : (rneShift m sh : ℝ) * (2:ℝ) ^ sh = (m:ℝ) + (2:ℝ) ^ s := by linarith
        exact_mod_cast this
      · right
        have : (rneShift m sh : ℝ) * (2:ℝ) ^ sh + (2:ℝ) ^ s = (m:ℝ) := by linarith
        exact_mod_cast this
    unfold rneShift at key ⊢
    simp only [hs, Nat.add_sub_cancel] at key ⊢
    rw [← hs] at key ⊢
    set fl := m / 2 ^ sh
    set rem := m % 2 ^ sh
    set H := 2 ^ s
    rw [hP] at hdm hlt key
    split at key
    · rename_i hc
      rw [if_pos hc]
      have e2 : (fl + 1) * (2 * H) = 2 * H * fl + 2 * H := by ring
      rw [e2] at key
      rcases hc with hc | ⟨hc, hodd⟩ <;> rcases key with k | k <;> omega
    · rename_i hc
      rw [if_neg hc]
      have e2 : fl * (2 * H) = 2 * H * fl := by ring
      rw [e2] at key
      have hc1 : ¬ H < rem := fun h => hc (Or.inl h)
      have hc2 : ¬ (rem = H ∧ fl % 2 = 1) := fun h => hc (Or.inr h)
      rcases key with k | k
      · omega
      · have : rem = H := by omega
        have : ¬ fl % 2 = 1 := fun h => hc2 ⟨this, h⟩
        omega


theorem quantum_mono (m1 : Nat) (e1 : Int) (m2 : Nat) (e2 : Int) (h1 : m1 ≠ 0) (h2 : m2 ≠ 0)
    (hle : (m1:ℝ) * (2:ℝ) ^ e1 ≤ (m2:ℝ) * (2:ℝ) ^ e2) : quantum m1 e1 ≤ quantum m2 e2 := by
  have a := (mag_bounds m1 e1 h1).1
  have b := (mag_bounds m2 e2 h2).2
  have : (2:ℝ) ^ ((Nat.log2 m1 : Int) + e1) < (2:ℝ) ^ ((Nat.log2 m2 : Int) + 1 + e2) := lt_of_le_of_lt (le_trans a hle) b
  rw [zpow_lt_zpow_iff_right₀ one_lt_two_real] at this
  unfold quantum; push_cast; omega

/-- **rounding of magnitudes is monotone** -/
theorem rv_mono (m1 : Nat) (e1 : Int) (m2 : Nat) (e2 : Int) (h1 : m1 ≠ 0) (h2 : m2 ≠ 0)
    (hle : (m1:ℝ) * (2:ℝ) ^ e1 ≤ (m2:ℝ) * (2:ℝ) ^ e2) : rv m1 e1 ≤ rv m2 e2 := by
  have h2' : (2:ℝ) ≠ 0 := by norm_num
  have hq := quantum_mono m1 e1 m2 e2 h1 h2 hle
  obtain ⟨b1, _⟩ := roundSig_bounds m1 e1 h1
  obtain ⟨_, b2⟩ := roundSig_bounds m2 e2 h2
  unfold rv
  rcases lt_or_eq_of_le hq with hlt | heq
  · -- different binades: a power of two separates the results
    have hq2 : -1074 < quantum m2 e2 := lt_of_le_of_lt (quantum_ge m1 e1).1 hlt
    have c2 := b2 hq2
    have s1 : (roundSig m1 e1 : ℝ) * (2:ℝ) ^ quantum m1 e1 ≤ (2:ℝ) ^ (53:Nat) * (2:ℝ) ^ quantum m1 e1 :=
      mul_le_mul_of_nonneg_right (by exact_mod_cast b1) (by positivity)
    have s2 : (2:ℝ) ^ (52:Nat) * (2:ℝ) ^ quantum m2 e2 ≤ (roundSig m2 e2 : ℝ) * (2:ℝ) ^ quantum m2 e2 :=
      mul_le_mul_of_nonneg_right (by exact_mod_cast c2) (by positivity)
    have s3 : (2:ℝ) ^ (53:Nat) * (2:ℝ) ^ quantum m1 e1 ≤ (2:ℝ) ^ (52:Nat) * (2:ℝ) ^ quantum m2 e2 := by
      rw [← zpow_natCast, ← zpow_natCast, ← zpow_add₀ h2', ← zpow_add₀ h2']
      exact zpow_le_zpow_right₀ one_lt_two_real.le (by push_cast; omega)
    linarith
  · -- same binade
    by_contra hcon
    rw [not_le] at hcon
    set q := quantum m2 e2 with hq2
    rw [heq] at hcon
    set N1 := roundSig m1 e1
    set N2 := roundSig m2 e2
    have hw : (0:ℝ) < (2:ℝ) ^ q := by positivity
    have hN : N2 + 1 ≤ N1 := by
      have : (N2:ℝ) < (N1:ℝ) := lt_of_mul_lt_mul_right hcon hw.le
      have : N2 < N1 := by exact_mod_cast this
      omega
    have hNr : ((N2:ℝ) + 1) * (2:ℝ) ^ q ≤ (N1:ℝ) * (2:ℝ) ^ q :=
      mul_le_mul_of_nonneg_right (by exact_mod_cast hN) hw.le
    have ew : (2:ℝ) ^ q = 2 * (2:ℝ) ^ (q - 1) := by
      rw [show q = (q - 1) + 1 by ring, zpow_add₀ h2']; simp; ring
    obtain ⟨r1, _⟩ := roundSig_err m1 e1
    obtain ⟨r2, _⟩ := roundSig_err m2 e2
    rw [heq] at r1
    have a1 := (abs_le.mp r1).2
    have a2 := (abs_le.mp r2).1
    set x := (m1:ℝ) * (2:ℝ) ^ e1
    set y := (m2:ℝ) * (2:ℝ) ^ e2
    set hw2 := (2:ℝ) ^ (q - 1)
    -- all inequalities are equalities
    have ex : (N1:ℝ) * (2:ℝ) ^ q - x = hw2 := by nlinarith
    have ey : (N2:ℝ) * (2:ℝ) ^ q - y = -hw2 := by nlinarith
    have eN : (N1:ℝ) * (2:ℝ) ^ q = ((N2:ℝ) + 1) * (2:ℝ) ^ q := by nlinarith
    have hN1 : (N1:ℝ) = (N2:ℝ) + 1 := mul_right_cancel₀ hw.ne' eN
    have hN1' : N1 = N2 + 1 := by exact_mod_cast hN1
    have t1 := roundSig_tie_even m1 e1 (by rw [heq, ex]; exact abs_of_pos (by positivity))
    have t2 := roundSig_tie_even m2 e2 (by rw [ey, abs_neg]; exact abs_of_pos (by positivity))
    change N1 % 2 = 0 at t1
    change N2 % 2 = 0 at t2
    omega


theorem rv_nonneg (m : Nat) (e : Int) : 0 ≤ rv m e := by unfold rv; positivity

theorem Dy.val_pos_iff (d : Dy) : (0 < d.val ↔ d.neg = false ∧ d.m ≠ 0) ∧ (d.val < 0 ↔ d.neg = true ∧ d.m ≠ 0) := by
  have h2 : (0:ℝ) < (2:ℝ) ^ d.e := by positivity
  unfold Dy.val
  by_cases hm : d.m = 0
  · simp [hm]
  · have hmp : (0:ℝ) < (d.m:ℝ) * (2:ℝ) ^ d.e := by
      have : (0:ℝ) < (d.m:ℝ) := by exact_mod_cast Nat.pos_of_ne_zero hm
      positivity
    cases hn : d.neg
    · simp only [Bool.false_eq_true, if_false, one_mul]
      constructor
      · simp [hm, hmp]
      · constructor
        · intro h; linarith
        · intro h; simp at h
    · simp only [if_true]
      constructor
      · constructor
        · intro h; linarith
        · intro h; simp at h
      · simp [hm]; linarith

/-- **`round` is monotone** on exact values of magnitude below `2^1023` -/
theorem round_mono (x y : Dy) (hx : |x.val| < (2:ℝ) ^ (1023:Int)) (hy : |y.val| < (2:ℝ) ^ (1023:Int))
    (h : x.val ≤ y.val) : val (round x) ≤ val (round y) := by
  have vr : ∀ d : Dy, |d.val| < (2:ℝ) ^ (1023:Int) →
      (d.m = 0 → val (round d) = 0) ∧ (d.m ≠ 0 → val (round d) = (if d.neg then -1 else 1) * rv d.m d.e) := by
    intro d hd
    constructor
    · intro hm
      have hdd : d = ⟨d.neg, 0, d.e⟩ := by cases d; simp_all
      have h0 := round_zero d.neg d.e
      rw [← hdd] at h0
      rw [val_of_decode h0, Dy.val_zero]
    · intro hm; rw [Dy.val_abs] at hd; exact val_round_eq d hm hd
  obtain ⟨x0, x1⟩ := vr x hx
  obtain ⟨y0, y1⟩ := vr y hy
  have sgn : ∀ d : Dy, |d.val| < (2:ℝ) ^ (1023:Int) → (0 ≤ d.val → 0 ≤ val (round d)) ∧ (d.val ≤ 0 → val (round d) ≤ 0) := by
    intro d hd
    obtain ⟨d0, d1⟩ := vr d hd
    obtain ⟨p1, p2⟩ := Dy.val_pos_iff d
    have hr := rv_nonneg d.m d.e
    by_cases hm : d.m = 0
    · rw [d0 hm]; exact ⟨fun _ => le_rfl, fun _ => le_rfl⟩
    · rw [d1 hm]
      constructor
      · intro hpos
        cases hn : d.neg
        · simp; exact hr
        · exfalso; have := p2.mpr ⟨hn, hm⟩; linarith
      · intro hneg
        cases hn : d.neg
        · exfalso; have := p1.mpr ⟨hn, hm⟩; linarith
        · simp; exact hr
  by_cases hyn : y.val < 0
  · -- both negative
    have hxn : x.val < 0 := lt_of_le_of_lt h hyn
    obtain ⟨nx, mx⟩ := (Dy.val_pos_iff x).2.mp hxn
    obtain ⟨ny, my⟩ := (Dy.val_pos_iff y).2.mp hyn
    rw [x1 mx, y1 my, nx, ny]; simp only [if_true]
    have hmag : (y.m:ℝ) * (2:ℝ) ^ y.e ≤ (x.m:ℝ) * (2:ℝ) ^ x.e := by
      have e1 : x.val = -((x.m:ℝ) * (2:ℝ) ^ x.e) := by unfold Dy.val; rw [nx]; simp
      have e2 : y.val = -((y.m:ℝ) * (2:ℝ) ^ y.e) := by unfold Dy.val; rw [ny]; simp
      rw [e1, e2] at h; linarith
    have := rv_mono y.m y.e x.m x.e my mx hmag
    linarith
  · rw [not_lt] at hyn
    by_cases hxp : 0 < x.val
    · obtain ⟨nx, mx⟩ := (Dy.val_pos_iff x).1.mp hxp
      obtain ⟨ny, my⟩ := (Dy.val_pos_iff y).1.mp (lt_of_lt_of_le hxp h)
      rw [x1 mx, y1 my, nx, ny]; simp only [Bool.false_eq_true, if_false, one_mul]
      have e1 : x.val = (x.m:ℝ) * (2:ℝ) ^ x.e := by unfold Dy.val; rw [nx]; simp
      have e2 : y.val = (y.m:ℝ) * (2:ℝ) ^ y.e := by unfold Dy.val; rw [ny]; simp
      rw [e1, e2] at h
      exact rv_mono x.m x.e y.m y.e mx my h
    · rw [not_lt] at hxp
      exact le_trans ((sgn x hx).2 hxp) ((sgn y hy).1 hyn)

end F64
