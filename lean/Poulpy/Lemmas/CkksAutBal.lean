import Poulpy.Lemmas.CkksAut
import Poulpy.Lemmas.CkksNormOff
/-!
Balanced digits of `glwe_automorphism` at equal radices (`res_base2k = key.base2k`, the CKKS setting): the final
`vec_znx_big_normalize` is the same-radix kernel (`C08.normalize_inter_value`: balanced digits), and `σ_g` only permutes
and negates coefficients.  So the results of rotations / conjugations are `DOK` again and programs can go on.
-/

namespace Ckks
open Hal Core Core.Ops C02L Ckks.Sem Ckks.CoreSem KsDec AutoMul

theorem oall_mem {α β : Type} (f : α → Outcome β) : ∀ (L : List α) (cs : List β), Ks.oall (L.map f) = .ok cs →
    ∀ c ∈ cs, ∃ x ∈ L, f x = .ok c
  | [], cs, h => by
    simp only [List.map_nil, Ks.oall] at h
    injection h with h; subst h; simp
  | x :: xs, cs, h => by
    simp only [List.map_cons, Ks.oall] at h
    cases hx : f x with
    | ok v =>
      rw [hx] at h
      cases hxs : Ks.oall (xs.map f) with
      | ok vs =>
        rw [hxs] at h
        simp only [Ks.obind] at h
        injection h with h; subst h
        intro c hc
        rcases List.mem_cons.mp hc with rfl | hc
        · exact ⟨x, by simp, hx⟩
        · obtain ⟨x', hx', h'⟩ := oall_mem f xs vs hxs c hc
          exact ⟨x', by simp [hx'], h'⟩
      | err e => rw [hxs] at h; simp [Ks.obind] at h
      | panic p => rw [hxs] at h; simp [Ks.obind] at h
    | err e => rw [hx] at h; simp [Ks.obind] at h
    | panic p => rw [hx] at h; simp [Ks.obind] at h

/-- `glwe_keyswitch` into the key radix: balanced digits -/
theorem keyswitch_balanced {big : Bool} {N sout rout : Nat} {a : GLWE} {key : Ks.Key} {sk : List Poly} {gInv : Int}
    {EL KL : ℕ → ℕ → Poly} {Hin Hp : Int} (hN : 0 < N) (ha : GWF N a) (hbi1 : 1 ≤ a.base2k) (hbi : a.base2k ≤ 62)
    (h : AutAdm big N a key sk gInv EL KL Hin Hp rout) :
    ∀ res, Ks.keyswitch big key.base2k sout rout a key = .ok res → ∀ c ∈ res.cols, ∀ l ∈ c, ∀ x ∈ l, |x| ≤ 2 ^ (key.base2k - 1) := by
  intro res hres
  have hrank' : a.rank = key.mat.colsIn := h.hrank
  have hrout' : rout + 1 = key.mat.colsOut := by rw [h.hrout]; unfold Ks.Key.rankOut; have := h.hc0; omega
  have hpk : (0 : Int) < 2 ^ key.base2k := by positivity
  obtain ⟨aConv, hconv, gwC, hbC, hrC, hsC, hdigC, hph1⟩ := convIn_phase N a key Hin ha hbi1 hbi h.hbk1 h.hbk h.hIn0 h.hIn h.hInB
  have hbodymem : aConv.cols.getD 0 [] ∈ aConv.cols := col_mem 0 (by rw [gwC.len]; omega)
  have hHadd : Hp + (Hin + 2 ^ key.base2k) < 2 ^ (bitsOf big - 1) := by
    have h2 : (2 : Int) ^ (bitsOf big - 2) ≤ 2 ^ (bitsOf big - 1) :=
      pow_le_pow_right₀ (by norm_num) (by omega)
    have := h.hAcc
    linarith
  obtain ⟨resBig, hks, hbn, hwfacc, hbacc, hval⟩ := keyswitchInternal_value big N rout aConv key sk (sk.map (σ gInv)) EL KL Hp (Hin + 2 ^ key.base2k)
    hN gwC hbC (hrC.trans hrank') hrout' h.hD h.hM h.hS h.hEL h.hKL h.hkey (by have := h.hIn0; linarith) hHadd (h.hprod aConv hconv) (hdigC _ hbodymem)
  have hne : accCols rout resBig ≠ [] := by
    intro h; have := congrArg List.length h; simp [accCols] at this
  obtain ⟨cs, hok, hlen, hcwf, hdig, _⟩ := norm_stage big N key.base2k sout key.base2k key.mat.size (Hp + (Hin + 2 ^ key.base2k))
    (accCols rout resBig) h.hbk1 h.hbk h.hbk1 h.hbk (by have := h.hIn0; have := h.hHp0; linarith) h.hAcc hne hwfacc hbacc
  have hno : Ks.normOut big key.base2k sout rout resBig key = .ok (Ks.mkCt key.base2k N cs) := by
    unfold Ks.normOut
    have e : (List.range (rout + 1)).map (fun i => Ks.bigNormalize big key.base2k sout (resBig.act i) key.base2k resBig.n)
        = (accCols rout resBig).map (fun c => Ks.bigNormalize big key.base2k sout c key.base2k N) := by
      unfold accCols; rw [List.map_map, hbn]; rfl
    rw [e, hok, hbn]
    rfl
  have hok2 : Ks.keyswitch big key.base2k sout rout a key = .ok (Ks.mkCt key.base2k N cs) := by
    unfold Ks.keyswitch
    rw [if_neg (by simpa using h.hrank), if_neg (by simpa using h.hrout)]
    have hnn : a.n = aConv.n := by rw [ha.1, gwC.1]
    simp only [hconv, Ks.obind, hnn, hks, hno]
  rw [hok2] at hres
  injection hres with hres
  subst hres
  intro c hc
  obtain ⟨x, hx, hxc⟩ := oall_mem _ _ _ hok c hc
  rw [bigNormalize_eq] at hxc
  have hk : Core.bigNormalizeOff big N key.base2k sout 0 x key.base2k = some c := by
    rw [NormOff.bigNormalizeOff_eq]
    unfold kern at hxc
    cases hkk : (if big then bigNormalizeCol128? else bigNormalizeCol64?) key.base2k sout 0 x key.base2k N with
    | none => rw [hkk] at hxc; simp [Ks.ofOpt] at hxc
    | some v => rw [hkk] at hxc; simp only [Ks.ofOpt] at hxc; injection hxc with hxc; rw [hxc]
  exact NormOff.same_radix_balanced big N key.base2k sout 0 _ x c h.hbk1 h.hbk
    (by have := h.hIn0; have := h.hHp0; linarith) h.hAcc (hbacc x hx) hk

/-- `σ_g` keeps a symmetric digit bound -/
theorem σ_bound {g : Int} {N : Nat} (hN : 0 < N) (hg : GalOk g N) {l : Poly} (hl : l.length = N) {B : Int}
    (h : ∀ x ∈ l, |x| ≤ B) : ∀ x ∈ σ g l, |x| ≤ B := by
  intro x hx
  obtain ⟨j, hj, rfl⟩ := List.getElem_of_mem hx
  have hjN : j < N := by rw [σ_length, hl] at hj; exact hj
  obtain ⟨j', hj', ε, hε, he⟩ := σ_index g N hN hg j hjN
  have := he l hl
  rw [List.getD_eq_getElem?_getD, List.getElem?_eq_getElem hj] at this
  simp only [Option.getD_some] at this
  rw [this]
  have hm : |l.getD j' 0| ≤ B := by
    rw [List.getD_eq_getElem?_getD, List.getElem?_eq_getElem (by rw [hl]; exact hj')]
    exact h _ (List.getElem_mem _)
  rcases hε with rfl | rfl <;> simpa using hm

/-- **`glwe_automorphism` into the key radix: balanced digits** -/
theorem automorphism_balanced {big : Bool} {N sout rout : Nat} {a : GLWE} {key : Ks.Key} {sk : List Poly} {gInv : Int}
    {EL KL : ℕ → ℕ → Poly} {Hin Hp : Int} (hN : 0 < N) (ha : GWF N a) (hbi1 : 1 ≤ a.base2k) (hbi : a.base2k ≤ 62)
    (h : AutAdm big N a key sk gInv EL KL Hin Hp rout) :
    ∀ res, Ks.automorphism big key.base2k sout rout a key = .ok res → ∀ c ∈ res.cols, ∀ l ∈ c, ∀ x ∈ l, |x| ≤ 2 ^ (key.base2k - 1) := by
  intro res hres
  unfold Ks.automorphism at hres
  cases hk : Ks.keyswitch big key.base2k sout rout a key with
  | ok r =>
    rw [hk] at hres
    simp only [Ks.obind] at hres
    injection hres with hres
    subst hres
    have hbal := keyswitch_balanced hN ha hbi1 hbi h r hk
    obtain ⟨r', aConv, hok, _, gwR, _, _, _, _⟩ := glwe_keyswitch_decrypts big N key.base2k sout rout a key sk (sk.map (σ gInv)) EL KL Hin Hp hN ha
      h.hrank h.hrout h.hc0 h.hD h.hM h.hS hbi1 hbi h.hbk1 h.hbk h.hbk1 h.hbk h.hIn0 h.hIn h.hInB h.hHp0 h.hAcc h.hprod h.hs h.hEL h.hKL h.hkey
      h.hcov1 h.hcov2
    rw [hk] at hok
    injection hok with hok
    subst hok
    have hhalf : (2 : Int) ^ (key.base2k - 1) ≤ 2 ^ 61 := pow_le_pow_right₀ (by norm_num) (by have := h.hbk; omega)
    intro c hc l hl x hx
    simp only [Ks.ctMapCols, List.mem_map] at hc
    obtain ⟨c0, hc0, rfl⟩ := hc
    unfold vecAutomorphismAssignW at hl
    obtain ⟨l0, hl0, rfl⟩ := List.mem_map.mp hl
    have hl0N : l0.length = N := (gwR.2.2 c0 hc0).2 l0 hl0
    have e : znxAutomorphismW w64 key.p l0 = σ key.p l0 := by
      apply auto_w64_eq_id
      intro y hy
      have h1 := abs_le.mp (hbal c0 hc0 l0 hl0 y hy)
      norm_num at hhalf
      constructor <;> linarith
    rw [e] at hx
    exact σ_bound hN h.hg hl0N (hbal c0 hc0 l0 hl0) x hx
  | err e => rw [hk] at hres; simp [Ks.obind] at hres
  | panic p => rw [hk] at hres; simp [Ks.obind] at hres

/-- the data of `ckks_rotate/conjugate(_into)` has balanced digits when the key is in the evaluator's radix -/
theorem autData_balanced {env : Env} (he : EnvOK env) {N r : Nat} (hN : 0 < N) {dst a : DCt} (hd : DOK env N r dst) (ha : DOK env N r a)
    {m : Ct} (hm : shiftInto env dst.ct a.ct 0 = .ok m) {big : Bool} {key : Ks.Key} (hkb : key.base2k = env.base2k)
    {s : List Poly} {gInv : Int} {EL KL : ℕ → ℕ → Poly} {Hin Hp : Int}
    (h0 : offsetUnary env dst.ct a.ct = 0 → AutAdm big N a.g key s gInv EL KL Hin Hp dst.g.rank)
    (h1 : ∀ g1, glweLsh N dst.g a.g (unaryShift env dst.ct a.ct 0) = .ok g1 → AutAdm big N g1 key s gInv EL KL Hin Hp g1.rank) :
    ∀ g', autData env N big key dst a = .ok g' → GBound (half env.base2k) g' := by
  intro g' hg'
  have hsp := unaryShift_spec env dst.ct a.ct m hm 0
  have hb1 : 1 ≤ env.base2k := he.lo
  have hb62 : env.base2k ≤ 62 := by have := he.hi; omega
  unfold autData at hg'
  by_cases hoff : offsetUnary env dst.ct a.ct ≠ 0
  · rw [if_pos hoff] at hg'
    obtain ⟨g1, e1, hg1, _, _⟩ := lsh_step he.lo he.hi hd ha.full (unaryShift env dst.ct a.ct 0)
      m.md.logBudget a.md.logBudget 0 (by simpa [DCt.ct] using hsp)
    rw [e1] at hg'
    simp only [Core.Ops.bind] at hg'
    have hadm := h1 g1 e1
    have e : g1.base2k = key.base2k := by rw [hg1.bk, hkb]
    rw [e] at hg'
    have := automorphism_balanced hN hg1.wf (by rw [hg1.bk]; exact hb1) (by rw [hg1.bk]; exact hb62) hadm g' hg'
    rw [hkb] at this
    exact this
  · rw [if_neg hoff] at hg'
    have h0' : offsetUnary env dst.ct a.ct = 0 := by simpa using hoff
    have hadm := h0 h0'
    have e : dst.g.base2k = key.base2k := by rw [hd.bk, hkb]
    rw [e] at hg'
    have := automorphism_balanced hN ha.wf (by rw [ha.bk]; exact hb1) (by rw [ha.bk]; exact hb62) hadm g' hg'
    rw [hkb] at this
    exact this

end Ckks
