import Poulpy.Lemmas.ExpandExec
import Poulpy.Lemmas.EpTotal

/-! The add step of the row expansion composed with the final normalisation, every kernel hypothesis discharged. -/

namespace Core
open Hal Ks C02L Core.Ops KsDec

/-- **one cell of `ggsw_expand_rows_internal`, END TO END** (output column `c+1`): gadget product with the tensor-key column, body added on
column `c+1` (exact under head-room, both accumulator widths), `vec_znx_big_normalize` into any radix. -/
theorem expand_cell_total (N : Nat) (big128 : Bool) (rb rs : Nat) (sk : List Poly) (a0 : Col) (aDft : List Col) (t : ToGGSWKey) (c : Nat)
    (X Y : Int) (sc Me : Ks.R N) (σ : ℕ → Ks.R N) (E : ℕ → ℕ → Ks.R N)
    (hrb1 : 1 ≤ rb) (hrb : rb ≤ 62) (ht1 : 1 ≤ t.base2k) (ht62 : t.base2k ≤ 62)
    (hX0 : 0 ≤ X) (hY0 : 0 ≤ Y) (hH : X + Y + 8 ≤ 2 ^ (bitsOf big128 - 2))
    (hPb : ∀ col ∈ expandProd N aDft t c, ∀ l ∈ col, ∀ x ∈ l, |x| ≤ X) (ha0 : LimbsN N a0) (ha0b : ∀ l ∈ a0, ∀ x ∈ l, |x| ≤ Y)
    (hd : 1 ≤ t.dsize) (hN : 0 < N) (hn : t.n = N) (hM : ∀ j q, ((t.at c).toPMat.entry j q).length = N)
    (hS : t.dnum * t.dsize ≤ t.size) (hc : c < t.rank) (hsk : c < sk.length) (hsc : sc = ι N (sk.getD c []))
    (hkey : ∀ i, i < t.rank → ∀ r, r < t.dnum →
      Gadget.val ((2 : Ks.R N) ^ t.base2k) t.size (Ks.keyPhase N sk (t.at c).toPMat i r)
        = sc * σ i * ((2 : Ks.R N) ^ t.base2k) ^ (t.size - (r + 1) * t.dsize) + E i r)
    (hrow : colValS N ((2 : Ks.R N) ^ t.base2k) t.size a0 + expandUsed N aDft t ((2 : Ks.R N) ^ t.base2k) σ = Me) :
    ∃ cell, (expandAcc big128 N a0 aDft t c).mapM (fun x => bigNormalizeOff big128 N rb rs 0 x t.base2k) = some cell ∧
      GWF N (Ks.mkCt rb N cell) ∧ (∀ col ∈ cell, ∀ l ∈ col, ∀ x ∈ l, |x| ≤ 2 ^ rb - 1) ∧
      ∃ En Q : Poly, En.length = N ∧ Q.length = N ∧
        normInf En ≤ (1 + snorm (min t.rank sk.length) sk) * C02.normTol (rb * rs) (t.base2k * t.size) ∧
        (2 : Ks.R N) ^ (t.base2k * t.size) * Ks.ι N (valP rb N (phase sk (Ks.mkCt rb N cell)))
          = (2 : Ks.R N) ^ (rb * rs) * (sc * Me + expandErr N sk aDft t c ((2 : Ks.R N) ^ t.base2k) E)
            + Ks.ι N En + (2 : Ks.R N) ^ (rb * rs + t.base2k * t.size) * Ks.ι N Q := by
  have hz : shapeOk (t.at c).n (t.at c).colsOut (t.at c).size (zeroCols N (t.rank + 1) t.size) = true := by
    show shapeOk t.n (t.rank + 1) t.size _ = true
    rw [hn]; exact zeroCols_shape _ _ _
  have hP : ∀ col ∈ expandProd N aDft t c, ColWF N t.size col :=
    gglweProductDft_wf N aDft (t.at c) _ hd hn hz hM
  have hlen := expandProd_length N aDft t c
  have hc1 : c + 1 < (expandProd N aDft t c).length := by rw [hlen]; omega
  have hPc : ColWF N t.size ((expandProd N aDft t c).getD (c + 1) []) ∧ ∀ l ∈ (expandProd N aDft t c).getD (c + 1) [], ∀ x ∈ l, |x| ≤ X := by
    rw [List.getD_eq_getElem?_getD, List.getElem?_eq_getElem hc1]
    exact ⟨hP _ (List.getElem_mem hc1), hPb _ (List.getElem_mem hc1)⟩
  have hbits : (2 : Int) ^ (bitsOf big128 - 1) = 2 * 2 ^ (bitsOf big128 - 2) := by
    rw [← pow_succ']; congr 1; cases big128 <;> simp [bitsOf]
  have hXY : X + Y < 2 ^ (bitsOf big128 - 1) := by
    rw [hbits]
    have : (0 : Int) < 2 ^ (bitsOf big128 - 2) := by positivity
    linarith
  have hadd : Core.bigAddSmallAssign big128 ((expandProd N aDft t c).getD (c + 1) []) a0
      = colAdd ((expandProd N aDft t c).getD (c + 1) []) (fit N t.size a0) := by
    rw [bigAddSmallAssign_exact_w (N := N) big128 X Y hXY _ _ hPc.1.2 hPc.2 ha0b, hPc.1.1]
  have hval := expand_cell_value_of_exact N big128 sk a0 aDft t c ((2 : Ks.R N) ^ t.base2k) sc Me σ E hd hN hn hM hS hc hsk hsc hP ha0 hadd hkey hrow
  have hwfA : ∀ col ∈ expandAcc big128 N a0 aDft t c, ColWF N t.size col := by
    intro col hcol
    unfold expandAcc at hcol
    rcases List.mem_or_eq_of_mem_set hcol with h | h
    · exact hP col h
    · rw [h, hadd]; exact colAdd_wf hPc.1 (fit_wf ha0 t.size)
  have hbA : ∀ col ∈ expandAcc big128 N a0 aDft t c, ∀ l ∈ col, ∀ x ∈ l, |x| ≤ X + Y := by
    intro col hcol
    unfold expandAcc at hcol
    rcases List.mem_or_eq_of_mem_set hcol with h | h
    · intro l hl x hx; have := hPb col h l hl x hx; linarith
    · rw [h, hadd]; exact colAdd_bound _ _ X Y hPc.2 (fit_bound N t.size _ Y hY0 ha0b)
  have hlenA := expandAcc_length big128 N a0 aDft t c
  have hneA : expandAcc big128 N a0 aDft t c ≠ [] := by intro h; rw [h] at hlenA; simp at hlenA
  obtain ⟨cs, h1, h2, h3, h4, h5⟩ := norm_total_rows big128 N rb rs t.base2k t.size 0 (X + Y) _ hN hrb1 hrb ht1 ht62 (by linarith) hH hneA hwfA hbA
  have hcsne : cs ≠ [] := by intro h; rw [h, hlenA] at h2; simp at h2
  refine ⟨cs, h1, (gwf_mk (N := N) rb rs cs hcsne h3).1, h4, ?_⟩
  obtain ⟨En, Q, hE, hQ, hnm, he⟩ := h5 sk
  rw [hlenA, normTolOff_zero] at hnm
  refine ⟨En, Q, hE, hQ, by simpa using hnm, ?_⟩
  rw [hval] at he
  simpa using he

end Core
