import Poulpy.Lemmas.EpTotal
import Poulpy.Lemmas.KsNoise
import Poulpy.Lemmas.ProductBound

/-!
Accumulator head-room DERIVED from operand digit bounds: every coefficient of the executed gadget product (`Ks.gglweProductDft`, hence
`Core.epInternal`, `Core.gglweProductDft`) is bounded by `dsize · (cols_in · rows) · N · Da · Dm`, and every coefficient of the convolutions
(`Core.cnvByConstCol`, `Hal.cnvApplyCol`) by `sb · Da · Db` resp. `sb · N · Da · Db`.
-/

namespace Core
open Hal Ks

/-! the product part (`PB`, `vmpFlat_bound`, `passEntry_bound`, `product_bound`, `prodBound`, `prodAdmissible`) lives in
`Lemmas/ProductBound.lean` (no dependence on Props/C03) and is re-exported by the import above -/


theorem mkBuf_PB (n cols size : Nat) (d : List Col) (D : Int) (h : shapeOk n cols size d = true)
    (hb : ∀ c ∈ d, ∀ l ∈ c, ∀ x ∈ l, |x| ≤ D) : ∀ col ∈ (mkBuf n cols size d).data, ∀ p ∈ col, PB n D p := by
  unfold shapeOk at h
  simp only [Bool.and_eq_true, beq_iff_eq, List.all_eq_true] at h
  intro col hcol p hp
  exact ⟨le_of_eq ((h.2 col hcol).2 p hp), hb col hcol p hp⟩

/-- **head-room of the external product, derived from digit bounds**: `|a| ≤ Da`, `|ggsw| ≤ Dm` ⇒ every coefficient of `Core.epInternal` is
bounded by `dsize·((rank+1)·dnum)·N·Da·Dm` -/
theorem epInternal_bound (N : Nat) (a : List Col) (g : EpGGSW) (res0 tmp0 : List Col) (Da Dm : Int) (hDa : 0 ≤ Da) (hDm : 0 ≤ Dm)
    (hd : 1 ≤ g.dsize) (hn : g.n = N)
    (ha : shapeOk g.n (g.rank + 1) (a.getD 0 []).length a = true)
    (h0 : shapeOk g.n (g.rank + 1) g.size res0 = true) (ht : shapeOk g.n (g.rank + 1) g.size tmp0 = true)
    (hab : ∀ c ∈ a, ∀ l ∈ c, ∀ x ∈ l, |x| ≤ Da)
    (hgb : ∀ row ∈ g.cells, ∀ c ∈ row, ∀ l ∈ c, ∀ x ∈ l, |x| ≤ Dm) :
    ∀ c ∈ epInternal a g res0 tmp0, ∀ l ∈ c, ∀ x ∈ l,
      |x| ≤ (g.dsize : Int) * ((((g.rank + 1) * g.dnum : Nat) : Int) * ((N : Int) * Da * Dm)) := by
  rw [epInternal_eq_ks a g res0 tmp0 hd ha h0 ht]
  intro c hc l hl x hx
  obtain ⟨j, hj, rfl⟩ := List.mem_map.mp hc
  have hj' := List.mem_range.mp hj
  obtain ⟨⟨hwf, _, _, _⟩, _⟩ := mkBuf_shape g.n (g.rank + 1) g.size res0 h0
  have hb := product_bound N (mkBuf g.n (g.rank + 1) g.size res0) (mkBuf g.n (g.rank + 1) (a.getD 0 []).length a) g.toKey Da Dm hDa hDm hd hwf
    rfl rfl rfl hn hn (by rw [← hn]; exact mkBuf_PB g.n _ _ a Da ha hab) (entry_normInf g.toPMat Dm hDm hgb) j hj' l hl
  exact (abs_le_normInf hx).trans hb

/-- the same for `Core.gglweProductDft` (relinearisation, row expansion) -/
theorem gglweProductDft_bound (N : Nat) (a : List Col) (g : GGLWE) (res0 : List Col) (Da Dm : Int) (hDa : 0 ≤ Da) (hDm : 0 ≤ Dm)
    (hd : 1 ≤ g.dsize) (hn : g.n = N)
    (ha : shapeOk g.n g.colsIn (a.getD 0 []).length a = true) (h0 : shapeOk g.n g.colsOut g.size res0 = true)
    (hab : ∀ c ∈ a, ∀ l ∈ c, ∀ x ∈ l, |x| ≤ Da)
    (hgb : ∀ row ∈ g.cells, ∀ c ∈ row, ∀ l ∈ c, ∀ x ∈ l, |x| ≤ Dm) :
    ∀ c ∈ Core.gglweProductDft a g g.size res0, ∀ l ∈ c, ∀ x ∈ l,
      |x| ≤ (g.dsize : Int) * (((g.colsIn * g.dnum : Nat) : Int) * ((N : Int) * Da * Dm)) := by
  unfold Core.gglweProductDft
  intro c hc l hl x hx
  obtain ⟨j, hj, rfl⟩ := List.mem_map.mp hc
  have hj' := List.mem_range.mp hj
  obtain ⟨⟨hwf, _, _, _⟩, _⟩ := mkBuf_shape g.n g.colsOut g.size res0 h0
  have hb := product_bound N (mkBuf g.n g.colsOut g.size res0) (mkBuf g.n g.colsIn (a.getD 0 []).length a) g.toKey Da Dm hDa hDm hd hwf
    rfl rfl rfl hn hn (by rw [← hn]; exact mkBuf_PB g.n _ _ a Da ha hab) (entry_normInf g.toPMat Dm hDm hgb) j hj' l hl
  exact (abs_le_normInf hx).trans hb

/-! ### convolutions -/

theorem limb_normInf (n : Nat) (c : Col) (j : Nat) (D : Int) (hD : 0 ≤ D) (h : ∀ l ∈ c, ∀ x ∈ l, |x| ≤ D) : normInf (limbOr0 n c j) ≤ D := by
  unfold limbOr0
  rw [List.getD_eq_getElem?_getD]
  cases hj : c[j]? with
  | none => simp only [Option.getD_none]; rw [normInf_zeroP]; exact hD
  | some l => simp only [Option.getD_some]; exact normInf_le_of_forall (h l (List.mem_of_getElem? hj)) hD

theorem getD_int_bound (b : List Int) (j : Nat) (D : Int) (hD : 0 ≤ D) (h : ∀ c ∈ b, |c| ≤ D) : |b.getD j 0| ≤ D := by
  rw [List.getD_eq_getElem?_getD]
  cases hj : b[j]? with
  | none => simpa using hD
  | some c => simpa using h c (List.mem_of_getElem? hj)

/-- **`cnv_by_const_apply`**: every coefficient of the accumulator is bounded by `|cst| · Db · Da` -/
theorem cnvByConstCol_bound (n S hi : Nat) (x : Col) (b : List Int) (Da Db : Int) (hDa : 0 ≤ Da) (hDb : 0 ≤ Db)
    (hx : ∀ l ∈ x, ∀ v ∈ l, |v| ≤ Da) (hb : ∀ c ∈ b, |c| ≤ Db) :
    ∀ l ∈ cnvByConstCol n S hi x b, ∀ v ∈ l, |v| ≤ (b.length : Int) * (Db * Da) := by
  have hK : (0 : Int) ≤ (b.length : Int) * (Db * Da) := by positivity
  intro l hl v hv
  refine (abs_le_normInf hv).trans ?_
  unfold cnvByConstCol at hl
  simp only [List.mem_map, List.mem_range] at hl
  obtain ⟨k, _, rfl⟩ := hl
  split
  · unfold cnvConstCoeff
    split
    · rw [normInf_zeroP]; exact hK
    · have h1 := normInf_sumPolys_le n ((List.range (min (k + min hi (x.length + b.length - 1) + 1) b.length - (k + min hi (x.length + b.length - 1) - (x.length - 1)))).map
          (fun t => Hal.polyScale (b.getD (k + min hi (x.length + b.length - 1) - (x.length - 1) + t) 0)
            (Hal.limbOr0 n x (k + min hi (x.length + b.length - 1) - (k + min hi (x.length + b.length - 1) - (x.length - 1) + t))))) (Db * Da) (by
        intro q hq
        simp only [List.mem_map, List.mem_range] at hq
        obtain ⟨t, _, rfl⟩ := hq
        rw [normInf_polyScale]
        exact mul_le_mul (getD_int_bound b _ Db hDb hb) (limb_normInf n x _ Da hDa hx) (normInf_nonneg _) hDb)
      rw [List.length_map, List.length_range] at h1
      refine h1.trans (mul_le_mul_of_nonneg_right ?_ (by positivity))
      have : min (k + min hi (x.length + b.length - 1) + 1) b.length - (k + min hi (x.length + b.length - 1) - (x.length - 1)) ≤ b.length := by omega
      exact_mod_cast this
  · rw [normInf_zeroP]; exact hK

/-- **`cnv_apply_dft`** (bivariate convolution): every coefficient is bounded by `|y| · N·Da·Db` -/
theorem cnvApplyCol_bound (n S hi : Nat) (x y : Col) (Da Db : Int) (hDa : 0 ≤ Da) (hDb : 0 ≤ Db)
    (hx : ∀ l ∈ x, PB n Da l) (hy : ∀ l ∈ y, ∀ v ∈ l, |v| ≤ Db) :
    ∀ l ∈ Hal.cnvApplyCol n S hi x y, ∀ v ∈ l, |v| ≤ (y.length : Int) * ((n : Int) * Da * Db) := by
  have hK : (0 : Int) ≤ (y.length : Int) * ((n : Int) * Da * Db) := by positivity
  intro l hl v hv
  refine (abs_le_normInf hv).trans ?_
  unfold Hal.cnvApplyCol at hl
  simp only [List.mem_map, List.mem_range] at hl
  obtain ⟨k, _, rfl⟩ := hl
  split
  · unfold Hal.cnvCoeff
    split
    · rw [normInf_zeroP]; exact hK
    · have h1 := normInf_sumPolys_le n ((List.range (min (k + min hi (x.length + y.length - 1) + 1) y.length - (k + min hi (x.length + y.length - 1) - (x.length - 1)))).map
          (fun t => Hal.negMul (limbOr0 n x (k + min hi (x.length + y.length - 1) - (k + min hi (x.length + y.length - 1) - (x.length - 1) + t)))
            (limbOr0 n y (k + min hi (x.length + y.length - 1) - (x.length - 1) + t)))) ((n : Int) * Da * Db) (by
        intro q hq
        simp only [List.mem_map, List.mem_range] at hq
        obtain ⟨t, _, rfl⟩ := hq
        calc normInf (Hal.negMul _ _) ≤ norm1 _ * normInf _ := normInf_negMul_le _ _
          _ ≤ ((n : Int) * Da) * Db := mul_le_mul ((limbOr0_PB x _ hx hDa).norm1_le hDa) (limb_normInf n y _ Db hDb hy) (normInf_nonneg _) (by positivity))
      rw [List.length_map, List.length_range] at h1
      refine h1.trans (mul_le_mul_of_nonneg_right ?_ (by positivity))
      have : min (k + min hi (x.length + y.length - 1) + 1) y.length - (k + min hi (x.length + y.length - 1) - (x.length - 1)) ≤ y.length := by omega
      exact_mod_cast this
  · rw [normInf_zeroP]; exact hK

/-! ### admissible shapes -/

/-- **admissible shape of a convolution** (`terms` = limbs of the second operand, `N` = ring degree for the bivariate form, `1` for constants) -/
def cnvAdmissible (bits terms N : Nat) (Da Db : Int) : Prop := (terms : Int) * ((N : Int) * Da * Db) + 8 ≤ 2 ^ (bits - 2)

instance (bits terms N : Nat) (Da Db : Int) : Decidable (cnvAdmissible bits terms N Da Db) := by unfold cnvAdmissible; infer_instance

end Core
