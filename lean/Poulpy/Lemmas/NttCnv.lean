import Poulpy.Lemmas.NttHal
import Poulpy.Lemmas.CnvSum
import Mathlib.Data.List.Fold

/-!
The bivariate convolution on the NTT120 back end equals the HAL specification
(`Hal.cnvApplyCol ∘ Hal.cnvPrepareCol`, i.e. the exact negacyclic convolution truncated at
`cnv_offset`) whenever every coefficient of the result fits `(Q−1)/2`.
-/

namespace Ntt120
open NttMath Hal

/-! ### order of summation -/

instance : Std.Commutative Hal.polyAdd := ⟨Hal.polyAdd_comm⟩
instance : Std.Associative Hal.polyAdd := ⟨Hal.polyAdd_assoc⟩

theorem sumPolys_reverse (n : Nat) (l : List Poly) : sumPolys n l.reverse = sumPolys n l := by
  unfold sumPolys
  rw [List.foldl_reverse]
  have : (fun (x y : Poly) => polyAdd y x) = polyAdd := by funext x y; exact polyAdd_comm y x
  rw [this]
  exact (List.foldl_eq_foldr (f := polyAdd)).symm

theorem range_map_reverse {α} (m : Nat) (f : Nat → α) : ((List.range m).map f).reverse = (List.range m).map (fun i => f (m - 1 - i)) := by
  apply List.ext_getElem
  · simp
  · intro i h1 h2
    simp only [List.length_reverse, List.length_map, List.length_range] at h1
    simp [List.getElem_reverse]

/-- the convolution coefficient with the rows in the kernel's (descending `j`) order -/
theorem cnvCoeff_kernel_order (n : Nat) (a b : Col) (k : Nat) (hk : k < a.length + b.length) (ha : 0 < a.length) :
    cnvCoeff n a b k =
      sumPolys n ((List.range (min (k + 1) b.length - (k - (a.length - 1)))).map (fun i =>
        negMul (limbOr0 n a (k + 1 - min (k + 1) b.length + i)) (limbOr0 n b (min (k + 1) b.length - 1 - i)))) := by
  unfold cnvCoeff
  rw [if_neg (by omega)]
  simp only []
  rw [← sumPolys_reverse, range_map_reverse]
  congr 1
  apply List.map_congr_left
  intro i hi
  have hi' := List.mem_range.mp hi
  have e1 : k - (k - (a.length - 1) + (min (k + 1) b.length - (k - (a.length - 1)) - 1 - i)) = k + 1 - min (k + 1) b.length + i := by omega
  have e2 : k - (a.length - 1) + (min (k + 1) b.length - (k - (a.length - 1)) - 1 - i) = min (k + 1) b.length - 1 - i := by omega
  rw [e1, e2]

theorem cnv_coeff_past_end' (n : Nat) (a b : Col) (k : Nat) (hk : a.length + b.length ≤ k) : cnvCoeff n a b k = zeroP n := by
  unfold cnvCoeff; simp [hk]

/-! ### the prepared operands represent the prepared columns -/

theorem realNtt_len1 (P : PrimeSet) (k j : Nat) (c : LaneCtx P k j) : ∃ t, nttTableK P k (2 ^ j) = .ok t ∧ realNtt P (2 ^ j) k = nttK t := by
  obtain ⟨t, ht⟩ := nttTableK_ok P k j c.fwd c.hj1 c.hj
  exact ⟨t, ht, realNtt_eq P _ k t ht⟩

/-- a column of `i64` limbs of ring degree `2^j` -/
def ColOK (j : Nat) (a : Col) : Prop := ∀ p ∈ a, p.length = 2 ^ j ∧ ∀ x ∈ p, -(2 ^ 63) ≤ x ∧ x < 2 ^ 63

theorem limbOr0_of_lt (n : Nat) (a : Col) (l : Nat) (h : l < a.length) : limbOr0 n a l = a[l] := by
  unfold limbOr0; exact getD_eq_getElem' a l _ h

/-- **`cnv_prepare_left`**: limb `l` of the stored lanes represents limb `l` of `Hal.cnvPrepareCol` -/
theorem cnvPrepare_rep (P : PrimeSet) (k j : Nat) (c : LaneCtx P k j) (rs : Nat) (mask : Int) (a : Col) (ha : ColOK j a)
    (l : Nat) (hl : l < rs) :
    Rep P k j ((cnvPrepareLaneK (P.qs.getD k 1) (2 ^ j) (realNtt P (2 ^ j) k) rs mask a).getD l [])
      ((cnvPrepareCol (2 ^ j) rs mask a).getD l (zeroP (2 ^ j))) := by
  obtain ⟨t, ht, ert⟩ := realNtt_len1 P k j c
  unfold cnvPrepareLaneK cnvPrepareCol
  rw [getD_map_lt _ _ l 0 [] (by simpa using hl), getD_map_lt _ _ l 0 (zeroP (2 ^ j)) (by simpa using hl)]
  have hr : (List.range rs).getD l 0 = l := by simp [List.getD, hl]
  rw [hr, ert]
  by_cases h1 : l + 1 = min rs a.length
  · rw [if_pos h1, if_pos h1]
    have hla : l < a.length := by omega
    rw [limbOr0_of_lt _ a l hla]
    exact rep_dft_masked P k j c t ht _ mask (ha _ (List.getElem_mem hla)).1
  · rw [if_neg h1, if_neg h1]
    by_cases h2 : l < min rs a.length
    · rw [if_pos h2, if_pos h2]
      have hla : l < a.length := by omega
      rw [limbOr0_of_lt _ a l hla]
      exact rep_dft P k j c t ht _ (ha _ (List.getElem_mem hla)).1 (ha _ (List.getElem_mem hla)).2
    · rw [if_neg h2, if_neg h2]
      exact rep_zero P k j c

theorem cnvPrepareCol_length (n rs : Nat) (mask : Int) (a : Col) : (cnvPrepareCol n rs mask a).length = rs := by
  simp [cnvPrepareCol]
theorem cnvPrepareLaneK_length (q n rs : Nat) (ntt : List Nat → List Nat) (mask : Int) (a : Col) :
    (cnvPrepareLaneK q n ntt rs mask a).length = rs := by simp [cnvPrepareLaneK]

/-- **`cnv_prepare_right`**: the stored q120c lanes are prepared representations of the same limbs -/
theorem cnvPrepareRight_rep (P : PrimeSet) (k j : Nat) (c : LaneCtx P k j) (rs : Nat) (mask : Int) (a : Col) (ha : ColOK j a)
    (l : Nat) (hl : l < rs) :
    PrepRep P k j ((cnvPrepareRightLaneK (P.qs.getD k 1) (2 ^ j) (realNtt P (2 ^ j) k) rs mask a).getD l [])
      ((cnvPrepareCol (2 ^ j) rs mask a).getD l (zeroP (2 ^ j))) ∧
    ∀ e ∈ (cnvPrepareRightLaneK (P.qs.getD k 1) (2 ^ j) (realNtt P (2 ^ j) k) rs mask a).getD l [],
      e.1 < P.qs.getD k 1 ∧ e.2 < P.qs.getD k 1 := by
  unfold cnvPrepareRightLaneK
  rw [getD_map_lt _ _ l [] [] (by rw [cnvPrepareLaneK_length]; exact hl)]
  exact prep_of_rep P k j c _ _ (cnvPrepare_rep P k j c rs mask a ha l hl)

/-! ### one output limb -/

/-- **one DFT-domain output limb of `cnv_apply_dft` / `cnv_pairwise_apply_dft`** (generic in the packed left
lanes): it represents the corresponding limb of `Hal.cnvApplyCol` -/
theorem cnvApply_generic (P : PrimeSet) (k j h : Nat) (c : LaneCtx P k j) (hh : 16 ≤ h) (hh2 : h < 32)
    (LA FB : List (List (Nat × Nat))) (A B : Col) (hla : LA.length = A.length) (hlb : FB.length = B.length)
    (hA0 : 0 < A.length) (hB0 : 0 < B.length) (hsz : A.length < 10000)
    (hLA : ∀ l (hl : l < A.length), LRep P k j (LA.getD l []) (limbOr0 (2 ^ j) A l))
    (hFB : ∀ l (hl : l < B.length), PrepRep P k j (FB.getD l []) (limbOr0 (2 ^ j) B l))
    (rs off kk : Nat) (hk : kk < rs) :
    Rep P k j
      (if kk < min rs (A.length + B.length - 1 + 1 - min off (A.length + B.length - 1))
        then bbcSlotsK (P.qs.getD k 1) h (2 ^ j) (cnvRowsPacked LA FB (kk + min off (A.length + B.length - 1)))
        else List.replicate (2 ^ j) 0)
      ((cnvApplyCol (2 ^ j) rs off A B).getD kk (zeroP (2 ^ j))) := by
  unfold cnvApplyCol
  rw [getD_map_lt _ _ kk 0 (zeroP (2 ^ j)) (by simpa using hk)]
  have hr : (List.range rs).getD kk 0 = kk := by simp [List.getD, hk]
  rw [hr]
  set bound := A.length + B.length - 1 with hbound
  set o := min off bound with ho
  -- the specification limb is the kernel-order sum whenever kk + o < |A| + |B|, and zero otherwise
  by_cases hin : kk + o < A.length + B.length
  · -- inside: both sides are the sum over the kernel rows (possibly empty)
    have hcode : kk < min rs (bound + 1 - o) := by omega
    rw [if_pos hcode]
    have hspec : (if kk < min rs bound then cnvCoeff (2 ^ j) A B (kk + o) else zeroP (2 ^ j)) =
        sumPolys (2 ^ j) ((List.range (min (kk + o + 1) B.length - (kk + o - (A.length - 1)))).map (fun i =>
          negMul (limbOr0 (2 ^ j) A (kk + o + 1 - min (kk + o + 1) B.length + i)) (limbOr0 (2 ^ j) B (min (kk + o + 1) B.length - 1 - i)))) := by
      by_cases h2 : kk < min rs bound
      · rw [if_pos h2]; exact cnvCoeff_kernel_order _ A B _ hin hA0
      · rw [if_neg h2]
        have : min (kk + o + 1) B.length - (kk + o - (A.length - 1)) = 0 := by omega
        rw [this]; rfl
    rw [hspec]
    unfold cnvRowsPacked
    rw [hla, hlb]
    set ell := min (kk + o + 1) B.length - (kk + o - (A.length - 1)) with hell
    have hr := rep_slots P k j h c hh hh2
      ((List.range ell).map (fun i => (LA.getD (kk + o + 1 - min (kk + o + 1) B.length + i) [], FB.getD (min (kk + o + 1) B.length - 1 - i) [])))
      ((List.range ell).map (fun i => (limbOr0 (2 ^ j) A (kk + o + 1 - min (kk + o + 1) B.length + i), limbOr0 (2 ^ j) B (min (kk + o + 1) B.length - 1 - i))))
      (by simp; omega) (by simp)
      (by
        intro i hi hi'
        simp only [List.length_map, List.length_range] at hi
        simp only [List.getElem_map, List.getElem_range]
        exact ⟨hLA _ (by omega), hFB _ (by omega)⟩)
    rw [bbcSlotsK_eq]
    simp only [List.map_map] at hr
    exact hr.1
  · -- outside: zero on both sides
    have hcode : ¬ kk < min rs (bound + 1 - o) := by omega
    rw [if_neg hcode]
    have hspec : (if kk < min rs bound then cnvCoeff (2 ^ j) A B (kk + o) else zeroP (2 ^ j)) = zeroP (2 ^ j) := by
      split
      · exact cnv_coeff_past_end' _ A B _ (by omega)
      · rfl
    rw [hspec]
    exact rep_zero P k j c

/-! ### `cnv_apply_dft` -/

theorem getD_map_nil {α β} (L : List (List α)) (f : α → β) (i : Nat) : (L.getD i []).map f = (L.map (fun l => l.map f)).getD i [] := by
  by_cases h : i < L.length
  · rw [getD_map_lt L _ i [] [] h]
  · simp [List.getD, h]

theorem cnvRows_eq_packed (q : Nat) (FA : List (List Nat)) (FB : List (List (Nat × Nat))) (kAbs : Nat) :
    cnvRows q FA FB kAbs = cnvRowsPacked (FA.map (fun l => l.map (packLeftK q))) FB kAbs := by
  unfold cnvRows cnvRowsPacked
  simp only [List.length_map]
  apply List.map_congr_left
  intro i _
  rw [getD_map_nil]

/-- **`cnv_apply_dft`, one prime lane**: every DFT-domain output limb represents the limb of
`Hal.cnvApplyCol` on the prepared columns -/
theorem cnvApplyLane_rep (P : PrimeSet) (k j : Nat) (c : LaneCtx P k j) (rs off la lb : Nat) (mA mB : Int) (a b : Col)
    (ha : ColOK j a) (hb : ColOK j b) (hla : 0 < la) (hlb : 0 < lb) (hsz : la < 10000) (kk : Nat) (hk : kk < rs) :
    Rep P k j
      ((cnvApplyLaneK (P.qs.getD k 1) (bbcH P) (2 ^ j) rs off
        (cnvPrepareLaneK (P.qs.getD k 1) (2 ^ j) (realNtt P (2 ^ j) k) la mA a)
        (cnvPrepareRightLaneK (P.qs.getD k 1) (2 ^ j) (realNtt P (2 ^ j) k) lb mB b)).getD kk [])
      ((cnvApplyCol (2 ^ j) rs off (cnvPrepareCol (2 ^ j) la mA a) (cnvPrepareCol (2 ^ j) lb mB b)).getD kk (zeroP (2 ^ j))) := by
  obtain ⟨hh, hh2⟩ := bbcH_range P
  set q := P.qs.getD k 1 with hq
  set FA := cnvPrepareLaneK q (2 ^ j) (realNtt P (2 ^ j) k) la mA a with hFA
  set FB := cnvPrepareRightLaneK q (2 ^ j) (realNtt P (2 ^ j) k) lb mB b with hFB
  set A := cnvPrepareCol (2 ^ j) la mA a with hA
  set B := cnvPrepareCol (2 ^ j) lb mB b with hB
  have lFA : FA.length = la := cnvPrepareLaneK_length _ _ _ _ _ _
  have lFB : FB.length = lb := by simp [hFB, cnvPrepareRightLaneK, cnvPrepareLaneK_length]
  have lA : A.length = la := cnvPrepareCol_length _ _ _ _
  have lB : B.length = lb := cnvPrepareCol_length _ _ _ _
  have hgen := cnvApply_generic P k j (bbcH P) c hh hh2 (FA.map (fun l => l.map (packLeftK q))) FB A B
    (by simp [lFA, lA]) (by rw [lFB, lB]) (by omega) (by omega) (by omega)
    (by
      intro l hl
      rw [← getD_map_nil]
      have := cnvPrepare_rep P k j c la mA a ha l (by omega)
      rw [show limbOr0 (2 ^ j) A l = A.getD l (zeroP (2 ^ j)) from rfl]
      exact lrep_pack P k j c _ _ this)
    (by
      intro l hl
      rw [show limbOr0 (2 ^ j) B l = B.getD l (zeroP (2 ^ j)) from rfl]
      exact (cnvPrepareRight_rep P k j c lb mB b hb l (by omega)).1)
    rs off kk hk
  have e : (cnvApplyLaneK q (bbcH P) (2 ^ j) rs off FA FB).getD kk [] =
      (if kk < min rs (A.length + B.length - 1 + 1 - min off (A.length + B.length - 1))
        then bbcSlotsK q (bbcH P) (2 ^ j) (cnvRowsPacked (FA.map (fun l => l.map (packLeftK q))) FB (kk + min off (A.length + B.length - 1)))
        else List.replicate (2 ^ j) 0) := by
    unfold cnvApplyLaneK
    rw [if_neg (by omega)]
    rw [getD_map_lt _ _ kk 0 [] (by simpa using hk)]
    have hr : (List.range rs).getD kk 0 = kk := by simp [List.getD, hk]
    rw [hr, lFA, lFB, lA, lB, cnvRows_eq_packed]
  rw [e]
  exact hgen

theorem idftLimb_eq (P : PrimeSet) (g : P.Good) (ng : P.NttGood) (j : Nat) (hj1 : 1 ≤ j) (hj : j ≤ 16)
    (l0 l1 l2 l3 : List Nat) (a : Poly)
    (h0 : Rep P 0 j l0 a) (h1 : Rep P 1 j l1 a) (h2 : Rep P 2 j l2 a) (h3 : Rep P 3 j l3 a)
    (hbound : ∀ i, i < 2 ^ j → -(((bigQ P : Int) - 1) / 2) ≤ a.getD i 0 ∧ a.getD i 0 ≤ ((bigQ P : Int) - 1) / 2) :
    idftLimb P (2 ^ j) l0 l1 l2 l3 = a :=
  idft_of_reps P g ng j hj1 hj l0 l1 l2 l3 a h0 h1 h2 h3 hbound

/-- **`cnv_prepare_left`, `cnv_prepare_right`, `cnv_apply_dft`, `idft` on the NTT120 back end equal the HAL
specification** (exact bivariate negacyclic convolution, truncated at `cnv_offset`, top limbs masked)
whenever every coefficient of the specified result is at most `(Q−1)/2` in absolute value -/
theorem cnvPipeline_exact (P : PrimeSet) (g : P.Good) (ng : P.NttGood) (j : Nat) (hj1 : 1 ≤ j) (hj : j ≤ 16)
    (rs off la lb : Nat) (mA mB : Int) (a b : Col) (ha : ColOK j a) (hb : ColOK j b)
    (hla : 0 < la) (hlb : 0 < lb) (hsz : la < 10000)
    (hbound : ∀ l, l < rs → ∀ i, i < 2 ^ j →
      -(((bigQ P : Int) - 1) / 2) ≤ ((cnvApplyCol (2 ^ j) rs off (cnvPrepareCol (2 ^ j) la mA a) (cnvPrepareCol (2 ^ j) lb mB b)).getD l (zeroP (2 ^ j))).getD i 0 ∧
      ((cnvApplyCol (2 ^ j) rs off (cnvPrepareCol (2 ^ j) la mA a) (cnvPrepareCol (2 ^ j) lb mB b)).getD l (zeroP (2 ^ j))).getD i 0 ≤ ((bigQ P : Int) - 1) / 2) :
    cnvPipeline P (2 ^ j) rs off la lb mA mB a b =
      cnvApplyCol (2 ^ j) rs off (cnvPrepareCol (2 ^ j) la mA a) (cnvPrepareCol (2 ^ j) lb mB b) := by
  unfold cnvPipeline
  simp only []
  apply List.ext_getElem
  · simp [cnvApplyCol]
  · intro l h1 h2
    simp only [List.length_map, List.length_range] at h1
    rw [List.getElem_map, List.getElem_range]
    have e : (cnvApplyCol (2 ^ j) rs off (cnvPrepareCol (2 ^ j) la mA a) (cnvPrepareCol (2 ^ j) lb mB b))[l] =
        (cnvApplyCol (2 ^ j) rs off (cnvPrepareCol (2 ^ j) la mA a) (cnvPrepareCol (2 ^ j) lb mB b)).getD l (zeroP (2 ^ j)) :=
      (getD_eq_getElem' _ l _ h2).symm
    rw [e]
    exact idftLimb_eq P g ng j hj1 hj _ _ _ _ _
      (cnvApplyLane_rep P 0 j (laneCtx_of P ng 0 j (by omega) hj1 hj) rs off la lb mA mB a b ha hb hla hlb hsz l h1)
      (cnvApplyLane_rep P 1 j (laneCtx_of P ng 1 j (by omega) hj1 hj) rs off la lb mA mB a b ha hb hla hlb hsz l h1)
      (cnvApplyLane_rep P 2 j (laneCtx_of P ng 2 j (by omega) hj1 hj) rs off la lb mA mB a b ha hb hla hlb hsz l h1)
      (cnvApplyLane_rep P 3 j (laneCtx_of P ng 3 j (by omega) hj1 hj) rs off la lb mA mB a b ha hb hla hlb hsz l h1)
      (hbound l h1)

/-! ### `cnv_pairwise_apply_dft` (`i ≠ j`) -/

theorem pairwisePackLeftK_spec (q a b : Nat) (hq0 : 0 < q) (hq : q < 2 ^ 31) :
    (pairwisePackLeftK q a b).1 < q ∧ (pairwisePackLeftK q a b).2 = 0 ∧ cz q (pairwisePackLeftK q a b).1 = cz q a + cz q b := by
  unfold pairwisePackLeftK
  have ha : a % q < q := Nat.mod_lt _ hq0
  have hb : b % q < q := Nat.mod_lt _ hq0
  simp only []
  rw [wu64_of_lt _ (by omega : a % q + b % q < 2 ^ 64)]
  have ea : cz q (a % q) = cz q a := cz_eq_of_modEq (Nat.mod_modEq _ _)
  have eb : cz q (b % q) = cz q b := cz_eq_of_modEq (Nat.mod_modEq _ _)
  by_cases h : a % q + b % q ≥ q
  · rw [if_pos h]
    have hs : subU64 (a % q + b % q) q = a % q + b % q - q := by unfold subU64; omega
    rw [hs, wu32_of_lt _ (by omega)]
    refine ⟨by omega, trivial, ?_⟩
    unfold cz at *
    rw [Nat.cast_sub h]; push_cast
    rw [ea, eb, ZMod.natCast_self]; ring
  · rw [if_neg h, wu32_of_lt _ (by omega)]
    refine ⟨by omega, trivial, ?_⟩
    unfold cz at *; push_cast; rw [ea, eb]

/-- the pairwise left pack of two lanes represents the sum of the two limbs -/
theorem lrep_pairpack (P : PrimeSet) (k j : Nat) (c : LaneCtx P k j) (u v : List Nat) (x y : Poly)
    (hu : Rep P k j u x) (hv : Rep P k j v y) :
    LRep P k j (List.zipWith (pairwisePackLeftK (P.qs.getD k 1)) u v) (polyAdd x y) := by
  have hqg := c.fwd.q_gt
  have hql := c.fwd.q_lt
  set q := P.qs.getD k 1 with hq
  have hω := omegaZ_pow P k j c.fwd c.hj
  refine ⟨by simp [hu.1, hv.1], by simp [polyAdd, hu.2.1, hv.2.1], ?_, ?_⟩
  · intro l hl
    rw [List.mem_iff_getElem] at hl
    obtain ⟨i, hi, rfl⟩ := hl
    rw [List.getElem_zipWith]
    simp only [List.length_zipWith] at hi
    obtain ⟨h1, h2, _⟩ := pairwisePackLeftK_spec q (u[i]'(by omega)) (v[i]'(by omega)) (by omega) hql
    exact ⟨by omega, by rw [h2]; norm_num⟩
  · rw [map_polyAdd, nttM_add _ j _ _ (by simpa using hu.2.1) (by simpa using hv.2.1) hω, ← hu.2.2.2, ← hv.2.2.2]
    unfold addL
    apply List.ext_getElem
    · simp
    · intro i h1 h2
      simp only [List.length_map, List.length_zipWith] at h1
      simp only [List.getElem_map, List.getElem_zipWith]
      obtain ⟨_, e2, e3⟩ := pairwisePackLeftK_spec q (u[i]'(by omega)) (v[i]'(by omega)) (by omega) hql
      rw [e2, e3]; simp [cz]

/-- the entry-wise `u32` sum of two q120c lanes is a prepared representation of the sum of the limbs -/
theorem prep_add (P : PrimeSet) (k j : Nat) (c : LaneCtx P k j) (C D : List (Nat × Nat)) (p p' : Poly)
    (hC : PrepRep P k j C p) (hD : PrepRep P k j D p')
    (bC : ∀ e ∈ C, e.1 < P.qs.getD k 1 ∧ e.2 < P.qs.getD k 1) (bD : ∀ e ∈ D, e.1 < P.qs.getD k 1 ∧ e.2 < P.qs.getD k 1) :
    PrepRep P k j (List.zipWith (fun c d => (pairwisePackRightK c.1 d.1, pairwisePackRightK c.2 d.2)) C D) (polyAdd p p') := by
  have hqg := c.fwd.q_gt
  have hql := c.fwd.q_lt
  set q := P.qs.getD k 1 with hq
  have hω := omegaZ_pow P k j c.fwd c.hj
  have hsum : ∀ x y, x < q → y < q → pairwisePackRightK x y = x + y := by
    intro x y hx hy; unfold pairwisePackRightK; exact wu32_of_lt _ (by omega)
  refine ⟨by simp [hC.1, hD.1], by simp [polyAdd, hC.2.1, hD.2.1], ?_, ?_⟩
  · intro e he
    rw [List.mem_iff_getElem] at he
    obtain ⟨i, hi, rfl⟩ := he
    rw [List.getElem_zipWith]
    simp only [List.length_zipWith] at hi
    obtain ⟨c1, c2⟩ := bC C[i] (List.getElem_mem (by omega))
    obtain ⟨d1, d2⟩ := bD D[i] (List.getElem_mem (by omega))
    obtain ⟨_, _, c3⟩ := hC.2.2.1 C[i] (List.getElem_mem (by omega))
    obtain ⟨_, _, d3⟩ := hD.2.2.1 D[i] (List.getElem_mem (by omega))
    rw [hsum _ _ c1 d1, hsum _ _ c2 d2]
    refine ⟨by omega, by omega, ?_⟩
    unfold cz at *; push_cast; rw [c3, d3]; ring
  · rw [map_polyAdd, nttM_add _ j _ _ (by simpa using hC.2.1) (by simpa using hD.2.1) hω, ← hC.2.2.2, ← hD.2.2.2]
    unfold addL
    apply List.ext_getElem
    · simp
    · intro i h1 h2
      simp only [List.length_map, List.length_zipWith] at h1
      simp only [List.getElem_map, List.getElem_zipWith]
      obtain ⟨c1, _⟩ := bC C[i] (List.getElem_mem (by omega))
      obtain ⟨d1, _⟩ := bD D[i] (List.getElem_mem (by omega))
      rw [hsum _ _ c1 d1]; unfold cz; push_cast; rfl

theorem getD_zipWith_nil {α β γ} (f : List α → List β → List γ) (hf : f [] [] = []) (L : List (List α)) (M : List (List β)) (i : Nat)
    (h : L.length = M.length) : (List.zipWith f L M).getD i [] = f (L.getD i []) (M.getD i []) := by
  by_cases hi : i < L.length
  · rw [getD_zipWith_lt _ _ _ i [] [] [] hi (by omega)]
  · have hm : ¬ i < M.length := by omega
    have e1 : L.getD i [] = [] := by simp [List.getD, hi]
    have e2 : M.getD i [] = [] := by simp [List.getD, hm]
    have e3 : (List.zipWith f L M).getD i [] = [] := by simp [List.getD, hi]
    rw [e1, e2, e3, hf]

theorem colAdd_getD (n : Nat) (A B : Col) (h : A.length = B.length) (l : Nat) (hl : l < A.length) :
    limbOr0 n (colAdd n A B) l = polyAdd (limbOr0 n A l) (limbOr0 n B l) := by
  unfold colAdd limbOr0
  rw [getD_map_lt _ _ l 0 (zeroP n) (by simp; omega)]
  simp [List.getD, (by omega : l < max A.length B.length)]

/-- **`cnv_pairwise_apply_dft` (`i ≠ j`), one prime lane**: represents `Hal.cnvApplyCol` of the summed columns -/
theorem cnvPairwiseLane_rep (P : PrimeSet) (k j : Nat) (c : LaneCtx P k j) (rs off la lb : Nat) (mA mB : Int) (ai aj bi bj : Col)
    (hai : ColOK j ai) (haj : ColOK j aj) (hbi : ColOK j bi) (hbj : ColOK j bj)
    (hla : 0 < la) (hlb : 0 < lb) (hsz : la < 10000) (kk : Nat) (hk : kk < rs) :
    Rep P k j
      ((cnvPairwiseLaneK (P.qs.getD k 1) (bbcH P) (2 ^ j) rs off
        (cnvPrepareLaneK (P.qs.getD k 1) (2 ^ j) (realNtt P (2 ^ j) k) la mA ai)
        (cnvPrepareLaneK (P.qs.getD k 1) (2 ^ j) (realNtt P (2 ^ j) k) la mA aj)
        (cnvPrepareRightLaneK (P.qs.getD k 1) (2 ^ j) (realNtt P (2 ^ j) k) lb mB bi)
        (cnvPrepareRightLaneK (P.qs.getD k 1) (2 ^ j) (realNtt P (2 ^ j) k) lb mB bj)).getD kk [])
      ((cnvApplyCol (2 ^ j) rs off
        (colAdd (2 ^ j) (cnvPrepareCol (2 ^ j) la mA ai) (cnvPrepareCol (2 ^ j) la mA aj))
        (colAdd (2 ^ j) (cnvPrepareCol (2 ^ j) lb mB bi) (cnvPrepareCol (2 ^ j) lb mB bj))).getD kk (zeroP (2 ^ j))) := by
  obtain ⟨hh, hh2⟩ := bbcH_range P
  set q := P.qs.getD k 1 with hq
  set FAi := cnvPrepareLaneK q (2 ^ j) (realNtt P (2 ^ j) k) la mA ai with hFAi
  set FAj := cnvPrepareLaneK q (2 ^ j) (realNtt P (2 ^ j) k) la mA aj with hFAj
  set FBi := cnvPrepareRightLaneK q (2 ^ j) (realNtt P (2 ^ j) k) lb mB bi with hFBi
  set FBj := cnvPrepareRightLaneK q (2 ^ j) (realNtt P (2 ^ j) k) lb mB bj with hFBj
  set Ai := cnvPrepareCol (2 ^ j) la mA ai with hAi
  set Aj := cnvPrepareCol (2 ^ j) la mA aj with hAj
  set Bi := cnvPrepareCol (2 ^ j) lb mB bi with hBi
  set Bj := cnvPrepareCol (2 ^ j) lb mB bj with hBj
  have l1 : FAi.length = la := cnvPrepareLaneK_length _ _ _ _ _ _
  have l2 : FAj.length = la := cnvPrepareLaneK_length _ _ _ _ _ _
  have l3 : FBi.length = lb := by simp [hFBi, cnvPrepareRightLaneK, cnvPrepareLaneK_length]
  have l4 : FBj.length = lb := by simp [hFBj, cnvPrepareRightLaneK, cnvPrepareLaneK_length]
  have m1 : Ai.length = la := cnvPrepareCol_length _ _ _ _
  have m2 : Aj.length = la := cnvPrepareCol_length _ _ _ _
  have m3 : Bi.length = lb := cnvPrepareCol_length _ _ _ _
  have m4 : Bj.length = lb := cnvPrepareCol_length _ _ _ _
  have cA : (colAdd (2 ^ j) Ai Aj).length = la := by simp [colAdd, m1, m2]
  have cB : (colAdd (2 ^ j) Bi Bj).length = lb := by simp [colAdd, m3, m4]
  have pL : (pairLeftLanes q FAi FAj).length = la := by simp [pairLeftLanes, l1, l2]
  have pR : (pairRightLanes FBi FBj).length = lb := by simp [pairRightLanes, l3, l4]
  have hgen := cnvApply_generic P k j (bbcH P) c hh hh2 (pairLeftLanes q FAi FAj) (pairRightLanes FBi FBj)
    (colAdd (2 ^ j) Ai Aj) (colAdd (2 ^ j) Bi Bj) (by rw [pL, cA]) (by rw [pR, cB]) (by omega) (by omega) (by omega)
    (by
      intro l hl
      rw [cA] at hl
      unfold pairLeftLanes
      rw [getD_zipWith_nil _ (by rfl) FAi FAj l (by rw [l1, l2]), colAdd_getD _ Ai Aj (by rw [m1, m2]) l (by omega)]
      exact lrep_pairpack P k j c _ _ _ _ (cnvPrepare_rep P k j c la mA ai hai l hl) (cnvPrepare_rep P k j c la mA aj haj l hl))
    (by
      intro l hl
      rw [cB] at hl
      unfold pairRightLanes
      rw [getD_zipWith_nil _ (by rfl) FBi FBj l (by rw [l3, l4]), colAdd_getD _ Bi Bj (by rw [m3, m4]) l (by omega)]
      obtain ⟨r1, b1⟩ := cnvPrepareRight_rep P k j c lb mB bi hbi l hl
      obtain ⟨r2, b2⟩ := cnvPrepareRight_rep P k j c lb mB bj hbj l hl
      exact prep_add P k j c _ _ _ _ r1 r2 b1 b2)
    rs off kk hk
  have e : (cnvPairwiseLaneK q (bbcH P) (2 ^ j) rs off FAi FAj FBi FBj).getD kk [] =
      (if kk < min rs ((colAdd (2 ^ j) Ai Aj).length + (colAdd (2 ^ j) Bi Bj).length - 1 + 1 - min off ((colAdd (2 ^ j) Ai Aj).length + (colAdd (2 ^ j) Bi Bj).length - 1))
        then bbcSlotsK q (bbcH P) (2 ^ j) (cnvRowsPacked (pairLeftLanes q FAi FAj) (pairRightLanes FBi FBj)
          (kk + min off ((colAdd (2 ^ j) Ai Aj).length + (colAdd (2 ^ j) Bi Bj).length - 1)))
        else List.replicate (2 ^ j) 0) := by
    unfold cnvPairwiseLaneK
    rw [if_neg (by omega)]
    rw [getD_map_lt _ _ kk 0 [] (by simpa using hk)]
    have hr : (List.range rs).getD kk 0 = kk := by simp [List.getD, hk]
    rw [hr, l1, l3, cA, cB]
  rw [e]
  exact hgen

/-- **`cnv_pairwise_apply_dft(i ≠ j)` + `idft` = HAL specification** on the summed columns, whenever the result fits `(Q−1)/2` -/
theorem cnvPairwisePipeline_exact (P : PrimeSet) (g : P.Good) (ng : P.NttGood) (j : Nat) (hj1 : 1 ≤ j) (hj : j ≤ 16)
    (rs off la lb : Nat) (mA mB : Int) (ai aj bi bj : Col)
    (hai : ColOK j ai) (haj : ColOK j aj) (hbi : ColOK j bi) (hbj : ColOK j bj)
    (hla : 0 < la) (hlb : 0 < lb) (hsz : la < 10000)
    (hbound : ∀ l, l < rs → ∀ i, i < 2 ^ j →
      -(((bigQ P : Int) - 1) / 2) ≤ ((cnvApplyCol (2 ^ j) rs off
        (colAdd (2 ^ j) (cnvPrepareCol (2 ^ j) la mA ai) (cnvPrepareCol (2 ^ j) la mA aj))
        (colAdd (2 ^ j) (cnvPrepareCol (2 ^ j) lb mB bi) (cnvPrepareCol (2 ^ j) lb mB bj))).getD l (zeroP (2 ^ j))).getD i 0 ∧
      ((cnvApplyCol (2 ^ j) rs off
        (colAdd (2 ^ j) (cnvPrepareCol (2 ^ j) la mA ai) (cnvPrepareCol (2 ^ j) la mA aj))
        (colAdd (2 ^ j) (cnvPrepareCol (2 ^ j) lb mB bi) (cnvPrepareCol (2 ^ j) lb mB bj))).getD l (zeroP (2 ^ j))).getD i 0 ≤ ((bigQ P : Int) - 1) / 2) :
    cnvPairwisePipeline P (2 ^ j) rs off la lb mA mB ai aj bi bj =
      cnvApplyCol (2 ^ j) rs off
        (colAdd (2 ^ j) (cnvPrepareCol (2 ^ j) la mA ai) (cnvPrepareCol (2 ^ j) la mA aj))
        (colAdd (2 ^ j) (cnvPrepareCol (2 ^ j) lb mB bi) (cnvPrepareCol (2 ^ j) lb mB bj)) := by
  unfold cnvPairwisePipeline
  simp only []
  apply List.ext_getElem
  · simp [cnvApplyCol]
  · intro l h1 h2
    simp only [List.length_map, List.length_range] at h1
    rw [List.getElem_map, List.getElem_range, ← getD_eq_getElem' _ l (zeroP (2 ^ j)) h2]
    exact idftLimb_eq P g ng j hj1 hj _ _ _ _ _
      (cnvPairwiseLane_rep P 0 j (laneCtx_of P ng 0 j (by omega) hj1 hj) rs off la lb mA mB ai aj bi bj hai haj hbi hbj hla hlb hsz l h1)
      (cnvPairwiseLane_rep P 1 j (laneCtx_of P ng 1 j (by omega) hj1 hj) rs off la lb mA mB ai aj bi bj hai haj hbi hbj hla hlb hsz l h1)
      (cnvPairwiseLane_rep P 2 j (laneCtx_of P ng 2 j (by omega) hj1 hj) rs off la lb mA mB ai aj bi bj hai haj hbi hbj hla hlb hsz l h1)
      (cnvPairwiseLane_rep P 3 j (laneCtx_of P ng 3 j (by omega) hj1 hj) rs off la lb mA mB ai aj bi bj hai haj hbi hbj hla hlb hsz l h1)
      (hbound l h1)

/-! ### why the pairwise left pack must be canonical: the lazy 64-bit sum wraps where the transform fills 64 bits -/

/-- a transform output at `n = 64` (`log2 n ≡ 1 mod 5`): the constant limb `i64::MAX`, prime 0, slot 39 -/
def lazyWitness : Nat :=
  match nttTableK primes30 0 64 with
  | .ok t => (nttK t ((List.replicate 64 (2 ^ 63 - 1 : Int)).map (fun x => bFromU64K primes30.q0 (asU64 x)))).getD 39 0
  | _ => 0

theorem lazyWitness_value : lazyWitness = 14134845492789138207 ∧ 2 ^ 63 ≤ lazyWitness := by decide +kernel

/-- the seeded variant `sum = a + b` (64-bit) of the pairwise left pack is **not** congruent to `a + b` on two
genuine transform outputs at `n = 64`; the code's canonical pack `(a % q + b % q) mod q` is (`pairwisePackLeftK_spec`) -/
theorem lazy_pairwise_pack_wraps :
    ¬ ((pairwisePackLeftLazyK lazyWitness lazyWitness).1 + 2 ^ 32 * (pairwisePackLeftLazyK lazyWitness lazyWitness).2
        ≡ lazyWitness + lazyWitness [MOD primes30.q0]) ∧
    (pairwisePackLeftK primes30.q0 lazyWitness lazyWitness).1 ≡ lazyWitness + lazyWitness [MOD primes30.q0] := by
  decide +kernel

/-! ### `cnv_by_const_apply` (coefficient domain, `i128` accumulators) -/

theorem map_w128_of_range (l : Poly) (h : ∀ x ∈ l, -(2 ^ 127) ≤ x ∧ x < 2 ^ 127) : l.map w128 = l.map id := by
  apply List.map_congr_left
  intro x hx
  obtain ⟨h1, h2⟩ := h x hx
  simp only [id]
  exact w128_of_range x h1 h2

/-- **`cnv_by_const_apply` on NTT120 is exact while the `i128` accumulators do not overflow**: if every
coefficient of the exact result lies in the `i128` range, the wrapping model equals the exact one -/
theorem cnvByConst_exact (n rs off : Nat) (a : Col) (b : List Int)
    (h : ∀ l ∈ cnvByConstCol id n rs off a b, ∀ x ∈ l, -(2 ^ 127) ≤ x ∧ x < 2 ^ 127) :
    cnvByConstCol w128 n rs off a b = cnvByConstCol id n rs off a b := by
  unfold cnvByConstCol at h ⊢
  by_cases h0 : a.length = 0 ∨ b.length = 0
  · rw [if_pos h0, if_pos h0]
  · rw [if_neg h0] at h ⊢
    rw [if_neg h0]
    apply List.map_congr_left
    intro k hk
    have hmem := h _ (List.mem_map_of_mem (f := fun k => _) hk)
    simp only [] at hmem ⊢
    split
    · split
      · rfl
      · rename_i h1 h2
        rw [if_pos h1, if_neg h2] at hmem
        rw [map_w128_of_range _ (by
          intro x hx
          exact hmem x (by rw [List.map_id]; exact hx))]
    · rfl

end Ntt120
