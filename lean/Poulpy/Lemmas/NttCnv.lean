import Poulpy.Lemmas.NttHal
import Poulpy.Lemmas.CnvSum
import Mathlib.Data.List.Fold

/-!
The bivariate convolution on the NTT120 back end equals the HAL specification
(`Hal.cnvApplyCol ∘ Hal.cnvPrepareCol`, i.e. the exact negacyclic convolution truncated at
`cnv_offset`) whenever every coefficient of the result fits `(Q−1)/2`.
-/

namespace Ntt120
open NttMath Hal

/-! ### order of summation -/

instance : Std.Commutative Hal.polyAdd := ⟨Hal.polyAdd_comm⟩
instance : Std.Associative Hal.polyAdd := ⟨Hal.polyAdd_assoc⟩

theorem sumPolys_reverse (n : Nat) (l : List Poly) : sumPolys n l.reverse = sumPolys n l := by
  unfold sumPolys
  rw [List.foldl_reverse]
  have : (fun (x y : Poly) => polyAdd y x) = polyAdd := by funext x y; exact polyAdd_comm y x
  rw [this]
  exact (List.foldl_eq_foldr (f := polyAdd)).symm

theorem range_map_reverse {α} (m : Nat) (f : Nat → α) : ((List.range m).map f).reverse = (List.range m).map (fun i => f (m - 1 - i)) := by
  apply List.ext_getElem
  · simp
  · intro i h1 h2
    simp only [List.length_reverse, List.length_map, List.length_range] at h1
    simp [List.getElem_reverse]

/-- the convolution coefficient with the rows in the kernel's (descending `j`) order -/
theorem cnvCoeff_kernel_order (n : Nat) (a b : Col) (k : Nat) (hk : k < a.length + b.length) (ha : 0 < a.length) :
    cnvCoeff n a b k =
      sumPolys n ((List.range (min (k + 1) b.length - (k - (a.length - 1)))).map (fun i =>
        negMul (limbOr0 n a (k + 1 - min (k + 1) b.length + i)) (limbOr0 n b (min (k + 1) b.length - 1 - i)))) := by
  unfold cnvCoeff
  rw [if_neg (by omega)]
  simp only []
  rw [← sumPolys_reverse, range_map_reverse]
  congr 1
  apply List.map_congr_left
  intro i hi
  have hi' := List.mem_range.mp hi
  have e1 : k - (k - (a.length - 1) + (min (k + 1) b.length - (k - (a.length - 1)) - 1 - i)) = k + 1 - min (k + 1) b.length + i := by omega
  have e2 : k - (a.length - 1) + (min (k + 1) b.length - (k - (a.length - 1)) - 1 - i) = min (k + 1) b.length - 1 - i := by omega
  rw [e1, e2]

theorem cnv_coeff_past_end' (n : Nat) (a b : Col) (k : Nat) (hk : a.length + b.length ≤ k) : cnvCoeff n a b k = zeroP n := by
  unfold cnvCoeff; simp [hk]

/-! ### the prepared operands represent the prepared columns -/

theorem realNtt_len1 (P : PrimeSet) (k j : Nat) (c : LaneCtx P k j) : ∃ t, nttTableK P k (2 ^ j) = .ok t ∧ realNtt P (2 ^ j) k = nttK t := by
  obtain ⟨t, ht⟩ := nttTableK_ok P k j c.fwd c.hj1 c.hj
  exact ⟨t, ht, realNtt_eq P _ k t ht⟩

/-- a column of `i64` limbs of ring degree `2^j` -/
def ColOK (j : Nat) (a : Col) : Prop := ∀ p ∈ a, p.length = 2 ^ j ∧ ∀ x ∈ p, -(2 ^ 63) ≤ x ∧ x < 2 ^ 63

theorem limbOr0_of_lt (n : Nat) (a : Col) (l : Nat) (h : l < a.length) : limbOr0 n a l = a[l] := by
  unfold limbOr0; exact getD_eq_getElem' a l _ h

/-- **`cnv_prepare_left`**: limb `l` of the stored lanes represents limb `l` of `Hal.cnvPrepareCol` -/
theorem cnvPrepare_rep (P : PrimeSet) (k j : Nat) (c : LaneCtx P k j) (rs : Nat) (mask : Int) (a : Col) (ha : ColOK j a)
    (l : Nat) (hl : l < rs) :
    Rep P k j ((cnvPrepareLaneK (P.qs.getD k 1) (2 ^ j) (realNtt P (2 ^ j) k) rs mask a).getD l [])
      ((cnvPrepareCol (2 ^ j) rs mask a).getD l (zeroP (2 ^ j))) := by
  obtain ⟨t, ht, ert⟩ := realNtt_len1 P k j c
  unfold cnvPrepareLaneK cnvPrepareCol
  rw [getD_map_lt _ _ l 0 [] (by simpa using hl), getD_map_lt _ _ l 0 (zeroP (2 ^ j)) (by simpa using hl)]
  have hr : (List.range rs).getD l 0 = l := by simp [List.getD, hl]
  rw [hr, ert]
  by_cases h1 : l + 1 = min rs a.length
  · rw [if_pos h1, if_pos h1]
    have hla : l < a.length := by omega
    rw [limbOr0_of_lt _ a l hla]
    exact rep_dft_masked P k j c t ht _ mask (ha _ (List.getElem_mem hla)).1
  · rw [if_neg h1, if_neg h1]
    by_cases h2 : l < min rs a.length
    · rw [if_pos h2, if_pos h2]
      have hla : l < a.length := by omega
      rw [limbOr0_of_lt _ a l hla]
      exact rep_dft P k j c t ht _ (ha _ (List.getElem_mem hla)).1 (ha _ (List.getElem_mem hla)).2
    · rw [if_neg h2, if_neg h2]
      exact rep_zero P k j c

theorem cnvPrepareCol_length (n rs : Nat) (mask : Int) (a : Col) : (cnvPrepareCol n rs mask a).length = rs := by
  simp [cnvPrepareCol]
theorem cnvPrepareLaneK_length (q n rs : Nat) (ntt : List Nat → List Nat) (mask : Int) (a : Col) :
    (cnvPrepareLaneK q n ntt rs mask a).length = rs := by simp [cnvPrepareLaneK]

/-- **`cnv_prepare_right`**: the stored q120c lanes are prepared representations of the same limbs -/
theorem cnvPrepareRight_rep (P : PrimeSet) (k j : Nat) (c : LaneCtx P k j) (rs : Nat) (mask : Int) (a : Col) (ha : ColOK j a)
    (l : Nat) (hl : l < rs) :
    PrepRep P k j ((cnvPrepareRightLaneK (P.qs.getD k 1) (2 ^ j) (realNtt P (2 ^ j) k) rs mask a).getD l [])
      ((cnvPrepareCol (2 ^ j) rs mask a).getD l (zeroP (2 ^ j))) ∧
    ∀ e ∈ (cnvPrepareRightLaneK (P.qs.getD k 1) (2 ^ j) (realNtt P (2 ^ j) k) rs mask a).getD l [],
      e.1 < P.qs.getD k 1 ∧ e.2 < P.qs.getD k 1 := by
  unfold cnvPrepareRightLaneK
  rw [getD_map_lt _ _ l [] [] (by rw [cnvPrepareLaneK_length]; exact hl)]
  exact prep_of_rep P k j c _ _ (cnvPrepare_rep P k j c rs mask a ha l hl)

/-! ### one output limb -/

/-- **one DFT-domain output limb of `cnv_apply_dft` / `cnv_pairwise_apply_dft`** (generic in the packed left
lanes): it represents the corresponding limb of `Hal.cnvApplyCol` -/
theorem cnvApply_generic (P : PrimeSet) (k j h : Nat) (c : LaneCtx P k j) (hh : 16 ≤ h) (hh2 : h < 32)
    (LA FB : List (List (Nat × Nat))) (A B : Col) (hla : LA.length = A.length) (hlb : FB.length = B.length)
    (hA0 : 0 < A.length) (hB0 : 0 < B.length) (hsz : A.length < 10000)
    (hLA : ∀ l (hl : l < A.length), LRep P k j (LA.getD l []) (limbOr0 (2 ^ j) A l))
    (hFB : ∀ l (hl : l < B.length), PrepRep P k j (FB.getD l []) (limbOr0 (2 ^ j) B l))
    (rs off kk : Nat) (hk : kk < rs) :
    Rep P k j
      (if kk < min rs (A.length + B.length - 1 + 1 - min off (A.length + B.length - 1))
        then bbcSlotsK (P.qs.getD k 1) h (2 ^ j) (cnvRowsPacked LA FB (kk + min off (A.length + B.length - 1)))
        else List.replicate (2 ^ j) 0)
      ((cnvApplyCol (2 ^ j) rs off A B).getD kk (zeroP (2 ^ j))) := by
  unfold cnvApplyCol
  rw [getD_map_lt _ _ kk 0 (zeroP (2 ^ j)) (by simpa using hk)]
  have hr : (List.range rs).getD kk 0 = kk := by simp [List.getD, hk]
  rw [hr]
  set bound := A.length + B.length - 1 with hbound
  set o := min off bound with ho
  -- the specification limb is the kernel-order sum whenever kk + o < |A| + |B|, and zero otherwise
  by_cases hin : kk + o < A.length + B.length
  · -- inside: both sides are the sum over the kernel rows (possibly empty)
    have hcode : kk < min rs (bound + 1 - o) := by omega
    rw [if_pos hcode]
    have hspec : (if kk < min rs bound then cnvCoeff (2 ^ j) A B (kk + o) else zeroP (2 ^ j)) =
        sumPolys (2 ^ j) ((List.range (min (kk + o + 1) B.length - (kk + o - (A.length - 1)))).map (fun i =>
          negMul (limbOr0 (2 ^ j) A (kk + o + 1 - min (kk + o + 1) B.length + i)) (limbOr0 (2 ^ j) B (min (kk + o + 1) B.length - 1 - i)))) := by
      by_cases h2 : kk < min rs bound
      · rw [if_pos h2]; exact cnvCoeff_kernel_order _ A B _ hin hA0
      · rw [if_neg h2]
        have : min (kk + o + 1) B.length - (kk + o - (A.length - 1)) = 0 := by omega
        rw [this]; rfl
    rw [hspec]
    unfold cnvRowsPacked
    rw [hla, hlb]
    set ell := min (kk + o + 1) B.length - (kk + o - (A.length - 1)) with hell
    have hr := rep_slots P k j h c hh hh2
      ((List.range ell).map (fun i => (LA.getD (kk + o + 1 - min (kk + o + 1) B.length + i) [], FB.getD (min (kk + o + 1) B.length - 1 - i) [])))
      ((List.range ell).map (fun i => (limbOr0 (2 ^ j) A (kk + o + 1 - min (kk + o + 1) B.length + i), limbOr0 (2 ^ j) B (min (kk + o + 1) B.length - 1 - i))))
      (by simp; omega) (by simp)
      (by
        intro i hi hi'
        simp only [List.length_map, List.length_range] at hi
        simp only [List.getElem_map, List.getElem_range]
        exact ⟨hLA _ (by omega), hFB _ (by omega)⟩)
    rw [bbcSlotsK_eq]
    simp only [List.map_map] at hr
    exact hr.1
  · -- outside: zero on both sides
    have hcode : ¬ kk < min rs (bound + 1 - o) := by omega
    rw [if_neg hcode]
    have hspec : (if kk < min rs bound then cnvCoeff (2 ^ j) A B (kk + o) else zeroP (2 ^ j)) = zeroP (2 ^ j) := by
      split
      · exact cnv_coeff_past_end' _ A B _ (by omega)
      · rfl
    rw [hspec]
    exact rep_zero P k j c

/-! ### `cnv_apply_dft` -/

theorem getD_map_nil {α β} (L : List (List α)) (f : α → β) (i : Nat) : (L.getD i []).map f = (L.map (fun l => l.map f)).getD i [] := by
  by_cases h : i < L.length
  · rw [getD_map_lt L _ i [] [] h]
  · simp [List.getD, h]

theorem cnvRows_eq_packed (q : Nat) (FA : List (List Nat)) (FB : List (List (Nat × Nat))) (kAbs : Nat) :
    cnvRows q FA FB kAbs = cnvRowsPacked (FA.map (fun l => l.map (packLeftK q))) FB kAbs := by
  unfold cnvRows cnvRowsPacked
  simp only [List.length_map]
  apply List.map_congr_left
  intro i _
  rw [getD_map_nil]

/-- **`cnv_apply_dft`, one prime lane**: every DFT-domain output limb represents the limb of
`Hal.cnvApplyCol` on the prepared columns -/
theorem cnvApplyLane_rep (P : PrimeSet) (k j : Nat) (c : LaneCtx P k j) (rs off la lb : Nat) (mA mB : Int) (a b : Col)
    (ha : ColOK j a) (hb : ColOK j b) (hla : 0 < la) (hlb : 0 < lb) (hsz : la < 10000) (kk : Nat) (hk : kk < rs) :
    Rep P k j
      ((cnvApplyLaneK (P.qs.getD k 1) (bbcH P) (2 ^ j) rs off
        (cnvPrepareLaneK (P.qs.getD k 1) (2 ^ j) (realNtt P (2 ^ j) k) la mA a)
        (cnvPrepareRightLaneK (P.qs.getD k 1) (2 ^ j) (realNtt P (2 ^ j) k) lb mB b)).getD kk [])
      ((cnvApplyCol (2 ^ j) rs off (cnvPrepareCol (2 ^ j) la mA a) (cnvPrepareCol (2 ^ j) lb mB b)).getD kk (zeroP (2 ^ j))) := by
  obtain ⟨hh, hh2⟩ := bbcH_range P
  set q := P.qs.getD k 1 with hq
  set FA := cnvPrepareLaneK q (2 ^ j) (realNtt P (2 ^ j) k) la mA a with hFA
  set FB := cnvPrepareRightLaneK q (2 ^ j) (realNtt P (2 ^ j) k) lb mB b with hFB
  set A := cnvPrepareCol (2 ^ j) la mA a with hA
  set B := cnvPrepareCol (2 ^ j) lb mB b with hB
  have lFA : FA.length = la := cnvPrepareLaneK_length _ _ _ _ _ _
  have lFB : FB.length = lb := by simp [hFB, cnvPrepareRightLaneK, cnvPrepareLaneK_length]
  have lA : A.length = la := cnvPrepareCol_length _ _ _ _
  have lB : B.length = lb := cnvPrepareCol_length _ _ _ _
  have hgen := cnvApply_generic P k j (bbcH P) c hh hh2 (FA.map (fun l => l.map (packLeftK q))) FB A B
    (by simp [lFA, lA]) (by rw [lFB, lB]) (by omega) (by omega) (by omega)
    (by
      intro l hl
      rw [← getD_map_nil]
      have := cnvPrepare_rep P k j c la mA a ha l (by omega)
      rw [show limbOr0 (2 ^ j) A l = A.getD l (zeroP (2 ^ j)) from rfl]
      exact lrep_pack P k j c _ _ this)
    (by
      intro l hl
      rw [show limbOr0 (2 ^ j) B l = B.getD l (zeroP (2 ^ j)) from rfl]
      exact (cnvPrepareRight_rep P k j c lb mB b hb l (by omega)).1)
    rs off kk hk
  have e : (cnvApplyLaneK q (bbcH P) (2 ^ j) rs off FA FB).getD kk [] =
      (if kk < min rs (A.length + B.length - 1 + 1 - min off (A.length + B.length - 1))
        then bbcSlotsK q (bbcH P) (2 ^ j) (cnvRowsPacked (FA.map (fun l => l.map (packLeftK q))) FB (kk + min off (A.length + B.length - 1)))
        else List.replicate (2 ^ j) 0) := by
    unfold cnvApplyLaneK
    rw [if_neg (by omega)]
    rw [getD_map_lt _ _ kk 0 [] (by simpa using hk)]
    have hr : (List.range rs).getD kk 0 = kk := by simp [List.getD, hk]
    rw [hr, lFA, lFB, lA, lB, cnvRows_eq_packed]
  rw [e]
  exact hgen

theorem idftLimb_eq (P : PrimeSet) (g : P.Good) (ng : P.NttGood) (j : Nat) (hj1 : 1 ≤ j) (hj : j ≤ 16)
    (l0 l1 l2 l3 : List Nat) (a : Poly)
    (h0 : Rep P 0 j l0 a) (h1 : Rep P 1 j l1 a) (h2 : Rep P 2 j l2 a) (h3 : Rep P 3 j l3 a)
    (hbound : ∀ i, i < 2 ^ j → -(((bigQ P : Int) - 1) / 2) ≤ a.getD i 0 ∧ a.getD i 0 ≤ ((bigQ P : Int) - 1) / 2) :
    idftLimb P (2 ^ j) l0 l1 l2 l3 = a :=
  idft_of_reps P g ng j hj1 hj l0 l1 l2 l3 a h0 h1 h2 h3 hbound

/-- **`cnv_prepare_left`, `cnv_prepare_right`, `cnv_apply_dft`, `idft` on the NTT120 back end equal the HAL
specification** (exact bivariate negacyclic convolution, truncated at `cnv_offset`, top limbs masked)
whenever every coefficient of the specified result is at most `(Q−1)/2` in absolute value -/
theorem cnvPipeline_exact (P : PrimeSet) (g : P.Good) (ng : P.NttGood) (j : Nat) (hj1 : 1 ≤ j) (hj : j ≤ 16)
    (rs off la lb : Nat) (mA mB : Int) (a b : Col) (ha : ColOK j a) (hb : ColOK j b)
    (hla : 0 < la) (hlb : 0 < lb) (hsz : la < 10000)
    (hbound : ∀ l, l < rs → ∀ i, i < 2 ^ j →
      -(((bigQ P : Int) - 1) / 2) ≤ ((cnvApplyCol (2 ^ j) rs off (cnvPrepareCol (2 ^ j) la mA a) (cnvPrepareCol (2 ^ j) lb mB b)).getD l (zeroP (2 ^ j))).getD i 0 ∧
      ((cnvApplyCol (2 ^ j) rs off (cnvPrepareCol (2 ^ j) la mA a) (cnvPrepareCol (2 ^ j) lb mB b)).getD l (zeroP (2 ^ j))).getD i 0 ≤ ((bigQ P : Int) - 1) / 2) :
    cnvPipeline P (2 ^ j) rs off la lb mA mB a b =
      cnvApplyCol (2 ^ j) rs off (cnvPrepareCol (2 ^ j) la mA a) (cnvPrepareCol (2 ^ j) lb mB b) := by
  unfold cnvPipeline
  simp only []
  apply List.ext_getElem
  · simp [cnvApplyCol]
  · intro l h1 h2
    simp only [List.length_map, List.length_range] at h1
    rw [List.getElem_map, List.getElem_range]
    have e : (cnvApplyCol (2 ^ j) rs off (cnvPrepareCol (2 ^ j) la mA a) (cnvPrepareCol (2 ^ j) lb mB b))[l] =
        (cnvApplyCol (2 ^ j) rs off (cnvPrepareCol (2 ^ j) la mA a) (cnvPrepareCol (2 ^ j) lb mB b)).getD l (zeroP (2 ^ j)) :=
      (getD_eq_getElem' _ l _ h2).symm
    rw [e]
    exact idftLimb_eq P g ng j hj1 hj _ _ _ _ _
      (cnvApplyLane_rep P 0 j (laneCtx_of P ng 0 j (by omega) hj1 hj) rs off la lb mA mB a b ha hb hla hlb hsz l h1)
      (cnvApplyLane_rep P 1 j (laneCtx_of P ng 1 j (by omega) hj1 hj) rs off la lb mA mB a b ha hb hla hlb hsz l h1)
      (cnvApplyLane_rep P 2 j (laneCtx_of P ng 2 j (by omega) hj1 hj) rs off la lb mA mB a b ha hb hla hlb hsz l h1)
      (cnvApplyLane_rep P 3 j (laneCtx_of P ng 3 j (by omega) hj1 hj) rs off la lb mA mB a b ha hb hla hlb hsz l h1)
      (hbound l h1)

end Ntt120
