import Poulpy.Lemmas.CoreOpsOps

/-! Binary operations of C02: add / sub (three column loops, rank-0 operands) and the in-place forms. -/

namespace C02L
open Hal Core Core.Ops

theorem rankRule3_spec {res a b : GLWE} (h : rankRule3 res a b = true) :
    a.rank ≤ res.rank ∧ b.rank ≤ res.rank ∧ max a.rank b.rank = res.rank := by
  unfold rankRule3 at h
  split at h
  · simp at h; omega
  · split at h
    · simp at h; omega
    · simp at h; omega

theorem body2_ok (K : Col → Col → Col) (a b : GLWE) (i : Nat) (r : GLWE) (ha : i < a.cols.length) (hb : i < b.cols.length)
    (hr : i < r.cols.length) :
    Ops.bind (colOf a i) (fun ai => Ops.bind (colOf b i) (fun bi => updCol i (fun _ => .ok (K ai bi)) r))
      = .ok { r with cols := r.cols.set i (K (col a i) (col b i)) } := by
  rw [colOf_ok a i ha, colOf_ok b i hb]
  exact updCol_ok i _ r _ hr rfl

/-- shared proof of `glwe_add_into` / `glwe_sub`: `K1` on the common columns, then `Ka` (copy of the
operand of larger rank `a`) or `Kb` (for `b`), then zero fill -/
theorem three_loops {N : Nat} {T2 : Poly → Poly} (h2 : LinT N T2) (K1 : Col → Col → Col) (Kb : Col → Col) {res a b : GLWE}
    (hr : GWF N res) (ha : GWF N a) (hb : GWF N b) (hrule : rankRule3 res a b = true)
    (hK1 : ∀ i, i ≤ min a.rank b.rank →
      K1 (col a i) (col b i) = colAdd (fit N res.size (col a i)) ((fit N res.size (col b i)).map T2))
    (hKb : ∀ i, Kb (col b i) = (fit N res.size (col b i)).map T2) :
    ∃ r',
      Ops.bind (forRange 0 (min a.rank b.rank + 1) (fun i r =>
          Ops.bind (colOf a i) (fun ai => Ops.bind (colOf b i) (fun bi => updCol i (fun _ => .ok (K1 ai bi)) r))) res)
        (fun r1 => Ops.bind
          (if a.rank > b.rank then forRange (min a.rank b.rank + 1) (max a.rank b.rank + 1) (fromCol a (vecCopy N res.size)) r1
           else forRange (min a.rank b.rank + 1) (max a.rank b.rank + 1) (fromCol b Kb) r1)
          (fun r2 => forRange (max a.rank b.rank + 1) (res.rank + 1) (selfCol (fun _ => vecZero N res.size)) r2)) = .ok r' ∧
      Same res r' ∧ GWF N r' ∧ r'.size = res.size ∧
      ∀ s, phase s r' = colAdd (fit N res.size (phase s a)) ((fit N res.size (phase s b)).map T2) := by
  obtain ⟨har, hbr, hmax⟩ := rankRule3_spec hrule
  obtain ⟨r1, e1, s1, c1⟩ := forRange_spec (fun i _ => K1 (col a i) (col b i)) _ 0 (min a.rank b.rank + 1) res
    (fun i r _ hi hl => body2_ok K1 a b i r (by rw [ha.len]; omega) (by rw [hb.len]; omega) (by rw [hl, hr.len]; omega))
    (by rw [hr.len]; omega)
  -- the middle loop, whichever operand has the larger rank
  have mid : ∃ r2, (if a.rank > b.rank then forRange (min a.rank b.rank + 1) (max a.rank b.rank + 1) (fromCol a (vecCopy N res.size)) r1
           else forRange (min a.rank b.rank + 1) (max a.rank b.rank + 1) (fromCol b Kb) r1) = .ok r2 ∧ Same r1 r2 ∧
        ∀ i, col r2 i = if min a.rank b.rank + 1 ≤ i ∧ i < max a.rank b.rank + 1 then
            colAdd (fit N res.size (col a i)) ((fit N res.size (col b i)).map T2) else col r1 i := by
    by_cases hgt : a.rank > b.rank
    · simp only [hgt, if_true]
      obtain ⟨r2, e2, s2, c2⟩ := forRange_spec (fun i _ => vecCopy N res.size (col a i)) (fromCol a (vecCopy N res.size))
        (min a.rank b.rank + 1) (max a.rank b.rank + 1) r1
        (fun i r _ hi hl => fromCol_ok a _ i r (by rw [ha.len]; omega) (by rw [hl, s1.2.2.2, hr.len]; omega))
        (by rw [s1.2.2.2, hr.len]; omega)
      refine ⟨r2, e2, s2, fun i => ?_⟩
      rw [c2 i]
      by_cases hi : min a.rank b.rank + 1 ≤ i ∧ i < max a.rank b.rank + 1
      · simp only [hi, and_self, if_true]
        rw [vecCopy_nf, col_of_gt (g := b) i (by rw [hb.len]; omega), zmap h2,
          colAdd_zero_right (fit_wf (ha.col_limbs i) _)]
      · simp only [hi, if_false]
    · simp only [hgt, if_false]
      obtain ⟨r2, e2, s2, c2⟩ := forRange_spec (fun i _ => Kb (col b i)) (fromCol b Kb)
        (min a.rank b.rank + 1) (max a.rank b.rank + 1) r1
        (fun i r _ hi hl => fromCol_ok b _ i r (by rw [hb.len]; omega) (by rw [hl, s1.2.2.2, hr.len]; omega))
        (by rw [s1.2.2.2, hr.len]; omega)
      refine ⟨r2, e2, s2, fun i => ?_⟩
      rw [c2 i]
      by_cases hi : min a.rank b.rank + 1 ≤ i ∧ i < max a.rank b.rank + 1
      · simp only [hi, and_self, if_true]
        rw [hKb i, col_of_gt (g := a) i (by rw [ha.len]; omega),
          colAdd_zero_left (map_wf h2 (fit_wf (hb.col_limbs i) _))]
      · simp only [hi, if_false]
  obtain ⟨r2, e2, s2, c2⟩ := mid
  obtain ⟨r3, e3, s3, c3⟩ := forRange_spec (fun _ _ => vecZero N res.size) (selfCol (fun _ => vecZero N res.size))
    (max a.rank b.rank + 1) (res.rank + 1) r2
    (fun i r _ hi hl => selfCol_ok _ i r (by rw [hl, s2.2.2.2, s1.2.2.2, hr.len]; exact hi))
    (by rw [s2.2.2.2, s1.2.2.2, hr.len])
  have hs := (s1.trans s2).trans s3
  have hcol : ∀ i, i ≤ res.rank →
      col r3 i = colAdd ((fit N res.size (col a i)).map id) ((fit N res.size (col b i)).map T2) := by
    intro i hi
    rw [c3 i, c2 i, c1 i, map_id']
    have h3 : ¬ (max a.rank b.rank + 1 ≤ i ∧ i < res.rank + 1) := by omega
    simp only [h3, if_false]
    by_cases hm : min a.rank b.rank + 1 ≤ i ∧ i < max a.rank b.rank + 1
    · simp only [hm, and_self, if_true]
    · have h1 : 0 ≤ i ∧ i < min a.rank b.rank + 1 := by omega
      simp only [hm, if_false, h1, and_self, if_true]
      exact hK1 i (by omega)
  obtain ⟨w, sz, ph⟩ := bin_finish (linT_id N) h2 hr ha hb hs har hbr hcol
  refine ⟨r3, ?_, hs, w, sz, fun s => by rw [ph s, map_id']⟩
  rw [e1]; simp only [Ops.bind]; rw [e2]; exact e3

/-- `glwe_add_into` -/
theorem add_ok {N : Nat} {res a b : GLWE} (hr : GWF N res) (ha : GWF N a) (hb : GWF N b) (sa : GSmall a) (sb : GSmall b)
    (hab : a.base2k = b.base2k) (hrb : res.base2k = b.base2k) (hrule : rankRule3 res a b = true) :
    ∃ r', glweAddInto N res a b = .ok r' ∧ Same res r' ∧ GWF N r' ∧ r'.size = res.size ∧
      ∀ s, phase s r' = colAdd (fit N res.size (phase s a)) (fit N res.size (phase s b)) := by
  unfold glweAddInto
  rw [check_true _ _ (beq_true ha.1), check_true _ _ (beq_true hb.1), check_true _ _ (beq_true hr.1),
    check_true _ _ (beq_true hab), check_true _ _ (beq_true hrb), check_true _ _ hrule]
  obtain ⟨r', h1, h2, h3, h4, h5⟩ := three_loops (linT_id N) (vecAdd N res.size) (vecCopy N res.size) hr ha hb hrule
    (fun i _ => by rw [vecAdd_nf _ _ _ (ha.col_limbs i) (hb.col_limbs i) (sa.col i) (sb.col i), map_id'])
    (fun i => by rw [vecCopy_nf, map_id'])
  exact ⟨r', h1, h2, h3, h4, fun s => by rw [h5 s, map_id']⟩

/-- `glwe_sub` -/
theorem sub_ok {N : Nat} {res a b : GLWE} (hr : GWF N res) (ha : GWF N a) (hb : GWF N b) (sa : GSmall a) (sb : GSmall b)
    (hab : a.base2k = res.base2k) (hrb : b.base2k = res.base2k) (hrule : rankRule3 res a b = true) :
    ∃ r', glweSub N res a b = .ok r' ∧ Same res r' ∧ GWF N r' ∧ r'.size = res.size ∧
      ∀ s, phase s r' = colAdd (fit N res.size (phase s a)) ((fit N res.size (phase s b)).map polyNeg) := by
  unfold glweSub
  rw [check_true _ _ (beq_true ha.1), check_true _ _ (beq_true hb.1), check_true _ _ (beq_true hr.1),
    check_true _ _ (beq_true hab), check_true _ _ (beq_true hrb), check_true _ _ hrule]
  exact three_loops (linT_neg N) (vecSub N res.size) (vecNegate N res.size) hr ha hb hrule
    (fun i _ => vecSub_nf _ _ _ (ha.col_limbs i) (hb.col_limbs i) (sa.col i) (sb.col i))
    (fun i => vecNegate_nf _ _ (sb.col i))

/-! ### in-place binary forms -/

/-- `for i in 0..a.rank+1 { res_i = K(res_i, a_i) }`, the other columns of `res` untouched -/
theorem assign_loop {N : Nat} {T2 : Poly → Poly} (h2 : LinT N T2) (K : Col → Col → Col) {res a : GLWE}
    (hr : GWF N res) (ha : GWF N a) (hrk : a.rank ≤ res.rank)
    (hK : ∀ i, i ≤ a.rank → K (col res i) (col a i) = colAdd (col res i) ((fit N res.size (col a i)).map T2)) :
    ∃ r', forRange 0 (a.rank + 1) (withCol a K) res = .ok r' ∧
      Same res r' ∧ GWF N r' ∧ r'.size = res.size ∧
      ∀ s, phase s r' = colAdd (phase s res) ((fit N res.size (phase s a)).map T2) := by
  obtain ⟨r1, e1, s1, c1⟩ := forRange_spec (fun i c => K c (col a i)) (withCol a K) 0 (a.rank + 1) res
    (fun i r _ hi hl => withCol_ok a K i r (by rw [ha.len]; omega) (by rw [hl, hr.len]; omega)) (by rw [hr.len]; omega)
  have hcol : ∀ i, i ≤ res.rank →
      col r1 i = colAdd ((fit N res.size (col res i)).map id) ((fit N res.size (col a i)).map T2) := by
    intro i hi
    rw [c1 i, map_id', fit_self (hr.col_wf i hi).1]
    by_cases h : 0 ≤ i ∧ i < a.rank + 1
    · simp only [h, and_self, if_true]
      exact hK i (by omega)
    · simp only [h, if_false]
      rw [col_of_gt (g := a) i (by rw [ha.len]; omega), zmap h2, colAdd_zero_right (hr.col_wf i hi)]
  obtain ⟨w, sz, ph⟩ := bin_finish (linT_id N) h2 hr hr ha s1 (Nat.le_refl _) hrk hcol
  exact ⟨r1, e1, s1, w, sz, fun s => by rw [ph s, map_id', fit_self (phase_wf hr s).1]⟩

/-- `glwe_add_assign` -/
theorem addAssign_ok {N : Nat} {res a : GLWE} (hr : GWF N res) (ha : GWF N a) (sr : GSmall res) (sa : GSmall a)
    (hb : res.base2k = a.base2k) (hrank : a.rank ≤ res.rank) :
    ∃ r', glweAddAssign N res a = .ok r' ∧ Same res r' ∧ GWF N r' ∧ r'.size = res.size ∧
      ∀ s, phase s r' = colAdd (phase s res) (fit N res.size (phase s a)) := by
  unfold glweAddAssign
  rw [check_true _ _ (beq_true hr.1), check_true _ _ (beq_true ha.1), check_true _ _ (beq_true hb),
    check_true _ _ (by simpa using hrank)]
  obtain ⟨r', h1, h2, h3, h4, h5⟩ := assign_loop (linT_id N) (vecAddAssignW w64) hr ha hrank
    (fun i hi => by
      rw [vecAddAssign_nf (N := N) _ _ (hr.col_limbs i) (sr.col i) (sa.col i), (hr.col_wf i (by omega)).1, map_id'])
  exact ⟨r', h1, h2, h3, h4, fun s => by rw [h5 s, map_id']⟩

/-- `glwe_sub_assign` -/
theorem subAssign_ok {N : Nat} {res a : GLWE} (hr : GWF N res) (ha : GWF N a) (sr : GSmall res) (sa : GSmall a)
    (hb : res.base2k = a.base2k) (hrank : (res.rank == a.rank || a.rank == 0) = true) :
    ∃ r', glweSubAssign N res a = .ok r' ∧ Same res r' ∧ GWF N r' ∧ r'.size = res.size ∧
      ∀ s, phase s r' = colAdd (phase s res) ((fit N res.size (phase s a)).map polyNeg) := by
  unfold glweSubAssign
  rw [check_true _ _ (beq_true hr.1), check_true _ _ (beq_true ha.1), check_true _ _ (beq_true hb), check_true _ _ hrank]
  exact assign_loop (linT_neg N) (vecSubAssignW w64) hr ha (rank_cases hrank)
    (fun i hi => by
      rw [vecSubAssign_nf (N := N) _ _ (hr.col_limbs i) (sr.col i) (sa.col i), (hr.col_wf i (by have := rank_cases hrank; omega)).1])

/-- `glwe_sub_negate_assign`: `res ← a - res`, the columns `a` does not have are negated -/
theorem subNegateAssign_ok {N : Nat} {res a : GLWE} (hr : GWF N res) (ha : GWF N a) (sr : GSmall res) (sa : GSmall a)
    (hb : res.base2k = a.base2k) (hrank : (res.rank == a.rank || a.rank == 0) = true) :
    ∃ r', glweSubNegateAssign N res a = .ok r' ∧ Same res r' ∧ GWF N r' ∧ r'.size = res.size ∧
      ∀ s, phase s r' = colAdd ((phase s res).map polyNeg) (fit N res.size (phase s a)) := by
  have hrk := rank_cases hrank
  unfold glweSubNegateAssign
  rw [check_true _ _ (beq_true hr.1), check_true _ _ (beq_true ha.1), check_true _ _ (beq_true hb), check_true _ _ hrank]
  obtain ⟨r1, e1, s1, c1⟩ := forRange_spec (fun i c => vecSubNegateAssignW w64 c (col a i)) (withCol a (vecSubNegateAssignW w64))
    0 (a.rank + 1) res
    (fun i r _ hi hl => withCol_ok a _ i r (by rw [ha.len]; omega) (by rw [hl, hr.len]; omega)) (by rw [hr.len]; omega)
  obtain ⟨r2, e2, s2, c2⟩ := forRange_spec (fun _ c => vecNegateAssignW w64 c) (selfCol (vecNegateAssignW w64))
    (a.rank + 1) (res.rank + 1) r1
    (fun i r _ hi hl => selfCol_ok _ i r (by rw [hl, s1.2.2.2, hr.len]; exact hi)) (by rw [s1.2.2.2, hr.len])
  have hs := s1.trans s2
  have hcol : ∀ i, i ≤ res.rank →
      col r2 i = colAdd ((fit N res.size (col res i)).map polyNeg) ((fit N res.size (col a i)).map id) := by
    intro i hi
    rw [c2 i, c1 i, map_id', fit_self (hr.col_wf i hi).1]
    by_cases h : i < a.rank + 1
    · have h' : ¬ (a.rank + 1 ≤ i ∧ i < res.rank + 1) := by omega
      have h'' : 0 ≤ i ∧ i < a.rank + 1 := by omega
      simp only [h', if_false, h'', and_self, if_true]
      rw [vecSubNegateAssign_nf (N := N) _ _ (hr.col_limbs i) (sr.col i) (sa.col i), (hr.col_wf i hi).1]
    · have h' : a.rank + 1 ≤ i ∧ i < res.rank + 1 := by omega
      have h'' : ¬ (0 ≤ i ∧ i < a.rank + 1) := by omega
      simp only [h', and_self, if_true, h'', if_false]
      rw [vecNegateAssign_nf _ (sr.col i), col_of_gt (g := a) i (by rw [ha.len]; omega),
        colAdd_zero_right (map_wf (linT_neg N) (hr.col_wf i hi))]
  obtain ⟨w, sz, ph⟩ := bin_finish (linT_neg N) (linT_id N) hr hr ha hs (Nat.le_refl _) hrk hcol
  refine ⟨r2, by rw [e1]; exact e2, hs, w, sz, fun s => by rw [ph s, map_id', fit_self (phase_wf hr s).1]⟩

end C02L
