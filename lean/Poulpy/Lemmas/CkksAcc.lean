import Poulpy.Lemmas.CkksSemOps
/-!
Un-normalised accumulation (`ckks_add_assign_unsafe` chains of `ckks_add_many`, `accumulate_unnormalized` of the dot products):
the core steps of `Lemmas/CkksCore.lean` with an **accumulator bound `H`** instead of balanced digits.  The head-room the
kernels need is `H ≤ 2^62` (`ensure_accumulation_fits`: `n ≤ 2^(63−b)`, i.e. `n·2^(b−1) ≤ 2^62`).
-/

namespace Ckks.CoreSem
open Hal Core Core.Ops C02L CoreEnc NormL Ckks.Sem Ckks.Bound

theorem headroomH {b : Nat} (hb1 : 1 ≤ b) (hb61 : b ≤ 61) {H : Int} (hH0 : 0 ≤ H) (hH : H ≤ 2 ^ 62) : HeadRoom 64 b 0 H := by
  refine ⟨by norm_num, by omega, by omega, hH0, ?_⟩
  have : (2 : Int) ^ b ≤ 2 ^ 61 := pow_le_pow_right₀ (by norm_num) hb61
  norm_num at this hH ⊢
  omega

/-- **`glwe_lsh_add(res, a, k)`** into an un-normalised accumulator -/
theorem lsh_add_stepH {N b r : Nat} (hb1 : 1 ≤ b) (hb61 : b ≤ 61) {res a : GLWE} {H : Int} (hH0 : 0 ≤ H) (hH : H ≤ 2 ^ 62)
    (hr : GB N b r H res) (ha : GB N b r (full b) a) (k β' βa : Nat) (hk : k + β' = βa) :
    ∃ r', glweLshAdd N res a k = .ok r' ∧ GB N b r (H + half b) r' ∧ r'.size = res.size ∧
      ∀ s t, t < N → Near (decG s r' β' t) (decG s res β' t + decG s a βa t) (2 ^ β') (sn r s * ulpG r' β') := by
  obtain ⟨hrw, hrb, hrr, hrn⟩ := hr
  subst hrb
  have hh := headroom hb1 hb61
  have hrank : a.rank ≤ res.rank := by rw [ha.rk, hrr]
  obtain ⟨r', h1, hs, w, sz, hp⟩ := C02.lsh_add_phase hrw ha.wf ha.bk.symm hrank hh (by omega) ha.nb
    (gbound_mono hrn hH) k
  have hbd := lsh_add_bound hrw ha.wf ha.bk.symm hrank hh (by omega) ha.nb hH0 hH hrn k h1
  refine ⟨r', h1, ⟨w, hs.1, by rw [hs.rank, hrr], hbd⟩, sz, fun s t ht => ?_⟩
  obtain ⟨q, e, hrel, he⟩ := hp s t ht
  have hU : |(e : ℚ)| ≤ sn r s * 2 ^ (res.base2k * a.size) := by
    have := cast_abs_le he
    rw [hrr] at this
    push_cast at this
    simp only [sn]; push_cast; linarith
  have := dec_of_lsh_acc (valCoeff res.base2k (phase s r') t) (valCoeff res.base2k (phase s res) t)
    (valCoeff res.base2k (phase s a) t) e q 1 (res.base2k * res.size) (res.base2k * a.size) k β' βa _
    (by rw [hrel]; ring) hU hk
  simp only [decG, ulpG, hs.1, sz, ha.bk]
  rw [show sn r s * (2 ^ β' / 2 ^ (res.base2k * res.size)) = sn r s * 2 ^ β' / 2 ^ (res.base2k * res.size) by ring]
  simpa using this

/-- **`glwe_lsh_assign(res, k)`** on an un-normalised accumulator: exact, balanced digits again -/
theorem lsh_assign_stepH {N b r : Nat} (hb1 : 1 ≤ b) (hb61 : b ≤ 61) {res : GLWE} {H : Int} (hH0 : 0 ≤ H) (hH : H ≤ 2 ^ 62)
    (hr : GB N b r H res) (k β' β bits : Nat) (hk : k + β' = β + bits) :
    ∃ r', glweLshAssign N res k = .ok r' ∧ GB N b r (half b) r' ∧ r'.size = res.size ∧
      ∀ s t, t < N → Near (decG s r' β' t) (decG s res β t * 2 ^ bits) (2 ^ β') 0 := by
  obtain ⟨hrw, hrb, hrr, hrn⟩ := hr
  subst hrb
  have hh := headroomH hb1 hb61 hH0 hH
  obtain ⟨r', h1, hs, w, sz, hp⟩ := C02.lsh_assign_phase hrw hh hrn k
  refine ⟨r', h1, ⟨w, hs.1, by rw [hs.rank, hrr], lsh_assign_bound hrw hh hrn k h1⟩, sz, fun s t ht => ?_⟩
  obtain ⟨q, hq⟩ := hp s t ht
  have := dec_of_lsh_assign _ _ q (res.base2k * res.size) k β' β bits hq hk
  simpa only [decG, hs.1, sz] using this

/-- **`glwe_normalize_assign(res)`** on an un-normalised accumulator: exact -/
theorem normalize_assign_stepH {N b r : Nat} (hb1 : 1 ≤ b) (hb61 : b ≤ 61) {res : GLWE} {H : Int} (hH0 : 0 ≤ H) (hH : H ≤ 2 ^ 62)
    (hr : GB N b r H res) (β : Nat) :
    ∃ r', glweNormalizeAssign N res = .ok r' ∧ GB N b r (half b) r' ∧ r'.size = res.size ∧
      ∀ s t, t < N → Near (decG s r' β t) (decG s res β t) (2 ^ β) 0 := by
  obtain ⟨hrw, hrb, hrr, hrn⟩ := hr
  subst hrb
  have hh := headroomH hb1 hb61 hH0 hH
  obtain ⟨r', h1, hs, w, sz, hp⟩ := C02.normalize_assign_phase hrw hh hrn
  refine ⟨r', h1, ⟨w, hs.1, by rw [hs.rank, hrr], normalize_assign_bound hrw hh hrn h1⟩, sz, fun s t ht => ?_⟩
  obtain ⟨q, hq⟩ := hp s t ht
  have := dec_of_lsh_assign _ _ q (res.base2k * res.size) 0 β β 0 (by rw [hq]; ring) (by omega)
  simpa only [decG, hs.1, sz, pow_zero, mul_one] using this

/-- **`glwe_add_assign(res, x)`** into an un-normalised accumulator (`|limb| ≤ H < 2^62`) -/
theorem add_assign_stepH {N b r : Nat} (hb1 : 1 ≤ b) (hb61 : b ≤ 61) {res x : GLWE} {H : Int} (hH0 : 0 ≤ H) (hH : H < 2 ^ 62)
    (hr : GB N b r H res) (hx : GB N b r (half b) x) (β : Nat) :
    ∃ r', glweAddAssign N res x = .ok r' ∧ GB N b r (H + half b) r' ∧ r'.size = res.size ∧
      ∀ s t, t < N → Near (decG s r' β t) (decG s res β t + decG s x β t) (2 ^ β)
        (sn r s * trq res.size x.size * ulpG r' β) := by
  have hra : x.rank = res.rank := by rw [hx.rk, hr.rk]
  have hbk : res.base2k = x.base2k := by rw [hr.bk, hx.bk]
  have sr : GSmall res := gsmall_of_gbound hr.nb hH
  obtain ⟨r', h1, hs, w, sz, _⟩ := C02.add_assign_phase hr.wf hx.wf sr (hx.small hb61) hbk (by omega)
  obtain ⟨_, hc⟩ := add_assign_cols hr.wf hx.wf hbk hra sr (hx.small hb61) h1
  have hbd : GBound (H + half b) r' := gbound_of_same hr.wf hs fun i hi => by
    rw [hc i hi]
    exact cb_colAdd (gbound_col hr.nb i) (cb_fit (half_nonneg b) (gbound_col hx.nb i))
  have hrb' : r'.base2k = b := by rw [hs.1, hr.bk]
  have hrr' : r'.rank = r := by rw [hs.rank, hr.rk]
  refine ⟨r', h1, ⟨w, hrb', hrr', hbd⟩, sz, fun s t ht => ?_⟩
  -- phase relation through `torus_phase3`
  set Pr := b * res.size with hPr
  set Pa := b * x.size with hPa
  let tA : Int := if x.size ≤ res.size then 0 else 1
  have key := torus_phase3 w hr.wf hx.wf (by rw [hr.rk, hrr']) (by rw [hx.rk, hrr']) b b b
    (2 ^ Pa) (2 ^ Pa) (2 ^ Pr) 0 (tA * 2 ^ Pa)
    (fun i hi t ht => by
      rw [hrr'] at hi
      have hi' : i ≤ res.rank := by rw [hr.rk]; exact hi
      have hal : (col x i).length = x.size := (hx.wf.col_wf i (by rw [hx.rk]; exact hi)).1
      obtain ⟨ea, ha1, ha2⟩ := fit_rel b N res.size hb1 (col x i) t (bal_of_cb (half_nonneg b) (gbound_col hx.nb i) t)
      rw [hal] at ha1 ha2
      refine ⟨0, ea, ?_, ?_⟩
      · rw [hc i hi', valCoeff_colAdd b (hr.wf.col_wf i hi') (fit_wf (hx.wf.col_limbs i) _) t]
        linear_combination ha1
      · simp only [tA]; split
        · simpa [*] using ha2
        · simpa [*] using ha2) s t ht
  obtain ⟨q, e, hrel, he⟩ := key
  have hrel' : 2 ^ (Pr + Pa) * valCoeff b (phase s r') t
      = 1 * 2 ^ (Pr + Pa) * valCoeff b (phase s res) t + 1 * 2 ^ (Pr + Pr) * valCoeff b (phase s x) t + 2 ^ Pr * e := by
    have e1 : (2 : Int) ^ (Pr + Pa) = 2 ^ Pr * 2 ^ Pa := pow_add _ _ _
    have e2 : (2 : Int) ^ (Pr + Pr) = 2 ^ Pr * 2 ^ Pr := pow_add _ _ _
    rw [e1, e2]
    linear_combination (2 ^ Pr) * hrel
  have hU : |((2 ^ Pr * e : Int) : ℚ)| ≤ (sn r s * trq res.size x.size) * 2 ^ (Pr + Pa) := by
    have := cast_abs_le he
    rw [hrr'] at this
    push_cast at this
    have e2 : ((tA : Int) : ℚ) = trq res.size x.size := by simp only [tA, trq]; split <;> simp
    rw [e2] at this
    push_cast
    rw [abs_mul, abs_of_pos (by positivity : (0 : ℚ) < 2 ^ Pr), pow_add]
    simp only [sn]
    push_cast
    calc (2 : ℚ) ^ Pr * |(e : ℚ)| ≤ 2 ^ Pr * ((1 + (snorm (min r s.length) s : ℚ)) * (trq res.size x.size * 2 ^ Pa)) := by gcongr
      _ = _ := by ring
  have := dec_of_exact3 _ _ _ (2 ^ Pr * e) 1 1 Pr Pr Pa β _ hrel' hU
  simp only [decG, ulpG, hrb', hr.bk, hx.bk, sz]
  rw [show sn r s * trq res.size x.size * (2 ^ β / 2 ^ (b * res.size)) = sn r s * trq res.size x.size * 2 ^ β / 2 ^ Pr by ring]
  simpa using this

end Ckks.CoreSem
