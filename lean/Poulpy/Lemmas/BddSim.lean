import Poulpy.Model.Bdd
/-
A verified checker for the BDD evaluator model (`Model/Bdd.lean`): a circuit is compared, level by level from the
root, with a *specification automaton* — a decision graph `spec : Q → SNode Q` over an arbitrary state type whose
states carry a semantic value `val : Q → Bool` (for the assignment at hand) satisfying the one-step equation
`val q = match spec q with | test v q1 q0 => if inp v then val q1 else val q0 | leaf c => c`.

`checkFlat` propagates pairs (slot, spec state) from the root `(0, q0)` down through the levels (a `cmux` on the
variable the state tests splits the pair, a `cmux` on another variable demands both operands to agree with the
same state, a `copy` keeps the pair) and finally compares the pairs with the initial slots `[0, 1, 0, …]`.
`check_sound` (proved once): `checkFlat … = true → evalFlat … inp = some (val q0)` for EVERY assignment for which
`val` satisfies the equation.  The check itself is closed and runs in the kernel (`decide +kernel`).
Kernel-only: no `bv_decide`, no Mathlib.
-/

inductive SNode (Q : Type) where
  | test (v : Nat) (q1 q0 : Q)
  | leaf (c : Bool)

/-- one step of the semantics of a specification state -/
def SNode.eval {Q : Type} (inp : Nat → Bool) (val : Q → Bool) : SNode Q → Bool
  | .test v q1 q0 => if inp v then val q1 else val q0
  | .leaf c => c

namespace BddSim

variable {Q : Type} [DecidableEq Q]

/-- successors of state `q` under input variable `b`: the two branches if `q` tests `b`; a test whose branches are
the same state is skipped; otherwise `q` does not look at `b` here -/
def branch (spec : Q → SNode Q) : Nat → Q → Nat → Q × Q
  | 0, q, _ => (q, q)
  | f + 1, q, b =>
    match spec q with
    | .test v q1 q0 => if v = b then (q1, q0) else if q1 = q0 then branch spec f q1 b else (q, q)
    | .leaf _ => (q, q)

def leafVal (spec : Q → SNode Q) : Nat → Q → Option Bool
  | 0, _ => none
  | f + 1, q =>
    match spec q with
    | .leaf c => some c
    | .test _ q1 q0 => if q1 = q0 then leafVal spec f q1 else none

def memb (p : Nat × Q) : List (Nat × Q) → Bool
  | [] => false
  | x :: r => (decide (p.1 = x.1) && decide (p.2 = x.2)) || memb p r

def ins (p : Nat × Q) (R : List (Nat × Q)) : List (Nat × Q) := if memb p R then R else p :: R

def pushOne (spec : Q → SNode Q) (fuel : Nat) (lv : List Node) (acc : Option (List (Nat × Q))) (p : Nat × Q) :
    Option (List (Nat × Q)) :=
  match acc with
  | none => none
  | some R =>
    match lv[p.1]? with
    | some (.cmux b hi lo) => some (ins (hi, (branch spec fuel p.2 b).1) (ins (lo, (branch spec fuel p.2 b).2) R))
    | some .copy => some (ins p R)
    | _ => none

/-- the pairs below level `lv`, from the pairs `R'` above it -/
def pushdown (spec : Q → SNode Q) (fuel : Nat) (lv : List Node) (R' : List (Nat × Q)) : Option (List (Nat × Q)) :=
  R'.foldl (pushOne spec fuel lv) (some [])

/-- the pairs on the state that feeds `levels` (evaluation order) -/
def relBelow (spec : Q → SNode Q) (fuel : Nat) (q0 : Q) : List (List Node) → Option (List (Nat × Q))
  | [] => some [(0, q0)]
  | lv :: rest =>
    match relBelow spec fuel q0 rest with
    | some R' => pushdown spec fuel lv R'
    | none => none

def checkInit (spec : Q → SNode Q) (fuel : Nat) (w : Nat) (R : List (Nat × Q)) : Bool :=
  R.all fun p => decide (p.1 < w) && (leafVal spec fuel p.2 == some (p.1 == 1))

def checkFlat (spec : Q → SNode Q) (fuel : Nat) (nIn w : Nat) (nodes : List Node) (q0 : Q) : Bool :=
  decide (w ≠ 0) && wellFormed nIn w nodes &&
    match relBelow spec fuel q0 (chunks w nodes) with
    | some R => checkInit spec fuel w R
    | none => false

/-! ### soundness -/

section sound
variable (spec : Q → SNode Q) (inp : Nat → Bool) (val : Q → Bool)
  (hval : ∀ q, val q = (spec q).eval inp val)
include hval

theorem branch_sound : ∀ (f : Nat) (q : Q) (b : Nat),
    (if inp b then val (branch spec f q b).1 else val (branch spec f q b).2) = val q := by
  intro f
  induction f with
  | zero => intro q b; simp [branch]
  | succ f ih =>
    intro q b
    have hq := hval q
    unfold branch
    cases hs : spec q with
    | leaf c => simp
    | test v q1 q0 =>
      rw [hs] at hq
      simp only
      by_cases hv : v = b
      · subst hv; rw [if_pos rfl]; exact hq.symm
      · rw [if_neg hv]
        by_cases he : q1 = q0
        · rw [if_pos he, ih q1 b, hq, he]; simp [SNode.eval]
        · rw [if_neg he]; simp

theorem leafVal_sound : ∀ (f : Nat) (q : Q) (c : Bool), leafVal spec f q = some c → val q = c := by
  intro f
  induction f with
  | zero => intro q c h; simp [leafVal] at h
  | succ f ih =>
    intro q c h
    have hq := hval q
    unfold leafVal at h
    cases hs : spec q with
    | leaf c' => rw [hs] at h hq; simp at h; rw [hq, ← h]; rfl
    | test v q1 q0 =>
      rw [hs] at h hq
      simp only at h
      by_cases he : q1 = q0
      · rw [if_pos he] at h; subst he; rw [hq, ← ih q1 c h]; simp [SNode.eval]
      · rw [if_neg he] at h; cases h

omit hval in
theorem memb_mem (p : Nat × Q) : ∀ R : List (Nat × Q), memb p R = true → p ∈ R := by
  intro R
  induction R with
  | nil => intro h; simp [memb] at h
  | cons x r ih =>
    intro h
    simp only [memb, Bool.or_eq_true, Bool.and_eq_true, decide_eq_true_eq] at h
    rcases h with ⟨h1, h2⟩ | h
    · exact List.mem_cons.2 (Or.inl (Prod.ext h1 h2))
    · exact List.mem_cons_of_mem _ (ih h)

omit hval in
theorem mem_ins_self (p : Nat × Q) (R : List (Nat × Q)) : p ∈ ins p R := by
  unfold ins
  by_cases h : memb p R = true
  · rw [if_pos h]; exact memb_mem p R h
  · rw [if_neg h]; exact List.mem_cons_self

omit hval in
theorem mem_ins_of_mem (p x : Nat × Q) (R : List (Nat × Q)) (h : x ∈ R) : x ∈ ins p R := by
  unfold ins
  by_cases hm : memb p R = true
  · rw [if_pos hm]; exact h
  · rw [if_neg hm]; exact List.mem_cons_of_mem _ h

/-- slot `p.1` of a state agrees with the value of spec state `p.2` -/
def Agree (st : List (Option Bool)) (R : List (Nat × Q)) : Prop := ∀ p ∈ R, st[p.1]? = some (some (val p.2))

/-- what a successful `pushOne` guarantees for its pair -/
def Served (fuel : Nat) (lv : List Node) (R : List (Nat × Q)) (p : Nat × Q) : Prop :=
  match lv[p.1]? with
  | some (.cmux b hi lo) => (hi, (branch spec fuel p.2 b).1) ∈ R ∧ (lo, (branch spec fuel p.2 b).2) ∈ R
  | some .copy => p ∈ R
  | _ => False

omit hval in
theorem Served.mono (fuel : Nat) (lv : List Node) (R R₂ : List (Nat × Q)) (p : Nat × Q) (hsub : ∀ x ∈ R, x ∈ R₂)
    (h : Served spec fuel lv R p) : Served spec fuel lv R₂ p := by
  unfold Served at h ⊢
  cases hl : lv[p.1]? with
  | none => rw [hl] at h; exact h
  | some nd =>
    rw [hl] at h
    cases nd with
    | cmux b hi lo => exact ⟨hsub _ h.1, hsub _ h.2⟩
    | copy => exact hsub _ h
    | none => exact h

omit hval in
theorem foldl_pushOne (fuel : Nat) (lv : List Node) : ∀ (R' : List (Nat × Q)) (acc : Option (List (Nat × Q))) (R : List (Nat × Q)),
    R'.foldl (pushOne spec fuel lv) acc = some R →
    ∃ A, acc = some A ∧ (∀ x ∈ A, x ∈ R) ∧ ∀ p ∈ R', Served spec fuel lv R p := by
  intro R'
  induction R' with
  | nil => intro acc R h; exact ⟨R, h, fun x hx => hx, fun p hp => absurd hp (by simp)⟩
  | cons p rest ih =>
    intro acc R h
    simp only [List.foldl_cons] at h
    obtain ⟨A1, h1, hsub1, hserved⟩ := ih _ R h
    cases acc with
    | none => simp [pushOne] at h1
    | some A =>
      refine ⟨A, rfl, ?_, ?_⟩
      · intro x hx
        apply hsub1
        unfold pushOne at h1
        simp only at h1
        cases hl : lv[p.1]? with
        | none => rw [hl] at h1; cases h1
        | some nd =>
          rw [hl] at h1
          cases nd with
          | cmux b hi lo =>
            simp only [Option.some.injEq] at h1; subst h1
            exact mem_ins_of_mem _ _ _ (mem_ins_of_mem _ _ _ hx)
          | copy => simp only [Option.some.injEq] at h1; subst h1; exact mem_ins_of_mem _ _ _ hx
          | none => cases h1
      · intro x hx
        rcases List.mem_cons.1 hx with hx | hx
        · subst hx
          apply Served.mono spec fuel lv A1 R x hsub1
          unfold pushOne at h1
          simp only at h1
          unfold Served
          cases hl : lv[x.1]? with
          | none => rw [hl] at h1; cases h1
          | some nd =>
            rw [hl] at h1
            cases nd with
            | cmux b hi lo =>
              simp only [Option.some.injEq] at h1; subst h1
              exact ⟨mem_ins_self _ _, mem_ins_of_mem _ _ _ (mem_ins_self _ _)⟩
            | copy => simp only [Option.some.injEq] at h1; subst h1; exact mem_ins_self _ _
            | none => cases h1
        · exact hserved x hx

theorem pushdown_sound (fuel : Nat) (lv : List Node) (R' R : List (Nat × Q)) (st : List (Option Bool))
    (h : pushdown spec fuel lv R' = some R) (hag : Agree val st R) : Agree val (stepLevel inp st lv) R' := by
  obtain ⟨_, _, _, hserved⟩ := foldl_pushOne spec fuel lv R' _ R h
  intro p hp
  have hs := hserved p hp
  unfold Served at hs
  unfold stepLevel
  rw [List.getElem?_mapIdx]
  cases hl : lv[p.1]? with
  | none => rw [hl] at hs; exact hs.elim
  | some nd =>
    rw [hl] at hs
    cases nd with
    | cmux b hi lo =>
      have h1 := hag _ hs.1
      have h0 := hag _ hs.2
      simp only at h1 h0
      simp only [Option.map_some, stepNode, h1, h0]
      have := branch_sound spec inp val hval fuel p.2 b
      rw [← this]
      cases inp b <;> simp
    | copy =>
      have h1 := hag _ hs
      simp only [Option.map_some, stepNode, h1]
    | none => exact hs.elim

theorem relBelow_sound (fuel : Nat) (q0 : Q) : ∀ (levels : List (List Node)) (st : List (Option Bool)) (R : List (Nat × Q)),
    relBelow spec fuel q0 levels = some R → Agree val st R →
    (evalLevels inp st levels)[0]? = some (some (val q0)) := by
  intro levels
  induction levels with
  | nil =>
    intro st R h hag
    simp only [relBelow, Option.some.injEq] at h
    subst h
    exact hag (0, q0) (by simp)
  | cons lv rest ih =>
    intro st R h hag
    unfold relBelow at h
    cases hr : relBelow spec fuel q0 rest with
    | none => rw [hr] at h; cases h
    | some R' =>
      rw [hr] at h
      simp only [evalLevels]
      exact ih _ R' hr (pushdown_sound spec inp val hval fuel lv R' R st h hag)

theorem init_agree (fuel w : Nat) (R : List (Nat × Q)) (h : checkInit spec fuel w R = true) :
    Agree val (initState w) R := by
  intro p hp
  have := List.all_eq_true.1 h p hp
  simp only [Bool.and_eq_true, decide_eq_true_eq, beq_iff_eq] at this
  obtain ⟨hlt, hleaf⟩ := this
  have hv := leafVal_sound spec inp val hval fuel p.2 _ hleaf
  unfold initState
  rw [List.getElem?_map, List.getElem?_range hlt]
  simp [hv]

/-- **soundness of the checker**, for every assignment `inp` for which `val` unfolds along `spec` -/
theorem check_sound (fuel nIn w : Nat) (nodes : List Node) (q0 : Q)
    (h : checkFlat spec fuel nIn w nodes q0 = true) : evalFlat nIn w nodes inp = some (val q0) := by
  unfold checkFlat at h
  simp only [Bool.and_eq_true, decide_eq_true_eq] at h
  obtain ⟨⟨hw, hwf⟩, hrel⟩ := h
  unfold evalFlat
  rw [if_neg hw, if_pos hwf]
  unfold evalCircuit
  cases hr : relBelow spec fuel q0 (chunks w nodes) with
  | none => rw [hr] at hrel; cases hrel
  | some R =>
    rw [hr] at hrel
    rw [relBelow_sound spec inp val hval fuel q0 _ _ R hr (init_agree spec inp val hval fuel w R hrel)]

end sound

end BddSim
