/-
Key generation as encryption, part 9: the packed index of the tensor secret (`GLWESecretTensor::at(i, j)`, row-major upper triangle).
-/
import Poulpy.Lemmas.KeyWrap

namespace CoreEnc

/-- start of block `a` in a concatenation of blocks -/
def blockOff {α : Type} (f : Nat → List α) (a : Nat) : Nat := ((List.range a).map (fun i => (f i).length)).sum

theorem blockOff_succ {α : Type} (f : Nat → List α) (a : Nat) : blockOff f (a + 1) = blockOff f a + (f a).length := by
  simp [blockOff, List.range_succ]

theorem flatMap_length_blockOff {α : Type} (f : Nat → List α) (A : Nat) : ((List.range A).flatMap f).length = blockOff f A := by
  induction A with
  | zero => simp [blockOff]
  | succ A ih => rw [List.range_succ, List.flatMap_append, List.length_append, ih, blockOff_succ]; simp

theorem blockOff_mono {α : Type} (f : Nat → List α) (a A : Nat) (h : a < A) : blockOff f a + (f a).length ≤ blockOff f A := by
  induction A with
  | zero => omega
  | succ A ih =>
    rw [blockOff_succ]
    by_cases h' : a < A
    · have := ih h'; omega
    · have : a = A := by omega
      subst this; omega

theorem flatMap_block_get {α : Type} (f : Nat → List α) (A a q : Nat) (ha : a < A) (hq : q < (f a).length) :
    ((List.range A).flatMap f)[blockOff f a + q]? = (f a)[q]? := by
  induction A with
  | zero => omega
  | succ A ih =>
    rw [List.range_succ, List.flatMap_append]
    by_cases h : a < A
    · rw [List.getElem?_append_left (by rw [flatMap_length_blockOff]; have := blockOff_mono f a A h; omega)]
      exact ih h
    · have : a = A := by omega
      subst this
      rw [List.getElem?_append_right (by rw [flatMap_length_blockOff]; omega), flatMap_length_blockOff]
      simp

theorem half_succ (a : Nat) : (a + 1) * a / 2 = a * (a - 1) / 2 + a := by
  cases a with
  | zero => simp
  | succ k =>
    have : (k + 1 + 1) * (k + 1) = (k + 1) * (k + 1 - 1) + 2 * (k + 1) := by
      simp only [Nat.add_sub_cancel]; ring
    rw [this, Nat.add_mul_div_left _ _ (by norm_num : 0 < 2)]

theorem tensor_blockOff (r : Nat) : ∀ a, a ≤ r →
    blockOff (fun i => ((List.range r).drop i).map (fun j => (i, j))) a = a * r - a * (a - 1) / 2 ∧ a * (a - 1) / 2 ≤ a * r := by
  intro a
  induction a with
  | zero => intro _; simp [blockOff]
  | succ a ih =>
    intro h
    obtain ⟨i1, i2⟩ := ih (by omega)
    rw [blockOff_succ, i1]
    simp only [List.length_map, List.length_drop, List.length_range, Nat.add_sub_cancel]
    have hs := half_succ a
    have e1 : (a + 1) * r = a * r + r := by ring
    rw [hs, e1]
    constructor
    · omega
    · have : a * (a - 1) / 2 ≤ a * r := i2
      omega

/-- position of the pair `(a, c)`, `a ≤ c < r`, among the pairs of the tensor secret: `a·r + c − a(a+1)/2` -/
theorem tensorPairs_get (r a c : Nat) (hac : a ≤ c) (hc : c < r) :
    (tensorPairs r)[a * r + c - a * (a + 1) / 2]? = some (a, c) := by
  have hoff := tensor_blockOff r a (by omega)
  have hs := half_succ a
  have e : a * r + c - a * (a + 1) / 2 = blockOff (fun i => ((List.range r).drop i).map (fun j => (i, j))) a + (c - a) := by
    rw [hoff.1, Nat.mul_comm a (a + 1), hs]
    have := hoff.2
    omega
  unfold tensorPairs
  rw [e, flatMap_block_get _ r a (c - a) (by omega) (by simp; omega)]
  simp only [List.getElem?_map, List.getElem?_drop]
  rw [List.getElem?_range (by omega)]
  simp
  omega

open NormL Ks

section
variable {bits b n size kxe rank dnum dsize : Nat} {H E Hp : Int}

/-- the entry `at(i, j)` of the tensor secret: a scalar of `n` balanced coefficients; the exact product `s_i ⋆ s_j` when no coefficient of the
product reaches `2^16` (the secret tensor is normalised to ONE limb of radix `2^17`: larger coefficients are reduced modulo `2^17`) -/
theorem tensorAt_spec (hbits : bits = 64 ∨ bits = 128) (hr17 : HeadRoom bits 17 0 Hp) (hn : 0 < n)
    (sk : List Poly) (hskl : ∀ s ∈ sk, s.length = n) (hprod : ∀ i j, ∀ x ∈ Hal.negMul (sk.getD j []) (sk.getD i []), |x| ≤ Hp)
    (pts : List Poly) (h : Core.tensorSecret bits n sk = some pts) (i j : Nat) (hi : i < sk.length) (hj : j < sk.length) :
    ScalarOk n (Core.tensorAt sk.length pts i j) ∧
    ((∀ x ∈ Hal.negMul (sk.getD (max i j) []) (sk.getD (min i j) []), |x| < 2 ^ 16) →
      ι n (Core.tensorAt sk.length pts i j) = ι n (sk.getD i []) * ι n (sk.getD j [])) := by
  obtain ⟨_, hg⟩ := tensorSecret_entries hbits hr17 sk hprod pts h
  have hget := tensorPairs_get sk.length (min i j) (max i j) (by omega) (by omega)
  obtain ⟨h1, h2⟩ := hg _ _ hget
  unfold Core.tensorAt
  simp only
  refine ⟨h1, ?_⟩
  intro hsmall
  have hmem : ∀ k, k < sk.length → (sk.getD k []).length = n := by
    intro k hk
    rw [List.getD_eq_getElem?_getD, List.getElem?_eq_getElem hk]
    exact hskl _ (List.getElem_mem _)
  rw [h2 hsmall (by rw [Hal.negMul_length]; exact hmem _ (by omega)), ι_negMul n _ _ (hmem _ (by omega)) hn]
  rcases Nat.le_total i j with hij | hij
  · rw [Nat.min_eq_left hij, Nat.max_eq_right hij]; ring
  · rw [Nat.min_eq_right hij, Nat.max_eq_left hij]

/-- **`glwe_tensor_key_encrypt_sk`**: well formed with `s_in = ` the entries of the tensor secret (pair `(a, c)`, `a ≤ c`, at input column
`a·rank + c − a(a+1)/2`), under `sk` — `hkey` of `C05.relin_decrypts` / `glwe_mul_decrypts` -/
theorem glweTensorKey_wellformed (c : KeyCtx bits b n size kxe rank H E) (hd : 1 ≤ dsize) (hr17 : HeadRoom bits 17 0 Hp)
    (tmp0 : Col) (htl : tmp0.length = size) (htw : WF n tmp0)
    (sk : List Poly) (hsk : ∀ s ∈ sk, s.length = n ∧ norm1 s * 2 ^ (b - 1) ≤ H)
    (hprod : ∀ i j, ∀ x ∈ Hal.negMul (sk.getD j []) (sk.getD i []), |x| ≤ Hp)
    (xa : List Nat) (es : List Poly) (hes : ErrOk n E es ((tensorPairs sk.length).length * dnum))
    (cells : List (Nat × List Col)) (xa' : List Nat) (es' : List Poly)
    (h : Core.glweTensorKeyEncryptSk tmp0 bits b n size kxe rank dnum dsize sk xa es = some (cells, xa', es')) :
    ∃ pts, Core.tensorSecret bits n sk = some pts ∧ pts.length = (tensorPairs sk.length).length ∧ es' = es.drop (pts.length * dnum) ∧
      KeyWellFormed n b dsize size kxe dnum pts.length (Core.keyMat n dnum pts.length (rank + 1) size cells) sk
        (fun i => ι n (pts.getD i [])) (fun i r => es.getD (i * dnum + r) []) ∧
      ∀ a c', a ≤ c' → c' < sk.length → (∀ x ∈ Hal.negMul (sk.getD c' []) (sk.getD a []), |x| < 2 ^ 16) →
        ι n (pts.getD (a * sk.length + c' - a * (a + 1) / 2) []) = ι n (sk.getD a []) * ι n (sk.getD c' []) := by
  unfold Core.glweTensorKeyEncryptSk at h
  cases ht : Core.tensorSecret bits n sk with
  | none => simp [ht] at h
  | some pts =>
    simp only [ht] at h
    obtain ⟨hl, hg⟩ := tensorSecret_entries c.hbits hr17 sk hprod pts ht
    have hpts : ∀ i, i < pts.length → ScalarOk n (pts.getD i []) := by
      intro i hi
      have : i < (tensorPairs sk.length).length := by omega
      exact (hg i _ (List.getElem?_eq_getElem this)).1
    obtain ⟨h1, h2⟩ := gglweEncryptSk_wellformed c hd tmp0 htl htw sk (fun s hs => (hsk s hs).2) pts hpts xa es
      (by rw [hl]; exact hes) cells xa' es' h
    refine ⟨pts, rfl, hl, h1, h2, ?_⟩
    intro a c' hac hc' hsmall
    have := (tensorAt_spec c.hbits hr17 c.hn sk (fun s hs => (hsk s hs).1) hprod pts ht a c' (by omega) hc').2
    unfold Core.tensorAt at this
    simp only [Nat.min_eq_left hac, Nat.max_eq_right hac] at this
    exact this hsmall

/-- **`gglwe_to_ggsw_key_encrypt_sk`**: sub-key `i` is well formed with `s_in_j = at(i, j)` (`= s_i ⋆ s_j` when exact) under `sk`, errors
`i·rank·dnum …` of the running error source — `hkey` of `C03.ggsw_cells_value` / `ggsw_keyswitch_cells_value` (`σ_j = ι s_j`) -/
theorem g2gStdLoop_wellformed (c : KeyCtx bits b n size kxe rank H E) (hd : 1 ≤ dsize) (hr17 : HeadRoom bits 17 0 Hp)
    (tmp0 : Col) (htl : tmp0.length = size) (htw : WF n tmp0)
    (sk : List Poly) (hskr : sk.length = rank) (hsk : ∀ s ∈ sk, s.length = n ∧ norm1 s * 2 ^ (b - 1) ≤ H)
    (hprod : ∀ i j, ∀ x ∈ Hal.negMul (sk.getD j []) (sk.getD i []), |x| ≤ Hp)
    (pts : List Poly) (ht : Core.tensorSecret bits n sk = some pts) :
    ∀ (is : List Nat) (his : ∀ i ∈ is, i < rank) (xa : List Nat) (es : List Poly) (hes : ErrOk n E es (is.length * (rank * dnum)))
      (out : List (List (Nat × List Col))) (xa' : List Nat) (es' : List Poly),
      Core.g2gStdLoop tmp0 bits b n size kxe rank dnum dsize sk pts is xa es = some (out, xa', es') →
      out.length = is.length ∧ es' = es.drop (is.length * (rank * dnum)) ∧
      ∀ (k i : Nat), is[k]? = some i → ∃ cells, out[k]? = some cells ∧
        KeyWellFormed n b dsize size kxe dnum rank (Core.keyMat n dnum rank (rank + 1) size cells) sk
          (fun j => ι n (Core.tensorAt rank pts i j)) (fun j r => es.getD (k * (rank * dnum) + (j * dnum + r)) []) := by
  intro is
  induction is with
  | nil =>
    intro _ xa es _ out xa' es' h
    simp only [Core.g2gStdLoop, Option.some.injEq, Prod.mk.injEq] at h
    obtain ⟨rfl, _, rfl⟩ := h
    simp
  | cons i0 rest ih =>
    intro his xa es hes out xa' es' h
    unfold Core.g2gStdLoop at h
    cases hg : Core.gglweEncryptSkT tmp0 bits b n size kxe rank rank dnum dsize ((List.range rank).map (Core.tensorAt rank pts i0)) sk xa es with
    | none => simp [hg] at h
    | some q =>
      obtain ⟨cells, xa1, es1⟩ := q
      simp only [hg] at h
      cases hrr : Core.g2gStdLoop tmp0 bits b n size kxe rank dnum dsize sk pts rest xa1 es1 with
      | none => simp [hrr] at h
      | some q2 =>
        obtain ⟨out2, xa2, es2⟩ := q2
        simp only [hrr, Option.some.injEq, Prod.mk.injEq] at h
        obtain ⟨rfl, rfl, rfl⟩ := h
        have hi0 : i0 < rank := his i0 (by simp)
        have hpt : ∀ j, j < rank → ScalarOk n (((List.range rank).map (Core.tensorAt rank pts i0)).getD j []) := by
          intro j hj
          rw [List.getD_eq_getElem?_getD, List.getElem?_map, List.getElem?_range hj]
          simp only [Option.map_some, Option.getD_some]
          have := (tensorAt_spec c.hbits hr17 c.hn sk (fun s hs => (hsk s hs).1) hprod pts ht i0 j (by omega) (by omega)).1
          rwa [hskr] at this
        obtain ⟨hd1, hw1⟩ := gglweEncryptSk_wellformed c hd tmp0 htl htw sk (fun s hs => (hsk s hs).2) _ hpt xa es
          (fun k hk => hes k (by simp only [List.length_cons]; rw [Nat.succ_mul]; omega)) cells xa1 es1 hg
        obtain ⟨i1, i2, i3⟩ := ih (fun i hi => his i (by simp [hi])) xa1 es1 (by
          intro k hk
          rw [hd1]
          have := hes (rank * dnum + k) (by simp only [List.length_cons]; rw [Nat.succ_mul]; omega)
          simpa [List.getD_eq_getElem?_getD, List.getElem?_drop] using this) out2 xa2 es2 hrr
        refine ⟨by simp [i1], ?_, ?_⟩
        · rw [i2, hd1, List.drop_drop]; congr 1; simp only [List.length_cons]; rw [Nat.succ_mul]; omega
        · intro k i hk
          cases k with
          | zero =>
            simp only [List.getElem?_cons_zero, Option.some.injEq] at hk
            subst hk
            refine ⟨cells, by simp, ?_⟩
            have e : ∀ j, j < rank → ι n (((List.range rank).map (Core.tensorAt rank pts i0)).getD j []) = ι n (Core.tensorAt rank pts i0 j) := by
              intro j hj
              rw [List.getD_eq_getElem?_getD, List.getElem?_map, List.getElem?_range hj]; rfl
            obtain ⟨w1, w2, w3, w4, w5, w6, KL, w7, w8⟩ := hw1
            refine ⟨w1, w2, w3, w4, w5, w6, KL, w7, ?_⟩
            intro j hj r hr'
            have := w8 j hj r hr'
            simp only at this
            rw [e j (by simpa [Core.keyMat] using hj)] at this
            simpa using this
          | succ k' =>
            simp only [List.getElem?_cons_succ] at hk
            obtain ⟨cs, h1, h2⟩ := i3 k' i hk
            refine ⟨cs, by simpa using h1, ?_⟩
            have e : ∀ (jj r : Nat), es1.getD (k' * (rank * dnum) + (jj * dnum + r)) []
                = es.getD ((k' + 1) * (rank * dnum) + (jj * dnum + r)) [] := by
              intro jj r
              rw [hd1]
              simp only [List.getD_eq_getElem?_getD, List.getElem?_drop]
              congr 2
              rw [Nat.succ_mul]; omega
            simpa only [e] using h2

end

end CoreEnc
