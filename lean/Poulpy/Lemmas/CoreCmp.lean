/-
Helper lemmas for C19 / C06: the masks drawn inside the encryption loop are what `drawMasks`
regenerates; output sizes.
-/
import Poulpy.Lemmas.CoreEncDec
import Poulpy.Model.Core.EncMat

namespace CoreEnc

/-- the masks drawn inside the encryption loop are exactly what `decompress_glwe` regenerates from
the same stream: same column order, same limb order, same number of words consumed -/
theorem loop_masks_eq_drawMasks (bits b n size : Nat) (pt : Option (Col × Nat)) :
    ∀ (rank : Nat) (sk : List Poly) (i : Nat) (xa : List Nat) (c0 c' : Col) (ms : List Col) (xa' : List Nat),
      Core.encSkLoopS bits b n size pt i sk rank xa c0 = some (c', ms, xa') →
      Core.drawMasks b n size rank xa = some (ms, xa') := by
  intro rank
  induction rank with
  | zero =>
    intro sk i xa c0 c' ms xa' h
    simp [Core.encSkLoopS] at h
    simp [Core.drawMasks, h.2.1, h.2.2]
  | succ r ih =>
    intro sk i xa c0 c' ms xa' h
    cases sk with
    | nil => simp [Core.encSkLoopS] at h
    | cons s ss =>
      unfold Core.encSkLoopS at h
      cases hf : Sampling.vecFillUniform b n size xa with
      | none => simp [hf] at h
      | some p =>
        obtain ⟨a, xa1⟩ := p
        simp only [hf] at h
        cases hs : Core.encSkStep bits b n size pt i a s c0 with
        | none => simp [hs] at h
        | some c1 =>
          simp only [hs] at h
          cases hr : Core.encSkLoopS bits b n size pt (i + 1) ss r xa1 c1 with
          | none => simp [hr] at h
          | some q =>
            obtain ⟨c2, ms', xa2⟩ := q
            simp only [hr, Option.some.injEq, Prod.mk.injEq] at h
            obtain ⟨_, rfl, rfl⟩ := h
            have := ih ss (i + 1) xa1 c1 c2 ms' xa2 hr
            simp [Core.drawMasks, hf, this]

theorem normalizeCol_length {rb rs n ab : Nat} {off : Int} {a out : Col} (h : normalizeCol? rb rs off a ab n = some out) :
    out.length = rs := (mapCoefs?_inv n rs _ out h).1

/-- the body of a cell has the ciphertext's number of limbs -/
theorem stream_body_length {bits b n size kxe rank : Nat} {pt : Option (Col × Nat)} {sk : List Poly} {xa : List Nat} {e : Poly}
    {body : Col} {ms : List Col} {xa' : List Nat}
    (h : Core.encryptSkStream bits b n size kxe rank pt sk xa e = some (body, ms, xa')) : body.length = size := by
  unfold Core.encryptSkStream at h
  cases hl : Core.encSkLoopS bits b n size pt 1 sk rank xa (Core.zeroCol n size) with
  | none => simp [hl] at h
  | some q =>
    obtain ⟨c0, ms0, xa0⟩ := q
    simp only [hl] at h
    cases hf : Core.encSkFinish b n size kxe pt e c0 with
    | none => simp [hf] at h
    | some bd =>
      simp only [hf, Option.some.injEq, Prod.mk.injEq] at h
      obtain ⟨rfl, _, _⟩ := h
      unfold Core.encSkFinish at hf
      cases ha : Sampling.addNormalCol w64 kxe b c0 e with
      | none => simp [ha] at hf
      | some c1 => simp only [ha] at hf; exact normalizeCol_length hf

end CoreEnc
