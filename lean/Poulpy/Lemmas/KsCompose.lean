import Poulpy.Model.Core.Ks
import Poulpy.Model.Core.KsMat
import Poulpy.Model.Core.KsGgsw
import Poulpy.Lemmas.PackPhase

/-!
Matrix-level and fused operations of the key-switching family as compositions of the GLWE forms:

* structural theorems (all shapes, no hypothesis beyond success of the call): which GLWE-level call produces which
  ciphertext of the result (`gglwe_keyswitch`, `glwe_automorphism_key_automorphism`, `ggsw_keyswitch`,
  `ggsw_automorphism`, the `_assign` forms, `glwe_automorphism`, the fused `glwe_automorphism_{add,sub,sub_negate}`);
* phase theorems **with an explicit additive error term**, over an abstract additive group `M` of phases, under the
  GLWE-level contract "`glwe_keyswitch` maps the phase under the old key to the phase under the new key plus
  `err`" — the contract that `C03.keyswitch_value` / `keyswitch_executed_noise_bound` (product) together with C08
  (the radix conversions and the final normalisation) establish for the executed `Ks.keyswitch`; the automorphism
  contracts are `C03.automorphism_phase_key`, the row-expansion contract is `C04.row_expansion_identity`.
-/

namespace Ks
open Hal Core

theorem oall_ok {α : Type} : ∀ (l : List (Outcome α)) (vs : List α), oall l = .ok vs →
    vs.length = l.length ∧ ∀ (i : Nat) (v : α), vs[i]? = some v → l[i]? = some (Outcome.ok v)
  | [], vs, h => by
    simp only [oall] at h; injection h with h; subst h; simp
  | x :: xs, vs, h => by
    simp only [oall] at h
    obtain ⟨v, hx, h⟩ := obind_ok h
    obtain ⟨ws, hxs, h⟩ := obind_ok h
    injection h with h; subst h
    obtain ⟨hl, hi⟩ := oall_ok xs ws hxs
    refine ⟨by simp [hl], ?_⟩
    intro i u hu
    cases i with
    | zero => simp at hu; subst hu; simp [hx]
    | succ k => simp at hu ⊢; exact hi k u hu

/-! ### `gglwe_keyswitch` -/

/-- **`gglwe_keyswitch` is the row-wise `glwe_keyswitch`**: ciphertext `idx = row·rank_in + col` of the result is the
key-switch of ciphertext `idx` of the operand, for the `res.dnum × rank_in` ciphertexts of the result -/
theorem gglweKeyswitch_rows (big128 : Bool) (rb rs rri rro rd rds : Nat) (a : Mat) (b : Key) (cts : List Ct)
    (h : gglweKeyswitch big128 rb rs rri rro rd rds a b = .ok cts) :
    cts.length = rd * rri ∧ ∀ (idx : Nat) (y : Ct), cts[idx]? = some y → ∃ x, a.cts[idx]? = some x ∧ keyswitch big128 rb rs rro x b = .ok y := by
  unfold gglweKeyswitch at h
  split at h; · cases h
  split at h; · cases h
  split at h; · cases h
  split at h; · cases h
  split at h; · cases h
  split at h; · cases h
  obtain ⟨hl, hi⟩ := oall_ok _ _ h
  refine ⟨by simpa using hl, ?_⟩
  intro idx y hy
  have := hi idx y hy
  have hidx : idx < rd * rri := by
    have := (List.getElem?_eq_some_iff.mp hy).1; rw [hl] at this; simpa using this
  simp only [List.getElem?_map, List.getElem?_range hidx, Option.map_some] at this
  cases hx : a.cts[idx]? with
  | none => simp [hx] at this
  | some x => simp [hx] at this; exact ⟨x, rfl, this⟩

theorem gglweKeyswitchAssign_rows (big128 : Bool) (res : Mat) (b : Key) (cts : List Ct)
    (h : gglweKeyswitchAssign big128 res b = .ok cts) :
    cts.length = res.cts.length ∧
      ∀ (idx : Nat) (y : Ct), cts[idx]? = some y → ∃ x, res.cts[idx]? = some x ∧ keyswitch big128 x.base2k x.size x.rank x b = .ok y := by
  unfold gglweKeyswitchAssign at h
  split at h; · cases h
  obtain ⟨hl, hi⟩ := oall_ok _ _ h
  refine ⟨by simpa using hl, ?_⟩
  intro idx y hy
  have := hi idx y hy
  simp only [List.getElem?_map] at this
  cases hx : res.cts[idx]? with
  | none => simp [hx] at this
  | some x => simp [hx] at this; exact ⟨x, rfl, this⟩

variable {M : Type*} [AddCommGroup M]

/-- **`gglwe_keyswitch` preserves every row's plaintext**: under the GLWE-level contract `phOut (KS x) = phIn x + err x`,
row `r`, input column `i` of the result decrypts under the new key to what row `r`, column `i` of the operand decrypts to
under the old key (`s_i·2^{−(r+1)·dsize·b}` for a switching key) plus the explicit error `err` of that row's key-switch -/
theorem gglwe_keyswitch_phase (big128 : Bool) (rb rs rri rro rd rds : Nat) (a : Mat) (b : Key) (cts : List Ct)
    (phIn phOut err : Ct → M)
    (hks : ∀ x y, keyswitch big128 rb rs rro x b = .ok y → phOut y = phIn x + err x)
    (h : gglweKeyswitch big128 rb rs rri rro rd rds a b = .ok cts) :
    ∀ (idx : Nat) (y : Ct), cts[idx]? = some y → ∃ x, a.cts[idx]? = some x ∧ phOut y = phIn x + err x := by
  intro idx y hy
  obtain ⟨x, hx, hk⟩ := (gglweKeyswitch_rows big128 rb rs rri rro rd rds a b cts h).2 idx y hy
  exact ⟨x, hx, hks x y hk⟩

/-! ### `glwe_automorphism` and `glwe_automorphism_key_automorphism` -/

/-- `glwe_automorphism = vec_znx_automorphism(p) ∘ glwe_keyswitch` -/
theorem automorphism_is_ks_then_sigma (big128 : Bool) (rb rs rr : Nat) (a : Ct) (key : Key) (y : Ct)
    (h : automorphism big128 rb rs rr a key = .ok y) :
    ∃ r, keyswitch big128 rb rs rr a key = .ok r ∧ y = ctMapCols r (vecAutomorphismAssignW w64 key.p) := by
  unfold automorphism at h
  obtain ⟨r, hr, h⟩ := obind_ok h
  injection h with h
  exact ⟨r, hr, h.symm⟩

/-- **automorphism gives `σ_p` of the phase, with the key-switch error transported**: contracts `phMid (KS x) = phIn x + err x`
(key-switch to `σ_{p⁻¹}(s)`) and `phOut (σ_p-columns r) = sg (phMid r)` (`C03.automorphism_phase_key`) give
`phOut (automorphism x) = sg (phIn x) + sg (err x)` -/
theorem automorphism_phase_err (big128 : Bool) (rb rs rr : Nat) (a : Ct) (key : Key) (y : Ct)
    (phIn phMid phOut err : Ct → M) (sg : M →+ M)
    (hks : ∀ x r, keyswitch big128 rb rs rr x key = .ok r → phMid r = phIn x + err x)
    (hsig : ∀ r, phOut (ctMapCols r (vecAutomorphismAssignW w64 key.p)) = sg (phMid r))
    (h : automorphism big128 rb rs rr a key = .ok y) : phOut y = sg (phIn a) + sg (err a) := by
  obtain ⟨r, hr, rfl⟩ := automorphism_is_ks_then_sigma big128 rb rs rr a key y h
  rw [hsig, hks a r hr, map_add]

/-- one ciphertext of `glwe_automorphism_key_automorphism`: `σ_{p⁻¹} ∘ KS ∘ σ_p` -/
theorem atkAutoCt_steps (big128 : Bool) (rb rs : Nat) (p pInv : Int) (x : Ct) (key : Key) (y : Ct)
    (h : atkAutoCt big128 rb rs p pInv x key = .ok y) :
    ∃ r, keyswitch big128 rb rs key.rankOut
        { x with cols := (List.range (key.rankOut + 1)).map (fun i => vecAutomorphism p x.n x.size (x.cols.getD i [])) } key = .ok r ∧
      y = ctMapCols r (vecAutomorphismAssignW w64 pInv) := by
  unfold atkAutoCt at h
  obtain ⟨r, hr, h⟩ := obind_ok h
  injection h with h
  exact ⟨r, hr, h.symm⟩

/-- **`glwe_automorphism_key_automorphism` keeps every row's plaintext**: with `sg`/`sgInv` the phase maps of `σ_p`/`σ_{p⁻¹}`
(`sgInv ∘ sg = id`), contracts for the three steps give `phOut y = phA x + sgInv (err (σ_p x))`: the row still encrypts
`s_i·2^{−(r+1)·dsize·b}`, now under `σ_{(pq)⁻¹}(s)`, with the key-switch error conjugated by `σ_{p⁻¹}` (norm preserving) -/
theorem atk_automorphism_phase (big128 : Bool) (rb rs : Nat) (p pInv : Int) (x : Ct) (key : Key) (y : Ct)
    (phA phS phQ phOut err : Ct → M) (sg sgInv : M →+ M) (hinv : ∀ m, sgInv (sg m) = m)
    (hpre : phS { x with cols := (List.range (key.rankOut + 1)).map (fun i => vecAutomorphism p x.n x.size (x.cols.getD i [])) } = sg (phA x))
    (hks : ∀ t r, keyswitch big128 rb rs key.rankOut t key = .ok r → phQ r = phS t + err t)
    (hpost : ∀ r, phOut (ctMapCols r (vecAutomorphismAssignW w64 pInv)) = sgInv (phQ r))
    (h : atkAutoCt big128 rb rs p pInv x key = .ok y) :
    phOut y = phA x + sgInv (err { x with cols := (List.range (key.rankOut + 1)).map (fun i => vecAutomorphism p x.n x.size (x.cols.getD i [])) }) := by
  obtain ⟨r, hr, rfl⟩ := atkAutoCt_steps big128 rb rs p pInv x key y h
  rw [hpost, hks _ r hr, hpre, map_add, hinv]

theorem atkAutomorphism_rows (big128 : Bool) (n rb rs rd rds : Nat) (pA : Int) (a : Mat) (key : Key) (pr : Int) (cts : List Ct)
    (h : atkAutomorphism big128 n rb rs rd rds pA a key = .ok (pr, cts)) :
    pr = mulGalois pA key.p n ∧ cts.length = rd * key.rankIn ∧
      ∃ pInv, galoisElementInv pA (cyclotomicOrder n) = .ok pInv ∧
        ∀ (idx : Nat) (y : Ct), cts[idx]? = some y → ∃ x, a.cts[idx]? = some x ∧ atkAutoCt big128 rb rs pA pInv x key = .ok y := by
  unfold atkAutomorphism at h
  split at h; · cases h
  split at h; · cases h
  split at h; · cases h
  obtain ⟨pInv, hp, h⟩ := obind_ok h
  obtain ⟨cs, hcs, h⟩ := obind_ok h
  injection h with h
  injection h with h1 h2
  subst h2
  obtain ⟨hl, hi⟩ := oall_ok _ _ hcs
  refine ⟨h1.symm, by simpa using hl, pInv, hp, ?_⟩
  intro idx y hy
  have := hi idx y hy
  have hidx : idx < rd * key.rankIn := by
    have := (List.getElem?_eq_some_iff.mp hy).1; rw [hl] at this; simpa using this
  simp only [List.getElem?_map, List.getElem?_range hidx, Option.map_some] at this
  cases hx : a.cts[idx]? with
  | none => simp [hx] at this
  | some x => simp [hx] at this; exact ⟨x, rfl, this⟩

/-! ### GGSW forms: per-row GLWE form on column 0, then row expansion -/

/-- `ggsw_expand_row` on every row: the result is, row by row, the column-0 cell followed by its expansion -/
theorem expandRows_cells (big128 : Bool) (n rb rs : Nat) (col0 : List Ct) (t : ToGGSWKey) (cells : List (List Col))
    (h : expandRows big128 n rb rs col0 t = .ok cells) :
    ∃ rows : List (List (List Col)), cells = rows.flatten ∧ rows.length = col0.length ∧
      ∀ (r : Nat) (row : List (List Col)), rows[r]? = some row → ∃ (c : Ct) (rest : List (List Col)), col0[r]? = some c ∧ expandRow big128 n rb rs c.cols t = some rest ∧ row = c.cols :: rest := by
  unfold expandRows at h
  obtain ⟨rows, hrows, h⟩ := obind_ok h
  injection h with h
  obtain ⟨hl, hi⟩ := oall_ok _ _ hrows
  refine ⟨rows, h.symm, by simpa using hl, ?_⟩
  intro r row hrow
  have := hi r row hrow
  simp only [List.getElem?_map] at this
  cases hc : col0[r]? with
  | none => simp [hc] at this
  | some c =>
    simp only [hc, Option.map_some, Option.some.injEq] at this
    cases he : expandRow big128 n rb rs c.cols t with
    | none => simp [he, ofOpt] at this
    | some rest =>
      simp only [he, Option.map_some, ofOpt] at this
      injection this with this
      exact ⟨c, rest, rfl, he, this.symm⟩

/-- `ggsw_keyswitch`: column 0 of row `r` is `glwe_keyswitch` of column 0 of row `r` of the operand (rows `< res.dnum`),
then all rows are expanded -/
theorem ggswKeyswitch_steps (big128 : Bool) (n rb rs rd rds ab ads : Nat) (aCol0 : List Ct) (key : Key) (t : ToGGSWKey)
    (cells : List (List Col)) (h : ggswKeyswitch big128 n rb rs rd rds ab ads aCol0 key t = .ok cells) :
    ∃ col0 : List Ct, col0.length = rd ∧
      (∀ (r : Nat) (y : Ct), col0[r]? = some y → ∃ x, aCol0[r]? = some x ∧ keyswitch big128 rb rs key.rankOut x key = .ok y) ∧
      expandRows big128 n rb rs col0 t = .ok cells := by
  unfold ggswKeyswitch at h
  split at h; · cases h
  split at h; · cases h
  split at h; · cases h
  obtain ⟨col0, hc, h⟩ := obind_ok h
  obtain ⟨hl, hi⟩ := oall_ok _ _ hc
  refine ⟨col0, by simpa using hl, ?_, h⟩
  intro r y hy
  have := hi r y hy
  have hr : r < rd := by
    have := (List.getElem?_eq_some_iff.mp hy).1; rw [hl] at this; simpa using this
  simp only [List.getElem?_map, List.getElem?_range hr, Option.map_some] at this
  cases hx : aCol0[r]? with
  | none => simp [hx] at this
  | some x => simp [hx] at this; exact ⟨x, rfl, this⟩

theorem ggswAutomorphism_steps (big128 : Bool) (n rb rs rd rds ab ads : Nat) (aCol0 : List Ct) (key : Key) (t : ToGGSWKey)
    (cells : List (List Col)) (h : ggswAutomorphism big128 n rb rs rd rds ab ads aCol0 key t = .ok cells) :
    ∃ col0 : List Ct, col0.length = rd ∧
      (∀ (r : Nat) (y : Ct), col0[r]? = some y → ∃ x, aCol0[r]? = some x ∧ automorphism big128 rb rs key.rankOut x key = .ok y) ∧
      expandRows big128 n rb rs col0 t = .ok cells := by
  unfold ggswAutomorphism at h
  split at h; · cases h
  split at h; · cases h
  split at h; · cases h
  obtain ⟨col0, hc, h⟩ := obind_ok h
  obtain ⟨hl, hi⟩ := oall_ok _ _ hc
  refine ⟨col0, by simpa using hl, ?_, h⟩
  intro r y hy
  have := hi r y hy
  have hr : r < rd := by
    have := (List.getElem?_eq_some_iff.mp hy).1; rw [hl] at this; simpa using this
  simp only [List.getElem?_map, List.getElem?_range hr, Option.map_some] at this
  cases hx : aCol0[r]? with
  | none => simp [hx] at this
  | some x => simp [hx] at this; exact ⟨x, rfl, this⟩

/-- **GGSW key-switch / automorphism, cell by cell**: `step` is the GLWE form applied to column 0 (`glwe_keyswitch` or
`glwe_automorphism`); contracts: `phOut (step x) = img (phIn x) + err x` (`img = id` for the key-switch, `σ_p` for the
automorphism) and the row-expansion contract `phCell col (expandRow c)[col] = mulS col (phOut c) + eExp c col` (cell of column
`col+1`: `s_col ⋆ (phase of column 0) + Σ_j a_j ⋆ e_j`, `C04.row_expansion_identity`).  Then cell `(r, 0)` has phase
`img (phIn a_r) + err a_r` and cell `(r, col+1)` has phase `s_col ⋆ (img (phIn a_r) + err a_r) + eExp`: every cell of the result
encrypts the same `m2'` at its gadget position, with explicit error. -/
theorem ggsw_cells_phase (big128 : Bool) (n rb rs : Nat) (aCol0 col0 : List Ct) (t : ToGGSWKey) (cells : List (List Col))
    (step : Ct → Outcome Ct)
    (phIn phOut err : Ct → M) (img : M → M) (phCell : Nat → List Col → M) (mulS : Nat → M → M) (eExp : Ct → Nat → M)
    (hcol0 : ∀ (r : Nat) (y : Ct), col0[r]? = some y → ∃ x, aCol0[r]? = some x ∧ step x = .ok y)
    (hstep : ∀ x y, step x = .ok y → phOut y = img (phIn x) + err x)
    (hexp : ∀ (c : Ct) (rest : List (List Col)) (col : Nat) (cell : List Col), expandRow big128 n rb rs c.cols t = some rest → rest[col]? = some cell →
      phCell col cell = mulS col (phOut c) + eExp c col)
    (h : expandRows big128 n rb rs col0 t = .ok cells) :
    ∃ rows : List (List (List Col)), cells = rows.flatten ∧ rows.length = col0.length ∧
      ∀ (r : Nat) (row : List (List Col)), rows[r]? = some row → ∃ (x c : Ct) (rest : List (List Col)), aCol0[r]? = some x ∧ row = c.cols :: rest ∧
        phOut c = img (phIn x) + err x ∧
        ∀ (col : Nat) (cell : List Col), rest[col]? = some cell → phCell col cell = mulS col (img (phIn x) + err x) + eExp c col := by
  obtain ⟨rows, hflat, hlen, hrows⟩ := expandRows_cells big128 n rb rs col0 t cells h
  refine ⟨rows, hflat, hlen, ?_⟩
  intro r row hrow
  obtain ⟨c, rest, hc, he, hr⟩ := hrows r row hrow
  obtain ⟨x, hx, hs⟩ := hcol0 r c hc
  have hp := hstep x c hs
  refine ⟨x, c, rest, hx, hr, hp, ?_⟩
  intro col cell hcell
  rw [hexp c rest col cell he hcell, hp]

/-! ### fused `glwe_automorphism_{add,sub,sub_negate}` -/

/-- the data flow of the fused forms: convert, key-switch into the accumulator, then per column
`σ_p` of the accumulator, `± a_conv`, normalise -/
theorem automorphismFused_steps (f : Fused) (big128 : Bool) (dft0 : Buf) (rb rs rr : Nat) (a : Ct) (key : Key) (y : Ct)
    (h : automorphismFused f big128 dft0 rb rs rr a key = .ok y) :
    ∃ aConv resBig, convIn a key = .ok aConv ∧ keyswitchInternal big128 dft0 aConv key = .ok resBig ∧
      y.base2k = rb ∧ y.cols.length = rr + 1 ∧
      ∀ (i : Nat) (c : Col), y.cols[i]? = some c →
        bigNormalize big128 rb rs (f.apply big128 (bigAutomorphismAssign big128 key.p (resBig.act i)) (aConv.cols.getD i []))
          key.base2k resBig.n = .ok c := by
  unfold automorphismFused at h
  split at h; · cases h
  obtain ⟨aConv, hconv, h⟩ := obind_ok h
  obtain ⟨resBig, hks, h⟩ := obind_ok h
  obtain ⟨cs, hcs, h⟩ := obind_ok h
  injection h with h
  subst h
  obtain ⟨hl, hi⟩ := oall_ok _ _ hcs
  refine ⟨aConv, resBig, hconv, hks, rfl, by simpa [mkCt] using hl, ?_⟩
  intro i c hc
  have hc' : cs[i]? = some c := hc
  have := hi i c hc'
  have hidx : i < rr + 1 := by
    have := (List.getElem?_eq_some_iff.mp hc').1; rw [hl] at this; simpa using this
  simpa only [List.getElem?_map, List.getElem?_range hidx, Option.map_some, Option.some.injEq] using this

/-- **fused forms on the phases**: with the contracts `phBig (KS-internal a_conv) = phIn a_conv + err a_conv` (accumulator,
under `σ_{p⁻¹}(s)`), and `phOut y = sg (phBig resBig) ⊕ phIn' a_conv + rnd` for the column pipeline (`⊕` = `+`, `−`, reversed `−`),
the result decrypts to `σ_p(φ + err) ± φ` plus the rounding term — stated for the three forms at once through `comb`. -/
theorem automorphism_fused_phase (f : Fused) (big128 : Bool) (dft0 : Buf) (rb rs rr : Nat) (a : Ct) (key : Key) (y : Ct)
    (phIn : Ct → M) (phBig : Buf → M) (phOut : Ct → M) (err rnd : Ct → M) (sg : M →+ M) (comb : M → M → M)
    (hks : ∀ x r, keyswitchInternal big128 dft0 x key = .ok r → phBig r = phIn x + err x)
    (hpipe : ∀ x r, convIn a key = .ok x → keyswitchInternal big128 dft0 x key = .ok r →
      phOut y = comb (sg (phBig r)) (phIn x) + rnd x)
    (h : automorphismFused f big128 dft0 rb rs rr a key = .ok y) :
    ∃ aConv, convIn a key = .ok aConv ∧ phOut y = comb (sg (phIn aConv) + sg (err aConv)) (phIn aConv) + rnd aConv := by
  obtain ⟨aConv, resBig, hconv, hk, _⟩ := automorphismFused_steps f big128 dft0 rb rs rr a key y h
  refine ⟨aConv, hconv, ?_⟩
  rw [hpipe aConv resBig hconv hk, hks aConv resBig hk, map_add]

end Ks
