import Poulpy.Lemmas.CkksCnv
import Poulpy.Lemmas.CkksMask
import Poulpy.Lemmas.MulTensor
import Poulpy.Lemmas.CkksAccBound
import Poulpy.Props.C05
/-!
# C16, piece 5 (first half): the tensor columns of `glwe_tensor_apply` on coefficients

`glwe_tensor_apply` computes every convolution into an accumulator **truncated** to
`normalize_input_limb_bound_with_offset(a_size + b_size − hi, res_size, …)` limbs, then normalises it.
`cnvTrunc_coeff`: one such column against the exact negacyclic product, with the truncation error explicit
(`2·H₁` units of the result's last limb for accumulator entries within `2^b·H₁`, as soon as the kept limbs cover the result).
-/

namespace Ckks.Tensor
open Hal Core Core.Ops C02L KsDec Ks Ckks.MulPt

/-- geometric bound: limbs within `H`, value within `H·(2^(b·len) − 1)/(2^b − 1)` -/
theorem valCoeff_geo (b : Nat) (c : Col) (t : Nat) (H : Int) (h : ∀ l ∈ c, |l.getD t 0| ≤ H) :
    |valCoeff b c t| * (2 ^ b - 1) ≤ H * (2 ^ (b * c.length) - 1) := by
  induction c using List.reverseRecOn with
  | nil => simp [valCoeff]
  | append_singleton x l ih =>
    rw [Mask.valCoeff_snoc, List.length_append, List.length_singleton, Nat.mul_add, Nat.mul_one, pow_add]
    have h1 := ih (fun l' hl' => h l' (List.mem_append_left _ hl'))
    have h2 := h l (by simp)
    have hp : (1 : Int) ≤ 2 ^ b := one_le_pow₀ (by norm_num)
    have hq : (1 : Int) ≤ 2 ^ (b * x.length) := one_le_pow₀ (by norm_num)
    have hH : 0 ≤ H := le_trans (abs_nonneg _) h2
    calc |valCoeff b x t * 2 ^ b + l.getD t 0| * (2 ^ b - 1)
          ≤ (|valCoeff b x t| * 2 ^ b + |l.getD t 0|) * (2 ^ b - 1) := by
            apply mul_le_mul_of_nonneg_right _ (by linarith)
            calc |valCoeff b x t * 2 ^ b + l.getD t 0| ≤ |valCoeff b x t * 2 ^ b| + |l.getD t 0| := abs_add_le _ _
              _ = |valCoeff b x t| * 2 ^ b + |l.getD t 0| := by rw [abs_mul, abs_of_pos (by linarith : (0 : Int) < 2 ^ b)]
      _ = (|valCoeff b x t| * (2 ^ b - 1)) * 2 ^ b + |l.getD t 0| * (2 ^ b - 1) := by ring
      _ ≤ (H * (2 ^ (b * x.length) - 1)) * 2 ^ b + H * (2 ^ b - 1) := by
            apply add_le_add
            · exact mul_le_mul_of_nonneg_right h1 (by linarith)
            · exact mul_le_mul_of_nonneg_right h2 (by linarith)
      _ = H * (2 ^ (b * x.length) * 2 ^ b - 1) := by ring

/-- … in the form used below: `|val|·2^b ≤ 2·H·2^(b·len)` -/
theorem valCoeff_geo2 (b : Nat) (hb : 1 ≤ b) (c : Col) (t : Nat) (H : Int) (h : ∀ l ∈ c, |l.getD t 0| ≤ H) (hH : 0 ≤ H) :
    |valCoeff b c t| * 2 ^ b ≤ 2 * H * 2 ^ (b * c.length) := by
  have h1 := valCoeff_geo b c t H h
  have hp : (2 : Int) ≤ 2 ^ b := by
    calc (2 : Int) = 2 ^ 1 := by norm_num
      _ ≤ 2 ^ b := pow_le_pow_right₀ (by norm_num) hb
  have hq : (1 : Int) ≤ 2 ^ (b * c.length) := one_le_pow₀ (by norm_num)
  have ha := abs_nonneg (valCoeff b c t)
  nlinarith

/-- a shorter accumulator is the prefix of the full one -/
theorem cnvApplyCol_take (N S F hi : Nat) (x y : Col) (h : S ≤ F) :
    Hal.cnvApplyCol N S hi x y = (Hal.cnvApplyCol N F hi x y).take S := by
  unfold Hal.cnvApplyCol
  rw [← List.map_take, List.take_range, Nat.min_eq_left h]
  apply List.map_congr_left
  intro k hk
  have hk' := List.mem_range.mp hk
  by_cases h1 : k < x.length + y.length - 1
  · rw [if_pos (by omega), if_pos (by omega)]
  · rw [if_neg (by omega), if_neg (by omega)]

/-- **one tensor column**: `cnv_apply_dft` into `S ≤ F` limbs, `vec_znx_big_normalize(lo)` into `ts` limbs, against the exact product.
`H1`: the accumulator entries are within `2^b·H1`.  Either nothing is truncated (`S = F`) or the kept limbs cover the result
(`b·ts + lo⁺ ≤ b·S`, what `normalize_input_limb_bound_with_offset` guarantees). -/
theorem cnvTrunc_coeff (N : Nat) (hN : 0 < N) (big : Bool) (b ts cnv : Nat) (hb1 : 1 ≤ b) (hb62 : b ≤ 62)
    (x y : Col) (sa S : Nat) (hx : x.length = sa) (hxl : ∀ l ∈ x, l.length = N)
    (hy : ∀ l ∈ y, l.length = N) (hsa : 1 ≤ sa) (hsb : 1 ≤ y.length) (hhi : (cnvOffsetSplit b cnv).1 ≤ sa + y.length - 1)
    (hS1 : 1 ≤ S) (hSF : S ≤ sa + y.length - (cnvOffsetSplit b cnv).1)
    (hS : S = sa + y.length - (cnvOffsetSplit b cnv).1 ∨ b * ts + (cnvOffsetSplit b cnv).2.toNat ≤ b * S)
    (H1 : Int) (hH0 : 0 ≤ H1) (hH : 2 ^ b * H1 + 8 ≤ 2 ^ (bitsOf big - 2))
    (hacc : ∀ l ∈ Hal.cnvApplyCol N (sa + y.length - (cnvOffsetSplit b cnv).1) (cnvOffsetSplit b cnv).1 x y, ∀ v ∈ l, |v| ≤ 2 ^ b * H1) :
    ∃ c, cnvNorm big N b ts b S (cnvOffsetSplit b cnv).1 (cnvOffsetSplit b cnv).2 x y = some c ∧ ColWF N ts c ∧
      (∀ l ∈ c, ∀ v ∈ l, |v| ≤ 2 ^ (b - 1)) ∧
      ∀ t, t < N → ∃ q e : Int,
        2 ^ (b * (sa + y.length) + (-(cnvOffsetSplit b cnv).2).toNat) * valCoeff b c t
          = 2 ^ (cnv + (-(cnvOffsetSplit b cnv).2).toNat) * 2 ^ (b * ts) * (Hal.negMul (valP b N x) (valP b N y)).getD t 0
            + e + q * 2 ^ (b * ts + (b * (sa + y.length) + (-(cnvOffsetSplit b cnv).2).toNat)) ∧
        |e| ≤ (1 + 2 * H1) * 2 ^ (b * (sa + y.length) + (-(cnvOffsetSplit b cnv).2).toNat) := by
  set hi := (cnvOffsetSplit b cnv).1 with hhidef
  set lo := (cnvOffsetSplit b cnv).2 with hlodef
  set F := sa + y.length - hi with hF
  set WF := Hal.cnvApplyCol N F hi x y with hWF
  set WS := Hal.cnvApplyCol N S hi x y with hWS
  have hWSt : WS = WF.take S := cnvApplyCol_take N S F hi x y hSF
  have hWFwf : ColWF N F WF := cnvApplyCol_wf N F hi x y hy
  have hWSwf : ColWF N S WS := cnvApplyCol_wf N S hi x y hy
  have hpb : (0 : Int) < 2 ^ b := by positivity
  have haccS : ∀ c ∈ [WS], ∀ l ∈ c, ∀ v ∈ l, |v| ≤ 2 ^ b * H1 := by
    intro c hc l hl v hv
    simp only [List.mem_singleton] at hc; subst hc
    rw [hWSt] at hl
    exact hacc l (List.mem_of_mem_take hl) v hv
  obtain ⟨cs, hok, hlen, hcswf, _, hv⟩ := NormOff.norm_stage_off big N b ts b S lo (2 ^ b * H1) [WS] hb1 hb62 hb1 hb62 (by positivity) hH
    (by simp) (by intro c hc; simp only [List.mem_singleton] at hc; subst hc; exact hWSwf) haccS
  have hbal := NormOff.norm_stage_balanced big N b ts lo (2 ^ b * H1) [WS] cs hb1 hb62 (by positivity) hH haccS hok
  obtain ⟨c, rfl⟩ : ∃ c, cs = [c] := by
    cases cs with
    | nil => simp at hlen
    | cons c rest => cases rest with
      | nil => exact ⟨c, rfl⟩
      | cons _ _ => simp at hlen
  have hcn : cnvNorm big N b ts b S hi lo x y = some c := by
    unfold cnvNorm
    simp only [List.mapM_cons, List.mapM_nil] at hok
    cases hk : Core.bigNormalizeOff big N b ts lo WS b with
    | none => simp [hk] at hok
    | some c' => simp [hk] at hok; rw [hok]
  refine ⟨c, hcn, hcswf c (by simp), hbal c (by simp), fun t ht => ?_⟩
  obtain ⟨q, e, hrel, he⟩ := hv [] t ht
  -- the phases of single columns under the empty secret are the columns
  have hph1 : phase [] (Ks.mkCt b N [c]) = c := by simp [phase, phaseBig, Ks.mkCt, GLWE.rank]
  have hph2 : phase [] (Ks.mkCt b N [WS]) = WS := by simp [phase, phaseBig, Ks.mkCt, GLWE.rank]
  rw [hph1, hph2] at hrel
  have he' : |e| ≤ 2 ^ (b * S + (-lo).toNat) := by
    have : snorm (min ([WS].length - 1) ([] : List Poly).length) [] = 0 := by simp [snorm]
    rw [this] at he; simpa using he
  -- the full accumulator against the product
  obtain ⟨T, _, hT0, hacc'⟩ := acc_coeff N hN b [] x [] y hi sa hx (by simp) hxl (by simp) hy hsa hsb hhi
  have hXW := hacc' t ht
  have hph3 : phase [] (Ks.mkCt b N ([x].map (fun x => Hal.cnvApplyCol N (sa + y.length - hi) hi x y))) = WF := by
    simp [phase, phaseBig, Ks.mkCt, GLWE.rank, hWF, hF]
  have hph4 : phase [] (Ks.mkCt b N [x]) = x := by simp [phase, phaseBig, Ks.mkCt, GLWE.rank]
  rw [hph3, hph4] at hXW
  -- truncation
  have hsplit : valCoeff b WF t = valCoeff b WS t * 2 ^ (b * (F - S)) + valCoeff b (WF.drop S) t := by
    conv_lhs => rw [← List.take_append_drop S WF]
    rw [valCoeff_append, ← hWSt, List.length_drop, hWFwf.1]
  set D := valCoeff b (WF.drop S) t with hD
  have hDb : |D| * 2 ^ b ≤ 2 * (2 ^ b * H1) * 2 ^ (b * (F - S)) := by
    have := valCoeff_geo2 b hb1 (WF.drop S) t (2 ^ b * H1) (fun l hl => by
      have hm := List.mem_of_mem_drop hl
      by_cases h : t < l.length
      · exact hacc l hm _ (Mask.getD_mem_lt l t h)
      · rw [List.getD_eq_getElem?_getD, List.getElem?_eq_none (by omega)]; simp; positivity) (by positivity)
    rw [List.length_drop, hWFwf.1] at this
    exact this
  have hDb' : |D| ≤ 2 * H1 * 2 ^ (b * (F - S)) := by
    have : |D| * 2 ^ b ≤ (2 * H1 * 2 ^ (b * (F - S))) * 2 ^ b := by linarith [hDb]
    exact le_of_mul_le_mul_right this hpb
  have hD0 : S = F → D = 0 := by
    intro h; rw [hD, h, ← hWFwf.1, List.drop_length]; simp [valCoeff]
  set X' := valCoeff b c t
  set Z := (Hal.negMul (valP b N x) (valP b N y)).getD t 0
  have hFhi : F + hi = sa + y.length := by omega
  obtain ⟨j, hj⟩ : ∃ j, F = S + j := ⟨F - S, by omega⟩
  have hFS : F - S = j := by omega
  rw [hFS] at hsplit hDb'
  rcases split_cases b cnv (by omega) with ⟨hc1, hz⟩ | ⟨hh0, hp0, hc2⟩
  · -- `lo ≥ 0`
    rw [← hlodef] at hz hc1
    rw [hz] at hrel he' ⊢
    simp only [Nat.add_zero] at hrel he' ⊢
    refine ⟨q - 2 ^ lo.toNat * T.getD t 0, e * 2 ^ (b * j) * 2 ^ (b * hi) - 2 ^ lo.toNat * 2 ^ (b * ts) * 2 ^ (b * hi) * D, ?_, ?_⟩
    · have e1 : (2 : Int) ^ (b * (sa + y.length)) = 2 ^ (b * S) * 2 ^ (b * j) * 2 ^ (b * hi) := by
        rw [← pow_add, ← pow_add, ← Nat.mul_add, ← Nat.mul_add, ← hFhi, hj]
      have e2 : (2 : Int) ^ cnv = 2 ^ lo.toNat * 2 ^ (b * hi) * 2 ^ b := by
        rw [← pow_add, ← pow_add]; congr 1; rw [← hc1, ← hhidef]; ring
      have e3 : (2 : Int) ^ (b * ts + b * (sa + y.length)) = 2 ^ (b * ts) * (2 ^ (b * S) * 2 ^ (b * j) * 2 ^ (b * hi)) := by rw [pow_add, e1]
      have e4 : (2 : Int) ^ (b * ts + b * S) = 2 ^ (b * ts) * 2 ^ (b * S) := pow_add _ _ _
      have e5 : (2 : Int) ^ (b * F) = 2 ^ (b * S) * 2 ^ (b * j) := by rw [hj, Nat.mul_add, pow_add]
      rw [e1, e2, e3]
      rw [e4] at hrel
      rw [e5] at hXW
      linear_combination (2 ^ (b * j) * 2 ^ (b * hi)) * hrel
        + (2 ^ lo.toNat * 2 ^ (b * ts) * 2 ^ (b * hi)) * hXW - (2 ^ lo.toNat * 2 ^ (b * ts) * 2 ^ (b * hi)) * hsplit
    · have e1 : (2 : Int) ^ (b * (sa + y.length)) = 2 ^ (b * S) * 2 ^ (b * j) * 2 ^ (b * hi) := by
        rw [← pow_add, ← pow_add, ← Nat.mul_add, ← Nat.mul_add, ← hFhi, hj]
      rw [e1]
      have hA : |e * 2 ^ (b * j) * 2 ^ (b * hi)| ≤ 2 ^ (b * S) * 2 ^ (b * j) * 2 ^ (b * hi) := by
        rw [abs_mul, abs_mul, abs_of_pos (by positivity : (0 : Int) < 2 ^ (b * j)), abs_of_pos (by positivity : (0 : Int) < 2 ^ (b * hi))]
        gcongr
      have hB : |2 ^ lo.toNat * 2 ^ (b * ts) * 2 ^ (b * hi) * D| ≤ 2 * H1 * (2 ^ (b * S) * 2 ^ (b * j) * 2 ^ (b * hi)) := by
        rcases hS with hSe | hSc
        · have : D = 0 := hD0 hSe
          rw [this]; simp; positivity
        · rw [abs_mul, abs_of_pos (by positivity : (0 : Int) < 2 ^ lo.toNat * 2 ^ (b * ts) * 2 ^ (b * hi))]
          have hcov : (2 : Int) ^ lo.toNat * 2 ^ (b * ts) ≤ 2 ^ (b * S) := by
            rw [← pow_add]; exact pow_le_pow_right₀ (by norm_num) (by omega)
          calc 2 ^ lo.toNat * 2 ^ (b * ts) * 2 ^ (b * hi) * |D|
                ≤ 2 ^ lo.toNat * 2 ^ (b * ts) * 2 ^ (b * hi) * (2 * H1 * 2 ^ (b * j)) :=
                  mul_le_mul_of_nonneg_left hDb' (by positivity)
            _ = (2 ^ lo.toNat * 2 ^ (b * ts)) * (2 * H1 * 2 ^ (b * j) * 2 ^ (b * hi)) := by ring
            _ ≤ 2 ^ (b * S) * (2 * H1 * 2 ^ (b * j) * 2 ^ (b * hi)) := mul_le_mul_of_nonneg_right hcov (by positivity)
            _ = _ := by ring
      calc |e * 2 ^ (b * j) * 2 ^ (b * hi) - 2 ^ lo.toNat * 2 ^ (b * ts) * 2 ^ (b * hi) * D|
            ≤ |e * 2 ^ (b * j) * 2 ^ (b * hi)| + |2 ^ lo.toNat * 2 ^ (b * ts) * 2 ^ (b * hi) * D| := abs_sub _ _
        _ ≤ _ := by linarith
  · -- `cnv_offset < b`: `hi = 0`
    rw [← hhidef] at hh0
    rw [← hlodef] at hp0 hc2
    have hFe : F = sa + y.length := by omega
    have hT := hT0 hh0 t
    rw [hT, mul_zero, add_zero] at hXW
    rw [hp0] at hrel
    simp only [pow_zero, one_mul] at hrel
    refine ⟨q, e * 2 ^ (b * j) - 2 ^ (b * ts) * D, ?_, ?_⟩
    · have e1 : (2 : Int) ^ (b * (sa + y.length) + (-lo).toNat) = 2 ^ (b * S + (-lo).toNat) * 2 ^ (b * j) := by
        rw [← pow_add]; congr 1; rw [← hFe, hj]; ring
      have e2 : (2 : Int) ^ (cnv + (-lo).toNat) = 2 ^ b := by rw [hc2]
      have e3 : (2 : Int) ^ (b * ts + (b * (sa + y.length) + (-lo).toNat)) = 2 ^ (b * ts + (b * S + (-lo).toNat)) * 2 ^ (b * j) := by
        rw [← pow_add]; congr 1; rw [← hFe, hj]; ring
      rw [e1, e2, e3]
      linear_combination (2 ^ (b * j)) * hrel + (2 ^ (b * ts)) * hXW - (2 ^ (b * ts)) * hsplit
    · have e1 : (2 : Int) ^ (b * (sa + y.length) + (-lo).toNat) = 2 ^ (b * S + (-lo).toNat) * 2 ^ (b * j) := by
        rw [← pow_add]; congr 1; rw [← hFe, hj]; ring
      rw [e1]
      have hA : |e * 2 ^ (b * j)| ≤ 2 ^ (b * S + (-lo).toNat) * 2 ^ (b * j) := by
        rw [abs_mul, abs_of_pos (by positivity : (0 : Int) < 2 ^ (b * j))]
        gcongr
      have hB : |2 ^ (b * ts) * D| ≤ 2 * H1 * (2 ^ (b * S + (-lo).toNat) * 2 ^ (b * j)) := by
        rcases hS with hSe | hSc
        · have : D = 0 := hD0 hSe
          rw [this]; simp; positivity
        · rw [abs_mul, abs_of_pos (by positivity : (0 : Int) < 2 ^ (b * ts))]
          have hcov : (2 : Int) ^ (b * ts) ≤ 2 ^ (b * S + (-lo).toNat) := pow_le_pow_right₀ (by norm_num) (by omega)
          calc 2 ^ (b * ts) * |D| ≤ 2 ^ (b * ts) * (2 * H1 * 2 ^ (b * j)) := mul_le_mul_of_nonneg_left hDb' (by positivity)
            _ ≤ 2 ^ (b * S + (-lo).toNat) * (2 * H1 * 2 ^ (b * j)) := mul_le_mul_of_nonneg_right hcov (by positivity)
            _ = _ := by ring
      calc |e * 2 ^ (b * j) - 2 ^ (b * ts) * D| ≤ |e * 2 ^ (b * j)| + |2 ^ (b * ts) * D| := abs_sub _ _
        _ ≤ _ := by linarith

theorem limbBound_shape' (F ts b obn lon : Nat) (hF : 1 ≤ F) (hts : 1 ≤ ts) (hb : 1 ≤ b) (h : lon ≤ obn) :
    1 ≤ limbBound F ts b b obn ∧ limbBound F ts b b obn ≤ F ∧ (limbBound F ts b b obn = F ∨ b * ts + lon ≤ b * limbBound F ts b b obn) := by
  unfold limbBound
  set Q := (ts * b + obn + b - 1) / b with hQ
  have hQ1 : ts * b + obn ≤ Q * b := by
    have := Nat.lt_div_mul_add (a := ts * b + obn + b - 1) (b := b) (by omega)
    rw [← hQ] at this
    omega
  have hQts : ts ≤ Q := by
    have : ts * b ≤ Q * b := by omega
    exact Nat.le_of_mul_le_mul_right this (by omega)
  refine ⟨by omega, Nat.min_le_left _ _, ?_⟩
  rcases Nat.le_total F Q with h' | h'
  · left; exact Nat.min_eq_left h'
  · right
    rw [Nat.min_eq_right h']
    calc b * ts + lon ≤ ts * b + obn := by rw [Nat.mul_comm]; omega
      _ ≤ Q * b := hQ1
      _ = b * Q := Nat.mul_comm _ _

/-- what `normalize_input_limb_bound_with_offset` guarantees -/
theorem limbBound_shape (F ts b : Nat) (lo : Int) (hF : 1 ≤ F) (hts : 1 ≤ ts) (hb : 1 ≤ b) (hlo : lo < b) :
    1 ≤ limbBoundWithOffset F ts b b lo ∧ limbBoundWithOffset F ts b b lo ≤ F ∧
      (limbBoundWithOffset F ts b b lo = F ∨ b * ts + lo.toNat ≤ b * limbBoundWithOffset F ts b b lo) := by
  unfold limbBoundWithOffset
  apply limbBound_shape' F ts b _ lo.toNat hF hts hb
  have hob1 : (lo.toNat : Int) ≤ (if lo < 0 ∧ Int.tmod lo b ≠ 0 then Int.tmod lo b + b else Int.tmod lo b) := by
    by_cases hneg : lo < 0
    · have h0 : lo.toNat = 0 := by omega
      rw [h0]
      split
      · have h2 := Int.lt_tmod_of_pos lo (by omega : (0 : Int) < b)
        push_cast; omega
      · next h =>
        push Not at h
        have := h hneg
        rw [this]; simp
    · have hnn : 0 ≤ lo := by omega
      rw [if_neg (by omega)]
      rw [Int.tmod_eq_emod_of_nonneg hnn, Int.emod_eq_of_lt hnn hlo]
      omega
  have h0 : (0 : Int) ≤ (if lo < 0 ∧ Int.tmod lo b ≠ 0 then Int.tmod lo b + b else Int.tmod lo b) := le_trans (by positivity) hob1
  have := Int.toNat_of_nonneg h0
  omega

theorem halColAdd_eq (n : Nat) (a b : Col) (h : a.length = b.length) : Hal.colAdd n a b = C02L.colAdd a b := by
  unfold Hal.colAdd C02L.colAdd
  apply List.ext_getElem
  · simp [h]
  · intro j h1 h2
    simp only [List.length_map, List.length_range, h, Nat.max_self] at h1
    simp only [List.getElem_map, List.getElem_range, List.getElem_zipWith, limbOr0]
    rw [List.getD_eq_getElem?_getD, List.getD_eq_getElem?_getD, List.getElem?_eq_getElem (by omega), List.getElem?_eq_getElem h1]
    rfl

theorem w64_small {x : Int} (h : |x| ≤ 2 ^ 62) : w64 x = x := by
  have := abs_le.mp h
  unfold w64
  omega

/-- the off-diagonal tensor column `(−d₀ − d₁) + p` in wrapping arithmetic is the exact `p − d₀ − d₁` on balanced columns -/
theorem col1_eq (N rs : Nat) (d0 d1 p : Col) (h0 : ColWF N rs d0) (h1 : ColWF N rs d1) (hp : ColWF N rs p)
    (b0 : ∀ l ∈ d0, ∀ v ∈ l, |v| ≤ 2 ^ 60) (b1 : ∀ l ∈ d1, ∀ v ∈ l, |v| ≤ 2 ^ 60) (bp : ∀ l ∈ p, ∀ v ∈ l, |v| ≤ 2 ^ 60) :
    vecAddAssignW w64 (vecSubAssignW w64 (vecNegate N rs d0) d1) p
      = C02L.colAdd (C02L.colAdd (d0.map polyNeg) (d1.map polyNeg)) p := by
  rw [vecNegate_shape N rs d0 h0.1, vecSubAssign_shape _ d1 (by simp [h0.1, h1.1]),
    vecAddAssign_shape _ p (by simp [h0.1, h1.1, hp.1])]
  unfold C02L.colAdd
  apply List.ext_getElem
  · simp [h0.1, h1.1, hp.1]
  · intro j hj1 hj2
    have hj : j < rs := by simpa [h0.1, h1.1, hp.1] using hj1
    simp only [List.getElem_zipWith, List.getElem_map]
    have m0 : d0[j]'(by rw [h0.1]; exact hj) ∈ d0 := List.getElem_mem _
    have m1 : d1[j]'(by rw [h1.1]; exact hj) ∈ d1 := List.getElem_mem _
    have mp : p[j]'(by rw [hp.1]; exact hj) ∈ p := List.getElem_mem _
    set l0 := d0[j]'(by rw [h0.1]; exact hj)
    set l1 := d1[j]'(by rw [h1.1]; exact hj)
    set lp := p[j]'(by rw [hp.1]; exact hj)
    unfold znxAddW znxSubW znxNegateW polyNeg polyAdd
    apply List.ext_getElem
    · simp
    · intro t ht1 ht2
      simp only [List.getElem_zipWith, List.getElem_map]
      have ht : t < N := by
        simp only [List.length_zipWith, List.length_map, h0.2 l0 m0, h1.2 l1 m1, hp.2 lp mp] at ht1
        omega
      have e0 := b0 l0 m0 (l0[t]'(by rw [h0.2 l0 m0]; exact ht)) (List.getElem_mem _)
      have e1 := b1 l1 m1 (l1[t]'(by rw [h1.2 l1 m1]; exact ht)) (List.getElem_mem _)
      have ep := bp lp mp (lp[t]'(by rw [hp.2 lp mp]; exact ht)) (List.getElem_mem _)
      set x0 := l0[t]'(by rw [h0.2 l0 m0]; exact ht)
      set x1 := l1[t]'(by rw [h1.2 l1 m1]; exact ht)
      set xp := lp[t]'(by rw [hp.2 lp mp]; exact ht)
      have a0 := abs_le.mp e0
      have a1 := abs_le.mp e1
      have ap := abs_le.mp ep
      have w1 : w64 (-x0) = -x0 := w64_small (by rw [abs_neg]; linarith)
      have w2 : w64 (-x0 - x1) = -x0 - x1 := w64_small (by rw [abs_le]; constructor <;> linarith)
      have w3 : w64 (-x0 - x1 + xp) = -x0 - x1 + xp := w64_small (by rw [abs_le]; constructor <;> linarith)
      rw [w1, w2, w3]
      ring

/-- the loops of `glwe_tensor_apply` for two columns -/
theorem tensorCore2 (n rs : Nat) (D : Nat → Option Col) (P : Nat → Nat → Option Col) (r0 r1 r2 d0 d1 p : Col)
    (h0 : D 0 = some d0) (h1 : D 1 = some d1) (hp : P 0 1 = some p) :
    tensorApplyCore false n 2 rs D P [r0, r1, r2]
      = some [vecCopy n rs d0, vecAddAssignW w64 (vecSubAssignW w64 (vecNegate n rs d0) d1) p, vecCopy n rs d1] := by
  unfold tensorApplyCore
  simp [List.range_succ, h0, h1, hp, tensorDiagStep, mulUpdCol, colIdx]

/-- the relation of one tensor column `T` with its exact product `Q` (coefficient `t`), `U` units of the tensor's last limb -/
def ColRel (b ts cnv E : Nat) (T : Col) (Q : Int) (U : Int) (t : Nat) : Prop :=
  ∃ q e : Int, 2 ^ E * valCoeff b T t = 2 ^ (cnv + (-(cnvOffsetSplit b cnv).2).toNat) * 2 ^ (b * ts) * Q + e + q * 2 ^ (b * ts + E) ∧
    |e| ≤ U * 2 ^ E

theorem colAdd_digits {x y : Col} {H : Int} (hx : ∀ l ∈ x, ∀ v ∈ l, |v| ≤ H) (hy : ∀ l ∈ y, ∀ v ∈ l, |v| ≤ H) :
    ∀ l ∈ C02L.colAdd x y, ∀ v ∈ l, |v| ≤ H + H := by
  intro l hl v hv
  unfold C02L.colAdd at hl
  obtain ⟨a, ha, b', hb', rfl⟩ := Ckks.Bound.mem_zipWith hl
  obtain ⟨u, hu, w, hw, rfl⟩ := Ckks.Bound.mem_zipWith hv
  exact (abs_add_le _ _).trans (add_le_add (hx a ha u hu) (hy b' hb' w hw))

theorem colAdd_wf {N L : Nat} {x y : Col} (hx : ColWF N L x) (hy : ColWF N L y) : ColWF N L (C02L.colAdd x y) := by
  refine ⟨by simp [C02L.colAdd, hx.1, hy.1], ?_⟩
  intro l hl
  unfold C02L.colAdd at hl
  obtain ⟨a, ha, b', hb', rfl⟩ := Ckks.Bound.mem_zipWith hl
  simp [polyAdd, hx.2 a ha, hy.2 b' hb']

/-- **the three tensor columns of a rank-1 product on coefficients.**  `p₀,p₁` / `r₀,r₁` are the prepared columns (`La` / `Lb` limbs,
digits within `2^b`); the tensor has `ts` limbs; `H1 = 4·Lb·N·2^b` bounds the accumulators (in units `2^b`). -/
theorem tensor2_value (N : Nat) (hN : 0 < N) (big : Bool) (b ts cnv : Nat) (hb1 : 1 ≤ b) (hb62 : b ≤ 61) (hts : 1 ≤ ts)
    (p0 p1 r0 r1 : Col) (La Lb : Nat) (hp0 : ColWF N La p0) (hp1 : ColWF N La p1) (hr0 : ColWF N Lb r0) (hr1 : ColWF N Lb r1)
    (hLa : 1 ≤ La) (hLb : 1 ≤ Lb)
    (dp0 : ∀ l ∈ p0, ∀ v ∈ l, |v| ≤ 2 ^ b) (dp1 : ∀ l ∈ p1, ∀ v ∈ l, |v| ≤ 2 ^ b)
    (dr0 : ∀ l ∈ r0, ∀ v ∈ l, |v| ≤ 2 ^ b) (dr1 : ∀ l ∈ r1, ∀ v ∈ l, |v| ≤ 2 ^ b)
    (hhi : (cnvOffsetSplit b cnv).1 ≤ La + Lb - 1)
    (hroom : 2 ^ b * (4 * (Lb : Int) * N * 2 ^ b) + 8 ≤ 2 ^ (bitsOf big - 2)) (z0 z1 z2 : Col) :
    ∃ T0 T1 T2, tensorApplyCore false N 2 ts
        (fun i => cnvNorm big N b ts b (limbBoundWithOffset (La + Lb - (cnvOffsetSplit b cnv).1) ts b b (cnvOffsetSplit b cnv).2)
          (cnvOffsetSplit b cnv).1 (cnvOffsetSplit b cnv).2 ([p0, p1].getD i []) ([r0, r1].getD i []))
        (fun i j => cnvNorm big N b ts b (limbBoundWithOffset (La + Lb - (cnvOffsetSplit b cnv).1) ts b b (cnvOffsetSplit b cnv).2)
          (cnvOffsetSplit b cnv).1 (cnvOffsetSplit b cnv).2 (Hal.colAdd N ([p0, p1].getD i []) ([p0, p1].getD j []))
            (Hal.colAdd N ([r0, r1].getD i []) ([r0, r1].getD j []))) [z0, z1, z2] = some [T0, T1, T2] ∧
      ColWF N ts T0 ∧ ColWF N ts T1 ∧ ColWF N ts T2 ∧
      (∀ l ∈ T0, ∀ v ∈ l, |v| ≤ 2 ^ (b - 1)) ∧ (∀ l ∈ T1, ∀ v ∈ l, |v| ≤ 3 * 2 ^ (b - 1)) ∧ (∀ l ∈ T2, ∀ v ∈ l, |v| ≤ 2 ^ (b - 1)) ∧
      ∀ t, t < N →
        ColRel b ts cnv (b * (La + Lb) + (-(cnvOffsetSplit b cnv).2).toNat) T0
          ((Hal.negMul (valP b N p0) (valP b N r0)).getD t 0) (1 + 2 * (4 * (Lb : Int) * N * 2 ^ b)) t ∧
        ColRel b ts cnv (b * (La + Lb) + (-(cnvOffsetSplit b cnv).2).toNat) T2
          ((Hal.negMul (valP b N p1) (valP b N r1)).getD t 0) (1 + 2 * (4 * (Lb : Int) * N * 2 ^ b)) t ∧
        ColRel b ts cnv (b * (La + Lb) + (-(cnvOffsetSplit b cnv).2).toNat) T1
          ((Hal.negMul (valP b N p0) (valP b N r1)).getD t 0 + (Hal.negMul (valP b N p1) (valP b N r0)).getD t 0)
          (3 * (1 + 2 * (4 * (Lb : Int) * N * 2 ^ b))) t := by
  set hi := (cnvOffsetSplit b cnv).1 with hhidef
  set lo := (cnvOffsetSplit b cnv).2 with hlodef
  set F := La + Lb - hi with hF
  set S := limbBoundWithOffset F ts b b lo with hSdef
  set H1 : Int := 4 * (Lb : Int) * N * 2 ^ b with hH1
  have hlo := (C05.cnvOffsetSplit_lo_range b cnv (by omega)).2.1
  rw [← hlodef] at hlo
  obtain ⟨hS1, hSF, hS⟩ := limbBound_shape F ts b lo (by omega) hts hb1 hlo
  have hpb : (0 : Int) < 2 ^ b := by positivity
  have hH10 : 0 ≤ H1 := by positivity
  have hb62' : b ≤ 62 := by omega
  -- the pair operands
  set xp := Hal.colAdd N p0 p1 with hxp
  set yp := Hal.colAdd N r0 r1 with hyp
  have hxpe : xp = C02L.colAdd p0 p1 := halColAdd_eq N p0 p1 (by rw [hp0.1, hp1.1])
  have hype : yp = C02L.colAdd r0 r1 := halColAdd_eq N r0 r1 (by rw [hr0.1, hr1.1])
  have hxpwf : ColWF N La xp := by rw [hxpe]; exact colAdd_wf hp0 hp1
  have hypwf : ColWF N Lb yp := by rw [hype]; exact colAdd_wf hr0 hr1
  have dxp : ∀ l ∈ xp, ∀ v ∈ l, |v| ≤ 2 ^ b + 2 ^ b := by rw [hxpe]; exact colAdd_digits dp0 dp1
  have dyp : ∀ l ∈ yp, ∀ v ∈ l, |v| ≤ 2 ^ b + 2 ^ b := by rw [hype]; exact colAdd_digits dr0 dr1
  -- accumulator bounds
  have accD : ∀ (x y : Col), ColWF N La x → ColWF N Lb y → (∀ l ∈ x, ∀ v ∈ l, |v| ≤ 2 ^ b) → (∀ l ∈ y, ∀ v ∈ l, |v| ≤ 2 ^ b) →
      ∀ l ∈ Hal.cnvApplyCol N (La + y.length - hi) hi x y, ∀ v ∈ l, |v| ≤ 2 ^ b * H1 := by
    intro x y hx hy dx dy l hl v hv
    have := AccBound.cnvApplyCol_bound N (La + y.length - hi) hi x y (2 ^ b) (2 ^ b) (by positivity) (by positivity) dx dy hx.2 l hl v hv
    rw [hy.1] at this
    refine this.trans ?_
    rw [hH1]
    have : (0 : Int) ≤ (Lb : Int) * (N * 2 ^ b * 2 ^ b) := by positivity
    nlinarith
  have accP : ∀ l ∈ Hal.cnvApplyCol N (La + yp.length - hi) hi xp yp, ∀ v ∈ l, |v| ≤ 2 ^ b * H1 := by
    intro l hl v hv
    have := AccBound.cnvApplyCol_bound N (La + yp.length - hi) hi xp yp (2 ^ b + 2 ^ b) (2 ^ b + 2 ^ b) (by positivity) (by positivity)
      dxp dyp hxpwf.2 l hl v hv
    rw [hypwf.1] at this
    refine this.trans (le_of_eq ?_)
    rw [hH1]; ring
  -- the three normalised convolutions
  obtain ⟨d0, e0, w0, b0, v0⟩ := cnvTrunc_coeff N hN big b ts cnv hb1 hb62' p0 r0 La S hp0.1 hp0.2 hr0.2 hLa (by rw [hr0.1]; exact hLb)
    (by rw [hr0.1]; exact hhi) hS1 (by rw [hr0.1]; exact hSF) (by rw [hr0.1]; exact hS) H1 hH10 hroom
    (accD p0 r0 hp0 hr0 dp0 dr0)
  obtain ⟨d1, e1, w1, b1', v1⟩ := cnvTrunc_coeff N hN big b ts cnv hb1 hb62' p1 r1 La S hp1.1 hp1.2 hr1.2 hLa (by rw [hr1.1]; exact hLb)
    (by rw [hr1.1]; exact hhi) hS1 (by rw [hr1.1]; exact hSF) (by rw [hr1.1]; exact hS) H1 hH10 hroom
    (accD p1 r1 hp1 hr1 dp1 dr1)
  obtain ⟨pp, ep, wp, bp, vp⟩ := cnvTrunc_coeff N hN big b ts cnv hb1 hb62' xp yp La S hxpwf.1 hxpwf.2 hypwf.2 hLa (by rw [hypwf.1]; exact hLb)
    (by rw [hypwf.1]; exact hhi) hS1 (by rw [hypwf.1]; exact hSF) (by rw [hypwf.1]; exact hS) H1 hH10 hroom accP
  have hhalf60 : (2 : Int) ^ (b - 1) ≤ 2 ^ 60 := pow_le_pow_right₀ (by norm_num) (by omega)
  have hcol1 := col1_eq N ts d0 d1 pp w0 w1 wp (fun l hl v hv => (b0 l hl v hv).trans hhalf60)
    (fun l hl v hv => (b1' l hl v hv).trans hhalf60) (fun l hl v hv => (bp l hl v hv).trans hhalf60)
  refine ⟨d0, C02L.colAdd (C02L.colAdd (d0.map polyNeg) (d1.map polyNeg)) pp, d1, ?_, w0, ?_, w1, b0, ?_, b1', fun t ht => ⟨?_, ?_, ?_⟩⟩
  · rw [tensorCore2 N ts _ _ z0 z1 z2 d0 d1 pp e0 e1 ep, vecCopy_shape N ts d0 w0.1, vecCopy_shape N ts d1 w1.1, hcol1]
  · have hn0 : ColWF N ts (d0.map polyNeg) := ⟨by simp [w0.1], by
      intro l hl; obtain ⟨l0, h0, rfl⟩ := List.mem_map.mp hl; simp [polyNeg, w0.2 l0 h0]⟩
    have hn1 : ColWF N ts (d1.map polyNeg) := ⟨by simp [w1.1], by
      intro l hl; obtain ⟨l0, h0, rfl⟩ := List.mem_map.mp hl; simp [polyNeg, w1.2 l0 h0]⟩
    exact colAdd_wf (colAdd_wf hn0 hn1) wp
  · have hneg : ∀ (d : Col), (∀ l ∈ d, ∀ v ∈ l, |v| ≤ 2 ^ (b - 1)) → ∀ l ∈ d.map polyNeg, ∀ v ∈ l, |v| ≤ 2 ^ (b - 1) := by
      intro d hd l hl v hv
      obtain ⟨l0, h0, rfl⟩ := List.mem_map.mp hl
      simp only [polyNeg, List.mem_map] at hv
      obtain ⟨u, hu, rfl⟩ := hv
      rw [abs_neg]; exact hd l0 h0 u hu
    intro l hl v hv
    unfold C02L.colAdd at hl
    obtain ⟨a, ha, c, hc, rfl⟩ := Ckks.Bound.mem_zipWith hl
    obtain ⟨u, hu, w, hw, rfl⟩ := Ckks.Bound.mem_zipWith hv
    have h12 := colAdd_digits (hneg d0 b0) (hneg d1 b1') a ha u hu
    have h3 := bp c hc w hw
    calc |u + w| ≤ |u| + |w| := abs_add_le _ _
      _ ≤ _ := by linarith
  · obtain ⟨q, e, h1, h2⟩ := v0 t ht
    rw [hr0.1] at h1 h2
    exact ⟨q, e, h1, h2⟩
  · obtain ⟨q, e, h1, h2⟩ := v1 t ht
    rw [hr1.1] at h1 h2
    exact ⟨q, e, h1, h2⟩
  · obtain ⟨q0, e0', h01, h02⟩ := v0 t ht
    obtain ⟨q1, e1', h11, h12⟩ := v1 t ht
    obtain ⟨qp, ep', hp1', hp2⟩ := vp t ht
    rw [hr0.1] at h01 h02
    rw [hr1.1] at h11 h12
    rw [hypwf.1] at hp1' hp2
    -- the value of the off-diagonal column
    have hn0 : ColWF N ts (d0.map polyNeg) := ⟨by simp [w0.1], by
      intro l hl; obtain ⟨l0, h0, rfl⟩ := List.mem_map.mp hl; simp [polyNeg, w0.2 l0 h0]⟩
    have hn1 : ColWF N ts (d1.map polyNeg) := ⟨by simp [w1.1], by
      intro l hl; obtain ⟨l0, h0, rfl⟩ := List.mem_map.mp hl; simp [polyNeg, w1.2 l0 h0]⟩
    have hval : valCoeff b (C02L.colAdd (C02L.colAdd (d0.map polyNeg) (d1.map polyNeg)) pp) t
        = valCoeff b pp t - valCoeff b d0 t - valCoeff b d1 t := by
      rw [valCoeff_colAdd b (colAdd_wf hn0 hn1) wp t, valCoeff_colAdd b hn0 hn1 t, Ckks.CoreSem.valCoeff_map_neg, Ckks.CoreSem.valCoeff_map_neg]
      ring
    -- the exact product of the pair operands
    have hPl : ∀ c : Col, (valP b N c).length = N := fun c => by simp
    have hQ : (Hal.negMul (valP b N xp) (valP b N yp)).getD t 0
        = (Hal.negMul (valP b N p0) (valP b N r0)).getD t 0 + (Hal.negMul (valP b N p0) (valP b N r1)).getD t 0
          + ((Hal.negMul (valP b N p1) (valP b N r0)).getD t 0 + (Hal.negMul (valP b N p1) (valP b N r1)).getD t 0) := by
      rw [hxpe, hype, valP_colAdd b hp0 hp1, valP_colAdd b hr0 hr1,
        C05.tensor_bilinear _ _ _ _ (by rw [hPl, hPl]) (by rw [hPl, hPl])]
      rw [getD_polyAdd _ _ _ (by simp [polyAdd, Hal.negMul_length]), getD_polyAdd _ _ _ (by simp [Hal.negMul_length]),
        getD_polyAdd _ _ _ (by simp [Hal.negMul_length])]
    refine ⟨qp - q0 - q1, ep' - e0' - e1', ?_, ?_⟩
    · rw [hQ] at hp1'
      rw [hval]
      linear_combination hp1' - h01 - h11
    · calc |ep' - e0' - e1'| ≤ |ep'| + |e0'| + |e1'| := by
            have h1 := abs_sub (ep' - e0') e1'
            have h2 := abs_sub ep' e0'
            linarith
        _ ≤ _ := by linarith

end Ckks.Tensor
