import Poulpy.Lemmas.CkksCnv
import Poulpy.Lemmas.CkksMask
/-!
# C16, piece 5 (first half): the tensor columns of `glwe_tensor_apply` on coefficients

`glwe_tensor_apply` computes every convolution into an accumulator **truncated** to
`normalize_input_limb_bound_with_offset(a_size + b_size − hi, res_size, …)` limbs, then normalises it.
`cnvTrunc_coeff`: one such column against the exact negacyclic product, with the truncation error explicit
(`2·H₁` units of the result's last limb for accumulator entries within `2^b·H₁`, as soon as the kept limbs cover the result).
-/

namespace Ckks.Tensor
open Hal Core Core.Ops C02L KsDec Ks Ckks.MulPt

/-- geometric bound: limbs within `H`, value within `H·(2^(b·len) − 1)/(2^b − 1)` -/
theorem valCoeff_geo (b : Nat) (c : Col) (t : Nat) (H : Int) (h : ∀ l ∈ c, |l.getD t 0| ≤ H) :
    |valCoeff b c t| * (2 ^ b - 1) ≤ H * (2 ^ (b * c.length) - 1) := by
  induction c using List.reverseRecOn with
  | nil => simp [valCoeff]
  | append_singleton x l ih =>
    rw [Mask.valCoeff_snoc, List.length_append, List.length_singleton, Nat.mul_add, Nat.mul_one, pow_add]
    have h1 := ih (fun l' hl' => h l' (List.mem_append_left _ hl'))
    have h2 := h l (by simp)
    have hp : (1 : Int) ≤ 2 ^ b := one_le_pow₀ (by norm_num)
    have hq : (1 : Int) ≤ 2 ^ (b * x.length) := one_le_pow₀ (by norm_num)
    have hH : 0 ≤ H := le_trans (abs_nonneg _) h2
    calc |valCoeff b x t * 2 ^ b + l.getD t 0| * (2 ^ b - 1)
          ≤ (|valCoeff b x t| * 2 ^ b + |l.getD t 0|) * (2 ^ b - 1) := by
            apply mul_le_mul_of_nonneg_right _ (by linarith)
            calc |valCoeff b x t * 2 ^ b + l.getD t 0| ≤ |valCoeff b x t * 2 ^ b| + |l.getD t 0| := abs_add_le _ _
              _ = |valCoeff b x t| * 2 ^ b + |l.getD t 0| := by rw [abs_mul, abs_of_pos (by linarith : (0 : Int) < 2 ^ b)]
      _ = (|valCoeff b x t| * (2 ^ b - 1)) * 2 ^ b + |l.getD t 0| * (2 ^ b - 1) := by ring
      _ ≤ (H * (2 ^ (b * x.length) - 1)) * 2 ^ b + H * (2 ^ b - 1) := by
            apply add_le_add
            · exact mul_le_mul_of_nonneg_right h1 (by linarith)
            · exact mul_le_mul_of_nonneg_right h2 (by linarith)
      _ = H * (2 ^ (b * x.length) * 2 ^ b - 1) := by ring

/-- … in the form used below: `|val|·2^b ≤ 2·H·2^(b·len)` -/
theorem valCoeff_geo2 (b : Nat) (hb : 1 ≤ b) (c : Col) (t : Nat) (H : Int) (h : ∀ l ∈ c, |l.getD t 0| ≤ H) (hH : 0 ≤ H) :
    |valCoeff b c t| * 2 ^ b ≤ 2 * H * 2 ^ (b * c.length) := by
  have h1 := valCoeff_geo b c t H h
  have hp : (2 : Int) ≤ 2 ^ b := by
    calc (2 : Int) = 2 ^ 1 := by norm_num
      _ ≤ 2 ^ b := pow_le_pow_right₀ (by norm_num) hb
  have hq : (1 : Int) ≤ 2 ^ (b * c.length) := one_le_pow₀ (by norm_num)
  have ha := abs_nonneg (valCoeff b c t)
  nlinarith

/-- a shorter accumulator is the prefix of the full one -/
theorem cnvApplyCol_take (N S F hi : Nat) (x y : Col) (h : S ≤ F) :
    Hal.cnvApplyCol N S hi x y = (Hal.cnvApplyCol N F hi x y).take S := by
  unfold Hal.cnvApplyCol
  rw [← List.map_take, List.take_range, Nat.min_eq_left h]
  apply List.map_congr_left
  intro k hk
  have hk' := List.mem_range.mp hk
  by_cases h1 : k < x.length + y.length - 1
  · rw [if_pos (by omega), if_pos (by omega)]
  · rw [if_neg (by omega), if_neg (by omega)]

/-- **one tensor column**: `cnv_apply_dft` into `S ≤ F` limbs, `vec_znx_big_normalize(lo)` into `ts` limbs, against the exact product.
`H1`: the accumulator entries are within `2^b·H1`.  Either nothing is truncated (`S = F`) or the kept limbs cover the result
(`b·ts + lo⁺ ≤ b·S`, what `normalize_input_limb_bound_with_offset` guarantees). -/
theorem cnvTrunc_coeff (N : Nat) (hN : 0 < N) (big : Bool) (b ts cnv : Nat) (hb1 : 1 ≤ b) (hb62 : b ≤ 62)
    (x y : Col) (sa S : Nat) (hx : x.length = sa) (hxl : ∀ l ∈ x, l.length = N)
    (hy : ∀ l ∈ y, l.length = N) (hsa : 1 ≤ sa) (hsb : 1 ≤ y.length) (hhi : (cnvOffsetSplit b cnv).1 ≤ sa + y.length - 1)
    (hS1 : 1 ≤ S) (hSF : S ≤ sa + y.length - (cnvOffsetSplit b cnv).1)
    (hS : S = sa + y.length - (cnvOffsetSplit b cnv).1 ∨ b * ts + (cnvOffsetSplit b cnv).2.toNat ≤ b * S)
    (H1 : Int) (hH0 : 0 ≤ H1) (hH : 2 ^ b * H1 + 8 ≤ 2 ^ (bitsOf big - 2))
    (hacc : ∀ l ∈ Hal.cnvApplyCol N (sa + y.length - (cnvOffsetSplit b cnv).1) (cnvOffsetSplit b cnv).1 x y, ∀ v ∈ l, |v| ≤ 2 ^ b * H1) :
    ∃ c, cnvNorm big N b ts b S (cnvOffsetSplit b cnv).1 (cnvOffsetSplit b cnv).2 x y = some c ∧ ColWF N ts c ∧
      (∀ l ∈ c, ∀ v ∈ l, |v| ≤ 2 ^ (b - 1)) ∧
      ∀ t, t < N → ∃ q e : Int,
        2 ^ (b * (sa + y.length) + (-(cnvOffsetSplit b cnv).2).toNat) * valCoeff b c t
          = 2 ^ (cnv + (-(cnvOffsetSplit b cnv).2).toNat) * 2 ^ (b * ts) * (Hal.negMul (valP b N x) (valP b N y)).getD t 0
            + e + q * 2 ^ (b * ts + (b * (sa + y.length) + (-(cnvOffsetSplit b cnv).2).toNat)) ∧
        |e| ≤ (1 + 2 * H1) * 2 ^ (b * (sa + y.length) + (-(cnvOffsetSplit b cnv).2).toNat) := by
  set hi := (cnvOffsetSplit b cnv).1 with hhidef
  set lo := (cnvOffsetSplit b cnv).2 with hlodef
  set F := sa + y.length - hi with hF
  set WF := Hal.cnvApplyCol N F hi x y with hWF
  set WS := Hal.cnvApplyCol N S hi x y with hWS
  have hWSt : WS = WF.take S := cnvApplyCol_take N S F hi x y hSF
  have hWFwf : ColWF N F WF := cnvApplyCol_wf N F hi x y hy
  have hWSwf : ColWF N S WS := cnvApplyCol_wf N S hi x y hy
  have hpb : (0 : Int) < 2 ^ b := by positivity
  have haccS : ∀ c ∈ [WS], ∀ l ∈ c, ∀ v ∈ l, |v| ≤ 2 ^ b * H1 := by
    intro c hc l hl v hv
    simp only [List.mem_singleton] at hc; subst hc
    rw [hWSt] at hl
    exact hacc l (List.mem_of_mem_take hl) v hv
  obtain ⟨cs, hok, hlen, hcswf, _, hv⟩ := NormOff.norm_stage_off big N b ts b S lo (2 ^ b * H1) [WS] hb1 hb62 hb1 hb62 (by positivity) hH
    (by simp) (by intro c hc; simp only [List.mem_singleton] at hc; subst hc; exact hWSwf) haccS
  have hbal := NormOff.norm_stage_balanced big N b ts lo (2 ^ b * H1) [WS] cs hb1 hb62 (by positivity) hH haccS hok
  obtain ⟨c, rfl⟩ : ∃ c, cs = [c] := by
    cases cs with
    | nil => simp at hlen
    | cons c rest => cases rest with
      | nil => exact ⟨c, rfl⟩
      | cons _ _ => simp at hlen
  have hcn : cnvNorm big N b ts b S hi lo x y = some c := by
    unfold cnvNorm
    simp only [List.mapM_cons, List.mapM_nil] at hok
    cases hk : Core.bigNormalizeOff big N b ts lo WS b with
    | none => simp [hk] at hok
    | some c' => simp [hk] at hok; rw [hok]
  refine ⟨c, hcn, hcswf c (by simp), hbal c (by simp), fun t ht => ?_⟩
  obtain ⟨q, e, hrel, he⟩ := hv [] t ht
  -- the phases of single columns under the empty secret are the columns
  have hph1 : phase [] (Ks.mkCt b N [c]) = c := by simp [phase, phaseBig, Ks.mkCt, GLWE.rank]
  have hph2 : phase [] (Ks.mkCt b N [WS]) = WS := by simp [phase, phaseBig, Ks.mkCt, GLWE.rank]
  rw [hph1, hph2] at hrel
  have he' : |e| ≤ 2 ^ (b * S + (-lo).toNat) := by
    have : snorm (min ([WS].length - 1) ([] : List Poly).length) [] = 0 := by simp [snorm]
    rw [this] at he; simpa using he
  -- the full accumulator against the product
  obtain ⟨T, _, hT0, hacc'⟩ := acc_coeff N hN b [] x [] y hi sa hx (by simp) hxl (by simp) hy hsa hsb hhi
  have hXW := hacc' t ht
  have hph3 : phase [] (Ks.mkCt b N ([x].map (fun x => Hal.cnvApplyCol N (sa + y.length - hi) hi x y))) = WF := by
    simp [phase, phaseBig, Ks.mkCt, GLWE.rank, hWF, hF]
  have hph4 : phase [] (Ks.mkCt b N [x]) = x := by simp [phase, phaseBig, Ks.mkCt, GLWE.rank]
  rw [hph3, hph4] at hXW
  -- truncation
  have hsplit : valCoeff b WF t = valCoeff b WS t * 2 ^ (b * (F - S)) + valCoeff b (WF.drop S) t := by
    conv_lhs => rw [← List.take_append_drop S WF]
    rw [valCoeff_append, ← hWSt, List.length_drop, hWFwf.1]
  set D := valCoeff b (WF.drop S) t with hD
  have hDb : |D| * 2 ^ b ≤ 2 * (2 ^ b * H1) * 2 ^ (b * (F - S)) := by
    have := valCoeff_geo2 b hb1 (WF.drop S) t (2 ^ b * H1) (fun l hl => by
      have hm := List.mem_of_mem_drop hl
      by_cases h : t < l.length
      · exact hacc l hm _ (Mask.getD_mem_lt l t h)
      · rw [List.getD_eq_getElem?_getD, List.getElem?_eq_none (by omega)]; simp; positivity) (by positivity)
    rw [List.length_drop, hWFwf.1] at this
    exact this
  have hDb' : |D| ≤ 2 * H1 * 2 ^ (b * (F - S)) := by
    have : |D| * 2 ^ b ≤ (2 * H1 * 2 ^ (b * (F - S))) * 2 ^ b := by linarith [hDb]
    exact le_of_mul_le_mul_right this hpb
  have hD0 : S = F → D = 0 := by
    intro h; rw [hD, h, ← hWFwf.1, List.drop_length]; simp [valCoeff]
  set X' := valCoeff b c t
  set Z := (Hal.negMul (valP b N x) (valP b N y)).getD t 0
  have hFhi : F + hi = sa + y.length := by omega
  obtain ⟨j, hj⟩ : ∃ j, F = S + j := ⟨F - S, by omega⟩
  have hFS : F - S = j := by omega
  rw [hFS] at hsplit hDb'
  rcases split_cases b cnv (by omega) with ⟨hc1, hz⟩ | ⟨hh0, hp0, hc2⟩
  · -- `lo ≥ 0`
    rw [← hlodef] at hz hc1
    rw [hz] at hrel he' ⊢
    simp only [Nat.add_zero] at hrel he' ⊢
    refine ⟨q - 2 ^ lo.toNat * T.getD t 0, e * 2 ^ (b * j) * 2 ^ (b * hi) - 2 ^ lo.toNat * 2 ^ (b * ts) * 2 ^ (b * hi) * D, ?_, ?_⟩
    · have e1 : (2 : Int) ^ (b * (sa + y.length)) = 2 ^ (b * S) * 2 ^ (b * j) * 2 ^ (b * hi) := by
        rw [← pow_add, ← pow_add, ← Nat.mul_add, ← Nat.mul_add, ← hFhi, hj]
      have e2 : (2 : Int) ^ cnv = 2 ^ lo.toNat * 2 ^ (b * hi) * 2 ^ b := by
        rw [← pow_add, ← pow_add]; congr 1; rw [← hc1, ← hhidef]; ring
      have e3 : (2 : Int) ^ (b * ts + b * (sa + y.length)) = 2 ^ (b * ts) * (2 ^ (b * S) * 2 ^ (b * j) * 2 ^ (b * hi)) := by rw [pow_add, e1]
      have e4 : (2 : Int) ^ (b * ts + b * S) = 2 ^ (b * ts) * 2 ^ (b * S) := pow_add _ _ _
      have e5 : (2 : Int) ^ (b * F) = 2 ^ (b * S) * 2 ^ (b * j) := by rw [hj, Nat.mul_add, pow_add]
      rw [e1, e2, e3]
      rw [e4] at hrel
      rw [e5] at hXW
      linear_combination (2 ^ (b * j) * 2 ^ (b * hi)) * hrel
        + (2 ^ lo.toNat * 2 ^ (b * ts) * 2 ^ (b * hi)) * hXW - (2 ^ lo.toNat * 2 ^ (b * ts) * 2 ^ (b * hi)) * hsplit
    · have e1 : (2 : Int) ^ (b * (sa + y.length)) = 2 ^ (b * S) * 2 ^ (b * j) * 2 ^ (b * hi) := by
        rw [← pow_add, ← pow_add, ← Nat.mul_add, ← Nat.mul_add, ← hFhi, hj]
      rw [e1]
      have hA : |e * 2 ^ (b * j) * 2 ^ (b * hi)| ≤ 2 ^ (b * S) * 2 ^ (b * j) * 2 ^ (b * hi) := by
        rw [abs_mul, abs_mul, abs_of_pos (by positivity : (0 : Int) < 2 ^ (b * j)), abs_of_pos (by positivity : (0 : Int) < 2 ^ (b * hi))]
        gcongr
      have hB : |2 ^ lo.toNat * 2 ^ (b * ts) * 2 ^ (b * hi) * D| ≤ 2 * H1 * (2 ^ (b * S) * 2 ^ (b * j) * 2 ^ (b * hi)) := by
        rcases hS with hSe | hSc
        · have : D = 0 := hD0 hSe
          rw [this]; simp; positivity
        · rw [abs_mul, abs_of_pos (by positivity : (0 : Int) < 2 ^ lo.toNat * 2 ^ (b * ts) * 2 ^ (b * hi))]
          have hcov : (2 : Int) ^ lo.toNat * 2 ^ (b * ts) ≤ 2 ^ (b * S) := by
            rw [← pow_add]; exact pow_le_pow_right₀ (by norm_num) (by omega)
          calc 2 ^ lo.toNat * 2 ^ (b * ts) * 2 ^ (b * hi) * |D|
                ≤ 2 ^ lo.toNat * 2 ^ (b * ts) * 2 ^ (b * hi) * (2 * H1 * 2 ^ (b * j)) :=
                  mul_le_mul_of_nonneg_left hDb' (by positivity)
            _ = (2 ^ lo.toNat * 2 ^ (b * ts)) * (2 * H1 * 2 ^ (b * j) * 2 ^ (b * hi)) := by ring
            _ ≤ 2 ^ (b * S) * (2 * H1 * 2 ^ (b * j) * 2 ^ (b * hi)) := mul_le_mul_of_nonneg_right hcov (by positivity)
            _ = _ := by ring
      calc |e * 2 ^ (b * j) * 2 ^ (b * hi) - 2 ^ lo.toNat * 2 ^ (b * ts) * 2 ^ (b * hi) * D|
            ≤ |e * 2 ^ (b * j) * 2 ^ (b * hi)| + |2 ^ lo.toNat * 2 ^ (b * ts) * 2 ^ (b * hi) * D| := abs_sub _ _
        _ ≤ _ := by linarith
  · -- `cnv_offset < b`: `hi = 0`
    rw [← hhidef] at hh0
    rw [← hlodef] at hp0 hc2
    have hFe : F = sa + y.length := by omega
    have hT := hT0 hh0 t
    rw [hT, mul_zero, add_zero] at hXW
    rw [hp0] at hrel
    simp only [pow_zero, one_mul] at hrel
    refine ⟨q, e * 2 ^ (b * j) - 2 ^ (b * ts) * D, ?_, ?_⟩
    · have e1 : (2 : Int) ^ (b * (sa + y.length) + (-lo).toNat) = 2 ^ (b * S + (-lo).toNat) * 2 ^ (b * j) := by
        rw [← pow_add]; congr 1; rw [← hFe, hj]; ring
      have e2 : (2 : Int) ^ (cnv + (-lo).toNat) = 2 ^ b := by rw [hc2]
      have e3 : (2 : Int) ^ (b * ts + (b * (sa + y.length) + (-lo).toNat)) = 2 ^ (b * ts + (b * S + (-lo).toNat)) * 2 ^ (b * j) := by
        rw [← pow_add]; congr 1; rw [← hFe, hj]; ring
      rw [e1, e2, e3]
      linear_combination (2 ^ (b * j)) * hrel + (2 ^ (b * ts)) * hXW - (2 ^ (b * ts)) * hsplit
    · have e1 : (2 : Int) ^ (b * (sa + y.length) + (-lo).toNat) = 2 ^ (b * S + (-lo).toNat) * 2 ^ (b * j) := by
        rw [← pow_add]; congr 1; rw [← hFe, hj]; ring
      rw [e1]
      have hA : |e * 2 ^ (b * j)| ≤ 2 ^ (b * S + (-lo).toNat) * 2 ^ (b * j) := by
        rw [abs_mul, abs_of_pos (by positivity : (0 : Int) < 2 ^ (b * j))]
        gcongr
      have hB : |2 ^ (b * ts) * D| ≤ 2 * H1 * (2 ^ (b * S + (-lo).toNat) * 2 ^ (b * j)) := by
        rcases hS with hSe | hSc
        · have : D = 0 := hD0 hSe
          rw [this]; simp; positivity
        · rw [abs_mul, abs_of_pos (by positivity : (0 : Int) < 2 ^ (b * ts))]
          have hcov : (2 : Int) ^ (b * ts) ≤ 2 ^ (b * S + (-lo).toNat) := pow_le_pow_right₀ (by norm_num) (by omega)
          calc 2 ^ (b * ts) * |D| ≤ 2 ^ (b * ts) * (2 * H1 * 2 ^ (b * j)) := mul_le_mul_of_nonneg_left hDb' (by positivity)
            _ ≤ 2 ^ (b * S + (-lo).toNat) * (2 * H1 * 2 ^ (b * j)) := mul_le_mul_of_nonneg_right hcov (by positivity)
            _ = _ := by ring
      calc |e * 2 ^ (b * j) - 2 ^ (b * ts) * D| ≤ |e * 2 ^ (b * j)| + |2 ^ (b * ts) * D| := abs_sub _ _
        _ ≤ _ := by linarith

end Ckks.Tensor
