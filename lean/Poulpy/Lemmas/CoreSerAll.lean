/-
C19: serialisation commutes with decompression for every single-layout compressed type, from C18's
generic round-trip statement `Ser.RoundTrips` (Lemmas/BytesRT): the reader returns the source's fields,
seeds, dimensions and active bytes, and the decoded view (stored cells / body + seed words) only looks
at those.
-/
import Poulpy.Lemmas.CoreSerDec
import Poulpy.Lemmas.BytesRT

namespace CoreSerAll
open Ser

/-- the stored cells (storage index, body, seed words) of any compressed matrix state, whatever its header -/
def cellsOf (s : St) : Option (List (Nat × Core.CellC)) :=
  match s.seeds, s.leaves with
  | [g], [.mat m] =>
    some ((List.range g.count).map (fun idx =>
      (idx, { body := CoreSer.decodeBlock m idx 0, seed := CoreSer.seedWords ((g.filled.drop (32 * idx)).take 32) })))
  | _, _ => none

/-- the decompressed cells of a compressed matrix state: `decompress_glwe` of every stored cell -/
def decompressCells (expand : List Nat → List Nat) (b n rank : Nat) (s : St) : Option (List (Nat × Option (List Col))) :=
  (cellsOf s).map (fun cs => cs.map (fun c => (c.1, Core.decompressCell b n rank expand c.2)))

/-- `decompress_lwe` of the LWE compressed state (`fields = [k, base2k]`, one column of one coefficient per limb),
into a receiver of LWE dimension `nl` -/
def lweOfState (expand : List Nat → List Nat) (nl : Nat) (s : St) : Option Col :=
  match s.fields, s.seeds, s.leaves with
  | [_, b], [g], [.vec v] =>
    Core.decompressLwe b nl ((CoreSer.decodeCol v 0).map (fun l => l.getD 0 0)) (expand (CoreSer.seedWords g.filled))
  | _, _, _ => none

/-- matrix-shaped compressed types: the round trip preserves fields, seeds and the decoded cells -/
theorem mat_commutes {ws : List Nat} {r : Rd St Unit} {w : Profile → St → Outcome Bytes}
    (hrt : RoundTrips ws .many .mat false r w) (p : Profile) (x s : St) (tail : Bytes)
    (hf : FieldsFit ws x.fields) (hl : s.fields.length = x.fields.length) (hs : SeedsOK .many x s) (hleaf : LeafOK .mat x s) :
    ∃ bs rs', w p x = .ok bs ∧ r s (bs ++ tail) = .ok () rs' tail ∧ rs'.fields = x.fields ∧ rs'.seeds = x.seeds ∧
      cellsOf rs' = cellsOf x := by
  obtain ⟨bs, h1, h2⟩ := hrt p x s tail hf hl (by intro h; cases h) hs hleaf
  refine ⟨bs, _, h1, h2, rfl, rfl, ?_⟩
  obtain ⟨lx, ls, hx, hsl, _, hinv, _⟩ := hleaf
  obtain ⟨c, blk, g0, hxs, _, _, _, _⟩ := hs
  have hm : mergedLeaves x s = [.mat (matMerge lx ls)] := by
    unfold mergedLeaves; rw [hx, hsl]
  simp only [cellsOf, seedsAfter, hm, hxs, hx]
  have := fun idx => CoreSer.decodeBlock_overwrite lx ls.data idx 0 hinv
  simp only [matMerge, this]

/-- vector-shaped compressed types (`GLWECompressed`, `LWECompressed`) -/
theorem vec_commutes {ws : List Nat} {r : Rd St Unit} {w : Profile → St → Outcome Bytes}
    (hrt : RoundTrips ws .one .vec false r w) (p : Profile) (x s : St) (tail : Bytes)
    (hf : FieldsFit ws x.fields) (hl : s.fields.length = x.fields.length) (hs : SeedsOK .one x s) (hleaf : LeafOK .vec x s)
    (expand : List Nat → List Nat) (nl : Nat) :
    ∃ bs rs', w p x = .ok bs ∧ r s (bs ++ tail) = .ok () rs' tail ∧ rs'.fields = x.fields ∧ rs'.seeds = x.seeds ∧
      CoreSer.glweOfState expand rs' = CoreSer.glweOfState expand x ∧ lweOfState expand nl rs' = lweOfState expand nl x := by
  obtain ⟨bs, h1, h2⟩ := hrt p x s tail hf hl (by intro h; cases h) hs hleaf
  refine ⟨bs, _, h1, h2, rfl, rfl, ?_⟩
  obtain ⟨lx, ls, hx, hsl, _, hinv, _⟩ := hleaf
  obtain ⟨sd, g0, hxs, _, _⟩ := hs
  have hm : mergedLeaves x s = [.vec (vecMerge lx ls)] := by
    unfold mergedLeaves; rw [hx, hsl]
  have hact : lx.n * lx.cols * lx.size * 8 ≤ lx.data.length := by
    obtain ⟨h1, h2⟩ := hinv
    exact le_trans (Nat.mul_le_mul_right 8 (Nat.mul_le_mul_left _ h1)) h2
  have hd := CoreSer.decodeCol_overwrite lx ls.data 0 hact
  constructor
  · simp only [CoreSer.glweOfState, seedsAfter, hm, hxs, hx, vecMerge]
    generalize x.fields = F
    rcases F with _ | ⟨a, _ | ⟨b, _ | ⟨c, t⟩⟩⟩ <;> simp only [hd]
  · simp only [lweOfState, seedsAfter, hm, hxs, hx, vecMerge]
    generalize x.fields = F
    rcases F with _ | ⟨a, _ | ⟨b, _ | ⟨c, t⟩⟩⟩ <;> simp only [hd]

/-- the eight matrix-shaped compressed types of poulpy-core -/
def compressedMatTypes : List String :=
  ["gglwe_compressed", "ggsw_compressed", "glwe_tensor_key_compressed", "glwe_switching_key_compressed",
   "lwe_switching_key_compressed", "lwe_to_glwe_key_compressed", "glwe_to_lwe_key_compressed", "glwe_automorphism_key_compressed"]

/-- the two vector-shaped compressed types -/
def compressedVecTypes : List String := ["glwe_compressed", "lwe_compressed"]

theorem mat_commutes' {ws : List Nat} {r : Rd St Unit} {w : Profile → St → Outcome Bytes}
    (hrt : RoundTrips ws .many .mat false r w) (p : Profile) (x s : St) (tail : Bytes)
    (hf : FieldsFit ws x.fields) (hl : s.fields.length = x.fields.length) (hs : SeedsOK .many x s) (hleaf : LeafOK .mat x s) :
    ∃ bs rs', w p x = .ok bs ∧ r s (bs ++ tail) = .ok () rs' tail ∧ rs'.fields = x.fields ∧ rs'.seeds = x.seeds ∧
      cellsOf rs' = cellsOf x ∧
      ∀ (expand : List Nat → List Nat) (b n rank : Nat), decompressCells expand b n rank rs' = decompressCells expand b n rank x := by
  obtain ⟨bs, rs', h1, h2, h3, h4, h5⟩ := mat_commutes hrt p x s tail hf hl hs hleaf
  exact ⟨bs, rs', h1, h2, h3, h4, h5, fun _ _ _ _ => by unfold decompressCells; rw [h5]⟩

end CoreSerAll
