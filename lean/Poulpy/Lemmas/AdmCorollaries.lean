import Poulpy.Lemmas.KsHeadRoom
import Poulpy.Lemmas.FusedAny
import Poulpy.Lemmas.AutoDecrypt
import Poulpy.Lemmas.LweDecrypt

/-!
# Admissible-shape corollaries: the automorphism, fused and LWE end-to-end theorems with the head-room derived from digit bounds

`KsDec.glwe_keyswitch_decrypts_adm` (`Lemmas/KsHeadRoom.lean`) replaces the three hypotheses on the executed product buffer (`hHp0`, `hAcc`,
`hprod`, and the variable `Hp`) of `glwe_keyswitch_decrypts` by a bound `Dm` on the key digits and ONE decidable inequality.  This file gives
the same `_adm` form of every other end-to-end theorem that carried those hypotheses.  Each is a thin wrapper: `Hp := prodBound …`, `hprod`
from `prodOf_conv_bound`.

* Part 1 — `glwe_automorphism_decrypts_adm`, `glwe_automorphism_assign_decrypts_adm` (`ksAdmissible`, as the key switch).
* Part 2 — `fusedAdmShape` / `fusedAdmissible` (head-room `Hp + 2·(Hin + 2^b_key) + 8 ≤ 2^(bits−2)` of the fused forms: the accumulator holds
  the product, the body AND the added/subtracted input), decidable, `decide`d on the crate's parameter sets; the five `…_any_adm` theorems
  (arbitrary content of the un-zeroed `res_dft` scratch).
* Part 3 — `KsSideAdm` (the structure `KsSide` of `Lemmas/LweDecrypt.lean` without `hHp0`, `hAcc`, `hprod`, with `hDm0`, `hDmB`, `hadm`),
  `KsSide.of_adm`, `glwe_keyswitch_decrypts_coeff_adm`, `lwe_keyswitch_decrypts_adm`, `glwe_to_lwe_decrypts_adm`, `lwe_to_glwe_decrypts_adm`.
-/

namespace KsDec
open Hal Core Core.Ops C02L AutoMul

/-! ## Part 1: `glwe_automorphism{,_assign}` -/

/-- **`glwe_automorphism_decrypts_adm`** — `glwe_automorphism_decrypts` with the head-room DERIVED: `hHp0`, `hAcc`, `hprod` (and `Hp`) replaced
by the key digit bound `Dm` (`hDm0`, `hDmB`) and the decidable `ksAdmissible big128 key N Hin Dm`. -/
theorem glwe_automorphism_decrypts_adm (big128 : Bool) (N bout sout rout : Nat) (a : Ks.Ct) (key : Ks.Key) (sk : List Poly) (gInv : Int)
    (EL KL : ℕ → ℕ → Poly) (Hin Dm : Int)
    (hN : 0 < N) (hg : GalOk key.p N) (hsk : Ks.AllLen N sk) (hinv : ∀ s ∈ sk, σ key.p (σ gInv s) = s)
    (ha : GWF N a) (hrank : a.rank = key.rankIn) (hrout : rout = key.rankOut) (hc0 : 0 < key.mat.colsOut)
    (hD : 1 ≤ key.dsize) (hM : ∀ j q, (key.mat.entry j q).length = N) (hS : key.mat.rows * key.dsize ≤ key.mat.size)
    (hbi1 : 1 ≤ a.base2k) (hbi : a.base2k ≤ 62) (hbk1 : 1 ≤ key.base2k) (hbk : key.base2k ≤ 62) (hbo1 : 1 ≤ bout) (hbo : bout ≤ 62)
    (hIn0 : 0 ≤ Hin) (hIn : Hin + 8 ≤ 2 ^ 62) (hInB : ∀ c ∈ a.cols, ∀ l ∈ c, ∀ x ∈ l, |x| ≤ Hin)
    (hDm0 : 0 ≤ Dm) (hDmB : ∀ j q, normInf (key.mat.entry j q) ≤ Dm) (hadm : ksAdmissible big128 key N Hin Dm)
    (hs : key.mat.colsIn ≤ sk.length)
    (hEL : ∀ i r, (EL i r).length = N) (hKL : ∀ i r, (KL i r).length = N)
    (hkey : ∀ i, i < key.mat.colsIn → ∀ r, r < key.mat.rows →
      Gadget.val (Ks.radix N key.base2k) key.mat.size (Ks.keyPhase N (sk.map (σ gInv)) key.mat i r) =
        Ks.ι N (sk.getD i []) * Ks.radix N key.base2k ^ (key.mat.size - (r + 1) * key.dsize) + Ks.ι N (EL i r)
          + Ks.radix N key.base2k ^ key.mat.size * Ks.ι N (KL i r))
    (hcov1 : convSize a key ≤ key.mat.size) (hcov2 : convSize a key ≤ key.mat.rows * key.dsize) :
    ∃ res aConv, Ks.automorphism big128 bout sout rout a key = .ok res ∧ Ks.convIn a key = .ok aConv ∧
      GWF N res ∧ res.base2k = bout ∧ res.size = sout ∧ res.rank = rout ∧
      ∃ (E1 E3 : Poly) (Q : Ks.R N), E1.length = N ∧ E3.length = N ∧
        normInf E1 ≤ (1 + snorm (min a.rank sk.length) sk) * C02.normTol (key.base2k * convSize a key) (a.base2k * a.size) ∧
        normInf E3 ≤ (1 + snorm (min rout (sk.map (σ gInv)).length) (sk.map (σ gInv))) *
          C02.normTol (bout * sout) (key.base2k * key.mat.size) ∧
        (2 : Ks.R N) ^ (a.base2k * a.size + key.base2k * key.mat.size) * Ks.ι N (valP bout N (phase sk res))
          = (2 : Ks.R N) ^ (bout * sout + key.base2k * key.mat.size) * Ks.ι N (σ key.p (valP a.base2k N (phase sk a)))
            + Ks.ι N (σ key.p (ksErr (2 ^ (bout * sout + key.base2k * (key.mat.size - convSize a key))) (2 ^ (a.base2k * a.size + bout * sout))
                (2 ^ (a.base2k * a.size)) E1 (Ks.errL N key.base2k (aDftOf aConv) key EL)
                (Ks.dropL N key.base2k (sk.map (σ gInv)) (aDftOf aConv) key) E3))
            + (2 : Ks.R N) ^ (a.base2k * a.size + bout * sout + key.base2k * key.mat.size) * Q ∧
        normInf (σ key.p (ksErr (2 ^ (bout * sout + key.base2k * (key.mat.size - convSize a key))) (2 ^ (a.base2k * a.size + bout * sout))
                (2 ^ (a.base2k * a.size)) E1 (Ks.errL N key.base2k (aDftOf aConv) key EL)
                (Ks.dropL N key.base2k (sk.map (σ gInv)) (aDftOf aConv) key) E3))
          ≤ 2 ^ (bout * sout + key.base2k * (key.mat.size - convSize a key)) *
              ((1 + snorm (min a.rank sk.length) sk) * C02.normTol (key.base2k * convSize a key) (a.base2k * a.size))
            + 2 ^ (a.base2k * a.size + bout * sout) * gadgetBound N key.base2k (aDftOf aConv) key EL
            + 2 ^ (a.base2k * a.size + bout * sout) * dropBound N key.base2k (sk.map (σ gInv)) (aDftOf aConv) key
            + 2 ^ (a.base2k * a.size) *
              ((1 + snorm (min rout (sk.map (σ gInv)).length) (sk.map (σ gInv))) *
                C02.normTol (bout * sout) (key.base2k * key.mat.size)) := by
  have hrout' : rout + 1 = key.mat.colsOut := by rw [hrout]; unfold Ks.Key.rankOut; omega
  have hpk : (0 : Int) < 2 ^ key.base2k := by positivity
  exact glwe_automorphism_decrypts big128 N bout sout rout a key sk gInv EL KL Hin
    (prodBound key.dsize key.mat.colsIn key.mat.rows N (Hin + 2 ^ key.base2k) Dm)
    hN hg hsk hinv ha hrank hrout hc0 hD hM hS hbi1 hbi hbk1 hbk hbo1 hbo hIn0 hIn hInB
    (prodBound_nonneg _ _ _ _ _ _ (by linarith) hDm0) hadm
    (prodOf_conv_bound N rout a key Hin Dm ha hrout' hD hbi1 hbi hbk1 hbk hIn0 hIn hInB hDm0 hDmB)
    hs hEL hKL hkey hcov1 hcov2

/-- **`glwe_automorphism_assign_decrypts_adm`** — the in-place form, head-room derived. -/
theorem glwe_automorphism_assign_decrypts_adm (big128 : Bool) (N : Nat) (a : Ks.Ct) (key : Ks.Key) (sk : List Poly) (gInv : Int)
    (EL KL : ℕ → ℕ → Poly) (Hin Dm : Int)
    (hN : 0 < N) (hg : GalOk key.p N) (hsk : Ks.AllLen N sk) (hinv : ∀ s ∈ sk, σ key.p (σ gInv s) = s)
    (ha : GWF N a) (hrank : a.rank = key.rankIn) (hrout : a.rank = key.rankOut) (hc0 : 0 < key.mat.colsOut)
    (hD : 1 ≤ key.dsize) (hM : ∀ j q, (key.mat.entry j q).length = N) (hS : key.mat.rows * key.dsize ≤ key.mat.size)
    (hbi1 : 1 ≤ a.base2k) (hbi : a.base2k ≤ 62) (hbk1 : 1 ≤ key.base2k) (hbk : key.base2k ≤ 62)
    (hIn0 : 0 ≤ Hin) (hIn : Hin + 8 ≤ 2 ^ 62) (hInB : ∀ c ∈ a.cols, ∀ l ∈ c, ∀ x ∈ l, |x| ≤ Hin)
    (hDm0 : 0 ≤ Dm) (hDmB : ∀ j q, normInf (key.mat.entry j q) ≤ Dm) (hadm : ksAdmissible big128 key N Hin Dm)
    (hs : key.mat.colsIn ≤ sk.length)
    (hEL : ∀ i r, (EL i r).length = N) (hKL : ∀ i r, (KL i r).length = N)
    (hkey : ∀ i, i < key.mat.colsIn → ∀ r, r < key.mat.rows →
      Gadget.val (Ks.radix N key.base2k) key.mat.size (Ks.keyPhase N (sk.map (σ gInv)) key.mat i r) =
        Ks.ι N (sk.getD i []) * Ks.radix N key.base2k ^ (key.mat.size - (r + 1) * key.dsize) + Ks.ι N (EL i r)
          + Ks.radix N key.base2k ^ key.mat.size * Ks.ι N (KL i r))
    (hcov1 : convSize a key ≤ key.mat.size) (hcov2 : convSize a key ≤ key.mat.rows * key.dsize) :
    ∃ res aConv, Ks.automorphism big128 a.base2k a.size a.rank a key = .ok res ∧ Ks.convIn a key = .ok aConv ∧
      GWF N res ∧ res.base2k = a.base2k ∧ res.size = a.size ∧ res.rank = a.rank ∧
      ∃ (E1 E3 : Poly) (Q : Ks.R N), E1.length = N ∧ E3.length = N ∧
        normInf E1 ≤ (1 + snorm (min a.rank sk.length) sk) * C02.normTol (key.base2k * convSize a key) (a.base2k * a.size) ∧
        normInf E3 ≤ (1 + snorm (min a.rank (sk.map (σ gInv)).length) (sk.map (σ gInv))) *
          C02.normTol (a.base2k * a.size) (key.base2k * key.mat.size) ∧
        (2 : Ks.R N) ^ (a.base2k * a.size + key.base2k * key.mat.size) * Ks.ι N (valP a.base2k N (phase sk res))
          = (2 : Ks.R N) ^ (a.base2k * a.size + key.base2k * key.mat.size) * Ks.ι N (σ key.p (valP a.base2k N (phase sk a)))
            + Ks.ι N (σ key.p (ksErr (2 ^ (a.base2k * a.size + key.base2k * (key.mat.size - convSize a key))) (2 ^ (a.base2k * a.size + a.base2k * a.size))
                (2 ^ (a.base2k * a.size)) E1 (Ks.errL N key.base2k (aDftOf aConv) key EL)
                (Ks.dropL N key.base2k (sk.map (σ gInv)) (aDftOf aConv) key) E3))
            + (2 : Ks.R N) ^ (a.base2k * a.size + a.base2k * a.size + key.base2k * key.mat.size) * Q ∧
        normInf (σ key.p (ksErr (2 ^ (a.base2k * a.size + key.base2k * (key.mat.size - convSize a key))) (2 ^ (a.base2k * a.size + a.base2k * a.size))
                (2 ^ (a.base2k * a.size)) E1 (Ks.errL N key.base2k (aDftOf aConv) key EL)
                (Ks.dropL N key.base2k (sk.map (σ gInv)) (aDftOf aConv) key) E3))
          ≤ 2 ^ (a.base2k * a.size + key.base2k * (key.mat.size - convSize a key)) *
              ((1 + snorm (min a.rank sk.length) sk) * C02.normTol (key.base2k * convSize a key) (a.base2k * a.size))
            + 2 ^ (a.base2k * a.size + a.base2k * a.size) * gadgetBound N key.base2k (aDftOf aConv) key EL
            + 2 ^ (a.base2k * a.size + a.base2k * a.size) * dropBound N key.base2k (sk.map (σ gInv)) (aDftOf aConv) key
            + 2 ^ (a.base2k * a.size) *
              ((1 + snorm (min a.rank (sk.map (σ gInv)).length) (sk.map (σ gInv))) *
                C02.normTol (a.base2k * a.size) (key.base2k * key.mat.size)) :=
  glwe_automorphism_decrypts_adm big128 N a.base2k a.size a.rank a key sk gInv EL KL Hin Dm hN hg hsk hinv ha hrank hrout hc0 hD hM hS hbi1 hbi
    hbk1 hbk hbi1 hbi hIn0 hIn hInB hDm0 hDmB hadm hs hEL hKL hkey hcov1 hcov2

/-- the digits of the example key `exKeyG3` are bounded by `1` -/
theorem exG3_Dm (j q : Nat) : normInf (exKeyG3.mat.entry j q) ≤ 1 :=
  entry_normInf exKeyG3.mat 1 (by norm_num) (by decide) j q

/-- closed instance: `glwe_automorphism` with `g = 3` on `N = 2`, both accumulator widths — no hypothesis on the product buffer, the
admissibility by `decide` -/
example (big128 : Bool) :
    ∃ res aConv, Ks.automorphism big128 3 2 1 exCtN2 exKeyG3 = .ok res ∧ Ks.convIn exCtN2 exKeyG3 = .ok aConv ∧
      GWF 2 res ∧ res.base2k = 3 ∧ res.size = 2 ∧ res.rank = 1 := by
  have hM := Ks.entry_length exKeyG3.mat 2 rfl (by decide)
  obtain ⟨res, aConv, h1, h2, h3, h4, h5, h6, _⟩ :=
    glwe_automorphism_decrypts_adm big128 2 3 2 1 exCtN2 exKeyG3 exSk2 3 exELG3 (fun _ _ => [0, 0]) 2 1
      (by decide) exG3_ok (by intro p hp; simp [exSk2] at hp; subst hp; rfl) (by intro s hs; simp [exSk2] at hs; subst hs; decide)
      (by decide) rfl rfl (by decide) (by decide) hM (by decide)
      (by decide) (by decide) (by decide) (by decide) (by decide) (by decide)
      (by norm_num) (by norm_num)
      (by intro c hc l hl x hx; revert x l c; decide)
      (by norm_num) exG3_Dm (by cases big128 <;> decide)
      (by decide)
      (fun i r => Ks.keyErrL_length 2 4 _ exKeyG3 _ i r (by decide) hM (fun _ => rfl))
      (fun _ _ => rfl)
      (fun i hi r _ => exG3_key i hi r)
      (by decide) (by decide)
  exact ⟨res, aConv, h1, h2, h3, h4, h5, h6⟩

/-! ## Part 2: the fused forms `glwe_automorphism_{add,sub,sub_negate}{,_assign}`, arbitrary scratch content -/

/-- **admissible shape of a fused automorphism**: as `ksAdmShape`, with the operand added to the product bounded by `2·(Hin + 2^b_key)`
(the body of the converted input, and the converted input added or subtracted after the automorphism). -/
def fusedAdmShape (bits dsize colsIn rows N bkey : Nat) (Hin Dm : Int) : Prop :=
  prodAdmissible bits dsize colsIn rows N (Hin + 2 ^ bkey) Dm (2 * (Hin + 2 ^ bkey))

instance (bits dsize colsIn rows N bkey : Nat) (Hin Dm : Int) : Decidable (fusedAdmShape bits dsize colsIn rows N bkey Hin Dm) := by
  unfold fusedAdmShape; infer_instance

/-- the admissible-shape inequality of `glwe_automorphism_{add,sub,sub_negate}(…, key)` on a ring of degree `N`:
`dsize·(rank_in·dnum)·N·(Hin + 2^b_key)·Dm + 2·(Hin + 2^b_key) + 8 ≤ 2^62` (resp. `2^126`) -/
def fusedAdmissible (big128 : Bool) (key : Ks.Key) (N : Nat) (Hin Dm : Int) : Prop :=
  fusedAdmShape (bitsOf big128) key.dsize key.mat.colsIn key.mat.rows N key.base2k Hin Dm

instance (big128 : Bool) (key : Ks.Key) (N : Nat) (Hin Dm : Int) : Decidable (fusedAdmissible big128 key N Hin Dm) := by
  unfold fusedAdmissible; infer_instance

theorem fusedAdmissible_iff (big128 : Bool) (key : Ks.Key) (N : Nat) (Hin Dm : Int) :
    fusedAdmissible big128 key N Hin Dm ↔
      prodBound key.dsize key.mat.colsIn key.mat.rows N (Hin + 2 ^ key.base2k) Dm + 2 * (Hin + 2 ^ key.base2k) + 8
        ≤ 2 ^ (bitsOf big128 - 2) := Iff.rfl

theorem fusedAdmissible_iff_shape (big128 : Bool) (key : Ks.Key) (N : Nat) (Hin Dm : Int) :
    fusedAdmissible big128 key N Hin Dm ↔
      fusedAdmShape (bitsOf big128) key.dsize key.mat.colsIn key.mat.rows N key.base2k Hin Dm := Iff.rfl

/-- the fused head-room implies the head-room of the plain key switch / automorphism -/
theorem fusedAdmissible.ks {big128 : Bool} {key : Ks.Key} {N : Nat} {Hin Dm : Int} (hIn0 : 0 ≤ Hin)
    (h : fusedAdmissible big128 key N Hin Dm) : ksAdmissible big128 key N Hin Dm := by
  rw [fusedAdmissible_iff] at h
  rw [ksAdmissible_iff]
  have hpk : (0 : Int) < 2 ^ key.base2k := by positivity
  linarith

/-- the crate's parameter sets (those of the `ksAdmShape` example of `Lemmas/KsHeadRoom.lean`) are admissible for the fused forms too:
FFT64 `N = 4096`, rank 1 → 1, `dsize = 1`, `dnum = 3`, `b = 17`; FFT64 `N = 1024`, rank 2 → 2, `dsize = 2`, `dnum = 2`, `b = 12`; NTT120
`N = 4096`, rank 1, `b = 52`, `dnum = 8` on the `i128` accumulator — and `b = 52` is NOT admissible on the `i64` accumulator -/
example : fusedAdmShape 64 1 1 3 4096 17 (2 ^ 16) (2 ^ 16) ∧ fusedAdmShape 64 2 2 2 1024 12 (2 ^ 11) (2 ^ 11) ∧
    fusedAdmShape 128 1 1 8 4096 52 (2 ^ 51) (2 ^ 51) ∧ ¬ fusedAdmShape 64 1 1 8 4096 52 (2 ^ 51) (2 ^ 51) := by decide

/-- **`glwe_automorphism_fused_decrypts_any_adm`** — the three fused forms `glwe_automorphism_{add,sub,sub_negate}`, arbitrary `res_dft` scratch content: `glwe_automorphism_fused_decrypts_any` with the head-room DERIVED (`hHp0`, `hAcc`, `hprod`, `Hp` replaced by
`Dm`, `hDm0`, `hDmB` and the decidable `fusedAdmissible big128 key N Hin Dm`). -/
theorem glwe_automorphism_fused_decrypts_any_adm (f : Ks.Fused) (big128 : Bool) (N bout sout rout : Nat) (a : Ks.Ct) (key : Ks.Key) (dft0 : Buf)
    (sk : List Poly) (gInv : Int) (EL KL : ℕ → ℕ → Poly) (Hin Dm : Int)
    (hN : 0 < N) (hg : GalOk key.p N) (hsk : Ks.AllLen N sk) (hinv : ∀ s ∈ sk, σ key.p (σ gInv s) = s)
    (ha : GWF N a) (hrank : a.rank = key.rankIn) (hrout : rout = key.rankOut) (hra : a.rank = rout) (hc0 : 0 < key.mat.colsOut)
    (hD : 1 ≤ key.dsize) (hM : ∀ j q, (key.mat.entry j q).length = N) (hS : key.mat.rows * key.dsize ≤ key.mat.size)
    (hbi1 : 1 ≤ a.base2k) (hbi : a.base2k ≤ 62) (hbk1 : 1 ≤ key.base2k) (hbk : key.base2k ≤ 62) (hbo1 : 1 ≤ bout) (hbo : bout ≤ 62)
    (hIn0 : 0 ≤ Hin) (hIn : Hin + 8 ≤ 2 ^ 62) (hInB : ∀ c ∈ a.cols, ∀ l ∈ c, ∀ x ∈ l, |x| ≤ Hin)
    (hDm0 : 0 ≤ Dm) (hDmB : ∀ j q, normInf (key.mat.entry j q) ≤ Dm) (hadm : fusedAdmissible big128 key N Hin Dm)
    (hs : key.mat.colsIn ≤ sk.length)
    (hEL : ∀ i r, (EL i r).length = N) (hKL : ∀ i r, (KL i r).length = N)
    (hkey : ∀ i, i < key.mat.colsIn → ∀ r, r < key.mat.rows →
      Gadget.val (Ks.radix N key.base2k) key.mat.size (Ks.keyPhase N (sk.map (σ gInv)) key.mat i r) =
        Ks.ι N (sk.getD i []) * Ks.radix N key.base2k ^ (key.mat.size - (r + 1) * key.dsize) + Ks.ι N (EL i r)
          + Ks.radix N key.base2k ^ key.mat.size * Ks.ι N (KL i r))
    (hcov1 : convSize a key ≤ key.mat.size) (hcov2 : convSize a key ≤ key.mat.rows * key.dsize)
    (hdwf : dft0.WF) (hdn : dft0.n = N) (hdc : dft0.cols = rout + 1) (hds : dft0.size = key.mat.size) (hdm : dft0.maxSize = key.mat.size) :
    ∃ res aConv, Ks.automorphismFused f big128 dft0 bout sout rout a key = .ok res ∧
      Ks.convIn a key = .ok aConv ∧ GWF N res ∧ res.base2k = bout ∧ res.size = sout ∧ res.rank = rout ∧
      ∃ (E1 E3 : Poly) (Q : Ks.R N), E1.length = N ∧ E3.length = N ∧
        normInf E1 ≤ (1 + snorm (min a.rank sk.length) sk) * C02.normTol (key.base2k * convSize a key) (a.base2k * a.size) ∧
        normInf E3 ≤ (1 + snorm (min rout sk.length) sk) * C02.normTol (bout * sout) (key.base2k * key.mat.size) ∧
        (2 : Ks.R N) ^ (a.base2k * a.size + key.base2k * key.mat.size) * Ks.ι N (valP bout N (phase sk res))
          = (sgA f : Ks.R N) *
              ((2 : Ks.R N) ^ (bout * sout + key.base2k * key.mat.size) * Ks.ι N (σ key.p (valP a.base2k N (phase sk a)))
                + Ks.ι N (σ key.p (ksErr (2 ^ (bout * sout + key.base2k * (key.mat.size - convSize a key)))
                    (2 ^ (a.base2k * a.size + bout * sout)) 0 E1 (Ks.errL N key.base2k (aDftOf aConv) key EL)
                    (Ks.dropL N key.base2k (sk.map (σ gInv)) (aDftOf aConv) key) (zeroP N))))
            + (sgB f : Ks.R N) *
              ((2 : Ks.R N) ^ (bout * sout + key.base2k * key.mat.size) * Ks.ι N (valP a.base2k N (phase sk a))
                + Ks.ι N (polyScale (2 ^ (bout * sout + key.base2k * (key.mat.size - convSize a key))) E1))
            + Ks.ι N (polyScale (2 ^ (a.base2k * a.size)) E3)
            + (2 : Ks.R N) ^ (a.base2k * a.size + bout * sout + key.base2k * key.mat.size) * Q ∧
        normInf (σ key.p (ksErr (2 ^ (bout * sout + key.base2k * (key.mat.size - convSize a key)))
                    (2 ^ (a.base2k * a.size + bout * sout)) 0 E1 (Ks.errL N key.base2k (aDftOf aConv) key EL)
                    (Ks.dropL N key.base2k (sk.map (σ gInv)) (aDftOf aConv) key) (zeroP N)))
          ≤ 2 ^ (bout * sout + key.base2k * (key.mat.size - convSize a key)) *
              ((1 + snorm (min a.rank sk.length) sk) * C02.normTol (key.base2k * convSize a key) (a.base2k * a.size))
            + 2 ^ (a.base2k * a.size + bout * sout) * gadgetBound N key.base2k (aDftOf aConv) key EL
            + 2 ^ (a.base2k * a.size + bout * sout) * dropBound N key.base2k (sk.map (σ gInv)) (aDftOf aConv) key := by
  have hrout' : rout + 1 = key.mat.colsOut := by rw [hrout]; unfold Ks.Key.rankOut; omega
  have hpk : (0 : Int) < 2 ^ key.base2k := by positivity
  exact glwe_automorphism_fused_decrypts_any f big128 N bout sout rout a key dft0 sk gInv EL KL Hin
    (prodBound key.dsize key.mat.colsIn key.mat.rows N (Hin + 2 ^ key.base2k) Dm)
    hN hg hsk hinv ha hrank hrout hra hc0 hD hM hS hbi1 hbi hbk1 hbk hbo1 hbo hIn0 hIn hInB
    (prodBound_nonneg _ _ _ _ _ _ (by linarith) hDm0) hadm
    (prodOf_conv_bound N rout a key Hin Dm ha hrout' hD hbi1 hbi hbk1 hbk hIn0 hIn hInB hDm0 hDmB)
    hs hEL hKL hkey hcov1 hcov2 hdwf hdn hdc hds hdm

/-- **`glwe_automorphism_add_decrypts_any_adm`** — `glwe_automorphism_add`: `glwe_automorphism_add_decrypts_any` with the head-room DERIVED (`hHp0`, `hAcc`, `hprod`, `Hp` replaced by
`Dm`, `hDm0`, `hDmB` and the decidable `fusedAdmissible big128 key N Hin Dm`). -/
theorem glwe_automorphism_add_decrypts_any_adm (big128 : Bool) (N bout sout rout : Nat) (a : Ks.Ct) (key : Ks.Key) (dft0 : Buf)
    (sk : List Poly) (gInv : Int) (EL KL : ℕ → ℕ → Poly) (Hin Dm : Int)
    (hN : 0 < N) (hg : GalOk key.p N) (hsk : Ks.AllLen N sk) (hinv : ∀ s ∈ sk, σ key.p (σ gInv s) = s)
    (ha : GWF N a) (hrank : a.rank = key.rankIn) (hrout : rout = key.rankOut) (hra : a.rank = rout) (hc0 : 0 < key.mat.colsOut)
    (hD : 1 ≤ key.dsize) (hM : ∀ j q, (key.mat.entry j q).length = N) (hS : key.mat.rows * key.dsize ≤ key.mat.size)
    (hbi1 : 1 ≤ a.base2k) (hbi : a.base2k ≤ 62) (hbk1 : 1 ≤ key.base2k) (hbk : key.base2k ≤ 62) (hbo1 : 1 ≤ bout) (hbo : bout ≤ 62)
    (hIn0 : 0 ≤ Hin) (hIn : Hin + 8 ≤ 2 ^ 62) (hInB : ∀ c ∈ a.cols, ∀ l ∈ c, ∀ x ∈ l, |x| ≤ Hin)
    (hDm0 : 0 ≤ Dm) (hDmB : ∀ j q, normInf (key.mat.entry j q) ≤ Dm) (hadm : fusedAdmissible big128 key N Hin Dm)
    (hs : key.mat.colsIn ≤ sk.length)
    (hEL : ∀ i r, (EL i r).length = N) (hKL : ∀ i r, (KL i r).length = N)
    (hkey : ∀ i, i < key.mat.colsIn → ∀ r, r < key.mat.rows →
      Gadget.val (Ks.radix N key.base2k) key.mat.size (Ks.keyPhase N (sk.map (σ gInv)) key.mat i r) =
        Ks.ι N (sk.getD i []) * Ks.radix N key.base2k ^ (key.mat.size - (r + 1) * key.dsize) + Ks.ι N (EL i r)
          + Ks.radix N key.base2k ^ key.mat.size * Ks.ι N (KL i r))
    (hcov1 : convSize a key ≤ key.mat.size) (hcov2 : convSize a key ≤ key.mat.rows * key.dsize)
    (hdwf : dft0.WF) (hdn : dft0.n = N) (hdc : dft0.cols = rout + 1) (hds : dft0.size = key.mat.size) (hdm : dft0.maxSize = key.mat.size) :
    ∃ res aConv, Ks.automorphismFused .add big128 dft0 bout sout rout a key = .ok res ∧
      Ks.convIn a key = .ok aConv ∧ GWF N res ∧ res.base2k = bout ∧ res.size = sout ∧ res.rank = rout ∧
      ∃ (E1 E3 : Poly) (Q : Ks.R N), E1.length = N ∧ E3.length = N ∧
        normInf E1 ≤ (1 + snorm (min a.rank sk.length) sk) * C02.normTol (key.base2k * convSize a key) (a.base2k * a.size) ∧
        normInf E3 ≤ (1 + snorm (min rout sk.length) sk) * C02.normTol (bout * sout) (key.base2k * key.mat.size) ∧
        (2 : Ks.R N) ^ (a.base2k * a.size + key.base2k * key.mat.size) * Ks.ι N (valP bout N (phase sk res))
          = ((sgA .add : ℤ) : Ks.R N) *
              ((2 : Ks.R N) ^ (bout * sout + key.base2k * key.mat.size) * Ks.ι N (σ key.p (valP a.base2k N (phase sk a)))
                + Ks.ι N (σ key.p (ksErr (2 ^ (bout * sout + key.base2k * (key.mat.size - convSize a key)))
                    (2 ^ (a.base2k * a.size + bout * sout)) 0 E1 (Ks.errL N key.base2k (aDftOf aConv) key EL)
                    (Ks.dropL N key.base2k (sk.map (σ gInv)) (aDftOf aConv) key) (zeroP N))))
            + ((sgB .add : ℤ) : Ks.R N) *
              ((2 : Ks.R N) ^ (bout * sout + key.base2k * key.mat.size) * Ks.ι N (valP a.base2k N (phase sk a))
                + Ks.ι N (polyScale (2 ^ (bout * sout + key.base2k * (key.mat.size - convSize a key))) E1))
            + Ks.ι N (polyScale (2 ^ (a.base2k * a.size)) E3)
            + (2 : Ks.R N) ^ (a.base2k * a.size + bout * sout + key.base2k * key.mat.size) * Q ∧
        normInf (σ key.p (ksErr (2 ^ (bout * sout + key.base2k * (key.mat.size - convSize a key)))
                    (2 ^ (a.base2k * a.size + bout * sout)) 0 E1 (Ks.errL N key.base2k (aDftOf aConv) key EL)
                    (Ks.dropL N key.base2k (sk.map (σ gInv)) (aDftOf aConv) key) (zeroP N)))
          ≤ 2 ^ (bout * sout + key.base2k * (key.mat.size - convSize a key)) *
              ((1 + snorm (min a.rank sk.length) sk) * C02.normTol (key.base2k * convSize a key) (a.base2k * a.size))
            + 2 ^ (a.base2k * a.size + bout * sout) * gadgetBound N key.base2k (aDftOf aConv) key EL
            + 2 ^ (a.base2k * a.size + bout * sout) * dropBound N key.base2k (sk.map (σ gInv)) (aDftOf aConv) key := by
  have hrout' : rout + 1 = key.mat.colsOut := by rw [hrout]; unfold Ks.Key.rankOut; omega
  have hpk : (0 : Int) < 2 ^ key.base2k := by positivity
  exact glwe_automorphism_add_decrypts_any big128 N bout sout rout a key dft0 sk gInv EL KL Hin
    (prodBound key.dsize key.mat.colsIn key.mat.rows N (Hin + 2 ^ key.base2k) Dm)
    hN hg hsk hinv ha hrank hrout hra hc0 hD hM hS hbi1 hbi hbk1 hbk hbo1 hbo hIn0 hIn hInB
    (prodBound_nonneg _ _ _ _ _ _ (by linarith) hDm0) hadm
    (prodOf_conv_bound N rout a key Hin Dm ha hrout' hD hbi1 hbi hbk1 hbk hIn0 hIn hInB hDm0 hDmB)
    hs hEL hKL hkey hcov1 hcov2 hdwf hdn hdc hds hdm

/-- **`glwe_automorphism_sub_decrypts_any_adm`** — `glwe_automorphism_sub`: `glwe_automorphism_sub_decrypts_any` with the head-room DERIVED (`hHp0`, `hAcc`, `hprod`, `Hp` replaced by
`Dm`, `hDm0`, `hDmB` and the decidable `fusedAdmissible big128 key N Hin Dm`). -/
theorem glwe_automorphism_sub_decrypts_any_adm (big128 : Bool) (N bout sout rout : Nat) (a : Ks.Ct) (key : Ks.Key) (dft0 : Buf)
    (sk : List Poly) (gInv : Int) (EL KL : ℕ → ℕ → Poly) (Hin Dm : Int)
    (hN : 0 < N) (hg : GalOk key.p N) (hsk : Ks.AllLen N sk) (hinv : ∀ s ∈ sk, σ key.p (σ gInv s) = s)
    (ha : GWF N a) (hrank : a.rank = key.rankIn) (hrout : rout = key.rankOut) (hra : a.rank = rout) (hc0 : 0 < key.mat.colsOut)
    (hD : 1 ≤ key.dsize) (hM : ∀ j q, (key.mat.entry j q).length = N) (hS : key.mat.rows * key.dsize ≤ key.mat.size)
    (hbi1 : 1 ≤ a.base2k) (hbi : a.base2k ≤ 62) (hbk1 : 1 ≤ key.base2k) (hbk : key.base2k ≤ 62) (hbo1 : 1 ≤ bout) (hbo : bout ≤ 62)
    (hIn0 : 0 ≤ Hin) (hIn : Hin + 8 ≤ 2 ^ 62) (hInB : ∀ c ∈ a.cols, ∀ l ∈ c, ∀ x ∈ l, |x| ≤ Hin)
    (hDm0 : 0 ≤ Dm) (hDmB : ∀ j q, normInf (key.mat.entry j q) ≤ Dm) (hadm : fusedAdmissible big128 key N Hin Dm)
    (hs : key.mat.colsIn ≤ sk.length)
    (hEL : ∀ i r, (EL i r).length = N) (hKL : ∀ i r, (KL i r).length = N)
    (hkey : ∀ i, i < key.mat.colsIn → ∀ r, r < key.mat.rows →
      Gadget.val (Ks.radix N key.base2k) key.mat.size (Ks.keyPhase N (sk.map (σ gInv)) key.mat i r) =
        Ks.ι N (sk.getD i []) * Ks.radix N key.base2k ^ (key.mat.size - (r + 1) * key.dsize) + Ks.ι N (EL i r)
          + Ks.radix N key.base2k ^ key.mat.size * Ks.ι N (KL i r))
    (hcov1 : convSize a key ≤ key.mat.size) (hcov2 : convSize a key ≤ key.mat.rows * key.dsize)
    (hdwf : dft0.WF) (hdn : dft0.n = N) (hdc : dft0.cols = rout + 1) (hds : dft0.size = key.mat.size) (hdm : dft0.maxSize = key.mat.size) :
    ∃ res aConv, Ks.automorphismFused .sub big128 dft0 bout sout rout a key = .ok res ∧
      Ks.convIn a key = .ok aConv ∧ GWF N res ∧ res.base2k = bout ∧ res.size = sout ∧ res.rank = rout ∧
      ∃ (E1 E3 : Poly) (Q : Ks.R N), E1.length = N ∧ E3.length = N ∧
        normInf E1 ≤ (1 + snorm (min a.rank sk.length) sk) * C02.normTol (key.base2k * convSize a key) (a.base2k * a.size) ∧
        normInf E3 ≤ (1 + snorm (min rout sk.length) sk) * C02.normTol (bout * sout) (key.base2k * key.mat.size) ∧
        (2 : Ks.R N) ^ (a.base2k * a.size + key.base2k * key.mat.size) * Ks.ι N (valP bout N (phase sk res))
          = ((sgA .sub : ℤ) : Ks.R N) *
              ((2 : Ks.R N) ^ (bout * sout + key.base2k * key.mat.size) * Ks.ι N (σ key.p (valP a.base2k N (phase sk a)))
                + Ks.ι N (σ key.p (ksErr (2 ^ (bout * sout + key.base2k * (key.mat.size - convSize a key)))
                    (2 ^ (a.base2k * a.size + bout * sout)) 0 E1 (Ks.errL N key.base2k (aDftOf aConv) key EL)
                    (Ks.dropL N key.base2k (sk.map (σ gInv)) (aDftOf aConv) key) (zeroP N))))
            + ((sgB .sub : ℤ) : Ks.R N) *
              ((2 : Ks.R N) ^ (bout * sout + key.base2k * key.mat.size) * Ks.ι N (valP a.base2k N (phase sk a))
                + Ks.ι N (polyScale (2 ^ (bout * sout + key.base2k * (key.mat.size - convSize a key))) E1))
            + Ks.ι N (polyScale (2 ^ (a.base2k * a.size)) E3)
            + (2 : Ks.R N) ^ (a.base2k * a.size + bout * sout + key.base2k * key.mat.size) * Q ∧
        normInf (σ key.p (ksErr (2 ^ (bout * sout + key.base2k * (key.mat.size - convSize a key)))
                    (2 ^ (a.base2k * a.size + bout * sout)) 0 E1 (Ks.errL N key.base2k (aDftOf aConv) key EL)
                    (Ks.dropL N key.base2k (sk.map (σ gInv)) (aDftOf aConv) key) (zeroP N)))
          ≤ 2 ^ (bout * sout + key.base2k * (key.mat.size - convSize a key)) *
              ((1 + snorm (min a.rank sk.length) sk) * C02.normTol (key.base2k * convSize a key) (a.base2k * a.size))
            + 2 ^ (a.base2k * a.size + bout * sout) * gadgetBound N key.base2k (aDftOf aConv) key EL
            + 2 ^ (a.base2k * a.size + bout * sout) * dropBound N key.base2k (sk.map (σ gInv)) (aDftOf aConv) key := by
  have hrout' : rout + 1 = key.mat.colsOut := by rw [hrout]; unfold Ks.Key.rankOut; omega
  have hpk : (0 : Int) < 2 ^ key.base2k := by positivity
  exact glwe_automorphism_sub_decrypts_any big128 N bout sout rout a key dft0 sk gInv EL KL Hin
    (prodBound key.dsize key.mat.colsIn key.mat.rows N (Hin + 2 ^ key.base2k) Dm)
    hN hg hsk hinv ha hrank hrout hra hc0 hD hM hS hbi1 hbi hbk1 hbk hbo1 hbo hIn0 hIn hInB
    (prodBound_nonneg _ _ _ _ _ _ (by linarith) hDm0) hadm
    (prodOf_conv_bound N rout a key Hin Dm ha hrout' hD hbi1 hbi hbk1 hbk hIn0 hIn hInB hDm0 hDmB)
    hs hEL hKL hkey hcov1 hcov2 hdwf hdn hdc hds hdm

/-- **`glwe_automorphism_sub_negate_decrypts_any_adm`** — `glwe_automorphism_sub_negate`: `glwe_automorphism_sub_negate_decrypts_any` with the head-room DERIVED (`hHp0`, `hAcc`, `hprod`, `Hp` replaced by
`Dm`, `hDm0`, `hDmB` and the decidable `fusedAdmissible big128 key N Hin Dm`). -/
theorem glwe_automorphism_sub_negate_decrypts_any_adm (big128 : Bool) (N bout sout rout : Nat) (a : Ks.Ct) (key : Ks.Key) (dft0 : Buf)
    (sk : List Poly) (gInv : Int) (EL KL : ℕ → ℕ → Poly) (Hin Dm : Int)
    (hN : 0 < N) (hg : GalOk key.p N) (hsk : Ks.AllLen N sk) (hinv : ∀ s ∈ sk, σ key.p (σ gInv s) = s)
    (ha : GWF N a) (hrank : a.rank = key.rankIn) (hrout : rout = key.rankOut) (hra : a.rank = rout) (hc0 : 0 < key.mat.colsOut)
    (hD : 1 ≤ key.dsize) (hM : ∀ j q, (key.mat.entry j q).length = N) (hS : key.mat.rows * key.dsize ≤ key.mat.size)
    (hbi1 : 1 ≤ a.base2k) (hbi : a.base2k ≤ 62) (hbk1 : 1 ≤ key.base2k) (hbk : key.base2k ≤ 62) (hbo1 : 1 ≤ bout) (hbo : bout ≤ 62)
    (hIn0 : 0 ≤ Hin) (hIn : Hin + 8 ≤ 2 ^ 62) (hInB : ∀ c ∈ a.cols, ∀ l ∈ c, ∀ x ∈ l, |x| ≤ Hin)
    (hDm0 : 0 ≤ Dm) (hDmB : ∀ j q, normInf (key.mat.entry j q) ≤ Dm) (hadm : fusedAdmissible big128 key N Hin Dm)
    (hs : key.mat.colsIn ≤ sk.length)
    (hEL : ∀ i r, (EL i r).length = N) (hKL : ∀ i r, (KL i r).length = N)
    (hkey : ∀ i, i < key.mat.colsIn → ∀ r, r < key.mat.rows →
      Gadget.val (Ks.radix N key.base2k) key.mat.size (Ks.keyPhase N (sk.map (σ gInv)) key.mat i r) =
        Ks.ι N (sk.getD i []) * Ks.radix N key.base2k ^ (key.mat.size - (r + 1) * key.dsize) + Ks.ι N (EL i r)
          + Ks.radix N key.base2k ^ key.mat.size * Ks.ι N (KL i r))
    (hcov1 : convSize a key ≤ key.mat.size) (hcov2 : convSize a key ≤ key.mat.rows * key.dsize)
    (hdwf : dft0.WF) (hdn : dft0.n = N) (hdc : dft0.cols = rout + 1) (hds : dft0.size = key.mat.size) (hdm : dft0.maxSize = key.mat.size) :
    ∃ res aConv, Ks.automorphismFused .subNegate big128 dft0 bout sout rout a key = .ok res ∧
      Ks.convIn a key = .ok aConv ∧ GWF N res ∧ res.base2k = bout ∧ res.size = sout ∧ res.rank = rout ∧
      ∃ (E1 E3 : Poly) (Q : Ks.R N), E1.length = N ∧ E3.length = N ∧
        normInf E1 ≤ (1 + snorm (min a.rank sk.length) sk) * C02.normTol (key.base2k * convSize a key) (a.base2k * a.size) ∧
        normInf E3 ≤ (1 + snorm (min rout sk.length) sk) * C02.normTol (bout * sout) (key.base2k * key.mat.size) ∧
        (2 : Ks.R N) ^ (a.base2k * a.size + key.base2k * key.mat.size) * Ks.ι N (valP bout N (phase sk res))
          = ((sgA .subNegate : ℤ) : Ks.R N) *
              ((2 : Ks.R N) ^ (bout * sout + key.base2k * key.mat.size) * Ks.ι N (σ key.p (valP a.base2k N (phase sk a)))
                + Ks.ι N (σ key.p (ksErr (2 ^ (bout * sout + key.base2k * (key.mat.size - convSize a key)))
                    (2 ^ (a.base2k * a.size + bout * sout)) 0 E1 (Ks.errL N key.base2k (aDftOf aConv) key EL)
                    (Ks.dropL N key.base2k (sk.map (σ gInv)) (aDftOf aConv) key) (zeroP N))))
            + ((sgB .subNegate : ℤ) : Ks.R N) *
              ((2 : Ks.R N) ^ (bout * sout + key.base2k * key.mat.size) * Ks.ι N (valP a.base2k N (phase sk a))
                + Ks.ι N (polyScale (2 ^ (bout * sout + key.base2k * (key.mat.size - convSize a key))) E1))
            + Ks.ι N (polyScale (2 ^ (a.base2k * a.size)) E3)
            + (2 : Ks.R N) ^ (a.base2k * a.size + bout * sout + key.base2k * key.mat.size) * Q ∧
        normInf (σ key.p (ksErr (2 ^ (bout * sout + key.base2k * (key.mat.size - convSize a key)))
                    (2 ^ (a.base2k * a.size + bout * sout)) 0 E1 (Ks.errL N key.base2k (aDftOf aConv) key EL)
                    (Ks.dropL N key.base2k (sk.map (σ gInv)) (aDftOf aConv) key) (zeroP N)))
          ≤ 2 ^ (bout * sout + key.base2k * (key.mat.size - convSize a key)) *
              ((1 + snorm (min a.rank sk.length) sk) * C02.normTol (key.base2k * convSize a key) (a.base2k * a.size))
            + 2 ^ (a.base2k * a.size + bout * sout) * gadgetBound N key.base2k (aDftOf aConv) key EL
            + 2 ^ (a.base2k * a.size + bout * sout) * dropBound N key.base2k (sk.map (σ gInv)) (aDftOf aConv) key := by
  have hrout' : rout + 1 = key.mat.colsOut := by rw [hrout]; unfold Ks.Key.rankOut; omega
  have hpk : (0 : Int) < 2 ^ key.base2k := by positivity
  exact glwe_automorphism_sub_negate_decrypts_any big128 N bout sout rout a key dft0 sk gInv EL KL Hin
    (prodBound key.dsize key.mat.colsIn key.mat.rows N (Hin + 2 ^ key.base2k) Dm)
    hN hg hsk hinv ha hrank hrout hra hc0 hD hM hS hbi1 hbi hbk1 hbk hbo1 hbo hIn0 hIn hInB
    (prodBound_nonneg _ _ _ _ _ _ (by linarith) hDm0) hadm
    (prodOf_conv_bound N rout a key Hin Dm ha hrout' hD hbi1 hbi hbk1 hbk hIn0 hIn hInB hDm0 hDmB)
    hs hEL hKL hkey hcov1 hcov2 hdwf hdn hdc hds hdm

/-- **`glwe_automorphism_fused_assign_decrypts_any_adm`** — the in-place fused forms, arbitrary `res_dft` scratch content, head-room derived. -/
theorem glwe_automorphism_fused_assign_decrypts_any_adm (f : Ks.Fused) (big128 : Bool) (N : Nat) (a : Ks.Ct) (key : Ks.Key) (dft0 : Buf)
    (sk : List Poly) (gInv : Int) (EL KL : ℕ → ℕ → Poly) (Hin Dm : Int)
    (hN : 0 < N) (hg : GalOk key.p N) (hsk : Ks.AllLen N sk) (hinv : ∀ s ∈ sk, σ key.p (σ gInv s) = s)
    (ha : GWF N a) (hrank : a.rank = key.rankIn) (hrout : a.rank = key.rankOut) (hc0 : 0 < key.mat.colsOut)
    (hD : 1 ≤ key.dsize) (hM : ∀ j q, (key.mat.entry j q).length = N) (hS : key.mat.rows * key.dsize ≤ key.mat.size)
    (hbi1 : 1 ≤ a.base2k) (hbi : a.base2k ≤ 62) (hbk1 : 1 ≤ key.base2k) (hbk : key.base2k ≤ 62)
    (hIn0 : 0 ≤ Hin) (hIn : Hin + 8 ≤ 2 ^ 62) (hInB : ∀ c ∈ a.cols, ∀ l ∈ c, ∀ x ∈ l, |x| ≤ Hin)
    (hDm0 : 0 ≤ Dm) (hDmB : ∀ j q, normInf (key.mat.entry j q) ≤ Dm) (hadm : fusedAdmissible big128 key N Hin Dm)
    (hs : key.mat.colsIn ≤ sk.length)
    (hEL : ∀ i r, (EL i r).length = N) (hKL : ∀ i r, (KL i r).length = N)
    (hkey : ∀ i, i < key.mat.colsIn → ∀ r, r < key.mat.rows →
      Gadget.val (Ks.radix N key.base2k) key.mat.size (Ks.keyPhase N (sk.map (σ gInv)) key.mat i r) =
        Ks.ι N (sk.getD i []) * Ks.radix N key.base2k ^ (key.mat.size - (r + 1) * key.dsize) + Ks.ι N (EL i r)
          + Ks.radix N key.base2k ^ key.mat.size * Ks.ι N (KL i r))
    (hcov1 : convSize a key ≤ key.mat.size) (hcov2 : convSize a key ≤ key.mat.rows * key.dsize)
    (hdwf : dft0.WF) (hdn : dft0.n = N) (hdc : dft0.cols = a.rank + 1) (hds : dft0.size = key.mat.size) (hdm : dft0.maxSize = key.mat.size) :
    ∃ res aConv, Ks.automorphismFused f big128 dft0 a.base2k a.size a.rank a key = .ok res ∧
      Ks.convIn a key = .ok aConv ∧ GWF N res ∧ res.base2k = a.base2k ∧ res.size = a.size ∧ res.rank = a.rank ∧
      ∃ (E1 E3 : Poly) (Q : Ks.R N), E1.length = N ∧ E3.length = N ∧
        normInf E1 ≤ (1 + snorm (min a.rank sk.length) sk) * C02.normTol (key.base2k * convSize a key) (a.base2k * a.size) ∧
        normInf E3 ≤ (1 + snorm (min a.rank sk.length) sk) * C02.normTol (a.base2k * a.size) (key.base2k * key.mat.size) ∧
        (2 : Ks.R N) ^ (a.base2k * a.size + key.base2k * key.mat.size) * Ks.ι N (valP a.base2k N (phase sk res))
          = (sgA f : Ks.R N) *
              ((2 : Ks.R N) ^ (a.base2k * a.size + key.base2k * key.mat.size) * Ks.ι N (σ key.p (valP a.base2k N (phase sk a)))
                + Ks.ι N (σ key.p (ksErr (2 ^ (a.base2k * a.size + key.base2k * (key.mat.size - convSize a key)))
                    (2 ^ (a.base2k * a.size + a.base2k * a.size)) 0 E1 (Ks.errL N key.base2k (aDftOf aConv) key EL)
                    (Ks.dropL N key.base2k (sk.map (σ gInv)) (aDftOf aConv) key) (zeroP N))))
            + (sgB f : Ks.R N) *
              ((2 : Ks.R N) ^ (a.base2k * a.size + key.base2k * key.mat.size) * Ks.ι N (valP a.base2k N (phase sk a))
                + Ks.ι N (polyScale (2 ^ (a.base2k * a.size + key.base2k * (key.mat.size - convSize a key))) E1))
            + Ks.ι N (polyScale (2 ^ (a.base2k * a.size)) E3)
            + (2 : Ks.R N) ^ (a.base2k * a.size + a.base2k * a.size + key.base2k * key.mat.size) * Q ∧
        normInf (σ key.p (ksErr (2 ^ (a.base2k * a.size + key.base2k * (key.mat.size - convSize a key)))
                    (2 ^ (a.base2k * a.size + a.base2k * a.size)) 0 E1 (Ks.errL N key.base2k (aDftOf aConv) key EL)
                    (Ks.dropL N key.base2k (sk.map (σ gInv)) (aDftOf aConv) key) (zeroP N)))
          ≤ 2 ^ (a.base2k * a.size + key.base2k * (key.mat.size - convSize a key)) *
              ((1 + snorm (min a.rank sk.length) sk) * C02.normTol (key.base2k * convSize a key) (a.base2k * a.size))
            + 2 ^ (a.base2k * a.size + a.base2k * a.size) * gadgetBound N key.base2k (aDftOf aConv) key EL
            + 2 ^ (a.base2k * a.size + a.base2k * a.size) * dropBound N key.base2k (sk.map (σ gInv)) (aDftOf aConv) key := by
  have hrout' : a.rank + 1 = key.mat.colsOut := by rw [hrout]; unfold Ks.Key.rankOut; omega
  have hpk : (0 : Int) < 2 ^ key.base2k := by positivity
  exact glwe_automorphism_fused_assign_decrypts_any f big128 N a key dft0 sk gInv EL KL Hin
    (prodBound key.dsize key.mat.colsIn key.mat.rows N (Hin + 2 ^ key.base2k) Dm)
    hN hg hsk hinv ha hrank hrout hc0 hD hM hS hbi1 hbi hbk1 hbk hIn0 hIn hInB
    (prodBound_nonneg _ _ _ _ _ _ (by linarith) hDm0) hadm
    (prodOf_conv_bound N a.rank a key Hin Dm ha hrout' hD hbi1 hbi hbk1 hbk hIn0 hIn hInB hDm0 hDmB)
    hs hEL hKL hkey hcov1 hcov2 hdwf hdn hdc hds hdm

/-- closed instance: the three fused forms with `g = 3` on `N = 2`, on the garbage scratch `dirtyG3`, both accumulator widths — no hypothesis
on the product buffer, the admissibility by `decide` -/
example (f : Ks.Fused) (big128 : Bool) :
    ∃ res aConv, Ks.automorphismFused f big128 dirtyG3 3 2 1 exCtN2 exKeyG3 = .ok res ∧
      Ks.convIn exCtN2 exKeyG3 = .ok aConv ∧ GWF 2 res ∧ res.base2k = 3 ∧ res.size = 2 ∧ res.rank = 1 := by
  have hM := Ks.entry_length exKeyG3.mat 2 rfl (by decide)
  obtain ⟨res, aConv, h1, h2, h3, h4, h5, h6, _⟩ :=
    glwe_automorphism_fused_decrypts_any_adm f big128 2 3 2 1 exCtN2 exKeyG3 dirtyG3 exSk2 3 exELG3 (fun _ _ => [0, 0]) 2 1
      (by decide) exG3_ok (by intro p hp; simp [exSk2] at hp; subst hp; rfl) (by intro s hs; simp [exSk2] at hs; subst hs; decide)
      (by decide) rfl rfl rfl (by decide) (by decide) hM (by decide)
      (by decide) (by decide) (by decide) (by decide) (by decide) (by decide)
      (by norm_num) (by norm_num)
      (by intro c hc l hl x hx; revert x l c; decide)
      (by norm_num) exG3_Dm (by cases big128 <;> decide)
      (by decide)
      (fun i r => Ks.keyErrL_length 2 4 _ exKeyG3 _ i r (by decide) hM (fun _ => rfl))
      (fun _ _ => rfl)
      (fun i hi r _ => exG3_key i hi r)
      (by decide) (by decide)
      dirtyG3_WF rfl rfl rfl rfl
  exact ⟨res, aConv, h1, h2, h3, h4, h5, h6⟩

/-! ## Part 3: the LWE forms (`lwe_keyswitch`, `lwe_from_glwe`, `glwe_from_lwe`) -/

/-- `KsSide` (`Lemmas/LweDecrypt.lean`) with the head-room DERIVED: the fields `hHp0`, `hAcc`, `hprod` (and the parameter `Hp`) are replaced
by the key digit bound `Dm` (`hDm0`, `hDmB`) and the decidable `ksAdmissible big128 key N Hin Dm` (`hadm`) -/
structure KsSideAdm (big128 : Bool) (N bout sout rout : Nat) (a : Ks.Ct) (key : Ks.Key) (sIn skOut : List Poly)
    (EL KL : ℕ → ℕ → Poly) (Hin Dm : Int) : Prop where
  hN : 0 < N
  hrank : a.rank = key.rankIn
  hrout : rout = key.rankOut
  hc0 : 0 < key.mat.colsOut
  hD : 1 ≤ key.dsize
  hM : ∀ j q, (key.mat.entry j q).length = N
  hS : key.mat.rows * key.dsize ≤ key.mat.size
  hbi1 : 1 ≤ a.base2k
  hbi : a.base2k ≤ 62
  hbk1 : 1 ≤ key.base2k
  hbk : key.base2k ≤ 62
  hbo1 : 1 ≤ bout
  hbo : bout ≤ 62
  hIn0 : 0 ≤ Hin
  hIn : Hin + 8 ≤ 2 ^ 62
  hDm0 : 0 ≤ Dm
  hDmB : ∀ j q, normInf (key.mat.entry j q) ≤ Dm
  hadm : ksAdmissible big128 key N Hin Dm
  hs : key.mat.colsIn ≤ sIn.length
  hEL : ∀ i r, (EL i r).length = N
  hKL : ∀ i r, (KL i r).length = N
  hkey : ∀ i, i < key.mat.colsIn → ∀ r, r < key.mat.rows →
      Gadget.val (Ks.radix N key.base2k) key.mat.size (Ks.keyPhase N skOut key.mat i r) =
        Ks.ι N (sIn.getD i []) * Ks.radix N key.base2k ^ (key.mat.size - (r + 1) * key.dsize) + Ks.ι N (EL i r)
          + Ks.radix N key.base2k ^ key.mat.size * Ks.ι N (KL i r)
  hcov1 : convSize a key ≤ key.mat.size
  hcov2 : convSize a key ≤ key.mat.rows * key.dsize

/-- **`KsSide.of_adm`** — the side conditions of `glwe_keyswitch_decrypts` from digit bounds and admissibility: `Hp := prodBound …`, `hprod`
by `prodOf_conv_bound` (which needs the well-formedness and the digit bound of the input, not part of `KsSide`). -/
theorem KsSide.of_adm {big128 : Bool} {N bout sout rout : Nat} {a : Ks.Ct} {key : Ks.Key} {sIn skOut : List Poly}
    {EL KL : ℕ → ℕ → Poly} {Hin Dm : Int} (h : KsSideAdm big128 N bout sout rout a key sIn skOut EL KL Hin Dm)
    (ha : GWF N a) (hInB : ∀ c ∈ a.cols, ∀ l ∈ c, ∀ x ∈ l, |x| ≤ Hin) :
    KsSide big128 N bout sout rout a key sIn skOut EL KL Hin
      (prodBound key.dsize key.mat.colsIn key.mat.rows N (Hin + 2 ^ key.base2k) Dm) := by
  have hrout' : rout + 1 = key.mat.colsOut := by
    have := h.hrout; have := h.hc0
    rw [h.hrout]; unfold Ks.Key.rankOut; omega
  have hpk : (0 : Int) < 2 ^ key.base2k := by positivity
  have hIn0 := h.hIn0
  exact
    { hN := h.hN, hrank := h.hrank, hrout := h.hrout, hc0 := h.hc0, hD := h.hD, hM := h.hM, hS := h.hS, hbi1 := h.hbi1, hbi := h.hbi,
      hbk1 := h.hbk1, hbk := h.hbk, hbo1 := h.hbo1, hbo := h.hbo, hIn0 := h.hIn0, hIn := h.hIn,
      hHp0 := prodBound_nonneg _ _ _ _ _ _ (by linarith) h.hDm0
      hAcc := h.hadm
      hprod := prodOf_conv_bound N rout a key Hin Dm ha hrout' h.hD h.hbi1 h.hbi h.hbk1 h.hbk h.hIn0 h.hIn hInB h.hDm0 h.hDmB
      hs := h.hs, hEL := h.hEL, hKL := h.hKL, hkey := h.hkey, hcov1 := h.hcov1, hcov2 := h.hcov2 }

/-- conversely, a `KsSide` whose key digits are bounded and whose shape is admissible gives the `KsSideAdm` (it forgets `Hp`) -/
theorem KsSideAdm.of_side {big128 : Bool} {N bout sout rout : Nat} {a : Ks.Ct} {key : Ks.Key} {sIn skOut : List Poly}
    {EL KL : ℕ → ℕ → Poly} {Hin Hp Dm : Int} (h : KsSide big128 N bout sout rout a key sIn skOut EL KL Hin Hp)
    (hDm0 : 0 ≤ Dm) (hDmB : ∀ j q, normInf (key.mat.entry j q) ≤ Dm) (hadm : ksAdmissible big128 key N Hin Dm) :
    KsSideAdm big128 N bout sout rout a key sIn skOut EL KL Hin Dm :=
  { hN := h.hN, hrank := h.hrank, hrout := h.hrout, hc0 := h.hc0, hD := h.hD, hM := h.hM, hS := h.hS, hbi1 := h.hbi1, hbi := h.hbi,
    hbk1 := h.hbk1, hbk := h.hbk, hbo1 := h.hbo1, hbo := h.hbo, hIn0 := h.hIn0, hIn := h.hIn, hDm0 := hDm0, hDmB := hDmB, hadm := hadm,
    hs := h.hs, hEL := h.hEL, hKL := h.hKL, hkey := h.hkey, hcov1 := h.hcov1, hcov2 := h.hcov2 }

/-- **`glwe_keyswitch_decrypts_coeff_adm`** — `glwe_keyswitch_decrypts_coeff` (the key switch read coefficient by coefficient), head-room
derived -/
theorem glwe_keyswitch_decrypts_coeff_adm (big128 : Bool) (N bout sout rout : Nat) (a : Ks.Ct) (key : Ks.Key) (sIn skOut : List Poly)
    (EL KL : ℕ → ℕ → Poly) (Hin Dm : Int) (h : KsSideAdm big128 N bout sout rout a key sIn skOut EL KL Hin Dm)
    (ha : GWF N a) (hInB : ∀ c ∈ a.cols, ∀ l ∈ c, ∀ x ∈ l, |x| ≤ Hin) :
    ∃ res aConv, Ks.keyswitch big128 bout sout rout a key = .ok res ∧ Ks.convIn a key = .ok aConv ∧
      GWF N res ∧ res.base2k = bout ∧ res.size = sout ∧ res.rank = rout ∧
      ∀ t, t < N → ∃ e q : Int,
        2 ^ (a.base2k * a.size + key.base2k * key.mat.size) * valCoeff bout (phase skOut res) t
          = 2 ^ (bout * sout + key.base2k * key.mat.size) * valCoeff a.base2k (phase sIn a) t + e
            + 2 ^ (a.base2k * a.size + bout * sout + key.base2k * key.mat.size) * q ∧
        |e| ≤ ksBound N bout sout rout a aConv key sIn skOut EL :=
  glwe_keyswitch_decrypts_coeff big128 N bout sout rout a key sIn skOut EL KL Hin _ (KsSide.of_adm h ha hInB) ha hInB

/-- **`lwe_keyswitch_decrypts_adm`** — `lwe_keyswitch_decrypts` with the head-room DERIVED: `KsSideAdm` (key digit bound `Dm`, decidable
`ksAdmissible`) instead of `KsSide` (product-buffer bound `Hp`). -/
theorem lwe_keyswitch_decrypts_adm (big128 : Bool) (n bout sout nOut : Nat) (a : Ks.Lwe) (key : Ks.Key) (sIn sOut : Poly)
    (EL KL : ℕ → ℕ → Poly) (Hin Dm : Int)
    (h : KsSideAdm big128 n bout sout 1 (lweEmb n a) key (embSk n sIn) (embSk n sOut) EL KL Hin Dm)
    (hInB : ∀ limb ∈ a.data, ∀ x ∈ limb, |x| ≤ Hin)
    (hnIn : a.nLwe ≤ n) (hnOut : nOut ≤ n) (hsIn : sIn.length = a.nLwe) (hsOut : sOut.length = nOut) :
    ∃ res aConv, Ks.lweKeyswitch big128 n bout sout nOut a key = .ok res ∧ Ks.convIn (lweEmb n a) key = .ok aConv ∧
      res.base2k = bout ∧ res.nLwe = nOut ∧ res.data.length = sout ∧
      ∃ e q : Int,
        2 ^ (a.base2k * a.data.length + key.base2k * key.mat.size) * lwePhaseVal bout res sOut
          = 2 ^ (bout * sout + key.base2k * key.mat.size) * lwePhaseVal a.base2k a sIn + e
            + 2 ^ (a.base2k * a.data.length + bout * sout + key.base2k * key.mat.size) * q ∧
        |e| ≤ ksBound n bout sout 1 (lweEmb n a) aConv key (embSk n sIn) (embSk n sOut) EL :=
  lwe_keyswitch_decrypts big128 n bout sout nOut a key sIn sOut EL KL Hin _
    (KsSide.of_adm h (lweEmb_gwf n a) (lweEmb_bound n a Hin h.hIn0 hInB)) hInB hnIn hnOut hsIn hsOut

/-- **`glwe_to_lwe_decrypts_adm`** — `glwe_to_lwe_decrypts` (`lwe_from_glwe`) with the head-room DERIVED; `KsSideAdm` is taken for the rotated
input `rotIn a idx`, whose well-formedness and digit bound come from `rotIn_spec`. -/
theorem glwe_to_lwe_decrypts_adm (big128 : Bool) (N bout sout nOut : Nat) (a : Ks.Ct) (idx : Nat) (key : Ks.Key) (sIn : List Poly)
    (sOut : Poly) (EL KL : ℕ → ℕ → Poly) (Hin Dm : Int)
    (h : KsSideAdm big128 N bout sout 1 (rotIn a idx) key sIn (embSk N sOut) EL KL Hin Dm)
    (ha : GWF N a) (hInB : ∀ c ∈ a.cols, ∀ l ∈ c, ∀ x ∈ l, |x| ≤ Hin) (hidx : idx < N)
    (hnOut : nOut ≤ N) (hsOut : sOut.length = nOut) :
    ∃ res aConv, Ks.lweFromGlwe big128 bout sout nOut a idx key = .ok res ∧ Ks.convIn (rotIn a idx) key = .ok aConv ∧
      res.base2k = bout ∧ res.nLwe = nOut ∧ res.data.length = sout ∧
      ∃ e q : Int,
        2 ^ (a.base2k * a.size + key.base2k * key.mat.size) * lwePhaseVal bout res sOut
          = 2 ^ (bout * sout + key.base2k * key.mat.size) * valCoeff a.base2k (phase sIn a) idx + e
            + 2 ^ (a.base2k * a.size + bout * sout + key.base2k * key.mat.size) * q ∧
        |e| ≤ ksBound N bout sout 1 (rotIn a idx) aConv key sIn (embSk N sOut) EL := by
  obtain ⟨gR, _, _, _, dR, _⟩ := rotIn_spec N a idx Hin h.hN ha h.hIn hInB hidx
  exact glwe_to_lwe_decrypts big128 N bout sout nOut a idx key sIn sOut EL KL Hin _ (KsSide.of_adm h gR dR) ha hInB hidx hnOut hsOut

/-- **`lwe_to_glwe_decrypts_adm`** — `lwe_to_glwe_decrypts` (`glwe_from_lwe`, both radix cases) with the head-room DERIVED. -/
theorem lwe_to_glwe_decrypts_adm (big128 : Bool) (n bout sout rout : Nat) (a : Ks.Lwe) (key : Ks.Key) (sIn : Poly) (skOut : List Poly)
    (EL KL : ℕ → ℕ → Poly) (Hin Dm : Int)
    (h : KsSideAdm big128 n bout sout rout (lweEmb n a) key (embSk n sIn) skOut EL KL Hin Dm)
    (hInB : ∀ limb ∈ a.data, ∀ x ∈ limb, |x| ≤ Hin) (hnIn : a.nLwe ≤ n) (hsIn : sIn.length = a.nLwe) :
    ∃ res aConv, Ks.glweFromLwe big128 n bout sout rout a key = .ok res ∧ Ks.convIn (lweEmb n a) key = .ok aConv ∧
      GWF n res ∧ res.base2k = bout ∧ res.size = sout ∧ res.rank = rout ∧
      ∃ e q : Int,
        2 ^ (a.base2k * a.data.length + key.base2k * key.mat.size) * valCoeff bout (phase skOut res) 0
          = 2 ^ (bout * sout + key.base2k * key.mat.size) * lwePhaseVal a.base2k a sIn + e
            + 2 ^ (a.base2k * a.data.length + bout * sout + key.base2k * key.mat.size) * q ∧
        |e| ≤ ksBound n bout sout rout (lweEmb n a) aConv key (embSk n sIn) skOut EL :=
  lwe_to_glwe_decrypts big128 n bout sout rout a key sIn skOut EL KL Hin _
    (KsSide.of_adm h (lweEmb_gwf n a) (lweEmb_bound n a Hin h.hIn0 hInB)) hInB hnIn hsIn

/-! ### closed instances -/

/-- the digits of the example key `exKey11` are bounded by `1` -/
theorem exKey11_Dm (j q : Nat) : normInf (exKey11.mat.entry j q) ≤ 1 :=
  entry_normInf exKey11.mat 1 (by norm_num) (by decide) j q

/-- `exKey11_side` without any hypothesis on the product buffer: key digits `≤ 1`, admissibility by `decide` -/
theorem exKey11_sideAdm (big128 : Bool) (a : Ks.Ct) (hr : a.rank = 1) (hb : a.base2k = 4) (hsz : a.size = 1) :
    KsSideAdm big128 2 3 2 1 a exKey11 (embSk 2 [1, 1]) (embSk 2 [1, 0]) exEL11 (fun _ _ => [0, 0]) 2 1 := by
  have hM := Ks.entry_length exKey11.mat 2 rfl (by decide)
  have hz : Ks.ι 2 [0, 0] = 0 := Ks.ι_zero 2 2
  have hcs : convSize a exKey11 = 1 := by
    unfold convSize
    rw [if_neg (by rw [hb]; decide), hsz]
  exact
    { hN := by decide
      hrank := hr
      hrout := rfl
      hc0 := by decide
      hD := by decide
      hM := hM
      hS := by decide
      hbi1 := by rw [hb]; decide
      hbi := by rw [hb]; decide
      hbk1 := by decide
      hbk := by decide
      hbo1 := by decide
      hbo := by decide
      hIn0 := by norm_num
      hIn := by norm_num
      hDm0 := by norm_num
      hDmB := exKey11_Dm
      hadm := by cases big128 <;> decide
      hs := by decide
      hEL := fun i r => Ks.keyErrL_length 2 4 _ exKey11 _ i r (by decide) hM (fun _ => by decide)
      hKL := fun _ _ => rfl
      hkey := by
        intro i hi r _
        have hi0 : i = 0 := by have : i < 1 := hi; omega
        subst hi0
        have h := Ks.keyErrL_spec 2 4 (embSk 2 [1, 0]) exKey11 (fun _ => AutoMul.σ (-1) (Ks.padTo 2 [1, 1])) 0 r (by decide) hM
          (fun _ => by decide)
        rw [hz, mul_zero, add_zero]
        exact h
      hcov1 := by rw [hcs]; decide
      hcov2 := by rw [hcs]; decide }

/-- closed instance of `lwe_keyswitch_decrypts_adm` (`n = 2`, LWE dimensions 2 → 2, result radix `2^3`, two limbs, both accumulator widths) -/
example (big128 : Bool) :
    ∃ res aConv, Ks.lweKeyswitch big128 2 3 2 2 exLweK exKey11 = .ok res ∧ Ks.convIn (lweEmb 2 exLweK) exKey11 = .ok aConv ∧
      res.base2k = 3 ∧ res.nLwe = 2 ∧ res.data.length = 2 ∧
      ∃ e q : Int,
        2 ^ (exLweK.base2k * exLweK.data.length + exKey11.base2k * exKey11.mat.size) * lwePhaseVal 3 res [1, 0]
          = 2 ^ (3 * 2 + exKey11.base2k * exKey11.mat.size) * lwePhaseVal exLweK.base2k exLweK [1, 1] + e
            + 2 ^ (exLweK.base2k * exLweK.data.length + 3 * 2 + exKey11.base2k * exKey11.mat.size) * q ∧
        |e| ≤ ksBound 2 3 2 1 (lweEmb 2 exLweK) aConv exKey11 (embSk 2 [1, 1]) (embSk 2 [1, 0]) exEL11 :=
  lwe_keyswitch_decrypts_adm big128 2 3 2 2 exLweK exKey11 [1, 1] [1, 0] exEL11 (fun _ _ => [0, 0]) 2 1
    (exKey11_sideAdm big128 (lweEmb 2 exLweK) rfl rfl (by decide))
    (by intro limb hl x hx; revert x limb; decide) (by decide) (by decide) rfl rfl

/-- closed instance of `glwe_to_lwe_decrypts_adm` (`N = 2`, `idx = 1`: the rotation by `X^{-1}` is executed) -/
example (big128 : Bool) :
    ∃ res aConv, Ks.lweFromGlwe big128 3 2 2 exGlwe2 1 exKey11 = .ok res ∧ Ks.convIn (rotIn exGlwe2 1) exKey11 = .ok aConv ∧
      res.base2k = 3 ∧ res.nLwe = 2 ∧ res.data.length = 2 ∧
      ∃ e q : Int,
        2 ^ (exGlwe2.base2k * exGlwe2.size + exKey11.base2k * exKey11.mat.size) * lwePhaseVal 3 res [1, 0]
          = 2 ^ (3 * 2 + exKey11.base2k * exKey11.mat.size) * valCoeff exGlwe2.base2k (phase (embSk 2 [1, 1]) exGlwe2) 1 + e
            + 2 ^ (exGlwe2.base2k * exGlwe2.size + 3 * 2 + exKey11.base2k * exKey11.mat.size) * q ∧
        |e| ≤ ksBound 2 3 2 1 (rotIn exGlwe2 1) aConv exKey11 (embSk 2 [1, 1]) (embSk 2 [1, 0]) exEL11 :=
  glwe_to_lwe_decrypts_adm big128 2 3 2 2 exGlwe2 1 exKey11 (embSk 2 [1, 1]) [1, 0] exEL11 (fun _ _ => [0, 0]) 2 1
    (exKey11_sideAdm big128 (rotIn exGlwe2 1) (by decide) (by decide) (by decide))
    (by decide) (by intro c hc l hl x hx; revert x l c; decide) (by decide) (by decide) rfl

end KsDec
