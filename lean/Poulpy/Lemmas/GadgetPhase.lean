import Poulpy.Model.Core.Ks
import Poulpy.Lemmas.NegMul
import Poulpy.Lemmas.HalSpec
import Poulpy.Lemmas.GadgetAlg

/-!
Layer A helpers for C03: the phase of one limb across the columns of a ciphertext (`phaseRow`) is
linear, commutes with multiplication by a polynomial, and therefore commutes with the
vector-matrix product `Hal.vmpFlat` — for every `limb_offset`, i.e. for the `dsize = 1` call and for
each of the `dsize` passes of the `dsize > 1` branch of `gglwe_product_dft`.
-/

namespace Ks
open Hal

/-- phase of one limb across columns: `cs = [body, mask₁, …, mask_r]` ↦ `body + Σ sᵢ ⋆ maskᵢ` -/
def phaseRow (sk : List Poly) : List Poly → Poly
  | [] => []
  | b :: ms => (List.zipWith Hal.negMul sk ms).foldl polyAdd b

/-- all polynomials of a list have `n` coefficients -/
def AllLen (n : Nat) (l : List Poly) : Prop := ∀ p ∈ l, p.length = n

theorem AllLen.cons {n : Nat} {p : Poly} {l : List Poly} (hp : p.length = n) (hl : AllLen n l) : AllLen n (p :: l) := by
  intro q hq
  rcases List.mem_cons.mp hq with rfl | h
  · exact hp
  · exact hl q h

theorem AllLen.tail {n : Nat} {p : Poly} {l : List Poly} (h : AllLen n (p :: l)) : AllLen n l :=
  fun q hq => h q (List.mem_cons_of_mem _ hq)

theorem AllLen.head {n : Nat} {p : Poly} {l : List Poly} (h : AllLen n (p :: l)) : p.length = n :=
  h p (List.mem_cons_self)

theorem allLen_zipWith_negMul (n : Nat) (sk ms : List Poly) (h : AllLen n ms) : AllLen n (List.zipWith Hal.negMul sk ms) := by
  induction sk generalizing ms with
  | nil => intro p hp; simp at hp
  | cons s ss ih =>
    cases ms with
    | nil => intro p hp; simp at hp
    | cons m ms' =>
      simp only [List.zipWith_cons_cons]
      exact AllLen.cons (by rw [Hal.negMul_length]; exact h.head) (ih ms' h.tail)

/-- `zipWith Hal.negMul sk` commutes with multiplying every mask limb by `a` -/
theorem zipWith_negMul_map (a : Poly) (sk ms : List Poly) :
    List.zipWith Hal.negMul sk (ms.map (Hal.negMul a)) = (List.zipWith Hal.negMul sk ms).map (Hal.negMul a) := by
  induction sk generalizing ms with
  | nil => simp
  | cons s ss ih =>
    cases ms with
    | nil => simp
    | cons m ms' => simp [List.zipWith_cons_cons, ih, Hal.negMul_swap]

/-- **the phase commutes with multiplication by a polynomial** (all limbs of degree `n`) -/
theorem phaseRow_negMul (n : Nat) (sk : List Poly) (a : Poly) (cs : List Poly) (h : AllLen n cs) :
    phaseRow sk (cs.map (Hal.negMul a)) = Hal.negMul a (phaseRow sk cs) := by
  cases cs with
  | nil =>
    have : Hal.negMul a [] = [] := List.eq_nil_of_length_eq_zero (by rw [Hal.negMul_length]; rfl)
    simp [phaseRow, this]
  | cons b ms =>
    simp only [List.map_cons, phaseRow]
    rw [zipWith_negMul_map]
    exact (Hal.negMul_foldl_polyAdd n a _ b h.head (allLen_zipWith_negMul n sk ms h.tail)).symm

theorem foldl_polyAdd_zip (b b' : Poly) (l l' : List Poly) (h : l.length = l'.length) :
    (List.zipWith polyAdd l l').foldl polyAdd (polyAdd b b') = polyAdd (l.foldl polyAdd b) (l'.foldl polyAdd b') := by
  induction l generalizing l' b b' with
  | nil => cases l' <;> simp_all
  | cons x xs ih =>
    cases l' with
    | nil => simp at h
    | cons y ys =>
      simp only [List.zipWith_cons_cons, List.foldl_cons]
      rw [polyAdd_exchange, ih _ _ ys (by simpa using h)]

theorem zipWith_negMul_add (n : Nat) (sk ms ms' : List Poly) (h : AllLen n ms) (h' : AllLen n ms') (hl : ms.length = ms'.length) :
    List.zipWith Hal.negMul sk (List.zipWith polyAdd ms ms') =
      List.zipWith polyAdd (List.zipWith Hal.negMul sk ms) (List.zipWith Hal.negMul sk ms') := by
  induction sk generalizing ms ms' with
  | nil => simp
  | cons s ss ih =>
    cases ms with
    | nil => cases ms' <;> simp_all
    | cons m mt =>
      cases ms' with
      | nil => simp at hl
      | cons m' mt' =>
        simp only [List.zipWith_cons_cons]
        rw [Hal.negMul_add_right s m m' (by rw [h.head, h'.head]), ih mt mt' h.tail h'.tail (by simpa using hl)]

/-- **the phase is additive** -/
theorem phaseRow_add (n : Nat) (sk : List Poly) (xs ys : List Poly) (hx : AllLen n xs) (hy : AllLen n ys)
    (hl : xs.length = ys.length) :
    phaseRow sk (List.zipWith polyAdd xs ys) = polyAdd (phaseRow sk xs) (phaseRow sk ys) := by
  cases xs with
  | nil => cases ys <;> simp_all [phaseRow, polyAdd]
  | cons b ms =>
    cases ys with
    | nil => simp at hl
    | cons b' ms' =>
      have hl' : ms.length = ms'.length := by simpa using hl
      simp only [List.zipWith_cons_cons, phaseRow]
      rw [zipWith_negMul_add n sk ms ms' hx.tail hy.tail hl']
      apply foldl_polyAdd_zip
      simp [List.length_zipWith, hl']

theorem phaseRow_length (n : Nat) (sk : List Poly) (cs : List Poly) (h : AllLen n cs) (hne : cs ≠ []) :
    (phaseRow sk cs).length = n := by
  cases cs with
  | nil => exact absurd rfl hne
  | cons b ms =>
    simp only [phaseRow]
    exact foldl_polyAdd_length n _ b h.head (allLen_zipWith_negMul n sk ms h.tail)

/-- phase of a row-vector of sums = sum of the phases (generalised accumulator) -/
theorem phaseRow_foldl (n C : Nat) (sk : List Poly) (J : List Nat) (f : Nat → Nat → Poly) (accs : Nat → Poly)
    (hf : ∀ j c, (f j c).length = n) (ha : ∀ c, (accs c).length = n) :
    phaseRow sk ((List.range C).map (fun c => (J.map (fun j => f j c)).foldl polyAdd (accs c))) =
      (J.map (fun j => phaseRow sk ((List.range C).map (f j)))).foldl polyAdd (phaseRow sk ((List.range C).map accs)) := by
  induction J generalizing accs with
  | nil => simp
  | cons j js ih =>
    simp only [List.map_cons, List.foldl_cons]
    rw [ih (fun c => polyAdd (accs c) (f j c)) (by intro c; simp [ha c, hf j c])]
    congr 1
    have e : (List.range C).map (fun c => polyAdd (accs c) (f j c)) =
        List.zipWith polyAdd ((List.range C).map accs) ((List.range C).map (f j)) := by
      rw [List.zipWith_map_left, List.zipWith_map_right]
      simp [List.zipWith_self]
    rw [e]
    apply phaseRow_add n
    · intro p hp; simp at hp; obtain ⟨c, _, rfl⟩ := hp; exact ha c
    · intro p hp; simp at hp; obtain ⟨c, _, rfl⟩ := hp; exact hf j c
    · simp

theorem foldl_negMul_zero (n : Nat) (sk ms : List Poly) (hm : ∀ m ∈ ms, m = zeroP n) :
    (List.zipWith Hal.negMul sk ms).foldl polyAdd (zeroP n) = zeroP n := by
  induction sk generalizing ms with
  | nil => simp
  | cons s ss ih =>
    cases ms with
    | nil => simp
    | cons m mt =>
      simp only [List.zipWith_cons_cons, List.foldl_cons]
      rw [hm m List.mem_cons_self, Hal.negMul_zero_right, polyAdd_zero_zero]
      exact ih mt (fun x hx => hm x (List.mem_cons_of_mem _ hx))

/-- the phase of an all-zero row is zero -/
theorem phaseRow_zero (n : Nat) (sk : List Poly) (cs : List Poly) (h : ∀ p ∈ cs, p = zeroP n) (hne : cs ≠ []) :
    phaseRow sk cs = zeroP n := by
  cases cs with
  | nil => exact absurd rfl hne
  | cons b ms =>
    simp only [phaseRow]
    rw [h b List.mem_cons_self]
    exact foldl_negMul_zero n sk ms (fun x hx => h x (List.mem_cons_of_mem _ hx))

/-- the row (all columns) of limb `l` of a flat limb-major vector with `C` columns -/
def flatRow (C : Nat) (fl : List Poly) (n l : Nat) : List Poly :=
  (List.range C).map (fun c => fl.getD (l * C + c) (zeroP n))

/-- limb `l` of matrix row `j` across its output columns -/
def rowLimb (m : PMat) (j l : Nat) : List Poly :=
  (List.range m.colsOut).map (fun c => m.entry j (l * m.colsOut + c))

/-- **The vector-matrix product commutes with the phase**, for every `limb_offset`: the phase (under
`sk`) of limb `l` of `vmp_apply_dft_to_dft(res, a, pmat, limb_offset)` is
`Σ_j a_j ⋆ phase(row j of pmat, limb l + limb_offset)`. -/
theorem vmp_phase (n : Nat) (sk : List Poly) (a : List Poly) (m : PMat) (lo rl l : Nat)
    (hc : 0 < m.colsOut) (hl : (l + 1) * m.colsOut ≤ rl) (hlo : l + lo < m.size)
    (hM : ∀ j q, (m.entry j q).length = n) :
    phaseRow sk (flatRow m.colsOut (vmpFlat n a m lo rl) n l) =
      sumPolys n ((List.range (min (m.colsIn * m.rows) a.length)).map (fun j =>
        Hal.negMul (a.getD j (zeroP n)) (phaseRow sk (rowLimb m j (l + lo))))) := by
  have hC1 : l * m.colsOut + m.colsOut ≤ rl := by rw [← Nat.succ_mul]; exact hl
  have hC2 : (l + lo) * m.colsOut + m.colsOut ≤ m.colsOut * m.size := by
    rw [← Nat.succ_mul, Nat.mul_comm m.colsOut]; exact Nat.mul_le_mul_right _ hlo
  have hsplit : (l + lo) * m.colsOut = l * m.colsOut + lo * m.colsOut := Nat.add_mul _ _ _
  have hrow : flatRow m.colsOut (vmpFlat n a m lo rl) n l =
      (List.range m.colsOut).map (fun c =>
        ((List.range (min (m.colsIn * m.rows) a.length)).map (fun j =>
          Hal.negMul (a.getD j (zeroP n)) (m.entry j ((l + lo) * m.colsOut + c)))).foldl polyAdd (zeroP n)) := by
    unfold flatRow
    apply List.map_congr_left
    intro c hcm
    have hcl : c < m.colsOut := List.mem_range.mp hcm
    unfold vmpFlat
    simp only []
    rw [mapRange_getD _ _ _ _ (by omega)]
    rw [if_pos (by constructor <;> omega)]
    unfold sumPolys
    congr 1
    apply List.map_congr_left
    intro j _
    congr 2
    omega
  rw [hrow, phaseRow_foldl n m.colsOut sk _ (fun j c => Hal.negMul (a.getD j (zeroP n)) (m.entry j ((l + lo) * m.colsOut + c)))
    (fun _ => zeroP n) (by intro j c; rw [Hal.negMul_length]; exact hM _ _) (by intro c; simp)]
  rw [phaseRow_zero n sk _ (by intro p hp; simp at hp; exact hp.2.symm ▸ rfl) (by simp; omega)]
  unfold sumPolys
  congr 1
  apply List.map_congr_left
  intro j _
  have : (List.range m.colsOut).map (fun c => Hal.negMul (a.getD j (zeroP n)) (m.entry j ((l + lo) * m.colsOut + c))) =
      (rowLimb m j (l + lo)).map (Hal.negMul (a.getD j (zeroP n))) := by
    unfold rowLimb; rw [List.map_map]; rfl
  rw [this]
  apply phaseRow_negMul n
  intro p hp
  unfold rowLimb at hp
  simp at hp
  obtain ⟨c, _, rfl⟩ := hp
  exact hM _ _

/-! ### buffer plumbing: `Buf.setFlat` writes exactly the flat vector -/

theorem setAct_n (b : Buf) (c : Nat) (x : Col) : (b.setAct c x).n = b.n := rfl
theorem setAct_cols (b : Buf) (c : Nat) (x : Col) : (b.setAct c x).cols = b.cols := rfl
theorem setAct_size (b : Buf) (c : Nat) (x : Col) : (b.setAct c x).size = b.size := rfl

/-- writing a list of distinct columns: each written column holds what was written, the others are
unchanged, well-formedness is preserved -/
theorem foldl_setAct (g : Nat → Col) (L : List Nat) (b : Buf) (hb : b.WF) (hL : L.Nodup) (hLc : ∀ c ∈ L, c < b.cols)
    (hg : ∀ c, (g c).length = b.size) :
    let r := L.foldl (fun (acc : Buf) c => acc.setAct c (g c)) b
    r.WF ∧ r.cols = b.cols ∧ r.size = b.size ∧ r.n = b.n ∧ ∀ c, r.act c = if c ∈ L then g c else b.act c := by
  induction L generalizing b with
  | nil => simp [hb]
  | cons c0 rest ih =>
    have hc0 : c0 < b.cols := hLc c0 List.mem_cons_self
    have hnd := List.nodup_cons.mp hL
    have hwf := Buf.setAct_WF b hb c0 hc0 (g c0) (hg c0)
    have := ih (b.setAct c0 (g c0)) hwf hnd.2 (fun c hc => hLc c (List.mem_cons_of_mem _ hc)) hg
    simp only [List.foldl_cons]
    refine ⟨this.1, this.2.1, this.2.2.1, this.2.2.2.1, ?_⟩
    intro c
    rw [this.2.2.2.2 c]
    by_cases hcr : c ∈ rest
    · simp [hcr]
    · by_cases hcc : c = c0
      · subst hcc
        simp only [hcr, if_false, List.mem_cons, true_or, if_true]
        exact Buf.act_setAct_same b hb c hc0 (g c) (hg c)
      · simp only [hcr, if_false, List.mem_cons, hcc, false_or]
        exact Buf.act_setAct_other b c0 c (g c0) hcc

theorem setFlat_act (b : Buf) (hb : b.WF) (fl : List Poly) (c : Nat) (hc : c < b.cols) :
    (b.setFlat fl).act c = (List.range b.size).map (fun j => fl.getD (j * b.cols + c) (zeroP b.n)) := by
  unfold Buf.setFlat
  have h := foldl_setAct (fun c => (List.range b.size).map (fun j => fl.getD (j * b.cols + c) (zeroP b.n)))
    (List.range b.cols) b hb List.nodup_range (fun c hc => List.mem_range.mp hc) (by intro c; simp)
  simp only at h
  rw [h.2.2.2.2 c]
  simp [hc]

/-- limb `l` of a buffer across its columns -/
def bufRow (b : Buf) (l : Nat) : List Poly := (List.range b.cols).map (fun c => limbOr0 b.n (b.act c) l)

/-- **`vmp_apply_dft_to_dft(res, a, pmat, limb_offset)` commutes with the phase** (buffer level, the
function the driver executes; any `limb_offset`): covers the single call of the `dsize = 1` branch
and each of the `dsize` passes of the `dsize > 1` branch of `gglwe_product_dft`. -/
theorem opVmp_phase (sk : List Poly) (d a : Buf) (m : PMat) (lo l : Nat) (hd : d.WF) (hcols : d.cols = m.colsOut)
    (hc : 0 < m.colsOut) (hl : l < d.size) (hlo : l + lo < m.size) (hM : ∀ j q, (m.entry j q).length = d.n) :
    phaseRow sk (bufRow (opVmp d a m lo) l) =
      sumPolys d.n ((List.range (min (m.colsIn * m.rows) a.flat.length)).map (fun j =>
        Hal.negMul (a.flat.getD j (zeroP d.n)) (phaseRow sk (rowLimb m j (l + lo))))) := by
  have hl' : (l + 1) * m.colsOut ≤ d.size * d.cols := by
    rw [hcols]; exact Nat.mul_le_mul_right _ hl
  rw [← vmp_phase d.n sk a.flat m lo (d.size * d.cols) l hc hl' hlo hM]
  congr 1
  unfold bufRow flatRow opVmp
  have hfold := foldl_setAct (fun c => (List.range d.size).map (fun j => (vmpFlat d.n a.flat m lo (d.size * d.cols)).getD (j * d.cols + c) (zeroP d.n)))
    (List.range d.cols) d hd List.nodup_range (fun c hc => List.mem_range.mp hc) (by intro c; simp)
  simp only at hfold
  have hcols' : (d.setFlat (vmpFlat d.n a.flat m lo (d.size * d.cols))).cols = d.cols := hfold.2.1
  have hn' : (d.setFlat (vmpFlat d.n a.flat m lo (d.size * d.cols))).n = d.n := hfold.2.2.2.1
  rw [hcols', hn', hcols]
  apply List.map_congr_left
  intro c hcm
  have hcl : c < d.cols := by rw [hcols]; exact List.mem_range.mp hcm
  rw [setFlat_act d hd _ c hcl]
  unfold limbOr0
  rw [mapRange_getD _ _ _ _ hl, hcols]

/-! ### the input side of `glwe_keyswitch_internal`: `a_dft` holds the mask limbs of the ciphertext -/

/-- column loop whose written value depends on the (invariant) shape of the accumulator -/
theorem foldl_setActG (G : Nat → Nat → Nat → Col) (L : List Nat) (b : Buf) (hb : b.WF) (hL : L.Nodup) (hLc : ∀ c ∈ L, c < b.cols)
    (hg : ∀ c, (G b.n b.size c).length = b.size) :
    let r := L.foldl (fun (acc : Buf) c => acc.setAct c (G acc.n acc.size c)) b
    r.WF ∧ r.cols = b.cols ∧ r.size = b.size ∧ r.n = b.n ∧ ∀ c, r.act c = if c ∈ L then G b.n b.size c else b.act c := by
  induction L generalizing b with
  | nil => simp [hb]
  | cons c0 rest ih =>
    have hc0 : c0 < b.cols := hLc c0 List.mem_cons_self
    have hnd := List.nodup_cons.mp hL
    have hwf := Buf.setAct_WF b hb c0 hc0 (G b.n b.size c0) (hg c0)
    have := ih (b.setAct c0 (G b.n b.size c0)) hwf hnd.2 (fun c hc => hLc c (List.mem_cons_of_mem _ hc)) hg
    simp only [List.foldl_cons]
    refine ⟨this.1, this.2.1, this.2.2.1, this.2.2.2.1, ?_⟩
    intro c
    rw [this.2.2.2.2 c]
    by_cases hcr : c ∈ rest
    · simp [hcr]
      rfl
    · by_cases hcc : c = c0
      · subst hcc
        simp only [hcr, if_false, List.mem_cons, true_or, if_true]
        exact Buf.act_setAct_same b hb c hc0 _ (hg c)
      · simp only [hcr, if_false, List.mem_cons, hcc, false_or]
        exact Buf.act_setAct_other b c0 c _ hcc

/-- `vec_znx_dft_apply(1, 0, …)` into a result of the same size is a copy -/
theorem dftApplyCol_id (n : Nat) (a : Col) : dftApplyCol n 1 0 a.length a = a := by
  unfold dftApplyCol
  apply List.ext_getElem
  · simp
  · intro j h1 h2
    simp at h1
    simp [h1, List.getD_eq_getElem?_getD]

theorem zeroBuf_WF (n cols size : Nat) : (zeroBuf n cols size).WF := by
  refine ⟨by simp [zeroBuf], Nat.le_refl _, ?_⟩
  intro c hc
  simp only [zeroBuf] at hc ⊢
  rw [List.getD_eq_getElem?_getD, List.getElem?_replicate]
  simp [hc, zeroCol]

theorem flat_getD (b : Buf) (j : Nat) (h : j < b.size * b.cols) (d : Poly) :
    b.flat.getD j d = limbOr0 b.n (b.act (j % b.cols)) (j / b.cols) := by
  unfold Buf.flat
  rw [mapRange_getD _ _ _ _ h]

theorem flat_length (b : Buf) : b.flat.length = b.size * b.cols := by simp [Buf.flat]

theorem getD_length_of_all {n : Nat} (l : List Poly) (j : Nat) (h : ∀ p ∈ l, p.length = n) : (l.getD j (zeroP n)).length = n := by
  rw [List.getD_eq_getElem?_getD]
  cases hj : l[j]? with
  | none => simp
  | some p => simpa using h p (List.mem_of_getElem? hj)

/-- every entry of a prepared matrix whose stored limbs have `n` coefficients has `n` coefficients
(missing entries read as the zero polynomial) -/
theorem entry_length (m : PMat) (n : Nat) (hn : m.n = n) (h : ∀ row ∈ m.data, ∀ col ∈ row, ∀ p ∈ col, p.length = n) (j q : Nat) :
    (m.entry j q).length = n := by
  unfold PMat.entry limbOr0
  rw [hn]
  apply getD_length_of_all
  intro p hp
  have hcolmem : ∀ (row : List Col) (k : Nat), (∀ col ∈ row, ∀ p ∈ col, p.length = n) → ∀ p ∈ row.getD k [], p.length = n := by
    intro row k hrow p hp
    rw [List.getD_eq_getElem?_getD] at hp
    cases hk : row[k]? with
    | none => simp [hk] at hp
    | some col => simp [hk] at hp; exact hrow col (List.mem_of_getElem? hk) p hp
  apply hcolmem (m.data.getD j []) (q % m.colsOut) _ p hp
  intro col hcol
  rw [List.getD_eq_getElem?_getD] at hcol
  cases hj : m.data[j]? with
  | none => simp [hj] at hcol
  | some row => simp [hj] at hcol; exact h row (List.mem_of_getElem? hj) col hcol

end Ks
