import Poulpy.Props.C08
import Poulpy.Props.C02
import Poulpy.Lemmas.KsNoise
import Poulpy.Lemmas.AccAdd
import Poulpy.Lemmas.ValBridge

/-!
# End-to-end decryption theorem of the executed GLWE key switch `Ks.keyswitch`

`Ks.keyswitch` (Model/Core/Ks.lean) = `convIn` (radix conversion of the input into the key radix) ∘ `keyswitchInternal`
(`vec_znx_dft_apply` of the mask, `gglwe_product_dft`, `vec_znx_big_add_small_assign` of the body on column 0) ∘ `normOut`
(`vec_znx_big_normalize` of every accumulator column, `i64` or `i128`).  The three stages are proved separately, with explicit errors and
bounds, and composed in `R N = ℤ[X]/(X^N+1)` (`Ks.ι`):

* `norm_stage` — a list of columns normalised column by column, every kernel hypothesis discharged by C08
  (`C08.normalize_value_offset0`, `C08.big_normalize128_value_offset0`, termination), lifted to phases by `torus_phase3`;
  instances `convIn_phase` (input conversion, tolerance `0`: `conv_tol_zero`) and `normOut_phase` (both accumulator widths);
* `keyswitchInternal_value` — the product stage on the executed definition (`Ks.keyswitch_executed_noise_bound_drop`), with the body added
  without wrap (`bigAdd_exact`, both widths) and the well-formedness of the product buffer proved (`prod_col_wf`, `prod_shape`);
* `covered_input_value` — when the key covers every limb of the converted input, the used part is the whole input phase;
* `glwe_keyswitch_value` (general regime, the used part of the input explicit), **`glwe_keyswitch_decrypts`** (covered regime, one torus
  relation between the two phases with one explicit error list and its bound), `glwe_keyswitch_assign_decrypts` (in-place form), and a closed
  instance on `Ks.AccumExample.exKey3`.
-/

namespace KsDec
open Hal Core Core.Ops C02L

/-! ### outcome plumbing -/

theorem oall_map_ok {α β : Type} (f : α → Outcome β) (g : α → β) :
    ∀ (L : List α), (∀ x ∈ L, f x = .ok (g x)) → Ks.oall (L.map f) = .ok (L.map g)
  | [], _ => rfl
  | x :: xs, h => by
    have hx := h x List.mem_cons_self
    have hxs := oall_map_ok f g xs (fun y hy => h y (List.mem_cons_of_mem _ hy))
    simp only [List.map_cons, Ks.oall, hx, hxs, Ks.obind]

/-- the accumulator width in bits -/
def bitsOf (big128 : Bool) : Nat := if big128 then 128 else 64

/-- the column kernel of `Ks.bigNormalize` -/
def kern (big128 : Bool) (rb rs : Nat) (ab N : Nat) (c : Col) : Option Col :=
  (if big128 then bigNormalizeCol128? else bigNormalizeCol64?) rb rs 0 c ab N

theorem bigNormalize_eq (big128 : Bool) (rb rs : Nat) (c : Col) (ab N : Nat) :
    Ks.bigNormalize big128 rb rs c ab N = Ks.ofOpt (kern big128 rb rs ab N c) "fuel" := rfl

theorem gwf_mk {N : Nat} (b S : Nat) (cols : List Col) (hne : cols ≠ []) (hwf : ∀ c ∈ cols, ColWF N S c) :
    GWF N (Ks.mkCt b N cols) ∧ (Ks.mkCt b N cols).size = S := by
  have hpos : 0 < cols.length := List.length_pos_of_ne_nil hne
  have e : (Ks.mkCt b N cols).size = S := by
    show (cols.getD 0 []).length = S
    rw [List.getD_eq_getElem?_getD, List.getElem?_eq_getElem hpos]
    exact (hwf _ (List.getElem_mem hpos)).1
  refine ⟨⟨rfl, hne, ?_⟩, e⟩
  intro c hc
  rw [e]
  exact hwf c hc

/-! ### one column of `vec_znx_big_normalize` / `vec_znx_normalize`, both accumulator widths, all radices -/

/-- C08 on one column: the kernel returns, the result is `rs` limbs of `N` coefficients with `|digit| ≤ 2^rb − 1`, and every
coefficient satisfies the torus relation of `C08.normalize_value_offset0` / `C08.big_normalize128_value_offset0`. -/
theorem kern_col (big128 : Bool) (N rb rs ab : Nat) (H : Int) (c : Col)
    (hrb1 : 1 ≤ rb) (hrb : rb ≤ 62) (hab1 : 1 ≤ ab) (hab : ab ≤ 62) (hH0 : 0 ≤ H) (hH : H + 8 ≤ 2 ^ (bitsOf big128 - 2))
    (hc : ∀ l ∈ c, ∀ x ∈ l, |x| ≤ H) :
    ∃ C, kern big128 rb rs ab N c = some C ∧ ColWF N rs C ∧
      ∀ t, t < N → (∀ d ∈ coefAt C t, |d| ≤ 2 ^ rb - 1) ∧
        NormL.TorusNear (valI rb (coefAt C t)) (rb * rs) (valI ab (coefAt c t)) (ab * c.length) ∧
        (ab * c.length ≤ rb * rs → NormL.TorusEq (valI rb (coefAt C t)) (rb * rs) (valI ab (coefAt c t)) (ab * c.length)) := by
  have hbound : ∀ t, ∀ x ∈ coefAt c t, |x| ≤ H := fun t => coefAt_bound hH0 hc t
  have hlen : ∀ t, (coefAt c t).length = c.length := fun t => by simp [coefAt]
  cases big128 with
  | false =>
    obtain ⟨C, hC⟩ := NormL.normalizeCol?_exists rb rs 0 c ab N hab1 hrb1
    have hinv := CoreEnc.mapCoefs?_inv _ _ _ _ hC
    refine ⟨C, hC, ⟨hinv.1, hinv.2.1⟩, ?_⟩
    intro t ht
    obtain ⟨o, ho, hco⟩ := hinv.2.2 t ht
    have ctx : NormL.CrossCtx 64 ab rb rs 0 H (coefAt c t) :=
      ⟨Or.inl rfl, hrb1, hrb, by omega, hab, hH0, by simpa [bitsOf] using hH, hbound t⟩
    have hv := C08.normalize_value_offset0 ctx ho
    rw [hlen] at hv
    rw [hco hv.1]
    exact ⟨hv.2.1, hv.2.2.1, hv.2.2.2⟩
  | true =>
    obtain ⟨C, hC⟩ := NormL.bigNormalizeCol128?_exists rb rs 0 c ab N hab1 hrb1
    have hinv := CoreEnc.mapCoefs?_inv _ _ _ _ hC
    refine ⟨C, hC, ⟨hinv.1, hinv.2.1⟩, ?_⟩
    intro t ht
    obtain ⟨o, ho, hco⟩ := hinv.2.2 t ht
    have ctx : NormL.CrossCtx 128 ab rb rs 0 H (coefAt c t) :=
      ⟨Or.inr rfl, hrb1, hrb, by omega, hab, hH0, by simpa [bitsOf] using hH, hbound t⟩
    have hv := C08.big_normalize128_value_offset0 ctx ho
    rw [hlen] at hv
    rw [hco hv.1]
    exact ⟨hv.2.1, hv.2.2.1, hv.2.2.2⟩

/-! ### a list of columns normalised column by column: the phase relation (used for `convIn` and for `normOut`) -/

/-- **the normalisation stage, with every kernel hypothesis discharged by C08**: a non-empty list `L` of columns of `S` limbs of `N`
coefficients in radix `2^ab`, all coefficients within the head-room `H` (`H + 8 ≤ 2^62` for the `i64` paths, `2^126` for the NTT120
accumulator), is normalised column by column into `rs` limbs of radix `2^rb`: the loop returns, the result is well formed with
digits `≤ 2^rb − 1`, and for every secret the phases satisfy, coefficient by coefficient,
`2^(ab·S)·val(phase res) = 2^(rb·rs)·val(phase L) + e + q·2^(rb·rs + ab·S)` with `|e| ≤ (1 + Σ‖sᵢ‖₁)·normTol` (`normTol = 0` when no
precision is lost, one unit `2^(ab·S)` of the result's last limb otherwise). -/
theorem norm_stage (big128 : Bool) (N rb rs ab S : Nat) (H : Int) (L : List Col)
    (hrb1 : 1 ≤ rb) (hrb : rb ≤ 62) (hab1 : 1 ≤ ab) (hab : ab ≤ 62) (hH0 : 0 ≤ H) (hH : H + 8 ≤ 2 ^ (bitsOf big128 - 2))
    (hne : L ≠ []) (hwf : ∀ c ∈ L, ColWF N S c) (hb : ∀ c ∈ L, ∀ l ∈ c, ∀ x ∈ l, |x| ≤ H) :
    ∃ cs, Ks.oall (L.map (fun c => Ks.bigNormalize big128 rb rs c ab N)) = .ok cs ∧ cs.length = L.length ∧
      (∀ c ∈ cs, ColWF N rs c) ∧ (∀ c ∈ cs, ∀ l ∈ c, ∀ x ∈ l, |x| ≤ 2 ^ rb - 1) ∧
      ∀ (s : List Poly) t, t < N → ∃ q e : Int,
        2 ^ (ab * S) * valCoeff rb (phase s (Ks.mkCt rb N cs)) t
          = 2 ^ (rb * rs) * valCoeff ab (phase s (Ks.mkCt ab N L)) t + e + q * 2 ^ (rb * rs + ab * S) ∧
        |e| ≤ (1 + snorm (min (L.length - 1) s.length) s) * C02.normTol (rb * rs) (ab * S) := by
  have hk := fun c (hc : c ∈ L) => kern_col big128 N rb rs ab H c hrb1 hrb hab1 hab hH0 hH (hb c hc)
  let Kd : Col → Col := fun c => (kern big128 rb rs ab N c).getD []
  have hKd : ∀ c ∈ L, kern big128 rb rs ab N c = some (Kd c) := by
    intro c hc
    obtain ⟨C, h, _⟩ := hk c hc
    simp only [Kd, h, Option.getD_some]
  have hKd' : ∀ c (hc : c ∈ L), ColWF N rs (Kd c) ∧
      ∀ t, t < N → (∀ d ∈ coefAt (Kd c) t, |d| ≤ 2 ^ rb - 1) ∧
        NormL.TorusNear (valI rb (coefAt (Kd c) t)) (rb * rs) (valI ab (coefAt c t)) (ab * c.length) ∧
        (ab * c.length ≤ rb * rs → NormL.TorusEq (valI rb (coefAt (Kd c) t)) (rb * rs) (valI ab (coefAt c t)) (ab * c.length)) := by
    intro c hc
    obtain ⟨C, h, h2⟩ := hk c hc
    have e : Kd c = C := by simp only [Kd, h, Option.getD_some]
    rw [e]; exact h2
  have hok : Ks.oall (L.map (fun c => Ks.bigNormalize big128 rb rs c ab N)) = .ok (L.map Kd) :=
    oall_map_ok _ Kd L (fun c hc => by rw [bigNormalize_eq, hKd c hc]; rfl)
  have hcswf : ∀ c ∈ L.map Kd, ColWF N rs c := by
    intro c hc
    obtain ⟨c0, hc0, rfl⟩ := List.mem_map.mp hc
    exact (hKd' c0 hc0).1
  have hcsne : L.map Kd ≠ [] := by simpa using hne
  refine ⟨L.map Kd, hok, by simp, hcswf, ?_, ?_⟩
  · intro c hc l hl x hx
    obtain ⟨c0, hc0, rfl⟩ := List.mem_map.mp hc
    obtain ⟨hw, hco⟩ := hKd' c0 hc0
    obtain ⟨t, ht, rfl⟩ := List.getElem_of_mem hx
    have htN : t < N := by rw [← hw.2 l hl]; exact ht
    apply (hco t htN).1
    unfold coefAt
    apply List.mem_map.mpr
    exact ⟨l, hl, by simp [List.getD_eq_getElem?_getD, List.getElem?_eq_getElem ht]⟩
  · intro s t ht
    obtain ⟨gr, szr⟩ := gwf_mk (N := N) rb rs (L.map Kd) hcsne hcswf
    obtain ⟨ga, sza⟩ := gwf_mk (N := N) ab S L hne hwf
    have hrk : (Ks.mkCt rb N (L.map Kd)).rank = L.length - 1 := by simp [GLWE.rank, Ks.mkCt]
    have hrka : (Ks.mkCt ab N L).rank = L.length - 1 := by simp [GLWE.rank, Ks.mkCt]
    have hpos : 0 < L.length := List.length_pos_of_ne_nil hne
    have := torus_phase3 gr gr ga rfl (by rw [hrk, hrka]) rb rb ab
      (2 ^ (ab * S)) 0 (2 ^ (rb * rs)) (2 ^ (rb * rs + ab * S)) (C02.normTol (rb * rs) (ab * S))
      (fun i hi t ht => by
        rw [hrk] at hi
        have hi' : i < L.length := by omega
        have hcolr : col (Ks.mkCt rb N (L.map Kd)) i = Kd (L[i]) := by
          show (L.map Kd).getD i [] = _
          simp [List.getD_eq_getElem?_getD, List.getElem?_eq_getElem hi']
        have hcola : col (Ks.mkCt ab N L) i = L[i] := by
          show L.getD i [] = _
          simp [List.getD_eq_getElem?_getD, List.getElem?_eq_getElem hi']
        have hmem : L[i] ∈ L := List.getElem_mem hi'
        obtain ⟨_, hco⟩ := hKd' _ hmem
        obtain ⟨_, hnear, heq⟩ := hco t ht
        rw [(hwf _ hmem).1] at hnear heq
        rw [hcolr, hcola, CoreEnc.valCoeff_eq, CoreEnc.valCoeff_eq]
        unfold C02.normTol
        split
        next hc =>
          obtain ⟨q, hq⟩ := heq hc
          exact ⟨q, 0, by linear_combination hq, by simp⟩
        next hc =>
          obtain ⟨q, e, hq, he⟩ := hnear
          exact ⟨q, e, by linear_combination hq, he⟩) s t ht
    rw [hrk] at this
    obtain ⟨q, e, he, hb'⟩ := this
    exact ⟨q, e, by linear_combination he, hb'⟩

/-- per-coefficient torus relation ⇒ one polynomial identity with an explicit error list and an explicit multiple of the modulus -/
theorem coeff_to_poly (N : Nat) (hN : 0 < N) (X Y : Col) (b1 b2 : Nat) (A B M U : Int)
    (h : ∀ t, t < N → ∃ q e : Int, A * valCoeff b1 X t = B * valCoeff b2 Y t + e + q * M ∧ |e| ≤ U) :
    ∃ E Q : Poly, E.length = N ∧ Q.length = N ∧ normInf E ≤ U ∧
      polyScale A (valP b1 N X) = polyAdd (polyAdd (polyScale B (valP b2 N Y)) E) (polyScale M Q) := by
  have hU : 0 ≤ U := by
    obtain ⟨_, e, _, he⟩ := h 0 hN
    exact (abs_nonneg e).trans he
  have h' : ∀ t, ∃ q e : Int, (t < N → A * valCoeff b1 X t = B * valCoeff b2 Y t + e + q * M) ∧ |e| ≤ U := by
    intro t
    by_cases c : t < N
    · obtain ⟨q, e, h1, h2⟩ := h t c
      exact ⟨q, e, fun _ => h1, h2⟩
    · exact ⟨0, 0, fun a => absurd a c, by simpa using hU⟩
  choose Qf Ef hQE using h'
  refine ⟨(List.range N).map Ef, (List.range N).map Qf, by simp, by simp, ?_, ?_⟩
  · apply normInf_le_of_forall _ hU
    intro x hx
    obtain ⟨t, _, rfl⟩ := List.mem_map.mp hx
    exact (hQE t).2
  · apply poly_ext (N := N) (by simp) (by simp)
    intro t ht
    rw [polyScale_getD, valP_getD _ _ _ _ ht, getD_polyAdd _ _ _ (by simp), getD_polyAdd _ _ _ (by simp),
      polyScale_getD, polyScale_getD, valP_getD _ _ _ _ ht]
    have e1 : ((List.range N).map Ef).getD t 0 = Ef t := by simp [List.getD_eq_getElem?_getD, ht]
    have e2 : ((List.range N).map Qf).getD t 0 = Qf t := by simp [List.getD_eq_getElem?_getD, ht]
    rw [e1, e2]
    have := (hQE t).1 ht
    linarith

/-- the same in `R N = ℤ[X]/(X^N+1)` -/
theorem coeff_to_ring (N : Nat) (hN : 0 < N) (X Y : Col) (b1 b2 : Nat) (A B M U : Int)
    (h : ∀ t, t < N → ∃ q e : Int, A * valCoeff b1 X t = B * valCoeff b2 Y t + e + q * M ∧ |e| ≤ U) :
    ∃ E Q : Poly, E.length = N ∧ Q.length = N ∧ normInf E ≤ U ∧
      (A : Ks.R N) * Ks.ι N (valP b1 N X) = (B : Ks.R N) * Ks.ι N (valP b2 N Y) + Ks.ι N E + (M : Ks.R N) * Ks.ι N Q := by
  obtain ⟨E, Q, hE, hQ, hn, hp⟩ := coeff_to_poly N hN X Y b1 b2 A B M U h
  refine ⟨E, Q, hE, hQ, hn, ?_⟩
  have h' := congrArg (Ks.ι N) hp
  rw [Ks.ι_polyScale, Ks.ι_add N _ _ (by simp [hE, hQ]), Ks.ι_add N _ _ (by simp [hE]), Ks.ι_polyScale, Ks.ι_polyScale] at h'
  exact h'

/-! ### `vec_znx_big_add_small_assign` never wraps under head-room, both accumulator widths -/

theorem znxAddW_exact (big128 : Bool) (X Y : Int) (hXY : X + Y < 2 ^ (bitsOf big128 - 1)) (x y : Poly)
    (hx : ∀ v ∈ x, |v| ≤ X) (hy : ∀ v ∈ y, |v| ≤ Y) : znxAddW (Ks.bigW big128) x y = polyAdd x y := by
  unfold znxAddW polyAdd
  induction x generalizing y with
  | nil => simp
  | cons a as ih =>
    cases y with
    | nil => simp
    | cons b bs =>
      have ha := abs_le.mp (hx a (by simp))
      have hb := abs_le.mp (hy b (by simp))
      simp only [List.zipWith_cons_cons]
      rw [ih bs (fun v hv => hx v (by simp [hv])) (fun v hv => hy v (by simp [hv]))]
      congr 1
      cases big128 with
      | false =>
        have h63 : X + Y < 2 ^ 63 := by simpa [bitsOf] using hXY
        show w64 (a + b) = a + b
        unfold w64; omega
      | true =>
        have h127 : X + Y < 2 ^ 127 := by simpa [bitsOf] using hXY
        show w128 (a + b) = a + b
        unfold w128; omega

/-- the body is added to column 0 of the accumulator exactly (no wrap) -/
theorem bigAdd_exact {N : Nat} (big128 : Bool) (X Y : Int) (hXY : X + Y < 2 ^ (bitsOf big128 - 1)) (res a : Col)
    (hr : LimbsN N res) (hres : ∀ l ∈ res, ∀ v ∈ l, |v| ≤ X) (ha : ∀ l ∈ a, ∀ v ∈ l, |v| ≤ Y) :
    Ks.bigAddSmallAssign big128 res a = C02L.colAdd res (fit N res.length a) := by
  unfold Ks.bigAddSmallAssign vecAddAssignW
  have key : List.zipWith (znxAddW (Ks.bigW big128)) (res.take (min a.length res.length)) (a.take (min a.length res.length))
        ++ (res.drop (min a.length res.length)).map id
      = List.zipWith polyAdd res (fit N res.length a) := by
    apply List.ext_getElem?
    intro j
    rw [assignZip_getElem?]
    simp only [List.getElem?_zipWith, fit_getElem?]
    by_cases hj : j < res.length
    · simp only [hj, if_true, List.getElem?_eq_getElem hj]
      congr 1
      have e : res.getD j [] = res[j] := by simp [List.getD_eq_getElem?_getD, List.getElem?_eq_getElem hj]
      have hm : res[j] ∈ res := List.getElem_mem hj
      rw [e]
      by_cases h1 : j < a.length
      · simp only [h1, if_true, getD_eq_of_lt (N := N) a j h1]
        apply znxAddW_exact big128 X Y hXY _ _ (hres _ hm)
        have e2 : a.getD j (zeroP N) = a[j] := by simp [List.getD_eq_getElem?_getD, List.getElem?_eq_getElem h1]
        rw [e2]
        exact ha _ (List.getElem_mem h1)
      · simp only [h1, if_false, getD_of_ge (N := N) a j (by omega)]
        exact (C02L.polyAdd_zero_right _ N (hr _ hm)).symm
    · simp [hj]
  simp only [List.map_id] at key
  exact key

/-! ### the executed `glwe_keyswitch_internal`: its input DFT buffer and its product buffer -/

/-- the `a_dft` buffer of `glwe_keyswitch_internal` (mask columns, copied limb for limb) -/
def aDftOf (a : Ks.Ct) : Buf :=
  (List.range (a.rank + 1 - 1)).foldl (fun (acc : Buf) ci => opDftApply 1 0 acc ci (Ks.bufOfCols a.n a.size a.cols) (ci + 1))
    (Ks.zeroBuf a.n (a.rank + 1 - 1) a.size)

/-- the product buffer `gglwe_product_dft(res_dft = 0, a_dft, key)` of `glwe_keyswitch` -/
def prodOf (rout : Nat) (a : Ks.Ct) (key : Ks.Key) : Buf :=
  Ks.gglweProductDft (Ks.zeroBuf a.n (rout + 1) key.size) (aDftOf a) key

theorem keyswitchInternal_eq (big128 : Bool) (rout : Nat) (a : Ks.Ct) (key : Ks.Key) (h : a.base2k = key.base2k) :
    Ks.keyswitchInternal big128 (Ks.zeroBuf a.n (rout + 1) key.size) a key =
      .ok ((prodOf rout a key).setAct 0 (Ks.bigAddSmallAssign big128 ((prodOf rout a key).act 0) (a.cols.getD 0 []))) := by
  unfold Ks.keyswitchInternal
  rw [if_neg (by simpa using h)]
  rfl

theorem aDft_spec {N : Nat} (a : Ks.Ct) (ha : GWF N a) :
    (aDftOf a).WF ∧ (aDftOf a).cols = a.rank ∧ (aDftOf a).size = a.size ∧ (aDftOf a).n = N ∧
    (∀ c, c < a.rank → (aDftOf a).act c = a.cols.getD (c + 1) []) ∧
    ∀ c l, (limbOr0 N ((aDftOf a).act c) l).length = N := by
  have hfold := Ks.foldl_setActG (fun n size c => dftApplyCol n 1 0 size ((Ks.bufOfCols a.n a.size a.cols).act (c + 1)))
    (List.range (a.rank + 1 - 1)) (Ks.zeroBuf a.n (a.rank + 1 - 1) a.size) (Ks.zeroBuf_WF _ _ _) List.nodup_range
    (fun c hc => by simpa [Ks.zeroBuf] using List.mem_range.mp hc) (by intro c; simp [Ks.zeroBuf])
  simp only at hfold
  have hstep : (fun (acc : Buf) ci => opDftApply 1 0 acc ci (Ks.bufOfCols a.n a.size a.cols) (ci + 1)) =
      (fun (acc : Buf) c => acc.setAct c (dftApplyCol acc.n 1 0 acc.size ((Ks.bufOfCols a.n a.size a.cols).act (c + 1)))) := rfl
  unfold aDftOf
  rw [hstep]
  generalize hX : (List.range (a.rank + 1 - 1)).foldl
    (fun (acc : Buf) c => acc.setAct c (dftApplyCol acc.n 1 0 acc.size ((Ks.bufOfCols a.n a.size a.cols).act (c + 1))))
    (Ks.zeroBuf a.n (a.rank + 1 - 1) a.size) = aDft at hfold ⊢
  obtain ⟨hwf, hXc, hXs, hXn, hXa⟩ := hfold
  have hcol : ∀ c, c < a.rank → aDft.act c = a.cols.getD (c + 1) [] := by
    intro c hc
    rw [hXa c, if_pos (by simp; omega)]
    have hlen : (a.cols.getD (c + 1) []).length = a.size := (ha.col_wf (c + 1) (by omega)).1
    have hact : (Ks.bufOfCols a.n a.size a.cols).act (c + 1) = a.cols.getD (c + 1) [] := by
      unfold Buf.act Ks.bufOfCols
      simp only
      apply List.take_of_length_le
      rw [hlen]
    simp only [Ks.zeroBuf]
    rw [hact]
    have := Ks.dftApplyCol_id a.n (a.cols.getD (c + 1) [])
    rw [hlen] at this
    exact this
  refine ⟨hwf, by rw [hXc]; simp [Ks.zeroBuf], by rw [hXs]; simp [Ks.zeroBuf], by rw [hXn]; exact ha.1, hcol, ?_⟩
  intro c l
  unfold limbOr0
  apply Ks.getD_length_of_all
  intro p hp
  by_cases hc : c < a.rank
  · rw [hcol c hc] at hp
    exact (ha.col_wf (c + 1) (by omega)).2 p hp
  · rw [hXa c, if_neg (by simp; omega)] at hp
    unfold Buf.act Ks.zeroBuf at hp
    simp only at hp
    have hnil : (List.replicate (a.rank + 1 - 1) (Ks.zeroCol a.n a.size)).getD c [] = [] := by
      rw [List.getD_eq_getElem?_getD, List.getElem?_eq_none (by simp; omega)]; rfl
    rw [hnil] at hp
    simp at hp

theorem vmp_limbs (n : Nat) (aF : List Poly) (m : PMat) (lo rl : Nat) (hM : ∀ j q, (m.entry j q).length = n) :
    ∀ p ∈ vmpFlat n aF m lo rl, p.length = n := by
  intro p hp
  unfold vmpFlat at hp
  simp only [List.mem_map, List.mem_range] at hp
  obtain ⟨r, _, rfl⟩ := hp
  split
  · apply sumPolys_length
    intro q hq
    simp only [List.mem_map, List.mem_range] at hq
    obtain ⟨j, _, rfl⟩ := hq
    rw [Hal.negMul_length]; exact hM _ _
  · simp [zeroP]

/-- every column of the executed product is `key.mat.size` limbs of `N` coefficients (every `dsize ≥ 1`) -/
theorem prod_col_wf (N : Nat) (res a : Buf) (key : Ks.Key) (hD : 1 ≤ key.dsize) (hres : res.WF)
    (hmax : res.maxSize = key.mat.size) (hsize : res.size = key.mat.size) (hcols : res.cols = key.mat.colsOut)
    (hresn : res.n = N) (han : a.n = N) (hM : ∀ j q, (key.mat.entry j q).length = N) (c : Nat) (hc : c < res.cols) :
    ColWF N key.mat.size ((Ks.gglweProductDft res a key).act c) := by
  subst hresn
  by_cases h1 : key.dsize = 1
  · have e : Ks.gglweProductDft res a key = opVmp res a key.mat 0 := by
      unfold Ks.gglweProductDft; rw [if_pos h1]
    obtain ⟨s1, s2, s3, s4, _, s6⟩ := Ks.opVmp_spec res a key.mat 0 hres
    rw [e]
    have hlen : ((opVmp res a key.mat 0).act c).length = key.mat.size := by
      rw [Buf.act_length _ s1 c (by rw [s2]; exact hc), s3, hsize]
    refine ⟨hlen, ?_⟩
    intro p hp
    obtain ⟨l, hl, rfl⟩ := List.getElem_of_mem hp
    have hl' : l < res.size := by rw [hsize, ← hlen]; exact hl
    have e2 : ((opVmp res a key.mat 0).act c)[l] = Ks.rawLimb res.n (opVmp res a key.mat 0) c l := by
      have h1 : ((opVmp res a key.mat 0).act c)[l] = ((opVmp res a key.mat 0).act c).getD l (zeroP res.n) := by
        simp [List.getD_eq_getElem?_getD, List.getElem?_eq_getElem hl]
      rw [h1]
      unfold Ks.rawLimb limbOr0 Buf.act
      exact Ks.getD_take' _ _ l _ (by rw [s3]; exact hl')
    rw [e2, s6 c l hc, if_pos hl']
    exact Ks.getD_length_of_all _ _ (vmp_limbs res.n _ _ _ _ hM)
  · have hD2 : 2 ≤ key.dsize := by omega
    have hlen := Ks.product_act_length res a key h1 hres hmax hcols han.symm c hc
    refine ⟨hlen, ?_⟩
    intro p hp
    obtain ⟨l, hl, rfl⟩ := List.getElem_of_mem hp
    have e2 : ((Ks.gglweProductDft res a key).act c)[l] = limbOr0 res.n ((Ks.gglweProductDft res a key).act c) l := by
      simp [limbOr0, List.getD_eq_getElem?_getD, List.getElem?_eq_getElem hl]
    rw [e2, Ks.product_accum res a key hD2 hres hmax hcols han.symm l c hc]
    exact (Ks.ι_foldl_cond res.n (key.dsize - 1) (fun k => l < Ks.passSize key (k + 1))
      (fun k => Ks.passEntry a key res.n (k + 1) l c) _ (fun k => Ks.passEntry_lengthX a key res.n (k + 1) l c hM)
      (by split
          · exact Ks.passEntry_lengthX a key res.n 0 l c hM
          · simp [zeroP])).1

theorem prod_shape (res a : Buf) (key : Ks.Key) (hres : res.WF) (hmax : res.maxSize = key.mat.size)
    (hsize : res.size = key.mat.size) (hcols : res.cols = key.mat.colsOut) (hn : res.n = a.n) :
    (Ks.gglweProductDft res a key).WF ∧ (Ks.gglweProductDft res a key).cols = res.cols ∧
    (Ks.gglweProductDft res a key).size = key.mat.size ∧ (Ks.gglweProductDft res a key).n = res.n := by
  by_cases h1 : key.dsize = 1
  · have e : Ks.gglweProductDft res a key = opVmp res a key.mat 0 := by
      unfold Ks.gglweProductDft; rw [if_pos h1]
    obtain ⟨s1, s2, s3, s4, _, _⟩ := Ks.opVmp_spec res a key.mat 0 hres
    rw [e]
    exact ⟨s1, s2, by rw [s3, hsize], s4⟩
  · obtain ⟨h, _⟩ := Ks.product_loop res a key _ hcols (Ks.initial_shapes res a key hres hmax hn) key.dsize (Nat.le_refl _)
    unfold Ks.gglweProductDft
    simp only [if_neg h1]
    generalize (List.range key.dsize).foldl (Ks.productStep a key)
      { res := res, ai := Ks.zeroBuf a.n a.cols (min (Ks.divCeil a.size key.dsize) key.mat.rows),
        tmp := Ks.zeroBuf res.n res.cols key.mat.size } = st at h
    exact ⟨⟨h.rwf.1, Nat.le_refl _, h.rwf.2.2⟩, h.rcols, h.rmax, h.rn⟩

/-- the columns `0 … rout` of the big accumulator -/
def accCols (rout : Nat) (resBig : Buf) : List Col := (List.range (rout + 1)).map resBig.act

theorem getD_range_map {α} (n i : Nat) (f : Nat → List α) (hi : i < n) : ((List.range n).map f).getD i [] = f i := by
  simp [List.getD_eq_getElem?_getD, List.getElem?_map, List.getElem?_range hi]

theorem colAdd_bound (x y : Col) (X Y : Int) (hx : ∀ l ∈ x, ∀ v ∈ l, |v| ≤ X) (hy : ∀ l ∈ y, ∀ v ∈ l, |v| ≤ Y) :
    ∀ l ∈ C02L.colAdd x y, ∀ v ∈ l, |v| ≤ X + Y := by
  intro l hl v hv
  obtain ⟨j, hj, rfl⟩ := List.getElem_of_mem hl
  simp only [C02L.colAdd, List.length_zipWith] at hj
  simp only [C02L.colAdd, List.getElem_zipWith] at hv
  obtain ⟨t, ht, rfl⟩ := List.getElem_of_mem hv
  simp only [polyAdd, List.length_zipWith] at ht
  simp only [polyAdd, List.getElem_zipWith]
  have h1 := hx _ (List.getElem_mem (by omega : j < x.length)) _ (List.getElem_mem (by omega : t < x[j].length))
  have h2 := hy _ (List.getElem_mem (by omega : j < y.length)) _ (List.getElem_mem (by omega : t < y[j].length))
  exact (abs_add_le _ _).trans (add_le_add h1 h2)

theorem fit_bound (N S : Nat) (a : Col) (Y : Int) (h0 : 0 ≤ Y) (ha : ∀ l ∈ a, ∀ v ∈ l, |v| ≤ Y) :
    ∀ l ∈ fit N S a, ∀ v ∈ l, |v| ≤ Y := by
  intro l hl v hv
  unfold fit at hl
  simp only [List.mem_map, List.mem_range] at hl
  obtain ⟨j, _, rfl⟩ := hl
  rw [List.getD_eq_getElem?_getD] at hv
  cases hj : a[j]? with
  | none =>
    simp only [hj, Option.getD_none, zeroP, List.mem_replicate] at hv
    rw [hv.2]; simpa using h0
  | some p =>
    simp only [hj, Option.getD_some] at hv
    exact ha p (List.mem_of_getElem? hj) v hv

/-- **the product stage, on the executed `glwe_keyswitch_internal`** (every `dsize ≥ 1`, all ranks, both accumulator widths).  With the key
relation `val(φ_{i,r}) = s_i·β^{S−(r+1)·dsize} + ι(EL i r) + β^S·ι(KL i r)` (`β = 2^{base2k(key)}`, `S = key.size`; the multiple `KL` of the torus
modulus is what a real key carries), the product bounded by `Hp`, the body by `Hb`, `Hp + Hb < 2^63` (resp. `2^127`): the call returns, the
accumulator columns are `S` limbs of `N` coefficients bounded by `Hp + Hb`, and the value of its phase under `skOut` is
`Σ_i s_i·usedVal(a_{i+1}) + val_S(body) + ι(errL EL) − ι(dropL) + β^S·(ι(errL KL) − Σ_i head_i)`. -/
theorem keyswitchInternal_value (big128 : Bool) (N rout : Nat) (a : Ks.Ct) (key : Ks.Key) (sIn skOut : List Poly)
    (EL KL : ℕ → ℕ → Poly) (Hp Hb : Int)
    (hN : 0 < N) (ha : GWF N a) (hbk : a.base2k = key.base2k) (hrank : a.rank = key.mat.colsIn)
    (hrout : rout + 1 = key.mat.colsOut) (hD : 1 ≤ key.dsize) (hM : ∀ j q, (key.mat.entry j q).length = N)
    (hS : key.mat.rows * key.dsize ≤ key.mat.size)
    (hEL : ∀ i r, (EL i r).length = N) (hKL : ∀ i r, (KL i r).length = N)
    (hkey : ∀ i, i < key.mat.colsIn → ∀ r, r < key.mat.rows →
      Gadget.val (Ks.radix N key.base2k) key.mat.size (Ks.keyPhase N skOut key.mat i r) =
        Ks.ι N (sIn.getD i []) * Ks.radix N key.base2k ^ (key.mat.size - (r + 1) * key.dsize) + Ks.ι N (EL i r)
          + Ks.radix N key.base2k ^ key.mat.size * Ks.ι N (KL i r))
    (hHb0 : 0 ≤ Hb) (hH : Hp + Hb < 2 ^ (bitsOf big128 - 1))
    (hprod : ∀ i, i < rout + 1 → ∀ l ∈ (prodOf rout a key).act i, ∀ x ∈ l, |x| ≤ Hp)
    (hbody : ∀ l ∈ a.cols.getD 0 [], ∀ x ∈ l, |x| ≤ Hb) :
    ∃ resBig, Ks.keyswitchInternal big128 (Ks.zeroBuf a.n (rout + 1) key.size) a key = .ok resBig ∧ resBig.n = N ∧
      (∀ c ∈ accCols rout resBig, ColWF N key.mat.size c) ∧
      (∀ c ∈ accCols rout resBig, ∀ l ∈ c, ∀ x ∈ l, |x| ≤ Hp + Hb) ∧
      Ks.ι N (valP key.base2k N (phase skOut (Ks.mkCt key.base2k N (accCols rout resBig)))) =
        ∑ i ∈ Finset.range key.mat.colsIn, Ks.ι N (sIn.getD i []) *
            Gadget.usedVal (Ks.radix N key.base2k) key.mat.size key.dsize key.mat.rows a.size (Ks.inLimb N (aDftOf a) i)
          + Ks.ι N (valP key.base2k N (fit N key.mat.size (a.cols.getD 0 [])))
          + Ks.ι N (Ks.errL N key.base2k (aDftOf a) key EL) - Ks.ι N (Ks.dropL N key.base2k skOut (aDftOf a) key)
          + Ks.radix N key.base2k ^ key.mat.size *
              (Ks.ι N (Ks.errL N key.base2k (aDftOf a) key KL)
                - ∑ i ∈ Finset.range key.mat.colsIn,
                    Gadget.head (Ks.radix N key.base2k) key.dsize key.mat.rows a.size (Ks.inLimb N (aDftOf a) i)
                      (Ks.keyPhase N skOut key.mat i)) := by
  obtain ⟨dwf, dcols, dsz, dn, dact, dA⟩ := aDft_spec a ha
  have hn : a.n = N := ha.1
  have hc0 : 0 < key.mat.colsOut := by omega
  have z_wf := Ks.zeroBuf_WF a.n (rout + 1) key.size
  obtain ⟨pwf, pcols, psize, pn⟩ := prod_shape (Ks.zeroBuf a.n (rout + 1) key.size) (aDftOf a) key z_wf rfl rfl hrout
    (by show a.n = _; rw [dn, hn])
  have pcolwf : ∀ c, c < rout + 1 → ColWF N key.mat.size ((prodOf rout a key).act c) := fun c hc =>
    prod_col_wf N _ (aDftOf a) key hD z_wf rfl rfl hrout hn dn hM c hc
  have hPeq : prodOf rout a key = Ks.gglweProductDft (Ks.zeroBuf a.n (rout + 1) key.size) (aDftOf a) key := rfl
  rw [← hPeq] at pwf pcols psize pn
  generalize prodOf rout a key = P at *
  have hFwf : ColWF N key.mat.size (fit N key.mat.size (a.cols.getD 0 [])) := fit_wf (ha.col_limbs 0) _
  have hA0 : Ks.bigAddSmallAssign big128 (P.act 0) (a.cols.getD 0 [])
      = C02L.colAdd (P.act 0) (fit N key.mat.size (a.cols.getD 0 [])) := by
    have := bigAdd_exact (N := N) big128 Hp Hb hH (P.act 0) (a.cols.getD 0 []) (pcolwf 0 (by omega)).2 (hprod 0 (by omega)) hbody
    rw [(pcolwf 0 (by omega)).1] at this
    exact this
  have hA0wf := colAdd_wf (pcolwf 0 (by omega)) hFwf
  refine ⟨P.setAct 0 (Ks.bigAddSmallAssign big128 (P.act 0) (a.cols.getD 0 [])), by rw [hPeq]; exact keyswitchInternal_eq big128 rout a key hbk,
    by show P.n = N; rw [pn]; exact hn, ?_⟩
  have hact0 : (P.setAct 0 (Ks.bigAddSmallAssign big128 (P.act 0) (a.cols.getD 0 []))).act 0
      = C02L.colAdd (P.act 0) (fit N key.mat.size (a.cols.getD 0 [])) := by
    rw [Buf.act_setAct_same P pwf 0 (by rw [pcols]; show 0 < rout + 1; omega) _ (by rw [hA0, hA0wf.1, psize]), hA0]
  have hactc : ∀ c, c ≠ 0 → (P.setAct 0 (Ks.bigAddSmallAssign big128 (P.act 0) (a.cols.getD 0 []))).act c = P.act c :=
    fun c hc => Buf.act_setAct_other P 0 c _ hc
  generalize P.setAct 0 (Ks.bigAddSmallAssign big128 (P.act 0) (a.cols.getD 0 [])) = resBig at hact0 hactc ⊢
  have hwfacc : ∀ c ∈ accCols rout resBig, ColWF N key.mat.size c := by
    intro c hc
    obtain ⟨i, hi, rfl⟩ := List.mem_map.mp hc
    have hi' := List.mem_range.mp hi
    by_cases h0 : i = 0
    · subst h0; rw [hact0]; exact hA0wf
    · rw [hactc i h0]; exact pcolwf i hi'
  have hPwf : ∀ c ∈ (List.range (rout + 1)).map P.act, ColWF N key.mat.size c := by
    intro c hc
    obtain ⟨i, hi, rfl⟩ := List.mem_map.mp hc
    exact pcolwf i (List.mem_range.mp hi)
  refine ⟨hwfacc, ?_, ?_⟩
  · intro c hc
    obtain ⟨i, hi, rfl⟩ := List.mem_map.mp hc
    have hi' := List.mem_range.mp hi
    by_cases h0 : i = 0
    · subst h0; rw [hact0]
      exact colAdd_bound _ _ Hp Hb (hprod 0 (by omega)) (fit_bound N _ _ Hb hHb0 hbody)
    · rw [hactc i h0]
      intro l hl x hx
      have := hprod i hi' l hl x hx
      linarith
  · have hne1 : accCols rout resBig ≠ [] := by
      intro h; have := congrArg List.length h; simp [accCols] at this
    have hne2 : (List.range (rout + 1)).map P.act ≠ [] := by
      intro h; have := congrArg List.length h; simp at this
    have e1 := Core.ι_valP_phase_cols N hN key.base2k key.mat.size skOut _ hne1 hwfacc
    have e2 := Core.ι_valP_phase_cols N hN key.base2k key.mat.size skOut _ hne2 hPwf
    have e3 := Core.ι_valP_phase_rows' N hN key.base2k key.mat.size skOut _ hne2 hPwf
    have l1 : (accCols rout resBig).length - 1 = rout := by simp [accCols]
    have l2 : ((List.range (rout + 1)).map P.act).length - 1 = rout := by simp
    rw [l1] at e1
    rw [l2] at e2
    have g0 : (accCols rout resBig).getD 0 [] = C02L.colAdd (P.act 0) (fit N key.mat.size (a.cols.getD 0 [])) := by
      unfold accCols; rw [getD_range_map _ _ _ (by omega), hact0]
    have g0' : ((List.range (rout + 1)).map P.act).getD 0 [] = P.act 0 := getD_range_map _ _ _ (by omega)
    have gs : ∑ i ∈ Finset.range (min rout skOut.length), Ks.ι N (skOut.getD i []) * Ks.ι N (valP key.base2k N ((accCols rout resBig).getD (i + 1) []))
        = ∑ i ∈ Finset.range (min rout skOut.length), Ks.ι N (skOut.getD i []) *
            Ks.ι N (valP key.base2k N (((List.range (rout + 1)).map P.act).getD (i + 1) [])) := by
      apply Finset.sum_congr rfl
      intro i hi
      have hi' : i + 1 < rout + 1 := by have := Finset.mem_range.mp hi; omega
      unfold accCols
      rw [getD_range_map _ _ _ hi', getD_range_map _ _ _ hi', hactc (i + 1) (by omega)]
    rw [e1, g0, gs, valP_colAdd key.base2k (pcolwf 0 (by omega)) hFwf, Ks.ι_add N _ _ (by simp)]
    rw [g0'] at e2
    -- the executed product, with the key error `EL + β^S·KL`
    let EL' : ℕ → ℕ → Poly := fun i r => polyAdd (EL i r) (polyScale ((2 : ℤ) ^ (key.base2k * key.mat.size)) (KL i r))
    have hEL' : ∀ i r, (EL' i r).length = N := fun i r => by simp [EL', hEL, hKL]
    have hιEL' : ∀ i r, Ks.ι N (EL' i r) = Ks.ι N (EL i r) + Ks.radix N key.base2k ^ key.mat.size * Ks.ι N (KL i r) := by
      intro i r
      show Ks.ι N (polyAdd _ _) = _
      rw [Ks.ι_add N _ _ (by simp [hEL, hKL]), Ks.ι_polyScale, Ks.radix_pow]
    have h4 := (Ks.keyswitch_executed_noise_bound_drop N key.base2k skOut (Ks.zeroBuf a.n (rout + 1) key.size) (aDftOf a) key
      (fun i => Ks.ι N (sIn.getD i [])) EL' hD hN z_wf rfl rfl hrout hc0 hn dn (dcols.trans hrank) hM hS
      (fun i hi r hr => by rw [hkey i hi r hr, hιEL']; ring) dA hEL').1
    rw [← hPeq] at h4
    have hmap : ∀ l, ((List.range (rout + 1)).map P.act).map (fun col => limbOr0 N col l)
        = (List.range (Ks.zeroBuf a.n (rout + 1) key.size).cols).map (fun c => limbOr0 N (P.act c) l) := by
      intro l; rw [List.map_map]; rfl
    simp only [hmap, ← Ks.radix_eq] at e3
    rw [h4, dsz] at e3
    have herr : Ks.ι N (Ks.errL N key.base2k (aDftOf a) key EL')
        = Ks.ι N (Ks.errL N key.base2k (aDftOf a) key EL)
          + Ks.radix N key.base2k ^ key.mat.size * Ks.ι N (Ks.errL N key.base2k (aDftOf a) key KL) := by
      rw [Ks.ι_errL N _ _ _ EL' hN dA hEL', Ks.ι_errL N _ _ _ EL hN dA hEL, Ks.ι_errL N _ _ _ KL hN dA hKL,
        Finset.mul_sum, ← Finset.sum_add_distrib]
      apply Finset.sum_congr rfl
      intro i _
      rw [Finset.mul_sum, ← Finset.sum_add_distrib]
      apply Finset.sum_congr rfl
      intro r _
      rw [hιEL']; ring
    rw [herr] at e3
    linear_combination e2.symm.trans e3

/-! ### the covered regime: every input limb is used, nothing of the body is truncated -/

theorem val_shift {R : Type*} [CommRing R] (β : R) (S sc : Nat) (h : sc ≤ S) (x : ℕ → R) :
    ∑ k ∈ Finset.range sc, x k * β ^ (S - 1 - k) = β ^ (S - sc) * ∑ k ∈ Finset.range sc, x k * β ^ (sc - 1 - k) := by
  rw [Finset.mul_sum]
  apply Finset.sum_congr rfl
  intro k hk
  have hk' := Finset.mem_range.mp hk
  have e : S - 1 - k = (S - sc) + (sc - 1 - k) := by omega
  rw [e, pow_add]; ring

/-- `ι(val(c))` of a column of `sc ≤ S` limbs, at the weights of an `S`-limb number -/
theorem ι_valP_at (N b S : Nat) (c : Col) (hc : LimbsN N c) (h : c.length ≤ S) :
    ∑ k ∈ Finset.range c.length, Ks.ι N (limbOr0 N c k) * Ks.radix N b ^ (S - 1 - k)
      = Ks.radix N b ^ (S - c.length) * Ks.ι N (valP b N c) := by
  rw [Core.ι_valP N b c hc, ← Ks.radix_eq, val_shift _ S c.length h]

theorem ι_valP_fit (N b S : Nat) (c : Col) (hc : LimbsN N c) (h : c.length ≤ S) :
    Ks.ι N (valP b N (fit N S c)) = Ks.radix N b ^ (S - c.length) * Ks.ι N (valP b N c) := by
  rw [Core.ι_valP N b _ (fit_wf hc S).2, (fit_wf hc S).1, ← ι_valP_at N b S c hc h, ← Ks.radix_eq]
  have e : ∀ k, k < S → limbOr0 N (fit N S c) k = limbOr0 N c k := by
    intro k h1
    unfold limbOr0
    rw [List.getD_eq_getElem?_getD, fit_getElem?, if_pos h1, Option.getD_some]
  rw [Finset.sum_congr rfl (fun k hk => by rw [e k (Finset.mem_range.mp hk)])]
  symm
  apply Finset.sum_subset (Finset.range_subset_range.mpr h)
  intro k _ hk'
  have h2 : c.length ≤ k := by simpa using hk'
  unfold limbOr0
  rw [getD_of_ge c k h2, Ks.ι_zero, zero_mul]

/-- **covered regime** (`a.size ≤ key.size` and `a.size ≤ dnum·dsize`): the used part of the mask plus the body at `S` limbs is the whole phase
of the input under the input secret, scaled by `β^(S − a.size)` — the truncation term of the general regime is zero. -/
theorem covered_input_value (N : Nat) (a : Ks.Ct) (key : Ks.Key) (sIn : List Poly) (hN : 0 < N) (ha : GWF N a)
    (hrank : a.rank = key.mat.colsIn) (hs : key.mat.colsIn ≤ sIn.length) (hD : 1 ≤ key.dsize)
    (h1 : a.size ≤ key.mat.size) (h2 : a.size ≤ key.mat.rows * key.dsize) :
    ∑ i ∈ Finset.range key.mat.colsIn, Ks.ι N (sIn.getD i []) *
        Gadget.usedVal (Ks.radix N key.base2k) key.mat.size key.dsize key.mat.rows a.size (Ks.inLimb N (aDftOf a) i)
      + Ks.ι N (valP key.base2k N (fit N key.mat.size (a.cols.getD 0 [])))
      = Ks.radix N key.base2k ^ (key.mat.size - a.size) * Ks.ι N (valP key.base2k N (phase sIn a)) := by
  obtain ⟨_, _, _, _, dact, _⟩ := aDft_spec a ha
  have hwf : ∀ c ∈ a.cols, ColWF N a.size c := ha.2.2
  have e1 := Core.ι_valP_phase_cols N hN key.base2k a.size sIn a.cols ha.2.1 hwf
  have hph : phase sIn (Ks.mkCt key.base2k N a.cols) = phase sIn a := rfl
  have hmin : min (a.cols.length - 1) sIn.length = key.mat.colsIn := by
    have : a.cols.length - 1 = a.rank := rfl
    rw [this, hrank]; omega
  rw [hph, hmin] at e1
  rw [e1, mul_add, Finset.mul_sum]
  have hb := ha.col_wf 0 (Nat.zero_le _)
  rw [ι_valP_fit N key.base2k key.mat.size _ hb.2 (by rw [hb.1]; exact h1), hb.1, add_comm]
  congr 1
  apply Finset.sum_congr rfl
  intro i hi
  have hi' : i < a.rank := by rw [hrank]; exact Finset.mem_range.mp hi
  have hc := ha.col_wf (i + 1) (by omega)
  rw [Gadget.usedVal_eq_val _ _ _ _ _ _ (by omega) h2]
  have e : ∀ m, Ks.inLimb N (aDftOf a) i m = Ks.ι N (limbOr0 N (a.cols.getD (i + 1) []) m) := by
    intro m; unfold Ks.inLimb; rw [dact i hi']
  simp only [e]
  have := ι_valP_at N key.base2k key.mat.size (a.cols.getD (i + 1) []) hc.2 (by rw [hc.1]; exact h1)
  rw [hc.1] at this
  rw [this]; ring

/-! ### stage lemmas: `convIn` and `normOut` -/

/-- limb count of the converted input: `a.size` when the radices agree, `⌈a.size·base2k(a) / base2k(key)⌉` otherwise -/
def convSize (a : Ks.Ct) (key : Ks.Key) : Nat :=
  if a.base2k ≠ key.base2k then Ks.divCeil (a.size * a.base2k) key.base2k else a.size

/-- **`convIn_phase`** — the radix conversion in front of the product (`Ks.convIn`: identity when the radices agree, `glwe_normalize` into
`⌈a.size·b_in/b_key⌉` limbs of the key radix otherwise), C08 discharged: it returns a well-formed ciphertext of the key radix, same rank,
digits bounded by `Hin + 2^b_key`, whose phase under every secret is the phase of `a` re-expressed (`normTol` is in fact `0` here:
`conv_tol_zero`). -/
theorem convIn_phase (N : Nat) (a : Ks.Ct) (key : Ks.Key) (Hin : Int) (ha : GWF N a)
    (hbi1 : 1 ≤ a.base2k) (hbi : a.base2k ≤ 62) (hbk1 : 1 ≤ key.base2k) (hbk : key.base2k ≤ 62)
    (hH0 : 0 ≤ Hin) (hH : Hin + 8 ≤ 2 ^ 62) (hb : ∀ c ∈ a.cols, ∀ l ∈ c, ∀ x ∈ l, |x| ≤ Hin) :
    ∃ aConv, Ks.convIn a key = .ok aConv ∧ GWF N aConv ∧ aConv.base2k = key.base2k ∧ aConv.rank = a.rank ∧
      aConv.size = convSize a key ∧ (∀ c ∈ aConv.cols, ∀ l ∈ c, ∀ x ∈ l, |x| ≤ Hin + 2 ^ key.base2k) ∧
      ∀ (s : List Poly) t, t < N → ∃ q e : Int,
        2 ^ (a.base2k * a.size) * valCoeff key.base2k (phase s aConv) t
          = 2 ^ (key.base2k * convSize a key) * valCoeff a.base2k (phase s a) t + e
            + q * 2 ^ (key.base2k * convSize a key + a.base2k * a.size) ∧
        |e| ≤ (1 + snorm (min a.rank s.length) s) * C02.normTol (key.base2k * convSize a key) (a.base2k * a.size) := by
  have hpow : (0 : Int) ≤ 2 ^ key.base2k := by positivity
  by_cases hne : a.base2k ≠ key.base2k
  · obtain ⟨cs, hok, hlen, hwf, hdig, hph⟩ := norm_stage false N key.base2k (convSize a key) a.base2k a.size Hin a.cols
      hbk1 hbk hbi1 hbi hH0 (by simpa [bitsOf] using hH) ha.2.1 ha.2.2 hb
    have hcsne : cs ≠ [] := by
      intro h; rw [h] at hlen; exact ha.2.1 (List.eq_nil_of_length_eq_zero hlen.symm)
    obtain ⟨gw, gs⟩ := gwf_mk (N := N) key.base2k (convSize a key) cs hcsne hwf
    refine ⟨Ks.mkCt key.base2k N cs, ?_, gw, rfl, ?_, gs, ?_, ?_⟩
    · unfold Ks.convIn
      rw [if_pos hne]
      unfold Ks.glweNormalize
      have e : a.cols.map (fun c => Ks.ofOpt (normalizeCol? key.base2k (Ks.divCeil (a.size * a.base2k) key.base2k) 0 c a.base2k a.n) "fuel")
          = a.cols.map (fun c => Ks.bigNormalize false key.base2k (convSize a key) c a.base2k N) := by
        apply List.map_congr_left
        intro c _
        rw [ha.1]
        unfold convSize
        rw [if_pos hne]
        rfl
      rw [e, hok, ha.1]
      rfl
    · show cs.length - 1 = a.cols.length - 1
      rw [hlen]
    · intro c hc l hl x hx
      have := hdig c hc l hl x hx
      linarith
    · intro s t ht
      obtain ⟨q, e, h1, h2⟩ := hph s t ht
      exact ⟨q, e, h1, h2⟩
  · have heq : a.base2k = key.base2k := by simpa using hne
    have hsz : convSize a key = a.size := by unfold convSize; rw [if_neg hne]
    refine ⟨a, by unfold Ks.convIn; rw [if_neg hne], ha, heq, rfl, hsz.symm, ?_, ?_⟩
    · intro c hc l hl x hx
      have := hb c hc l hl x hx
      linarith
    · intro s t _
      refine ⟨0, 0, ?_, ?_⟩
      · rw [hsz, heq]; ring
      · have h1 := snorm_nonneg (min a.rank s.length) s
        have h2 : 0 ≤ C02.normTol (key.base2k * convSize a key) (a.base2k * a.size) := by
          unfold C02.normTol; split <;> positivity
        simpa using mul_nonneg (by linarith : (0 : Int) ≤ 1 + snorm (min a.rank s.length) s) h2

/-- the conversion never loses precision: its tolerance is `0` -/
theorem conv_tol_zero (a : Ks.Ct) (key : Ks.Key) (hbk1 : 1 ≤ key.base2k) :
    C02.normTol (key.base2k * convSize a key) (a.base2k * a.size) = 0 := by
  unfold C02.normTol
  rw [if_pos]
  unfold convSize
  split
  · unfold Ks.divCeil
    have h1 := Nat.div_add_mod (a.size * a.base2k + key.base2k - 1) key.base2k
    have h2 := Nat.mod_lt (a.size * a.base2k + key.base2k - 1) (by omega : 0 < key.base2k)
    rw [Nat.mul_comm a.base2k a.size]
    generalize key.base2k * ((a.size * a.base2k + key.base2k - 1) / key.base2k) = z at h1 ⊢
    generalize a.size * a.base2k = w at h1 h2 ⊢
    omega
  · rename_i h
    have : a.base2k = key.base2k := by simpa using h
    rw [this]

/-- **`normOut_phase`** — the output loop of `glwe_keyswitch` (`vec_znx_big_normalize` of every accumulator column into the result radix,
`i64` or `i128` accumulator), C08 discharged: it returns a well-formed ciphertext (`sout` limbs, radix `2^bout`, rank `rout`) whose phase
under every secret is the accumulator's phase within `(1 + Σ‖sᵢ‖₁)` units of its last limb (exactly when no precision is lost). -/
theorem normOut_phase (big128 : Bool) (N bout sout rout : Nat) (resBig : Buf) (key : Ks.Key) (H : Int) (hn : resBig.n = N)
    (hbo1 : 1 ≤ bout) (hbo : bout ≤ 62) (hbk1 : 1 ≤ key.base2k) (hbk : key.base2k ≤ 62)
    (hH0 : 0 ≤ H) (hH : H + 8 ≤ 2 ^ (bitsOf big128 - 2))
    (hwf : ∀ c ∈ accCols rout resBig, ColWF N key.mat.size c) (hb : ∀ c ∈ accCols rout resBig, ∀ l ∈ c, ∀ x ∈ l, |x| ≤ H) :
    ∃ res, Ks.normOut big128 bout sout rout resBig key = .ok res ∧ GWF N res ∧ res.base2k = bout ∧ res.size = sout ∧ res.rank = rout ∧
      ∀ (s : List Poly) t, t < N → ∃ q e : Int,
        2 ^ (key.base2k * key.mat.size) * valCoeff bout (phase s res) t
          = 2 ^ (bout * sout) * valCoeff key.base2k (phase s (Ks.mkCt key.base2k N (accCols rout resBig))) t + e
            + q * 2 ^ (bout * sout + key.base2k * key.mat.size) ∧
        |e| ≤ (1 + snorm (min rout s.length) s) * C02.normTol (bout * sout) (key.base2k * key.mat.size) := by
  have hne : accCols rout resBig ≠ [] := by
    intro h; have := congrArg List.length h; simp [accCols] at this
  obtain ⟨cs, hok, hlen, hcwf, _, hph⟩ := norm_stage big128 N bout sout key.base2k key.mat.size H (accCols rout resBig)
    hbo1 hbo hbk1 hbk hH0 hH hne hwf hb
  have hl : (accCols rout resBig).length = rout + 1 := by simp [accCols]
  have hcsne : cs ≠ [] := by
    intro h; rw [h, hl] at hlen; simp at hlen
  obtain ⟨gw, gs⟩ := gwf_mk (N := N) bout sout cs hcsne hcwf
  refine ⟨Ks.mkCt bout N cs, ?_, gw, rfl, gs, ?_, ?_⟩
  · unfold Ks.normOut
    have e : (List.range (rout + 1)).map (fun i => Ks.bigNormalize big128 bout sout (resBig.act i) key.base2k resBig.n)
        = (accCols rout resBig).map (fun c => Ks.bigNormalize big128 bout sout c key.base2k N) := by
      unfold accCols; rw [List.map_map, hn]; rfl
    rw [e, hok, hn]
    rfl
  · show cs.length - 1 = rout
    rw [hlen, hl]; rfl
  · intro s t ht
    obtain ⟨q, e, h1, h2⟩ := hph s t ht
    rw [hl] at h2
    exact ⟨q, e, h1, h2⟩

/-! ### the composed error list and its bound -/

/-- the error of the whole key switch as ONE coefficient list: `c1·E₁ + c2·(G − D) + c3·E₃` (`E₁` conversion rounding, `G` gadget error,
`D` dropped product limbs, `E₃` final normalisation rounding) -/
def ksErr (c1 c2 c3 : ℤ) (E1 G D E3 : Poly) : Poly :=
  polyAdd (polyAdd (polyAdd (polyScale c1 E1) (polyScale c2 G)) (polyScale (-c2) D)) (polyScale c3 E3)

theorem ι_ksErr (N : Nat) (c1 c2 c3 : ℤ) (E1 G D E3 : Poly) (h1 : E1.length = N) (h2 : G.length = N) (h3 : D.length = N)
    (h4 : E3.length = N) :
    Ks.ι N (ksErr c1 c2 c3 E1 G D E3)
      = (c1 : Ks.R N) * Ks.ι N E1 + (c2 : Ks.R N) * Ks.ι N G - (c2 : Ks.R N) * Ks.ι N D + (c3 : Ks.R N) * Ks.ι N E3 := by
  unfold ksErr
  rw [Ks.ι_add N _ _ (by simp [h1, h2, h3, h4]), Ks.ι_add N _ _ (by simp [h1, h2, h3]), Ks.ι_add N _ _ (by simp [h1, h2]),
    Ks.ι_polyScale, Ks.ι_polyScale, Ks.ι_polyScale, Ks.ι_polyScale]
  push_cast
  ring

theorem normInf_ksErr_le (c1 c2 c3 : ℤ) (E1 G D E3 : Poly) :
    normInf (ksErr c1 c2 c3 E1 G D E3) ≤ |c1| * normInf E1 + |c2| * normInf G + |c2| * normInf D + |c3| * normInf E3 := by
  unfold ksErr
  have a1 := normInf_polyAdd_le (polyAdd (polyAdd (polyScale c1 E1) (polyScale c2 G)) (polyScale (-c2) D)) (polyScale c3 E3)
  have a2 := normInf_polyAdd_le (polyAdd (polyScale c1 E1) (polyScale c2 G)) (polyScale (-c2) D)
  have a3 := normInf_polyAdd_le (polyScale c1 E1) (polyScale c2 G)
  rw [normInf_polyScale] at a1 a2 a3
  rw [normInf_polyScale] at a3
  rw [abs_neg] at a2
  linarith

/-- the bound of `Ks.normInf_dropL_le` on the dropped product limbs (zero for `dsize ≤ 2`) -/
def dropBound (N b : ℕ) (sk : List Poly) (a : Buf) (key : Ks.Key) : ℤ :=
  ∑ i ∈ Finset.range key.mat.colsIn, ∑ di ∈ Finset.range key.dsize,
    ∑ r ∈ Finset.range (Gadget.rowsOf a.size key.dsize key.mat.rows di), ∑ l ∈ Finset.range key.mat.size,
      if Gadget.szOf key.mat.size key.dsize di ≤ l ∧ l + di < key.mat.size then
        (2 : ℤ) ^ (b * (key.mat.size - 1 - l)) *
          (norm1 (limbOr0 N (a.act i) (Gadget.limbIdx key.dsize r di)) *
            normInf (Ks.phaseRow sk (Ks.rowLimb key.mat (r * key.mat.colsIn + i) (l + di))))
      else 0

/-- `Σ_{i<rank_in} Σ_{r<dnum} ‖digit_{i,r}‖₁·‖EL i r‖∞` -/
def gadgetBound (N b : ℕ) (a : Buf) (key : Ks.Key) (EL : ℕ → ℕ → Poly) : ℤ :=
  ∑ i ∈ Finset.range key.mat.colsIn, ∑ r ∈ Finset.range key.mat.rows, norm1 (Ks.digitL N b a key i r) * normInf (EL i r)

/-! ### the executed `glwe_keyswitch`, end to end -/

/-- **`glwe_keyswitch_value`** — the executed `Ks.keyswitch`, GENERAL regime (any limb counts): all ranks, every `dsize ≥ 1`, three radices in
`1..62`, both accumulator widths; every kernel hypothesis is discharged (C08 for the two normalisations, `Ks.keyswitch_executed_noise_bound_drop`
for the product, no-wrap of the body addition).  The call returns a well-formed `res`; the converted input `aConv` satisfies the stage-1
relation, and `β^S·phase(res) = 2^(bout·sout)·(Σ_i s_i·usedVal(aConv_{i+1}) + val_S(body(aConv)) + ι(errL EL) − ι(dropL)) + ι(E₃) + q·(…)`
— the part of the input the key covers is the explicit `usedVal` / `fit` term. -/
theorem glwe_keyswitch_value (big128 : Bool) (N bout sout rout : Nat) (a : Ks.Ct) (key : Ks.Key) (sIn skOut : List Poly)
    (EL KL : ℕ → ℕ → Poly) (Hin Hp : Int)
    (hN : 0 < N) (ha : GWF N a) (hrank : a.rank = key.rankIn) (hrout : rout = key.rankOut) (hc0 : 0 < key.mat.colsOut)
    (hD : 1 ≤ key.dsize) (hM : ∀ j q, (key.mat.entry j q).length = N) (hS : key.mat.rows * key.dsize ≤ key.mat.size)
    (hbi1 : 1 ≤ a.base2k) (hbi : a.base2k ≤ 62) (hbk1 : 1 ≤ key.base2k) (hbk : key.base2k ≤ 62) (hbo1 : 1 ≤ bout) (hbo : bout ≤ 62)
    (hIn0 : 0 ≤ Hin) (hIn : Hin + 8 ≤ 2 ^ 62) (hInB : ∀ c ∈ a.cols, ∀ l ∈ c, ∀ x ∈ l, |x| ≤ Hin)
    (hHp0 : 0 ≤ Hp) (hAcc : Hp + (Hin + 2 ^ key.base2k) + 8 ≤ 2 ^ (bitsOf big128 - 2))
    (hprod : ∀ aConv, Ks.convIn a key = .ok aConv → ∀ i, i < rout + 1 → ∀ l ∈ (prodOf rout aConv key).act i, ∀ x ∈ l, |x| ≤ Hp)
    (hEL : ∀ i r, (EL i r).length = N) (hKL : ∀ i r, (KL i r).length = N)
    (hkey : ∀ i, i < key.mat.colsIn → ∀ r, r < key.mat.rows →
      Gadget.val (Ks.radix N key.base2k) key.mat.size (Ks.keyPhase N skOut key.mat i r) =
        Ks.ι N (sIn.getD i []) * Ks.radix N key.base2k ^ (key.mat.size - (r + 1) * key.dsize) + Ks.ι N (EL i r)
          + Ks.radix N key.base2k ^ key.mat.size * Ks.ι N (KL i r)) :
    ∃ res aConv, Ks.keyswitch big128 bout sout rout a key = .ok res ∧ Ks.convIn a key = .ok aConv ∧
      GWF N aConv ∧ aConv.base2k = key.base2k ∧ aConv.rank = a.rank ∧ aConv.size = convSize a key ∧
      GWF N res ∧ res.base2k = bout ∧ res.size = sout ∧ res.rank = rout ∧
      ∃ E1 Q1 E3 Q3 : Poly, E1.length = N ∧ Q1.length = N ∧ E3.length = N ∧ Q3.length = N ∧
        normInf E1 ≤ (1 + snorm (min a.rank sIn.length) sIn) * C02.normTol (key.base2k * convSize a key) (a.base2k * a.size) ∧
        normInf E3 ≤ (1 + snorm (min rout skOut.length) skOut) * C02.normTol (bout * sout) (key.base2k * key.mat.size) ∧
        (2 : Ks.R N) ^ (a.base2k * a.size) * Ks.ι N (valP key.base2k N (phase sIn aConv))
          = (2 : Ks.R N) ^ (key.base2k * convSize a key) * Ks.ι N (valP a.base2k N (phase sIn a)) + Ks.ι N E1
            + (2 : Ks.R N) ^ (key.base2k * convSize a key + a.base2k * a.size) * Ks.ι N Q1 ∧
        (2 : Ks.R N) ^ (key.base2k * key.mat.size) * Ks.ι N (valP bout N (phase skOut res))
          = (2 : Ks.R N) ^ (bout * sout) *
              (∑ i ∈ Finset.range key.mat.colsIn, Ks.ι N (sIn.getD i []) *
                  Gadget.usedVal (Ks.radix N key.base2k) key.mat.size key.dsize key.mat.rows aConv.size (Ks.inLimb N (aDftOf aConv) i)
                + Ks.ι N (valP key.base2k N (fit N key.mat.size (aConv.cols.getD 0 [])))
                + Ks.ι N (Ks.errL N key.base2k (aDftOf aConv) key EL) - Ks.ι N (Ks.dropL N key.base2k skOut (aDftOf aConv) key))
            + Ks.ι N E3
            + (2 : Ks.R N) ^ (bout * sout + key.base2k * key.mat.size) *
                (Ks.ι N Q3 + Ks.ι N (Ks.errL N key.base2k (aDftOf aConv) key KL)
                  - ∑ i ∈ Finset.range key.mat.colsIn,
                      Gadget.head (Ks.radix N key.base2k) key.dsize key.mat.rows aConv.size (Ks.inLimb N (aDftOf aConv) i)
                        (Ks.keyPhase N skOut key.mat i)) := by
  have hrank' : a.rank = key.mat.colsIn := hrank
  have hrout' : rout + 1 = key.mat.colsOut := by rw [hrout]; unfold Ks.Key.rankOut; omega
  have hpk : (0 : Int) < 2 ^ key.base2k := by positivity
  obtain ⟨aConv, hconv, gwC, hbC, hrC, hsC, hdigC, hph1⟩ := convIn_phase N a key Hin ha hbi1 hbi hbk1 hbk hIn0 hIn hInB
  have hbodymem : aConv.cols.getD 0 [] ∈ aConv.cols := col_mem 0 (by rw [gwC.len]; omega)
  have hHadd : Hp + (Hin + 2 ^ key.base2k) < 2 ^ (bitsOf big128 - 1) := by
    have h2 : (2 : Int) ^ (bitsOf big128 - 2) ≤ 2 ^ (bitsOf big128 - 1) :=
      pow_le_pow_right₀ (by norm_num) (by omega)
    linarith
  obtain ⟨resBig, hks, hbn, hwfacc, hbacc, hval⟩ := keyswitchInternal_value big128 N rout aConv key sIn skOut EL KL Hp (Hin + 2 ^ key.base2k)
    hN gwC hbC (hrC.trans hrank') hrout' hD hM hS hEL hKL hkey (by linarith) hHadd (hprod aConv hconv) (hdigC _ hbodymem)
  obtain ⟨res, hno, gwR, hbR, hsR, hrR, hph3⟩ := normOut_phase big128 N bout sout rout resBig key (Hp + (Hin + 2 ^ key.base2k)) hbn
    hbo1 hbo hbk1 hbk (by linarith) hAcc hwfacc hbacc
  have hok : Ks.keyswitch big128 bout sout rout a key = .ok res := by
    unfold Ks.keyswitch
    rw [if_neg (by simpa using hrank), if_neg (by simpa using hrout)]
    have hnn : a.n = aConv.n := by rw [ha.1, gwC.1]
    simp only [hconv, Ks.obind, hnn, hks, hno]
  obtain ⟨E1, Q1, hE1, hQ1, hn1, hr1⟩ := coeff_to_ring N hN _ _ _ _ _ _ _ _ (hph1 sIn)
  obtain ⟨E3, Q3, hE3, hQ3, hn3, hr3⟩ := coeff_to_ring N hN _ _ _ _ _ _ _ _ (hph3 skOut)
  refine ⟨res, aConv, hok, hconv, gwC, hbC, hrC, hsC, gwR, hbR, hsR, hrR, E1, Q1, E3, Q3, hE1, hQ1, hE3, hQ3, hn1, hn3, ?_, ?_⟩
  · push_cast at hr1
    exact hr1
  · push_cast at hr3
    rw [hr3, hval, Ks.radix_pow]
    push_cast
    ring

/-- **`glwe_keyswitch_decrypts`** — END-TO-END theorem of the executed GLWE key switch `Ks.keyswitch` (all ranks in/out, every `dsize ≥ 1`,
every `dnum`, three radices `b_in`, `b_key`, `b_out` in `1..62`, all limb counts of the result, both accumulators `big128 = false / true`),
in the covered regime `convSize a key ≤ min(key.size, dnum·dsize)` (the key covers every limb of the converted input).

Hypotheses: (H1) well-formedness of `a` and of the key; (H2) head-room — input digits `≤ Hin`, `Hin + 8 ≤ 2^62`; product buffer
(`prodOf`: `gglwe_product_dft` of the converted mask) `≤ Hp` with `Hp + Hin + 2^b_key + 8 ≤ 2^62` (FFT64) resp. `2^126` (NTT120), which is
both what `bigAddSmallAssign` needs not to wrap and the C08 head-room of the accumulator; (H3) the key relation
`val(φ_{i,r}) = s_i·β^{S−(r+1)·dsize} + ι(EL i r) + β^S·ι(KL i r)` under `skOut` for the input secret `sIn`.

Conclusion: the call returns a well-formed `res` (`sout` limbs, radix `2^bout`, rank `rout`) and, in `R N = ℤ[X]/(X^N+1)`,
`2^(b_in·s_a + b_key·S) · val(phase_{skOut} res) = 2^(b_out·s_out + b_key·S) · val(phase_{sIn} a) + ι(Err) + 2^(b_in·s_a + b_out·s_out + b_key·S) · Q`
— the last term is a multiple of the torus modulus at this scale (it collects the `q·M` of the two normalisations, the `KL` part of the key
and the shifted-out heads) — with `Err = c1·E₁ + c2·(errL − dropL) + c3·E₃` one explicit coefficient list and
`‖Err‖∞ ≤ c1·(1+‖sIn‖₁)·tol_conv + c2·Σ_{i,r}‖digit_{i,r}‖₁‖EL i r‖∞ + c2·dropBound + c3·(1+‖skOut‖₁)·tol_norm`. -/
theorem glwe_keyswitch_decrypts (big128 : Bool) (N bout sout rout : Nat) (a : Ks.Ct) (key : Ks.Key) (sIn skOut : List Poly)
    (EL KL : ℕ → ℕ → Poly) (Hin Hp : Int)
    (hN : 0 < N) (ha : GWF N a) (hrank : a.rank = key.rankIn) (hrout : rout = key.rankOut) (hc0 : 0 < key.mat.colsOut)
    (hD : 1 ≤ key.dsize) (hM : ∀ j q, (key.mat.entry j q).length = N) (hS : key.mat.rows * key.dsize ≤ key.mat.size)
    (hbi1 : 1 ≤ a.base2k) (hbi : a.base2k ≤ 62) (hbk1 : 1 ≤ key.base2k) (hbk : key.base2k ≤ 62) (hbo1 : 1 ≤ bout) (hbo : bout ≤ 62)
    (hIn0 : 0 ≤ Hin) (hIn : Hin + 8 ≤ 2 ^ 62) (hInB : ∀ c ∈ a.cols, ∀ l ∈ c, ∀ x ∈ l, |x| ≤ Hin)
    (hHp0 : 0 ≤ Hp) (hAcc : Hp + (Hin + 2 ^ key.base2k) + 8 ≤ 2 ^ (bitsOf big128 - 2))
    (hprod : ∀ aConv, Ks.convIn a key = .ok aConv → ∀ i, i < rout + 1 → ∀ l ∈ (prodOf rout aConv key).act i, ∀ x ∈ l, |x| ≤ Hp)
    (hs : key.mat.colsIn ≤ sIn.length)
    (hEL : ∀ i r, (EL i r).length = N) (hKL : ∀ i r, (KL i r).length = N)
    (hkey : ∀ i, i < key.mat.colsIn → ∀ r, r < key.mat.rows →
      Gadget.val (Ks.radix N key.base2k) key.mat.size (Ks.keyPhase N skOut key.mat i r) =
        Ks.ι N (sIn.getD i []) * Ks.radix N key.base2k ^ (key.mat.size - (r + 1) * key.dsize) + Ks.ι N (EL i r)
          + Ks.radix N key.base2k ^ key.mat.size * Ks.ι N (KL i r))
    (hcov1 : convSize a key ≤ key.mat.size) (hcov2 : convSize a key ≤ key.mat.rows * key.dsize) :
    ∃ res aConv, Ks.keyswitch big128 bout sout rout a key = .ok res ∧ Ks.convIn a key = .ok aConv ∧
      GWF N res ∧ res.base2k = bout ∧ res.size = sout ∧ res.rank = rout ∧
      ∃ (E1 E3 : Poly) (Q : Ks.R N), E1.length = N ∧ E3.length = N ∧
        normInf E1 ≤ (1 + snorm (min a.rank sIn.length) sIn) * C02.normTol (key.base2k * convSize a key) (a.base2k * a.size) ∧
        normInf E3 ≤ (1 + snorm (min rout skOut.length) skOut) * C02.normTol (bout * sout) (key.base2k * key.mat.size) ∧
        (2 : Ks.R N) ^ (a.base2k * a.size + key.base2k * key.mat.size) * Ks.ι N (valP bout N (phase skOut res))
          = (2 : Ks.R N) ^ (bout * sout + key.base2k * key.mat.size) * Ks.ι N (valP a.base2k N (phase sIn a))
            + Ks.ι N (ksErr (2 ^ (bout * sout + key.base2k * (key.mat.size - convSize a key))) (2 ^ (a.base2k * a.size + bout * sout))
                (2 ^ (a.base2k * a.size)) E1 (Ks.errL N key.base2k (aDftOf aConv) key EL)
                (Ks.dropL N key.base2k skOut (aDftOf aConv) key) E3)
            + (2 : Ks.R N) ^ (a.base2k * a.size + bout * sout + key.base2k * key.mat.size) * Q ∧
        normInf (ksErr (2 ^ (bout * sout + key.base2k * (key.mat.size - convSize a key))) (2 ^ (a.base2k * a.size + bout * sout))
                (2 ^ (a.base2k * a.size)) E1 (Ks.errL N key.base2k (aDftOf aConv) key EL)
                (Ks.dropL N key.base2k skOut (aDftOf aConv) key) E3)
          ≤ 2 ^ (bout * sout + key.base2k * (key.mat.size - convSize a key)) *
              ((1 + snorm (min a.rank sIn.length) sIn) * C02.normTol (key.base2k * convSize a key) (a.base2k * a.size))
            + 2 ^ (a.base2k * a.size + bout * sout) * gadgetBound N key.base2k (aDftOf aConv) key EL
            + 2 ^ (a.base2k * a.size + bout * sout) * dropBound N key.base2k skOut (aDftOf aConv) key
            + 2 ^ (a.base2k * a.size) *
              ((1 + snorm (min rout skOut.length) skOut) * C02.normTol (bout * sout) (key.base2k * key.mat.size)) := by
  obtain ⟨res, aConv, hok, hconv, gwC, hbC, hrC, hsC, gwR, hbR, hsR, hrR, E1, Q1, E3, Q3, hE1, hQ1, hE3, hQ3, hn1, hn3, h1, h3⟩ :=
    glwe_keyswitch_value big128 N bout sout rout a key sIn skOut EL KL Hin Hp hN ha hrank hrout hc0 hD hM hS hbi1 hbi hbk1 hbk hbo1 hbo
      hIn0 hIn hInB hHp0 hAcc hprod hEL hKL hkey
  have hrank' : a.rank = key.mat.colsIn := hrank
  obtain ⟨_, _, _, _, _, dA⟩ := aDft_spec aConv gwC
  have hGl : (Ks.errL N key.base2k (aDftOf aConv) key EL).length = N := Ks.errL_length N _ _ _ EL hEL
  have hDl : (Ks.dropL N key.base2k skOut (aDftOf aConv) key).length = N := by
    unfold Ks.dropL
    apply Ks.sumPolys_range_length
    intro i _
    apply Ks.sumPolys_range_length
    intro di _
    apply Ks.sumPolys_range_length
    intro r _
    apply Ks.sumPolys_range_length
    intro l _
    exact Ks.dropTermL_length N _ skOut _ key i di r l hc0 hM
  have hcov := covered_input_value N aConv key sIn hN gwC (hrC.trans hrank') hs hD (by rw [hsC]; exact hcov1) (by rw [hsC]; exact hcov2)
  refine ⟨res, aConv, hok, hconv, gwR, hbR, hsR, hrR, E1, E3,
    Ks.ι N Q1 + Ks.ι N Q3 + Ks.ι N (Ks.errL N key.base2k (aDftOf aConv) key KL)
      - ∑ i ∈ Finset.range key.mat.colsIn,
          Gadget.head (Ks.radix N key.base2k) key.dsize key.mat.rows (convSize a key) (Ks.inLimb N (aDftOf aConv) i)
            (Ks.keyPhase N skOut key.mat i), hE1, hE3, hn1, hn3, ?_, ?_⟩
  · rw [ι_ksErr N _ _ _ _ _ _ _ hE1 hGl hDl hE3]
    rw [hcov, hsC, Ks.radix_pow] at h3
    push_cast at h3 ⊢
    have hrel : (2 : Ks.R N) ^ (key.base2k * (key.mat.size - convSize a key)) * (2 : Ks.R N) ^ (key.base2k * convSize a key)
        = (2 : Ks.R N) ^ (key.base2k * key.mat.size) := by
      rw [← pow_add, ← Nat.mul_add]
      congr 2
      omega
    simp only [pow_add] at h1 h3 ⊢
    generalize (2 : Ks.R N) ^ (a.base2k * a.size) = x1 at *
    generalize (2 : Ks.R N) ^ (key.base2k * convSize a key) = xc at *
    generalize (2 : Ks.R N) ^ (key.base2k * (key.mat.size - convSize a key)) = xd at *
    generalize (2 : Ks.R N) ^ (key.base2k * key.mat.size) = xS at *
    generalize (2 : Ks.R N) ^ (bout * sout) = xo at *
    linear_combination x1 * h3 + xo * xd * h1
      + (xo * Ks.ι N (valP a.base2k N (phase sIn a)) + xo * x1 * Ks.ι N Q1) * hrel
  · refine le_trans (normInf_ksErr_le _ _ _ _ _ _ _) ?_
    have p1 : (0 : Int) ≤ 2 ^ (bout * sout + key.base2k * (key.mat.size - convSize a key)) := by positivity
    have p2 : (0 : Int) ≤ 2 ^ (a.base2k * a.size + bout * sout) := by positivity
    have p3 : (0 : Int) ≤ 2 ^ (a.base2k * a.size) := by positivity
    rw [abs_of_nonneg p1, abs_of_nonneg p2, abs_of_nonneg p3]
    have b2 : normInf (Ks.errL N key.base2k (aDftOf aConv) key EL) ≤ gadgetBound N key.base2k (aDftOf aConv) key EL :=
      Ks.normInf_errL_le N _ _ _ EL
    have b3 : normInf (Ks.dropL N key.base2k skOut (aDftOf aConv) key) ≤ dropBound N key.base2k skOut (aDftOf aConv) key :=
      Ks.normInf_dropL_le N _ skOut _ key
    have m1 := mul_le_mul_of_nonneg_left hn1 p1
    have m2 := mul_le_mul_of_nonneg_left b2 p2
    have m3 := mul_le_mul_of_nonneg_left b3 p2
    have m4 := mul_le_mul_of_nonneg_left hn3 p3
    linarith

/-- **`glwe_keyswitch_assign_decrypts`** — the in-place form `glwe_keyswitch_assign(res, key)`: the same function with the result shape of the
input (`Ks.keyswitch big a.base2k a.size a.rank a key`; it requires `rank_in = rank_out`). -/
theorem glwe_keyswitch_assign_decrypts (big128 : Bool) (N : Nat) (a : Ks.Ct) (key : Ks.Key) (sIn skOut : List Poly)
    (EL KL : ℕ → ℕ → Poly) (Hin Hp : Int)
    (hN : 0 < N) (ha : GWF N a) (hrank : a.rank = key.rankIn) (hrout : a.rank = key.rankOut) (hc0 : 0 < key.mat.colsOut)
    (hD : 1 ≤ key.dsize) (hM : ∀ j q, (key.mat.entry j q).length = N) (hS : key.mat.rows * key.dsize ≤ key.mat.size)
    (hbi1 : 1 ≤ a.base2k) (hbi : a.base2k ≤ 62) (hbk1 : 1 ≤ key.base2k) (hbk : key.base2k ≤ 62)
    (hIn0 : 0 ≤ Hin) (hIn : Hin + 8 ≤ 2 ^ 62) (hInB : ∀ c ∈ a.cols, ∀ l ∈ c, ∀ x ∈ l, |x| ≤ Hin)
    (hHp0 : 0 ≤ Hp) (hAcc : Hp + (Hin + 2 ^ key.base2k) + 8 ≤ 2 ^ (bitsOf big128 - 2))
    (hprod : ∀ aConv, Ks.convIn a key = .ok aConv → ∀ i, i < a.rank + 1 → ∀ l ∈ (prodOf a.rank aConv key).act i, ∀ x ∈ l, |x| ≤ Hp)
    (hs : key.mat.colsIn ≤ sIn.length)
    (hEL : ∀ i r, (EL i r).length = N) (hKL : ∀ i r, (KL i r).length = N)
    (hkey : ∀ i, i < key.mat.colsIn → ∀ r, r < key.mat.rows →
      Gadget.val (Ks.radix N key.base2k) key.mat.size (Ks.keyPhase N skOut key.mat i r) =
        Ks.ι N (sIn.getD i []) * Ks.radix N key.base2k ^ (key.mat.size - (r + 1) * key.dsize) + Ks.ι N (EL i r)
          + Ks.radix N key.base2k ^ key.mat.size * Ks.ι N (KL i r))
    (hcov1 : convSize a key ≤ key.mat.size) (hcov2 : convSize a key ≤ key.mat.rows * key.dsize) :
    ∃ res aConv, Ks.keyswitch big128 a.base2k a.size a.rank a key = .ok res ∧ Ks.convIn a key = .ok aConv ∧
      GWF N res ∧ res.base2k = a.base2k ∧ res.size = a.size ∧ res.rank = a.rank ∧
      ∃ (E1 E3 : Poly) (Q : Ks.R N), E1.length = N ∧ E3.length = N ∧
        normInf E1 ≤ (1 + snorm (min a.rank sIn.length) sIn) * C02.normTol (key.base2k * convSize a key) (a.base2k * a.size) ∧
        normInf E3 ≤ (1 + snorm (min a.rank skOut.length) skOut) * C02.normTol (a.base2k * a.size) (key.base2k * key.mat.size) ∧
        (2 : Ks.R N) ^ (a.base2k * a.size + key.base2k * key.mat.size) * Ks.ι N (valP a.base2k N (phase skOut res))
          = (2 : Ks.R N) ^ (a.base2k * a.size + key.base2k * key.mat.size) * Ks.ι N (valP a.base2k N (phase sIn a))
            + Ks.ι N (ksErr (2 ^ (a.base2k * a.size + key.base2k * (key.mat.size - convSize a key))) (2 ^ (a.base2k * a.size + a.base2k * a.size))
                (2 ^ (a.base2k * a.size)) E1 (Ks.errL N key.base2k (aDftOf aConv) key EL)
                (Ks.dropL N key.base2k skOut (aDftOf aConv) key) E3)
            + (2 : Ks.R N) ^ (a.base2k * a.size + a.base2k * a.size + key.base2k * key.mat.size) * Q ∧
        normInf (ksErr (2 ^ (a.base2k * a.size + key.base2k * (key.mat.size - convSize a key))) (2 ^ (a.base2k * a.size + a.base2k * a.size))
                (2 ^ (a.base2k * a.size)) E1 (Ks.errL N key.base2k (aDftOf aConv) key EL)
                (Ks.dropL N key.base2k skOut (aDftOf aConv) key) E3)
          ≤ 2 ^ (a.base2k * a.size + key.base2k * (key.mat.size - convSize a key)) *
              ((1 + snorm (min a.rank sIn.length) sIn) * C02.normTol (key.base2k * convSize a key) (a.base2k * a.size))
            + 2 ^ (a.base2k * a.size + a.base2k * a.size) * gadgetBound N key.base2k (aDftOf aConv) key EL
            + 2 ^ (a.base2k * a.size + a.base2k * a.size) * dropBound N key.base2k skOut (aDftOf aConv) key
            + 2 ^ (a.base2k * a.size) *
              ((1 + snorm (min a.rank skOut.length) skOut) * C02.normTol (a.base2k * a.size) (key.base2k * key.mat.size)) :=
  glwe_keyswitch_decrypts big128 N a.base2k a.size a.rank a key sIn skOut EL KL Hin Hp hN ha hrank hrout hc0 hD hM hS hbi1 hbi hbk1 hbk
    hbi1 hbi hIn0 hIn hInB hHp0 hAcc hprod hs hEL hKL hkey hcov1 hcov2

/-! ### closed instance: `N = 1`, rank 1 → rank 0, the `dsize = 3` key `Ks.AccumExample.exKey3` (radix `2^4`, 4 limbs), result radix `2^3`, 2 limbs -/

/-- a rank-1 ciphertext of one limb in the key radix: body `[2]`, mask `[1]` -/
def exCt : Ks.Ct := Ks.mkCt 4 1 [[[2]], [[1]]]

/-- the key error of the example, *defined* by the key equation (`Ks.keyErrL`) for the input secret `[[1]]` -/
def exEL : ℕ → ℕ → Poly := Ks.keyErrL 1 4 [] Ks.AccumExample.exKey3 (fun _ => [1])

example (big128 : Bool) :
    ∃ res aConv, Ks.keyswitch big128 3 2 0 exCt Ks.AccumExample.exKey3 = .ok res ∧ Ks.convIn exCt Ks.AccumExample.exKey3 = .ok aConv ∧
      GWF 1 res ∧ res.base2k = 3 ∧ res.size = 2 ∧ res.rank = 0 ∧
      ∃ (E1 E3 : Poly) (Q : Ks.R 1), E1.length = 1 ∧ E3.length = 1 ∧
        normInf E1 ≤ (1 + snorm (min exCt.rank ([[1]] : List Poly).length) [[1]]) *
          C02.normTol (Ks.AccumExample.exKey3.base2k * convSize exCt Ks.AccumExample.exKey3) (exCt.base2k * exCt.size) ∧
        normInf E3 ≤ (1 + snorm (min 0 ([] : List Poly).length) []) *
          C02.normTol (3 * 2) (Ks.AccumExample.exKey3.base2k * Ks.AccumExample.exKey3.mat.size) ∧
        (2 : Ks.R 1) ^ (exCt.base2k * exCt.size + Ks.AccumExample.exKey3.base2k * Ks.AccumExample.exKey3.mat.size) *
            Ks.ι 1 (valP 3 1 (phase [] res))
          = (2 : Ks.R 1) ^ (3 * 2 + Ks.AccumExample.exKey3.base2k * Ks.AccumExample.exKey3.mat.size) *
              Ks.ι 1 (valP exCt.base2k 1 (phase [[1]] exCt))
            + Ks.ι 1 (ksErr (2 ^ (3 * 2 + Ks.AccumExample.exKey3.base2k *
                  (Ks.AccumExample.exKey3.mat.size - convSize exCt Ks.AccumExample.exKey3)))
                (2 ^ (exCt.base2k * exCt.size + 3 * 2)) (2 ^ (exCt.base2k * exCt.size)) E1
                (Ks.errL 1 Ks.AccumExample.exKey3.base2k (aDftOf aConv) Ks.AccumExample.exKey3 exEL)
                (Ks.dropL 1 Ks.AccumExample.exKey3.base2k [] (aDftOf aConv) Ks.AccumExample.exKey3) E3)
            + (2 : Ks.R 1) ^ (exCt.base2k * exCt.size + 3 * 2 + Ks.AccumExample.exKey3.base2k * Ks.AccumExample.exKey3.mat.size) * Q := by
  have hM := Ks.entry_length Ks.AccumExample.exKey3.mat 1 rfl (by decide)
  have hz : Ks.ι 1 [0] = 0 := Ks.ι_zero 1 1
  have hconv : Ks.convIn exCt Ks.AccumExample.exKey3 = .ok exCt := rfl
  obtain ⟨res, aConv, h1, h2, h3, h4, h5, h6, E1, E3, Q, h7, h8, h9, h10, h11, _⟩ :=
    glwe_keyswitch_decrypts big128 1 3 2 0 exCt Ks.AccumExample.exKey3 [[1]] [] exEL (fun _ _ => [0]) 2 2
      (by decide) (by decide) rfl rfl (by decide) (by decide) hM (by decide)
      (by decide) (by decide) (by decide) (by decide) (by decide) (by decide)
      (by norm_num) (by norm_num)
      (by intro c hc l hl x hx; revert x l c; decide)
      (by norm_num) (by cases big128 <;> (show (2 : ℤ) + (2 + 2 ^ 4) + 8 ≤ _; norm_num [bitsOf]))
      (by
        intro aConv h i hi l hl x hx
        rw [hconv] at h
        injection h with h
        subst h
        have hi0 : i = 0 := by omega
        subst hi0
        have key : ∀ l ∈ (prodOf 0 exCt Ks.AccumExample.exKey3).act 0, ∀ x ∈ l, |x| ≤ 2 := by decide
        exact key l hl x hx)
      (by decide)
      (fun i r => Ks.keyErrL_length 1 4 [] Ks.AccumExample.exKey3 _ i r (by decide) hM (fun _ => rfl))
      (fun _ _ => rfl)
      (by
        intro i hi r _
        have hi0 : i = 0 := by have : i < 1 := hi; omega
        subst hi0
        have h := Ks.keyErrL_spec 1 4 [] Ks.AccumExample.exKey3 (fun _ => [1]) 0 r (by decide) hM (fun _ => rfl)
        rw [hz, mul_zero, add_zero]
        exact h)
      (by decide) (by decide)
  exact ⟨res, aConv, h1, h2, h3, h4, h5, h6, E1, E3, Q, h7, h8, h9, h10, h11⟩


/-- a rank-1 ciphertext in radix `2^2` (two limbs): the conversion into the key radix `2^4` is a genuine cross-radix `glwe_normalize`
(three different radices `2, 4, 3`) -/
def exCt2 : Ks.Ct := Ks.mkCt 2 1 [[[1], [1]], [[0], [1]]]

example (big128 : Bool) :
    ∃ res aConv, Ks.keyswitch big128 3 2 0 exCt2 Ks.AccumExample.exKey3 = .ok res ∧ Ks.convIn exCt2 Ks.AccumExample.exKey3 = .ok aConv ∧
      GWF 1 res ∧ res.base2k = 3 ∧ res.size = 2 ∧ res.rank = 0 ∧
      ∃ (E1 E3 : Poly) (Q : Ks.R 1), E1.length = 1 ∧ E3.length = 1 ∧
        normInf E1 ≤ (1 + snorm (min exCt2.rank ([[1]] : List Poly).length) [[1]]) *
          C02.normTol (Ks.AccumExample.exKey3.base2k * convSize exCt2 Ks.AccumExample.exKey3) (exCt2.base2k * exCt2.size) ∧
        normInf E3 ≤ (1 + snorm (min 0 ([] : List Poly).length) []) *
          C02.normTol (3 * 2) (Ks.AccumExample.exKey3.base2k * Ks.AccumExample.exKey3.mat.size) ∧
        (2 : Ks.R 1) ^ (exCt2.base2k * exCt2.size + Ks.AccumExample.exKey3.base2k * Ks.AccumExample.exKey3.mat.size) *
            Ks.ι 1 (valP 3 1 (phase [] res))
          = (2 : Ks.R 1) ^ (3 * 2 + Ks.AccumExample.exKey3.base2k * Ks.AccumExample.exKey3.mat.size) *
              Ks.ι 1 (valP exCt2.base2k 1 (phase [[1]] exCt2))
            + Ks.ι 1 (ksErr (2 ^ (3 * 2 + Ks.AccumExample.exKey3.base2k *
                  (Ks.AccumExample.exKey3.mat.size - convSize exCt2 Ks.AccumExample.exKey3)))
                (2 ^ (exCt2.base2k * exCt2.size + 3 * 2)) (2 ^ (exCt2.base2k * exCt2.size)) E1
                (Ks.errL 1 Ks.AccumExample.exKey3.base2k (aDftOf aConv) Ks.AccumExample.exKey3 exEL)
                (Ks.dropL 1 Ks.AccumExample.exKey3.base2k [] (aDftOf aConv) Ks.AccumExample.exKey3) E3)
            + (2 : Ks.R 1) ^ (exCt2.base2k * exCt2.size + 3 * 2 + Ks.AccumExample.exKey3.base2k * Ks.AccumExample.exKey3.mat.size) * Q := by
  have hM := Ks.entry_length Ks.AccumExample.exKey3.mat 1 rfl (by decide)
  have hz : Ks.ι 1 [0] = 0 := Ks.ι_zero 1 1
  have hconv : Ks.convIn exCt2 Ks.AccumExample.exKey3 = .ok (Ks.mkCt 4 1 [[[5]], [[1]]]) := by decide +kernel
  obtain ⟨res, aConv, h1, h2, h3, h4, h5, h6, E1, E3, Q, h7, h8, h9, h10, h11, _⟩ :=
    glwe_keyswitch_decrypts big128 1 3 2 0 exCt2 Ks.AccumExample.exKey3 [[1]] [] exEL (fun _ _ => [0]) 2 2
      (by decide) (by decide) rfl rfl (by decide) (by decide) hM (by decide)
      (by decide) (by decide) (by decide) (by decide) (by decide) (by decide)
      (by norm_num) (by norm_num)
      (by intro c hc l hl x hx; revert x l c; decide)
      (by norm_num) (by cases big128 <;> (show (2 : ℤ) + (2 + 2 ^ 4) + 8 ≤ _; norm_num [bitsOf]))
      (by
        intro aConv h i hi l hl x hx
        rw [hconv] at h
        injection h with h
        subst h
        have hi0 : i = 0 := by omega
        subst hi0
        have key : ∀ l ∈ (prodOf 0 (Ks.mkCt 4 1 [[[5]], [[1]]]) Ks.AccumExample.exKey3).act 0, ∀ x ∈ l, |x| ≤ 2 := by decide
        exact key l hl x hx)
      (by decide)
      (fun i r => Ks.keyErrL_length 1 4 [] Ks.AccumExample.exKey3 _ i r (by decide) hM (fun _ => rfl))
      (fun _ _ => rfl)
      (by
        intro i hi r _
        have hi0 : i = 0 := by have : i < 1 := hi; omega
        subst hi0
        have h := Ks.keyErrL_spec 1 4 [] Ks.AccumExample.exKey3 (fun _ => [1]) 0 r (by decide) hM (fun _ => rfl)
        rw [hz, mul_zero, add_zero]
        exact h)
      (by decide) (by decide)
  exact ⟨res, aConv, h1, h2, h3, h4, h5, h6, E1, E3, Q, h7, h8, h9, h10, h11⟩

end KsDec
