/-
Key generation as encryption, part 4: the masks `vec_znx_fill_uniform` draws are well shaped and balanced; the stream form of
`glwe_encrypt_sk_internal` is the given-masks form on the drawn masks.
-/
import Poulpy.Lemmas.CoreCmp
import Poulpy.Lemmas.SamplingL

namespace CoreEnc

theorem nextU64n_spec (mx mask : Nat) : ∀ (s : List Nat) (x : Nat) (r : List Nat),
    Sampling.nextU64n mx mask s = some (x, r) → x < mx ∧ ∃ u, x = u &&& mask := by
  intro s
  induction s with
  | nil => intro x r h; simp [Sampling.nextU64n] at h
  | cons u rest ih =>
    intro x r h
    unfold Sampling.nextU64n at h
    simp only at h
    split at h
    · simp only [Option.some.injEq, Prod.mk.injEq] at h
      rename_i hlt
      exact ⟨by rw [← h.1]; exact hlt, u, h.1.symm⟩
    · exact ih x r h

/-- every digit `znx_fill_uniform_ref` writes is balanced -/
theorem digit_bound {b : Nat} (hb1 : 1 ≤ b) (hb : b ≤ 63) (s : List Nat) (x : Nat) (r : List Nat)
    (h : Sampling.nextU64n (Sampling.pow2k b) (Sampling.maskOf b) s = some (x, r)) : |Sampling.digitOf b x| ≤ 2 ^ (b - 1) := by
  obtain ⟨_, u, hu⟩ := nextU64n_spec _ _ s x r h
  have e : Sampling.digitOf b x = Sampling.digitOfWord b u := by unfold Sampling.digitOfWord; rw [hu]
  rw [e, digitOfWord_eq hb1 hb]
  have hlt : u % 2 ^ b < 2 ^ b := Nat.mod_lt _ (by positivity)
  have hpow : (2 : Int) ^ b = 2 * 2 ^ (b - 1) := by
    have : b = (b - 1) + 1 := by omega
    conv_lhs => rw [this, pow_succ]
    ring
  have h1 : ((u % 2 ^ b : Nat) : Int) < 2 ^ b := by exact_mod_cast hlt
  have h0 : (0 : Int) ≤ ((u % 2 ^ b : Nat) : Int) := Int.natCast_nonneg _
  rw [abs_le]; constructor <;> linarith

theorem znxFillUniform_spec {b : Nat} (hb1 : 1 ≤ b) (hb : b ≤ 63) : ∀ (n : Nat) (s : List Nat) (p : Poly) (r : List Nat),
    Sampling.znxFillUniform b n s = some (p, r) → p.length = n ∧ ∀ x ∈ p, |x| ≤ 2 ^ (b - 1) := by
  intro n
  induction n with
  | zero =>
    intro s p r h
    simp only [Sampling.znxFillUniform, Option.some.injEq, Prod.mk.injEq] at h
    obtain ⟨rfl, _⟩ := h
    simp
  | succ n ih =>
    intro s p r h
    unfold Sampling.znxFillUniform at h
    cases hx : Sampling.nextU64n (Sampling.pow2k b) (Sampling.maskOf b) s with
    | none => simp [hx] at h
    | some q =>
      obtain ⟨x, s1⟩ := q
      simp only [hx] at h
      cases hz : Sampling.znxFillUniform b n s1 with
      | none => simp [hz] at h
      | some q2 =>
        obtain ⟨p2, s2⟩ := q2
        simp only [hz, Option.some.injEq, Prod.mk.injEq] at h
        obtain ⟨i1, i2⟩ := ih s1 p2 s2 hz
        rw [← h.1]
        refine ⟨by simp [i1], ?_⟩
        intro y hy
        rcases List.mem_cons.mp hy with h1 | hy
        · rw [h1]; exact digit_bound hb1 hb s x s1 hx
        · exact i2 y hy

theorem vecFillUniform_spec {b n : Nat} (hb1 : 1 ≤ b) (hb : b ≤ 63) : ∀ (size : Nat) (s : List Nat) (c : Col) (r : List Nat),
    Sampling.vecFillUniform b n size s = some (c, r) → c.length = size ∧ WF n c ∧ Bounded (2 ^ (b - 1)) c := by
  intro size
  induction size with
  | zero =>
    intro s c r h
    simp only [Sampling.vecFillUniform, Option.some.injEq, Prod.mk.injEq] at h
    obtain ⟨rfl, _⟩ := h
    exact ⟨rfl, fun l hl => by simp at hl, fun l hl => by simp at hl⟩
  | succ size ih =>
    intro s c r h
    unfold Sampling.vecFillUniform at h
    cases hz : Sampling.znxFillUniform b n s with
    | none => simp [hz] at h
    | some q =>
      obtain ⟨p, s1⟩ := q
      simp only [hz] at h
      cases hv : Sampling.vecFillUniform b n size s1 with
      | none => simp [hv] at h
      | some q2 =>
        obtain ⟨c2, s2⟩ := q2
        simp only [hv, Option.some.injEq, Prod.mk.injEq] at h
        obtain ⟨i1, i2, i3⟩ := ih s1 c2 s2 hv
        obtain ⟨z1, z2⟩ := znxFillUniform_spec hb1 hb n s p s1 hz
        rw [← h.1]
        refine ⟨by simp [i1], ?_, ?_⟩
        · intro l hl
          rcases List.mem_cons.mp hl with rfl | hl
          · exact z1
          · exact i2 l hl
        · intro l hl
          rcases List.mem_cons.mp hl with rfl | hl
          · exact z2
          · exact i3 l hl

/-- the mask columns `decompress_glwe` / the encryption loop draw: `rank` columns of `size` balanced limbs of `n` coefficients -/
theorem drawMasks_spec {b n size : Nat} (hb1 : 1 ≤ b) (hb : b ≤ 63) : ∀ (rank : Nat) (s : List Nat) (ms : List Col) (r : List Nat),
    Core.drawMasks b n size rank s = some (ms, r) →
      ms.length = rank ∧ ∀ a ∈ ms, a.length = size ∧ WF n a ∧ Bounded (2 ^ (b - 1)) a := by
  intro rank
  induction rank with
  | zero =>
    intro s ms r h
    simp only [Core.drawMasks, Option.some.injEq, Prod.mk.injEq] at h
    obtain ⟨rfl, _⟩ := h
    simp
  | succ rank ih =>
    intro s ms r h
    unfold Core.drawMasks at h
    cases hv : Sampling.vecFillUniform b n size s with
    | none => simp [hv] at h
    | some q =>
      obtain ⟨c, s1⟩ := q
      simp only [hv] at h
      cases hd : Core.drawMasks b n size rank s1 with
      | none => simp [hd] at h
      | some q2 =>
        obtain ⟨cs, s2⟩ := q2
        simp only [hd, Option.some.injEq, Prod.mk.injEq] at h
        obtain ⟨i1, i2⟩ := ih s1 cs s2 hd
        rw [← h.1]
        refine ⟨by simp [i1], ?_⟩
        intro a ha
        rcases List.mem_cons.mp ha with rfl | ha
        · exact vecFillUniform_spec hb1 hb size s a s1 hv
        · exact i2 a ha

/-- the loop that draws its masks = the loop on the drawn masks -/
theorem encSkLoopS_loop (bits b n size : Nat) (pt : Option (Col × Nat)) :
    ∀ (rank : Nat) (sk : List Poly) (i : Nat) (xa : List Nat) (c0 c' : Col) (ms : List Col) (xa' : List Nat),
      Core.encSkLoopS bits b n size pt i sk rank xa c0 = some (c', ms, xa') →
      Core.encSkLoop bits b n size pt i ms sk c0 = some c' := by
  intro rank
  induction rank with
  | zero =>
    intro sk i xa c0 c' ms xa' h
    simp only [Core.encSkLoopS, Option.some.injEq, Prod.mk.injEq] at h
    obtain ⟨rfl, rfl, _⟩ := h
    simp [Core.encSkLoop]
  | succ r ih =>
    intro sk i xa c0 c' ms xa' h
    cases sk with
    | nil => simp [Core.encSkLoopS] at h
    | cons s ss =>
      unfold Core.encSkLoopS at h
      cases hf : Sampling.vecFillUniform b n size xa with
      | none => simp [hf] at h
      | some p =>
        obtain ⟨a, xa1⟩ := p
        simp only [hf] at h
        cases hs : Core.encSkStep bits b n size pt i a s c0 with
        | none => simp [hs] at h
        | some c1 =>
          simp only [hs] at h
          cases hr : Core.encSkLoopS bits b n size pt (i + 1) ss r xa1 c1 with
          | none => simp [hr] at h
          | some q =>
            obtain ⟨c2, ms', xa2⟩ := q
            simp only [hr, Option.some.injEq, Prod.mk.injEq] at h
            obtain ⟨rfl, rfl, rfl⟩ := h
            have := ih ss (i + 1) xa1 c1 c2 ms' xa2 hr
            simp [Core.encSkLoop, hs, this]

/-- **`glwe_encrypt_sk_internal` from the streams** = drawing the masks, then the given-masks routine -/
theorem stream_cell {bits b n size kxe rank : Nat} {pt : Option (Col × Nat)} {sk : List Poly} {xa : List Nat} {e : Poly}
    {body : Col} {ms : List Col} {xa' : List Nat}
    (h : Core.encryptSkStream bits b n size kxe rank pt sk xa e = some (body, ms, xa')) :
    Core.drawMasks b n size rank xa = some (ms, xa') ∧ Core.encryptSkBody bits b n size kxe ms pt sk e = some body := by
  unfold Core.encryptSkStream at h
  cases hl : Core.encSkLoopS bits b n size pt 1 sk rank xa (Core.zeroCol n size) with
  | none => simp [hl] at h
  | some q =>
    obtain ⟨c0, ms', xa1⟩ := q
    simp only [hl] at h
    cases hf : Core.encSkFinish b n size kxe pt e c0 with
    | none => simp [hf] at h
    | some bd =>
      simp only [hf, Option.some.injEq, Prod.mk.injEq] at h
      obtain ⟨rfl, rfl, rfl⟩ := h
      refine ⟨loop_masks_eq_drawMasks bits b n size pt rank sk 1 xa _ c0 ms' xa1 hl, ?_⟩
      unfold Core.encryptSkBody
      rw [encSkLoopS_loop bits b n size pt rank sk 1 xa _ c0 ms' xa1 hl]
      exact hf

end CoreEnc
