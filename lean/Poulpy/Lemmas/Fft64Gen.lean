import Poulpy.Lemmas.Fft64AvxBfly
import Poulpy.Lemmas.Fft64Net

/-!
# The level induction of `Fft64Net.lean` for an arbitrary butterfly function

`FwdSpec bf` / `InvSpec bf`: `bf` satisfies the per-butterfly error statement (`bflyFwd_err` / `bflyInv_err`) with the
constants `γf` / `γi`.  Every network built from such butterflies (`Fft64Avx.fwdG bf`, `invG bf`) has the a-priori error
bound of the reference network; instances: the reference butterflies and the AVX2/FMA butterflies.
(The proofs are those of `Fft64Net.lean` with the butterfly abstracted.)
-/

open Complex

namespace Fft64Avx
open F64 Fft64

def FwdSpec (bf : Tw → C64 → C64 → C64 × C64) : Prop :=
  ∀ (t : Tw) (a b : C64) (ω : ℂ) (τ M : ℝ), TwFin t → CFin a → CFin b → ‖ω‖ = 1 → ‖twC t - ω‖ ≤ τ → τ ≤ 1 →
    ‖cval a‖ ≤ M → ‖cval b‖ ≤ M → 1 ≤ M → M ≤ (2:ℝ) ^ (999:Int) →
    CFin (bf t a b).1 ∧ CFin (bf t a b).2 ∧
    ‖cval (bf t a b).1 - (cval a + ω * cval b)‖ ≤ γf τ * M ∧ ‖cval (bf t a b).2 - (cval a - ω * cval b)‖ ≤ γf τ * M

def InvSpec (bf : Tw → C64 → C64 → C64 × C64) : Prop :=
  ∀ (t : Tw) (a b : C64) (ω : ℂ) (τ M : ℝ), TwFin t → CFin a → CFin b → ‖ω‖ = 1 → ‖twCi t - ω‖ ≤ τ → τ ≤ 1 →
    ‖cval a‖ ≤ M → ‖cval b‖ ≤ M → 1 ≤ M → M ≤ (2:ℝ) ^ (997:Int) →
    CFin (bf t a b).1 ∧ CFin (bf t a b).2 ∧
    ‖cval (bf t a b).1 - (cval a + cval b)‖ ≤ γi τ * M ∧ ‖cval (bf t a b).2 - (cval a - cval b) * ω‖ ≤ γi τ * M

theorem fwdSpec_ref : FwdSpec bflyFwd := fun t a b ω τ M => bflyFwd_err t a b ω τ M
theorem fwdSpec_avx : FwdSpec bflyFwdAvx := fun t a b ω τ M => bflyFwdAvx_err t a b ω τ M
theorem invSpec_ref : InvSpec bflyInv := fun t a b ω τ M => bflyInv_err t a b ω τ M
theorem invSpec_avx : InvSpec bflyInvAvx := fun t a b ω τ M => bflyInvAvx_err t a b ω τ M

/-- one level of butterflies on a block: (magnitude, error) `(A, E) ↦ (2A, 2E + γ(A+E))` -/
theorem level_fwdG (bf : Tw → C64 → C64 → C64 × C64) (hbf : FwdSpec bf) (τ : ℝ) (hτ0 : 0 ≤ τ) (hτ1 : τ ≤ 1) (t : Tw) (ω : ℂ) (ht : TwFin t) (hω : ‖ω‖ = 1)
    (hτ : ‖twC t - ω‖ ≤ τ) (A E : ℝ) (hA : 1 ≤ A) (hE : 0 ≤ E) (hAE : A + E ≤ (2:ℝ) ^ (999:Int))
    {lc hc : List C64} {l h : List ℂ} (h1 : Close E A lc l) (h2 : Close E A hc h) :
    Close (2 * E + γf τ * (A + E)) (2 * A) (List.zipWith (fun a b => (bf t a b).1) lc hc)
        (List.zipWith (fun a b => a + ω * b) l h) ∧
    Close (2 * E + γf τ * (A + E)) (2 * A) (List.zipWith (fun a b => (bf t a b).2) lc hc)
        (List.zipWith (fun a b => a - ω * b) l h) := by
  have core : ∀ (a : C64) (x : ℂ) (b : C64) (y : ℂ),
      (CFin a ∧ ‖cval a - x‖ ≤ E ∧ ‖x‖ ≤ A) → (CFin b ∧ ‖cval b - y‖ ≤ E ∧ ‖y‖ ≤ A) →
      (CFin (bf t a b).1 ∧ ‖cval (bf t a b).1 - (x + ω * y)‖ ≤ 2 * E + γf τ * (A + E) ∧ ‖x + ω * y‖ ≤ 2 * A) ∧
      (CFin (bf t a b).2 ∧ ‖cval (bf t a b).2 - (x - ω * y)‖ ≤ 2 * E + γf τ * (A + E) ∧ ‖x - ω * y‖ ≤ 2 * A) := by
    intro a x b y ⟨fa, ea, na⟩ ⟨fb, eb, nb⟩
    have ma : ‖cval a‖ ≤ A + E := by have := norm_le_insert' (cval a) x; linarith
    have mb : ‖cval b‖ ≤ A + E := by have := norm_le_insert' (cval b) y; linarith
    obtain ⟨c1, c2, e1, e2⟩ := hbf t a b ω τ (A + E) ht fa fb hω hτ hτ1 ma mb (by linarith) hAE
    have hωy : ‖ω * y‖ ≤ A := by rw [Complex.norm_mul, hω, one_mul]; exact nb
    have hωd : ‖ω * (cval b - y)‖ ≤ E := by rw [Complex.norm_mul, hω, one_mul]; exact eb
    refine ⟨⟨c1, ?_, ?_⟩, ⟨c2, ?_, ?_⟩⟩
    · have e : cval (bf t a b).1 - (x + ω * y) =
          (cval (bf t a b).1 - (cval a + ω * cval b)) + (cval a - x) + ω * (cval b - y) := by ring
      rw [e]; refine le_trans norm_add₃_le ?_; linarith
    · refine le_trans (norm_add_le _ _) ?_; linarith
    · have e : cval (bf t a b).2 - (x - ω * y) =
          (cval (bf t a b).2 - (cval a - ω * cval b)) + (cval a - x) + -(ω * (cval b - y)) := by ring
      rw [e]; refine le_trans norm_add₃_le ?_; rw [norm_neg]; linarith
    · refine le_trans (norm_sub_le _ _) ?_; linarith
  constructor
  · exact forall₂_zipWith _ _ (fun a x b y ha hb => (core a x b y ha hb).1) h1 h2
  · exact forall₂_zipWith _ _ (fun a x b y ha hb => (core a x b y ha hb).2) h1 h2


/-- **a-priori error bound of the forward transform, every `k`** -/
theorem fwdG_err (bf : Tw → C64 → C64 → C64 × C64) (hbf : FwdSpec bf) (τ : ℝ) (hτ0 : 0 ≤ τ) (hτ1 : τ ≤ 1) (tw : Nat → Nat → Tw) :
    ∀ (k lvl blk : Nat) (j A E : ℝ) (zc : List C64) (z : List ℂ),
      1 ≤ A → 0 ≤ E → zc.length = 2 ^ k → Close E A zc z → AccF τ tw k lvl blk j →
      2 ^ k * (1 + γf τ / 2) ^ k * (A + E) ≤ (2:ℝ) ^ (999:Int) →
      Close (errB (γf τ) k A E) (2 ^ k * A) (fwdG bf tw k lvl blk zc) (fwdE k j z) := by
  intro k
  induction k with
  | zero =>
    intro lvl blk j A E zc z _ _ _ hc _ _
    simpa [fwdG, fwdE, errB_zero] using hc
  | succ k ih =>
    intro lvl blk j A E zc z hA hE hlen hc hacc hbig
    have hγ := γf_nonneg τ hτ0
    obtain ⟨htf, htτ, hacc1, hacc2⟩ := hacc
    have hAE : A + E ≤ (2:ℝ) ^ (999:Int) := by
      have := one_le_growth (γf τ) hγ (k + 1)
      have hpos : 0 ≤ A + E := by linarith
      calc A + E = 1 * (A + E) := by ring
        _ ≤ 2 ^ (k + 1) * (1 + γf τ / 2) ^ (k + 1) * (A + E) := mul_le_mul_of_nonneg_right this hpos
        _ ≤ _ := hbig
    have hlz : z.length = 2 ^ (k + 1) := by rw [← close_len hc, hlen]
    have hp : 2 ^ (k + 1) = 2 ^ k + 2 ^ k := by rw [pow_succ]; ring
    have c1 := List.forall₂_take (2 ^ k) hc
    have c2 := List.forall₂_drop (2 ^ k) hc
    obtain ⟨l1, l2⟩ := level_fwdG bf hbf τ hτ0 hτ1 (tw lvl blk) (cis (j / 2)) htf (norm_cis _) htτ A E hA hE hAE c1 c2
    have len1 : (List.zipWith (fun a b => (bf (tw lvl blk) a b).1) (List.take (2 ^ k) zc) (List.drop (2 ^ k) zc)).length = 2 ^ k := by
      simp [hlen, hp]
    have len2 : (List.zipWith (fun a b => (bf (tw lvl blk) a b).2) (List.take (2 ^ k) zc) (List.drop (2 ^ k) zc)).length = 2 ^ k := by
      simp [hlen, hp]
    have hbig' : 2 ^ k * (1 + γf τ / 2) ^ k * (2 * A + (2 * E + γf τ * (A + E))) ≤ (2:ℝ) ^ (999:Int) := by
      have : 2 ^ k * (1 + γf τ / 2) ^ k * (2 * A + (2 * E + γf τ * (A + E)))
          = 2 ^ (k + 1) * (1 + γf τ / 2) ^ (k + 1) * (A + E) := by ring
      rw [this]; exact hbig
    have hE' : 0 ≤ 2 * E + γf τ * (A + E) := by
      have : 0 ≤ γf τ * (A + E) := mul_nonneg hγ (by linarith)
      linarith
    have r1 := ih (lvl + 1) (2 * blk) (j / 2) (2 * A) _ _ _ (by linarith) hE' len1 l1 hacc1 hbig'
    have r2 := ih (lvl + 1) (2 * blk + 1) (j / 2 + 1 / 2) (2 * A) _ _ _ (by linarith) hE' len2 l2 hacc2 hbig'
    have := close_append r1 r2
    rw [errB_succ]
    have e2 : (2:ℝ) ^ (k + 1) * A = 2 ^ k * (2 * A) := by ring
    rw [e2]
    simpa [fwdG, fwdE, bflyBlock_fst, bflyBlock_snd] using this



theorem level_invG (bf : Tw → C64 → C64 → C64 × C64) (hbf : InvSpec bf) (τ : ℝ) (hτ0 : 0 ≤ τ) (hτ1 : τ ≤ 1) (t : Tw) (ω : ℂ) (ht : TwFin t) (hω : ‖ω‖ = 1)
    (hτ : ‖twCi t - ω‖ ≤ τ) (A E : ℝ) (hA : 1 ≤ A) (hE : 0 ≤ E) (hAE : A + E ≤ (2:ℝ) ^ (997:Int))
    {lc hc : List C64} {l h : List ℂ} (h1 : Close E A lc l) (h2 : Close E A hc h) :
    Close (2 * E + γi τ * (A + E)) (2 * A) (List.zipWith (fun a b => (bf t a b).1) lc hc)
        (List.zipWith (fun a b => a + b) l h) ∧
    Close (2 * E + γi τ * (A + E)) (2 * A) (List.zipWith (fun a b => (bf t a b).2) lc hc)
        (List.zipWith (fun a b => (a - b) * ω) l h) := by
  have core : ∀ (a : C64) (x : ℂ) (b : C64) (y : ℂ),
      (CFin a ∧ ‖cval a - x‖ ≤ E ∧ ‖x‖ ≤ A) → (CFin b ∧ ‖cval b - y‖ ≤ E ∧ ‖y‖ ≤ A) →
      (CFin (bf t a b).1 ∧ ‖cval (bf t a b).1 - (x + y)‖ ≤ 2 * E + γi τ * (A + E) ∧ ‖x + y‖ ≤ 2 * A) ∧
      (CFin (bf t a b).2 ∧ ‖cval (bf t a b).2 - (x - y) * ω‖ ≤ 2 * E + γi τ * (A + E) ∧ ‖(x - y) * ω‖ ≤ 2 * A) := by
    intro a x b y ⟨fa, ea, na⟩ ⟨fb, eb, nb⟩
    have ma : ‖cval a‖ ≤ A + E := by have := norm_le_insert' (cval a) x; linarith
    have mb : ‖cval b‖ ≤ A + E := by have := norm_le_insert' (cval b) y; linarith
    obtain ⟨c1, c2, e1, e2⟩ := hbf t a b ω τ (A + E) ht fa fb hω hτ hτ1 ma mb (by linarith) hAE
    refine ⟨⟨c1, ?_, ?_⟩, ⟨c2, ?_, ?_⟩⟩
    · have e : cval (bf t a b).1 - (x + y) =
          (cval (bf t a b).1 - (cval a + cval b)) + (cval a - x) + (cval b - y) := by ring
      rw [e]; refine le_trans norm_add₃_le ?_; linarith
    · refine le_trans (norm_add_le _ _) ?_; linarith
    · have e : cval (bf t a b).2 - (x - y) * ω =
          (cval (bf t a b).2 - (cval a - cval b) * ω) + ((cval a - x) - (cval b - y)) * ω := by ring
      rw [e]; refine le_trans (norm_add_le _ _) ?_
      rw [Complex.norm_mul, hω, mul_one]
      have := norm_sub_le (cval a - x) (cval b - y)
      linarith
    · rw [Complex.norm_mul, hω, mul_one]; refine le_trans (norm_sub_le _ _) ?_; linarith
  constructor
  · exact forall₂_zipWith _ _ (fun a x b y ha hb => (core a x b y ha hb).1) h1 h2
  · exact forall₂_zipWith _ _ (fun a x b y ha hb => (core a x b y ha hb).2) h1 h2


/-- **a-priori error bound of the inverse transform, every `k`** -/
theorem invG_err (bf : Tw → C64 → C64 → C64 × C64) (hbf : InvSpec bf) (τ : ℝ) (hτ0 : 0 ≤ τ) (hτ1 : τ ≤ 1) (tw : Nat → Nat → Tw) :
    ∀ (k lvl blk : Nat) (j A E : ℝ) (zc : List C64) (z : List ℂ),
      1 ≤ A → 0 ≤ E → zc.length = 2 ^ k → Close E A zc z → AccI τ tw k lvl blk j →
      2 ^ k * (1 + γi τ / 2) ^ k * (A + E) ≤ (2:ℝ) ^ (997:Int) →
      Close (errB (γi τ) k A E) (2 ^ k * A) (invG bf tw k lvl blk zc) (invE k j z) := by
  intro k
  induction k with
  | zero =>
    intro lvl blk j A E zc z _ _ _ hc _ _
    simpa [invG, invE, errB_zero] using hc
  | succ k ih =>
    intro lvl blk j A E zc z hA hE hlen hc hacc hbig
    have hγ := γi_nonneg τ hτ0
    obtain ⟨htf, htτ, hacc1, hacc2⟩ := hacc
    have hp : 2 ^ (k + 1) = 2 ^ k + 2 ^ k := by rw [pow_succ]; ring
    have hpos : 0 ≤ A + E := by linarith
    have hg : (1:ℝ) ≤ 1 + γi τ / 2 := by linarith
    have hbigk : 2 ^ k * (1 + γi τ / 2) ^ k * (A + E) ≤ (2:ℝ) ^ (997:Int) := by
      refine le_trans ?_ hbig
      apply mul_le_mul_of_nonneg_right _ hpos
      have h1 : (2:ℝ) ^ k ≤ 2 ^ (k + 1) := pow_le_pow_right₀ (by norm_num) (by omega)
      have h2 : (1 + γi τ / 2) ^ k ≤ (1 + γi τ / 2) ^ (k + 1) := pow_le_pow_right₀ hg (by omega)
      exact mul_le_mul h1 h2 (by positivity) (by positivity)
    have c1 := List.forall₂_take (2 ^ k) hc
    have c2 := List.forall₂_drop (2 ^ k) hc
    have r1 := ih (lvl + 1) (2 * blk) (j / 2) A E _ _ hA hE (by simp [hlen, hp]) c1 hacc1 hbigk
    have r2 := ih (lvl + 1) (2 * blk + 1) (j / 2 + 1 / 2) A E _ _ hA hE (by simp [hlen, hp]) c2 hacc2 hbigk
    have hA1 : (1:ℝ) ≤ 2 ^ k * A := by
      have : (1:ℝ) ≤ 2 ^ k := one_le_pow₀ (by norm_num)
      nlinarith
    have hE1 := errB_nonneg (γi τ) hγ k A E (by linarith) hE
    have hsum : 2 ^ k * A + errB (γi τ) k A E = 2 ^ k * (1 + γi τ / 2) ^ k * (A + E) := by unfold errB; ring
    obtain ⟨l1, l2⟩ := level_invG bf hbf τ hτ0 hτ1 (tw lvl blk) (cis (-(j / 2))) htf (norm_cis _) htτ
      (2 ^ k * A) (errB (γi τ) k A E) hA1 hE1 (by rw [hsum]; exact hbigk) r1 r2
    have := close_append l1 l2
    have e1 : 2 * errB (γi τ) k A E + γi τ * (2 ^ k * A + errB (γi τ) k A E) = errB (γi τ) (k + 1) A E := by
      unfold errB; ring
    have e2 : 2 * ((2:ℝ) ^ k * A) = 2 ^ (k + 1) * A := by ring
    rw [e1, e2] at this
    simpa [invG, invE, bflyBlock_fst, bflyBlock_snd] using this


theorem fwdG_length (bf : Tw → C64 → C64 → C64 × C64) (tw : Nat → Nat → Tw) : ∀ (k lvl blk : Nat) (z : List C64), z.length = 2 ^ k →
    (fwdG bf tw k lvl blk z).length = 2 ^ k := by
  intro k; induction k with
  | zero => intro _ _ z h; simpa [fwdG] using h
  | succ k ih =>
    intro lvl blk z h
    have hp : 2 ^ (k + 1) = 2 ^ k + 2 ^ k := by rw [pow_succ]; ring
    simp only [fwdG, List.length_append]
    rw [ih, ih, hp] <;> simp [bflyBlock, h, hp]

theorem invG_length (bf : Tw → C64 → C64 → C64 × C64) (tw : Nat → Nat → Tw) : ∀ (k lvl blk : Nat) (z : List C64), z.length = 2 ^ k →
    (invG bf tw k lvl blk z).length = 2 ^ k := by
  intro k; induction k with
  | zero => intro _ _ z h; simpa [invG] using h
  | succ k ih =>
    intro lvl blk z h
    have hp : 2 ^ (k + 1) = 2 ^ k + 2 ^ k := by rw [pow_succ]; ring
    have h1 := ih (lvl + 1) (2 * blk) (z.take (2 ^ k)) (by simp [h, hp])
    have h2 := ih (lvl + 1) (2 * blk + 1) (z.drop (2 ^ k)) (by simp [h, hp])
    simp [invG, bflyBlock, h1, h2, hp]

end Fft64Avx
