import Poulpy.Lemmas.Ntt120Acc
import Poulpy.Lemmas.NegMul

/-!
NTT120: (d) the residue map is a ring homomorphism, the slot product of `svp_apply` is the product
of residues, and — *given* that the butterfly network is a ring isomorphism (`NttIsRingIso`, an
explicit hypothesis: the network itself is not modelled) — the whole pipeline
`b_from_znx64 → NTT → c_from_b → bbc → iNTT → b_to_znx128` returns the exact negacyclic product
whenever every coefficient of the exact product is at most `(Q−1)/2` in absolute value.
-/

namespace Ntt120
open Hal (negMul)

/-! ### the residue map is a ring homomorphism -/

theorem residue_mul (q : Nat) (a b : Int) (ra rb : Nat) (ha : (ra : Int) ≡ a [ZMOD q]) (hb : (rb : Int) ≡ b [ZMOD q]) :
    ((ra * rb : Nat) : Int) ≡ a * b [ZMOD q] := by
  push_cast; exact ha.mul hb

theorem residue_add (q : Nat) (a b : Int) (ra rb : Nat) (ha : (ra : Int) ≡ a [ZMOD q]) (hb : (rb : Int) ≡ b [ZMOD q]) :
    ((ra + rb : Nat) : Int) ≡ a + b [ZMOD q] := by
  push_cast; exact ha.add hb

/-! ### `pow2_mod` is reduced -/

theorem pow2ModLoop_lt (fuel q result base e : Nat) (hr : result < q) : pow2ModLoop fuel q result base e < q := by
  induction fuel generalizing result base e with
  | zero => simpa [pow2ModLoop] using hr
  | succ f ih =>
    unfold pow2ModLoop
    split
    · apply ih
      split
      · exact Nat.mod_lt _ (by omega)
      · exact hr
    · exact hr

theorem pow2Mod_lt (e q : Nat) (hq : 1 < q) : pow2Mod e q < q := pow2ModLoop_lt 64 q 1 (2 % q) e hq

/-! ### one slot of `svp_apply_dft_to_dft` -/

theorem dot_singleton (t : Term) : dot [t] = t.prod := by
  unfold dot; simp
theorem prod_mk (a b c d : Nat) : Term.prod ((a, b, c, d) : Term) = a * c + b * d := rfl

/-- `c_from_b` followed by `bbc` with `ell = 1`: the product of the two lazy residues modulo the
prime, for arbitrary `u64` inputs, without any 64-bit wrap -/
theorem slotProductK_modEq (q h fa fb : Nat) (hq : 1 < q) (hq31 : q < 2 ^ 31) (hh : 16 ≤ h) (hh2 : h < 32) (hfa : fa < 2 ^ 64) :
    slotProductK q h fa fb ≡ fa * fb [MOD q] ∧ slotProductK q h fa fb < 2 ^ 63 + 2 ^ 47 := by
  unfold slotProductK mulBbc1K u32Pair
  rw [cFromBK_eq q (by omega) (by omega) fb]
  simp only [land_m32, shr_eq, List.getD_cons_zero, List.getD_cons_succ]
  have hr : fb % q < q := Nat.mod_lt _ (by omega)
  have hr2 : fb % q * 2 ^ 32 % q < q := Nat.mod_lt _ (by omega)
  have hu : ∀ t ∈ [((fa % 2 ^ 32, fa / 2 ^ 32, fb % q, fb % q * 2 ^ 32 % q) : Term)], Term.u32 t := by
    intro t ht
    simp only [List.mem_singleton] at ht
    subst ht
    refine ⟨Nat.mod_lt _ (by decide), ?_, ?_, ?_⟩
    · show fa / 2 ^ 32 < 2 ^ 32; omega
    · show fb % q < 2 ^ 32; omega
    · show fb % q * 2 ^ 32 % q < 2 ^ 32; omega
  have hp1 := pow2Mod_lt 32 q hq
  have hp2 := pow2Mod_lt (32 + h) q hq
  have hlen1 : [((fa % 2 ^ 32, fa / 2 ^ 32, fb % q, fb % q * 2 ^ 32 % q) : Term)].length < 10000 := by
    show 1 < 10000; omega
  have he1 : (32 : Nat) < 2 ^ 64 := by omega
  have he2 : 32 + h < 2 ^ 64 := by omega
  obtain ⟨_, hlt, hm⟩ := bbcK_spec q h (pow2Mod 32 q) (pow2Mod (32 + h) q) _ hu hlen1 hh hh2 (by omega) (by omega)
    (pow2Mod_spec 32 q hq he1) (pow2Mod_spec (32 + h) q hq he2)
  refine ⟨hm.trans ?_, hlt⟩
  rw [dot_singleton, prod_mk]
  have hs : fa = fa % 2 ^ 32 + 2 ^ 32 * (fa / 2 ^ 32) := (Nat.mod_add_div fa (2 ^ 32)).symm
  have t2 : fa / 2 ^ 32 * (fb % q * 2 ^ 32 % q) ≡ fa / 2 ^ 32 * (fb % q * 2 ^ 32) [MOD q] :=
    Nat.ModEq.mul_left _ (Nat.mod_modEq _ _)
  have := Nat.ModEq.add_left (fa % 2 ^ 32 * (fb % q)) t2
  refine this.trans ?_
  have e : fa % 2 ^ 32 * (fb % q) + fa / 2 ^ 32 * (fb % q * 2 ^ 32) = (fa % 2 ^ 32 + 2 ^ 32 * (fa / 2 ^ 32)) * (fb % q) := by ring
  rw [e, ← hs]
  exact Nat.ModEq.mul_left _ (Nat.mod_modEq _ _)

/-! ### the transform as an explicit hypothesis -/

/-- two vectors of lazy residues of length `n` agree modulo `q` -/
def VecModEq (q n : Nat) (u v : List Nat) : Prop :=
  u.length = n ∧ v.length = n ∧ ∀ i, i < n → u.getD i 0 ≡ v.getD i 0 [MOD q]

/-- a vector of lazy residues represents the integer polynomial `a` modulo `q` -/
def PolyModEq (q n : Nat) (u : List Nat) (a : Poly) : Prop :=
  u.length = n ∧ a.length = n ∧ ∀ i, i < n → (u.getD i 0 : Int) ≡ a.getD i 0 [ZMOD q]

/-- **the assumption**: on lanes of length `n`, `ntt` / `intt` are well defined on residues modulo
`q`, `intt ∘ ntt` is the identity modulo `q`, and `ntt` turns the negacyclic product of
`Z_q[X]/(X^n+1)` into the slot-wise product of `Z_q^n` — i.e. `ntt` is a ring isomorphism
`Z_q[X]/(X^n+1) → Z_q^n` with inverse `intt` (multiplicativity and invertibility are what the
product pipeline uses; additivity is used by sums of products only).  This is what the butterfly
networks `ntt_ref` / `intt_ref` (and their AVX2 twins) are tied to by the correspondence check; it
is *not* proved. -/
structure NttIsRingIso (n q : Nat) (ntt intt : List Nat → List Nat) : Prop where
  ntt_congr : ∀ u v, VecModEq q n u v → VecModEq q n (ntt u) (ntt v)
  intt_congr : ∀ u v, VecModEq q n u v → VecModEq q n (intt u) (intt v)
  intt_ntt : ∀ u, u.length = n → VecModEq q n (intt (ntt u)) u
  ntt_mul : ∀ (a b : Poly) (u v w : List Nat), PolyModEq q n u a → PolyModEq q n v b → PolyModEq q n w (negMul a b) →
    VecModEq q n (ntt w) (List.zipWith (· * ·) (ntt u) (ntt v))

theorem VecModEq.symm {q n u v} (h : VecModEq q n u v) : VecModEq q n v u :=
  ⟨h.2.1, h.1, fun i hi => (h.2.2 i hi).symm⟩

theorem VecModEq.trans {q n u v w} (h : VecModEq q n u v) (h' : VecModEq q n v w) : VecModEq q n u w :=
  ⟨h.1, h'.2.1, fun i hi => (h.2.2 i hi).trans (h'.2.2 i hi)⟩

theorem getD_map_lt {α β} (l : List α) (f : α → β) (i : Nat) (d : α) (e : β) (hi : i < l.length) :
    (l.map f).getD i e = f (l.getD i d) := by
  simp [List.getD, hi]

theorem getD_zipWith_lt {α β γ} (f : α → β → γ) (l : List α) (m : List β) (i : Nat) (a : α) (b : β) (c : γ)
    (h1 : i < l.length) (h2 : i < m.length) : (List.zipWith f l m).getD i c = f (l.getD i a) (m.getD i b) := by
  simp [List.getD, h1, h2]

/-- `b_from_znx64` on a whole limb represents the limb -/
theorem bFrom_polyModEq (q : Nat) (hq : 0 < q) (hq2 : q < 2 ^ 63) (a : Poly)
    (ha : ∀ c ∈ a, -(2 ^ 63) ≤ c ∧ c < 2 ^ 63) :
    PolyModEq q a.length (a.map (fun c => bFromU64K q (asU64 c))) a := by
  refine ⟨by simp, rfl, ?_⟩
  intro i hi
  rw [getD_map_lt a _ i 0 0 hi]
  have hm : a.getD i 0 ∈ a := by
    rw [List.getD_eq_getElem?_getD, List.getElem?_eq_getElem hi]; simp
  exact bFromU64K_congr q hq hq2 _ (ha _ hm).1 (ha _ hm).2

/-- the canonical residues of an integer polynomial represent it -/
theorem res_polyModEq (q : Nat) (hq : 0 < q) (a : Poly) :
    PolyModEq q a.length (a.map (fun c => (c % (q : Int)).toNat)) a := by
  refine ⟨by simp, rfl, ?_⟩
  intro i hi
  rw [getD_map_lt a _ i 0 0 hi]
  have h0 := Int.emod_nonneg (a.getD i 0) (by omega : (q : Int) ≠ 0)
  rw [Int.toNat_of_nonneg h0]
  exact Int.mod_modEq _ _

/-- **one lane**: under `NttIsRingIso` the lane of prime `q` carries the exact product modulo `q` -/
theorem laneK_polyModEq (n q h : Nat) (ntt intt : List Nat → List Nat) (iso : NttIsRingIso n q ntt intt)
    (hq : 1 < q) (hq31 : q < 2 ^ 31) (hh : 16 ≤ h) (hh2 : h < 32)
    (hu64 : ∀ v, v.length = n → (∀ i, i < n → v.getD i 0 < 2 ^ 64) → ∀ i, i < n → (ntt v).getD i 0 < 2 ^ 64)
    (p x : Poly) (hp : p.length = n) (hx : x.length = n)
    (hpr : ∀ c ∈ p, -(2 ^ 63) ≤ c ∧ c < 2 ^ 63) (hxr : ∀ c ∈ x, -(2 ^ 63) ≤ c ∧ c < 2 ^ 63) :
    PolyModEq q n (laneK q h ntt intt p x) (negMul p x) := by
  unfold laneK
  simp only []
  have Pp := bFrom_polyModEq q (by omega) (by omega) p hpr
  have Px := bFrom_polyModEq q (by omega) (by omega) x hxr
  rw [hp] at Pp; rw [hx] at Px
  have hlen : (negMul p x).length = n := by rw [Hal.negMul_length]; exact hx
  have Pw := res_polyModEq q (by omega) (negMul p x)
  rw [hlen] at Pw
  set up := p.map (fun c => bFromU64K q (asU64 c)) with hup
  set ux := x.map (fun c => bFromU64K q (asU64 c)) with hux
  set w := (negMul p x).map (fun c => (c % (q : Int)).toNat) with hw
  have M := iso.ntt_mul p x up ux w Pp Px Pw
  have Lp : (ntt up).length = n := (iso.ntt_congr up up ⟨Pp.1, Pp.1, fun _ _ => Nat.ModEq.refl _⟩).1
  have Lx : (ntt ux).length = n := (iso.ntt_congr ux ux ⟨Px.1, Px.1, fun _ _ => Nat.ModEq.refl _⟩).1
  -- the slot products agree with the slot-wise product of the transforms
  have S : VecModEq q n (List.zipWith (fun a b => slotProductK q h a b) (ntt ux) (ntt up)) (ntt w) := by
    refine VecModEq.trans ⟨by simp [Lp, Lx], by simp [Lp, Lx], ?_⟩ M.symm
    intro i hi
    rw [getD_zipWith_lt _ _ _ i 0 0 0 (by omega) (by omega), getD_zipWith_lt _ _ _ i 0 0 0 (by omega) (by omega)]
    have hux64 : ∀ j, j < n → ux.getD j 0 < 2 ^ 64 := by
      intro j hj
      rw [hux, getD_map_lt x _ j 0 0 (by omega)]
      have hm : x.getD j 0 ∈ x := by
        rw [List.getD_eq_getElem?_getD, List.getElem?_eq_getElem (by omega)]; simp
      have := bFromU64K_range q (by omega) (by omega) (x.getD j 0) (hxr _ hm).1 (hxr _ hm).2
      omega
    have := (slotProductK_modEq q h ((ntt ux).getD i 0) ((ntt up).getD i 0) hq hq31 hh hh2 (hu64 ux Px.1 hux64 i hi)).1
    rw [Nat.mul_comm] at this
    exact this
  have I := (iso.intt_congr _ _ S).trans (iso.intt_ntt w Pw.1)
  refine ⟨I.1, hlen, ?_⟩
  intro i hi
  have h1 := I.2.2 i hi
  have h2 := Pw.2.2 i hi
  have h1' : ((intt (List.zipWith (fun a b => slotProductK q h a b) (ntt ux) (ntt up))).getD i 0 : Int) ≡ (w.getD i 0 : Int) [ZMOD q] :=
    (Int.natCast_modEq_iff).mpr h1
  exact h1'.trans h2

/-- **the NTT120 product pipeline is exact below `Q/2`**: for a good prime set, any split point
`16 ≤ h < 32`, transforms satisfying `NttIsRingIso` on each of the four lanes, and `i64` inputs of
length `n`: if every coefficient of the exact negacyclic product `p ⋆ x` is at most `(Q−1)/2` in
absolute value, the pipeline returns exactly `p ⋆ x` -/
theorem nttPipeline_exact (P : PrimeSet) (g : P.Good) (hq31 : P.q0 < 2 ^ 31 ∧ P.q1 < 2 ^ 31 ∧ P.q2 < 2 ^ 31 ∧ P.q3 < 2 ^ 31)
    (n h : Nat) (hh : 16 ≤ h) (hh2 : h < 32) (ntt intt : Nat → List Nat → List Nat)
    (iso0 : NttIsRingIso n P.q0 (ntt 0) (intt 0)) (iso1 : NttIsRingIso n P.q1 (ntt 1) (intt 1))
    (iso2 : NttIsRingIso n P.q2 (ntt 2) (intt 2)) (iso3 : NttIsRingIso n P.q3 (ntt 3) (intt 3))
    (hu64 : ∀ k v, v.length = n → (∀ i, i < n → v.getD i 0 < 2 ^ 64) → ∀ i, i < n → (ntt k v).getD i 0 < 2 ^ 64)
    (p x : Poly) (hp : p.length = n) (hx : x.length = n)
    (hpr : ∀ c ∈ p, -(2 ^ 63) ≤ c ∧ c < 2 ^ 63) (hxr : ∀ c ∈ x, -(2 ^ 63) ≤ c ∧ c < 2 ^ 63)
    (hbound : ∀ i, i < n → -(((bigQ P : Int) - 1) / 2) ≤ (negMul p x).getD i 0 ∧ (negMul p x).getD i 0 ≤ ((bigQ P : Int) - 1) / 2) :
    nttPipeline P h ntt intt p x = negMul p x := by
  have L0 := laneK_polyModEq n P.q0 h _ _ iso0 g.q0_gt hq31.1 hh hh2 (hu64 0) p x hp hx hpr hxr
  have L1 := laneK_polyModEq n P.q1 h _ _ iso1 g.q1_gt hq31.2.1 hh hh2 (hu64 1) p x hp hx hpr hxr
  have L2 := laneK_polyModEq n P.q2 h _ _ iso2 g.q2_gt hq31.2.2.1 hh hh2 (hu64 2) p x hp hx hpr hxr
  have L3 := laneK_polyModEq n P.q3 h _ _ iso3 g.q3_gt hq31.2.2.2 hh hh2 (hu64 3) p x hp hx hpr hxr
  unfold nttPipeline
  simp only []
  apply List.ext_getElem
  · simp [Hal.negMul_length]
  · intro i h1 h2
    simp only [List.length_map, List.length_range] at h1
    rw [List.getElem_map, List.getElem_range]
    have hi : i < n := by omega
    have hb := hbound i hi
    have e : (negMul p x)[i] = (negMul p x).getD i 0 := by
      rw [List.getD_eq_getElem?_getD, List.getElem?_eq_getElem h2]; rfl
    rw [e]
    exact bToZnx128Core_exact P g _ _ _ _ _ hb.1 hb.2 (L0.2.2 i hi) (L1.2.2 i hi) (L2.2.2 i hi) (L3.2.2 i hi)

end Ntt120
