/-
Helper lemmas for C08: decoding (`Model/Encoding.lean`): `decode_vec_i64/i128`, `decode_coeff_i64`
compute `valI(limbs[..size]) / 2^lsh` modulo the machine width, and the round trip with `encode_*`.
-/
import Poulpy.Lemmas.NormFused

namespace NormL

theorem ceil_div_mul_add_aux (n t r : Nat) (hn : 1 ≤ n) (hr : r < n) :
    (t * n + r + n - 1) / n = t + (if r = 0 then 0 else 1) := by
  by_cases h0 : r = 0
  · subst h0
    simp only [if_true, Nat.add_zero]
    apply Nat.div_eq_of_lt_le
    · omega
    · rw [Nat.add_mul]; omega
  · simp only [h0, if_false]
    apply Nat.div_eq_of_lt_le
    · rw [Nat.add_mul]; omega
    · rw [Nat.add_mul, Nat.add_mul]; omega

/-- congruence modulo `2^bits` -/
def Cong (bits : Nat) (x y : Int) : Prop := ∃ t : Int, x = y + t * 2 ^ bits

theorem Cong.refl (bits : Nat) (x : Int) : Cong bits x x := ⟨0, by simp⟩

theorem Cong.trans {bits : Nat} {x y z : Int} (h1 : Cong bits x y) (h2 : Cong bits y z) : Cong bits x z := by
  obtain ⟨s, hs⟩ := h1; obtain ⟨t, ht⟩ := h2
  exact ⟨s + t, by rw [hs, ht]; ring⟩

theorem Cong.add {bits : Nat} {x y u v : Int} (h1 : Cong bits x y) (h2 : Cong bits u v) : Cong bits (x + u) (y + v) := by
  obtain ⟨s, hs⟩ := h1; obtain ⟨t, ht⟩ := h2
  exact ⟨s + t, by rw [hs, ht]; ring⟩

theorem Cong.mul_right {bits : Nat} {x y : Int} (h : Cong bits x y) (c : Int) : Cong bits (x * c) (y * c) := by
  obtain ⟨s, hs⟩ := h
  exact ⟨s * c, by rw [hs]; ring⟩

theorem wrapN_cong (bits : Nat) (x : Int) : Cong bits (wrapN bits x) x := by
  unfold wrapN
  refine ⟨-((x + 2 ^ (bits - 1)) / 2 ^ bits), ?_⟩
  have := Int.emod_add_mul_ediv (x + 2 ^ (bits - 1)) (2 ^ bits)
  linarith

theorem wrapN_eq_of_cong {bits : Nat} {x y : Int} (h : Cong bits x y) : wrapN bits x = wrapN bits y := by
  obtain ⟨t, ht⟩ := h
  unfold wrapN
  have : x + 2 ^ (bits - 1) = (y + 2 ^ (bits - 1)) + t * 2 ^ bits := by rw [ht]; ring
  rw [this, Int.add_mul_emod_self_right]

theorem shlW_cong (bits : Nat) (x : Int) (s : Nat) : Cong bits (shlW bits x s) (x * 2 ^ s) := wrapN_cong bits _

theorem decodeFold_cons_plain (bits b k size j : Nat) (x : Int) (rest : List (Nat × Int)) (acc : Int)
    (h : ¬(j = size - 1 ∧ b - k % b ≠ b)) :
    decodeFold bits b k size ((j, x) :: rest) acc
      = decodeFold bits b k size rest (wrapN bits (shlW bits acc b + x)) := by
  rw [decodeFold]; simp only [h, if_false]

theorem decodeFold_cons_special (bits b k size j : Nat) (x q : Int) (rest : List (Nat × Int)) (acc : Int)
    (h : j = size - 1 ∧ b - k % b ≠ b) (hq : divRound bits x (shlW bits 1 (b - k % b)) = some q) :
    decodeFold bits b k size ((j, x) :: rest) acc
      = decodeFold bits b k size rest (wrapN bits (shlW bits acc ((b - (b - k % b)) % b) + q)) := by
  rw [decodeFold]; simp only [hq]; rw [if_pos h]

theorem decodeFold_nil (bits b k size : Nat) (acc : Int) : decodeFold bits b k size [] acc = some acc := by
  rw [decodeFold]

/-- plain Horner steps of `decodeFold` (no index hits the rounded last limb) -/
theorem decodeFold_plain (bits b k size : Nat) :
    ∀ (l : List (Nat × Int)), (∀ p ∈ l, ¬(p.1 = size - 1 ∧ b - k % b ≠ b)) → ∀ acc : Int,
      ∃ r, decodeFold bits b k size l acc = some r ∧
        Cong bits r (acc * 2 ^ (b * l.length) + valI b (l.map (fun p => p.2))) := by
  intro l
  induction l with
  | nil => intro _ acc; exact ⟨acc, rfl, by simp [valI, Cong.refl]⟩
  | cons p rest ih =>
    intro hp acc
    obtain ⟨j, x⟩ := p
    have hne : ¬(j = size - 1 ∧ b - k % b ≠ b) := hp (j, x) (by simp)
    obtain ⟨r, hr, hc⟩ := ih (fun q hq => hp q (by simp [hq])) (wrapN bits (shlW bits acc b + x))
    refine ⟨r, ?_, ?_⟩
    · rw [decodeFold_cons_plain _ _ _ _ _ _ _ _ hne]; exact hr
    · have h1 : Cong bits (wrapN bits (shlW bits acc b + x)) (acc * 2 ^ b + x) :=
        (wrapN_cong bits _).trans ((shlW_cong bits acc b).add (Cong.refl bits x))
      have h2 := (h1.mul_right (2 ^ (b * rest.length))).add (Cong.refl bits (valI b (rest.map (fun p => p.2))))
      refine hc.trans ?_
      simp only [List.map_cons, valI, List.length_cons, List.length_map]
      have e : (2 : Int) ^ (b * (rest.length + 1)) = 2 ^ b * 2 ^ (b * rest.length) := pow_mul_succ b rest.length
      rw [e]
      have e2 : acc * (2 ^ b * 2 ^ (b * rest.length)) + (x * 2 ^ (b * rest.length) + valI b (rest.map fun p => p.2))
          = (acc * 2 ^ b + x) * 2 ^ (b * rest.length) + valI b (rest.map fun p => p.2) := by ring
      rw [e2]; exact h2

theorem decodeFold_append (bits b k size : Nat) (l1 l2 : List (Nat × Int)) (acc : Int) :
    decodeFold bits b k size (l1 ++ l2) acc =
      (decodeFold bits b k size l1 acc).bind (fun r => decodeFold bits b k size l2 r) := by
  induction l1 generalizing acc with
  | nil => simp [decodeFold]
  | cons p rest ih =>
    obtain ⟨j, x⟩ := p
    simp only [List.cons_append, decodeFold]
    split
    · cases divRound bits x (shlW bits 1 (b - k % b)) with
      | none => simp
      | some q => simp only; exact ih _
    · exact ih _

/-- `div_round` by a power of two that divides the argument is the exact quotient -/
theorem divRound_exact {bits : Nat} (hbits : 1 ≤ bits) {rem : Nat} (hrem : rem + 2 ≤ bits) {x : Int}
    (hdvd : (2 : Int) ^ rem ∣ x) : divRound bits x (shlW bits 1 rem) = some (x / 2 ^ rem) := by
  have hP := two_pow_pos rem
  have hle : (2 : Int) ^ rem < 2 ^ (bits - 1) := by
    have : (2 : Int) ^ rem < 2 ^ (rem + 1) := by rw [pow_succ]; linarith
    have : (2 : Int) ^ (rem + 1) ≤ 2 ^ (bits - 1) := two_pow_le (by omega)
    linarith
  have hs : shlW bits 1 rem = 2 ^ rem := by
    unfold shlW; rw [one_mul]; exact wrapN_eq_abs hbits (by rw [abs_of_pos hP]; exact hle)
  rw [hs]
  unfold divRound
  rw [if_neg (ne_of_gt hP)]
  have hmod : Int.tmod x (2 ^ rem) = 0 := Int.tmod_eq_zero_of_dvd hdvd
  have hdiv : Int.tdiv x (2 ^ rem) = x / 2 ^ rem := Int.tdiv_eq_ediv_of_dvd hdvd
  simp only [hmod, hdiv]
  have h0 : wrapN bits (2 * ((0 : Int).natAbs : Int)) = 0 := by
    simp; exact wrapN_eq_abs hbits (by simp)
  rw [h0]
  have : ¬ ((0 : Int) ≥ (((2 : Int) ^ rem).natAbs : Int)) := by
    rw [Int.natAbs_of_nonneg (le_of_lt hP)]; linarith
  rw [if_neg this]

/-- indices of `l.zipIdx` (swapped) below `n` when started at 0 -/
theorem zipIdx_swap_index (l : List Int) : ∀ p ∈ l.zipIdx.map (fun p => (p.2, p.1)), p.1 < l.length := by
  intro p hp
  simp only [List.mem_map] at hp
  obtain ⟨q, hq, rfl⟩ := hp
  have := List.mem_zipIdx hq
  simp only; omega

theorem zipIdx_swap_map_snd (l : List Int) : (l.zipIdx.map (fun p => (p.2, p.1))).map (fun p => p.2) = l := by
  simp [List.map_map, Function.comp_def]

theorem zipIdx_append_singleton (l : List Int) (x : Int) :
    (l ++ [x]).zipIdx.map (fun p => (p.2, p.1)) = l.zipIdx.map (fun p => (p.2, p.1)) ++ [(l.length, x)] := by
  simp [List.zipIdx_append]

/-- **`decode_coeff_i64` / the loop of `decode_vec_*`** on limbs `init ++ [last]` (`size = init.length + 1`
limbs used) whose last limb is divisible by `2^lsh`: the result is `valI(init ++ [last]) / 2^lsh`
reduced to the machine width. -/
theorem decodeFold_full {bits b k : Nat} (hbits : 1 ≤ bits) (hb : 1 ≤ b) (hbb : b + 2 ≤ bits) (init : List Int) (last : Int)
    (hsize : encSize b k = init.length + 1)
    (hdvd : (2 : Int) ^ (encLsh b k) ∣ last) :
    decodeFold bits b k (init.length + 1) ((init ++ [last]).zipIdx.map (fun p => (p.2, p.1))) 0
      = some (wrapN bits (valI b (init ++ [last]) / 2 ^ (encLsh b k))) := by
  rw [zipIdx_append_singleton, decodeFold_append]
  have hplain : ∀ p ∈ init.zipIdx.map (fun p => (p.2, p.1)), ¬(p.1 = init.length + 1 - 1 ∧ b - k % b ≠ b) := by
    intro p hp h
    have := zipIdx_swap_index init p hp
    omega
  obtain ⟨r1, hr1, hc1⟩ := decodeFold_plain bits b k (init.length + 1) _ hplain 0
  rw [hr1]
  simp only [Option.bind_some, zero_mul, zero_add, zipIdx_swap_map_snd] at hc1 ⊢
  have hval : valI b (init ++ [last]) = valI b init * 2 ^ b + last := by
    rw [valI_append, valI_singleton]; simp
  have hml := Nat.mod_lt k (show b > 0 by omega)
  by_cases hrem : b - k % b = b
  · -- k is a multiple of b: plain last step, lsh = 0
    have hk0 : k % b = 0 := by omega
    have hlsh : encLsh b k = 0 := by unfold encLsh; rw [hk0]; simp
    have hne : ¬(init.length = init.length + 1 - 1 ∧ b - k % b ≠ b) := fun h => h.2 hrem
    rw [decodeFold_cons_plain _ _ _ _ _ _ _ _ hne, decodeFold_nil]
    congr 1
    rw [hlsh, pow_zero, Int.ediv_one, hval]
    exact wrapN_eq_of_cong (((shlW_cong bits r1 b).trans (hc1.mul_right _)).add (Cong.refl bits last))
  · have hk0 : k % b ≠ 0 := by omega
    have hlsh : encLsh b k = b - k % b := by
      unfold encLsh; exact Nat.mod_eq_of_lt (by omega)
    have hsp : init.length = init.length + 1 - 1 ∧ b - k % b ≠ b := ⟨by omega, hrem⟩
    rw [hlsh] at hdvd ⊢
    have hdr := divRound_exact hbits (rem := b - k % b) (by omega) hdvd
    rw [decodeFold_cons_special _ _ _ _ _ _ _ _ _ hsp hdr, decodeFold_nil]
    congr 1
    have hkr : (b - (b - k % b)) % b = k % b := by
      have : b - (b - k % b) = k % b := by omega
      rw [this]; exact Nat.mod_eq_of_lt hml
    rw [hkr]
    obtain ⟨m, hm⟩ := hdvd
    have hP := two_pow_pos (b - k % b)
    have hq : last / 2 ^ (b - k % b) = m := by rw [hm]; exact Int.mul_ediv_cancel_left _ (ne_of_gt hP)
    have e : (2 : Int) ^ b = 2 ^ (k % b) * 2 ^ (b - k % b) := by rw [← pow_add]; congr 1; omega
    have htot : valI b (init ++ [last]) / 2 ^ (b - k % b) = valI b init * 2 ^ (k % b) + m := by
      rw [hval, hm, e]
      have : valI b init * (2 ^ (k % b) * 2 ^ (b - k % b)) + 2 ^ (b - k % b) * m
          = 2 ^ (b - k % b) * (valI b init * 2 ^ (k % b) + m) := by ring
      rw [this, Int.mul_ediv_cancel_left _ (ne_of_gt hP)]
    rw [htot, hq]
    exact wrapN_eq_of_cong (((shlW_cong bits r1 (k % b)).trans (hc1.mul_right _)).add (Cong.refl bits m))

/-- `decode_coeff_i64` on limbs whose first `size` limbs are `init ++ [last]` -/
theorem decodeCoefI64_spec {b k : Nat} (hb : 1 ≤ b) (hb62 : b ≤ 62) (L init : List Int) (last : Int)
    (hsize : encSize b k = init.length + 1) (hL : L.take (encSize b k) = init ++ [last])
    (hlen : encSize b k ≤ L.length) (hdvd : (2 : Int) ^ (encLsh b k) ∣ last) :
    decodeCoefI64 b k L = .ok (wrapN 64 (valI b (init ++ [last]) / 2 ^ (encLsh b k))) := by
  unfold decodeCoefI64
  simp only
  rw [if_neg (by omega), hL, hsize, decodeFold_full (by norm_num) hb (by omega) init last hsize hdvd]

/-- `decode_vec_i64` (`bits = 64`) / `decode_vec_i128` (`bits = 128`) on the same limbs; every limb is
an `i64` -/
theorem decodeCoefVec_spec {bits b k : Nat} (hbits : bits = 64 ∨ bits = 128) (hb : 1 ≤ b) (hb62 : b ≤ 62) (hk : 1 ≤ k)
    (L init : List Int) (last : Int)
    (hsize : encSize b k = init.length + 1) (hL : L.take (encSize b k) = init ++ [last])
    (hlen : encSize b k ≤ L.length) (hdvd : (2 : Int) ^ (encLsh b k) ∣ last)
    (hrange : ∀ x ∈ L, |x| < 2 ^ 63) :
    decodeCoefVec bits b k L = .ok (wrapN bits (valI b (init ++ [last]) / 2 ^ (encLsh b k))) := by
  have hbits1 : 1 ≤ bits := by rcases hbits with h | h <;> omega
  have h63 : (2 : Int) ^ 63 ≤ 2 ^ (bits - 1) := two_pow_le (by rcases hbits with h | h <;> omega)
  have hml := Nat.mod_lt k (show b > 0 by omega)
  cases L with
  | nil => simp at hlen; omega
  | cons a0 tl =>
    have ha0 : |a0| < 2 ^ (bits - 1) := by have := hrange a0 (by simp); linarith
    unfold decodeCoefVec
    simp only
    by_cases hkb : k < b
    · -- a single (partial) limb
      rw [if_pos hkb]
      have hs1 : encSize b k = 1 := by
        unfold encSize
        apply Nat.div_eq_of_lt_le <;> omega
      have hi0 : init = [] := by
        have : init.length = 0 := by omega
        exact List.eq_nil_of_length_eq_zero this
      subst hi0
      rw [hs1] at hL
      simp only [List.take_succ_cons, List.take_zero, List.nil_append, List.cons.injEq, and_true] at hL
      subst hL
      have hkm : k % b = k := Nat.mod_eq_of_lt hkb
      have hlsh : encLsh b k = b - k := by unfold encLsh; rw [hkm]; exact Nat.mod_eq_of_lt (by omega)
      rw [hlsh] at hdvd ⊢
      rw [hkm, divRound_exact hbits1 (rem := b - k) (by rcases hbits with h | h <;> omega) hdvd]
      simp only [List.nil_append, valI_singleton]
      congr 1
      obtain ⟨m, hm⟩ := hdvd
      have hP := two_pow_pos (b - k)
      rw [hm, Int.mul_ediv_cancel_left _ (ne_of_gt hP)]
      symm
      apply wrapN_eq_abs hbits1
      have h1 : (1 : Int) ≤ 2 ^ (b - k) := by
        have := two_pow_le (Nat.zero_le (b - k)); simpa using this
      have : |a0| = 2 ^ (b - k) * |m| := by rw [hm, abs_mul, abs_of_pos hP]
      have hm0 := abs_nonneg m
      nlinarith
    · rw [if_neg hkb, if_neg (by omega)]
      -- the fold started from limb 0 is the fold from 0 over all limbs
      have hfull := decodeFold_full hbits1 hb (by rcases hbits with h | h <;> omega) init last hsize hdvd
      rw [← hsize, ← hL] at hfull
      have hz : (a0 :: tl).take (encSize b k) = a0 :: tl.take (encSize b k - 1) := by
        rw [hsize]; simp
      rw [hz] at hfull ⊢
      have hplain : ¬(0 = encSize b k - 1 ∧ b - k % b ≠ b) := by
        intro h
        have hs1 : encSize b k = 1 := by omega
        -- size = 1 and k ≥ b force k = b
        have : k ≤ b := by
          unfold encSize at hs1
          by_contra hne
          have : 2 * b ≤ k + b - 1 := by omega
          have : 2 ≤ (k + b - 1) / b := (Nat.le_div_iff_mul_le (by omega)).mpr (by omega)
          omega
        have : k = b := by omega
        rw [this, Nat.mod_self] at h
        exact h.2 (by omega)
      simp only [List.zipIdx_cons, List.map_cons, List.drop_succ_cons, List.drop_zero, zero_add] at hfull ⊢
      rw [decodeFold_cons_plain _ _ _ _ _ _ _ _ hplain] at hfull
      have h0 : wrapN bits (shlW bits 0 b + a0) = a0 := by
        have : shlW bits 0 b = 0 := by
          unfold shlW; rw [zero_mul]; exact wrapN_eq_abs hbits1 (by simp)
        rw [this, zero_add]; exact wrapN_eq_abs hbits1 ha0
      rw [h0] at hfull
      rw [hfull]
      simp only
      rw [← hz, hL]

theorem encSize_mul_eq {b k : Nat} (hb : 1 ≤ b) : b * encSize b k = k + encLsh b k := by
  unfold encSize encLsh
  have hdm := Nat.div_add_mod k b
  have hml := Nat.mod_lt k (show b > 0 by omega)
  by_cases h0 : k % b = 0
  · have h1 : (k + b - 1) / b = k / b := by
      have hk : k = (k / b) * b + 0 := by rw [Nat.mul_comm]; omega
      have := ceil_div_mul_add_aux b (k / b) 0 hb (by omega)
      rw [← hk] at this; simpa using this
    rw [h1, h0]; simp; omega
  · have h1 : (k + b - 1) / b = k / b + 1 := by
      have hk : k = (k / b) * b + k % b := by rw [Nat.mul_comm]; omega
      have := ceil_div_mul_add_aux b (k / b) (k % b) hb hml
      rw [← hk, if_neg h0] at this; exact this
    rw [h1, Nat.mod_eq_of_lt (show b - k % b < b by omega), Nat.mul_add]; omega

/-- the first `size` limbs written by `encode_vec_i64` / `encode_coeff_i64`: balanced digits
`X ++ [d·2^lsh]` of `v·2^lsh` (`d` the balanced residue of `v` modulo `2^(b-lsh)`) -/
theorem encodeCoefI64_take {b k aSize : Nat} {H : Int} (hr : HeadRoom 64 b (encLsh b k) H) (hk : 1 ≤ k)
    (hsz : encSize b k ≤ aSize) (v : Int) (hv : |v| ≤ H) :
    ∃ X : List Int, X.length + 1 = encSize b k ∧
      (encodeCoefI64 b k aSize v).take (encSize b k) = X ++ [bmod (b - encLsh b k) v * 2 ^ (encLsh b k)] ∧
      (encodeCoefI64 b k aSize v).length = aSize ∧
      (∀ d ∈ encodeCoefI64 b k aSize v, Balanced b d) ∧
      ∃ q : Int, valI b (X ++ [bmod (b - encLsh b k) v * 2 ^ (encLsh b k)]) + q * 2 ^ (b * encSize b k)
        = v * 2 ^ (encLsh b k) := by
  have hb : 1 ≤ b := by have := hr.hlsh; omega
  have hs1 : 1 ≤ encSize b k := by
    unfold encSize
    exact (Nat.le_div_iff_mul_le (by omega)).mpr (by omega)
  set lsh := encLsh b k with hlsh
  set l := List.replicate (encSize b k - 1) (0 : Int) ++ [v] with hl
  have hlb : ∀ x ∈ l, |x| ≤ H := by
    intro x hx
    simp only [hl, List.mem_append, List.mem_replicate, List.mem_singleton] at hx
    rcases hx with ⟨_, rfl⟩ | rfl
    · simpa using hr.hH0
    · exact hv
  have h0 : |(0 : Int)| ≤ H + 3 := by have := hr.hH0; simp; linarith
  obtain ⟨⟨q, hq⟩, hlen, hbal⟩ := finalTopRun_spec hr l hlb 0 h0
  have hll : l.length = encSize b k := by simp [hl]; omega
  have hval : valI b l = v := by
    simp only [hl]; rw [valI_append, valI_replicate_zero, valI_singleton]; simp
  have henc : encodeCoefI64 b k aSize v = finalTopRun 64 b lsh l 0 ++ List.replicate (aSize - encSize b k) 0 := by
    unfold encodeCoefI64
    simp only
    rw [← hl, assignRun_eq hr l hlb]
  have htake : (encodeCoefI64 b k aSize v).take (encSize b k) = finalTopRun 64 b lsh l 0 := by
    rw [henc, List.take_left' (by rw [hlen, hll])]
  -- decomposition of the digits
  have hdig : finalTopRun 64 b lsh l 0 =
      (middleRun 64 b lsh (List.replicate (encSize b k - 1) 0) (middleRun 64 b lsh [v] 0).2).1
        ++ [bmod (b - lsh) v * 2 ^ lsh] := by
    rw [finalTopRun_eq_middleRun, hl, middleRun_append]
    simp only
    congr 1
    simp only [middleRun]
    have hm := (middleStepS_eq hr hv h0).1
    rw [hm]
    simp only [add_zero]
    have hs := shifted_digit_range hr.hlsh v
    rw [bmod_of_range hb hs.1 hs.2]
  have hbal0 : Balanced b 0 := by
    have := two_pow_pos (b - 1); exact ⟨by linarith, this⟩
  refine ⟨_, ?_, by rw [htake, hdig], by rw [henc]; simp [hlen, hll]; omega, ?_, q, ?_⟩
  · rw [middleRun_length]; simp; omega
  · intro d hd
    rw [henc] at hd
    rcases List.mem_append.mp hd with h | h
    · exact hbal d h
    · rw [(List.mem_replicate.mp h).2]; exact hbal0
  · rw [← hdig]; rw [hll, hval] at hq; linarith

/-- **round trip** `decode(encode(v))` for the three `i64`-limb decoders: the result is `v − q·2^k`
reduced to the decoder's width, where `q` is the carry out of the balanced expansion of `v·2^lsh` over
`size` limbs; `q = 0` (the expansion fits) whenever `4|v| < 2^k` and `b ≥ 2`. -/
theorem encode_decode_roundtrip {b k aSize : Nat} {H : Int} (hr : HeadRoom 64 b (encLsh b k) H) (hb62 : b ≤ 62)
    (hk : 1 ≤ k) (hsz : encSize b k ≤ aSize) (v : Int) (hv : |v| ≤ H) :
    ∃ q : Int,
      decodeCoefI64 b k (encodeCoefI64 b k aSize v) = .ok (wrapN 64 (v - q * 2 ^ k)) ∧
      decodeCoefVec 64 b k (encodeCoefI64 b k aSize v) = .ok (wrapN 64 (v - q * 2 ^ k)) ∧
      decodeCoefVec 128 b k (encodeCoefI64 b k aSize v) = .ok (wrapN 128 (v - q * 2 ^ k)) ∧
      (2 ≤ b → 4 * |v| < 2 ^ k → q = 0) := by
  have hb : 1 ≤ b := by have := hr.hlsh; omega
  obtain ⟨X, hXl, htake, hlen, hbal, q, hq⟩ := encodeCoefI64_take hr hk hsz v hv
  set L := encodeCoefI64 b k aSize v with hL
  set lsh := encLsh b k with hlsh
  set last := bmod (b - lsh) v * 2 ^ lsh with hlast
  have hbs := encSize_mul_eq (b := b) (k := k) hb
  have hP := two_pow_pos lsh
  have hpow : (2 : Int) ^ (b * encSize b k) = 2 ^ k * 2 ^ lsh := by rw [hbs, pow_add]
  have hD : valI b (X ++ [last]) / 2 ^ lsh = v - q * 2 ^ k := by
    have : valI b (X ++ [last]) = 2 ^ lsh * (v - q * 2 ^ k) := by rw [hpow] at hq; linarith
    rw [this, Int.mul_ediv_cancel_left _ (ne_of_gt hP)]
  have hdvd : (2 : Int) ^ lsh ∣ last := Dvd.intro_left _ rfl
  have hrange : ∀ x ∈ L, |x| < 2 ^ 63 := by
    intro x hx
    have := (hbal x hx).abs_le
    have h1 : (2 : Int) ^ (b - 1) ≤ 2 ^ 61 := two_pow_le (by omega)
    have : (2 : Int) ^ 61 < 2 ^ 63 := by norm_num
    linarith
  have hsize : encSize b k = X.length + 1 := hXl.symm
  refine ⟨q, ?_, ?_, ?_, ?_⟩
  · rw [decodeCoefI64_spec hb hb62 L X last hsize htake (by rw [hlen]; exact hsz) hdvd, hD]
  · rw [decodeCoefVec_spec (Or.inl rfl) hb hb62 hk L X last hsize htake (by rw [hlen]; exact hsz) hdvd hrange, hD]
  · rw [decodeCoefVec_spec (Or.inr rfl) hb hb62 hk L X last hsize htake (by rw [hlen]; exact hsz) hdvd hrange, hD]
  · intro hb2 hsmall
    -- digits of the first `size` limbs are balanced
    have hbalD : ∀ d ∈ X ++ [last], Balanced b d := by
      intro d hd
      have : d ∈ L.take (encSize b k) := by rw [htake]; exact hd
      exact hbal d (List.mem_of_mem_take this)
    have h4 : (4 : Int) ≤ 2 ^ b := by
      have := two_pow_le hb2; simpa using this
    cases hDc : X ++ [last] with
    | nil => simp at hDc
    | cons top low =>
      rw [hDc] at hq hbalD
      have hll : low.length + 1 = encSize b k := by
        have : (X ++ [last]).length = (top :: low).length := by rw [hDc]
        simp at this; omega
      have htop := (hbalD top (by simp)).abs_le
      have hlow := valI_balanced_bound hb low (fun d hd => hbalD d (by simp [hd]))
      simp only [valI] at hq
      set P := (2 : Int) ^ (b * low.length) with hPdef
      have hPpos : 0 < P := two_pow_pos _
      have e1 : (2 : Int) ^ (b * encSize b k) = 2 ^ b * P := by
        rw [← hll, hPdef]; exact pow_mul_succ b low.length
      rw [e1] at hq hpow
      have hhalf := half_le_full hb
      by_contra hq0
      have hq1 : 1 ≤ |q| := by
        have := abs_pos.mpr hq0; omega
      -- 4·|q|·2^b·P ≤ 4|v|2^lsh + 4|top|P + 4|low| < 4·2^b·P
      have hqe : q * (2 ^ b * P) = v * 2 ^ lsh - top * P - valI b low := by linarith
      have habs : |q| * (2 ^ b * P) ≤ |v| * 2 ^ lsh + |top| * P + |valI b low| := by
        have h1 : |q * (2 ^ b * P)| = |q| * (2 ^ b * P) := by
          rw [abs_mul, abs_of_pos (by positivity : (0 : Int) < 2 ^ b * P)]
        rw [← h1, hqe]
        have := abs_sub (v * 2 ^ lsh - top * P) (valI b low)
        have h2 := abs_sub (v * 2 ^ lsh) (top * P)
        rw [abs_mul, abs_mul, abs_of_pos hP, abs_of_pos hPpos] at h2
        linarith
      have hv4 : 4 * (|v| * 2 ^ lsh) < 2 ^ b * P := by
        have : 4 * |v| * 2 ^ lsh < 2 ^ k * 2 ^ lsh := mul_lt_mul_of_pos_right hsmall hP
        rw [hpow]; linarith
      have htP : |top| * P ≤ 2 ^ (b - 1) * P := mul_le_mul_of_nonneg_right htop (le_of_lt hPpos)
      have hone : 2 ^ b * P ≤ |q| * (2 ^ b * P) := by
        have : (0 : Int) < 2 ^ b * P := by positivity
        nlinarith
      nlinarith

/-- the digits produced by the first / middle / final pattern on `l0 ++ [x]` -/
theorem assignRun_digits {b lsh : Nat} {H : Int} (hr : HeadRoom 64 b lsh H) (l0 : List Int) (x : Int)
    (hl : ∀ y ∈ l0 ++ [x], |y| ≤ H) :
    ∃ (X : List Int) (q : Int), X.length = l0.length ∧
      assignRun 64 b lsh (l0 ++ [x]) = X ++ [bmod (b - lsh) x * 2 ^ lsh] ∧
      (∀ d ∈ X ++ [bmod (b - lsh) x * 2 ^ lsh], Balanced b d) ∧
      valI b (X ++ [bmod (b - lsh) x * 2 ^ lsh]) + q * 2 ^ (b * (l0.length + 1)) = valI b (l0 ++ [x]) * 2 ^ lsh := by
  have hb : 1 ≤ b := by have := hr.hlsh; omega
  have h0 : |(0 : Int)| ≤ H + 3 := by have := hr.hH0; simp; linarith
  have hx : |x| ≤ H := hl x (by simp)
  obtain ⟨⟨q, hq⟩, hlen, hbal⟩ := finalTopRun_spec hr (l0 ++ [x]) hl 0 h0
  have hdig : finalTopRun 64 b lsh (l0 ++ [x]) 0 =
      (middleRun 64 b lsh l0 (middleRun 64 b lsh [x] 0).2).1 ++ [bmod (b - lsh) x * 2 ^ lsh] := by
    rw [finalTopRun_eq_middleRun, middleRun_append]
    simp only
    congr 1
    simp only [middleRun]
    rw [(middleStepS_eq hr hx h0).1]
    simp only [add_zero]
    have hs := shifted_digit_range hr.hlsh x
    rw [bmod_of_range hb hs.1 hs.2]
  refine ⟨_, q, middleRun_length _ _ _ _ _, by rw [assignRun_eq hr _ hl, hdig], by rw [← hdig]; exact hbal, ?_⟩
  rw [← hdig]
  simp only [List.length_append, List.length_singleton] at hq
  linarith

/-- the balanced expansion of `v·2^lsh` over `s` limbs has no carry out when `4|v| < 2^k` (`b ≥ 2`) -/
theorem balanced_fits {b k lsh s : Nat} (hb2 : 2 ≤ b) (hbs : b * s = k + lsh) (R : List Int) (hRl : R.length = s)
    (hs1 : 1 ≤ s) (hbal : ∀ d ∈ R, Balanced b d) (v Q : Int)
    (hq : valI b R + Q * 2 ^ (b * s) = v * 2 ^ lsh) (hsmall : 4 * |v| < 2 ^ k) : Q = 0 := by
  have hb : 1 ≤ b := by omega
  have hP := two_pow_pos lsh
  have hpow : (2 : Int) ^ (b * s) = 2 ^ k * 2 ^ lsh := by rw [hbs, pow_add]
  have h4 : (4 : Int) ≤ 2 ^ b := by
    have := two_pow_le hb2; simpa using this
  cases R with
  | nil => simp at hRl; omega
  | cons top low =>
    have hll : low.length + 1 = s := by simpa using hRl
    have htop := (hbal top (by simp)).abs_le
    have hlow := valI_balanced_bound hb low (fun d hd => hbal d (by simp [hd]))
    simp only [valI] at hq
    set P := (2 : Int) ^ (b * low.length) with hPdef
    have hPpos : 0 < P := two_pow_pos _
    have e1 : (2 : Int) ^ (b * s) = 2 ^ b * P := by
      rw [← hll, hPdef]; exact pow_mul_succ b low.length
    rw [e1] at hq hpow
    have hhalf := half_le_full hb
    by_contra hq0
    have hq1 : 1 ≤ |Q| := by
      have := abs_pos.mpr hq0; omega
    have hqe : Q * (2 ^ b * P) = v * 2 ^ lsh - top * P - valI b low := by linarith
    have habs : |Q| * (2 ^ b * P) ≤ |v| * 2 ^ lsh + |top| * P + |valI b low| := by
      have h1 : |Q * (2 ^ b * P)| = |Q| * (2 ^ b * P) := by
        rw [abs_mul, abs_of_pos (by positivity : (0 : Int) < 2 ^ b * P)]
      rw [← h1, hqe]
      have := abs_sub (v * 2 ^ lsh - top * P) (valI b low)
      have h2 := abs_sub (v * 2 ^ lsh) (top * P)
      rw [abs_mul, abs_mul, abs_of_pos hP, abs_of_pos hPpos] at h2
      linarith
    have hv4 : 4 * (|v| * 2 ^ lsh) < 2 ^ b * P := by
      have : 4 * |v| * 2 ^ lsh < 2 ^ k * 2 ^ lsh := mul_lt_mul_of_pos_right hsmall hP
      rw [hpow]; linarith
    have htP : |top| * P ≤ 2 ^ (b - 1) * P := mul_le_mul_of_nonneg_right htop (le_of_lt hPpos)
    have hone : 2 ^ b * P ≤ |Q| * (2 ^ b * P) := by
      have : (0 : Int) < 2 ^ b * P := by positivity
      nlinarith
    nlinarith

/-- digit decomposition loop of `encode_vec_i128` -/
theorem decompose128_spec {b : Nat} (hb : 1 ≤ b) (hb62 : b ≤ 62) :
    ∀ (m : Nat) (x : Int), |x| ≤ 2 ^ 126 →
      (decompose128 b m x).length = m ∧ (∀ d ∈ decompose128 b m x, Balanced b d) ∧
      ∃ c : Int, valI b (decompose128 b m x) + c * 2 ^ (b * m) = x := by
  intro m
  induction m with
  | zero => intro x _; exact ⟨rfl, by simp [decompose128], x, by simp [decompose128, valI]⟩
  | succ m ih =>
    intro x hx
    have hd := bmod_abs_le hb x
    have hdr := bmod_range hb x
    have h61 : (2 : Int) ^ (b - 1) ≤ 2 ^ 61 := two_pow_le (by omega)
    have hdig : getDigitW 128 b x = bmod b x := getDigitW_eq_bmod hb (by omega) x
    have hcar : getCarryW 128 b x (bmod b x) = bcarry b x := by
      apply getCarryW_eq_bcarry (by norm_num)
      have := abs_sub x (bmod b x)
      have : (2 : Int) ^ 126 + 2 ^ 61 < 2 ^ (128 - 1) := by norm_num
      linarith
    have hcb : |bcarry b x| ≤ 2 ^ 126 := by
      have := bcarry_two_le hb x
      have := abs_nonneg (bcarry b x)
      have : (1 : Int) ≤ 2 ^ 126 := by norm_num
      linarith
    have hw : w64 (bmod b x) = bmod b x := w64_eq_of_abs_lt (by
      have : (2 : Int) ^ 61 < 2 ^ 63 := by norm_num
      linarith)
    obtain ⟨il, ib, c, ic⟩ := ih (bcarry b x) hcb
    simp only [decompose128, hdig, hcar, hw]
    refine ⟨by simp [il], ?_, c, ?_⟩
    · intro d hd'
      rcases List.mem_append.mp hd' with h | h
      · exact ib d h
      · rw [List.mem_singleton.mp h]; exact hdr
    · rw [valI_append, valI_singleton, pow_mul_succ]
      have := bmod_add_bcarry b x
      simp only [List.length_singleton, Nat.mul_one]
      linear_combination (2 ^ b) * ic + this

theorem decompose128_snoc (b m : Nat) (x : Int) :
    decompose128 b (m + 1) x
      = decompose128 b m (getCarryW 128 b x (getDigitW 128 b x)) ++ [w64 (getDigitW 128 b x)] := rfl

/-- **round trip for `encode_vec_i128`** (value `|v| ≤ 2^126`): the three decoders return `v − q·2^k`
reduced to their width; `q = 0` when `4|v| < 2^k`, `b ≥ 2`. -/
theorem encode128_decode_roundtrip {b k aSize : Nat} {H : Int} (hr : HeadRoom 64 b (encLsh b k) H)
    (hH : 2 ^ (b - 1) ≤ H) (hb62 : b ≤ 62) (hk : 1 ≤ k) (hsz : encSize b k ≤ aSize) (v : Int) (hv : |v| ≤ 2 ^ 126) :
    ∃ q : Int,
      decodeCoefI64 b k (encodeCoefI128 b k aSize v) = .ok (wrapN 64 (v - q * 2 ^ k)) ∧
      decodeCoefVec 64 b k (encodeCoefI128 b k aSize v) = .ok (wrapN 64 (v - q * 2 ^ k)) ∧
      decodeCoefVec 128 b k (encodeCoefI128 b k aSize v) = .ok (wrapN 128 (v - q * 2 ^ k)) ∧
      (2 ≤ b → 4 * |v| < 2 ^ k → q = 0) := by
  have hb : 1 ≤ b := by have := hr.hlsh; omega
  have hs1 : 1 ≤ encSize b k := by
    unfold encSize
    exact (Nat.le_div_iff_mul_le (by omega)).mpr (by omega)
  obtain ⟨m, hm⟩ : ∃ m, encSize b k = m + 1 := ⟨encSize b k - 1, by omega⟩
  obtain ⟨dl, db, c, dc⟩ := decompose128_spec hb hb62 (m + 1) v hv
  rw [decompose128_snoc] at dl db dc
  set l0 := decompose128 b m (getCarryW 128 b v (getDigitW 128 b v)) with hl0
  set x := w64 (getDigitW 128 b v) with hx
  have hl0l : l0.length = m := by simpa using dl
  have hlb : ∀ y ∈ l0 ++ [x], |y| ≤ H := fun y hy => by have := (db y hy).abs_le; linarith
  obtain ⟨X, q, hXl, hdig, hbal, hq⟩ := assignRun_digits hr l0 x hlb
  set lsh := encLsh b k with hlsh
  set last := bmod (b - lsh) x * 2 ^ lsh with hlast
  have henc : encodeCoefI128 b k aSize v = (X ++ [last]) ++ List.replicate (aSize - encSize b k) 0 := by
    unfold encodeCoefI128
    simp only
    rw [hm, decompose128_snoc, ← hl0, ← hx, hdig]
  have hbs := encSize_mul_eq (b := b) (k := k) hb
  have hP := two_pow_pos lsh
  have hpow : (2 : Int) ^ (b * encSize b k) = 2 ^ k * 2 ^ lsh := by rw [hbs, pow_add]
  have hsize : encSize b k = X.length + 1 := by rw [hXl, hl0l, hm]
  -- total carry
  set Q := q + c * 2 ^ lsh with hQ
  have hqQ : valI b (X ++ [last]) + Q * 2 ^ (b * encSize b k) = v * 2 ^ lsh := by
    rw [hl0l, ← hm] at hq
    rw [← hm] at dc
    rw [hQ]
    linear_combination hq + (2 ^ lsh) * dc
  have hD : valI b (X ++ [last]) / 2 ^ lsh = v - Q * 2 ^ k := by
    have : valI b (X ++ [last]) = 2 ^ lsh * (v - Q * 2 ^ k) := by rw [hpow] at hqQ; linarith
    rw [this, Int.mul_ediv_cancel_left _ (ne_of_gt hP)]
  have hdvd : (2 : Int) ^ lsh ∣ last := Dvd.intro_left _ rfl
  have hbal0 : Balanced b 0 := by
    have := two_pow_pos (b - 1); exact ⟨by linarith, this⟩
  have hrange : ∀ y ∈ encodeCoefI128 b k aSize v, |y| < 2 ^ 63 := by
    intro y hy
    rw [henc] at hy
    have hyb : Balanced b y := by
      rcases List.mem_append.mp hy with h | h
      · exact hbal y h
      · rw [(List.mem_replicate.mp h).2]; exact hbal0
    have := hyb.abs_le
    have h1 : (2 : Int) ^ (b - 1) ≤ 2 ^ 61 := two_pow_le (by omega)
    have : (2 : Int) ^ 61 < 2 ^ 63 := by norm_num
    linarith
  have htake : (encodeCoefI128 b k aSize v).take (encSize b k) = X ++ [last] := by
    rw [henc, List.take_left' (by simp; omega)]
  have hlen : encSize b k ≤ (encodeCoefI128 b k aSize v).length := by
    rw [henc]; simp; omega
  refine ⟨Q, ?_, ?_, ?_, ?_⟩
  · rw [decodeCoefI64_spec hb hb62 _ X last hsize htake hlen hdvd, hD]
  · rw [decodeCoefVec_spec (Or.inl rfl) hb hb62 hk _ X last hsize htake hlen hdvd hrange, hD]
  · rw [decodeCoefVec_spec (Or.inr rfl) hb hb62 hk _ X last hsize htake hlen hdvd hrange, hD]
  · intro hb2 hsmall
    exact balanced_fits hb2 hbs (X ++ [last]) (by simp; omega) hs1 hbal v Q hqQ hsmall

/-- stripping factors of two preserves `m·2^e` -/
theorem dyadicStrip_spec : ∀ (f : Nat) (m e : Int),
    ∃ t : Nat, (dyadicCanon.strip f m e).2 = e + t ∧ (dyadicCanon.strip f m e).1 * 2 ^ t = m := by
  intro f
  induction f with
  | zero => intro m e; exact ⟨0, by simp [dyadicCanon.strip]⟩
  | succ f ih =>
    intro m e
    by_cases h2 : m % 2 = 0
    · obtain ⟨t, h1, h3⟩ := ih (m / 2) (e + 1)
      refine ⟨t + 1, ?_, ?_⟩
      · simp only [dyadicCanon.strip, h2, if_true, h1]; push_cast; ring
      · simp only [dyadicCanon.strip, h2, if_true]
        rw [pow_succ, ← mul_assoc, h3]
        have := Int.emod_add_mul_ediv m 2
        omega
    · exact ⟨0, by simp [dyadicCanon.strip, h2]⟩

/-- **`decode_vec_float`'s specification**: the pair `(m, e)` returned by the model satisfies
`m · 2^(e + b·size) = valI`, i.e. `m·2^e` is exactly the rational `Σ_j a_j·2^(-b(j+1))`. -/
theorem decodeFloatCoef_exact (b : Nat) (a : List Int) :
    ∃ t : Nat, (decodeFloatCoef b a).2 + (b * a.length : Nat) = t ∧ (decodeFloatCoef b a).1 * 2 ^ t = valI b a := by
  unfold decodeFloatCoef dyadicCanon
  by_cases h0 : valI b a = 0
  · simp only [h0, if_true]
    exact ⟨b * a.length, by simp, by simp⟩
  · simp only [h0, if_false]
    obtain ⟨t, h1, h2⟩ := dyadicStrip_spec ((valI b a).natAbs.log2 + 1) (valI b a) (-((b * a.length : Nat) : Int))
    exact ⟨t, by rw [h1]; ring, h2⟩

end NormL
