import Poulpy.Lemmas.CkksXStep
import Poulpy.Lemmas.CkksKsNumeric
/-!
# C16: rotations / conjugation (in-place form) with `dsize = 1` keys — numeric admissibility

`AutAssignAdm` from digit bounds: for an automorphism key with `dsize = 1` in the evaluator's radix, the accumulator head-room, the gadget
noise and the dropped limbs of C03's hypotheses follow from `‖EL‖∞ ≤ Emax`, key digits within `Kb` and the shape; the error constant is
`autU ≤ colsIn·rows·N·2^(b−1)·Emax + 1 + Σ‖σ_{g⁻¹}(sᵢ)‖₁`.
-/

namespace Ckks
open Hal Core Core.Ops C02L Ckks.Sem Ckks.CoreSem KsDec AutoMul

theorem convIn_same {a : Ks.Ct} {key : Ks.Key} (h : a.base2k = key.base2k) : Ks.convIn a key = .ok a := by
  unfold Ks.convIn; rw [if_neg (by simpa using h)]

theorem convSize_same {a : Ks.Ct} {key : Ks.Key} (h : a.base2k = key.base2k) : convSize a key = a.size := by
  unfold convSize; rw [if_neg (by simpa using h)]

/-- the error constant of an executed automorphism, same radix, result of the operand's size, covered regime, `dsize = 1` -/
theorem autU_le_d1 {N : Nat} {a : GLWE} {key : Ks.Key} {sk : List Poly} {gInv : Int} {EL : ℕ → ℕ → Poly} {rout : Nat} {Gmax : Int}
    (hb : a.base2k = key.base2k) (hd : key.dsize = 1) (hcov : a.size ≤ key.mat.size)
    (hG : gadgetBound N key.base2k (aDftOf a) key EL ≤ Gmax) (hG0 : 0 ≤ Gmax) :
    autU N a.base2k a.size rout a key sk gInv EL
      ≤ (Gmax : ℚ) + ((1 + snorm (min rout (sk.map (σ gInv)).length) (sk.map (σ gInv)) : Int) : ℚ) := by
  rw [autU_eq (convIn_same hb)]
  unfold autBound
  rw [convSize_same hb, KsNum.dropBound_d1 N key.base2k _ _ key hd]
  have ht1 : C02.normTol (key.base2k * a.size) (a.base2k * a.size) = 0 := by
    unfold C02.normTol; rw [if_pos (by rw [hb])]
  rw [ht1]
  set sn' : Int := 1 + snorm (min rout (sk.map (σ gInv)).length) (sk.map (σ gInv)) with hsn
  have hsn0 : 0 ≤ sn' := by
    have : 0 ≤ snorm (min rout (sk.map (σ gInv)).length) (sk.map (σ gInv)) := by
      unfold snorm
      apply List.sum_nonneg
      intro x hx
      obtain ⟨i, _, rfl⟩ := List.mem_map.mp hx
      exact CoreEnc.norm1_nonneg _
    omega
  have htol : C02.normTol (a.base2k * a.size) (key.base2k * key.mat.size) ≤ 2 ^ (key.base2k * key.mat.size) := by
    unfold C02.normTol; split
    · positivity
    · exact le_refl _
  set Pa := a.base2k * a.size with hPa
  set Pk := key.base2k * key.mat.size with hPk
  have hPaPk : Pa ≤ Pk := by rw [hPa, hPk, hb]; exact Nat.mul_le_mul_left _ hcov
  have hnum : (2 : Int) ^ (Pa + key.base2k * (key.mat.size - a.size)) * (sn' * 0) + 2 ^ (Pa + Pa) * gadgetBound N key.base2k (aDftOf a) key EL
      + 2 ^ (Pa + Pa) * 0 + 2 ^ Pa * (sn' * C02.normTol Pa Pk) ≤ (Gmax + sn') * 2 ^ (Pa + Pk) := by
    have h1 : (2 : Int) ^ (Pa + Pa) * gadgetBound N key.base2k (aDftOf a) key EL ≤ 2 ^ (Pa + Pk) * Gmax := by
      calc (2 : Int) ^ (Pa + Pa) * gadgetBound N key.base2k (aDftOf a) key EL ≤ 2 ^ (Pa + Pa) * Gmax :=
            mul_le_mul_of_nonneg_left hG (by positivity)
        _ ≤ 2 ^ (Pa + Pk) * Gmax := mul_le_mul_of_nonneg_right (pow_le_pow_right₀ (by norm_num) (by omega)) hG0
    have h2 : (2 : Int) ^ Pa * (sn' * C02.normTol Pa Pk) ≤ 2 ^ (Pa + Pk) * sn' := by
      calc (2 : Int) ^ Pa * (sn' * C02.normTol Pa Pk) ≤ 2 ^ Pa * (sn' * 2 ^ Pk) :=
            mul_le_mul_of_nonneg_left (mul_le_mul_of_nonneg_left htol hsn0) (by positivity)
        _ = 2 ^ (Pa + Pk) * sn' := by rw [pow_add]; ring
    linarith
  have hpos : (0 : ℚ) < 2 ^ (Pa + Pk) := by positivity
  rw [div_le_iff₀ hpos]
  have := hnum
  have hcast : (((2 : Int) ^ (Pa + key.base2k * (key.mat.size - a.size)) * (sn' * 0) + 2 ^ (Pa + Pa) * gadgetBound N key.base2k (aDftOf a) key EL
      + 2 ^ (Pa + Pa) * 0 + 2 ^ Pa * (sn' * C02.normTol Pa Pk) : Int) : ℚ) ≤ (((Gmax + sn') * 2 ^ (Pa + Pk) : Int) : ℚ) := by
    exact_mod_cast this
  push_cast at hcast ⊢
  linarith

theorem aDft_act_bound {N : Nat} {a : Ks.Ct} (ha : GWF N a) {A : Int} (hA : ∀ c ∈ a.cols, ∀ l ∈ c, ∀ x ∈ l, |x| ≤ A) :
    ∀ i, ∀ l ∈ (aDftOf a).act i, ∀ x ∈ l, |x| ≤ A := by
  obtain ⟨hwf, dcols, _, _, dact, _⟩ := aDft_spec a ha
  intro i l hl x hx
  by_cases hi : i < a.rank
  · rw [dact i hi] at hl
    exact hA _ (col_mem _ (by rw [ha.len]; omega)) l hl x hx
  · exfalso
    have : (aDftOf a).act i = [] := by
      unfold Buf.act
      rw [List.getD_eq_getElem?_getD, List.getElem?_eq_none (by rw [hwf.1, dcols]; omega)]
      simp
    rw [this] at hl; cases hl

/-- **`AutAssignAdm` from numeric shape conditions, automorphism keys with `dsize = 1`** -/
theorem autAssignAdm_numeric {env : Env} (he : EnvOK env) {N r : Nat} {big : Bool} {c : DCt} (hc : DOK env N r c) {key : Ks.Key}
    {s : List Poly} {gInv : Int} {EL KL : ℕ → ℕ → Poly} {Kb Emax : Int}
    (hkb : key.base2k = env.base2k) (hd : key.dsize = 1) (hg : GalOk key.p N) (hsk : Ks.AllLen N s)
    (hinv : ∀ p ∈ s, σ key.p (σ gInv p) = p) (hrank : c.g.rank = key.rankIn) (hrout : c.g.rank = key.rankOut)
    (hc0 : 0 < key.mat.colsOut) (hM : ∀ j q, (key.mat.entry j q).length = N) (hS : key.mat.rows ≤ key.mat.size)
    (hs : key.mat.colsIn ≤ s.length) (hEL : ∀ i r, (EL i r).length = N) (hKL : ∀ i r, (KL i r).length = N)
    (hkey : ∀ i, i < key.mat.colsIn → ∀ r, r < key.mat.rows →
      Gadget.val (Ks.radix N key.base2k) key.mat.size (Ks.keyPhase N (s.map (σ gInv)) key.mat i r) =
        Ks.ι N (s.getD i []) * Ks.radix N key.base2k ^ (key.mat.size - (r + 1) * key.dsize) + Ks.ι N (EL i r)
          + Ks.radix N key.base2k ^ key.mat.size * Ks.ι N (KL i r))
    (hcov1 : c.g.size ≤ key.mat.size) (hcov2 : c.g.size ≤ key.mat.rows)
    (hK0 : 0 ≤ Kb) (hK : ∀ j q, ∀ x ∈ key.mat.entry j q, |x| ≤ Kb) (hE0 : 0 ≤ Emax) (hE : ∀ i r, Hal.normInf (EL i r) ≤ Emax)
    (hroom : ((key.mat.colsIn * key.mat.rows : Nat) : Int) * (N * 2 ^ (env.base2k - 1) * Kb) + (2 ^ (env.base2k - 1) + 2 ^ env.base2k) + 8
      ≤ 2 ^ (bitsOf big - 2)) :
    AutAssignAdm env N big s
      (((key.mat.colsIn * (key.mat.rows * (N * 2 ^ (env.base2k - 1) * Emax)) : Int) : ℚ)
        + ((1 + snorm (min c.g.rank (s.map (σ gInv)).length) (s.map (σ gInv)) : Int) : ℚ)) key c := by
  have hb : c.g.base2k = key.base2k := by rw [hc.bk, hkb]
  have hhalf0 : (0 : Int) ≤ 2 ^ (env.base2k - 1) := by positivity
  have hcols : ∀ col ∈ c.g.cols, ∀ l ∈ col, ∀ x ∈ l, |x| ≤ 2 ^ (env.base2k - 1) := hc.nb
  obtain ⟨_, _, _, _, _, dA⟩ := aDft_spec c.g hc.wf
  have hG := KsNum.gadgetBound_d1 N key.base2k (aDftOf c.g) key hd EL (2 ^ (env.base2k - 1)) Emax hhalf0 hE0 dA
    (aDft_act_bound hc.wf hcols) hE
  have hG0 : (0 : Int) ≤ key.mat.colsIn * (key.mat.rows * (N * 2 ^ (env.base2k - 1) * Emax)) := by positivity
  refine ⟨hkb, gInv, EL, KL, 2 ^ (env.base2k - 1), ((key.mat.colsIn * key.mat.rows : Nat) : Int) * (N * 2 ^ (env.base2k - 1) * Kb), ?_, ?_⟩
  · refine ⟨hg, hsk, hinv, hrank, hrout, hc0, by omega, hM, by rw [hd]; omega, by rw [hkb]; exact he.lo, by rw [hkb]; have := he.hi; omega,
      hhalf0, ?_, hcols, by positivity, by rw [hkb]; exact hroom, ?_, hs, hEL, hKL, hkey, ?_, ?_⟩
    · have : (2 : Int) ^ (env.base2k - 1) ≤ 2 ^ 60 := pow_le_pow_right₀ (by norm_num) (by have := he.hi; omega)
      norm_num at this ⊢; omega
    · intro aConv hconv i hi
      rw [convIn_same hb] at hconv
      injection hconv with hconv
      subst hconv
      exact KsNum.prodOf_bound_d1 N c.g.rank c.g key hd hc.wf (2 ^ (env.base2k - 1)) Kb hhalf0 hK0 hcols hK i hi
    · rw [convSize_same hb]; exact hcov1
    · rw [convSize_same hb, hd]; omega
  · have := autU_le_d1 (N := N) (a := c.g) (key := key) (sk := s) (gInv := gInv) (EL := EL) (rout := c.g.rank) hb hd hcov1 hG hG0
    exact_mod_cast this

/-- the error constant of an executed automorphism into `sout` limbs of the operand's radix, covered regime, `dsize = 1` -/
theorem autU_le_d1' {N : Nat} {a : GLWE} {key : Ks.Key} {sk : List Poly} {gInv : Int} {EL : ℕ → ℕ → Poly} {sout rout : Nat} {Gmax : Int}
    (hb : a.base2k = key.base2k) (hd : key.dsize = 1) (hcov : a.size ≤ key.mat.size)
    (hG : gadgetBound N key.base2k (aDftOf a) key EL ≤ Gmax) (hG0 : 0 ≤ Gmax) :
    autU N a.base2k sout rout a key sk gInv EL
      ≤ ((Gmax * 2 ^ (key.base2k * (sout - key.mat.size)) : Int) : ℚ)
        + ((1 + snorm (min rout (sk.map (σ gInv)).length) (sk.map (σ gInv)) : Int) : ℚ) := by
  rw [autU_eq (convIn_same hb)]
  unfold autBound
  rw [convSize_same hb, KsNum.dropBound_d1 N key.base2k _ _ key hd]
  have ht1 : C02.normTol (key.base2k * a.size) (a.base2k * a.size) = 0 := by
    unfold C02.normTol; rw [if_pos (by rw [hb])]
  rw [ht1]
  set sn' : Int := 1 + snorm (min rout (sk.map (σ gInv)).length) (sk.map (σ gInv)) with hsn
  have hsn0 : 0 ≤ sn' := by
    have : 0 ≤ snorm (min rout (sk.map (σ gInv)).length) (sk.map (σ gInv)) := by
      unfold snorm
      apply List.sum_nonneg
      intro x hx
      obtain ⟨i, _, rfl⟩ := List.mem_map.mp hx
      exact CoreEnc.norm1_nonneg _
    omega
  set Pa := a.base2k * a.size with hPa
  set Pk := key.base2k * key.mat.size with hPk
  set Pr := a.base2k * sout with hPr
  set J := key.base2k * (sout - key.mat.size) with hJ
  have htol : C02.normTol Pr Pk ≤ 2 ^ Pk := by
    unfold C02.normTol; split
    · positivity
    · exact le_refl _
  have hPrJ : Pr ≤ Pk + J := by
    rw [hPr, hPk, hJ, hb, ← Nat.mul_add]; exact Nat.mul_le_mul_left _ (by omega)
  have hnum : (2 : Int) ^ (Pr + key.base2k * (key.mat.size - a.size)) * (sn' * 0) + 2 ^ (Pa + Pr) * gadgetBound N key.base2k (aDftOf a) key EL
      + 2 ^ (Pa + Pr) * 0 + 2 ^ Pa * (sn' * C02.normTol Pr Pk) ≤ (Gmax * 2 ^ J + sn') * 2 ^ (Pa + Pk) := by
    have h1 : (2 : Int) ^ (Pa + Pr) * gadgetBound N key.base2k (aDftOf a) key EL ≤ 2 ^ (Pa + Pk) * (Gmax * 2 ^ J) := by
      calc (2 : Int) ^ (Pa + Pr) * gadgetBound N key.base2k (aDftOf a) key EL ≤ 2 ^ (Pa + Pr) * Gmax :=
            mul_le_mul_of_nonneg_left hG (by positivity)
        _ ≤ 2 ^ (Pa + (Pk + J)) * Gmax := mul_le_mul_of_nonneg_right (pow_le_pow_right₀ (by norm_num) (by omega)) hG0
        _ = 2 ^ (Pa + Pk) * (Gmax * 2 ^ J) := by rw [← Nat.add_assoc, pow_add (2 : Int) (Pa + Pk) J]; ring
    have h2 : (2 : Int) ^ Pa * (sn' * C02.normTol Pr Pk) ≤ 2 ^ (Pa + Pk) * sn' := by
      calc (2 : Int) ^ Pa * (sn' * C02.normTol Pr Pk) ≤ 2 ^ Pa * (sn' * 2 ^ Pk) :=
            mul_le_mul_of_nonneg_left (mul_le_mul_of_nonneg_left htol hsn0) (by positivity)
        _ = 2 ^ (Pa + Pk) * sn' := by rw [pow_add]; ring
    linarith
  have hpos : (0 : ℚ) < 2 ^ (Pa + Pk) := by positivity
  rw [div_le_iff₀ hpos]
  have hcast : (((2 : Int) ^ (Pr + key.base2k * (key.mat.size - a.size)) * (sn' * 0) + 2 ^ (Pa + Pr) * gadgetBound N key.base2k (aDftOf a) key EL
      + 2 ^ (Pa + Pr) * 0 + 2 ^ Pa * (sn' * C02.normTol Pr Pk) : Int) : ℚ) ≤ (((Gmax * 2 ^ J + sn') * 2 ^ (Pa + Pk) : Int) : ℚ) := by
    exact_mod_cast hnum
  push_cast at hcast ⊢
  linarith

/-- the numeric hypotheses on an automorphism key with `dsize = 1` in the evaluator's radix (everything but the operand) -/
structure AutKeyNum (env : Env) (N r : Nat) (big : Bool) (key : Ks.Key) (s : List Poly) (gInv : Int) (EL KL : ℕ → ℕ → Poly)
    (Kb Emax : Int) : Prop where
  hkb : key.base2k = env.base2k
  hd : key.dsize = 1
  hg : GalOk key.p N
  hsk : Ks.AllLen N s
  hinv : ∀ p ∈ s, σ key.p (σ gInv p) = p
  hrin : key.rankIn = r
  hrout : key.rankOut = r
  hc0 : 0 < key.mat.colsOut
  hM : ∀ j q, (key.mat.entry j q).length = N
  hS : key.mat.rows ≤ key.mat.size
  hs : key.mat.colsIn ≤ s.length
  hEL : ∀ i r, (EL i r).length = N
  hKL : ∀ i r, (KL i r).length = N
  hkey : ∀ i, i < key.mat.colsIn → ∀ r, r < key.mat.rows →
    Gadget.val (Ks.radix N key.base2k) key.mat.size (Ks.keyPhase N (s.map (σ gInv)) key.mat i r) =
      Ks.ι N (s.getD i []) * Ks.radix N key.base2k ^ (key.mat.size - (r + 1) * key.dsize) + Ks.ι N (EL i r)
        + Ks.radix N key.base2k ^ key.mat.size * Ks.ι N (KL i r)
  hK0 : 0 ≤ Kb
  hK : ∀ j q, ∀ x ∈ key.mat.entry j q, |x| ≤ Kb
  hE0 : 0 ≤ Emax
  hE : ∀ i r, Hal.normInf (EL i r) ≤ Emax
  hroom : ((key.mat.colsIn * key.mat.rows : Nat) : Int) * (N * 2 ^ (env.base2k - 1) * Kb) + (2 ^ (env.base2k - 1) + 2 ^ env.base2k) + 8
    ≤ 2 ^ (bitsOf big - 2)

/-- C03's hypotheses for one operand `x` of balanced digits, from the numeric key hypotheses -/
theorem autAdm_numeric {env : Env} (he : EnvOK env) {N r : Nat} {big : Bool} {key : Ks.Key} {s : List Poly} {gInv : Int}
    {EL KL : ℕ → ℕ → Poly} {Kb Emax : Int} (hk : AutKeyNum env N r big key s gInv EL KL Kb Emax) {x : GLWE}
    (hx : GB N env.base2k r (half env.base2k) x) (hcov1 : x.size ≤ key.mat.size) (hcov2 : x.size ≤ key.mat.rows) :
    AutAdm big N x key s gInv EL KL (2 ^ (env.base2k - 1))
        (((key.mat.colsIn * key.mat.rows : Nat) : Int) * (N * 2 ^ (env.base2k - 1) * Kb)) r ∧
      gadgetBound N key.base2k (aDftOf x) key EL ≤ key.mat.colsIn * (key.mat.rows * (N * 2 ^ (env.base2k - 1) * Emax)) := by
  have hb : x.base2k = key.base2k := by rw [hx.bk, hk.hkb]
  have hhalf0 : (0 : Int) ≤ 2 ^ (env.base2k - 1) := by positivity
  have hcols : ∀ col ∈ x.cols, ∀ l ∈ col, ∀ v ∈ l, |v| ≤ 2 ^ (env.base2k - 1) := hx.nb
  obtain ⟨_, _, _, _, _, dA⟩ := aDft_spec x hx.wf
  have hG := KsNum.gadgetBound_d1 N key.base2k (aDftOf x) key hk.hd EL (2 ^ (env.base2k - 1)) Emax hhalf0 hk.hE0 dA
    (aDft_act_bound hx.wf hcols) hk.hE
  refine ⟨⟨hk.hg, hk.hsk, hk.hinv, by rw [hx.rk, hk.hrin], hk.hrout.symm, hk.hc0, by rw [hk.hd], hk.hM, by rw [hk.hd]; have := hk.hS; omega,
      by rw [hk.hkb]; exact he.lo, by rw [hk.hkb]; have := he.hi; omega,
      hhalf0, ?_, hcols, by have := hk.hK0; positivity, by rw [hk.hkb]; exact hk.hroom, ?_, hk.hs, hk.hEL, hk.hKL, hk.hkey, ?_, ?_⟩, hG⟩
  · have : (2 : Int) ^ (env.base2k - 1) ≤ 2 ^ 60 := pow_le_pow_right₀ (by norm_num) (by have := he.hi; omega)
    norm_num at this ⊢; omega
  · intro aConv hconv i hi
    rw [convIn_same hb] at hconv
    injection hconv with hconv
    subst hconv
    exact KsNum.prodOf_bound_d1 N r x key hk.hd hx.wf (2 ^ (env.base2k - 1)) Kb hhalf0 hk.hK0 hcols hk.hK i hi
  · rw [convSize_same hb]; exact hcov1
  · rw [convSize_same hb, hk.hd]; omega

/-- **`AutIntoAdm` from numeric shape conditions, automorphism keys with `dsize = 1`** (out-of-place rotations / conjugation) -/
theorem autIntoAdm_numeric {env : Env} (he : EnvOK env) {N r : Nat} {big : Bool} {dst a : DCt} (hd : DOK env N r dst) (ha : DOK env N r a)
    {m : Ct} (hm : shiftInto env dst.ct a.ct 0 = .ok m) {key : Ks.Key} {s : List Poly} {gInv : Int} {EL KL : ℕ → ℕ → Poly} {Kb Emax : Int}
    (hk : AutKeyNum env N r big key s gInv EL KL Kb Emax)
    (hcA1 : a.g.size ≤ key.mat.size) (hcA2 : a.g.size ≤ key.mat.rows) (hcD1 : dst.g.size ≤ key.mat.size) (hcD2 : dst.g.size ≤ key.mat.rows) :
    AutIntoAdm env N big s
      ((((key.mat.colsIn * (key.mat.rows * (N * 2 ^ (env.base2k - 1) * Emax))) * 2 ^ (key.base2k * (dst.g.size - key.mat.size)) : Int) : ℚ)
        + ((1 + snorm (min r (s.map (σ gInv)).length) (s.map (σ gInv)) : Int) : ℚ)) key dst a := by
  have hG0 : (0 : Int) ≤ key.mat.colsIn * (key.mat.rows * (N * 2 ^ (env.base2k - 1) * Emax)) := by have := hk.hE0; positivity
  refine ⟨hk.hkb, gInv, EL, KL, 2 ^ (env.base2k - 1), ((key.mat.colsIn * key.mat.rows : Nat) : Int) * (N * 2 ^ (env.base2k - 1) * Kb), ?_, ?_⟩
  · intro _
    obtain ⟨hadm, hG⟩ := autAdm_numeric he hk ha hcA1 hcA2
    refine ⟨by rw [hd.rk]; exact hadm, ?_⟩
    have hb : a.g.base2k = key.base2k := by rw [ha.bk, hk.hkb]
    have := autU_le_d1' (N := N) (a := a.g) (key := key) (sk := s) (gInv := gInv) (EL := EL) (sout := dst.g.size) (rout := dst.g.rank)
      hb hk.hd hcA1 hG hG0
    have e : dst.g.base2k = a.g.base2k := by rw [hd.bk, ha.bk]
    rw [e, hd.rk]
    rw [hd.rk] at this
    exact_mod_cast this
  · intro g1 hg1
    obtain ⟨g1', e1, hgb1, sz1, _⟩ := lsh_step he.lo he.hi hd ha.full (unaryShift env dst.ct a.ct 0) m.md.logBudget a.md.logBudget 0
      (by simpa [DCt.ct] using unaryShift_spec env dst.ct a.ct m hm 0)
    have : g1 = g1' := by
      have := hg1.symm.trans e1
      injection this
    subst this
    obtain ⟨hadm, hG⟩ := autAdm_numeric he hk hgb1 (by rw [sz1]; exact hcD1) (by rw [sz1]; exact hcD2)
    refine ⟨by rw [hgb1.rk]; exact hadm, ?_⟩
    have hb : g1.base2k = key.base2k := by rw [hgb1.bk, hk.hkb]
    have := autU_le_d1' (N := N) (a := g1) (key := key) (sk := s) (gInv := gInv) (EL := EL) (sout := g1.size) (rout := g1.rank)
      hb hk.hd (by rw [sz1]; exact hcD1) hG hG0
    rw [hgb1.rk, sz1] at this ⊢
    exact_mod_cast this

end Ckks
