import Poulpy.Lemmas.Scratch
import Poulpy.Model.ScratchOps
import Mathlib.Tactic.Ring
/-
Helper lemmas for the per-operation theorems of Props/C12.lean:
* byte sizes of layouts are multiples of 64 when `8 ∣ n`;
* `reqA` / `aligned` / `fits` of the tree combinators (`loop`, `altList`, `leaf`);
* monotonicity of the HAL formulas.
-/

namespace Scratch

/-! ### multiples of 64 -/

theorem mod64_mul8 {n : Nat} (h : n % 8 = 0) (c : Nat) : (n * c * 8) % 64 = 0 := by
  obtain ⟨m, rfl⟩ := Nat.dvd_of_mod_eq_zero h
  have : 8 * m * c * 8 = 64 * (m * c) := by ring
  rw [this]; exact Nat.mul_mod_right 64 _

theorem vec_mod64 {n : Nat} (h : n % 8 = 0) (c s : Nat) : vecBytes n c s % 64 = 0 := by
  unfold vecBytes
  have := mod64_mul8 h (c * s)
  rwa [← Nat.mul_assoc] at this

theorem scalar_mod64 {n : Nat} (h : n % 8 = 0) (c : Nat) : scalarBytes n c % 64 = 0 := by
  unfold scalarBytes; exact mod64_mul8 h c

theorem gbytes_mod64 {n : Nat} (h : n % 8 = 0) (g : G) : g.bytes n % 64 = 0 := vec_mod64 h _ _

theorem dft_mod64 (be : BE) {n : Nat} (h : n % 8 = 0) (c s : Nat) : dftBytes be n c s % 64 = 0 := by
  unfold dftBytes
  obtain ⟨m, rfl⟩ := Nat.dvd_of_mod_eq_zero h
  cases be
  · have : 8 * m * c * s * BE.prep .fft64 = 64 * (m * c * s) := by simp only [BE.prep]; ring
    rw [this]; exact Nat.mul_mod_right 64 _
  · have : 8 * m * c * s * BE.prep .ntt120 = 64 * (m * c * s * 4) := by simp only [BE.prep]; ring
    rw [this]; exact Nat.mul_mod_right 64 _

theorem big_mod64 (be : BE) {n : Nat} (h : n % 8 = 0) (c s : Nat) : bigBytes be n c s % 64 = 0 := by
  unfold bigBytes
  obtain ⟨m, rfl⟩ := Nat.dvd_of_mod_eq_zero h
  cases be
  · have : 8 * m * c * s * BE.big .fft64 = 64 * (m * c * s) := by simp only [BE.big]; ring
    rw [this]; exact Nat.mul_mod_right 64 _
  · have : 8 * m * c * s * BE.big .ntt120 = 64 * (m * c * s * 2) := by simp only [BE.big]; ring
    rw [this]; exact Nat.mul_mod_right 64 _

theorem svp_mod64 (be : BE) {n : Nat} (h : n % 8 = 0) (c : Nat) : svpBytes be n c % 64 = 0 := by
  unfold svpBytes
  obtain ⟨m, rfl⟩ := Nat.dvd_of_mod_eq_zero h
  cases be
  · have : 8 * m * c * BE.prep .fft64 = 64 * (m * c) := by simp only [BE.prep]; ring
    rw [this]; exact Nat.mul_mod_right 64 _
  · have : 8 * m * c * BE.prep .ntt120 = 64 * (m * c * 4) := by simp only [BE.prep]; ring
    rw [this]; exact Nat.mul_mod_right 64 _

theorem norm_mod64 {n : Nat} (h : n % 8 = 0) : normTmp n % 64 = 0 := by unfold normTmp; omega
theorem bignorm_mod64 (be : BE) {n : Nat} (h : n % 8 = 0) : bigNormTmp be n % 64 = 0 := by
  unfold bigNormTmp; cases be <;> simp only [BE.big] <;> omega
theorem vmpTmp_mod64 (a r c : Nat) : vmpTmp a r c % 64 = 0 := by
  unfold vmpTmp
  have : (16 + 8 * min a r * c) * 8 = 64 * (2 + min a r * c) := by ring
  rw [this]; exact Nat.mul_mod_right 64 _

/-! ### combinators -/

@[simp] theorem reqA_leaf (b : Nat) : reqA (leaf b) = b := by simp [leaf, reqA]
@[simp] theorem aligned_leaf (b : Nat) : aligned (leaf b) = true := by simp [leaf, aligned, reqA]
@[simp] theorem fits_leaf (b : Nat) : fits (leaf b) = true := by simp [leaf, fits]

theorem reqA_loop_le (c : Nat) (t : AllocTree) : reqA (loop c t) ≤ reqA t := by
  unfold loop; split <;> simp [reqA]
theorem aligned_loop (c : Nat) (t : AllocTree) (h : aligned t = true) : aligned (loop c t) = true := by
  unfold loop; split <;> simp [aligned, h]
theorem fits_loop (c : Nat) (t : AllocTree) (h : fits t = true) : fits (loop c t) = true := by
  unfold loop; split <;> simp [fits, h]

theorem reqA_altList_le (B : Nat) : ∀ ts : List AllocTree, (∀ t ∈ ts, reqA t ≤ B) → reqA (altList ts) ≤ B := by
  intro ts
  induction ts with
  | nil => intro _; simp [altList, reqA]
  | cons t ts ih =>
    intro h
    cases ts with
    | nil => simpa [altList] using h t (List.mem_cons_self)
    | cons u us =>
      simp only [altList, reqA]
      have h1 := h t (List.mem_cons_self)
      have h2 := ih (fun x hx => h x (List.mem_cons_of_mem _ hx))
      omega

theorem aligned_altList : ∀ ts : List AllocTree, (∀ t ∈ ts, aligned t = true) → aligned (altList ts) = true := by
  intro ts
  induction ts with
  | nil => intro _; simp [altList, aligned]
  | cons t ts ih =>
    intro h
    cases ts with
    | nil => simpa [altList] using h t (List.mem_cons_self)
    | cons u us =>
      simp only [altList, aligned, Bool.and_eq_true]
      exact ⟨h t (List.mem_cons_self), ih (fun x hx => h x (List.mem_cons_of_mem _ hx))⟩

theorem fits_altList : ∀ ts : List AllocTree, (∀ t ∈ ts, fits t = true) → fits (altList ts) = true := by
  intro ts
  induction ts with
  | nil => intro _; simp [altList, fits]
  | cons t ts ih =>
    intro h
    cases ts with
    | nil => simpa [altList] using h t (List.mem_cons_self)
    | cons u us =>
      simp only [altList, fits, Bool.and_eq_true]
      exact ⟨h t (List.mem_cons_self), ih (fun x hx => h x (List.mem_cons_of_mem _ hx))⟩

/-! ### monotonicity of the HAL formulas -/

theorem vmpTmp_mono {a a' : Nat} (r c : Nat) (h : a ≤ a') : vmpTmp a r c ≤ vmpTmp a' r c := by
  unfold vmpTmp
  have h1 : min a r ≤ min a' r := by omega
  have h2 : 8 * min a r * c ≤ 8 * min a' r * c := Nat.mul_le_mul_right c (Nat.mul_le_mul_left 8 h1)
  omega

theorem vmpTmp_min_rows (a r c : Nat) : vmpTmp (min a r) r c = vmpTmp a r c := by
  unfold vmpTmp
  have : min (min a r) r = min a r := by omega
  rw [this]

theorem div_le_ceilDiv {a d di : Nat} (hd : di < d) : (a + di) / d ≤ ceilDiv a d := by
  unfold ceilDiv
  exact Nat.div_le_div_right (by omega)

theorem dftBytes_mono (be : BE) (n c : Nat) {s s' : Nat} (h : s ≤ s') : dftBytes be n c s ≤ dftBytes be n c s' := by
  unfold dftBytes
  exact Nat.mul_le_mul_right _ (Nat.mul_le_mul_left _ h)

end Scratch
