import Poulpy.Model.HalSpec
import Poulpy.Lemmas.EpAlgebra

/-! List algebra used by the row-expansion identity (core Lean only). -/

namespace Hal

theorem polySub_eq_add_scale (x y : Poly) : polySub x y = polyAdd x (polyScale (-1) y) := by
  unfold polySub polyAdd polyScale
  rw [List.zipWith_map_right]
  congr 1
  funext a b
  omega

theorem polySub_length (x y : Poly) : (polySub x y).length = min x.length y.length := by simp [polySub]

theorem negMul_sub_right (a x y : Poly) (h : x.length = y.length) :
    negMul a (polySub x y) = polySub (negMul a x) (negMul a y) := by
  rw [polySub_eq_add_scale, negMul_add_right _ _ _ (by rw [polyScale_length, h]), ep_negMul_scale_right,
    ← polySub_eq_add_scale]

/-- `(x + z) + (y − x) = y + z` on lists of equal length -/
theorem add_sub_regroup (x z y : Poly) (h1 : z.length = x.length) (h2 : y.length = x.length) :
    polyAdd (polyAdd x z) (polySub y x) = polyAdd y z := by
  unfold polyAdd polySub
  apply List.ext_getElem
  · simp [h1, h2]
  · intro t ht1 ht2
    simp only [List.getElem_zipWith]
    omega

/-- `b − ((b − a) + z) = a − z` on lists of equal length -/
theorem sub_add_sub_regroup (a b z : Poly) (h1 : a.length = b.length) (h2 : z.length = b.length) :
    polySub b (polyAdd (polySub b a) z) = polySub a z := by
  unfold polyAdd polySub
  apply List.ext_getElem
  · simp [h1, h2]
  · intro t ht1 ht2
    simp only [List.getElem_zipWith]
    omega

end Hal
