/-
Helper lemmas for C08: the cross-radix `vec_znx_normalize`, part 5 — every offset.
`crossCore` is the part of `normalizeCrossCoef` after the clamps; the three offset classes are
(P) `limbs_offset ≥ 0`, (N1) `limbs_offset < 0` with the shifted input entirely below the result (no
overlapping limb: only the carry is propagated), (N2) `limbs_offset < 0` with overlap.
-/
import Poulpy.Lemmas.NormCross4

namespace NormL

/-- `S = ⌈X/n⌉` and `t = (N·n − X) mod n`: `S·n = X + t` -/
theorem ceil_facts (n N X : Nat) (hn : 1 ≤ n) (hX1 : 1 ≤ X) (hXN : X ≤ N * n) :
    1 ≤ (X + n - 1) / n ∧ (X + n - 1) / n ≤ N ∧ (X + n - 1) / n * n = X + (N * n - X) % n ∧
    n * (N - (X + n - 1) / n) + (N * n - X) % n = N * n - X ∧ (N * n - X) % n < n := by
  have hdm := Nat.div_add_mod (N * n - X) n
  have hml := Nat.mod_lt (N * n - X) (show n > 0 by omega)
  generalize hv : N * n - X = v at hdm hml ⊢
  generalize hy : v / n = y at hdm
  generalize ht : v % n = t at hdm hml ⊢
  have hyN : y ≤ N := by
    have : n * y ≤ N * n := by omega
    have : y * n ≤ N * n := by rwa [Nat.mul_comm] at this
    exact Nat.le_of_mul_le_mul_right this (by omega)
  have e1 : (N - y) * n = N * n - y * n := Nat.sub_mul _ _ _
  have e2 : n * y = y * n := Nat.mul_comm _ _
  have hNy : 1 ≤ N - y := by
    by_contra hne
    have : N - y = 0 := by omega
    rw [this] at e1; omega
  have hS : (X + n - 1) / n = N - y := by
    by_cases ht0 : t = 0
    · have hXe : X = (N - y) * n + 0 := by omega
      rw [hXe]; have := ceil_div_mul_add n (N - y) 0 hn (by omega); simpa using this
    · have hXe : X = (N - y - 1) * n + (n - t) := by
        have e3 : (N - y - 1) * n = (N - y) * n - n := by rw [Nat.sub_mul, Nat.one_mul]
        have e4 : n ≤ (N - y) * n := Nat.le_mul_of_pos_left n hNy
        omega
      rw [hXe]
      have := ceil_div_mul_add n (N - y - 1) (n - t) hn (by omega)
      rw [this, if_neg (by omega)]; omega
  generalize (X + n - 1) / n = S at hS ⊢
  subst hS
  refine ⟨hNy, by omega, by omega, ?_, hml⟩
  have : N - (N - y) = y := by omega
  rw [this]; omega

/-- `⌈(L·n + x)/n⌉ = L + ⌈x/n⌉` -/
theorem ceil_add_mul (n L x : Nat) (hn : 1 ≤ n) : (L * n + x + n - 1) / n = L + (x + n - 1) / n := by
  have : L * n + x + n - 1 = (x + n - 1) + L * n := by omega
  rw [this, Nat.add_mul_div_right _ _ (by omega)]; omega

/-- the part of `normalizeCrossCoef` after the clamps -/
def crossCore (bits ab rb rs lsh : Nat) (a : List Int) (aStart aEnd take pad resStart resEnd : Nat)
    (aCarry0 : Int) : Option (List Int) :=
  let st := (List.range (aStart - aEnd)).foldl (crossOuterBody bits ab rb lsh a aStart take pad)
    (crossSt0 rb rs resStart ab aCarry0)
  if st.stuck then none
  else if resEnd ≠ 0 then
    let c := if aStart = aEnd then st.aCarry else st.resCarry
    some ((finalTopRun bits rb 0 (st.res.take resEnd) c).map w64 ++ st.res.drop resEnd)
  else some st.res

theorem normalizeCrossCoef_core (bits rb rs : Nat) (off : Int) (ab : Nat) (a : List Int) :
    normalizeCrossCoef bits rb rs off ab a =
      (let lsh := (splitOffset ab off).1
       let lo := (splitOffset ab off).2
       let aTot := a.length * ab
       let resTot := rs * rb
       let resEndBit := clampNat (-lo * ab) resTot
       let resStartBit := clampNat ((aTot : Int) - lo * ab) resTot
       let aEndBit := clampNat (lo * ab) aTot
       let aStartBit := clampNat ((resTot : Int) + lo * ab) aTot
       let aStart := (aStartBit + ab - 1) / ab
       if (resStartBit + rb - 1) / rb = 0 then some (List.replicate rs 0)
       else
         let aCarryD := (carryOnlyRun bits ab lsh (a.drop aStart)).getD 0
         let gapBits := Int.toNat (-lo * ab - resTot)
         let aCarry0 :=
           if gapBits ≠ 0 then
             (if gapBits < bits then (if bits = 64 then mulPow2NegRef aCarryD gapBits else mulPow2Neg128 aCarryD gapBits) else 0)
           else aCarryD
         crossCore bits ab rb rs lsh a aStart (aEndBit / ab) ((aTot - aStartBit) % ab) ((resTot - resStartBit) % rb)
           ((resStartBit + rb - 1) / rb) (resEndBit / rb) aCarry0) := rfl

end NormL

namespace NormL

section
variable {bits ab rb rs lsh : Nat} {H : Int} {a : List Int}

/-- the discarded low limbs `a[aStart..]`: their carry `cD` and the dropped digits `dD` -/
theorem cross_discard (c : CrossCtx bits ab rb rs lsh H a) (aStart : Nat) (haS : aStart ≤ a.length) :
    |(carryOnlyRun bits ab lsh (a.drop aStart)).getD 0| ≤ H + 3 ∧
    ∃ dD : Int, |dD| < 2 ^ (ab * (a.length - aStart)) ∧ (aStart = a.length → dD = 0) ∧
      valI ab a * 2 ^ lsh
        = crossTop ab lsh a aStart ((carryOnlyRun bits ab lsh (a.drop aStart)).getD 0) * 2 ^ (ab * (a.length - aStart)) + dD := by
  have hab1 : 1 ≤ ab := by have := c.hlsh; omega
  have hr := c.headRoomH
  have hDb : ∀ x ∈ a.drop aStart, |x| ≤ H := fun x hx => c.ha x (List.mem_of_mem_drop hx)
  have h0 : |(0 : Int)| ≤ H + 3 := by have := c.hH0; simp; linarith
  obtain ⟨dv, dl, db, dc⟩ := middleRun_spec hr (a.drop aStart) hDb 0 h0
  rw [← carryOnlyRun_getD hr _ hDb] at dv dc
  have hdD := valI_balanced_bound hab1 _ db
  have hDl : (a.drop aStart).length = a.length - aStart := by simp
  rw [dl, hDl] at hdD
  rw [hDl] at dv
  refine ⟨dc, valI ab (middleRun bits ab lsh (a.drop aStart) 0).1, hdD, ?_, ?_⟩
  · intro h; subst h; simp [middleRun, valI]
  · have e : a = a.take aStart ++ a.drop aStart := (List.take_append_drop aStart a).symm
    conv_lhs => rw [e]
    rw [valI_append, hDl]
    unfold crossTop
    linear_combination -dv

theorem crossQ_mono (pinit ab take m n : Nat) (htake : take < ab) (hm1 : 1 ≤ m) (hmn : m ≤ n) :
    crossQ pinit ab take n = crossQ pinit ab take m + (n - m) * ab := by
  unfold crossQ
  have h1 : ab ≤ m * ab := Nat.le_mul_of_pos_left ab (by omega)
  have h2 : n * ab = m * ab + (n - m) * ab := by rw [← Nat.add_mul]; congr 1; omega
  omega

/-- after `m` limbs of `a` that end exactly at the top of the result, every exit leaves
`K ≡ valI res (mod 2^(rb·rs))` -/
theorem cross_final_mod' (hrb1 : 1 ≤ rb) {K : Int} {pinit take aStart m : Nat} {st : CrossSt}
    (htake : take < ab) (hm1 : 1 ≤ m) (hm : m ≤ aStart)
    (hq : crossQ pinit ab take m = rb * rs)
    (h : COut ab rb rs lsh H a K pinit take aStart m st) :
    st.stuck = false ∧ st.res.length = rs ∧ (∀ d ∈ st.res, |d| ≤ 2 ^ rb - 1) ∧
    ∃ Z : Int, K = valI rb st.res + 2 ^ (rb * rs) * Z := by
  rcases h with ⟨_, hc⟩ | ⟨_, _, _, hf⟩ | hf
  · exfalso
    have hp := hc.pos
    rw [hq] at hp
    unfold crossPos at hp
    have h1 := hc.lim
    have h2 := hc.ral1
    have h3 : rb * (rs - 1 - st.resLimb) + rb ≤ rb * rs := by
      have : rs - 1 - st.resLimb + 1 ≤ rs := by omega
      calc rb * (rs - 1 - st.resLimb) + rb = rb * (rs - 1 - st.resLimb + 1) := by rw [Nat.mul_add, Nat.mul_one]
        _ ≤ rb * rs := Nat.mul_le_mul_left rb this
    omega
  · exact ⟨hf.ns, hf.len, hf.lims, hf.val⟩
  · refine ⟨hf.ns, hf.len, hf.lims, st.resCarry, ?_⟩
    have hp := hf.posq
    rw [crossQ_mono pinit ab take m aStart htake hm1 hm, hq] at hp
    have h5 : rb * (rs - st.resLimb) ≤ rb * rs := Nat.mul_le_mul_left rb (by omega)
    have hL : st.resLimb = 0 := by
      have h1 : rb * rs ≤ rb * (rs - st.resLimb) := by omega
      have h2 : rs ≤ rs - st.resLimb := Nat.le_of_mul_le_mul_left h1 (by omega)
      have := hf.lim
      omega
    have hv := hf.val
    rw [hL, Nat.sub_zero] at hv
    exact hv

/-- the rounding error `E = ρ·P + dD` of the first limb and the discarded limbs is at most `2^take·P` -/
theorem cross_err_bound {take : Nat} {ρ dD P : Int} (hP : 0 < P) (hρ : 2 * |ρ| ≤ 2 ^ take) (hρ0 : take = 0 → ρ = 0)
    (hdD : |dD| < P) : |ρ * P + dD| ≤ 2 ^ take * P := by
  have h1 : |ρ * P + dD| ≤ |ρ| * P + |dD| := by
    have := abs_add_le (ρ * P) dD
    rw [abs_mul, abs_of_pos hP] at this; exact this
  by_cases ht0 : take = 0
  · rw [hρ0 ht0, ht0]; simp only [zero_mul, zero_add, pow_zero, one_mul]; linarith
  · have h2 : (2 * |ρ|) * P ≤ 2 ^ take * P := mul_le_mul_of_nonneg_right hρ (le_of_lt hP)
    have h3 : (2 : Int) ≤ 2 ^ take := by
      have := two_pow_le (show 1 ≤ take by omega); simpa using this
    have h4 : 2 * P ≤ 2 ^ take * P := mul_le_mul_of_nonneg_right h3 (le_of_lt hP)
    linarith

/-- the rounding of the first limb is exact when the rounded-away bits are zero -/
theorem cross_rho_zero {take pinit : Nat} {K T ρ : Int} (hK : 2 ^ take * K = 2 ^ pinit * (T - ρ)) (hp : pinit = 0)
    (hρ : 2 * |ρ| ≤ 2 ^ take) (hdvd : (2 : Int) ^ take ∣ T) : ρ = 0 := by
  subst hp
  simp only [pow_zero, one_mul] at hK
  obtain ⟨t, ht⟩ := hdvd
  have hρe : ρ = 2 ^ take * (t - K) := by rw [mul_sub, ← ht]; linarith
  have hP := two_pow_pos take
  rw [hρe, abs_mul, abs_of_pos hP] at hρ
  have h1 : |t - K| < 1 := by
    by_contra hc
    have hc' : 1 ≤ |t - K| := not_lt.mp hc
    have := mul_le_mul_of_nonneg_left hc' (le_of_lt hP)
    linarith
  have h2 : t - K = 0 := abs_eq_zero.mp (by have := abs_nonneg (t - K); omega)
  rw [hρe, h2, mul_zero]

/-- class (P), exact case with a partially used last limb whose dropped bits are zero -/
theorem cross_P_arith_exact (V A T K Z : Int) (ab rb rs lsh L aStart take : Nat) (hLa : L ≤ aStart)
    (hq : (aStart - L) * ab = rb * rs + take) (hva : A * 2 ^ lsh = T) (hK : 2 ^ take * K = T)
    (hZ : K = V + 2 ^ (rb * rs) * Z) :
    TorusEq V (rb * rs) (A * 2 ^ (L * ab + lsh)) (ab * aStart) := by
  have e0 : (aStart - L) * ab = aStart * ab - L * ab := Nat.sub_mul _ _ _
  have e00 : L * ab ≤ aStart * ab := Nat.mul_le_mul_right ab hLa
  refine ⟨-Z, ?_⟩
  have e1 : (2 : Int) ^ (ab * aStart) = 2 ^ take * 2 ^ (rb * rs) * 2 ^ (L * ab) := by
    rw [← pow_add, ← pow_add]; congr 1
    have : ab * aStart = aStart * ab := Nat.mul_comm _ _
    omega
  have e2 : (2 : Int) ^ (rb * rs + ab * aStart) = 2 ^ (rb * rs) * 2 ^ (ab * aStart) := by rw [pow_add]
  have e3 : (2 : Int) ^ (L * ab + lsh) = 2 ^ (L * ab) * 2 ^ lsh := by rw [pow_add]
  have hV : V = K - 2 ^ (rb * rs) * Z := by rw [hZ]; ring
  rw [e2, e3, hV]
  have hA : A * (2 ^ (L * ab) * 2 ^ lsh) = (A * 2 ^ lsh) * 2 ^ (L * ab) := by ring
  rw [hA, hva, ← hK]
  linear_combination K * e1

/-- pure arithmetic of the class (P): `limbs_offset = L ≥ 0` -/
theorem cross_P_arith (V A T K Z ρ dD : Int) (ab rb rs lsh L aStart d take pinit as_ : Nat)
    (has : as_ = aStart + d) (hLa : L ≤ aStart)
    (hq : pinit + (aStart - L) * ab = rb * rs + take)
    (hcase : (take = 0 ∧ d = 0) ∨ pinit = 0)
    (hva : A * 2 ^ lsh = T * 2 ^ (ab * d) + dD) (hd0 : d = 0 → dD = 0)
    (hK : 2 ^ take * K = 2 ^ pinit * (T - ρ)) (hρ0 : take = 0 → ρ = 0)
    (hE : |ρ * 2 ^ (ab * d) + dD| ≤ 2 ^ take * 2 ^ (ab * d))
    (hZ : K = V + 2 ^ (rb * rs) * Z) :
    TorusNear V (rb * rs) (A * 2 ^ (L * ab + lsh)) (ab * as_) ∧
    (d = 0 → take = 0 → TorusEq V (rb * rs) (A * 2 ^ (L * ab + lsh)) (ab * as_)) := by
  subst has
  have e0 : (aStart - L) * ab = aStart * ab - L * ab := Nat.sub_mul _ _ _
  have e00 : L * ab ≤ aStart * ab := Nat.mul_le_mul_right ab hLa
  have hexact : d = 0 → take = 0 → TorusEq V (rb * rs) (A * 2 ^ (L * ab + lsh)) (ab * (aStart + d)) := by
    intro hd ht
    subst hd; subst ht
    rw [hρ0 rfl] at hK
    rw [hd0 rfl] at hva
    refine ⟨-Z, ?_⟩
    simp only [Nat.mul_zero, pow_zero, mul_one, add_zero, one_mul, sub_zero, Nat.add_zero] at hva hK hq ⊢
    have e1 : (2 : Int) ^ pinit * 2 ^ (ab * aStart) = 2 ^ (rb * rs) * 2 ^ (L * ab) := by
      rw [← pow_add, ← pow_add]; congr 1
      have : ab * aStart = aStart * ab := Nat.mul_comm _ _
      omega
    have e2 : (2 : Int) ^ (rb * rs + ab * aStart) = 2 ^ (rb * rs) * 2 ^ (ab * aStart) := by rw [pow_add]
    have e3 : (2 : Int) ^ (L * ab + lsh) = 2 ^ (L * ab) * 2 ^ lsh := by rw [pow_add]
    rw [e2, e3]
    have hV : V = 2 ^ pinit * (A * 2 ^ lsh) - 2 ^ (rb * rs) * Z := by rw [hva, ← hK, hZ]; ring
    rw [hV]
    linear_combination (A * 2 ^ lsh) * e1
  refine ⟨?_, hexact⟩
  rcases hcase with ⟨ht, hd⟩ | hp
  · exact (hexact hd ht).near
  · subst hp
    simp only [pow_zero, one_mul, Nat.zero_add] at hK hq
    set P := (2 : Int) ^ (ab * d) with hP
    set E := ρ * P + dD with hEdef
    have eg : (2 : Int) ^ (ab * (aStart + d)) = 2 ^ take * P * 2 ^ (rb * rs) * 2 ^ (L * ab) := by
      rw [hP, ← pow_add, ← pow_add, ← pow_add]; congr 1
      have : ab * (aStart + d) = aStart * ab + ab * d := by rw [Nat.mul_add, Nat.mul_comm ab aStart]
      omega
    refine ⟨-Z, -(E * 2 ^ (rb * rs) * 2 ^ (L * ab)), ?_, ?_⟩
    · have e2 : (2 : Int) ^ (rb * rs + ab * (aStart + d)) = 2 ^ (rb * rs) * 2 ^ (ab * (aStart + d)) := by rw [pow_add]
      have e3 : (2 : Int) ^ (L * ab + lsh) = 2 ^ (L * ab) * 2 ^ lsh := by rw [pow_add]
      have hV : V = K - 2 ^ (rb * rs) * Z := by rw [hZ]; ring
      have hT : T = 2 ^ take * K + ρ := by linarith
      rw [e2, e3, hV, eg]
      have hA : A * (2 ^ (L * ab) * 2 ^ lsh) = (A * 2 ^ lsh) * 2 ^ (L * ab) := by ring
      rw [hA, hva, hT, hEdef]
      ring
    · rw [abs_neg, abs_mul, abs_mul, abs_of_pos (two_pow_pos _), abs_of_pos (two_pow_pos _), eg]
      have := mul_le_mul_of_nonneg_right hE (le_of_lt (two_pow_pos (rb * rs)))
      exact mul_le_mul_of_nonneg_right this (le_of_lt (two_pow_pos (L * ab)))

end

end NormL

namespace NormL

section
variable {bits ab rb rs lsh : Nat} {H : Int} {a : List Int}

/-- class (P) after the clamps: `aStart = L + Sa`, `aEnd = L`, `resEnd = 0` -/
theorem crossCore_P (c : CrossCtx bits ab rb rs lsh H a) (L as' X Sa Sr take pad : Nat)
    (hlen : a.length = L + as') (hX : X = min (as' * ab) (rs * rb))
    (ha1 : 1 ≤ Sa) (ha2 : Sa ≤ as') (ha3 : Sa * ab = X + take) (ha5 : take < ab)
    (hr1 : 1 ≤ Sr) (hr2 : Sr ≤ rs) (hr4 : rb * (rs - Sr) + pad = rs * rb - X) (hr5 : pad < rb)
    (htake : take = (as' * ab - X) % ab) (hpad : pad = (rs * rb - X) % rb) {out : List Int}
    (h : crossCore bits ab rb rs lsh a (L + Sa) L take pad Sr 0
          ((carryOnlyRun bits ab lsh (a.drop (L + Sa))).getD 0) = some out) :
    out.length = rs ∧ (∀ d ∈ out, |d| ≤ 2 ^ rb - 1) ∧
    TorusNear (valI rb out) (rb * rs) (valI ab a * 2 ^ (L * ab + lsh)) (ab * a.length) ∧
    (ab * a.length ≤ rb * rs + L * ab + lsh →
      TorusEq (valI rb out) (rb * rs) (valI ab a * 2 ^ (L * ab + lsh)) (ab * a.length)) := by
  have hab1 : 1 ≤ ab := by have := c.hlsh; omega
  have hlsh := c.hlsh
  have hrb1 := c.hrb1
  have hcomm2 : rb * rs = rs * rb := Nat.mul_comm _ _
  have hXle1 : X ≤ as' * ab := by omega
  have hXle2 : X ≤ rs * rb := by omega
  have hboth : take = 0 ∨ pad = 0 := by
    rcases Nat.le_total (as' * ab) (rs * rb) with hc | hc
    · left; have : X = as' * ab := by omega
      rw [htake, this]; simp
    · right; have : X = rs * rb := by omega
      rw [hpad, this]; simp
  have haSle : L + Sa ≤ a.length := by omega
  have hcase : (take = 0 ∧ a.length - (L + Sa) = 0) ∨ rb * (rs - Sr) + pad = 0 := by
    rcases Nat.le_total (as' * ab) (rs * rb) with hc | hc
    · left
      have hXe : X = as' * ab := by omega
      have ht0 : take = 0 := by rw [htake, hXe]; simp
      refine ⟨ht0, ?_⟩
      have : Sa * ab = as' * ab := by omega
      have : Sa = as' := Nat.eq_of_mul_eq_mul_right (by omega) this
      omega
    · right; have : X = rs * rb := by omega
      omega
  have hP1 : a.length = (L + Sa) + (a.length - (L + Sa)) := by omega
  have hP2 : L ≤ L + Sa := by omega
  have hsub2 : L + Sa - L = Sa := by omega
  have hP3 : rb * (rs - Sr) + pad + (L + Sa - L) * ab = rb * rs + take := by rw [hsub2]; omega
  have hP4 : a.length - (L + Sa) = 0 → L + Sa = a.length := by omega
  have hexfacts : ab * a.length ≤ rb * rs + L * ab + lsh →
      a.length - (L + Sa) = 0 ∧ (take = 0 ∨ (rb * (rs - Sr) + pad = 0 ∧ take ≤ lsh)) := by
    intro hle
    have h1 : a.length * ab = L * ab + as' * ab := by rw [hlen, Nat.add_mul]
    have h2 : ab * a.length = a.length * ab := Nat.mul_comm _ _
    rcases Nat.le_total (as' * ab) (rs * rb) with hc | hc
    · have hXe : X = as' * ab := by omega
      have ht0 : take = 0 := by rw [htake, hXe]; simp
      have : Sa * ab = as' * ab := by omega
      have hSae : Sa = as' := Nat.eq_of_mul_eq_mul_right (by omega) this
      exact ⟨by omega, Or.inl ht0⟩
    · have hXe : X = rs * rb := by omega
      have hlt : as' * ab - X < ab := by omega
      have hte : take = as' * ab - X := by rw [htake]; exact Nat.mod_eq_of_lt hlt
      have : Sa * ab = as' * ab := by omega
      have hSae : Sa = as' := Nat.eq_of_mul_eq_mul_right (by omega) this
      exact ⟨by omega, Or.inr ⟨by omega, by omega⟩⟩
  have hcD0 : a.length - (L + Sa) = 0 → (carryOnlyRun bits ab lsh (a.drop (L + Sa))).getD 0 = 0 := by
    intro h0
    rw [List.drop_eq_nil_of_le (by omega)]; rfl
  have hq : crossQ (rb * (rs - Sr) + pad) ab take Sa = rb * rs := by unfold crossQ; omega
  obtain ⟨hcD, dD, hdD, hdD0, hva⟩ := cross_discard c (L + Sa) haSle
  generalize (carryOnlyRun bits ab lsh (a.drop (L + Sa))).getD 0 = cD at h hcD hva hcD0
  obtain ⟨K, ρ, hK, hρ, hρ0, hfold⟩ := crossOuter_fold c (aStart := L + Sa) (take := take) (pad := pad)
    (resStart := Sr) (cD := cD) (by omega) haSle ha5 hr5 hboth hr1 hr2 hcD
  have hfin := cross_final_mod' (ab := ab) (lsh := lsh) (H := H) (a := a) hrb1 ha5 ha1 (by omega) hq
    (hfold Sa ha1 (by omega))
  unfold crossCore at h
  rw [hsub2] at h
  generalize hstf : List.foldl (crossOuterBody bits ab rb lsh a _ _ _) _ (List.range _) = stf at h hfin
  obtain ⟨hns, hlen', hlims, Z, hZ⟩ := hfin
  simp only [hns, Bool.false_eq_true, if_false, ne_eq, not_true_eq_false] at h
  cases h
  have hEb := cross_err_bound (two_pow_pos (ab * (a.length - (L + Sa)))) hρ hρ0 hdD
  have harith := cross_P_arith (valI rb stf.res) (valI ab a) (crossTop ab lsh a (L + Sa) cD) K Z ρ dD ab rb rs lsh L
    (L + Sa) (a.length - (L + Sa)) take (rb * (rs - Sr) + pad) a.length hP1 hP2
    hP3 hcase hva (fun h0 => hdD0 (hP4 h0)) hK hρ0 hEb hZ
  refine ⟨hlen', hlims, harith.1, fun hle => ?_⟩
  obtain ⟨hd0', hc⟩ := hexfacts hle
  rcases hc with ht0 | ⟨hp0, htl⟩
  · exact harith.2 hd0' ht0
  · have hcz := hcD0 hd0'
    subst hcz
    have hdvd : (2 : Int) ^ take ∣ crossTop ab lsh a (L + Sa) 0 := by
      unfold crossTop; rw [zero_add]
      exact Dvd.dvd.mul_right (pow_dvd_pow 2 htl) _
    have hρz := cross_rho_zero hK hp0 hρ hdvd
    have hLS : L + Sa = a.length := by omega
    rw [hd0', hdD0 hLS] at hva
    simp only [Nat.mul_zero, pow_zero, mul_one, add_zero] at hva
    rw [hρz, hp0] at hK
    simp only [pow_zero, one_mul, sub_zero] at hK
    have := cross_P_arith_exact (valI rb stf.res) (valI ab a) (crossTop ab lsh a (L + Sa) 0) K Z ab rb rs lsh L
      (L + Sa) take hP2 (by rw [hp0] at hP3; omega) hva hK hZ
    rw [hLS] at this
    exact this

/-- **class (P): `limbs_offset = L ≥ 0`** (offset `L·ab + lsh ≥ 0`) -/
theorem normalizeCrossCoef_value_P (c : CrossCtx bits ab rb rs lsh H a) (off : Int) (L : Nat)
    (hso : splitOffset ab off = (lsh, (L : Int))) {out : List Int}
    (h : normalizeCrossCoef bits rb rs off ab a = some out) :
    out.length = rs ∧ (∀ d ∈ out, |d| ≤ 2 ^ rb - 1) ∧
    TorusNear (valI rb out) (rb * rs) (valI ab a * 2 ^ (L * ab + lsh)) (ab * a.length) ∧
    (ab * a.length ≤ rb * rs + L * ab + lsh →
      TorusEq (valI rb out) (rb * rs) (valI ab a * 2 ^ (L * ab + lsh)) (ab * a.length)) := by
  have hab1 : 1 ≤ ab := by have := c.hlsh; omega
  have hlsh := c.hlsh
  have hrb1 := c.hrb1
  have hRb := two_pow_pos rb
  rw [normalizeCrossCoef_core, hso] at h
  simp only at h
  have e1 : -(L : Int) * (ab : Int) = -((L * ab : Nat) : Int) := by push_cast; ring
  have e2 : (L : Int) * (ab : Int) = ((L * ab : Nat) : Int) := by push_cast; ring
  have e3 : Int.toNat (-((L * ab : Nat) : Int) - ((rs * rb : Nat) : Int)) = 0 := by omega
  rw [e1, e2, clampNat_neg, clampNat_sub, clampNat_natCast, clampNat_add, e3] at h
  simp only [ne_eq, not_true_eq_false, if_false, Nat.zero_div] at h
  have hcomm : ab * a.length = a.length * ab := Nat.mul_comm _ _
  have hzl : ∀ d ∈ List.replicate rs (0 : Int), |d| ≤ 2 ^ rb - 1 := by
    intro d hd; rw [(List.mem_replicate.mp hd).2]; simp; linarith
  by_cases hLa : a.length ≤ L
  · -- everything shifted out
    have hle : a.length * ab ≤ L * ab := Nat.mul_le_mul_right ab hLa
    have h0 : min (a.length * ab - L * ab) (rs * rb) = 0 := by omega
    rw [h0] at h
    have hz : (0 + rb - 1) / rb = 0 := Nat.div_eq_of_lt (by omega)
    rw [if_pos hz] at h
    cases h
    obtain ⟨x, hx⟩ : ∃ x, L * ab = a.length * ab + x := ⟨L * ab - a.length * ab, by omega⟩
    have heq : TorusEq (valI rb (List.replicate rs 0)) (rb * rs) (valI ab a * 2 ^ (L * ab + lsh)) (ab * a.length) := by
      refine ⟨-(valI ab a * 2 ^ lsh * 2 ^ x), ?_⟩
      rw [valI_replicate_zero, hx, hcomm]
      have : (2 : Int) ^ (a.length * ab + x + lsh) = 2 ^ (a.length * ab) * 2 ^ x * 2 ^ lsh := by
        rw [← pow_add, ← pow_add]
      rw [this, pow_add]; ring
    exact ⟨by simp, hzl, heq.near, fun _ => heq⟩
  · have hLa' : L < a.length := by omega
    have hsub : a.length * ab - L * ab = (a.length - L) * ab := (Nat.sub_mul _ _ _).symm
    rw [hsub] at h
    by_cases hrs0 : rs = 0
    · subst hrs0
      have h0 : min ((a.length - L) * ab) (0 * rb) = 0 := by simp
      rw [h0] at h
      have hz : (0 + rb - 1) / rb = 0 := Nat.div_eq_of_lt (by omega)
      rw [if_pos hz] at h
      cases h
      refine ⟨by simp, hzl, by simpa using torusNear_zero_prec _ _ _, fun hle => ?_⟩
      exfalso
      have : (L + 1) * ab ≤ a.length * ab := Nat.mul_le_mul_right ab (by omega)
      rw [Nat.add_mul] at this
      omega
    · have hrs1 : 1 ≤ rs := by omega
      obtain ⟨as', has'⟩ : ∃ as', a.length = L + as' := ⟨a.length - L, by omega⟩
      have has'e : a.length - L = as' := by omega
      rw [has'e] at h
      have has'1 : 1 ≤ as' := by omega
      obtain ⟨X, hX⟩ : ∃ X, X = min (as' * ab) (rs * rb) := ⟨_, rfl⟩
      have hX1 : 1 ≤ X := by
        have h1 : 1 ≤ as' * ab := Nat.mul_pos (by omega) (by omega)
        have h2 : 1 ≤ rs * rb := Nat.mul_pos (by omega) (by omega)
        omega
      have hexp : a.length * ab = L * ab + as' * ab := by rw [has', Nat.add_mul]
      have haSB : min (rs * rb + L * ab) (a.length * ab) = L * ab + X := by omega
      rw [← hX, haSB, ceil_add_mul ab L X hab1] at h
      have hLdiv : min (L * ab) (a.length * ab) / ab = L := by
        have : L * ab ≤ a.length * ab := Nat.mul_le_mul_right ab (by omega)
        rw [Nat.min_eq_left this]; exact Nat.mul_div_cancel L (by omega)
      rw [hLdiv] at h
      have htk : (a.length * ab - (L * ab + X)) % ab = (as' * ab - X) % ab := by congr 1; omega
      rw [htk] at h
      obtain ⟨ha1, ha2, ha3, _, ha5⟩ := ceil_facts ab as' X hab1 hX1 (by omega)
      obtain ⟨hr1, hr2, _, hr4, hr5⟩ := ceil_facts rb rs X hrb1 hX1 (by omega)
      rw [if_neg (by omega)] at h
      exact crossCore_P c L as' X _ _ _ _ has' hX ha1 ha2 ha3 ha5 hr1 hr2 hr4 hr5 rfl rfl h

end

end NormL
