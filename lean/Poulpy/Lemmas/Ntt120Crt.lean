import Mathlib.Data.Int.ModEq
import Mathlib.Tactic.Ring
import Mathlib.Tactic.Linarith
import Poulpy.Model.Ntt120

/-!
NTT120: residues (`b_from_znx64`, `c_from_znx64`, `c_from_b`) and CRT reconstruction
(`b_to_znx128`).  Everything is proved for an arbitrary prime set satisfying `PrimeSet.Good`, a
finite list of closed facts about the constants; `primes29_good`, `primes30_good`,
`primes31_good` discharge them by kernel evaluation of the constants of `primes.rs`.
-/

namespace Ntt120
open Int

/-! ### wraps -/

theorem w128_of_range (x : Int) (h0 : -(2 ^ 127) ≤ x) (h1 : x < 2 ^ 127) : w128 x = x := by
  unfold w128; omega

theorem wu64_of_lt (x : Nat) (h : x < 2 ^ 64) : wu64 x = x := Nat.mod_eq_of_lt h
theorem wu32_of_lt (x : Nat) (h : x < 2 ^ 32) : wu32 x = x := Nat.mod_eq_of_lt h

theorem land_maskLo (x : Nat) : x &&& maskLo = x % 2 ^ 63 := by
  unfold maskLo; exact Nat.and_two_pow_sub_one_eq_mod x 63

theorem oq_eq (q : Nat) (hq : 0 < q) (hq2 : q < 2 ^ 64) : oq q = q - 2 ^ 63 % q := by
  unfold oq subU64
  have h1 : 2 ^ 63 % q < q := Nat.mod_lt _ hq
  omega

/-! ### (a) residues -/

/-- `b_from_znx64` on a non-negative `i64`: the value itself -/
theorem bFromU64K_nonneg (q : Nat) (x : Int) (h0 : 0 ≤ x) (h1 : x < 2 ^ 63) :
    (bFromU64K q (asU64 x) : Int) = x := by
  unfold bFromU64K
  simp only [land_maskLo]
  have e : asU64 x = x.toNat := by unfold asU64; omega
  have hle : ¬ (asU64 x > maskLo) := by rw [e]; unfold maskLo; omega
  simp only [hle, decide_false, if_false, Bool.false_eq_true]
  unfold wu64
  rw [e]; omega

/-- `b_from_znx64` on a negative `i64`: `x + 2^63 + (q − 2^63 mod q)`, and the `u64` addition does
not wrap -/
theorem bFromU64K_neg (q : Nat) (hq : 0 < q) (hq2 : q < 2 ^ 63) (x : Int) (h0 : -(2 ^ 63) ≤ x) (h1 : x < 0) :
    (bFromU64K q (asU64 x) : Int) = x + 2 ^ 63 + (q - (2 ^ 63 % q : Nat)) := by
  unfold bFromU64K
  simp only [land_maskLo]
  have e : (asU64 x : Int) = x + 2 ^ 64 := by unfold asU64; omega
  have hgt : asU64 x > maskLo := by unfold maskLo; omega
  simp only [hgt, decide_true, if_true]
  rw [oq_eq q hq (by omega)]
  have h1 : 2 ^ 63 % q < q := Nat.mod_lt _ hq
  unfold wu64
  omega

/-- every q120b residue written by `b_from_znx64_ref` is congruent to the input, for every `i64` -/
theorem bFromU64K_congr (q : Nat) (hq : 0 < q) (hq2 : q < 2 ^ 63) (x : Int) (h0 : -(2 ^ 63) ≤ x) (h1 : x < 2 ^ 63) :
    (bFromU64K q (asU64 x) : Int) ≡ x [ZMOD q] := by
  unfold Int.ModEq
  by_cases hx : 0 ≤ x
  · rw [bFromU64K_nonneg q x hx h1]
  · rw [bFromU64K_neg q hq hq2 x h0 (by omega)]
    have hd : (2 ^ 63 : Nat) = q * (2 ^ 63 / q) + 2 ^ 63 % q := (Nat.div_add_mod _ _).symm
    have hd' : ((2 ^ 63 : Nat) : Int) = (q : Int) * ((2 ^ 63 / q : Nat) : Int) + ((2 ^ 63 % q : Nat) : Int) := by
      exact_mod_cast hd
    have : x + 2 ^ 63 + ((q : Int) - ((2 ^ 63 % q : Nat) : Int)) = x + (q : Int) * (((2 ^ 63 / q : Nat) : Int) + 1) := by
      have h63 : ((2 ^ 63 : Nat) : Int) = 2 ^ 63 := by norm_cast
      rw [← h63, hd']
      rw [Int.mul_add]; omega
    rw [this, Int.add_mul_emod_self_left]

/-- and it lies in `[0, 2^63 + q)`: far inside `u64` -/
theorem bFromU64K_range (q : Nat) (hq : 0 < q) (hq2 : q < 2 ^ 63) (x : Int) (h0 : -(2 ^ 63) ≤ x) (h1 : x < 2 ^ 63) :
    bFromU64K q (asU64 x) < 2 ^ 63 + q := by
  by_cases hx : 0 ≤ x
  · have := bFromU64K_nonneg q x hx h1; omega
  · have := bFromU64K_neg q hq hq2 x h0 (by omega); omega

/-- the q120c pair of a canonical residue: no truncation, no wrap for a prime below `2^32` -/
theorem cPair_eq (q r : Nat) (hq : q < 2 ^ 32) (hr : r < q) : cPair q r = [r, r * 2 ^ 32 % q] := by
  unfold cPair
  have h1 : r * 2 ^ 32 < 2 ^ 64 := by
    calc r * 2 ^ 32 < 2 ^ 32 * 2 ^ 32 := Nat.mul_lt_mul_of_pos_right (by omega) (by decide)
      _ = 2 ^ 64 := by norm_num
  have h2 : r * 2 ^ 32 % q < q := Nat.mod_lt _ (by omega)
  rw [wu64_of_lt _ h1, wu32_of_lt r (by omega), wu32_of_lt _ (by omega)]

/-- `c_from_znx64_ref`: the canonical residue of `x` and that residue times `2^32`, reduced -/
theorem cFromZnx64K_eq (q : Nat) (hq0 : 0 < q) (hq : q < 2 ^ 32) (x : Int) :
    cFromZnx64K q x = [(x % (q : Int)).toNat, (x % (q : Int)).toNat * 2 ^ 32 % q] := by
  unfold cFromZnx64K
  apply cPair_eq q _ hq
  have := Int.emod_lt_of_pos x (by exact_mod_cast hq0 : (0 : Int) < q)
  have := Int.emod_nonneg x (by omega : (q : Int) ≠ 0)
  omega

/-- `c_from_b_ref`: the same pair for the canonical residue of a lazy `u64` residue -/
theorem cFromBK_eq (q : Nat) (hq0 : 0 < q) (hq : q < 2 ^ 32) (x : Nat) :
    cFromBK q x = [x % q, x % q * 2 ^ 32 % q] :=
  cPair_eq q _ hq (Nat.mod_lt _ hq0)

/-! ### (b) CRT reconstruction -/

def bigQ (P : PrimeSet) : Nat := P.q0 * P.q1 * P.q2 * P.q3

/-- closed facts about the constants of a prime set -/
structure PrimeSet.Good (P : PrimeSet) : Prop where
  q0_gt : 1 < P.q0
  q1_gt : 1 < P.q1
  q2_gt : 1 < P.q2
  q3_gt : 1 < P.q3
  q0_lt : P.q0 < 2 ^ 32
  q1_lt : P.q1 < 2 ^ 32
  q2_lt : P.q2 < 2 ^ 32
  q3_lt : P.q3 < 2 ^ 32
  c0_lt : P.c0 < 2 ^ 32
  c1_lt : P.c1 < 2 ^ 32
  c2_lt : P.c2 < 2 ^ 32
  c3_lt : P.c3 < 2 ^ 32
  cop01 : Nat.Coprime P.q0 P.q1
  cop02 : Nat.Coprime P.q0 P.q2
  cop03 : Nat.Coprime P.q0 P.q3
  cop12 : Nat.Coprime P.q1 P.q2
  cop13 : Nat.Coprime P.q1 P.q3
  cop23 : Nat.Coprime P.q2 P.q3
  inv0 : P.c0 * (P.q1 * P.q2 * P.q3) % P.q0 = 1
  inv1 : P.c1 * (P.q0 * P.q2 * P.q3) % P.q1 = 1
  inv2 : P.c2 * (P.q0 * P.q1 * P.q3) % P.q2 = 1
  inv3 : P.c3 * (P.q0 * P.q1 * P.q2) % P.q3 = 1
  bound : 4 * bigQ P < 2 ^ 127
  odd : bigQ P % 2 = 1
  tq : totalQ P = (bigQ P : Int)
  m0 : qm0 P = ((P.q1 * P.q2 * P.q3 : Nat) : Int)
  m1 : qm1 P = ((P.q0 * P.q2 * P.q3 : Nat) : Int)
  m2 : qm2 P = ((P.q0 * P.q1 * P.q3 : Nat) : Int)
  m3 : qm3 P = ((P.q0 * P.q1 * P.q2 : Nat) : Int)

theorem primes29_good : primes29.Good :=
  { q0_gt := by decide +kernel,
    q1_gt := by decide +kernel,
    q2_gt := by decide +kernel,
    q3_gt := by decide +kernel,
    q0_lt := by decide +kernel,
    q1_lt := by decide +kernel,
    q2_lt := by decide +kernel,
    q3_lt := by decide +kernel,
    c0_lt := by decide +kernel,
    c1_lt := by decide +kernel,
    c2_lt := by decide +kernel,
    c3_lt := by decide +kernel,
    cop01 := by decide +kernel,
    cop02 := by decide +kernel,
    cop03 := by decide +kernel,
    cop12 := by decide +kernel,
    cop13 := by decide +kernel,
    cop23 := by decide +kernel,
    inv0 := by decide +kernel,
    inv1 := by decide +kernel,
    inv2 := by decide +kernel,
    inv3 := by decide +kernel,
    bound := by decide +kernel,
    odd := by decide +kernel,
    tq := by decide +kernel,
    m0 := by decide +kernel,
    m1 := by decide +kernel,
    m2 := by decide +kernel,
    m3 := by decide +kernel }
theorem primes30_good : primes30.Good :=
  { q0_gt := by decide +kernel,
    q1_gt := by decide +kernel,
    q2_gt := by decide +kernel,
    q3_gt := by decide +kernel,
    q0_lt := by decide +kernel,
    q1_lt := by decide +kernel,
    q2_lt := by decide +kernel,
    q3_lt := by decide +kernel,
    c0_lt := by decide +kernel,
    c1_lt := by decide +kernel,
    c2_lt := by decide +kernel,
    c3_lt := by decide +kernel,
    cop01 := by decide +kernel,
    cop02 := by decide +kernel,
    cop03 := by decide +kernel,
    cop12 := by decide +kernel,
    cop13 := by decide +kernel,
    cop23 := by decide +kernel,
    inv0 := by decide +kernel,
    inv1 := by decide +kernel,
    inv2 := by decide +kernel,
    inv3 := by decide +kernel,
    bound := by decide +kernel,
    odd := by decide +kernel,
    tq := by decide +kernel,
    m0 := by decide +kernel,
    m1 := by decide +kernel,
    m2 := by decide +kernel,
    m3 := by decide +kernel }
theorem primes31_good : primes31.Good :=
  { q0_gt := by decide +kernel,
    q1_gt := by decide +kernel,
    q2_gt := by decide +kernel,
    q3_gt := by decide +kernel,
    q0_lt := by decide +kernel,
    q1_lt := by decide +kernel,
    q2_lt := by decide +kernel,
    q3_lt := by decide +kernel,
    c0_lt := by decide +kernel,
    c1_lt := by decide +kernel,
    c2_lt := by decide +kernel,
    c3_lt := by decide +kernel,
    cop01 := by decide +kernel,
    cop02 := by decide +kernel,
    cop03 := by decide +kernel,
    cop12 := by decide +kernel,
    cop13 := by decide +kernel,
    cop23 := by decide +kernel,
    inv0 := by decide +kernel,
    inv1 := by decide +kernel,
    inv2 := by decide +kernel,
    inv3 := by decide +kernel,
    bound := by decide +kernel,
    odd := by decide +kernel,
    tq := by decide +kernel,
    m0 := by decide +kernel,
    m1 := by decide +kernel,
    m2 := by decide +kernel,
    m3 := by decide +kernel }

/-- the un-wrapped value of one CRT term: `((x mod q)·crt mod q)·(Q/q)` -/
def crtTerm (q crt qm x : Nat) : Nat := (x % q * crt % q) * qm

/-- one loop iteration of `b_to_znx128_ref` without any `i128` wrap, given head-room -/
theorem crtStep_eq (tmp : Int) (q crt qm x : Nat) (hq : 0 < q) (hq32 : q < 2 ^ 32) (hc : crt < 2 ^ 32)
    (h0 : 0 ≤ tmp) (hroom : tmp + (q * qm : Nat) < 2 ^ 127) :
    crtStep tmp q crt qm x = tmp + crtTerm q crt qm x := by
  unfold crtStep crtTerm
  simp only [Int.toNat_natCast]
  have hx : x % q < q := Nat.mod_lt _ hq
  have hxc : x % q * crt < 2 ^ 64 := by
    calc x % q * crt < 2 ^ 32 * 2 ^ 32 := Nat.mul_lt_mul'' (by omega) hc
      _ = 2 ^ 64 := by norm_num
  have e1 : w128 (((x % q : Nat) : Int) * (crt : Int)) = ((x % q * crt : Nat) : Int) := by
    rw [w128_of_range] <;> push_cast <;> [rfl; skip; skip]
    · have : (0 : Int) ≤ ((x % q * crt : Nat) : Int) := Int.natCast_nonneg _
      push_cast at this; linarith
    · have : ((x % q * crt : Nat) : Int) < 2 ^ 64 := by exact_mod_cast hxc
      push_cast at this; linarith
  rw [e1]
  have e2 : Int.tmod ((x % q * crt : Nat) : Int) (q : Int) = ((x % q * crt % q : Nat) : Int) := by
    rw [Int.tmod_eq_emod_of_nonneg (Int.natCast_nonneg _)]
    exact (Int.natCast_mod _ _).symm
  rw [e2]
  have ht : x % q * crt % q < q := Nat.mod_lt _ hq
  have hle : (x % q * crt % q) * qm ≤ q * qm := Nat.mul_le_mul_right _ (le_of_lt ht)
  have hle' : (((x % q * crt % q) * qm : Nat) : Int) ≤ ((q * qm : Nat) : Int) := by exact_mod_cast hle
  have e3 : w128 (((x % q * crt % q : Nat) : Int) * (qm : Int)) = (((x % q * crt % q) * qm : Nat) : Int) := by
    have hnn : (0 : Int) ≤ (((x % q * crt % q) * qm : Nat) : Int) := Int.natCast_nonneg _
    rw [w128_of_range] <;> push_cast at * <;> [rfl; linarith; linarith]
  rw [e3]
  have hnn : (0 : Int) ≤ (((x % q * crt % q) * qm : Nat) : Int) := Int.natCast_nonneg _
  rw [w128_of_range] <;> linarith

theorem crtTerm_le (q crt qm x : Nat) (hq : 0 < q) : crtTerm q crt qm x ≤ q * qm := by
  unfold crtTerm
  have ht : x % q * crt % q < q := Nat.mod_lt _ hq
  exact Nat.mul_le_mul_right _ (le_of_lt ht)

/-- a CRT term is congruent to the residue modulo its own prime … -/
theorem crtTerm_self (q crt qm x : Nat) (hinv : crt * qm % q = 1) :
    (crtTerm q crt qm x : Int) ≡ x [ZMOD q] := by
  unfold crtTerm
  have h1 : ((x % q * crt % q : Nat) : Int) ≡ ((x % q * crt : Nat) : Int) [ZMOD q] := by
    push_cast; exact Int.mod_modEq _ _
  have h2 : ((x % q : Nat) : Int) ≡ x [ZMOD q] := by push_cast; exact Int.mod_modEq _ _
  have h3 : ((crt * qm : Nat) : Int) ≡ 1 [ZMOD q] := by
    have : ((crt * qm % q : Nat) : Int) = 1 := by rw [hinv]; rfl
    have h := Int.mod_modEq ((crt * qm : Nat) : Int) q
    rw [← this]; push_cast; push_cast at h; exact h.symm
  calc (((x % q * crt % q) * qm : Nat) : Int)
      = ((x % q * crt % q : Nat) : Int) * qm := by push_cast; ring
    _ ≡ ((x % q * crt : Nat) : Int) * qm [ZMOD q] := h1.mul_right _
    _ = ((x % q : Nat) : Int) * ((crt * qm : Nat) : Int) := by push_cast; ring
    _ ≡ (x : Int) * 1 [ZMOD q] := h2.mul h3
    _ = x := by ring

/-- … and to zero modulo every other prime (which divides `Q/q`) -/
theorem crtTerm_other (q crt qm x q' : Nat) (hd : q' ∣ qm) : (crtTerm q crt qm x : Int) ≡ 0 [ZMOD q'] := by
  unfold crtTerm
  rw [Int.modEq_zero_iff_dvd]
  have : q' ∣ (x % q * crt % q) * qm := Dvd.dvd.mul_left hd _
  exact_mod_cast this

/-- the accumulated sum `tmp` of `b_to_znx128_ref` before `tmp %= Q` -/
def crtSum (P : PrimeSet) (x0 x1 x2 x3 : Nat) : Nat :=
  crtTerm P.q0 P.c0 (P.q1 * P.q2 * P.q3) x0 + crtTerm P.q1 P.c1 (P.q0 * P.q2 * P.q3) x1 +
  crtTerm P.q2 P.c2 (P.q0 * P.q1 * P.q3) x2 + crtTerm P.q3 P.c3 (P.q0 * P.q1 * P.q2) x3

theorem bigQ_eq0 (P : PrimeSet) : P.q0 * (P.q1 * P.q2 * P.q3) = bigQ P := by unfold bigQ; ring
theorem bigQ_eq1 (P : PrimeSet) : P.q1 * (P.q0 * P.q2 * P.q3) = bigQ P := by unfold bigQ; ring
theorem bigQ_eq2 (P : PrimeSet) : P.q2 * (P.q0 * P.q1 * P.q3) = bigQ P := by unfold bigQ; ring
theorem bigQ_eq3 (P : PrimeSet) : P.q3 * (P.q0 * P.q1 * P.q2) = bigQ P := by unfold bigQ; ring

/-- the four `crtStep`s of `b_to_znx128_ref` never wrap `i128` -/
theorem crt_fold_eq (P : PrimeSet) (g : P.Good) (x0 x1 x2 x3 : Nat) :
    crtStep (crtStep (crtStep (crtStep 0 P.q0 P.c0 (qm0 P) x0) P.q1 P.c1 (qm1 P) x1) P.q2 P.c2 (qm2 P) x2) P.q3 P.c3 (qm3 P) x3
      = (crtSum P x0 x1 x2 x3 : Int) := by
  have hb := g.bound
  have h0 := crtTerm_le P.q0 P.c0 (P.q1 * P.q2 * P.q3) x0 (by have := g.q0_gt; omega)
  have h1 := crtTerm_le P.q1 P.c1 (P.q0 * P.q2 * P.q3) x1 (by have := g.q1_gt; omega)
  have h2 := crtTerm_le P.q2 P.c2 (P.q0 * P.q1 * P.q3) x2 (by have := g.q2_gt; omega)
  have h3 := crtTerm_le P.q3 P.c3 (P.q0 * P.q1 * P.q2) x3 (by have := g.q3_gt; omega)
  rw [bigQ_eq0] at h0; rw [bigQ_eq1] at h1; rw [bigQ_eq2] at h2; rw [bigQ_eq3] at h3
  rw [g.m0, g.m1, g.m2, g.m3]
  rw [crtStep_eq 0 P.q0 P.c0 _ x0 (by have := g.q0_gt; omega) g.q0_lt g.c0_lt (le_refl _) (by rw [bigQ_eq0]; omega)]
  rw [crtStep_eq _ P.q1 P.c1 _ x1 (by have := g.q1_gt; omega) g.q1_lt g.c1_lt (by omega) (by rw [bigQ_eq1]; omega)]
  rw [crtStep_eq _ P.q2 P.c2 _ x2 (by have := g.q2_gt; omega) g.q2_lt g.c2_lt (by omega) (by rw [bigQ_eq2]; omega)]
  rw [crtStep_eq _ P.q3 P.c3 _ x3 (by have := g.q3_gt; omega) g.q3_lt g.c3_lt (by omega) (by rw [bigQ_eq3]; omega)]
  unfold crtSum; push_cast; ring

/-- the sum is congruent to `x` modulo each prime when the residues are -/
theorem crtSum_modEq0 (P : PrimeSet) (g : P.Good) (x : Int) (x0 x1 x2 x3 : Nat) (h : (x0 : Int) ≡ x [ZMOD P.q0]) :
    (crtSum P x0 x1 x2 x3 : Int) ≡ x [ZMOD P.q0] := by
  unfold crtSum; push_cast
  have a := (crtTerm_self P.q0 P.c0 _ x0 g.inv0).trans h
  have b := crtTerm_other P.q1 P.c1 (P.q0 * P.q2 * P.q3) x1 P.q0 ⟨P.q2 * P.q3, by ring⟩
  have c := crtTerm_other P.q2 P.c2 (P.q0 * P.q1 * P.q3) x2 P.q0 ⟨P.q1 * P.q3, by ring⟩
  have d := crtTerm_other P.q3 P.c3 (P.q0 * P.q1 * P.q2) x3 P.q0 ⟨P.q1 * P.q2, by ring⟩
  simpa using ((a.add b).add c).add d

theorem crtSum_modEq1 (P : PrimeSet) (g : P.Good) (x : Int) (x0 x1 x2 x3 : Nat) (h : (x1 : Int) ≡ x [ZMOD P.q1]) :
    (crtSum P x0 x1 x2 x3 : Int) ≡ x [ZMOD P.q1] := by
  unfold crtSum; push_cast
  have a := crtTerm_other P.q0 P.c0 (P.q1 * P.q2 * P.q3) x0 P.q1 ⟨P.q2 * P.q3, by ring⟩
  have b := (crtTerm_self P.q1 P.c1 _ x1 g.inv1).trans h
  have c := crtTerm_other P.q2 P.c2 (P.q0 * P.q1 * P.q3) x2 P.q1 ⟨P.q0 * P.q3, by ring⟩
  have d := crtTerm_other P.q3 P.c3 (P.q0 * P.q1 * P.q2) x3 P.q1 ⟨P.q0 * P.q2, by ring⟩
  simpa using ((a.add b).add c).add d

theorem crtSum_modEq2 (P : PrimeSet) (g : P.Good) (x : Int) (x0 x1 x2 x3 : Nat) (h : (x2 : Int) ≡ x [ZMOD P.q2]) :
    (crtSum P x0 x1 x2 x3 : Int) ≡ x [ZMOD P.q2] := by
  unfold crtSum; push_cast
  have a := crtTerm_other P.q0 P.c0 (P.q1 * P.q2 * P.q3) x0 P.q2 ⟨P.q1 * P.q3, by ring⟩
  have b := crtTerm_other P.q1 P.c1 (P.q0 * P.q2 * P.q3) x1 P.q2 ⟨P.q0 * P.q3, by ring⟩
  have c := (crtTerm_self P.q2 P.c2 _ x2 g.inv2).trans h
  have d := crtTerm_other P.q3 P.c3 (P.q0 * P.q1 * P.q2) x3 P.q2 ⟨P.q0 * P.q1, by ring⟩
  simpa using ((a.add b).add c).add d

theorem crtSum_modEq3 (P : PrimeSet) (g : P.Good) (x : Int) (x0 x1 x2 x3 : Nat) (h : (x3 : Int) ≡ x [ZMOD P.q3]) :
    (crtSum P x0 x1 x2 x3 : Int) ≡ x [ZMOD P.q3] := by
  unfold crtSum; push_cast
  have a := crtTerm_other P.q0 P.c0 (P.q1 * P.q2 * P.q3) x0 P.q3 ⟨P.q1 * P.q2, by ring⟩
  have b := crtTerm_other P.q1 P.c1 (P.q0 * P.q2 * P.q3) x1 P.q3 ⟨P.q0 * P.q2, by ring⟩
  have c := crtTerm_other P.q2 P.c2 (P.q0 * P.q1 * P.q3) x2 P.q3 ⟨P.q0 * P.q1, by ring⟩
  have d := (crtTerm_self P.q3 P.c3 _ x3 g.inv3).trans h
  simpa using ((a.add b).add c).add d

/-- Chinese remainder theorem for the four pairwise coprime primes: congruent modulo each ⇒
congruent modulo `Q` -/
theorem modEq_bigQ (P : PrimeSet) (g : P.Good) (a b : Int)
    (h0 : a ≡ b [ZMOD P.q0]) (h1 : a ≡ b [ZMOD P.q1]) (h2 : a ≡ b [ZMOD P.q2]) (h3 : a ≡ b [ZMOD P.q3]) :
    a ≡ b [ZMOD (bigQ P : Int)] := by
  have c01 : ((P.q0 : Int)).natAbs.Coprime ((P.q1 : Int)).natAbs := by simpa using g.cop01
  have h01 := (Int.modEq_and_modEq_iff_modEq_mul c01).mp ⟨h0, h1⟩
  have c012 : ((P.q0 : Int) * P.q1).natAbs.Coprime ((P.q2 : Int)).natAbs := by
    rw [Int.natAbs_mul]; simpa using Nat.Coprime.mul_left g.cop02 g.cop12
  have h012 := (Int.modEq_and_modEq_iff_modEq_mul c012).mp ⟨h01, h2⟩
  have c0123 : ((P.q0 : Int) * P.q1 * P.q2).natAbs.Coprime ((P.q3 : Int)).natAbs := by
    rw [Int.natAbs_mul, Int.natAbs_mul]
    simpa using Nat.Coprime.mul_left (Nat.Coprime.mul_left g.cop03 g.cop13) g.cop23
  have h := (Int.modEq_and_modEq_iff_modEq_mul c0123).mp ⟨h012, h3⟩
  unfold bigQ; push_cast; exact h

/-- **`b_to_znx128_ref` returns the centred representative**: for residues congruent to `x`
modulo the four primes (any lazy `u64` representatives), the result is congruent to `x` modulo `Q`
and lies in `[−(Q−1)/2, (Q−1)/2]` -/
theorem bToZnx128Core_centred (P : PrimeSet) (g : P.Good) (x : Int) (x0 x1 x2 x3 : Nat)
    (h0 : (x0 : Int) ≡ x [ZMOD P.q0]) (h1 : (x1 : Int) ≡ x [ZMOD P.q1])
    (h2 : (x2 : Int) ≡ x [ZMOD P.q2]) (h3 : (x3 : Int) ≡ x [ZMOD P.q3]) :
    bToZnx128Core P x0 x1 x2 x3 ≡ x [ZMOD (bigQ P : Int)] ∧
    -(((bigQ P : Int) - 1) / 2) ≤ bToZnx128Core P x0 x1 x2 x3 ∧ bToZnx128Core P x0 x1 x2 x3 ≤ ((bigQ P : Int) - 1) / 2 := by
  unfold bToZnx128Core
  simp only []
  rw [crt_fold_eq P g, g.tq]
  have hS := modEq_bigQ P g _ x (crtSum_modEq0 P g x x0 x1 x2 x3 h0) (crtSum_modEq1 P g x x0 x1 x2 x3 h1)
    (crtSum_modEq2 P g x x0 x1 x2 x3 h2) (crtSum_modEq3 P g x x0 x1 x2 x3 h3)
  have hQpos : (0 : Int) < bigQ P := by
    have := g.odd
    have : 0 < bigQ P := by omega
    exact_mod_cast this
  have hb : ((bigQ P : Nat) : Int) * 4 < 2 ^ 127 := by
    have := g.bound; exact_mod_cast (by omega : bigQ P * 4 < 2 ^ 127)
  have hodd : ((bigQ P : Nat) : Int) % 2 = 1 := by exact_mod_cast g.odd
  rw [Int.tmod_eq_emod_of_nonneg (Int.natCast_nonneg _)]
  have hr0 := Int.emod_nonneg (crtSum P x0 x1 x2 x3 : Int) (ne_of_gt hQpos)
  have hr1 := Int.emod_lt_of_pos (crtSum P x0 x1 x2 x3 : Int) hQpos
  have hrm : (crtSum P x0 x1 x2 x3 : Int) % (bigQ P : Int) ≡ x [ZMOD (bigQ P : Int)] := (Int.mod_modEq _ _).trans hS
  generalize (crtSum P x0 x1 x2 x3 : Int) % (bigQ P : Int) = r at *
  have hw : w128 ((bigQ P : Int) + 1) = (bigQ P : Int) + 1 := by rw [w128_of_range] <;> omega
  rw [hw]
  have hhalf : Int.tdiv ((bigQ P : Int) + 1) 2 = ((bigQ P : Int) + 1) / 2 := by
    rw [Int.tdiv_eq_ediv_of_nonneg (by omega)]
  rw [hhalf]
  split
  · rename_i hge
    have hw2 : w128 (r - (bigQ P : Int)) = r - (bigQ P : Int) := by rw [w128_of_range] <;> omega
    rw [hw2]
    refine ⟨?_, by omega, by omega⟩
    have : r - (bigQ P : Int) ≡ r [ZMOD (bigQ P : Int)] := by
      rw [Int.modEq_iff_dvd]; exact ⟨1, by ring⟩
    exact this.trans hrm
  · rename_i hlt
    exact ⟨hrm, by omega, by omega⟩

/-- **exactness of the CRT**: if `|x| ≤ (Q−1)/2` (i.e. `|x| < Q/2`, `Q` odd) the reconstruction
returns exactly `x`, whatever lazy representatives carry the residues -/
theorem bToZnx128Core_exact (P : PrimeSet) (g : P.Good) (x : Int) (x0 x1 x2 x3 : Nat)
    (hlo : -(((bigQ P : Int) - 1) / 2) ≤ x) (hhi : x ≤ ((bigQ P : Int) - 1) / 2)
    (h0 : (x0 : Int) ≡ x [ZMOD P.q0]) (h1 : (x1 : Int) ≡ x [ZMOD P.q1])
    (h2 : (x2 : Int) ≡ x [ZMOD P.q2]) (h3 : (x3 : Int) ≡ x [ZMOD P.q3]) :
    bToZnx128Core P x0 x1 x2 x3 = x := by
  obtain ⟨hm, hl, hh⟩ := bToZnx128Core_centred P g x x0 x1 x2 x3 h0 h1 h2 h3
  generalize bToZnx128Core P x0 x1 x2 x3 = r at *
  have hd : (bigQ P : Int) ∣ x - r := (Int.modEq_iff_dvd).mp hm
  obtain ⟨k, hk⟩ := hd
  have hodd : ((bigQ P : Nat) : Int) % 2 = 1 := by exact_mod_cast g.odd
  have hQpos : (0 : Int) < bigQ P := by omega
  have hk0 : k = 0 := by
    by_contra hne
    rcases lt_or_gt_of_ne hne with hneg | hpos
    · have : (bigQ P : Int) * k ≤ (bigQ P : Int) * (-1) := Int.mul_le_mul_of_nonneg_left (by omega) (le_of_lt hQpos)
      omega
    · have : (bigQ P : Int) * 1 ≤ (bigQ P : Int) * k := Int.mul_le_mul_of_nonneg_left (by omega) (le_of_lt hQpos)
      omega
  rw [hk0] at hk; omega

end Ntt120
