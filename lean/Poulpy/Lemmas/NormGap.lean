/-
Helper lemmas for C08: the gap loop (`gapRun`): carry-only middle steps on zero limbs, and why the
Rust may cap it at `ceil(BITS / base2k) + 1` iterations (the carry has reached a fixed point).
-/
import Poulpy.Lemmas.NormRun

namespace NormL

section
variable {bits b lsh : Nat} {H : Int}

/-- one gap step is the exact carry of the carry -/
theorem gapStep_eq (hr : HeadRoom bits b lsh H) {c : Int} (hc : |c| ≤ H + 3) :
    (middleStepS bits b lsh 0 c).2 = bcarry b c ∧ |bcarry b c| ≤ H + 3 := by
  have hb : 1 ≤ b := by have := hr.hlsh; omega
  have hm : 1 ≤ b - lsh := by have := hr.hlsh; omega
  have h0 : |(0 : Int)| ≤ H := by simpa using hr.hH0
  obtain ⟨he, hbd⟩ := middleStepS_eq hr h0 hc
  rw [he]
  simp only [bmod_zero (b - lsh) hm, bcarry_zero (b - lsh) hm, zero_mul, zero_add] at hbd ⊢
  exact ⟨trivial, hbd⟩

theorem gapRun_spec (hr : HeadRoom bits b lsh H) {c : Int} (hc : |c| ≤ H + 3) (g : Nat) :
    |gapRun bits b lsh g c| ≤ H + 3 ∧
    gapRun bits b lsh (g + 1) c = bcarry b (gapRun bits b lsh g c) := by
  induction g with
  | zero => exact ⟨hc, (gapStep_eq hr hc).1⟩
  | succ g ih =>
    have h1 : |gapRun bits b lsh (g + 1) c| ≤ H + 3 := by
      rw [ih.2]; exact (gapStep_eq hr ih.1).2
    exact ⟨h1, (gapStep_eq hr h1).1⟩

/-- a run of gap steps is a middle run over zero limbs -/
theorem middleRun_replicate_zero (g : Nat) (c : Int) :
    (middleRun bits b lsh (List.replicate g 0) c).2 = gapRun bits b lsh g c := by
  induction g with
  | zero => rfl
  | succ g ih => simp only [List.replicate_succ, middleRun, gapRun, ih]

theorem middleRun_append (l1 l2 : List Int) (c : Int) :
    middleRun bits b lsh (l1 ++ l2) c =
      ((middleRun bits b lsh l1 (middleRun bits b lsh l2 c).2).1 ++ (middleRun bits b lsh l2 c).1,
       (middleRun bits b lsh l1 (middleRun bits b lsh l2 c).2).2) := by
  induction l1 with
  | nil => simp [middleRun]
  | cons x rest ih => simp only [List.cons_append, middleRun, ih]

/-- the carry of `g` zero limbs stacked on a discarded block = gap steps on the block's carry -/
theorem carryOnlyRun_gap (hr : HeadRoom bits b lsh H) (D : List Int) (hD : ∀ x ∈ D, |x| ≤ H) (g : Nat) :
    (carryOnlyRun bits b lsh (List.replicate g 0 ++ D)).getD 0
      = gapRun bits b lsh g ((carryOnlyRun bits b lsh D).getD 0) := by
  have hD' : ∀ x ∈ List.replicate g (0 : Int) ++ D, |x| ≤ H := by
    intro x hx
    rcases List.mem_append.mp hx with h | h
    · rw [(List.mem_replicate.mp h).2]; simpa using hr.hH0
    · exact hD x h
  rw [carryOnlyRun_getD hr _ hD', carryOnlyRun_getD hr D hD, middleRun_append, middleRun_replicate_zero]

/-- decay of the carry: `2^(b·t)·(|c_t| − 1) ≤ |c_0|` -/
theorem gapRun_decay (hr : HeadRoom bits b lsh H) {c : Int} (hc : |c| ≤ H + 3) (t : Nat) :
    2 ^ (b * t) * (|gapRun bits b lsh t c| - 1) ≤ |c| := by
  have hb : 1 ≤ b := by have := hr.hlsh; omega
  induction t with
  | zero => simp [gapRun]
  | succ t ih =>
    rw [(gapRun_spec hr hc t).2, pow_mul_succ]
    set x := gapRun bits b lsh t c with hx
    have h1 := bcarry_mul_le hb x
    have h2 := half_le_full hb
    have hp1 : (1 : Int) ≤ 2 ^ (b - 1) := by
      have := two_pow_le (Nat.zero_le (b - 1)); simpa using this
    have hP := two_pow_pos (b * t)
    have h3 : 2 ^ b * (|bcarry b x| - 1) ≤ |x| - 1 := by nlinarith
    have h4 : 2 ^ (b * t) * (2 ^ b * (|bcarry b x| - 1)) ≤ 2 ^ (b * t) * (|x| - 1) :=
      mul_le_mul_of_nonneg_left h3 (le_of_lt hP)
    calc 2 ^ b * 2 ^ (b * t) * (|bcarry b x| - 1)
        = 2 ^ (b * t) * (2 ^ b * (|bcarry b x| - 1)) := by ring
      _ ≤ 2 ^ (b * t) * (|x| - 1) := h4
      _ ≤ |c| := ih

/-- a carry of absolute value at most one is mapped to a fixed point of the gap step -/
theorem bcarry_small_fixed {b : Nat} (hb : 1 ≤ b) {x : Int} (hx : |x| ≤ 1) :
    bcarry b (bcarry b x) = bcarry b x := by
  have hp1 : (1 : Int) ≤ 2 ^ (b - 1) := by
    have := two_pow_le (Nat.zero_le (b - 1)); simpa using this
  have hx' := abs_le.mp hx
  have hcases : x = -1 ∨ x = 0 ∨ x = 1 := by omega
  rcases hcases with rfl | rfl | rfl
  · have : bmod b (-1) = -1 := bmod_of_range hb (by linarith) (by linarith)
    have h0 : bcarry b (-1) = 0 := by unfold bcarry; rw [this]; simp
    rw [h0, bcarry_zero b hb]
  · rw [bcarry_zero b hb, bcarry_zero b hb]
  · by_cases hb1 : b = 1
    · subst hb1
      have : bcarry 1 1 = 1 := by decide
      rw [this, this]
    · have h2 : (2 : Int) ≤ 2 ^ (b - 1) := by
        have := two_pow_le (show 1 ≤ b - 1 by omega); simpa using this
      have : bmod b 1 = 1 := bmod_of_range hb (by linarith) (by linarith)
      have h0 : bcarry b 1 = 0 := by unfold bcarry; rw [this]; simp
      rw [h0, bcarry_zero b hb]

/-- **the cap of the gap loop is sound**: after `gapCap bits b = ⌈bits/b⌉ + 1` steps the carry is a
fixed point, so `min gap cap` steps give the same carry as `gap` steps. -/
theorem gapRun_cap (hr : HeadRoom bits b lsh H) {c : Int} (hc : |c| ≤ H + 3) (g : Nat) :
    gapRun bits b lsh (min g (gapCap bits b)) c = gapRun bits b lsh g c := by
  have hb : 1 ≤ b := by have := hr.hlsh; omega
  set t0 := (bits + b - 1) / b with ht0
  have hcap : gapCap bits b = t0 + 1 := rfl
  -- after t0 steps the carry is at most 1 in absolute value
  have hbt : bits ≤ b * t0 := by
    have h1 := Nat.div_add_mod (bits + b - 1) b
    have h2 := Nat.mod_lt (bits + b - 1) (show b > 0 by omega)
    rw [← ht0] at h1
    omega
  have hsmall : |gapRun bits b lsh t0 c| ≤ 1 := by
    have hd := gapRun_decay hr hc t0
    have hpow : (2 : Int) ^ bits ≤ 2 ^ (b * t0) := two_pow_le hbt
    have hbig : |c| < 2 ^ bits := by
      have h1 := hr.hH
      have h2 : (2 : Int) ^ (bits - 1) ≤ 2 ^ bits := two_pow_le (by omega)
      have h3 := two_pow_pos b
      linarith
    by_contra hne
    have h2 : 2 ≤ |gapRun bits b lsh t0 c| := by omega
    have hP := two_pow_pos (b * t0)
    have : 2 ^ (b * t0) * 1 ≤ 2 ^ (b * t0) * (|gapRun bits b lsh t0 c| - 1) :=
      mul_le_mul_of_nonneg_left (by linarith) (le_of_lt hP)
    linarith
  -- hence a fixed point from t0 + 1 on
  have hfix : ∀ j, gapRun bits b lsh (t0 + 1 + j) c = gapRun bits b lsh (t0 + 1) c := by
    intro j
    induction j with
    | zero => rfl
    | succ j ih =>
      have e : t0 + 1 + (j + 1) = (t0 + 1 + j) + 1 := by omega
      rw [e, (gapRun_spec hr hc (t0 + 1 + j)).2, ih, (gapRun_spec hr hc t0).2]
      exact bcarry_small_fixed hb hsmall
  rw [hcap]
  by_cases hg : g ≤ t0 + 1
  · rw [Nat.min_eq_left hg]
  · rw [Nat.min_eq_right (by omega)]
    obtain ⟨j, rfl⟩ : ∃ j, g = t0 + 1 + j := ⟨g - (t0 + 1), by omega⟩
    exact (hfix j).symm

end

end NormL
