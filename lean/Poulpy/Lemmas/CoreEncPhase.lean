/-
Helper lemmas for C01: the exact phase of a `body :: masks` ciphertext, and the phase identity of
secret-key encryption.
-/
import Poulpy.Lemmas.CoreEncFinish2

namespace CoreEnc
open NormL

/-- `phaseBig` as a structural recursion over (secret, masks) -/
def phaseFold : List Poly → List Col → Col → Col
  | s :: ss, a :: as, acc => phaseFold ss as (Core.colAddSame acc (Core.colMulPoly s a))
  | _, _, acc => acc

theorem phase_fold_aux : ∀ (sk : List Poly) (masks : List Col) (acc : Col), masks.length = sk.length →
    (List.range sk.length).foldl (fun acc i => Core.colAddSame acc (Core.colMulPoly (sk.getD i []) (masks.getD i []))) acc
      = phaseFold sk masks acc := by
  intro sk
  induction sk with
  | nil => intro masks acc _; cases masks <;> simp [phaseFold]
  | cons s ss ih =>
    intro masks acc h
    cases masks with
    | nil => simp at h
    | cons a as =>
      have h' : as.length = ss.length := by simpa using h
      simp only [List.length_cons, List.range_succ_eq_map, List.foldl_cons, List.foldl_map, phaseFold]
      have := ih as (Core.colAddSame acc (Core.colMulPoly s a)) h'
      simpa using this

theorem phaseBig_eq_fold (sk : List Poly) (b k n : Nat) (body : Col) (masks : List Col) (h : masks.length = sk.length) :
    Core.phaseBig sk { base2k := b, k := k, n := n, cols := body :: masks } = phaseFold sk masks body := by
  unfold Core.phaseBig
  simp only [List.getD_cons_zero, List.getD_cons_succ]
  exact phase_fold_aux sk masks body h

theorem colAddSame_spec {n : Nat} (x y : Col) (hx : WF n x) (hy : WF n y) (h : x.length = y.length) :
    (Core.colAddSame x y).length = x.length ∧ WF n (Core.colAddSame x y) ∧
    ∀ t, t < n → coefAt (Core.colAddSame x y) t = List.zipWith (· + ·) (coefAt x t) (coefAt y t) :=
  colZip_spec (n := n) (· + ·) x y hx hy h

theorem phaseFold_val (b n size : Nat) : ∀ (sk : List Poly) (masks : List Col) (acc : Col), masks.length = sk.length →
    acc.length = size → WF n acc → (∀ a ∈ masks, a.length = size ∧ WF n a) →
    (phaseFold sk masks acc).length = size ∧
    ∀ t, t < n → valI b (coefAt (phaseFold sk masks acc) t) = valI b (coefAt acc t) + sumProd b t masks sk := by
  intro sk
  induction sk with
  | nil => intro masks acc _ hl _ _; cases masks <;> simp [phaseFold, sumProd, hl]
  | cons s ss ih =>
    intro masks acc h hl hwf hm
    cases masks with
    | nil => simp at h
    | cons a as =>
      have ha := hm a (by simp)
      obtain ⟨z1, z2, z3⟩ := colAddSame_spec (n := n) acc (Core.colMulPoly s a) hwf (colMulPoly_WF s ha.2)
        (by rw [colMulPoly_length, hl, ha.1])
      obtain ⟨r1, r2⟩ := ih as (Core.colAddSame acc (Core.colMulPoly s a)) (by simpa using h) (by rw [z1, hl]) z2
        (fun x hx => hm x (by simp [hx]))
      refine ⟨by simpa [phaseFold] using r1, ?_⟩
      intro t ht
      simp only [phaseFold, sumProd]
      rw [r2 t ht, z3 t ht, valI_zipWith_add b _ _ (by rw [coefAt_length, coefAt_length, colMulPoly_length, hl, ha.1])]
      ring

end CoreEnc
