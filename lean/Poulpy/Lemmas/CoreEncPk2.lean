/-
Helper lemmas for C01: the column loop of `glwe_encrypt_pk_internal` and the exact phase of a
public-key encryption.
-/
import Poulpy.Lemmas.CoreEncPk

namespace CoreEnc
open NormL

section loop
variable {bits b n size kxe : Nat} {H Hp E : Int}

/-- the columns after the first never receive the plaintext -/
theorem encPkLoop_none (u : Poly) (pt : Option (Col × Nat)) (hpt : PtCol0 pt) :
    ∀ (pks : List Col) (es : List Poly) (i : Nat), 1 ≤ i →
      Core.encPkLoop bits b n size kxe u pt i pks es = Core.encPkLoop bits b n size kxe u none i pks es := by
  intro pks
  induction pks with
  | nil => intro es i _; simp [Core.encPkLoop]
  | cons pk pks ih =>
    intro es i hi
    cases es with
    | nil => simp [Core.encPkLoop]
    | cons e es =>
      have hp : Core.ptForCol pt i = none := by
        cases hpt' : pt with
        | none => rfl
        | some pc =>
          obtain ⟨p, col⟩ := pc
          have := hpt p col hpt'
          subst this
          simp only [Core.ptForCol]
          rw [if_neg (by omega)]
      have hn : Core.ptForCol (none : Option (Col × Nat)) i = none := rfl
      simp only [Core.encPkLoop, hp, hn, ih es (i + 1) (by omega)]

/-- columns `1 … rank` of a public-key encryption: `ct[i] = u⋆pk[i] + e_i·U + 2^(b·size)·K_i` as value polynomials -/
theorem encPkLoop_spec (hbits : bits = 64 ∨ bits = 128) (hr : HeadRoom bits b 0 H) (hb1 : 1 ≤ b) (hb : b ≤ 63) (hk : 1 ≤ kxe)
    (hlimb : errLimb kxe b < size) (u : Poly) (hHp0 : 0 ≤ Hp) (hE0 : 0 ≤ E) (hsum : Hp + E ≤ H) (h63 : Hp + E < 2 ^ 63) :
    ∀ (pks : List Col) (es : List Poly) (i : Nat), pks.length = es.length →
      (∀ pk ∈ pks, pk.length = size ∧ WF n pk ∧ Bounded Hp (Core.colMulPoly u pk)) →
      (∀ e ∈ es, e.length = n ∧ ∀ x ∈ e, |x| ≤ E) →
      ∃ (cts : List Col) (Ks : List Poly), Core.encPkLoop bits b n size kxe u none i pks es = some cts ∧ cts.length = pks.length ∧ Ks.length = pks.length ∧
        (∀ c ∈ cts, c.length = size ∧ WF n c ∧ Bounded (2 ^ (b - 1)) c) ∧ (∀ K ∈ Ks, K.length = n) ∧
        cts.map (valPoly b n) = List.zipWith Hal.polyAdd
          (List.zipWith Hal.polyAdd ((pks.map (valPoly b n)).map (Hal.negMul u)) (es.map (Hal.polyScale (2 ^ (b * (size - 1 - errLimb kxe b))))))
          (Ks.map (Hal.polyScale (2 ^ (b * size)))) := by
  intro pks
  induction pks with
  | nil => intro es i _ _ _; exact ⟨[], [], by simp [Core.encPkLoop], rfl, rfl, by simp, by simp, by simp⟩
  | cons pk pks ih =>
    intro es i hlen hpk he
    cases es with
    | nil => simp at hlen
    | cons e es =>
      obtain ⟨hp1, hp2, hp3⟩ := hpk pk (by simp)
      obtain ⟨he1, he2⟩ := he e (by simp)
      obtain ⟨ci, c1, c2, c3, c4, c5⟩ := encPkCol_spec (M := 0) hbits hr hb1 hb hk hlimb u pk hp1 hp2 hp3 hHp0 e he1 hE0 he2 none
        (by intro p hp; cases hp) (le_refl 0) (by intro p hp; cases hp) (by linarith) (by linarith)
      obtain ⟨cts, Ks, d1, d2, d3, d4, d5, d6⟩ := ih es (i + 1) (by simpa using hlen) (fun x hx => hpk x (by simp [hx])) (fun x hx => he x (by simp [hx]))
      -- the column as a polynomial identity
      have hpoly : ∀ t, t < n → ∃ K : Int, (valPoly b n ci).getD t 0 =
          (Hal.polyAdd (Hal.negMul u (valPoly b n pk)) (Hal.polyScale (2 ^ (b * (size - 1 - errLimb kxe b))) e)).getD t 0 + K * 2 ^ (b * size) := by
        intro t ht
        obtain ⟨K, hK⟩ := c5 t ht
        refine ⟨K, ?_⟩
        rw [valPoly_getD b n ci t ht, hK, polyAdd_getD _ _ n t (by simp [Hal.negMul_length]) (by simp [he1]), polyScale_getD,
          ← valPoly_colMulPoly b n u pk hp2, valPoly_getD b n _ t ht]
        simp [msgValO]; ring
      obtain ⟨K, hKl, hK⟩ := cong_poly (n := n) (M := 2 ^ (b * size)) (ne_of_gt (two_pow_pos _)) (valPoly b n ci) _ (by simp)
        (by simp [Hal.negMul_length, he1]) hpoly
      have hn : Core.ptForCol (none : Option (Col × Nat)) i = none := rfl
      refine ⟨ci :: cts, K :: Ks, by simp [Core.encPkLoop, hn, c1, d1], by simp [d2], by simp [d3], ?_, ?_, ?_⟩
      · intro c hc
        rcases List.mem_cons.mp hc with rfl | hc
        · exact ⟨c2, c3, c4⟩
        · exact d4 c hc
      · intro K' hK'
        rcases List.mem_cons.mp hK' with rfl | hK'
        · exact hKl
        · exact d5 K' hK'
      · simp only [List.map_cons, List.zipWith_cons_cons, d6, hK]

end loop

end CoreEnc
