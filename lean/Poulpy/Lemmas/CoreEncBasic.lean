/-
Helper lemmas for C01 / C19 / C06: transposition between columns and per-coefficient limb lists,
linearity of the value map, well-formedness of columns.
-/
import Poulpy.Lemmas.NormInter
import Poulpy.Lemmas.NegMul
import Poulpy.Model.Core.Enc

namespace CoreEnc
open NormL

/-- every limb of the column has `n` coefficients -/
def WF (n : Nat) (c : Col) : Prop := ∀ l ∈ c, l.length = n

theorem foldl_val (b t : Nat) (a : Col) (acc : Int) :
    a.foldl (fun acc l => acc * 2 ^ b + l.getD t 0) acc = acc * 2 ^ (b * a.length) + valI b (coefAt a t) := by
  induction a generalizing acc with
  | nil => simp [coefAt, valI]
  | cons l rest ih =>
    simp only [List.foldl_cons, ih, coefAt, List.map_cons, valI, List.length_cons, List.length_map]
    rw [Nat.mul_succ, pow_add]; ring

/-- `Core.valCoeff` is the value of the coefficient's limb list -/
theorem valCoeff_eq (b : Nat) (a : Col) (t : Nat) : Core.valCoeff b a t = valI b (coefAt a t) := by
  unfold Core.valCoeff; rw [foldl_val]; simp

theorem coefAt_length (a : Col) (t : Nat) : (coefAt a t).length = a.length := by simp [coefAt]

theorem coefAt_mapCoefs (n size : Nat) (f : Nat → List Int) (t : Nat) (ht : t < n) (hf : (f t).length = size) :
    coefAt (mapCoefs n size f) t = f t := by
  unfold coefAt mapCoefs ofCoefs
  apply List.ext_getElem
  · simp [hf]
  · intro j h1 h2
    simp [List.getD_eq_getElem?_getD, ht, List.getElem?_eq_getElem h2]

theorem mapCoefs_length (n size : Nat) (f : Nat → List Int) : (mapCoefs n size f).length = size := by
  simp [mapCoefs, ofCoefs]

theorem mapCoefs_WF (n size : Nat) (f : Nat → List Int) : WF n (mapCoefs n size f) := by
  intro l hl
  simp [mapCoefs, ofCoefs] at hl
  obtain ⟨j, _, rfl⟩ := hl
  simp

theorem mapM_some' {α β} (l : List α) (f : α → Option β) (g : α → β) (h : ∀ i ∈ l, f i = some (g i)) :
    l.mapM f = some (l.map g) := by
  induction l with
  | nil => rfl
  | cons x rest ih =>
    have hx := h x (by simp)
    have ih' := ih (fun i hi => h i (by simp [hi]))
    simp [List.mapM_cons, hx, ih']

theorem mapCoefs?_congr (n size : Nat) (f : Nat → Option (List Int)) (g : Nat → List Int)
    (h : ∀ i, i < n → f i = some (g i)) : mapCoefs? n size f = some (mapCoefs n size g) := by
  unfold mapCoefs? mapCoefs
  rw [mapM_some' (List.range n) f g (fun i hi => h i (List.mem_range.mp hi))]; rfl

end CoreEnc
