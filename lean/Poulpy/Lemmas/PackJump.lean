import Poulpy.Lemmas.TraceJump
import Poulpy.Lemmas.LweDecrypt
import Poulpy.Props.C02
import Mathlib.Algebra.BigOperators.Ring.Finset

/-!
# The merge tree of ring packing in `ℤ[X]/(X^N+1)`: wraps, values, noise (ring level)

`N = 2^K`, `R = Ks.R N`, `σ_i = sig N (lvl N i)` (the Galois element of trace / packing level `i`), `t_i = N / 2^(i+1)`.
One executed merge of `glwe_pack` at level `i` (`Ks.mergeStep`) satisfies, for a scale `c` and `Q = 2^M`,
`(2c)•φ_out = c•U_i(φ_a, φ_b) + ι Err + (2cQ)•w`, `U_i(a, b) = (1+σ_i) a + X^{t_i}·(1+σ_i) b` (`Lemmas/PackExec.lean`).  This file is the algebra
that composes these relations over the tree:

* `tt`, `sig_mon_self` (`σ_i(X^{t_i}) = −X^{t_i}`), `sig_mon_later` (`σ_j(X^{t_i}) = X^{t_i}`, `j > i`), `traceOp_mon_mul`;
* `U`, its linearity, `U_both` / `U_hi` (the identities behind the three code paths), **`traceOp_U`**:
  `T_{i+1}(U_i(a, b)) = T_i(a) + X^{t_i}·T_i(b)`, `T_i = traceOp [i, …, K−1]`;
* `Wrap K i Λ w` — `T_i(w) ∈ Λ·R`: what an integer wrap that occurred below level `i` is allowed to be; `wrap_scale`
  (`(2^i·m)•w ∈ Wrap i (2^K·m)` by `trace_suffix_dvd`), **`wrap_U`**;
* `UL` (`U` on coefficient lists), `ι_rotP_nat`, `ι_rotP_neg`, `normInf_rotP_le`, `normInf_UL_le`;
* **`packStep_compose`** — one level of the invariant `(2^i c)•φ = c•A + ι Err + w`, `w ∈ Wrap i`;
* `packVal` (the tree operator `A_i(j)`), **`traceOp_packVal`**: `T_i(A_i(j)) = Σ_{k<2^i} X^{k·2^(K−i)}·T_0(φ_{j+k·2^(K−i)})`;
* **`trace_full_coeff0`**: `T_0(ι a) = 2^K·a_0`;
* `errB` (the accumulated error bound) and its closed form;
* **`pack_read_coeff`** — the final relation read at one coefficient.
-/

open Polynomial

namespace PackJump
open TraceJump AutoMul Hal C02L

/-! ### 0. the monomials `X^{t_i}` under the level automorphisms -/

/-- rotation amount (and slot distance) of level `i`: `t_i = N / 2^(i+1)` -/
def tt (K i : ℕ) : ℕ := 2 ^ (K - 1 - i)

theorem tt_mul_lvl (K i j : ℕ) (hij : i ≤ j) (hj : j < K) (m : ℕ) :
    tt K i * (1 + 2 ^ (j + 1) * m) = tt K i + 2 ^ K * (2 ^ (j - i) * m) := by
  have : 2 ^ K * 2 ^ (j - i) = tt K i * 2 ^ (j + 1) := by
    unfold tt; rw [← pow_add, ← pow_add]; congr 1; omega
  rw [← Nat.mul_assoc, this]; ring

/-- `σ_i(X^{t_i}) = −X^{t_i}` -/
theorem sig_mon_self (K i : ℕ) (hi : i < K) :
    sig (2 ^ K) (lvl (2 ^ K) i) (rt (2 ^ K) ^ tt K i) = -rt (2 ^ K) ^ tt K i := by
  obtain ⟨m, hm, e⟩ := lvl_spec K i (by omega)
  have hodd := lvl_odd (2 ^ K) i (by positivity)
  rw [sig_rt_pow _ _ hodd, e, tt_mul_lvl K i i (le_refl _) hi, pow_add, rt_pow_N_mul, Nat.sub_self, pow_zero, one_mul,
    hm.neg_one_pow]
  ring

/-- `σ_j(X^{t_i}) = X^{t_i}` for `j > i` -/
theorem sig_mon_later (K i j : ℕ) (hij : i < j) (hj : j < K) :
    sig (2 ^ K) (lvl (2 ^ K) j) (rt (2 ^ K) ^ tt K i) = rt (2 ^ K) ^ tt K i := by
  obtain ⟨m, _, e⟩ := lvl_spec K j (by omega)
  have hodd := lvl_odd (2 ^ K) j (by positivity)
  have hev : Even (2 ^ (j - i) * m) := by
    obtain ⟨d, hd⟩ : ∃ d, j - i = d + 1 := ⟨j - i - 1, by omega⟩
    rw [hd, pow_succ, Nat.mul_comm (2 ^ d) 2, Nat.mul_assoc]
    exact even_two_mul _
  rw [sig_rt_pow _ _ hodd, e, tt_mul_lvl K i j (le_of_lt hij) hj, pow_add, rt_pow_N_mul, hev.neg_one_pow, mul_one]

theorem step_mon_mul (K i j : ℕ) (hij : i < j) (hj : j < K) (y : Ks.R (2 ^ K)) :
    step (2 ^ K) j (rt (2 ^ K) ^ tt K i * y) = rt (2 ^ K) ^ tt K i * step (2 ^ K) j y := by
  unfold step
  rw [map_mul, sig_mon_later K i j hij hj]; ring

/-- the later levels commute with the multiplication by `X^{t_i}` -/
theorem traceOp_mon_mul (K i : ℕ) (l : List ℕ) (hl : ∀ j ∈ l, i < j ∧ j < K) (y : Ks.R (2 ^ K)) :
    traceOp (2 ^ K) l (rt (2 ^ K) ^ tt K i * y) = rt (2 ^ K) ^ tt K i * traceOp (2 ^ K) l y := by
  induction l generalizing y with
  | nil => rfl
  | cons j l ih =>
    obtain ⟨h1, h2⟩ := hl j List.mem_cons_self
    rw [traceOp_cons, traceOp_cons, step_mon_mul K i j h1 h2, ih (fun j' hj' => hl j' (List.mem_cons_of_mem _ hj'))]

/-! ### 1. the merge operator `U_i` -/

/-- `U_i(a, b) = (1+σ_i) a + X^{t_i}·(1+σ_i) b` -/
noncomputable def U (K i : ℕ) (a b : Ks.R (2 ^ K)) : Ks.R (2 ^ K) :=
  step (2 ^ K) i a + rt (2 ^ K) ^ tt K i * step (2 ^ K) i b

theorem U_zero (K i : ℕ) : U K i 0 0 = 0 := by simp [U, step_zero]

theorem U_add (K i : ℕ) (a a' b b' : Ks.R (2 ^ K)) : U K i (a + a') (b + b') = U K i a b + U K i a' b' := by
  simp only [U, step_add]; ring

theorem U_zsmul (K i : ℕ) (c : ℤ) (a b : Ks.R (2 ^ K)) : U K i (c • a) (c • b) = c • U K i a b := by
  simp only [U, step_zsmul, smul_add, mul_smul_comm]

/-- the `both` code path: with `a = X^t·a1`, `X^t·[(a1 + b) − σ_i(a1 − b)] = U_i(a, b)` -/
theorem U_both (K i : ℕ) (hi : i < K) (a a1 b : Ks.R (2 ^ K)) (ha : rt (2 ^ K) ^ tt K i * a1 = a) :
    rt (2 ^ K) ^ tt K i * ((a1 + b) - sig (2 ^ K) (lvl (2 ^ K) i) (a1 - b)) = U K i a b := by
  have h1 : sig (2 ^ K) (lvl (2 ^ K) i) a = -(rt (2 ^ K) ^ tt K i * sig (2 ^ K) (lvl (2 ^ K) i) a1) := by
    rw [← ha, map_mul, sig_mon_self K i hi]; ring
  unfold U step
  rw [h1, ← ha, map_sub]; ring

/-- the `only b` code path: `(1 − σ_i)(X^t·b) = U_i(0, b)` -/
theorem U_hi (K i : ℕ) (hi : i < K) (b : Ks.R (2 ^ K)) :
    rt (2 ^ K) ^ tt K i * b - sig (2 ^ K) (lvl (2 ^ K) i) (rt (2 ^ K) ^ tt K i * b) = U K i 0 b := by
  unfold U step
  rw [map_mul, sig_mon_self K i hi, map_zero]; ring

/-- **`T_{i+1}(U_i(a, b)) = T_i(a) + X^{t_i}·T_i(b)`** -/
theorem traceOp_U (K i : ℕ) (hi : i < K) (a b : Ks.R (2 ^ K)) :
    traceOp (2 ^ K) (List.range' (i + 1) (K - (i + 1))) (U K i a b)
      = traceOp (2 ^ K) (List.range' i (K - i)) a + rt (2 ^ K) ^ tt K i * traceOp (2 ^ K) (List.range' i (K - i)) b := by
  have e : K - i = (K - (i + 1)) + 1 := by omega
  rw [e, List.range'_succ, traceOp_cons, traceOp_cons]
  unfold U
  rw [traceOp_add, traceOp_mon_mul K i _ (fun j hj => by
    rw [List.mem_range'_1] at hj
    omega)]

/-! ### 2. the wraps -/

/-- `w` may be a wrap below level `i`: the remaining levels map it into `Λ·R` -/
def Wrap (K i : ℕ) (Λ : ℤ) (w : Ks.R (2 ^ K)) : Prop :=
  ∃ y, traceOp (2 ^ K) (List.range' i (K - i)) w = Λ • y

theorem Wrap.zero (K i : ℕ) (Λ : ℤ) : Wrap K i Λ 0 := ⟨0, by rw [traceOp_zero, smul_zero]⟩

theorem Wrap.add {K i : ℕ} {Λ : ℤ} {w w' : Ks.R (2 ^ K)} (h : Wrap K i Λ w) (h' : Wrap K i Λ w') : Wrap K i Λ (w + w') := by
  obtain ⟨y, e⟩ := h
  obtain ⟨y', e'⟩ := h'
  exact ⟨y + y', by rw [traceOp_add, e, e', smul_add]⟩

theorem Wrap.zsmul {K i : ℕ} {Λ : ℤ} {w : Ks.R (2 ^ K)} (h : Wrap K i Λ w) (c : ℤ) : Wrap K i Λ (c • w) := by
  obtain ⟨y, e⟩ := h
  exact ⟨c • y, by rw [traceOp_zsmul, e, smul_comm]⟩

/-- at the top (`i = K`) a wrap is a multiple of `Λ` -/
theorem Wrap.top {K : ℕ} {Λ : ℤ} {w : Ks.R (2 ^ K)} (h : Wrap K K Λ w) : ∃ y, w = Λ • y := by
  obtain ⟨y, e⟩ := h
  rw [Nat.sub_self, List.range'_zero, traceOp_nil] at e
  exact ⟨y, e⟩

/-- **`wrap_scale`**: a multiple of `2^i·m` is a wrap below level `i` for `Λ = 2^K·m` (`T_i` maps `R` into `2^(K−i)·R`) -/
theorem wrap_scale (K i : ℕ) (hi : i ≤ K) (m : ℤ) (w0 : Ks.R (2 ^ K)) : Wrap K i (2 ^ K * m) ((2 ^ i * m) • w0) := by
  obtain ⟨y, e⟩ := trace_suffix_dvd K i hi w0
  refine ⟨y, ?_⟩
  rw [traceOp_zsmul, e]
  have : (2 : ℤ) ^ K = 2 ^ i * 2 ^ (K - i) := by rw [← pow_add]; congr 1; omega
  rw [this]
  simp only [nsmul_eq_mul, zsmul_eq_mul]; push_cast; ring

/-- **`wrap_U`**: the merge of two wraps below level `i` is a wrap below level `i + 1` -/
theorem wrap_U (K i : ℕ) (hi : i < K) (Λ : ℤ) (wa wb : Ks.R (2 ^ K)) (ha : Wrap K i Λ wa) (hb : Wrap K i Λ wb) :
    Wrap K (i + 1) Λ (U K i wa wb) := by
  obtain ⟨ya, ea⟩ := ha
  obtain ⟨yb, eb⟩ := hb
  refine ⟨ya + rt (2 ^ K) ^ tt K i * yb, ?_⟩
  rw [traceOp_U K i hi, ea, eb, smul_add, mul_smul_comm]

/-- the wrap handed to the trace tail: `T_i(w)` is a multiple of `Λ` -/
theorem Wrap.trace {K i : ℕ} {Λ : ℤ} {w : Ks.R (2 ^ K)} (h : Wrap K i Λ w) :
    ∃ y, traceOp (2 ^ K) (List.range' i (K - i)) w = Λ • y := h

/-! ### 3. `U` on coefficient lists -/

/-- `ι (X^n·a) = X^n·ι a` (the executable's exact rotation) -/
theorem ι_rotP_nat (N : ℕ) (hN : 0 < N) (n : ℕ) (a : Poly) (ha : a.length = N) :
    Ks.ι N (rotP (n : ℤ) a) = rt N ^ n * Ks.ι N a := by
  induction n with
  | zero =>
    have : rotP ((0 : ℕ) : ℤ) a = a := rotate_zero id a
    rw [this, pow_zero, one_mul]
  | succ n ih =>
    have e : rotP ((n + 1 : ℕ) : ℤ) a = _root_.mulX (rotP (n : ℤ) a) := by
      rw [mulX_eq_rotate]
      show rotP _ a = rotP 1 (rotP (n : ℤ) a)
      unfold rotP
      rw [rotate_add negOnId 1 (n : ℤ) a (allPTrue a)]
      congr 1; push_cast; ring
    rw [e, pow_succ]
    have h := mk_mulX N (rotP (n : ℤ) a) (by rw [rotP_length, ha]) hN
    unfold Ks.ι at ih ⊢
    rw [h, ih]
    show rt N * (rt N ^ n * _) = rt N ^ n * rt N * _
    ring

/-- `X^n·ι (X^{−n}·a) = ι a` -/
theorem ι_rotP_neg (N : ℕ) (hN : 0 < N) (n : ℕ) (a : Poly) (ha : a.length = N) :
    rt N ^ n * Ks.ι N (rotP (-(n : ℤ)) a) = Ks.ι N a := by
  rw [← ι_rotP_nat N hN n _ (by rw [rotP_length, ha])]
  congr 1
  unfold rotP
  rw [rotate_add negOnId _ _ a (allPTrue a), show (n : ℤ) + -(n : ℤ) = 0 by ring, rotate_zero]

theorem normInf_rotP_le (k : ℤ) (a : Poly) : normInf (rotP k a) ≤ normInf a := by
  apply normInf_le_of_forall _ (normInf_nonneg a)
  intro x hx
  obtain ⟨t, ht, rfl⟩ := List.mem_iff_getElem.mp hx
  rw [rotP_length] at ht
  obtain ⟨s, _, ε, hε, h⟩ := C02L.rotP_coef k a t ht
  have := h a rfl
  rw [List.getD_eq_getElem?_getD, List.getElem?_eq_getElem (by rw [rotP_length]; exact ht), Option.getD_some] at this
  rw [this, abs_mul]
  have h1 : |ε| = 1 := by rcases hε with rfl | rfl <;> simp
  rw [h1, one_mul]
  exact KsDec.abs_getD_le_normInf a s

/-- `U_i` on coefficient lists: `g` the Galois element, `t = t_i` -/
def UL (g : ℤ) (t : ℕ) (a b : Poly) : Poly := polyAdd (stepL g a) (rotP (t : ℤ) (stepL g b))

theorem UL_length (g : ℤ) (t : ℕ) (a b : Poly) (h : a.length = b.length) : (UL g t a b).length = a.length := by
  simp [UL, stepL_length, rotP_length, h]

theorem ι_UL (K i : ℕ) (g : ℤ) (hg : IsLvl (2 ^ K) g i) (a b : Poly) (ha : a.length = 2 ^ K) (hb : b.length = 2 ^ K) :
    Ks.ι (2 ^ K) (UL g (tt K i) a b) = U K i (Ks.ι (2 ^ K) a) (Ks.ι (2 ^ K) b) := by
  have hN : 0 < 2 ^ K := by positivity
  unfold UL U
  rw [Ks.ι_add _ _ _ (by rw [rotP_length, stepL_length, stepL_length, ha, hb]),
    ι_rotP_nat _ hN _ _ (by rw [stepL_length, hb]), ι_stepL _ hN g i hg a ha, ι_stepL _ hN g i hg b hb]

theorem normInf_UL_le (N : ℕ) (hN : 0 < N) (g : ℤ) (hg : GalOk g N) (t : ℕ) (a b : Poly) (ha : a.length = N) (hb : b.length = N) :
    normInf (UL g t a b) ≤ 2 * normInf a + 2 * normInf b := by
  have h1 := normInf_polyAdd_le (stepL g a) (rotP (t : ℤ) (stepL g b))
  have h2 := normInf_stepL_le g a (by omega) (by rw [ha]; exact hg)
  have h3 := normInf_stepL_le g b (by omega) (by rw [hb]; exact hg)
  have h4 := normInf_rotP_le (t : ℤ) (stepL g b)
  unfold UL; omega

/-! ### 4. one level of the invariant -/

/-- one level, in the ring: the slot invariants `(2^i c)•φ = c•A + E + w`, `w ∈ Wrap i`, of the two operands and the relation
`(2c)•φ_r = c•U_i(φ_a, φ_b) + E + (2cQ)•w0` of the merge give the invariant of the result at level `i + 1` -/
theorem packStep_ring (K i : ℕ) (hi : i < K) (c Q : ℤ) (pa pb pr Aa Ab Ea Eb E wa wb w0 : Ks.R (2 ^ K))
    (ha : (2 ^ i * c) • pa = c • Aa + Ea + wa) (hwa : Wrap K i (2 ^ K * (c * Q)) wa)
    (hb : (2 ^ i * c) • pb = c • Ab + Eb + wb) (hwb : Wrap K i (2 ^ K * (c * Q)) wb)
    (hm : (2 * c) • pr = c • U K i pa pb + E + (2 * c * Q) • w0) :
    ∃ w, Wrap K (i + 1) (2 ^ K * (c * Q)) w ∧
      (2 ^ (i + 1) * c) • pr = c • U K i Aa Ab + (U K i Ea Eb + (2 ^ i : ℤ) • E) + w := by
  refine ⟨U K i wa wb + (2 ^ (i + 1) * (c * Q)) • w0, (wrap_U K i hi _ wa wb hwa hwb).add (wrap_scale K (i + 1) hi (c * Q) w0), ?_⟩
  have h1 : (2 ^ (i + 1) * c) • pr = (2 ^ i : ℤ) • ((2 * c) • pr) := by rw [smul_smul]; congr 1; ring
  have h2 : (2 ^ i : ℤ) • (c • U K i pa pb) = U K i ((2 ^ i * c) • pa) ((2 ^ i * c) • pb) := by
    rw [U_zsmul, smul_smul]
  rw [h1, hm, smul_add, smul_add, h2, ha, hb, U_add, U_add, U_zsmul, smul_smul]
  have : (2 : ℤ) ^ i * (2 * c * Q) = 2 ^ (i + 1) * (c * Q) := by ring
  rw [this]; abel

/-- **`packStep_compose`** — one level of the invariant with the errors as coefficient lists:
`‖Err'‖∞ ≤ 2‖Err_a‖∞ + 2‖Err_b‖∞ + 2^i‖E‖∞` -/
theorem packStep_compose (K i : ℕ) (hi : i < K) (c Q : ℤ) (g : ℤ) (hg : IsLvl (2 ^ K) g i)
    (pa pb pr Aa Ab wa wb w0 : Ks.R (2 ^ K)) (EaL EbL EL : Poly)
    (hEa : EaL.length = 2 ^ K) (hEb : EbL.length = 2 ^ K) (hE : EL.length = 2 ^ K)
    (ha : (2 ^ i * c) • pa = c • Aa + Ks.ι (2 ^ K) EaL + wa) (hwa : Wrap K i (2 ^ K * (c * Q)) wa)
    (hb : (2 ^ i * c) • pb = c • Ab + Ks.ι (2 ^ K) EbL + wb) (hwb : Wrap K i (2 ^ K * (c * Q)) wb)
    (hm : (2 * c) • pr = c • U K i pa pb + Ks.ι (2 ^ K) EL + (2 * c * Q) • w0) :
    ∃ (ErrL : Poly) (w : Ks.R (2 ^ K)), ErrL.length = 2 ^ K ∧
      normInf ErrL ≤ 2 * normInf EaL + 2 * normInf EbL + 2 ^ i * normInf EL ∧
      Wrap K (i + 1) (2 ^ K * (c * Q)) w ∧
      (2 ^ (i + 1) * c) • pr = c • U K i Aa Ab + Ks.ι (2 ^ K) ErrL + w := by
  have hN : 0 < 2 ^ K := by positivity
  obtain ⟨w, hw, e⟩ := packStep_ring K i hi c Q pa pb pr Aa Ab _ _ _ wa wb w0 ha hwa hb hwb hm
  refine ⟨polyAdd (UL g (tt K i) EaL EbL) (polyScale (2 ^ i) EL), w, ?_, ?_, hw, ?_⟩
  · simp [UL_length g _ EaL EbL (hEa.trans hEb.symm), hEa, hE]
  · have h1 := normInf_polyAdd_le (UL g (tt K i) EaL EbL) (polyScale (2 ^ i) EL)
    have h2 := normInf_UL_le (2 ^ K) hN g hg.1 (tt K i) EaL EbL hEa hEb
    have h3 : normInf (polyScale (2 ^ i) EL) = 2 ^ i * normInf EL := by
      rw [normInf_polyScale, abs_of_nonneg (by positivity)]
    omega
  · rw [Ks.ι_add _ _ _ (by simp [UL_length g _ EaL EbL (hEa.trans hEb.symm), hEa, hE]), ι_UL K i g hg EaL EbL hEa hEb,
      Ks.ι_polyScale, e]
    simp only [zsmul_eq_mul]

/-! ### 5. the tree operator and its trace -/

/-- `A_i(j)`: the noise-free content of slot `j` after `i` levels, `A_0 = φ`, `A_{i+1}(j) = U_i(A_i(j), A_i(j + t_i))` -/
noncomputable def packVal (K : ℕ) (φ : ℕ → Ks.R (2 ^ K)) : ℕ → ℕ → Ks.R (2 ^ K)
  | 0, j => φ j
  | i + 1, j => U K i (packVal K φ i j) (packVal K φ i (j + tt K i))

theorem sum_range_even_odd {M : Type*} [AddCommMonoid M] (f : ℕ → M) (n : ℕ) :
    ∑ k ∈ Finset.range (2 * n), f k = ∑ k ∈ Finset.range n, f (2 * k) + ∑ k ∈ Finset.range n, f (2 * k + 1) := by
  induction n with
  | zero => simp
  | succ n ih =>
    rw [show 2 * (n + 1) = 2 * n + 1 + 1 by ring, Finset.sum_range_succ, Finset.sum_range_succ, ih, Finset.sum_range_succ,
      Finset.sum_range_succ]
    abel

/-- **`T_i(A_i(j)) = Σ_{k < 2^i} X^{k·2^(K−i)} · T_0(φ_{j + k·2^(K−i)})`**: after `i` levels slot `j` carries, under the remaining trace,
the full traces of the `2^i` input slots `j + k·2^(K−i)`, each at its own position -/
theorem traceOp_packVal (K : ℕ) (φ : ℕ → Ks.R (2 ^ K)) (i : ℕ) (hi : i ≤ K) (j : ℕ) :
    traceOp (2 ^ K) (List.range' i (K - i)) (packVal K φ i j)
      = ∑ k ∈ Finset.range (2 ^ i), rt (2 ^ K) ^ (k * 2 ^ (K - i)) *
          traceOp (2 ^ K) (List.range' 0 K) (φ (j + k * 2 ^ (K - i))) := by
  induction i generalizing j with
  | zero => simp [packVal]
  | succ i ih =>
    have hi' : i < K := hi
    have e2 : 2 ^ (K - i) = 2 * 2 ^ (K - (i + 1)) := by
      rw [show K - i = (K - (i + 1)) + 1 by omega, pow_succ]; ring
    have et : tt K i = 2 ^ (K - (i + 1)) := by unfold tt; congr 1; omega
    rw [packVal, traceOp_U K i hi', ih (by omega), ih (by omega), pow_succ, Nat.mul_comm (2 ^ i) 2, sum_range_even_odd,
      Finset.mul_sum]
    congr 1
    · apply Finset.sum_congr rfl
      intro k _
      rw [e2, show 2 * k * 2 ^ (K - (i + 1)) = k * (2 * 2 ^ (K - (i + 1))) by ring]
    · apply Finset.sum_congr rfl
      intro k _
      rw [e2, et, ← mul_assoc, ← pow_add]
      congr 2
      · ring
      · congr 1; ring

/-! ### 6. the full trace reads the constant coefficient -/

theorem traceOp_of_step_zero (N : ℕ) (i : ℕ) (l : List ℕ) (hi : i ∈ l) (x : Ks.R N) (h : step N i x = 0) : traceOp N l x = 0 := by
  induction l generalizing x with
  | nil => simp at hi
  | cons i' l ih =>
    rw [traceOp_cons]
    rcases List.mem_cons.mp hi with rfl | hi
    · rw [h, traceOp_zero]
    · exact ih hi _ (by rw [step_comm, h, step_zero])

/-- the full trace kills every monomial `X^t`, `0 < t < N` -/
theorem trace_full_mon (K t : ℕ) (h0 : 0 < t) (ht : t < 2 ^ K) : traceOp (2 ^ K) (List.range' 0 K) (rt (2 ^ K) ^ t) = 0 := by
  obtain ⟨s, u, hu, rfl⟩ : ∃ s u, Odd u ∧ t = 2 ^ s * u := by
    obtain ⟨s, u, hu, e⟩ := Nat.exists_eq_two_pow_mul_odd (Nat.pos_iff_ne_zero.mp h0)
    exact ⟨s, u, hu, e⟩
  have hs : s < K := by
    by_contra hs
    have h1 : 2 ^ K ≤ 2 ^ s := Nat.pow_le_pow_right (by norm_num) (by omega)
    have h2 : 1 ≤ u := hu.pos
    have : 2 ^ s * 1 ≤ 2 ^ s * u := Nat.mul_le_mul_left _ h2
    omega
  apply traceOp_of_step_zero _ (K - 1 - s) _ (by rw [List.mem_range'_1]; omega)
  rw [step_mon K s u hs, if_neg (Nat.not_even_iff_odd.mpr hu)]

theorem trace_full_one (K : ℕ) : traceOp (2 ^ K) (List.range' 0 K) (1 : Ks.R (2 ^ K)) = 2 ^ K • (1 : Ks.R (2 ^ K)) := by
  have key : ∀ (l : List ℕ) (x : Ks.R (2 ^ K)), (∀ i, step (2 ^ K) i x = 2 • x) → traceOp (2 ^ K) l x = 2 ^ l.length • x := by
    intro l
    induction l with
    | nil => intro x _; simp
    | cons i l ih =>
      intro x hx
      rw [traceOp_cons, hx, traceOp_nsmul, ih x hx, smul_smul, List.length_cons, pow_succ, Nat.mul_comm]
  have := key (List.range' 0 K) 1 (fun i => by unfold step; rw [map_one, two_nsmul])
  rwa [List.length_range'] at this

/-- the class of a coefficient list is the combination of the monomials -/
theorem ι_eq_sum (N : ℕ) (a : Poly) : Ks.ι N a = ∑ t ∈ Finset.range a.length, (a.getD t 0) • rt N ^ t := by
  unfold Ks.ι
  induction a with
  | nil => simp [toPoly]
  | cons x a ih =>
    rw [toPoly, map_add, map_mul, ih, List.length_cons, Finset.sum_range_succ', Finset.mul_sum, add_comm]
    congr 1
    · apply Finset.sum_congr rfl
      intro t _
      rw [AdjoinRoot.mk_X, List.getD_cons_succ, pow_succ]
      simp only [zsmul_eq_mul]; ring
    · rw [AdjoinRoot.mk_C]; simp

/-- **`trace_full_coeff0`**: the full trace of the class of a coefficient list is `2^K` times its constant coefficient -/
theorem trace_full_coeff0 (K : ℕ) (a : Poly) (ha : a.length = 2 ^ K) :
    traceOp (2 ^ K) (List.range' 0 K) (Ks.ι (2 ^ K) a) = (2 ^ K * a.getD 0 0 : ℤ) • (1 : Ks.R (2 ^ K)) := by
  have hsum : ∀ (n : ℕ) (f : ℕ → Ks.R (2 ^ K)), traceOp (2 ^ K) (List.range' 0 K) (∑ t ∈ Finset.range n, f t)
      = ∑ t ∈ Finset.range n, traceOp (2 ^ K) (List.range' 0 K) (f t) := by
    intro n f
    induction n with
    | zero => simp [traceOp_zero]
    | succ n ih => rw [Finset.sum_range_succ, Finset.sum_range_succ, traceOp_add, ih]
  have hpos : 0 < 2 ^ K := by positivity
  obtain ⟨n, hn⟩ : ∃ n, 2 ^ K = n + 1 := ⟨2 ^ K - 1, by omega⟩
  have hr : Finset.range (2 ^ K) = Finset.range (n + 1) := by rw [hn]
  rw [ι_eq_sum, hsum, ha, hr, Finset.sum_range_succ', Finset.sum_eq_zero, zero_add, pow_zero,
    traceOp_zsmul, trace_full_one]
  · simp only [nsmul_eq_mul, zsmul_eq_mul]; push_cast; ring
  · intro t ht
    rw [Finset.mem_range] at ht
    rw [traceOp_zsmul, trace_full_mon K (t + 1) (by omega) (by omega), smul_zero]

/-! ### 7. the accumulated error bound -/

/-- bound on the error list of a slot after `i` levels, relative to the scale `2^i·c`: the errors of the two merged subtrees double
(`‖(1+σ)e‖ ≤ 2‖e‖`), the merge of level `i` (error `≤ β i` relative to `2c`) enters scaled by `2^i` -/
def errB (β : ℕ → ℤ) : ℕ → ℤ
  | 0 => 0
  | i + 1 => 4 * errB β i + 2 ^ i * β i

theorem errB_nonneg (β : ℕ → ℤ) (hβ : ∀ i, 0 ≤ β i) (i : ℕ) : 0 ≤ errB β i := by
  induction i with
  | zero => exact le_refl _
  | succ i ih =>
    have := hβ i
    have h2 : (0 : ℤ) ≤ 2 ^ i := by positivity
    unfold errB; nlinarith

/-- closed form: `errB β L = 2^(L−1)·Σ_{i<L} 2^(L−1−i)·β_i`, i.e. relative to the scale `2^L·c` the error is at most
`Σ_i (number of merges of level i in the subtree) · β_i / (2c)` -/
theorem errB_closed (β : ℕ → ℤ) (L : ℕ) : 2 * errB β L = 2 ^ L * ∑ i ∈ Finset.range L, 2 ^ (L - 1 - i) * β i := by
  induction L with
  | zero => simp [errB]
  | succ L ih =>
    have e : ∑ i ∈ Finset.range L, (2 : ℤ) ^ (L + 1 - 1 - i) * β i = 2 * ∑ i ∈ Finset.range L, 2 ^ (L - 1 - i) * β i := by
      rw [Finset.mul_sum]
      apply Finset.sum_congr rfl
      intro i hi
      rw [Finset.mem_range] at hi
      rw [show L + 1 - 1 - i = (L - 1 - i) + 1 by omega, pow_succ]; ring
    rw [Finset.sum_range_succ, e, show L + 1 - 1 - L = 0 by omega, pow_zero, one_mul]
    unfold errB
    rw [pow_succ]
    linear_combination (4 : ℤ) * ih

/-! ### 8. reading the final relation at one coefficient -/

/-- the class of the list carrying `v k` at the positions `k·G`, `k < n`, zero elsewhere -/
def slotList (N G n : ℕ) (v : ℕ → ℤ) : Poly :=
  (List.range N).map (fun J => if J % G = 0 ∧ J / G < n then v (J / G) else 0)

theorem slotList_length (N G n : ℕ) (v : ℕ → ℤ) : (slotList N G n v).length = N := by simp [slotList]

theorem slotList_getD (N G n : ℕ) (v : ℕ → ℤ) (J : ℕ) (hJ : J < N) :
    (slotList N G n v).getD J 0 = if J % G = 0 ∧ J / G < n then v (J / G) else 0 := by
  simp [slotList, List.getD_eq_getElem?_getD, hJ]

theorem ι_slotList (N G n : ℕ) (hG : 0 < G) (hn : n * G ≤ N) (v : ℕ → ℤ) :
    Ks.ι N (slotList N G n v) = ∑ k ∈ Finset.range n, (v k) • rt N ^ (k * G) := by
  rw [ι_eq_sum, slotList_length]
  have h1 : ∀ t ∈ Finset.range N, ((slotList N G n v).getD t 0) • rt N ^ t
      = ∑ k ∈ Finset.range n, if t = k * G then (v k) • rt N ^ (k * G) else 0 := by
    intro t ht
    rw [Finset.mem_range] at ht
    rw [slotList_getD N G n v t ht]
    by_cases hc : t % G = 0 ∧ t / G < n
    · rw [if_pos hc, Finset.sum_eq_single (t / G)]
      · have : t = t / G * G := by
          have := Nat.div_add_mod t G
          rw [hc.1, Nat.add_zero, Nat.mul_comm] at this
          exact this.symm
        rw [if_pos this, ← this]
      · intro k _ hk
        rw [if_neg]
        intro e
        apply hk
        rw [e, Nat.mul_div_cancel _ hG]
      · intro h
        exact absurd (Finset.mem_range.mpr hc.2) h
    · rw [if_neg hc, zero_smul, Finset.sum_eq_zero]
      intro k hk
      rw [Finset.mem_range] at hk
      rw [if_neg]
      intro e
      apply hc
      rw [e, Nat.mul_mod_left, Nat.mul_div_cancel _ hG]
      exact ⟨rfl, hk⟩
  rw [Finset.sum_congr rfl h1, Finset.sum_comm]
  apply Finset.sum_congr rfl
  intro k hk
  rw [Finset.mem_range] at hk
  rw [Finset.sum_ite_eq' (Finset.range N) (k * G)]
  rw [if_pos]
  rw [Finset.mem_range]
  calc k * G < n * G := Nat.mul_lt_mul_of_pos_right hk hG
    _ ≤ N := hn

/-- **`pack_read_coeff`** — the final ring relation `Λ₀•ι P = c•Σ_k X^{k·G}·(Λ₁•u_k) + ι Err + (Λ₀·Q)•z`, `Λ₀ = Λ₁·c`, read at coefficient `J`:
`P[J] = (u_{J/G} if G ∣ J, else 0) + e + Q·q` with `Λ₀·|e| ≤ ‖Err‖∞` -/
theorem pack_read_coeff (N G n : ℕ) (hN : 0 < N) (hG : 0 < G) (hn : n * G ≤ N) (c Λ₁ Q : ℤ) (hΛ : 0 < Λ₁ * c) (u : ℕ → ℤ)
    (P Err : Poly) (z : Ks.R N) (hP : P.length = N) (hErr : Err.length = N)
    (h : (Λ₁ * c) • Ks.ι N P
      = c • (∑ k ∈ Finset.range n, rt N ^ (k * G) * ((Λ₁ * u k : ℤ) • (1 : Ks.R N))) + Ks.ι N Err + (Λ₁ * c * Q) • z)
    (J : ℕ) (hJ : J < N) :
    ∃ e q : ℤ, P.getD J 0 = (if J % G = 0 ∧ J / G < n then u (J / G) else 0) + e + Q * q ∧ (Λ₁ * c) * |e| ≤ normInf Err := by
  have hs : (∑ k ∈ Finset.range n, rt N ^ (k * G) * ((Λ₁ * u k : ℤ) • (1 : Ks.R N)))
      = Ks.ι N (slotList N G n (fun k => Λ₁ * u k)) := by
    rw [ι_slotList N G n hG hn]
    apply Finset.sum_congr rfl
    intro k _
    simp only [zsmul_eq_mul]; ring
  rw [hs] at h
  have h' : ((Λ₁ * c : ℤ) : Ks.R N) * Ks.ι N P
      = ((c : ℤ) : Ks.R N) * Ks.ι N (slotList N G n (fun k => Λ₁ * u k)) + Ks.ι N Err + ((Λ₁ * c * Q : ℤ) : Ks.R N) * z := by
    simpa only [zsmul_eq_mul] using h
  obtain ⟨q, hq⟩ := KsDec.ring_to_coeff N hN P (slotList N G n (fun k => Λ₁ * u k)) Err z (Λ₁ * c) c (Λ₁ * c * Q) hP
    (slotList_length _ _ _ _) hErr h' J
  rw [slotList_getD N G n _ J hJ] at hq
  refine ⟨P.getD J 0 - (if J % G = 0 ∧ J / G < n then u (J / G) else 0) - Q * q, q, by ring, ?_⟩
  have hE : Err.getD J 0 = (Λ₁ * c) * (P.getD J 0 - (if J % G = 0 ∧ J / G < n then u (J / G) else 0) - Q * q) := by
    by_cases hc : J % G = 0 ∧ J / G < n
    · rw [if_pos hc] at hq ⊢; linear_combination (-1 : ℤ) * hq
    · rw [if_neg hc] at hq ⊢; linear_combination (-1 : ℤ) * hq
  have := KsDec.abs_getD_le_normInf Err J
  rw [hE, abs_mul, abs_of_pos hΛ] at this
  exact this

/-! ### 9. closed instances, `N = 2 = 2^1` (one level, `g_0 = −1`, `t_0 = 1`) and `N = 4` -/

example : tt 1 0 = 1 := rfl
example : tt 2 0 = 2 ∧ tt 2 1 = 1 := ⟨rfl, rfl⟩

/-- `σ_{−1}(X) = −X` in `ℤ[X]/(X^2+1)` -/
example : sig (2 ^ 1) (lvl (2 ^ 1) 0) (rt (2 ^ 1) ^ tt 1 0) = -rt (2 ^ 1) ^ tt 1 0 := sig_mon_self 1 0 (by norm_num)

/-- level 1 of `N = 4` (`g_1 = 5`) fixes `X^{t_0} = X^2` -/
example : sig (2 ^ 2) (lvl (2 ^ 2) 1) (rt (2 ^ 2) ^ tt 2 0) = rt (2 ^ 2) ^ tt 2 0 := sig_mon_later 2 0 1 (by norm_num) (by norm_num)

/-- the full trace of `3 + 7X` over `ℤ[X]/(X^2+1)` is `2·3` -/
example : traceOp (2 ^ 1) (List.range' 0 1) (Ks.ι (2 ^ 1) [3, 7]) = (2 ^ 1 * 3 : ℤ) • (1 : Ks.R (2 ^ 1)) :=
  trace_full_coeff0 1 [3, 7] rfl

/-- one merge level of `N = 2` packs the two constant coefficients: `T_1(U_0(a, b)) = T_0(a) + X·T_0(b)` -/
example (a b : Ks.R (2 ^ 1)) :
    traceOp (2 ^ 1) (List.range' 1 (1 - 1)) (U 1 0 a b)
      = traceOp (2 ^ 1) (List.range' 0 (1 - 0)) a + rt (2 ^ 1) ^ tt 1 0 * traceOp (2 ^ 1) (List.range' 0 (1 - 0)) b :=
  traceOp_U 1 0 (by norm_num) a b

example : errB (fun _ => 1) 2 = 6 := by decide

end PackJump
