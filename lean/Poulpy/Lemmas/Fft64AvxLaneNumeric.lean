import Poulpy.Lemmas.Fft64AvxLaneCore

open Complex

namespace Fft64Avx
open F64 Fft64

theorem EPL_eq (K : Nat) (τ Ma Mb : ℝ) :
    EPL K τ Ma Mb = 4 ^ K * (9 / 4) * (2 * (((1 + γf τ / 2) ^ K) ^ 2 - 1) + u) * (Ma * Mb) := by
  have h1 := QP_eq K τ Ma Mb
  have h2 := AP_eq K Ma Mb
  unfold EPL epL
  change 2 * QP K τ Ma Mb + u * AP K Ma Mb = _
  rw [h1, h2]; ring

theorem accIterN_end (ν ep ap : ℝ) : ∀ r (x : ℝ × ℝ), accIterN ν ep ap (r + 1) x = accStepN ν ep ap (accIterN ν ep ap r x) := by
  intro r; induction r with
  | zero => intro x; rfl
  | succ r ih => intro x; rw [accIterN, ih (accStepN ν ep ap x)]; rfl

theorem accIterN_fst_le (ν ep ap : ℝ) (hν : 0 ≤ ν) (hep : 0 ≤ ep) (hap : 0 ≤ ap) (R : Nat) :
    ∀ r ≤ R, (accIterN ν ep ap r (0, 0)).1 ≤ r * (1 + ν) ^ r * (ep + ν * R * ap) := by
  intro r
  induction r with
  | zero => intro _; simp [accIterN]
  | succ r ih =>
    intro hr
    have i1 := ih (by omega)
    have i2 : (accIterN ν ep ap r (0, 0)).2 = r * ap := by rw [accIterN_snd]; simp
    rw [accIterN_end]
    set x := accIterN ν ep ap r (0, 0)
    have hrR : ((r:ℝ) + 1) ≤ (R:ℝ) := by exact_mod_cast hr
    unfold accStepN; simp only
    rw [i2]
    have hc : 0 ≤ ep + ν * R * ap := by positivity
    have h1 : x.1 + ep + ν * (r * ap + x.1 + (ap + ep)) = (1 + ν) * x.1 + ((1 + ν) * ep + ν * ((r + 1) * ap)) := by ring
    rw [h1]
    have h2 : (1 + ν) * x.1 ≤ r * (1 + ν) ^ (r + 1) * (ep + ν * R * ap) := by
      have := mul_le_mul_of_nonneg_left i1 (by linarith : (0:ℝ) ≤ 1 + ν)
      rw [pow_succ]; nlinarith
    have h3 : (1 + ν) * ep + ν * ((r + 1) * ap) ≤ (1 + ν) * (ep + ν * R * ap) := by
      have : ν * ((r + 1) * ap) ≤ ν * (R * ap) := by
        apply mul_le_mul_of_nonneg_left _ hν; exact mul_le_mul_of_nonneg_right hrR hap
      have hnn : 0 ≤ ν * (ν * R * ap) := by positivity
      have e : (1 + ν) * (ep + ν * R * ap) = (1 + ν) * ep + ν * (R * ap) + ν * (ν * R * ap) := by ring
      rw [e]; linarith
    have h4 : (1 + ν) * (ep + ν * R * ap) ≤ (1 + ν) ^ (r + 1) * (ep + ν * R * ap) := by
      apply mul_le_mul_of_nonneg_right _ hc
      calc (1 + ν) = (1 + ν) ^ 1 := by ring
        _ ≤ (1 + ν) ^ (r + 1) := pow_le_pow_right₀ (by linarith) (by omega)
    push_cast; nlinarith

theorem accIterN_fst_ge (ν ep ap : ℝ) (hν : 0 ≤ ν) (hep : 0 ≤ ep) (hap : 0 ≤ ap) : ∀ (r : Nat) (x : ℝ × ℝ), 0 ≤ x.1 → 0 ≤ x.2 →
    x.1 ≤ (accIterN ν ep ap r x).1 := by
  intro r
  induction r with
  | zero => intro x _ _; exact le_rfl
  | succ r ih =>
    intro x h1 h2
    obtain ⟨s1, s2, _⟩ := accStepN_mono ν ep ap hν hep hap x h1 h2
    have := ih (accStepN ν ep ap x) s1 s2
    have hst : x.1 ≤ (accStepN ν ep ap x).1 := by
      unfold accStepN; simp only
      have : 0 ≤ ν * ((x.2 + x.1) + (ap + ep)) := by positivity
      linarith
    exact le_trans hst this

theorem accIterN_ge_ep (ν ep ap : ℝ) (hν : 0 ≤ ν) (hep : 0 ≤ ep) (hap : 0 ≤ ap) (R : Nat) (hR : 1 ≤ R) : ep ≤ (accIterN ν ep ap R (0, 0)).1 := by
  obtain ⟨r, rfl⟩ : ∃ r, R = r + 1 := ⟨R - 1, by omega⟩
  have h0 : ep ≤ (accStepN ν ep ap (0, 0)).1 := by
    unfold accStepN; simp only
    have : 0 ≤ ν * ((0 + 0) + (ap + ep)) := by positivity
    linarith
  obtain ⟨s1, s2, _⟩ := accStepN_mono ν ep ap hν hep hap (0, 0) le_rfl le_rfl
  exact le_trans h0 (accIterN_fst_ge ν ep ap hν hep hap r _ s1 s2)

/-- **`LaneDomainAvx` follows from its main inequality** -/
theorem laneDomainAvx_of_main (K R : Nat) (τ Ma Mb : ℝ) (hτ0 : 0 ≤ τ) (hτ1 : τ ≤ 1) (hK : K ≤ 900) (hR : 1 ≤ R)
    (hMa : 1 ≤ Ma) (hMb : 1 ≤ Mb)
    (hmain : errB (γi τ) K (accRL K R τ Ma Mb).2 (EaccL K R τ Ma Mb) / 2 ^ K * (1 + u) + u * ((accRL K R τ Ma Mb).2 + 1) + η < 1 / 2) :
    LaneDomainAvx K R τ Ma Mb := by
  have hu := u_pos
  have hν := ν2_nonneg
  have hγ := γf_nonneg τ hτ0
  have hF1 : 1 ≤ (1 + γf τ / 2) ^ K := one_le_pow₀ (by linarith)
  have hap : 0 ≤ AP K Ma Mb := by rw [AP_eq]; positivity
  have hf0 : 0 ≤ ((1 + γf τ / 2) ^ K) ^ 2 - 1 := by
    have h1 : 1 ≤ ((1 + γf τ / 2) ^ K) ^ 2 := one_le_pow₀ hF1
    linarith
  have hq : 0 ≤ EPL K τ Ma Mb := by rw [EPL_eq]; positivity
  obtain ⟨hg0, hA0', _⟩ := accIterN_mono ν2 _ _ hν hq hap R (0, 0) le_rfl le_rfl
  change 0 ≤ (accRL K R τ Ma Mb).1 at hg0
  change 0 ≤ (accRL K R τ Ma Mb).2 at hA0'
  have hA2 : (accRL K R τ Ma Mb).2 = R * AP K Ma Mb := by unfold accRL; rw [accIterN_snd]; simp
  have hR1 : (1:ℝ) ≤ (R:ℝ) := by exact_mod_cast hR
  have hAPA : AP K Ma Mb ≤ (accRL K R τ Ma Mb).2 := by rw [hA2]; exact le_mul_of_one_le_left hap hR1
  have hQA : (4:ℝ) ^ K ≤ (accRL K R τ Ma Mb).2 := by
    refine le_trans ?_ hAPA
    rw [AP_eq]
    have hP1 : 1 ≤ Ma * Mb := by have := mul_le_mul hMa hMb (by norm_num) (by linarith); linarith
    have : (4:ℝ) ^ K * 1 ≤ 4 ^ K * (9 / 4 * (Ma * Mb)) := mul_le_mul_of_nonneg_left (by linarith) (by positivity)
    linarith
  have hE0 : 0 ≤ EaccL K R τ Ma Mb := by unfold EaccL; positivity
  have hmain' : errB (γi τ) K (accRL K R τ Ma Mb).2 (EaccL K R τ Ma Mb) / 2 ^ K * (1 + u) + u * (accRL K R τ Ma Mb).2 + η < 1 / 2 := by
    have : u * (accRL K R τ Ma Mb).2 ≤ u * ((accRL K R τ Ma Mb).2 + 1) := mul_le_mul_of_nonneg_left (by linarith) hu.le
    linarith
  obtain ⟨hE12, hA52, hri⟩ := side_from_main K τ _ _ hτ0 hQA hE0 hmain'
  have hgE : (accRL K R τ Ma Mb).1 ≤ EaccL K R τ Ma Mb := by unfold EaccL; linarith
  have hEPg : EPL K τ Ma Mb ≤ (accRL K R τ Ma Mb).1 := accIterN_ge_ep ν2 _ _ hν hq hap R hR
  have hsm : 4 ^ K * (9 / 4) * (((1 + γf τ / 2) ^ K) ^ 2 - 1) * (Ma * Mb) < 1 / 2 := by
    rw [← QP_eq]
    have : EPL K τ Ma Mb = 2 * QP K τ Ma Mb + u * AP K Ma Mb := rfl
    have : 0 ≤ u * AP K Ma Mb := by positivity
    have hq0 : 0 ≤ QP K τ Ma Mb := by rw [QP_eq]; positivity
    linarith
  obtain ⟨hF, hF2⟩ := F_small K τ Ma Mb hτ0 hMa hMb hsm
  obtain ⟨ra, rb, _⟩ := base_conditions K τ Ma Mb _ hτ0 hMa hMb hF hF2 hAPA hA52
  refine ⟨hτ0, hτ1, hK, hR, hMa, hMb, ra, rb, ?_, ?_, ?_, hmain⟩
  · refine big_of_le _ 53 _ ?_ (by norm_num)
    norm_num at hA52 ⊢; linarith
  · exact big_of_le _ 105 _ hri (by norm_num)
  · norm_num at hA52 ⊢; linarith

/-- growth factor of the fused-lane pipeline with `R` products -/
noncomputable def GvL (K R : Nat) (τ : ℝ) : ℝ :=
  (1 + γi τ / 2) ^ K * (1 + 3 / 2 * (1 + ν2) ^ R * (2 * (((1 + γf τ / 2) ^ K) ^ 2 - 1) + u + ν2 * R))

theorem lane_main_closed (K R : Nat) (τ Ma Mb : ℝ) (hτ0 : 0 ≤ τ) (hMa : 1 ≤ Ma) (hMb : 1 ≤ Mb)
    (h : R * (4 ^ K * (9 / 4)) * ((GvL K R τ - 1) * (1 + u) + u) * (Ma * Mb) + u + η < 1 / 2) :
    errB (γi τ) K (accRL K R τ Ma Mb).2 (EaccL K R τ Ma Mb) / 2 ^ K * (1 + u) + u * ((accRL K R τ Ma Mb).2 + 1) + η < 1 / 2 := by
  have hu := u_pos
  have hν := ν2_nonneg
  have hγ := γf_nonneg τ hτ0
  have hγi := γi_nonneg τ hτ0
  have hF1 : 1 ≤ (1 + γf τ / 2) ^ K := one_le_pow₀ (by linarith)
  have hap : 0 ≤ AP K Ma Mb := by rw [AP_eq]; positivity
  have hf0 : 0 ≤ ((1 + γf τ / 2) ^ K) ^ 2 - 1 := by
    have h1 : 1 ≤ ((1 + γf τ / 2) ^ K) ^ 2 := one_le_pow₀ hF1
    linarith
  have hq : 0 ≤ EPL K τ Ma Mb := by rw [EPL_eq]; positivity
  have b1 := accIterN_fst_le ν2 (EPL K τ Ma Mb) (AP K Ma Mb) hν hq hap R R le_rfl
  have b2 : (accRL K R τ Ma Mb).2 = R * AP K Ma Mb := by unfold accRL; rw [accIterN_snd]; simp
  change (accRL K R τ Ma Mb).1 ≤ _ at b1
  have hE : EaccL K R τ Ma Mb ≤ 3 / 2 * (R * (1 + ν2) ^ R * (EPL K τ Ma Mb + ν2 * R * AP K Ma Mb)) := by
    unfold EaccL; linarith
  have hmono := errB_mono (γi τ) hγi K (accRL K R τ Ma Mb).2 _ _ hE
  have h2K : (0:ℝ) < 2 ^ K := by positivity
  have hdiv := div_le_div_of_nonneg_right hmono h2K.le
  rw [errB_div (γi τ) K (accRL K R τ Ma Mb).2 (3 / 2 * (R * (1 + ν2) ^ R * (EPL K τ Ma Mb + ν2 * R * AP K Ma Mb)))] at hdiv
  have hclosed : (1 + γi τ / 2) ^ K * ((accRL K R τ Ma Mb).2 + 3 / 2 * (R * (1 + ν2) ^ R * (EPL K τ Ma Mb + ν2 * R * AP K Ma Mb))) - (accRL K R τ Ma Mb).2
      = R * (4 ^ K * (9 / 4)) * (GvL K R τ - 1) * (Ma * Mb) := by
    rw [b2, EPL_eq, AP_eq]; unfold GvL; ring
  rw [hclosed] at hdiv
  have h1 : errB (γi τ) K (accRL K R τ Ma Mb).2 (EaccL K R τ Ma Mb) / 2 ^ K * (1 + u) ≤
      R * (4 ^ K * (9 / 4)) * (GvL K R τ - 1) * (Ma * Mb) * (1 + u) := mul_le_mul_of_nonneg_right hdiv (by linarith)
  have h2 : u * ((accRL K R τ Ma Mb).2 + 1) = R * (4 ^ K * (9 / 4)) * u * (Ma * Mb) + u := by rw [b2, AP_eq]; ring
  have e : R * (4 ^ K * (9 / 4)) * ((GvL K R τ - 1) * (1 + u) + u) * (Ma * Mb) =
      R * (4 ^ K * (9 / 4)) * (GvL K R τ - 1) * (Ma * Mb) * (1 + u) + R * (4 ^ K * (9 / 4)) * u * (Ma * Mb) := by ring
  rw [e] at h
  linarith

theorem GvL_mono (K R : Nat) (hR : R ≤ 64) (τ : ℝ) (hτ0 : 0 ≤ τ) : GvL K R τ ≤ GvL K 64 τ := by
  have hu := u_pos
  have hν := ν2_nonneg
  have hγ := γf_nonneg τ hτ0
  have hγi := γi_nonneg τ hτ0
  have hF1 : 1 ≤ (1 + γf τ / 2) ^ K := one_le_pow₀ (by linarith)
  have hf0 : 0 ≤ ((1 + γf τ / 2) ^ K) ^ 2 - 1 := by
    have h1 : 1 ≤ ((1 + γf τ / 2) ^ K) ^ 2 := one_le_pow₀ hF1
    linarith
  unfold GvL
  apply mul_le_mul_of_nonneg_left _ (by positivity)
  have hp : (1 + ν2) ^ R ≤ (1 + ν2) ^ 64 := pow_le_pow_right₀ (by linarith) hR
  have hR' : ν2 * (R:ℝ) ≤ ν2 * ((64:Nat):ℝ) := mul_le_mul_of_nonneg_left (by exact_mod_cast hR) hν
  have : (1 + ν2) ^ R * (2 * (((1 + γf τ / 2) ^ K) ^ 2 - 1) + u + ν2 * R) ≤
      (1 + ν2) ^ 64 * (2 * (((1 + γf τ / 2) ^ K) ^ 2 - 1) + u + ν2 * ((64:Nat):ℝ)) :=
    mul_le_mul hp (add_le_add le_rfl hR') (by positivity) (by positivity)
  linarith

theorem growthVL_le (K : Nat) (hK : K ≤ 15) : (GvL K 64 τ51 - 1) * (1 + u) + u ≤ (41 * K + 197) * u := by
  interval_cases K <;> (unfold GvL ν2 γi γf κ u τ51; norm_num)

/-- **`LaneDomainAvx` in numbers** (up to 64 accumulated products): `R·Ma·Mb ≤ 2^(domBitsVA K)`, the same table as the
one-column kernel -/
theorem laneDomainAvx_numeric (K : Nat) (hK : K ≤ 15) (R : Nat) (hR1 : 1 ≤ R) (hR : R ≤ 64) (Ma Mb : ℝ)
    (hMa : 1 ≤ Ma) (hMb : 1 ≤ Mb) (h : R * (Ma * Mb) ≤ (2:ℝ) ^ (domBitsVA K)) : LaneDomainAvx K R τ51 Ma Mb := by
  have hτ0 : 0 ≤ τ51 := by unfold τ51; positivity
  have hτ1 : τ51 ≤ 1 := by unfold τ51; exact zpow_le_one_of_nonpos₀ (by norm_num) (by norm_num)
  apply laneDomainAvx_of_main K R τ51 Ma Mb hτ0 hτ1 (by omega) hR1 hMa hMb
  apply lane_main_closed K R τ51 Ma Mb hτ0 hMa hMb
  have hu := u_pos
  have hη := η_small
  have hu' : u ≤ 1 / 4096 := by
    unfold u
    calc (2:ℝ) ^ (-53:Int) ≤ (2:ℝ) ^ (-12:Int) := two_pow_le _ _ (by norm_num)
      _ = 1 / 4096 := by norm_num
  have g1 := GvL_mono K R hR τ51 hτ0
  have g2 := growthVL_le K hK
  have g3 := domVA_numeric K hK
  have hc : (GvL K R τ51 - 1) * (1 + u) + u ≤ (41 * K + 197) * u := by
    have : (GvL K R τ51 - 1) * (1 + u) ≤ (GvL K 64 τ51 - 1) * (1 + u) := mul_le_mul_of_nonneg_right (by linarith) (by linarith)
    linarith
  have hP0 : 0 ≤ (R:ℝ) * (Ma * Mb) := by positivity
  have h4 : (0:ℝ) ≤ 4 ^ K * (9 / 4) := by positivity
  have e : (R:ℝ) * (4 ^ K * (9 / 4)) * ((GvL K R τ51 - 1) * (1 + u) + u) * (Ma * Mb) =
      4 ^ K * (9 / 4) * ((GvL K R τ51 - 1) * (1 + u) + u) * (R * (Ma * Mb)) := by ring
  rw [e]
  have s1 : 4 ^ K * (9 / 4) * ((GvL K R τ51 - 1) * (1 + u) + u) * (R * (Ma * Mb)) ≤ 4 ^ K * (9 / 4) * ((41 * K + 197) * u) * (R * (Ma * Mb)) :=
    mul_le_mul_of_nonneg_right (mul_le_mul_of_nonneg_left hc h4) hP0
  have s2 : 4 ^ K * (9 / 4) * ((41 * K + 197) * u) * (R * (Ma * Mb)) ≤ 4 ^ K * (9 / 4) * ((41 * K + 197) * u) * (2:ℝ) ^ (domBitsVA K) :=
    mul_le_mul_of_nonneg_left h (by positivity)
  linarith

end Fft64Avx
