import Poulpy.Lemmas.AccNormTotal
import Poulpy.Lemmas.EpKs
import Poulpy.Lemmas.EpNorm
import Poulpy.Lemmas.GadgetCore

/-! Well-formedness of the executed products (derived, no hypothesis): every column of `Core.epInternal` / `Core.gglweProductDft` is
`size` limbs of `N` coefficients. -/

namespace Core
open Hal Core.Ops C02L KsDec

theorem epInternal_wf (N : Nat) (a : List Col) (g : EpGGSW) (res0 tmp0 : List Col) (hd : 1 ≤ g.dsize) (hn : g.n = N)
    (ha : shapeOk g.n (g.rank + 1) (a.getD 0 []).length a = true)
    (h0 : shapeOk g.n (g.rank + 1) g.size res0 = true) (ht : shapeOk g.n (g.rank + 1) g.size tmp0 = true)
    (hM : ∀ j q, (g.toPMat.entry j q).length = N) :
    ∀ c ∈ epInternal a g res0 tmp0, ColWF N g.size c := by
  rw [epInternal_eq_ks a g res0 tmp0 hd ha h0 ht]
  intro c hc
  obtain ⟨j, hj, rfl⟩ := List.mem_map.mp hc
  have hj' := List.mem_range.mp hj
  obtain ⟨⟨hwf, _, _, _⟩, _⟩ := mkBuf_shape g.n (g.rank + 1) g.size res0 h0
  exact prod_col_wf N (mkBuf g.n (g.rank + 1) g.size res0) (mkBuf g.n (g.rank + 1) (a.getD 0 []).length a) g.toKey hd hwf rfl rfl rfl
    hn hn hM j hj'

theorem gglweProductDft_wf (N : Nat) (a : List Col) (g : GGLWE) (res0 : List Col) (hd : 1 ≤ g.dsize) (hn : g.n = N)
    (h0 : shapeOk g.n g.colsOut g.size res0 = true) (hM : ∀ j q, (g.toPMat.entry j q).length = N) :
    ∀ c ∈ Core.gglweProductDft a g g.size res0, ColWF N g.size c := by
  unfold Core.gglweProductDft
  intro c hc
  obtain ⟨j, hj, rfl⟩ := List.mem_map.mp hc
  have hj' := List.mem_range.mp hj
  obtain ⟨⟨hwf, _, _, _⟩, _⟩ := mkBuf_shape g.n g.colsOut g.size res0 h0
  exact prod_col_wf N (mkBuf g.n g.colsOut g.size res0) (mkBuf g.n g.colsIn (a.getD 0 []).length a) g.toKey hd hwf rfl rfl rfl
    hn hn hM j hj'

theorem zeroCols_shape (N cols size : Nat) : shapeOk N cols size (zeroCols N cols size) = true := by
  unfold shapeOk zeroCols; simp [Hal.zeroP]

end Core
