import Poulpy.Lemmas.AccNormTotal
import Poulpy.Lemmas.EpKs
import Poulpy.Lemmas.EpNorm
import Poulpy.Lemmas.GadgetCore
import Poulpy.Props.C03
import Poulpy.Lemmas.ExpandIdx

/-! Well-formedness of the executed products (derived, no hypothesis): every column of `Core.epInternal` / `Core.gglweProductDft` is
`size` limbs of `N` coefficients. -/

namespace Core
open Hal Core.Ops C02L KsDec

theorem epInternal_wf (N : Nat) (a : List Col) (g : EpGGSW) (res0 tmp0 : List Col) (hd : 1 ≤ g.dsize) (hn : g.n = N)
    (ha : shapeOk g.n (g.rank + 1) (a.getD 0 []).length a = true)
    (h0 : shapeOk g.n (g.rank + 1) g.size res0 = true) (ht : shapeOk g.n (g.rank + 1) g.size tmp0 = true)
    (hM : ∀ j q, (g.toPMat.entry j q).length = N) :
    ∀ c ∈ epInternal a g res0 tmp0, ColWF N g.size c := by
  rw [epInternal_eq_ks a g res0 tmp0 hd ha h0 ht]
  intro c hc
  obtain ⟨j, hj, rfl⟩ := List.mem_map.mp hc
  have hj' := List.mem_range.mp hj
  obtain ⟨⟨hwf, _, _, _⟩, _⟩ := mkBuf_shape g.n (g.rank + 1) g.size res0 h0
  exact prod_col_wf N (mkBuf g.n (g.rank + 1) g.size res0) (mkBuf g.n (g.rank + 1) (a.getD 0 []).length a) g.toKey hd hwf rfl rfl rfl
    hn hn hM j hj'

theorem gglweProductDft_wf (N : Nat) (a : List Col) (g : GGLWE) (res0 : List Col) (hd : 1 ≤ g.dsize) (hn : g.n = N)
    (h0 : shapeOk g.n g.colsOut g.size res0 = true) (hM : ∀ j q, (g.toPMat.entry j q).length = N) :
    ∀ c ∈ Core.gglweProductDft a g g.size res0, ColWF N g.size c := by
  unfold Core.gglweProductDft
  intro c hc
  obtain ⟨j, hj, rfl⟩ := List.mem_map.mp hc
  have hj' := List.mem_range.mp hj
  obtain ⟨⟨hwf, _, _, _⟩, _⟩ := mkBuf_shape g.n g.colsOut g.size res0 h0
  exact prod_col_wf N (mkBuf g.n g.colsOut g.size res0) (mkBuf g.n g.colsIn (a.getD 0 []).length a) g.toKey hd hwf rfl rfl rfl
    hn hn hM j hj'

theorem zeroCols_shape (N cols size : Nat) : shapeOk N cols size (zeroCols N cols size) = true := by
  unfold shapeOk zeroCols; simp [Hal.zeroP]

end Core

namespace Core
open Hal Core.Ops C02L KsDec

/-- the value the executed external product of `a` by `g` has under `sk` when GGSW row `r`, column `i` has phase value
`m2·σ_i·β^{S−(r+1)·dsize} + E i r`: `m2·Σ_i σ_i·usedVal(a_i) + Σ_i(Σ_r digit·E − dropped − β^S·head)` (`ep_executed_identity`) -/
noncomputable def epValue (N : Nat) (sk : List Poly) (a : List Col) (g : EpGGSW) (β m2 : Ks.R N) (σ : ℕ → Ks.R N) (E : ℕ → ℕ → Ks.R N) : Ks.R N :=
  m2 * ∑ i ∈ Finset.range (g.rank + 1),
      σ i * Gadget.usedVal β g.size g.dsize g.dnum (a.getD 0 []).length (Ks.inLimb N (mkBuf g.n (g.rank + 1) (a.getD 0 []).length a) i)
    + ∑ i ∈ Finset.range (g.rank + 1),
      (∑ r ∈ Finset.range g.dnum,
          Gadget.digit β g.dsize g.dnum (a.getD 0 []).length (Ks.inLimb N (mkBuf g.n (g.rank + 1) (a.getD 0 []).length a) i) r * E i r
        - Gadget.dropped β g.size g.dsize g.dnum (a.getD 0 []).length
            (Ks.inLimb N (mkBuf g.n (g.rank + 1) (a.getD 0 []).length a) i) (Ks.keyPhase N sk g.toPMat i)
        - β ^ g.size * Gadget.head β g.dsize g.dnum (a.getD 0 []).length
            (Ks.inLimb N (mkBuf g.n (g.rank + 1) (a.getD 0 []).length a) i) (Ks.keyPhase N sk g.toPMat i))

/-- `C04.ep_executed_identity`, as a lemma (so that lemma files can use it) -/
theorem epInternal_value (N : Nat) (sk : List Poly) (a : List Col) (g : EpGGSW) (res0 tmp0 : List Col)
    (β m2 : Ks.R N) (σ : ℕ → Ks.R N) (E : ℕ → ℕ → Ks.R N)
    (hd : 1 ≤ g.dsize) (hN : 0 < N) (hn : g.n = N)
    (ha : shapeOk g.n (g.rank + 1) (a.getD 0 []).length a = true)
    (h0 : shapeOk g.n (g.rank + 1) g.size res0 = true) (ht : shapeOk g.n (g.rank + 1) g.size tmp0 = true)
    (hM : ∀ j q, (g.toPMat.entry j q).length = N) (hS : g.dnum * g.dsize ≤ g.size)
    (hkey : ∀ i, i < g.rank + 1 → ∀ r, r < g.dnum →
      Gadget.val β g.size (Ks.keyPhase N sk g.toPMat i r) = m2 * σ i * β ^ (g.size - (r + 1) * g.dsize) + E i r) :
    ∑ l ∈ Finset.range g.size,
        Ks.ι N (Ks.phaseRow sk ((epInternal a g res0 tmp0).map (fun col => limbOr0 N col l))) * β ^ (g.size - 1 - l)
      = epValue N sk a g β m2 σ E := by
  unfold epValue
  rw [epInternal_eq_ks a g res0 tmp0 hd ha h0 ht]
  simp only [List.map_map]
  have s0 := (mkBuf_shape g.n (g.rank + 1) g.size res0 h0).1
  have h := C03.keyswitch_value N sk (mkBuf g.n (g.rank + 1) g.size res0) (mkBuf g.n (g.rank + 1) (a.getD 0 []).length a) g.toKey β
    (fun i => m2 * σ i) E hd hN s0.1 rfl rfl rfl (Nat.succ_pos _) hn hn rfl hM hS hkey
  refine Eq.trans h ?_
  show ∑ i ∈ Finset.range (g.rank + 1), _ = _
  rw [Finset.mul_sum, ← Finset.sum_add_distrib]
  apply Finset.sum_congr rfl
  intro i _
  exact Core.ring_regroup _ _ _ _ _ _

theorem shapeOk_limbs (n cols size : Nat) (x : List Col) (h : shapeOk n cols size x = true) (j : Nat) : C02L.LimbsN n (x.getD j []) := by
  unfold shapeOk at h
  simp only [Bool.and_eq_true, beq_iff_eq, List.all_eq_true] at h
  by_cases hj : j < x.length
  · rw [List.getD_eq_getElem?_getD, List.getElem?_eq_getElem hj]
    exact fun l hl => (h.2 _ (List.getElem_mem hj)).2 l hl
  · rw [List.getD_eq_getElem?_getD, List.getElem?_eq_none (by omega)]
    intro l hl; simp at hl

theorem getD_bound (f : List Col) (Y : Int) (hfb : ∀ c ∈ f, ∀ l ∈ c, ∀ x ∈ l, |x| ≤ Y) (j : Nat) :
    ∀ l ∈ f.getD j [], ∀ x ∈ l, |x| ≤ Y := by
  intro l hl x hx
  by_cases hj : j < f.length
  · rw [List.getD_eq_getElem?_getD, List.getElem?_eq_getElem hj] at hl
    exact hfb _ (List.getElem_mem hj) l hl x hx
  · rw [List.getD_eq_getElem?_getD, List.getElem?_eq_none (by omega)] at hl
    simp at hl

/-- what the three CMux forms guarantee about their result `res` for the difference `d` and the added operand `add`:
well-formed, digits `≤ 2^rb − 1`, and `2^(bg·S)·phase(res) = 2^(rb·rs)·(epValue(d) + phase(add at S limbs)) + En + 2^(…)·Q` with
`‖En‖_∞ ≤ (1 + Σ‖s_i‖₁)·normTol` (`0` when `bg·S ≤ rb·rs`). -/
def CmuxSpec (N rb rs : Nat) (g : EpGGSW) (sk : List Poly) (m2 : Ks.R N) (σ : ℕ → Ks.R N) (E : ℕ → ℕ → Ks.R N)
    (d add res : List Col) : Prop :=
  GWF N (Ks.mkCt rb N res) ∧ (∀ c ∈ res, ∀ l ∈ c, ∀ x ∈ l, |x| ≤ 2 ^ rb - 1) ∧
  ∃ En Q : Poly, En.length = N ∧ Q.length = N ∧
    normInf En ≤ (1 + snorm (min g.rank sk.length) sk) * C02.normTol (rb * rs) (g.base2k * g.size) ∧
    (2 : Ks.R N) ^ (g.base2k * g.size) * Ks.ι N (valP rb N (phase sk (Ks.mkCt rb N res)))
      = (2 : Ks.R N) ^ (rb * rs) * (epValue N sk d g ((2 : Ks.R N) ^ g.base2k) m2 σ E
          + Ks.ι N (valP g.base2k N (phase sk (Ks.mkCt g.base2k N ((List.range (g.rank + 1)).map (fun j => fit N g.size (add.getD j [])))))))
        + Ks.ι N En + (2 : Ks.R N) ^ (rb * rs + g.base2k * g.size) * Ks.ι N Q

/-- the common tail of the CMux forms, every kernel hypothesis discharged (both accumulator widths) -/
theorem cmuxTail_total {N : Nat} (big128 : Bool) (rb rs : Nat) (d add : List Col) (g : EpGGSW) (res0 tmp0 : List Col) (sk : List Poly)
    (X Y : Int) (hrb : rb = g.base2k) (hgb1 : 1 ≤ g.base2k) (hgb : g.base2k ≤ 62)
    (hX0 : 0 ≤ X) (hY0 : 0 ≤ Y) (hH : X + Y + 8 ≤ 2 ^ (bitsOf big128 - 2))
    (hPb : ∀ c ∈ epInternal d g res0 tmp0, ∀ l ∈ c, ∀ x ∈ l, |x| ≤ X)
    (haddwf : ∀ j, LimbsN N (add.getD j [])) (haddb : ∀ c ∈ add, ∀ l ∈ c, ∀ x ∈ l, |x| ≤ Y)
    (m2 : Ks.R N) (σ : ℕ → Ks.R N) (E : ℕ → ℕ → Ks.R N)
    (hd : 1 ≤ g.dsize) (hN : 0 < N) (hn : g.n = N)
    (haD : shapeOk g.n (g.rank + 1) (d.getD 0 []).length d = true)
    (h0 : shapeOk g.n (g.rank + 1) g.size res0 = true) (ht : shapeOk g.n (g.rank + 1) g.size tmp0 = true)
    (hM : ∀ j q, (g.toPMat.entry j q).length = N) (hS : g.dnum * g.dsize ≤ g.size)
    (hkey : ∀ i, i < g.rank + 1 → ∀ r, r < g.dnum →
      Gadget.val ((2 : Ks.R N) ^ g.base2k) g.size (Ks.keyPhase N sk g.toPMat i r)
        = m2 * σ i * ((2 : Ks.R N) ^ g.base2k) ^ (g.size - (r + 1) * g.dsize) + E i r) :
    ∃ res, cmuxTail big128 N rb rs d add g res0 tmp0 = .ok res ∧ CmuxSpec N rb rs g sk m2 σ E d add res := by
  have hwf := epInternal_wf N d g res0 tmp0 hd hn haD h0 ht hM
  have hlen := epInternal_length d g res0 tmp0
  obtain ⟨cs, h1, h2, h3, h4, h5⟩ := acc_norm_total big128 N rb rs g.base2k g.size g.rank 0 X Y _ (fun j => add.getD j []) hN
    (by rw [hrb]; exact hgb1) (by rw [hrb]; exact hgb) hgb1 hgb hX0 hY0 hH hlen hwf hPb
    (fun j _ => haddwf j) (fun j _ => getD_bound add Y haddb j)
  have hcsne : cs ≠ [] := by intro h; rw [h] at h2; simp at h2
  refine ⟨cs, ?_, (gwf_mk (N := N) rb rs cs hcsne h3).1, h4, ?_⟩
  · unfold cmuxTail
    show optOutcome ((List.range (g.rank + 1)).mapM (fun j => bigNormalizeOff big128 N rb rs 0
      (bigAddSmallAssign big128 ((epInternal d g res0 tmp0).getD j []) (add.getD j [])) g.base2k)) = _
    rw [h1]; rfl
  · obtain ⟨En, Q, hE, hQ, hnm, he⟩ := h5 sk
    rw [normTolOff_zero] at hnm
    refine ⟨En, Q, hE, hQ, hnm, ?_⟩
    rw [epInternal_value N sk d g res0 tmp0 ((2 : Ks.R N) ^ g.base2k) m2 σ E hd hN hn haD h0 ht hM hS hkey] at he
    simpa using he

end Core
