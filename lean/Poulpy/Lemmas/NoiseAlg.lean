import Poulpy.Model.Bdd
import Poulpy.Lemmas.BddSupport
import Mathlib.Algebra.Ring.Basic
import Mathlib.Algebra.BigOperators.Group.List.Basic
import Mathlib.Algebra.Order.Group.Abs
import Mathlib.Algebra.Order.Ring.Abs
import Mathlib.Tactic.Ring
import Mathlib.Tactic.Linarith

/-!
Noise propagation through the binary-FHE layer, at the level of PHASES.

The phases of all ciphertexts live in one commutative ring `R` (`ℤ[X]/(X^N+1)` at the full precision of the ciphertexts; for
the extended blind rotation `ℤ[Y]/(Y^{N·ext}+1)` through the interleaving lemma of C14).  `Size R` is an error measure (the
`∞`-norm of the centred coefficient vector): sub-additive, even, zero at zero.  `Mono` is the family of monomials `X^a`,
acting isometrically.  The executed algorithms are abstract machines over a ciphertext type whose primitive operations carry
the contracts that C03 / C04 / C07 establish for the executed code (each contract is a named structure field; which theorem
supplies it is said at the field).  Everything in this file is proved; nothing here is specific to a parameter set.
-/

namespace Noise

variable {R : Type} [CommRing R]

/-- an error measure on the phase ring (`∞`-norm of the centred representative) -/
structure Size (R : Type) [CommRing R] where
  ν : R → ℤ
  nonneg : ∀ x, 0 ≤ ν x
  zero : ν 0 = 0
  add_le : ∀ x y, ν (x + y) ≤ ν x + ν y
  neg : ∀ x, ν (-x) = ν x

/-- the monomials `X^a`, `a ∈ ℤ` (`X^{2N} = 1`), multiplication by which permutes / negates coefficients -/
structure Mono (R : Type) [CommRing R] (S : Size R) where
  X : ℤ → R
  X_zero : X 0 = 1
  X_add : ∀ a b, X (a + b) = X a * X b
  isom : ∀ a x, S.ν (X a * x) = S.ν x

namespace Size
variable (S : Size R)

theorem sub_le (x y : R) : S.ν (x - y) ≤ S.ν x + S.ν y := by
  have := S.add_le x (-y)
  rw [S.neg] at this
  simpa [sub_eq_add_neg] using this

theorem sum_le (l : List R) (B : ℤ) (h : ∀ x ∈ l, S.ν x ≤ B) : S.ν l.sum ≤ l.length * B := by
  induction l with
  | nil => simp [S.zero]
  | cons a t ih =>
    have h1 := S.add_le a t.sum
    have h2 := h a (by simp)
    have h3 := ih (fun x hx => h x (by simp [hx]))
    simp only [List.sum_cons, List.length_cons]
    push_cast
    linarith

end Size

theorem Mono.xm1_le {S : Size R} (M : Mono R S) (a : ℤ) (x : R) : S.ν ((M.X a - 1) * x) ≤ 2 * S.ν x := by
  have : (M.X a - 1) * x = M.X a * x - x := by ring
  rw [this]
  have := S.sub_le (M.X a * x) x
  rw [M.isom] at this
  linarith

/-! ## Blind rotation (C14): the CGGI accumulator loops -/

/-- key bits as ring elements -/
def bitR (b : Bool) : R := if b then 1 else 0

@[simp] theorem bitR_false : (bitR false : R) = 0 := rfl
@[simp] theorem bitR_true : (bitR true : R) = 1 := rfl

/-- a block of a binary block key: no bit set, or exactly one -/
def OneHot (bits : List Bool) : Prop :=
  (∀ b ∈ bits, b = false) ∨ ∃ pre post, bits = pre ++ true :: post ∧ (∀ b ∈ pre, b = false) ∧ (∀ b ∈ post, b = false)

/-- `Σ a_j·s_j` of a block -/
def blkRot (blk : List (ℤ × Bool)) : ℤ := (blk.map fun p => if p.2 then p.1 else 0).sum

theorem sel_zero {S : Size R} (M : Mono R S) (blk : List (ℤ × Bool)) (h : ∀ p ∈ blk, p.2 = false) :
    (blk.map fun p => (bitR p.2 : R) * (M.X p.1 - 1)).sum = 0 ∧ blkRot blk = 0 := by
  induction blk with
  | nil => simp [blkRot]
  | cons p t ih =>
    have hp := h p (by simp)
    obtain ⟨h1, h2⟩ := ih (fun q hq => h q (by simp [hq]))
    unfold blkRot at h2 ⊢
    simp only [List.map_cons, List.sum_cons, hp, bitR_false, zero_mul, zero_add, h1, h2, Bool.false_eq_true, if_false]
    exact ⟨trivial, trivial⟩

/-- for a one-hot block `1 + Σ_j s_j·(X^{a_j} − 1) = X^{Σ_j a_j s_j}` -/
theorem sel_onehot {S : Size R} (M : Mono R S) (blk : List (ℤ × Bool)) (h : OneHot (blk.map (·.2))) :
    1 + (blk.map fun p => (bitR p.2 : R) * (M.X p.1 - 1)).sum = M.X (blkRot blk) := by
  rcases h with h | ⟨pre, post, hb, hpre, hpost⟩
  · obtain ⟨h1, h2⟩ := sel_zero M blk (fun p hp => h p.2 (List.mem_map.2 ⟨p, hp, rfl⟩))
    rw [h1, h2, M.X_zero, add_zero]
  · -- split the block at the set bit
    obtain ⟨l1, l2', h12, hl1, hl2'⟩ := List.map_eq_append_iff.1 hb
    cases l2' with
    | nil => simp at hl2'
    | cons p l2 =>
      simp only [List.map_cons, List.cons.injEq] at hl2'
      obtain ⟨hp, hl2⟩ := hl2'
      subst h12
      have z1 := sel_zero M l1 (fun q hq => hpre q.2 (by rw [← hl1]; exact List.mem_map.2 ⟨q, hq, rfl⟩))
      have z2 := sel_zero M l2 (fun q hq => hpost q.2 (by rw [← hl2]; exact List.mem_map.2 ⟨q, hq, rfl⟩))
      have hrot : blkRot (l1 ++ p :: l2) = p.1 := by
        unfold blkRot at z1 z2 ⊢
        simp [List.map_append, List.sum_append, z1.2, z2.2, hp]
      rw [hrot, List.map_append, List.sum_append, List.map_cons, List.sum_cons, z1.1, z2.1, hp, bitR_true]
      ring

/-- The ciphertext machine of the blind rotation.  `ep c g` is the (internal) external product of the accumulator by the
prepared GGSW of one key bit; `B` bounds its error.
* `ep_spec` — **EpCoeffContract**: `C04.ep_decrypts` / `C04.ep_executed_identity` give
  `phase(ep c g) = s·phase(c) + (Σ digit·E − dropped − β^S·head) + En` in `ℤ[X]/(X^N+1)` with `m2 = s` exact; the field asks for the
  `∞`-norm of that error term to be `≤ B` (the coefficient reading, as `C03.glwe_keyswitch_decrypts_coeff` does for the key
  switch; `Noise.epBound` is the formula `Σ‖digit‖₁·‖E‖_∞ + truncation + normalisation unit`).
* `mul_spec`, `add_spec` — `glwe_mul_xp_minus_one`, `glwe_add` (`svp` by `X^a`, `vec_znx_dft_add/sub`): exact on phases (C07).
* `norm_spec` — `vec_znx_big_normalize` of the block / `glwe_normalize_assign` at the end: changes the phase by at most `U`
  (`C08.normalize_value_offset0`: `0` when no precision is dropped). -/
structure BrMachine (R : Type) [CommRing R] (S : Size R) (M : Mono R S) (C G : Type) where
  ph : C → R
  ep : C → G → C
  bit : G → Bool
  B : ℤ
  ep_spec : ∀ c g, S.ν (ph (ep c g) - bitR (bit g) * ph c) ≤ B
  mulXm1 : ℤ → C → C
  mul_spec : ∀ a c, ph (mulXm1 a c) = (M.X a - 1) * ph c
  add : C → C → C
  add_spec : ∀ x y, ph (add x y) = ph x + ph y
  norm : C → C
  U : ℤ
  norm_spec : ∀ c, S.ν (ph (norm c) - ph c) ≤ U

namespace BrMachine
variable {S : Size R} {M : Mono R S} {C G : Type} (m : BrMachine R S M C G)

/-- one block of `execute_block_binary(_extended)`: every term is computed from the SAME accumulator,
`acc ← normalize(acc + Σ_j (X^{a_j} − 1)·(acc ⊡ BRK_j))` -/
def blockStep (acc : C) (blk : List (ℤ × G)) : C :=
  m.norm (blk.foldl (fun s p => m.add s (m.mulXm1 p.1 (m.ep acc p.2))) acc)

/-- `execute_block_binary`: the blocks in order (`execute_standard` = blocks of one bit, normalisation error `0` inside
and `U` once at the end — the bound below covers it with `U` per step) -/
def exec (acc : C) (blocks : List (List (ℤ × G))) : C := blocks.foldl m.blockStep acc

def rotOf (blk : List (ℤ × G)) : ℤ := blkRot (blk.map fun p => (p.1, m.bit p.2))

theorem fold_phase (acc : C) : ∀ (blk : List (ℤ × G)) (s : C),
    m.ph (blk.foldl (fun s p => m.add s (m.mulXm1 p.1 (m.ep acc p.2))) s) =
      m.ph s + (blk.map fun p => (M.X p.1 - 1) * m.ph (m.ep acc p.2)).sum := by
  intro blk
  induction blk with
  | nil => intro s; simp
  | cons p t ih =>
    intro s
    simp only [List.foldl_cons, List.map_cons, List.sum_cons]
    rw [ih, m.add_spec, m.mul_spec]
    ring

/-- **one block**: for a one-hot block the accumulator phase is multiplied by `X^{Σ a_j s_j}`, up to an error of at most
`2·(block length)·B + U` -/
theorem blockStep_spec (hB : 0 ≤ m.B) (acc : C) (blk : List (ℤ × G)) (h1 : OneHot (blk.map fun p => m.bit p.2)) :
    S.ν (m.ph (m.blockStep acc blk) - M.X (m.rotOf blk) * m.ph acc) ≤ 2 * (blk.length * m.B) + m.U := by
  have _ := hB
  unfold blockStep
  set fin := blk.foldl (fun s p => m.add s (m.mulXm1 p.1 (m.ep acc p.2))) acc with hfin
  have hph := m.fold_phase acc blk acc
  rw [← hfin] at hph
  -- the exact part and the error part of every term
  have hterm : (blk.map fun p => (M.X p.1 - 1) * m.ph (m.ep acc p.2)).sum =
      (blk.map fun p => (bitR (m.bit p.2) : R) * (M.X p.1 - 1)).sum * m.ph acc +
      (blk.map fun p => (M.X p.1 - 1) * (m.ph (m.ep acc p.2) - bitR (m.bit p.2) * m.ph acc)).sum := by
    clear hph hfin h1
    induction blk with
    | nil => simp
    | cons p t ih => simp only [List.map_cons, List.sum_cons, ih]; ring
  have hsel : 1 + (blk.map fun p => (bitR (m.bit p.2) : R) * (M.X p.1 - 1)).sum = M.X (m.rotOf blk) := by
    have := sel_onehot M (blk.map fun p => (p.1, m.bit p.2)) (by rw [List.map_map]; exact h1)
    rw [List.map_map] at this
    exact this
  have hexact : m.ph fin - M.X (m.rotOf blk) * m.ph acc =
      (blk.map fun p => (M.X p.1 - 1) * (m.ph (m.ep acc p.2) - bitR (m.bit p.2) * m.ph acc)).sum := by
    rw [← hsel, hph, hterm]
    ring
  have herr : S.ν ((blk.map fun p => (M.X p.1 - 1) * (m.ph (m.ep acc p.2) - bitR (m.bit p.2) * m.ph acc)).sum)
      ≤ blk.length * (2 * m.B) := by
    have := S.sum_le (blk.map fun p => (M.X p.1 - 1) * (m.ph (m.ep acc p.2) - bitR (m.bit p.2) * m.ph acc)) (2 * m.B)
      (by
        intro x hx
        obtain ⟨p, _, rfl⟩ := List.mem_map.1 hx
        have h2 := M.xm1_le p.1 (m.ph (m.ep acc p.2) - bitR (m.bit p.2) * m.ph acc)
        have h3 := m.ep_spec acc p.2
        linarith)
    simpa using this
  have hn := m.norm_spec fin
  have hsplit : m.ph (m.norm fin) - M.X (m.rotOf blk) * m.ph acc =
      (m.ph (m.norm fin) - m.ph fin) + (m.ph fin - M.X (m.rotOf blk) * m.ph acc) := by ring
  rw [hsplit]
  have := S.add_le (m.ph (m.norm fin) - m.ph fin) (m.ph fin - M.X (m.rotOf blk) * m.ph acc)
  rw [hexact] at this ⊢
  nlinarith

/-- total rotation of the run -/
def totalRot (blocks : List (List (ℤ × G))) : ℤ := (blocks.map m.rotOf).sum

/-- total number of key bits -/
def nBits {G : Type} (blocks : List (List (ℤ × G))) : ℕ := (blocks.map List.length).sum

/-- **the executed blind rotation with noise**: for every number and size of blocks (`n_lwe = Σ` block lengths) and a key whose
blocks are one-hot, the result's phase is `X^{Σ a_i s_i}·phase(acc₀)` up to an error of at most `2·n_lwe·B + (#blocks)·U` —
linear in `n_lwe`. -/
theorem exec_spec (hB : 0 ≤ m.B) (blocks : List (List (ℤ × G))) (acc : C)
    (hkey : ∀ blk ∈ blocks, OneHot (blk.map fun p => m.bit p.2)) :
    S.ν (m.ph (m.exec acc blocks) - M.X (m.totalRot blocks) * m.ph acc) ≤ 2 * (nBits blocks * m.B) + blocks.length * m.U := by
  induction blocks generalizing acc with
  | nil => simp [exec, totalRot, nBits, M.X_zero, S.zero]
  | cons blk rest ih =>
    have h1 := m.blockStep_spec hB acc blk (hkey blk (by simp))
    have h2 := ih (m.blockStep acc blk) (fun b hb => hkey b (by simp [hb]))
    have e : m.exec acc (blk :: rest) = m.exec (m.blockStep acc blk) rest := rfl
    have hrot : m.totalRot (blk :: rest) = m.totalRot rest + m.rotOf blk := by simp [totalRot]; ring
    have hn : (nBits (blk :: rest) : ℤ) = blk.length + nBits rest := by simp [nBits]
    rw [e, hrot, M.X_add, hn]
    have hsplit : m.ph (m.exec (m.blockStep acc blk) rest) - M.X (m.totalRot rest) * M.X (m.rotOf blk) * m.ph acc =
        (m.ph (m.exec (m.blockStep acc blk) rest) - M.X (m.totalRot rest) * m.ph (m.blockStep acc blk)) +
        M.X (m.totalRot rest) * (m.ph (m.blockStep acc blk) - M.X (m.rotOf blk) * m.ph acc) := by ring
    rw [hsplit]
    have h3 := S.add_le (m.ph (m.exec (m.blockStep acc blk) rest) - M.X (m.totalRot rest) * m.ph (m.blockStep acc blk))
      (M.X (m.totalRot rest) * (m.ph (m.blockStep acc blk) - M.X (m.rotOf blk) * m.ph acc))
    rw [M.isom] at h3
    simp only [List.length_cons]
    push_cast
    nlinarith

end BrMachine

/-! ## Exact decoding of a noisy coefficient -/

/-- rounding to the grid `Δ·ℤ`: an error below half a step does not change the result (also modulo a wrap `q·t`, `Δ ∣ q`) -/
theorem round_exact (v e Δ : ℤ) (hΔ : 0 < Δ) (he : 2 * |e| < Δ) : (v * Δ + e + Δ / 2) / Δ = v := by
  have he2 : 2 * e < Δ ∧ -Δ < 2 * e := by
    constructor
    · linarith [le_abs_self e]
    · linarith [neg_abs_le e]
  have key : v * Δ + e + Δ / 2 = (e + Δ / 2) + v * Δ := by ring
  rw [key, Int.add_mul_ediv_right _ _ (ne_of_gt hΔ)]
  have : (e + Δ / 2) / Δ = 0 := by
    apply Int.ediv_eq_zero_of_lt
    · omega
    · omega
  rw [this, zero_add]

/-! ## BDD evaluation (C13 / C15): a chain of CMux -/

/-- The ciphertext machine of `eval_level`.  `cmux g t f` = `Cmux::cmux(res, t, f, g)`; `Bc` bounds its error.
* `cmux_spec` — **CmuxCoeffContract**: `C04.cmux_decrypts` gives `Core.CmuxSpec`:
  `phase(res) = s·(phase t − phase f) + phase f + (Σ digit·E − dropped − β^S·head) + En`, `s` the GGSW's bit, exact; the field asks
  for the `∞`-norm of the error term to be `≤ Bc` (`Noise.cmuxBound`).
* `one`, `zero` — the trivial encryptions `level[1] := 1`, every other slot `0`, at the documented scale `enc`. -/
structure BddMachine (R : Type) [CommRing R] (S : Size R) (C G : Type) where
  ph : C → R
  cmux : G → C → C → C
  bit : G → Bool
  /-- "a GGSW of its bit whose key error is within the bound the machine was built for" -/
  good : G → Prop
  Bc : ℤ
  hBc : 0 ≤ Bc
  /-- the invariant of the ciphertexts of the evaluation (shape, digit bound): preserved by `cmux`, holds for the initial slots -/
  wfC : C → Prop
  cmux_spec : ∀ g t f, good g → wfC t → wfC f →
    wfC (cmux g t f) ∧ S.ν (ph (cmux g t f) - (bitR (bit g) * (ph t - ph f) + ph f)) ≤ Bc
  enc : Bool → R
  one : C
  zero : C
  one_spec : ph one = enc true
  zero_spec : ph zero = enc false
  one_wf : wfC one
  zero_wf : wfC zero

namespace BddMachine
variable {S : Size R} {C G : Type} (m : BddMachine R S C G)

/-- `eval_level` on ciphertexts, with the same strictness as `stepNode` (C13's model) -/
def stepNodeC (inp : Nat → G) (prev : List (Option C)) (j : Nat) : Node → Option C
  | .cmux b hi lo =>
    match prev[hi]?, prev[lo]? with
    | some (some h), some (some l) => some (m.cmux (inp b) h l)
    | _, _ => none
  | .copy => match prev[j]? with | some v => v | none => none
  | .none => none

def stepLevelC (inp : Nat → G) (prev : List (Option C)) (lv : List Node) : List (Option C) :=
  lv.mapIdx fun j nd => m.stepNodeC inp prev j nd

def evalLevelsC (inp : Nat → G) (st : List (Option C)) : List (List Node) → List (Option C)
  | [] => st
  | lv :: rest => evalLevelsC inp (m.stepLevelC inp st lv) rest

def initStateC (w : Nat) : List (Option C) := (List.range w).map fun j => some (if j == 1 then m.one else m.zero)

/-- the Boolean state and the ciphertext state agree up to an error `≤ k` in every defined slot -/
def Rel (k : ℤ) (sb : List (Option Bool)) (sc : List (Option C)) : Prop :=
  sb.length = sc.length ∧ ∀ (j : Nat) (v : Bool), sb[j]? = some (some v) → ∃ c, sc[j]? = some (some c) ∧ m.wfC c ∧ S.ν (m.ph c - m.enc v) ≤ k

theorem rel_init (w : Nat) : m.Rel 0 (initState w) (m.initStateC w) := by
  refine ⟨by simp [initState, initStateC], ?_⟩
  intro j v h
  simp only [initState, List.getElem?_map] at h
  cases hj : (List.range w)[j]? with
  | none => rw [hj] at h; simp at h
  | some x =>
    rw [hj] at h
    simp only [Option.map_some, Option.some.injEq] at h
    refine ⟨if x == 1 then m.one else m.zero, by simp [initStateC, hj], ?_, ?_⟩
    · by_cases hx : x = 1
      · simp [hx, m.one_wf]
      · have : (x == 1) = false := by simpa using hx
        simp [this, m.zero_wf]
    subst h
    by_cases hx : x = 1
    · simp [hx, m.one_spec, S.zero]
    · have : (x == 1) = false := by simpa using hx
      simp [this, m.zero_spec, S.zero]

theorem enc_sel (s h l : Bool) : (bitR s : R) * (m.enc h - m.enc l) + m.enc l = m.enc (bif s then h else l) := by
  cases s <;> simp [bitR]

/-- one level adds at most one CMux error -/
theorem rel_step (nIn : Nat) (inpB : Nat → Bool) (inpG : Nat → G)
    (hin : ∀ b, b < nIn → m.good (inpG b) ∧ m.bit (inpG b) = inpB b) (k : ℤ) (hk : 0 ≤ k)
    (sb : List (Option Bool)) (sc : List (Option C)) (h : m.Rel k sb sc) (lv : List Node)
    (hlv : ∀ b hi lo, Node.cmux b hi lo ∈ lv → b < nIn) :
    m.Rel (k + m.Bc) (stepLevel inpB sb lv) (m.stepLevelC inpG sc lv) := by
  have _ := hk
  refine ⟨by simp [stepLevel, stepLevelC], ?_⟩
  intro j v hv
  simp only [stepLevel, List.getElem?_mapIdx] at hv
  cases hnd : lv[j]? with
  | none => rw [hnd] at hv; simp at hv
  | some nd =>
    rw [hnd] at hv
    simp only [Option.map_some, Option.some.injEq] at hv
    simp only [stepLevelC, List.getElem?_mapIdx, hnd, Option.map_some]
    cases nd with
    | none => simp [stepNode] at hv
    | copy =>
      simp only [stepNode] at hv
      cases hp : sb[j]? with
      | none => rw [hp] at hv; simp at hv
      | some o =>
        rw [hp] at hv
        simp only at hv
        subst hv
        obtain ⟨c, hc, hwc, hb⟩ := h.2 j v hp
        refine ⟨c, by simp [stepNodeC, hc], hwc, ?_⟩
        linarith [m.hBc]
    | cmux b hi lo =>
      simp only [stepNode] at hv
      cases hh : sb[hi]? with
      | none => rw [hh] at hv; simp at hv
      | some oh =>
        cases oh with
        | none => rw [hh] at hv; simp at hv
        | some vh =>
          cases hl : sb[lo]? with
          | none => rw [hh, hl] at hv; simp at hv
          | some ol =>
            cases ol with
            | none => rw [hh, hl] at hv; simp at hv
            | some vl =>
              rw [hh, hl] at hv
              simp only [Option.some.injEq] at hv
              obtain ⟨ch, hch, hwh, hbh⟩ := h.2 hi vh hh
              obtain ⟨cl, hcl, hwl, hbl⟩ := h.2 lo vl hl
              have hbn : b < nIn := hlv b hi lo (List.mem_of_getElem? hnd)
              obtain ⟨hwres, hspec⟩ := m.cmux_spec (inpG b) ch cl (hin b hbn).1 hwh hwl
              refine ⟨m.cmux (inpG b) ch cl, by simp [stepNodeC, hch, hcl], hwres, ?_⟩
              rw [(hin b hbn).2] at hspec
              subst hv
              -- exact selection on the encodings, errors carried by the selected operand
              have hsel := m.enc_sel (inpB b) vh vl
              have hdecomp : m.ph (m.cmux (inpG b) ch cl) - m.enc (bif inpB b then vh else vl) =
                  (m.ph (m.cmux (inpG b) ch cl) - (bitR (inpB b) * (m.ph ch - m.ph cl) + m.ph cl)) +
                  (bif inpB b then (m.ph ch - m.enc vh) else (m.ph cl - m.enc vl)) := by
                rw [← hsel]
                cases inpB b <;> simp [bitR]
              rw [hdecomp]
              have hadd := S.add_le (m.ph (m.cmux (inpG b) ch cl) - (bitR (inpB b) * (m.ph ch - m.ph cl) + m.ph cl))
                (bif inpB b then (m.ph ch - m.enc vh) else (m.ph cl - m.enc vl))
              have hsel2 : S.ν (bif inpB b then (m.ph ch - m.enc vh) else (m.ph cl - m.enc vl)) ≤ k := by
                cases inpB b <;> simp [hbh, hbl]
              linarith

theorem rel_levels (nIn : Nat) (inpB : Nat → Bool) (inpG : Nat → G)
    (hin : ∀ b, b < nIn → m.good (inpG b) ∧ m.bit (inpG b) = inpB b) :
    ∀ (levels : List (List Node)), (∀ lv ∈ levels, ∀ b hi lo, Node.cmux b hi lo ∈ lv → b < nIn) →
      ∀ (k : ℤ), 0 ≤ k → ∀ (sb : List (Option Bool)) (sc : List (Option C)), m.Rel k sb sc →
      m.Rel (k + levels.length * m.Bc) (evalLevels inpB sb levels) (m.evalLevelsC inpG sc levels) := by
  intro levels
  induction levels with
  | nil => intro _ k _ sb sc h; simpa [evalLevels, evalLevelsC] using h
  | cons lv rest ih =>
    intro hr k hk sb sc h
    have h1 := m.rel_step nIn inpB inpG hin k hk sb sc h lv (hr lv (by simp))
    have h2 := ih (fun l hl => hr l (by simp [hl])) (k + m.Bc) (by linarith [m.hBc]) _ _ h1
    simp only [evalLevels, evalLevelsC, List.length_cons]
    push_cast
    have e : k + m.Bc + (rest.length : ℤ) * m.Bc = k + ((rest.length : ℤ) + 1) * m.Bc := by ring
    rw [e] at h2
    exact h2

/-- one output bit of `execute_bdd_circuit` on ciphertexts (same guards as `evalFlat`) -/
def evalFlatC (nIn w : Nat) (nodes : List Node) (inp : Nat → G) : Option C :=
  if w = 0 then some m.zero
  else if wellFormed nIn w nodes then
    match (m.evalLevelsC inp (m.initStateC w) (chunks w nodes))[0]? with
    | some v => v
    | none => none
  else none

/-- **`bdd_eval_noise`**: whenever C13's model gives the circuit a Boolean value `v` on the input bits, the executed chain of CMux
on prepared GGSWs of those bits returns a ciphertext whose phase is `enc v` up to an error of at most `L·Bc`, `L` = the number
of levels of the circuit — for arbitrary tables (well-formedness is part of `evalFlat … = some v`). -/
theorem bdd_eval_noise (nIn w : Nat) (nodes : List Node) (inpB : Nat → Bool) (inpG : Nat → G)
    (hin : ∀ b, b < nIn → m.good (inpG b) ∧ m.bit (inpG b) = inpB b) (v : Bool) (h : evalFlat nIn w nodes inpB = some v) :
    ∃ c, m.evalFlatC nIn w nodes inpG = some c ∧ S.ν (m.ph c - m.enc v) ≤ (chunks w nodes).length * m.Bc := by
  unfold evalFlat at h
  unfold evalFlatC
  by_cases hw : w = 0
  · rw [if_pos hw] at h ⊢
    injection h with h
    subst h
    refine ⟨m.zero, rfl, ?_⟩
    rw [m.zero_spec, sub_self, S.zero]
    exact mul_nonneg (by positivity) m.hBc
  · rw [if_neg hw] at h ⊢
    by_cases hwf : wellFormed nIn w nodes = true
    · rw [if_pos hwf] at h ⊢
      have hrange : ∀ lv ∈ chunks w nodes, ∀ b hi lo, Node.cmux b hi lo ∈ lv → b < nIn := by
        intro lv hlv b hi lo hmem
        have hnd := mem_chunksAux w _ _ lv hlv _ hmem
        have hwf' := hwf
        simp only [wellFormed, Bool.and_eq_true] at hwf'
        have hall := List.all_eq_true.1 hwf'.1.2 _ hnd
        simp only [nodeInRange, Bool.and_eq_true, decide_eq_true_eq] at hall
        exact hall.1.1
      have hrel := m.rel_levels nIn inpB inpG hin (chunks w nodes) hrange 0 (le_refl _) _ _ (m.rel_init w)
      rw [zero_add] at hrel
      unfold evalCircuit at h
      cases h0 : (evalLevels inpB (initState w) (chunks w nodes))[0]? with
      | none => rw [h0] at h; cases h
      | some o =>
        rw [h0] at h
        simp only at h
        subst h
        obtain ⟨c, hc, _, hb⟩ := hrel.2 0 v h0
        exact ⟨c, by rw [hc], hb⟩
    · rw [if_neg hwf] at h; cases h

end BddMachine

/-! ## Blind rotation: exact decoding of the constant coefficient, and the index -/

/-- reading of the constant coefficient at full precision -/
structure Coef0 (R : Type) [CommRing R] (S : Size R) where
  c0 : R → ℤ
  add : ∀ x y, c0 (x + y) = c0 x + c0 y
  le : ∀ x, |c0 x| ≤ S.ν x

/-- **`blind_rotation_correct`** (value side): the executed blind rotation of a trivially encrypted table whose rotation by the
total index has constant coefficient `v·Δ` (what `C14.lut_eval` / `blind_ext_eval` / `blind_plain_eval` give at plaintext
level: `v = ±f[index]`) decrypts, after rounding to the grid `Δ·ℤ`, to `v` EXACTLY as soon as the accumulated error
`2·n_lwe·B + (#blocks)·U` is below half a step of the table encoding. -/
theorem blind_rotation_correct {S : Size R} {M : Mono R S} {C G : Type} (m : BrMachine R S M C G) (K0 : Coef0 R S)
    (hB : 0 ≤ m.B) (blocks : List (List (ℤ × G))) (acc : C)
    (hkey : ∀ blk ∈ blocks, OneHot (blk.map fun p => m.bit p.2))
    (v Δ : ℤ) (hΔ : 0 < Δ) (hval : K0.c0 (M.X (m.totalRot blocks) * m.ph acc) = v * Δ)
    (hnum : 2 * (2 * (BrMachine.nBits blocks * m.B) + blocks.length * m.U) < Δ) :
    (K0.c0 (m.ph (m.exec acc blocks)) + Δ / 2) / Δ = v := by
  have h := m.exec_spec hB blocks acc hkey
  set e := m.ph (m.exec acc blocks) - M.X (m.totalRot blocks) * m.ph acc with he
  have hsplit : m.ph (m.exec acc blocks) = M.X (m.totalRot blocks) * m.ph acc + e := by rw [he]; ring
  rw [hsplit, K0.add, hval]
  apply round_exact _ _ _ hΔ
  have := K0.le e
  linarith

/-- **the index lands in its cell** (index side): `K` the rotation index (`K·2^d = Φ + E`, `C14.index_error` /
`index_error_low`: `|E| ≤ (1 + hw(s))·2^{d−1}`), `Φ = −(idx·step)·2^d + ε` the LWE phase at the precision of the switch
(`Left` direction; `ε` = the LWE noise), and `|E| + |ε| < (step/2)·2^d`: then `(drift − K) mod 2N = idx·step + e`, `0 < e < step` —
the hypothesis `hcell` of `C15.cbt_rows_bit` / `C14.blind_*_eval`. -/
theorem index_lands (d step N idx : ℕ) (K Φ E ε : ℤ) (hstep : step % 2 = 0)
    (hK : K * 2 ^ d = Φ + E) (hΦ : Φ = -((idx * step : ℕ) : ℤ) * 2 ^ d + ε)
    (hsmall : |E| + |ε| < ((step / 2 : ℕ) : ℤ) * 2 ^ d) (hfit : idx * step + step ≤ 2 * N) :
    ∃ e : ℕ, 0 < e ∧ e < step ∧ (((step / 2 : ℕ) : ℤ) - K) % (2 * (N : ℤ)) = ((idx * step + e : ℕ) : ℤ) := by
  have hp : (0 : ℤ) < 2 ^ d := by positivity
  -- δ := K + idx·step is small
  have hδ : (K + ((idx * step : ℕ) : ℤ)) * 2 ^ d = ε + E := by rw [add_mul, hK, hΦ]; ring
  have habs : |K + ((idx * step : ℕ) : ℤ)| * 2 ^ d < ((step / 2 : ℕ) : ℤ) * 2 ^ d := by
    have : |K + ((idx * step : ℕ) : ℤ)| * 2 ^ d = |ε + E| := by
      rw [← hδ, abs_mul, abs_of_pos hp]
    rw [this]
    have := abs_add_le ε E
    linarith
  have hlt : |K + ((idx * step : ℕ) : ℤ)| < ((step / 2 : ℕ) : ℤ) := lt_of_mul_lt_mul_right habs (le_of_lt hp)
  have hb := abs_lt.1 hlt
  have hdr : 2 * (step / 2) = step := by omega
  refine ⟨(((step / 2 : ℕ) : ℤ) - (K + ((idx * step : ℕ) : ℤ))).toNat, ?_, ?_, ?_⟩
  · omega
  · omega
  · have hnn : 0 ≤ ((step / 2 : ℕ) : ℤ) - (K + ((idx * step : ℕ) : ℤ)) := by omega
    have e1 : ((step / 2 : ℕ) : ℤ) - K = ((idx * step : ℕ) : ℤ) + (((step / 2 : ℕ) : ℤ) - (K + ((idx * step : ℕ) : ℤ))) := by ring
    rw [e1, Int.emod_eq_of_lt (by omega) (by omega)]
    rw [Nat.cast_add, Int.toNat_of_nonneg hnn]

/-! ## Word operations and re-preparation -/

/-- The machine of a word operation: the BDD machine plus decryption of the packed result.
* `c0`, `Δ`, `enc_true/false` — the documented encoding of a bit: constant coefficient `bit·Δ` (`Δ = q/4`).
* `pack_spec` — **PackCoeffContract**: `C03.pack_executed_value` + `C03.glwe_trace_decrypts` (the noisy trace contract): slot `i`
  of the packed word is the constant coefficient of bit ciphertext `i` up to `Bp`. -/
structure WordMachine (R : Type) [CommRing R] (S : Size R) (C G : Type) extends BddMachine R S C G where
  K0 : Coef0 R S
  Δ : ℤ
  hΔ : 0 < Δ
  enc_true : K0.c0 (enc true) = Δ
  enc_false : enc false = 0
  pack : (Nat → C) → C
  slot : C → Nat → ℤ
  Bp : ℤ
  pack_spec : ∀ cs i, i < 32 → |slot (pack cs) i - K0.c0 (ph (cs i))| ≤ Bp

namespace WordMachine
variable {S : Size R} {C G : Type} (m : WordMachine R S C G)

/-- decryption of one bit of the word: the slot rounded to the grid -/
def decBit (x : ℤ) : Bool := decide ((x + m.Δ / 2) / m.Δ ≠ 0)

theorem c0_enc (v : Bool) : m.K0.c0 (m.enc v) = (if v then 1 else 0) * m.Δ := by
  cases v
  · rw [m.enc_false]
    have := m.K0.add 0 0
    simp at this
    simp [this]
  · simp [m.enc_true]

/-- the 32 evaluated bit ciphertexts -/
noncomputable def outs (nIn : Nat) (width : Nat → Nat) (flat : Nat → List Node) (inpG : Nat → G) (i : Nat) : C :=
  (m.toBddMachine.evalFlatC nIn (width i) (flat i) inpG).getD m.zero

/-- **`word_op_correct`** (generic in the operation): if every per-bit circuit computes `bitOf i` on the input bits (C13),
the inputs are good GGSWs of those bits, the circuits have at most `L` levels and `2·(L·Bc + Bp) < Δ`, then every bit of the
decrypted packed result is `bitOf i`, and the slot error is at most `L·Bc + Bp`. -/
theorem word_op_correct (nIn : Nat) (width : Nat → Nat) (flat : Nat → List Node) (inpB : Nat → Bool) (inpG : Nat → G)
    (hin : ∀ b, b < nIn → m.good (inpG b) ∧ m.bit (inpG b) = inpB b) (bitOf : Nat → Bool)
    (hcirc : ∀ i, i < 32 → evalFlat nIn (width i) (flat i) inpB = some (bitOf i))
    (L : ℕ) (hL : ∀ i, i < 32 → (chunks (width i) (flat i)).length ≤ L)
    (hnum : 2 * (L * m.Bc + m.Bp) < m.Δ) (i : Nat) (hi : i < 32) :
    |m.slot (m.pack (m.outs nIn width flat inpG)) i - (if bitOf i then 1 else 0) * m.Δ| ≤ L * m.Bc + m.Bp ∧
    m.decBit (m.slot (m.pack (m.outs nIn width flat inpG)) i) = bitOf i := by
  obtain ⟨c, hc, hb⟩ := m.toBddMachine.bdd_eval_noise nIn (width i) (flat i) inpB inpG hin (bitOf i) (hcirc i hi)
  have hout : m.outs nIn width flat inpG i = c := by unfold outs; rw [hc]; rfl
  have hp := m.pack_spec (m.outs nIn width flat inpG) i hi
  rw [hout] at hp
  have hle : ((chunks (width i) (flat i)).length : ℤ) * m.Bc ≤ L * m.Bc :=
    mul_le_mul_of_nonneg_right (by exact_mod_cast hL i hi) m.hBc
  have hc0 : |m.K0.c0 (m.ph c) - (if bitOf i then 1 else 0) * m.Δ| ≤ L * m.Bc := by
    have h1 : m.K0.c0 (m.ph c) = m.K0.c0 (m.enc (bitOf i)) + m.K0.c0 (m.ph c - m.enc (bitOf i)) := by
      rw [← m.K0.add]; congr 1; ring
    rw [h1, m.c0_enc]
    have := m.K0.le (m.ph c - m.enc (bitOf i))
    simp only [add_sub_cancel_left]
    linarith
  have hslot : |m.slot (m.pack (m.outs nIn width flat inpG)) i - (if bitOf i then 1 else 0) * m.Δ| ≤ L * m.Bc + m.Bp := by
    have := abs_add_le (m.slot (m.pack (m.outs nIn width flat inpG)) i - m.K0.c0 (m.ph c))
      (m.K0.c0 (m.ph c) - (if bitOf i then 1 else 0) * m.Δ)
    have e : m.slot (m.pack (m.outs nIn width flat inpG)) i - (if bitOf i then 1 else 0) * m.Δ =
        (m.slot (m.pack (m.outs nIn width flat inpG)) i - m.K0.c0 (m.ph c)) + (m.K0.c0 (m.ph c) - (if bitOf i then 1 else 0) * m.Δ) := by ring
    rw [e]; linarith
  refine ⟨hslot, ?_⟩
  -- rounding
  set x := m.slot (m.pack (m.outs nIn width flat inpG)) i with hx
  have hr := round_exact (if bitOf i then 1 else 0) (x - (if bitOf i then 1 else 0) * m.Δ) m.Δ m.hΔ (by linarith)
  have e2 : (if bitOf i then (1:ℤ) else 0) * m.Δ + (x - (if bitOf i then 1 else 0) * m.Δ) + m.Δ / 2 = x + m.Δ / 2 := by ring
  rw [e2] at hr
  unfold decBit
  rw [hr]
  cases bitOf i <;> simp

end WordMachine

/-- The machine of re-preparation: `reprep c k` = `fhe_uint_prepare` of bit `k` of the packed word `c` (`get_bit_lwe`, key switch
to LWE, circuit bootstrapping).
* `reprep_spec` — **CbtContract**: when every slot of `c` is within `Bin` of its encoded bit, the produced GGSW of bit `k` is
  `good` again and encodes that bit.  Composition of `C03.glwe_to_lwe_decrypts` (unconditional, `ksBound`), `Noise.index_lands`
  + `C14.index_error`, `BrMachine.exec_spec` / `blind_rotation_correct`, the noisy trace (`C03.glwe_trace_decrypts`) and the row
  expansion (`C04.expand_cell_decrypts` + norm bound); the key error of the result (`Noise.cbtErr`) depends on the KEYS' errors
  only, not on the noise of `c` — which is why the pipeline has a fixed point. -/
structure PrepMachine (R : Type) [CommRing R] (S : Size R) (C G : Type) extends WordMachine R S C G where
  reprep : C → Nat → G
  Bin : ℤ
  reprep_spec : ∀ (c : C) (w : Nat → Bool), (∀ i, i < 32 → |slot c i - (if w i then 1 else 0) * Δ| ≤ Bin) →
    ∀ k, k < 32 → good (reprep c k) ∧ bit (reprep c k) = w k

namespace PrepMachine
variable {S : Size R} {C G : Type} (m : PrepMachine R S C G)

/-- two prepared words as the input numbering of the two-word evaluator -/
def inp2G {G : Type} (ga gb : Nat → G) (k : Nat) : G := if k < 32 then ga k else gb (k - 32)

/-- prepared: 32 good GGSWs of the bits of `w` -/
def Prepared (w : Nat → Bool) (g : Nat → G) : Prop := ∀ k, k < 32 → m.good (g k) ∧ m.bit (g k) = w k

/-- **`reprepare_noise_fixpoint`**: two prepared words, any two-word operation whose 32 circuits compute `bitOf` (C13), depth `≤ L`,
and the numeric conditions `L·Bc + Bp ≤ Bin`, `2·(L·Bc + Bp) < Δ`: the packed result decrypts to `bitOf` and its
re-preparation is PREPARED again (same machine, same bounds) — the noise does not grow across rounds. -/
theorem reprepare_noise_fixpoint (nIn : Nat) (hnIn : nIn ≤ 64) (width : Nat → Nat) (flat : Nat → List Node)
    (wa wb : Nat → Bool) (ga gb : Nat → G) (ha : m.Prepared wa ga) (hb : m.Prepared wb gb)
    (bitOf : Nat → Bool)
    (hcirc : ∀ i, i < 32 → evalFlat nIn (width i) (flat i) (fun k => if k < 32 then wa k else wb (k - 32)) = some (bitOf i))
    (L : ℕ) (hL : ∀ i, i < 32 → (chunks (width i) (flat i)).length ≤ L)
    (hfix : L * m.Bc + m.Bp ≤ m.Bin) (hnum : 2 * (L * m.Bc + m.Bp) < m.Δ) :
    let r := m.pack (m.toWordMachine.outs nIn width flat (inp2G ga gb))
    (∀ i, i < 32 → m.toWordMachine.decBit (m.slot r i) = bitOf i) ∧
    m.Prepared bitOf (m.reprep r) := by
  intro r
  have hin : ∀ k, k < nIn → m.good (inp2G ga gb k) ∧ m.bit (inp2G ga gb k) = (fun k => if k < 32 then wa k else wb (k - 32)) k := by
    intro k hkn
    unfold inp2G
    by_cases hk : k < 32
    · simp only [hk, if_true]; exact ha k hk
    · simp only [hk, if_false]; exact hb (k - 32) (by omega)
  have hw := fun i hi => m.toWordMachine.word_op_correct nIn width flat _ (inp2G ga gb) hin bitOf hcirc L hL hnum i hi
  refine ⟨fun i hi => (hw i hi).2, ?_⟩
  apply m.reprep_spec r bitOf
  intro i hi
  exact le_trans (hw i hi).1 hfix

end PrepMachine

/-- how the key error of a circuit-bootstrapped GGSW arises (**`cbt_gives_ggsw` with noise**, composition at phase level): a row is
the traced blind-rotation output (`ν e_row ≤ Bbr + Bt`), the cells of columns `≥ 1` are `s_c·row + η` with `ν η ≤ Bx`
(`C04.expand_cell_decrypts`: the SAME message in every column) and multiplication by a secret polynomial grows an error by at
most `S1 = ‖s_c‖₁`: every cell is `s_c·msg` up to `S1·(Bbr + Bt) + Bx`. -/
theorem cbt_cell_error {S : Size R} (row cell msg s : R) (Bbr Bt Bx S1 : ℤ) (hS1 : 0 ≤ S1)
    (hs : ∀ x, S.ν (s * x) ≤ S1 * S.ν x)
    (hrow : S.ν (row - msg) ≤ Bbr + Bt) (hcell : S.ν (cell - s * row) ≤ Bx) :
    S.ν (cell - s * msg) ≤ S1 * (Bbr + Bt) + Bx := by
  have e : cell - s * msg = (cell - s * row) + s * (row - msg) := by ring
  rw [e]
  have h1 := S.add_le (cell - s * row) (s * (row - msg))
  have h2 := hs (row - msg)
  have h3 : S1 * S.ν (row - msg) ≤ S1 * (Bbr + Bt) := mul_le_mul_of_nonneg_left hrow hS1
  linarith


end Noise
