/-
Key generation as encryption, part 6: the key hypothesis of the consumers (`hkey` of `glwe_keyswitch_decrypts`, `KsSide`, `ep_decrypts`,
`relin_decrypts`, `ggsw_cells_value`, …) proved for the cells the encryption routines produce.
-/
import Poulpy.Lemmas.KeyMat

namespace CoreEnc
open NormL Ks

/-- **the key hypothesis**: row `r` / input column `i` of `mat` has, under the secret `sOut`, gadget phase value
`msg i · β^(S − (r+1)·dsize) + EL i r + β^S · KL i r` (`β = 2^b`, `S = mat.size`).  With `msg i = ι s_in_i` this is literally `hkey` of
`C03.glwe_keyswitch_decrypts` / `KsSide`; with `E i r := ι (EL i r) + β^S ι (KL i r)` it is `hkey` of `C04.ep_decrypts`
(`msg i = m·σ_i`), `C05.relin_decrypts` (`msg i = 1·σ_i`) and `C03.ggsw_cells_value`. -/
def KeyOk (n b dsize : Nat) (mat : Hal.PMat) (sOut : List Poly) (msg : Nat → R n) (EL KL : Nat → Nat → Poly) : Prop :=
  ∀ i, i < mat.colsIn → ∀ r, r < mat.rows →
    Gadget.val (radix n b) mat.size (keyPhase n sOut mat i r) =
      msg i * radix n b ^ (mat.size - (r + 1) * dsize) + ι n (EL i r) + radix n b ^ mat.size * ι n (KL i r)

/-- `cells` are the cells of the descriptors `ds` (in loop order) under `sk`, cell `k` with the `k`-th error: each is
`glwe_encrypt_sk_internal` from some mask stream (the running `source_xa`, or `Source::new(stored seed)` after decompression) -/
def CellsOf (bits b n size kxe rank : Nat) (sk : List Poly) (ds : List (Nat × Option (Col × Nat))) (es : List Poly)
    (cells : List (Nat × List Col)) : Prop :=
  cells.length = ds.length ∧ ∀ (k : Nat) (d : Nat × Option (Col × Nat)), ds[k]? = some d →
    ∃ xak body ms xak', Core.encryptSkStream bits b n size kxe rank d.2 sk xak (es.getD k []) = some (body, ms, xak') ∧
      cells[k]? = some (d.1, body :: ms)

theorem cellsOf_standard {bits b n size kxe rank : Nat} {sk : List Poly} {ds : List (Nat × Option (Col × Nat))} {xa : List Nat} {es : List Poly}
    {out : List (Nat × List Col)} {xa' : List Nat} {es' : List Poly}
    (h : Core.standardCells bits b n size kxe rank sk ds xa es = some (out, xa', es')) : CellsOf bits b n size kxe rank sk ds es out := by
  obtain ⟨h1, _, _, h4⟩ := standardCells_get bits b n size kxe rank sk ds xa es out xa' es' h
  exact ⟨h1, h4⟩

theorem cells_index_nodup {bits b n size kxe rank : Nat} {sk : List Poly} {ds : List (Nat × Option (Col × Nat))} {es : List Poly}
    {cells : List (Nat × List Col)} (h : CellsOf bits b n size kxe rank sk ds es cells) (hnd : (ds.map (·.1)).Nodup) :
    (cells.map (·.1)).Nodup := by
  have e : cells.map (·.1) = ds.map (·.1) := by
    apply List.ext_getElem?
    intro k
    simp only [List.getElem?_map]
    cases hd : ds[k]? with
    | none =>
      have : cells[k]? = none := by
        rw [List.getElem?_eq_none_iff] at hd ⊢
        rw [h.1]; exact hd
      simp [this]
    | some d =>
      obtain ⟨_, _, _, _, _, h2⟩ := h.2 k d hd
      simp [h2]
  rw [e]; exact hnd

section row
variable {bits b n size kxe rank : Nat} {H E : Int}

/-- **one row of a key matrix**: the cell at loop position `k`, stored at index `j`, encrypting the gadget plaintext `p` of the scalar `s`
(weight `w`) in column `col` -/
theorem key_row (hbits : bits = 64 ∨ bits = 128) (hr : HeadRoom bits b 0 H) (hb1 : 1 ≤ b) (hb : b ≤ 61)
    (hk : 1 ≤ kxe) (hlimb : errLimb kxe b < size) (hn : 0 < n)
    (sk : List Poly) (hskl : sk.length = rank) (hsk : ∀ s ∈ sk, norm1 s * 2 ^ (b - 1) ≤ H)
    (ds : List (Nat × Option (Col × Nat))) (es : List Poly) (cells : List (Nat × List Col))
    (hc : CellsOf bits b n size kxe rank sk ds es cells) (hnd : (ds.map (·.1)).Nodup)
    (rows colsIn : Nat) (k j : Nat) (p : Col) (col : Nat) (hd : ds[k]? = some (j, some (p, col))) (hj : j < rows * colsIn)
    (hcol : col ≤ rank) (hpl : p.length = size) (hpw : WF n p) (hpb : Bounded (2 ^ (b - 1)) p)
    (s K : Poly) (w : Nat) (hK : K.length = n)
    (hpV : ι n (valPoly b n p) = ι n s * (((2 : Int) ^ (b * w) : Int) : R n) + (((2 : Int) ^ (b * size) : Int) : R n) * ι n K)
    (he : (es.getD k []).length = n) (hE0 : 0 ≤ E) (heB : ∀ x ∈ es.getD k [], |x| ≤ E)
    (hsum : (rank : Int) * 2 ^ (b - 1) + E + 2 ^ (b - 1) ≤ 2 ^ 62) :
    (∀ q, ((Core.keyMat n rows colsIn (rank + 1) size cells).entry j q).length = n) ∧
    ∃ KL : Poly, KL.length = n ∧
      Gadget.val (radix n b) size (fun l => ι n (phaseRow sk (rowLimb (Core.keyMat n rows colsIn (rank + 1) size cells) j l)))
        = (if col = 0 then 1 else ι n (sk.getD (col - 1) [])) * ι n s * radix n b ^ w
          + ι n (Hal.polyScale (2 ^ (b * (size - 1 - errLimb kxe b))) (es.getD k []))
          + radix n b ^ size * ι n KL := by
  obtain ⟨xak, body, ms, xak', hs, hcell⟩ := hc.2 k _ hd
  simp only at hs hcell
  obtain ⟨ml, mw, KL, hKL, hι⟩ := stream_cell_phase (n := n) hbits hr hb1 hb hk hlimb hn sk hskl hsk p col hcol hpl hpw hpb _ he hE0 heB hsum
    xak body ms xak' hs
  have hcols : Core.cellCols cells j = body :: ms := cellCols_of_get cells (cells_index_nodup hc hnd) k j _ hcell
  have hdata : (Core.keyMat n rows colsIn (rank + 1) size cells).data.getD j [] = body :: ms := by
    simp only [Core.keyMat]
    rw [List.getD_eq_getElem?_getD, List.getElem?_map, List.getElem?_range hj]
    simpa using hcols
  refine ⟨?_, ?_⟩
  · intro q
    simp only [Hal.PMat.entry, hdata]
    simp only [Core.keyMat]
    unfold Hal.limbOr0
    rw [List.getD_eq_getElem?_getD]
    cases hq : ((body :: ms).getD (q % (rank + 1)) [])[q / (rank + 1)]? with
    | none => simp [Hal.zeroP]
    | some l =>
      simp only [Option.getD_some]
      have hlm := List.mem_of_getElem? hq
      by_cases hin : q % (rank + 1) < (body :: ms).length
      · have hcm : (body :: ms).getD (q % (rank + 1)) [] ∈ body :: ms := by
          rw [List.getD_eq_getElem?_getD, List.getElem?_eq_getElem hin]; exact List.getElem_mem _
        exact (mw _ hcm).2 l hlm
      · rw [List.getD_eq_getElem?_getD, List.getElem?_eq_none (by omega)] at hlm
        simp at hlm
  · refine ⟨Hal.polyAdd KL (if col = 0 then K else Hal.negMul (sk.getD (col - 1) []) K), ?_, ?_⟩
    · split <;> simp [Hal.negMul_length, hKL, hK]
    · rw [radix_eq, keyPhase_cell n b size rank hn sk hskl _ rfl rfl j body ms hdata ml mw, hι, hpV, ι_polyScale,
        ι_add n _ _ (by split <;> simp [Hal.negMul_length, hKL, hK])]
      by_cases hc0 : col = 0
      · simp only [hc0, if_true]
        push_cast
        ring
      · simp only [hc0, if_false]
        rw [ι_negMul n _ _ hK hn]
        push_cast
        ring

end row

end CoreEnc
