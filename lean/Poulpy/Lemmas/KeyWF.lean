/-
Key generation as encryption, part 6: the key hypothesis of the consumers (`hkey` of `glwe_keyswitch_decrypts`, `KsSide`, `ep_decrypts`,
`relin_decrypts`, `ggsw_cells_value`, …) proved for the cells the encryption routines produce.
-/
import Poulpy.Lemmas.KeyMat
import Mathlib.Data.List.Nodup

namespace CoreEnc
open NormL Ks

/-- **the key hypothesis**: row `r` / input column `i` of `mat` has, under the secret `sOut`, gadget phase value
`msg i · β^(S − (r+1)·dsize) + EL i r + β^S · KL i r` (`β = 2^b`, `S = mat.size`).  With `msg i = ι s_in_i` this is literally `hkey` of
`C03.glwe_keyswitch_decrypts` / `KsSide`; with `E i r := ι (EL i r) + β^S ι (KL i r)` it is `hkey` of `C04.ep_decrypts`
(`msg i = m·σ_i`), `C05.relin_decrypts` (`msg i = 1·σ_i`) and `C03.ggsw_cells_value`. -/
def KeyOk (n b dsize : Nat) (mat : Hal.PMat) (sOut : List Poly) (msg : Nat → R n) (EL KL : Nat → Nat → Poly) : Prop :=
  ∀ i, i < mat.colsIn → ∀ r, r < mat.rows →
    Gadget.val (radix n b) mat.size (keyPhase n sOut mat i r) =
      msg i * radix n b ^ (mat.size - (r + 1) * dsize) + ι n (EL i r) + radix n b ^ mat.size * ι n (KL i r)

/-- `cells` are the cells of the descriptors `ds` (in loop order) under `sk`, cell `k` with the `k`-th error: each is
`glwe_encrypt_sk_internal` from some mask stream (the running `source_xa`, or `Source::new(stored seed)` after decompression) -/
def CellsOf (bits b n size kxe rank : Nat) (sk : List Poly) (ds : List (Nat × Option (Col × Nat))) (es : List Poly)
    (cells : List (Nat × List Col)) : Prop :=
  cells.length = ds.length ∧ ∀ (k : Nat) (d : Nat × Option (Col × Nat)), ds[k]? = some d →
    ∃ xak body ms xak', Core.encryptSkStream bits b n size kxe rank d.2 sk xak (es.getD k []) = some (body, ms, xak') ∧
      cells[k]? = some (d.1, body :: ms)

theorem cellsOf_standard {bits b n size kxe rank : Nat} {sk : List Poly} {ds : List (Nat × Option (Col × Nat))} {xa : List Nat} {es : List Poly}
    {out : List (Nat × List Col)} {xa' : List Nat} {es' : List Poly}
    (h : Core.standardCells bits b n size kxe rank sk ds xa es = some (out, xa', es')) : CellsOf bits b n size kxe rank sk ds es out := by
  obtain ⟨h1, _, _, h4⟩ := standardCells_get bits b n size kxe rank sk ds xa es out xa' es' h
  exact ⟨h1, h4⟩

theorem cells_index_nodup {bits b n size kxe rank : Nat} {sk : List Poly} {ds : List (Nat × Option (Col × Nat))} {es : List Poly}
    {cells : List (Nat × List Col)} (h : CellsOf bits b n size kxe rank sk ds es cells) (hnd : (ds.map (·.1)).Nodup) :
    (cells.map (·.1)).Nodup := by
  have e : cells.map (·.1) = ds.map (·.1) := by
    apply List.ext_getElem?
    intro k
    simp only [List.getElem?_map]
    cases hd : ds[k]? with
    | none =>
      have : cells[k]? = none := by
        rw [List.getElem?_eq_none_iff] at hd ⊢
        rw [h.1]; exact hd
      simp [this]
    | some d =>
      obtain ⟨_, _, _, _, _, h2⟩ := h.2 k d hd
      simp [h2]
  rw [e]; exact hnd

section row
variable {bits b n size kxe rank : Nat} {H E : Int}

/-- **one row of a key matrix**: the cell at loop position `k`, stored at index `j`, encrypting the gadget plaintext `p` of the scalar `s`
(weight `w`) in column `col` -/
theorem key_row (hbits : bits = 64 ∨ bits = 128) (hr : HeadRoom bits b 0 H) (hb1 : 1 ≤ b) (hb : b ≤ 61)
    (hk : 1 ≤ kxe) (hlimb : errLimb kxe b < size) (hn : 0 < n)
    (sk : List Poly) (hskl : sk.length = rank) (hsk : ∀ s ∈ sk, norm1 s * 2 ^ (b - 1) ≤ H)
    (ds : List (Nat × Option (Col × Nat))) (es : List Poly) (cells : List (Nat × List Col))
    (hc : CellsOf bits b n size kxe rank sk ds es cells) (hnd : (ds.map (·.1)).Nodup)
    (rows colsIn : Nat) (k j : Nat) (p : Col) (col : Nat) (hd : ds[k]? = some (j, some (p, col))) (hj : j < rows * colsIn)
    (hcol : col ≤ rank) (hpl : p.length = size) (hpw : WF n p) (hpb : Bounded (2 ^ (b - 1)) p)
    (s K : Poly) (w : Nat) (hK : K.length = n)
    (hpV : ι n (valPoly b n p) = ι n s * (((2 : Int) ^ (b * w) : Int) : R n) + (((2 : Int) ^ (b * size) : Int) : R n) * ι n K)
    (he : (es.getD k []).length = n) (hE0 : 0 ≤ E) (heB : ∀ x ∈ es.getD k [], |x| ≤ E)
    (hsum : (rank : Int) * 2 ^ (b - 1) + E + 2 ^ (b - 1) ≤ 2 ^ 62) :
    (∀ q, ((Core.keyMat n rows colsIn (rank + 1) size cells).entry j q).length = n) ∧
    ∃ KL : Poly, KL.length = n ∧
      Gadget.val (radix n b) size (fun l => ι n (phaseRow sk (rowLimb (Core.keyMat n rows colsIn (rank + 1) size cells) j l)))
        = (if col = 0 then 1 else ι n (sk.getD (col - 1) [])) * ι n s * radix n b ^ w
          + ι n (Hal.polyScale (2 ^ (b * (size - 1 - errLimb kxe b))) (es.getD k []))
          + radix n b ^ size * ι n KL := by
  obtain ⟨xak, body, ms, xak', hs, hcell⟩ := hc.2 k _ hd
  simp only at hs hcell
  obtain ⟨ml, mw, KL, hKL, hι⟩ := stream_cell_phase (n := n) hbits hr hb1 hb hk hlimb hn sk hskl hsk p col hcol hpl hpw hpb _ he hE0 heB hsum
    xak body ms xak' hs
  have hcols : Core.cellCols cells j = body :: ms := cellCols_of_get cells (cells_index_nodup hc hnd) k j _ hcell
  have hdata : (Core.keyMat n rows colsIn (rank + 1) size cells).data.getD j [] = body :: ms := by
    simp only [Core.keyMat]
    rw [List.getD_eq_getElem?_getD, List.getElem?_map, List.getElem?_range hj]
    simpa using hcols
  refine ⟨?_, ?_⟩
  · intro q
    simp only [Hal.PMat.entry, hdata]
    simp only [Core.keyMat]
    unfold Hal.limbOr0
    rw [List.getD_eq_getElem?_getD]
    cases hq : ((body :: ms).getD (q % (rank + 1)) [])[q / (rank + 1)]? with
    | none => simp [Hal.zeroP]
    | some l =>
      simp only [Option.getD_some]
      have hlm := List.mem_of_getElem? hq
      by_cases hin : q % (rank + 1) < (body :: ms).length
      · have hcm : (body :: ms).getD (q % (rank + 1)) [] ∈ body :: ms := by
          rw [List.getD_eq_getElem?_getD, List.getElem?_eq_getElem hin]; exact List.getElem_mem _
        exact (mw _ hcm).2 l hlm
      · rw [List.getD_eq_getElem?_getD, List.getElem?_eq_none (by omega)] at hlm
        simp at hlm
  · refine ⟨Hal.polyAdd KL (if col = 0 then K else Hal.negMul (sk.getD (col - 1) []) K), ?_, ?_⟩
    · split <;> simp [Hal.negMul_length, hKL, hK]
    · rw [radix_eq, keyPhase_cell n b size rank hn sk hskl _ rfl rfl j body ms hdata ml mw, hι, hpV, ι_polyScale,
        ι_add n _ _ (by split <;> simp [Hal.negMul_length, hKL, hK])]
      by_cases hc0 : col = 0
      · simp only [hc0, if_true]
        push_cast
        ring
      · simp only [hc0, if_false]
        rw [ι_negMul n _ _ hK hn]
        push_cast
        ring

end row

/-! ### GGLWE: every (row, input column) -/

theorem idx_inj (A : Nat) {r c r' c' : Nat} (hc : c < A) (hc' : c' < A) (h : r * A + c = r' * A + c') : r = r' ∧ c = c' := by
  have h1 : (r * A + c) / A = r := by rw [Nat.mul_comm, Nat.mul_add_div (by omega), Nat.div_eq_of_lt hc]; rfl
  have h2 : (r' * A + c') / A = r' := by rw [Nat.mul_comm, Nat.mul_add_div (by omega), Nat.div_eq_of_lt hc']; rfl
  have hr : r = r' := by rw [← h1, ← h2, h]
  subst hr
  exact ⟨rfl, by omega⟩

theorem gglwe_index_nodup (b n size dsize rankIn dnum : Nat) (pt : List Poly) :
    ((Core.gglweDescs b n size dsize rankIn dnum pt).map (·.1)).Nodup := by
  simp only [Core.gglweDescs, List.map_flatMap, List.map_map, Function.comp_def]
  rw [List.nodup_flatMap]
  constructor
  · intro col hcol
    simp only [List.mem_range] at hcol
    apply List.Nodup.map_on _ List.nodup_range
    intro x _ y _ h
    exact (idx_inj rankIn hcol hcol h).1
  · apply List.Nodup.pairwise_of_forall_ne List.nodup_range
    intro c hc c' hc' hne
    simp only [List.mem_range] at hc hc'
    simp only [Function.onFun]
    intro x hx hx'
    simp only [List.mem_map, List.mem_range] at hx hx'
    obtain ⟨r, _, rfl⟩ := hx
    obtain ⟨r', _, h⟩ := hx'
    exact hne (idx_inj rankIn hc hc' h.symm).2

theorem descsOk_fst (L : List (Nat × Option (Option (Col × Nat)))) (ds : List (Nat × Option (Col × Nat)))
    (h : Core.descsOk L = some ds) : ds.map (·.1) = L.map (·.1) := by
  obtain ⟨hl, hg⟩ := mapM_some_get _ L ds h
  apply List.ext_getElem?
  intro k
  simp only [List.getElem?_map]
  cases hk : L[k]? with
  | none =>
    have : ds[k]? = none := by rw [List.getElem?_eq_none_iff] at hk ⊢; omega
    simp [this]
  | some a =>
    obtain ⟨y, h1, h2⟩ := hg k a hk
    cases ha : a.2 with
    | none => simp [ha] at h1
    | some p => simp [ha] at h1; simp [h2, ← h1]

section gglwe
variable {bits b n size kxe rankOut rankIn dnum dsize : Nat} {H E : Int}

/-- **GGLWE-type keys are well formed**: for the cells of `gglwe_encrypt_sk` / decompressed `gglwe_compressed_encrypt_sk` of the scalars
`pts` under `sk`, the matrix the consumers read satisfies `KeyOk` with message `ι pts_i` at gadget position
`ptLimb = (dsize−1) + row·dsize`, explicit error `EL i r = 2^(b·(size−1−errLimb)) · e_{i·dnum+r}` (the error of the cell's rank in loop
order: column outer, row inner), and some multiple `KL` of the modulus. -/
theorem gglwe_descs_wellformed (hbits : bits = 64 ∨ bits = 128) (hr : HeadRoom bits b 0 H) (hb1 : 1 ≤ b) (hb : b ≤ 61)
    (hk : 1 ≤ kxe) (hlimb : errLimb kxe b < size) (hn : 0 < n) (hd : 1 ≤ dsize)
    (sk : List Poly) (hskl : sk.length = rankOut) (hsk : ∀ s ∈ sk, norm1 s * 2 ^ (b - 1) ≤ H)
    (pts : List Poly) (hpts : ∀ i, i < rankIn → (pts.getD i []).length = n ∧ ∀ x ∈ pts.getD i [], |x| ≤ 2 ^ 62)
    (ds : List (Nat × Option (Col × Nat))) (hds : Core.descsOk (Core.gglweDescs b n size dsize rankIn dnum pts) = some ds)
    (es : List Poly) (cells : List (Nat × List Col)) (hc : CellsOf bits b n size kxe rankOut sk ds es cells)
    (hes : ∀ k, k < rankIn * dnum → (es.getD k []).length = n ∧ ∀ x ∈ es.getD k [], |x| ≤ E) (hE0 : 0 ≤ E)
    (hsum : (rankOut : Int) * 2 ^ (b - 1) + E + 2 ^ (b - 1) ≤ 2 ^ 62) :
    (∀ i, i < rankIn → ∀ r, r < dnum → (r + 1) * dsize ≤ size ∧
      ∀ q, ((Core.keyMat n dnum rankIn (rankOut + 1) size cells).entry (r * rankIn + i) q).length = n) ∧
    ∃ KL : Nat → Nat → Poly, (∀ i r, (KL i r).length = n) ∧
      KeyOk n b dsize (Core.keyMat n dnum rankIn (rankOut + 1) size cells) sk (fun i => ι n (pts.getD i []))
        (fun i r => Hal.polyScale (2 ^ (b * (size - 1 - errLimb kxe b))) (es.getD (i * dnum + r) [])) KL := by
  have hnd : (ds.map (·.1)).Nodup := by rw [descsOk_fst _ ds hds]; exact gglwe_index_nodup b n size dsize rankIn dnum pts
  -- the per-(i, r) statement
  have hrow : ∀ i, i < rankIn → ∀ r, r < dnum → (r + 1) * dsize ≤ size ∧
      (∀ q, ((Core.keyMat n dnum rankIn (rankOut + 1) size cells).entry (r * rankIn + i) q).length = n) ∧
      ∃ KL : Poly, KL.length = n ∧
        Gadget.val (radix n b) size (keyPhase n sk (Core.keyMat n dnum rankIn (rankOut + 1) size cells) i r)
          = ι n (pts.getD i []) * radix n b ^ (size - (r + 1) * dsize)
            + ι n (Hal.polyScale (2 ^ (b * (size - 1 - errLimb kxe b))) (es.getD (i * dnum + r) []))
            + radix n b ^ size * ι n KL := by
    intro i hi r hr'
    have hget := flatMap_range_get rankIn dnum (fun col row =>
      (row * rankIn + col, (Core.gadgetPt b n size dsize row (pts.getD col [])).map (fun p => some (p, 0)))) i r hi hr'
    obtain ⟨_, hg⟩ := mapM_some_get _ _ ds hds
    obtain ⟨y, hy1, hy2⟩ := hg (i * dnum + r) _ (by simpa [Core.gglweDescs] using hget)
    have hy1' : ∃ p, Core.gadgetPt b n size dsize r (pts.getD i []) = some p ∧ y = (r * rankIn + i, some (p, 0)) := by
      cases hgp : Core.gadgetPt b n size dsize r (pts.getD i []) with
      | none => rw [List.getD_eq_getElem?_getD] at hgp; rw [hgp] at hy1; simp at hy1
      | some p => rw [List.getD_eq_getElem?_getD] at hgp; rw [hgp] at hy1; simp at hy1; exact ⟨p, rfl, hy1.symm⟩
    obtain ⟨p, hgp, rfl⟩ := hy1'
    have hmain : (r + 1) * dsize ≤ size ∧
      (∀ q, ((Core.keyMat n dnum rankIn (rankOut + 1) size cells).entry (r * rankIn + i) q).length = n) ∧
      ∃ KL : Poly, KL.length = n ∧
        Gadget.val (radix n b) size (keyPhase n sk (Core.keyMat n dnum rankIn (rankOut + 1) size cells) i r)
          = ι n (pts.getD i []) * radix n b ^ (size - (r + 1) * dsize)
            + ι n (Hal.polyScale (2 ^ (b * (size - 1 - errLimb kxe b))) (es.getD (i * dnum + r) []))
            + radix n b ^ size * ι n KL := by
      obtain ⟨pl, pw, pb, hsz, K, hK, hpV⟩ := gadgetPt_value hb1 hb hd (pts.getD i []) (hpts i hi).1 (hpts i hi).2 p hgp
      have hkk : i * dnum + r < rankIn * dnum := by
        have : (i + 1) * dnum ≤ rankIn * dnum := Nat.mul_le_mul_right dnum hi
        rw [Nat.succ_mul] at this; omega
      have hjj : r * rankIn + i < dnum * rankIn := by
        have : (r + 1) * rankIn ≤ dnum * rankIn := Nat.mul_le_mul_right rankIn hr'
        rw [Nat.succ_mul] at this; omega
      obtain ⟨hM, KL, hKL, hv⟩ := key_row (n := n) hbits hr hb1 hb hk hlimb hn sk hskl hsk ds es cells hc hnd dnum rankIn
        (i * dnum + r) (r * rankIn + i) p 0 hy2 hjj (Nat.zero_le _) pl pw pb (pts.getD i []) K (size - (r + 1) * dsize) hK hpV
        (hes _ hkk).1 hE0 (hes _ hkk).2 hsum
      refine ⟨hsz, hM, KL, hKL, ?_⟩
      simp only [if_true, one_mul] at hv
      exact hv
    exact hmain
  refine ⟨fun i hi r hr' => ⟨(hrow i hi r hr').1, (hrow i hi r hr').2.1⟩, ?_⟩
  classical
  refine ⟨fun i r => if h : i < rankIn ∧ r < dnum then Classical.choose (hrow i h.1 r h.2).2.2 else Hal.zeroP n, ?_, ?_⟩
  · intro i r
    by_cases h : i < rankIn ∧ r < dnum
    · simp only [h, and_self, dite_true]
      exact (Classical.choose_spec (hrow i h.1 r h.2).2.2).1
    · simp only [h, dite_false]; simp [Hal.zeroP]
  · intro i hi r hr'
    simp only [Core.keyMat] at hi hr'
    have h : i < rankIn ∧ r < dnum := ⟨hi, hr'⟩
    simp only [h, and_self, dite_true]
    exact (Classical.choose_spec (hrow i hi r hr').2.2).2

end gglwe

/-! ### GGSW: every (row, column) -/

theorem ggsw_index_nodup (b n size dsize rank dnum : Nat) (pt : Poly) :
    ((Core.ggswDescs b n size dsize rank dnum pt).map (·.1)).Nodup := by
  simp only [Core.ggswDescs, List.map_flatMap, List.map_map, Function.comp_def]
  rw [List.nodup_flatMap]
  constructor
  · intro row _
    apply List.Nodup.map_on _ List.nodup_range
    intro x hx y hy h
    simp only [List.mem_range] at hx hy
    exact (idx_inj (rank + 1) hx hy h).2
  · apply List.Nodup.pairwise_of_forall_ne List.nodup_range
    intro r _ r' _ hne
    simp only [Function.onFun]
    intro x hx hx'
    simp only [List.mem_map, List.mem_range] at hx hx'
    obtain ⟨c, hc, rfl⟩ := hx
    obtain ⟨c', hc', h⟩ := hx'
    exact hne (idx_inj (rank + 1) hc hc' h.symm).1

section ggsw
variable {bits b n size kxe rank dnum dsize : Nat} {H E : Int}

/-- **GGSW ciphertexts / keys are well formed**: for the cells of `ggsw_encrypt_sk` / decompressed `ggsw_compressed_encrypt_sk` of the
scalar `pt` under `sk`: cell `(r, 0)` has phase `pt·gadget_r + e`, cell `(r, c+1)` has phase `pt·s_c·gadget_r + e` — `KeyOk` with message
`σ_i · ι pt` (`σ_0 = 1`, `σ_{c+1} = ι s_c`), error of the cell's rank in loop order (row outer, column inner). -/
theorem ggsw_descs_wellformed (hbits : bits = 64 ∨ bits = 128) (hr : HeadRoom bits b 0 H) (hb1 : 1 ≤ b) (hb : b ≤ 61)
    (hk : 1 ≤ kxe) (hlimb : errLimb kxe b < size) (hn : 0 < n) (hd : 1 ≤ dsize)
    (sk : List Poly) (hskl : sk.length = rank) (hsk : ∀ s ∈ sk, norm1 s * 2 ^ (b - 1) ≤ H)
    (pt : Poly) (hptl : pt.length = n) (hptB : ∀ x ∈ pt, |x| ≤ 2 ^ 62)
    (ds : List (Nat × Option (Col × Nat))) (hds : Core.descsOk (Core.ggswDescs b n size dsize rank dnum pt) = some ds)
    (es : List Poly) (cells : List (Nat × List Col)) (hc : CellsOf bits b n size kxe rank sk ds es cells)
    (hes : ∀ k, k < dnum * (rank + 1) → (es.getD k []).length = n ∧ ∀ x ∈ es.getD k [], |x| ≤ E) (hE0 : 0 ≤ E)
    (hsum : (rank : Int) * 2 ^ (b - 1) + E + 2 ^ (b - 1) ≤ 2 ^ 62) :
    (∀ i, i < rank + 1 → ∀ r, r < dnum → (r + 1) * dsize ≤ size ∧
      ∀ q, ((Core.keyMat n dnum (rank + 1) (rank + 1) size cells).entry (r * (rank + 1) + i) q).length = n) ∧
    ∃ KL : Nat → Nat → Poly, (∀ i r, (KL i r).length = n) ∧
      KeyOk n b dsize (Core.keyMat n dnum (rank + 1) (rank + 1) size cells) sk
        (fun i => (if i = 0 then 1 else ι n (sk.getD (i - 1) [])) * ι n pt)
        (fun i r => Hal.polyScale (2 ^ (b * (size - 1 - errLimb kxe b))) (es.getD (r * (rank + 1) + i) [])) KL := by
  have hnd : (ds.map (·.1)).Nodup := by rw [descsOk_fst _ ds hds]; exact ggsw_index_nodup b n size dsize rank dnum pt
  have hrow : ∀ i, i < rank + 1 → ∀ r, r < dnum → (r + 1) * dsize ≤ size ∧
      (∀ q, ((Core.keyMat n dnum (rank + 1) (rank + 1) size cells).entry (r * (rank + 1) + i) q).length = n) ∧
      ∃ KL : Poly, KL.length = n ∧
        Gadget.val (radix n b) size (keyPhase n sk (Core.keyMat n dnum (rank + 1) (rank + 1) size cells) i r)
          = (if i = 0 then 1 else ι n (sk.getD (i - 1) [])) * ι n pt * radix n b ^ (size - (r + 1) * dsize)
            + ι n (Hal.polyScale (2 ^ (b * (size - 1 - errLimb kxe b))) (es.getD (r * (rank + 1) + i) []))
            + radix n b ^ size * ι n KL := by
    intro i hi r hr'
    have hget := flatMap_range_get dnum (rank + 1) (fun row col =>
      (row * (rank + 1) + col, (Core.gadgetPt b n size dsize row pt).map (fun p => some (p, col)))) r i hr' hi
    obtain ⟨_, hg⟩ := mapM_some_get _ _ ds hds
    obtain ⟨y, hy1, hy2⟩ := hg (r * (rank + 1) + i) _ (by simpa [Core.ggswDescs] using hget)
    have hy1' : ∃ p, Core.gadgetPt b n size dsize r pt = some p ∧ y = (r * (rank + 1) + i, some (p, i)) := by
      cases hgp : Core.gadgetPt b n size dsize r pt with
      | none => rw [hgp] at hy1; simp at hy1
      | some p => rw [hgp] at hy1; simp at hy1; exact ⟨p, rfl, hy1.symm⟩
    obtain ⟨p, hgp, rfl⟩ := hy1'
    obtain ⟨pl, pw, pb, hsz, K, hK, hpV⟩ := gadgetPt_value hb1 hb hd pt hptl hptB p hgp
    have hkk : r * (rank + 1) + i < dnum * (rank + 1) := by
      have : (r + 1) * (rank + 1) ≤ dnum * (rank + 1) := Nat.mul_le_mul_right (rank + 1) hr'
      rw [Nat.succ_mul] at this; omega
    obtain ⟨hM, KL, hKL, hv⟩ := key_row (n := n) hbits hr hb1 hb hk hlimb hn sk hskl hsk ds es cells hc hnd dnum (rank + 1)
      (r * (rank + 1) + i) (r * (rank + 1) + i) p i hy2 hkk (by omega) pl pw pb pt K (size - (r + 1) * dsize) hK hpV
      (hes _ hkk).1 hE0 (hes _ hkk).2 hsum
    exact ⟨hsz, hM, KL, hKL, hv⟩
  refine ⟨fun i hi r hr' => ⟨(hrow i hi r hr').1, (hrow i hi r hr').2.1⟩, ?_⟩
  classical
  refine ⟨fun i r => if h : i < rank + 1 ∧ r < dnum then Classical.choose (hrow i h.1 r h.2).2.2 else Hal.zeroP n, ?_, ?_⟩
  · intro i r
    by_cases h : i < rank + 1 ∧ r < dnum
    · simp only [h, and_self, dite_true]
      exact (Classical.choose_spec (hrow i h.1 r h.2).2.2).1
    · simp only [h, dite_false]; simp [Hal.zeroP]
  · intro i hi r hr'
    simp only [Core.keyMat] at hi hr'
    have h : i < rank + 1 ∧ r < dnum := ⟨hi, hr'⟩
    simp only [h, and_self, dite_true]
    exact (Classical.choose_spec (hrow i hi r hr').2.2).2

end ggsw

end CoreEnc
