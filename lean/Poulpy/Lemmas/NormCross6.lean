/-
Helper lemmas for C08: the cross-radix `vec_znx_normalize`, part 6 — negative limb offsets:
general rounding-shift spec, the carry-propagation block, arithmetic of the classes (N1) and (N2).
-/
import Poulpy.Lemmas.NormCross5

namespace NormL

/-- the two rounding shifts of the model are one generic routine -/
def mulPow2NegW (bits : Nat) (x : Int) (k : Nat) : Int :=
  let signBit : Int := (sarI x (bits - 1)) % 2
  let bias := wrapN bits (shlW bits 1 (k - 1) - signBit)
  sarI (wrapN bits (x + bias)) k

theorem mulPow2NegRef_eq (x : Int) (k : Nat) : mulPow2NegRef x k = mulPow2NegW 64 x k := rfl
theorem mulPow2Neg128_eq (x : Int) (k : Nat) : mulPow2Neg128 x k = mulPow2NegW 128 x k := rfl

/-- rounding shift by `1 ≤ k ≤ bits − 1` bits: `x = x'·2^k + ρ`, `2|ρ| ≤ 2^k` -/
theorem mulPow2NegW_spec {bits : Nat} (hbits : 2 ≤ bits) {k : Nat} (hk : 1 ≤ k) (hkb : k + 1 ≤ bits) {x : Int}
    (hx : |x| + 1 ≤ 2 ^ (bits - 2)) :
    ∃ ρ : Int, x = mulPow2NegW bits x k * 2 ^ k + ρ ∧ 2 * |ρ| ≤ 2 ^ k := by
  have hxr := abs_le.mp (show |x| ≤ 2 ^ (bits - 2) - 1 by linarith)
  have hK := two_pow_pos k
  have hK1 := two_pow_pos (k - 1)
  have e2 := half_le_full hk
  have hb1 : (2 : Int) ^ (bits - 1) = 2 * 2 ^ (bits - 2) := by
    rw [← pow_succ']; congr 1; omega
  have hk2 : (2 : Int) ^ (k - 1) ≤ 2 ^ (bits - 2) := two_pow_le (by omega)
  have hP2 := two_pow_pos (bits - 2)
  have hbits1 : 1 ≤ bits := by omega
  have hs : (sarI x (bits - 1)) % 2 = (if x < 0 then 1 else 0) := by
    unfold sarI
    have hB := two_pow_pos (bits - 1)
    by_cases hneg : x < 0
    · have : x / 2 ^ (bits - 1) = -1 := by
        have := (Int.ediv_emod_unique hB (a := x) (q := -1) (r := x + 2 ^ (bits - 1))).mpr
          ⟨by ring, by linarith, by linarith⟩
        exact this.1
      rw [this, if_pos hneg]; rfl
    · have : x / 2 ^ (bits - 1) = 0 := Int.ediv_eq_zero_of_lt (by linarith) (by linarith)
      rw [this, if_neg hneg]; rfl
  have wr : ∀ y : Int, |y| < 2 ^ (bits - 1) → wrapN bits y = y := fun y hy => wrapN_eq_abs hbits1 hy
  have hshl : shlW bits 1 (k - 1) = 2 ^ (k - 1) := by
    unfold shlW; rw [one_mul]; exact wr _ (by rw [abs_of_pos hK1]; linarith)
  have key : ∀ s : Int, (s = 0 ∧ 0 ≤ x) ∨ (s = 1 ∧ x < 0) →
      ∃ ρ : Int, x = ((x + (2 ^ (k - 1) - s)) / 2 ^ k) * 2 ^ k + ρ ∧ 2 * |ρ| ≤ 2 ^ k := by
    intro s hs'
    have hdm := Int.emod_add_mul_ediv (x + (2 ^ (k - 1) - s)) (2 ^ k)
    have hnn := Int.emod_nonneg (x + (2 ^ (k - 1) - s)) (ne_of_gt hK)
    have hlt := Int.emod_lt_of_pos (x + (2 ^ (k - 1) - s)) hK
    refine ⟨(x + (2 ^ (k - 1) - s)) % 2 ^ k - (2 ^ (k - 1) - s), by linarith, ?_⟩
    have : |(x + (2 ^ (k - 1) - s)) % 2 ^ k - (2 ^ (k - 1) - s)| ≤ 2 ^ (k - 1) := by
      rcases hs' with ⟨rfl, _⟩ | ⟨rfl, _⟩ <;> (rw [abs_le]; constructor <;> linarith)
    linarith
  unfold mulPow2NegW
  simp only [hs, hshl]
  by_cases hneg : x < 0
  · simp only [if_pos hneg]
    rw [wr (2 ^ (k - 1) - 1) (by rw [abs_of_nonneg (by linarith)]; linarith),
      wr (x + (2 ^ (k - 1) - 1)) (by rw [abs_lt]; constructor <;> linarith)]
    exact key 1 (Or.inr ⟨rfl, hneg⟩)
  · simp only [if_neg hneg]
    rw [wr (2 ^ (k - 1) - 0) (by rw [sub_zero, abs_of_pos hK1]; linarith),
      wr (x + (2 ^ (k - 1) - 0)) (by rw [abs_lt]; constructor <;> linarith)]
    exact key 0 (Or.inl ⟨rfl, by omega⟩)

section
variable {bits ab rb rs lsh : Nat} {H : Int} {a : List Int}

theorem CrossCtx.headRoomR (c : CrossCtx bits ab rb rs lsh H a) : HeadRoom bits rb 0 H := by
  refine ⟨c.bits1, c.hrb1, by have := c.hrb; rcases c.hbits with h | h <;> omega, c.hH0, ?_⟩
  have h1 : (2 : Int) ^ rb ≤ 2 ^ 62 := two_pow_le c.hrb
  have h2 : (2 : Int) ^ 62 ≤ 2 ^ (bits - 2) := two_pow_le (by rcases c.hbits with h | h <;> omega)
  have := c.pow_bits
  have := c.hH
  linarith

/-- the gap scaling of the carry (`a_carry` rounded down by `g` bits; `0` when `g ≥ BITS`) -/
theorem cross_gap_carry (c : CrossCtx bits ab rb rs lsh H a) (g : Nat) {cD : Int} (hcD : |cD| ≤ H + 3) :
    ∃ ρ : Int,
      cD = (if g ≠ 0 then (if g < bits then (if bits = 64 then mulPow2NegRef cD g else mulPow2Neg128 cD g) else 0)
            else cD) * 2 ^ g + ρ ∧
      2 * |ρ| ≤ 2 ^ g ∧ (g = 0 → ρ = 0) ∧
      |(if g ≠ 0 then (if g < bits then (if bits = 64 then mulPow2NegRef cD g else mulPow2Neg128 cD g) else 0)
            else cD)| ≤ H + 3 := by
  have hH := c.hH
  have hH0 := c.hH0
  by_cases hg0 : g = 0
  · subst hg0; simp only [ne_eq, not_true_eq_false, if_false, pow_zero, mul_one]
    exact ⟨0, by ring, by simp, fun _ => rfl, hcD⟩
  · simp only [ne_eq, hg0, not_false_eq_true, if_true]
    by_cases hgb : g < bits
    · simp only [hgb, if_true]
      have hW : (if bits = 64 then mulPow2NegRef cD g else mulPow2Neg128 cD g) = mulPow2NegW bits cD g := by
        rcases c.hbits with h | h
        · subst h; simp [mulPow2NegRef_eq]
        · subst h; simp [mulPow2Neg128_eq]
      rw [hW]
      obtain ⟨ρ, h1, h2⟩ := mulPow2NegW_spec (bits := bits) (by rcases c.hbits with h | h <;> omega)
        (k := g) (by omega) (by omega) (x := cD) (by linarith)
      refine ⟨ρ, h1, h2, (by intro h0; first | exact absurd h0 hg0 | exact h0.elim), ?_⟩
      -- |x'| ≤ |x|
      have hG := two_pow_pos g
      have hG2 : (2 : Int) ≤ 2 ^ g := by
        have := two_pow_le (show 1 ≤ g by omega); simpa using this
      have hm : mulPow2NegW bits cD g * 2 ^ g = cD - ρ := by linarith
      have h3 : |mulPow2NegW bits cD g| * 2 ^ g ≤ |cD| + |ρ| := by
        have : |mulPow2NegW bits cD g * 2 ^ g| ≤ |cD| + |ρ| := by rw [hm]; exact abs_sub _ _
        rwa [abs_mul, abs_of_pos hG] at this
      have hq := abs_nonneg (mulPow2NegW bits cD g)
      by_contra hne
      have h4 : H + 4 ≤ |mulPow2NegW bits cD g| := by omega
      have h5 : (H + 4) * 2 ^ g ≤ |mulPow2NegW bits cD g| * 2 ^ g := mul_le_mul_of_nonneg_right h4 (le_of_lt hG)
      nlinarith
    · simp only [hgb, if_false, zero_mul, zero_add]
      refine ⟨cD, rfl, ?_, (by intro h0; first | exact absurd h0 hg0 | exact h0.elim), by simp; linarith⟩
      have h1 : (2 : Int) ^ (bits - 1) ≤ 2 ^ (g - 1) := two_pow_le (by omega)
      have h2 := half_le_full (show 1 ≤ g by omega)
      have := c.pow_bits
      have := two_pow_pos (bits - 2)
      linarith

/-- a prefix all of whose entries are zero -/
theorem take_eq_replicate_zero (l : List Int) : ∀ n, n ≤ l.length → (∀ i, i < n → l.getD i 0 = 0) →
    l.take n = List.replicate n 0 := by
  intro n
  induction n with
  | zero => intro _ _; simp
  | succ n ih =>
    intro hn hz
    rw [take_succ_getD l n (by omega), ih (by omega) (fun i hi => hz i (by omega)), hz n (by omega),
      List.replicate_succ']

/-- final arithmetic of the negative classes: from `A·2^lsh·2^(rb·rs) = (V + q·2^(rb·rs))·2^(ab·as + Ln·ab) + E·2^(rb·rs)` -/
theorem neg_final_arith (V A q E : Int) (ab rb rs as_ lsh Ln p : Nat) (hp : p + lsh = Ln * ab)
    (hrel : A * 2 ^ lsh * 2 ^ (rb * rs) = (V + q * 2 ^ (rb * rs)) * 2 ^ (ab * as_ + Ln * ab) + E * 2 ^ (rb * rs))
    (hE : |E| * 2 ^ (rb * rs) ≤ 2 ^ (ab * as_ + Ln * ab)) :
    TorusNear V (rb * rs) A (ab * as_ + p) ∧ (E = 0 → TorusEq V (rb * rs) A (ab * as_ + p)) := by
  have hS := two_pow_pos lsh
  have hW : (2 : Int) ^ (ab * as_ + p) * 2 ^ lsh = 2 ^ (ab * as_ + Ln * ab) := by
    rw [← pow_add]; congr 1; omega
  set e := V * 2 ^ (ab * as_ + p) - A * 2 ^ (rb * rs) + q * 2 ^ (rb * rs + (ab * as_ + p)) with he
  have heS : e * 2 ^ lsh = -(E * 2 ^ (rb * rs)) := by
    have e2 : (2 : Int) ^ (rb * rs + (ab * as_ + p)) = 2 ^ (rb * rs) * 2 ^ (ab * as_ + p) := pow_add _ _ _
    rw [he, e2]
    have : (V * 2 ^ (ab * as_ + p) - A * 2 ^ (rb * rs) + q * (2 ^ (rb * rs) * 2 ^ (ab * as_ + p))) * 2 ^ lsh
        = V * (2 ^ (ab * as_ + p) * 2 ^ lsh) - A * 2 ^ lsh * 2 ^ (rb * rs)
          + q * 2 ^ (rb * rs) * (2 ^ (ab * as_ + p) * 2 ^ lsh) := by ring
    rw [this, hW, hrel]; ring
  constructor
  · refine ⟨-q, e, by rw [he]; ring, ?_⟩
    have h1 : |e| * 2 ^ lsh ≤ 2 ^ (ab * as_ + p) * 2 ^ lsh := by
      have : |e * 2 ^ lsh| = |E| * 2 ^ (rb * rs) := by
        rw [heS, abs_neg, abs_mul, abs_of_pos (two_pow_pos _)]
      rw [abs_mul, abs_of_pos hS] at this
      rw [this, hW]; exact hE
    exact le_of_mul_le_mul_right h1 hS
  · intro hE0
    refine ⟨-q, ?_⟩
    have : e = 0 := by
      rw [hE0, zero_mul, neg_zero] at heS
      rcases mul_eq_zero.mp heS with h | h
      · exact h
      · exact absurd h (ne_of_gt hS)
    rw [he] at this
    linarith

end

end NormL

namespace NormL

section
variable {bits ab rb rs lsh : Nat} {H : Int} {a : List Int}

theorem CrossCtx.headRoomR3 (c : CrossCtx bits ab rb rs lsh H a) : HeadRoom bits rb 0 (H + 3) := by
  refine ⟨c.bits1, c.hrb1, by have := c.hrb; rcases c.hbits with h | h <;> omega, by have := c.hH0; linarith, ?_⟩
  have h1 : (2 : Int) ^ rb ≤ 2 ^ 62 := two_pow_le c.hrb
  have h2 : (2 : Int) ^ 62 ≤ 2 ^ (bits - 2) := two_pow_le (by rcases c.hbits with h | h <;> omega)
  have := c.pow_bits
  have := c.hH
  linarith

/-- the carry-propagation block of negative offsets: the top `L'` (zero) limbs of the result receive
the balanced digits of the pending carry `cc` (weight `2^(rb·(rs−L'))`), the overflow is dropped -/
theorem cross_top_block (c : CrossCtx bits ab rb rs lsh H a) (res : List Int) (L' : Nat) (cc : Int)
    (hlen : res.length = rs) (hL : L' ≤ rs) (hz : ∀ i, i < L' → res.getD i 0 = 0)
    (hlims : ∀ d ∈ res, |d| ≤ 2 ^ rb - 1) (hcc : |cc| ≤ H + 6) :
    ((finalTopRun bits rb 0 (res.take L') cc).map w64 ++ res.drop L').length = rs ∧
    (∀ d ∈ (finalTopRun bits rb 0 (res.take L') cc).map w64 ++ res.drop L', |d| ≤ 2 ^ rb - 1) ∧
    ∃ q : Int, valI rb ((finalTopRun bits rb 0 (res.take L') cc).map w64 ++ res.drop L')
      = valI rb res + cc * 2 ^ (rb * (rs - L')) - q * 2 ^ (rb * rs) := by
  have hr := c.headRoomR3
  have hrb1 := c.hrb1
  have htz := take_eq_replicate_zero res L' (by omega) hz
  rw [htz]
  have hzb : ∀ x ∈ List.replicate L' (0 : Int), |x| ≤ H + 3 := by
    intro x hx; rw [(List.mem_replicate.mp hx).2]; have := c.hH0; simp; linarith
  obtain ⟨⟨q, hq⟩, tlen, tbal⟩ := finalTopRun_spec hr (List.replicate L' 0) hzb cc (by linarith)
  rw [valI_replicate_zero, List.length_replicate] at hq
  simp only [List.length_replicate] at tlen
  have hw : (finalTopRun bits rb 0 (List.replicate L' 0) cc).map w64 = finalTopRun bits rb 0 (List.replicate L' 0) cc := by
    have hwd : ∀ d ∈ finalTopRun bits rb 0 (List.replicate L' 0) cc, w64 d = id d := by
      intro d hd
      have := (tbal d hd).abs_le
      have h1 : (2 : Int) ^ (rb - 1) ≤ 2 ^ 61 := two_pow_le (by have := c.hrb; omega)
      have : (2 : Int) ^ 61 < 2 ^ 63 := by norm_num
      exact w64_eq_of_abs_lt (by linarith)
    rw [List.map_congr_left hwd, List.map_id]
  rw [hw]
  have hRb := two_pow_pos rb
  refine ⟨by simp [tlen, hlen]; omega, ?_, q, ?_⟩
  · intro d hd
    rcases List.mem_append.mp hd with h | h
    · have := (tbal d h).abs_le
      have h2 := half_le_full hrb1
      have h3 : (1 : Int) ≤ 2 ^ (rb - 1) := by
        have := two_pow_le (Nat.zero_le (rb - 1)); simpa using this
      linarith
    · exact hlims d (List.mem_of_mem_drop h)
  · have hres : valI rb res = valI rb (res.drop L') := by
      conv_lhs => rw [← List.take_append_drop L' res]
      rw [valI_append, htz, valI_replicate_zero]; ring
    rw [valI_append, hres]
    have hdl : (res.drop L').length = rs - L' := by simp [hlen]
    rw [hdl]
    have e : (2 : Int) ^ (rb * rs) = 2 ^ (rb * L') * 2 ^ (rb * (rs - L')) := by
      rw [← pow_add]; congr 1; rw [← Nat.mul_add]; congr 1; omega
    rw [e]
    simp only [zero_mul, zero_add, pow_zero, mul_one] at hq
    linear_combination (2 ^ (rb * (rs - L'))) * hq

/-- no overlapping limb (`a_start = a_end = 0`): only the (scaled) carry `c0` is propagated -/
theorem crossCore_noloop (c : CrossCtx bits ab rb rs lsh H a) (take pad resStart resEnd : Nat) (c0 : Int)
    (hc0 : |c0| ≤ H + 3) (hre : resEnd ≤ rs) {out : List Int}
    (h : crossCore bits ab rb rs lsh a 0 0 take pad resStart resEnd c0 = some out) :
    out.length = rs ∧ (∀ d ∈ out, |d| ≤ 2 ^ rb - 1) ∧
    ∃ q : Int, valI rb out = c0 * 2 ^ (rb * (rs - resEnd)) - q * 2 ^ (rb * rs) := by
  have hRb := two_pow_pos rb
  have hzl : ∀ d ∈ List.replicate rs (0 : Int), |d| ≤ 2 ^ rb - 1 := by
    intro d hd; rw [(List.mem_replicate.mp hd).2]; simp; linarith
  unfold crossCore at h
  simp only [Nat.sub_self, List.range_zero, List.foldl_nil] at h
  have hs : (crossSt0 rb rs resStart ab c0).stuck = false := rfl
  have hres : (crossSt0 rb rs resStart ab c0).res = List.replicate rs 0 := rfl
  have hac : (crossSt0 rb rs resStart ab c0).aCarry = c0 := rfl
  simp only [hs, hres, hac, Bool.false_eq_true, if_false, if_true] at h
  by_cases hre0 : resEnd = 0
  · subst hre0
    simp only [ne_eq, not_true_eq_false, if_false, Option.some.injEq] at h
    subst h
    exact ⟨by simp, hzl, c0, by rw [valI_replicate_zero, Nat.sub_zero]; ring⟩
  · simp only [ne_eq, hre0, not_false_eq_true, if_true, Option.some.injEq] at h
    subst h
    obtain ⟨h1, h2, q, h3⟩ := cross_top_block c (List.replicate rs 0) resEnd c0 (by simp) hre
      (fun i _ => getD_replicate_zero rs i) hzl (by linarith)
    exact ⟨h1, h2, q, by rw [h3, valI_replicate_zero]; ring⟩

end

end NormL

namespace NormL

section
variable {bits ab rb rs lsh : Nat} {H : Int} {a : List Int}

/-- class (N2) after the clamps: overlap, `a_end = 0`, the top of `a` ends at bit `Rb < rb·rs` of the
result and the pending carry is propagated into the top `res_end` limbs -/
theorem crossCore_N2 (c : CrossCtx bits ab rb rs lsh H a) (Sa Sr take pad resEnd Rb : Nat) (cD : Int)
    (hSa1 : 1 ≤ Sa) (hSa : Sa ≤ a.length) (htake : take < ab) (hpad : pad < rb) (hboth : take = 0 ∨ pad = 0)
    (hSr1 : 1 ≤ Sr) (hSr : Sr ≤ rs) (hcD : |cD| ≤ H + 3)
    (hq : crossQ (rb * (rs - Sr) + pad) ab take Sa = Rb) (hRlt : Rb < rb * rs)
    (hresEnd : resEnd = (rb * rs - Rb) / rb) {out : List Int}
    (h : crossCore bits ab rb rs lsh a Sa 0 take pad Sr resEnd cD = some out) :
    out.length = rs ∧ (∀ d ∈ out, |d| ≤ 2 ^ rb - 1) ∧
    ∃ K ρ q : Int,
      2 ^ take * K = 2 ^ (rb * (rs - Sr) + pad) * (crossTop ab lsh a Sa cD - ρ) ∧
      2 * |ρ| ≤ 2 ^ take ∧ (take = 0 → ρ = 0) ∧ K = valI rb out + q * 2 ^ (rb * rs) := by
  have hrb1 := c.hrb1
  obtain ⟨K, ρ, hK, hρ, hρ0, hfold⟩ := crossOuter_fold c (aStart := Sa) (take := take) (pad := pad)
    (resStart := Sr) (cD := cD) hSa1 hSa htake hpad hboth hSr1 hSr hcD
  have hout := hfold Sa hSa1 (le_refl _)
  unfold crossCore at h
  rw [Nat.sub_zero] at h
  generalize hstf : List.foldl (crossOuterBody bits ab rb lsh a _ _ _) _ (List.range _) = stf at h hout
  rcases hout with ⟨hlt, _⟩ | ⟨k', hk'1, hk'2, hf⟩ | hf
  · omega
  · exfalso
    have hp := hf.posq
    have := crossQ_mono (rb * (rs - Sr) + pad) ab take k' Sa htake hk'1 hk'2
    omega
  · rw [hq] at hf
    have hL := hf.lim
    have hp1 := hf.posq
    have hp2 := hf.posq2
    have hsplit : rb * rs = rb * stf.resLimb + rb * (rs - stf.resLimb) := by
      rw [← Nat.mul_add]; congr 1; omega
    have hre : resEnd = stf.resLimb := by
      rw [hresEnd]
      apply Nat.div_eq_of_lt_le
      · rw [Nat.mul_comm]; omega
      · rw [Nat.add_mul, Nat.mul_comm stf.resLimb rb, Nat.one_mul]; omega
    have hns := hf.ns
    simp only [hns, Bool.false_eq_true, if_false] at h
    have hSa0 : ¬ Sa = 0 := by omega
    simp only [hSa0, if_false] at h
    by_cases hre0 : resEnd = 0
    · simp only [hre0, ne_eq, not_true_eq_false, if_false, Option.some.injEq] at h
      subst h
      refine ⟨hf.len, hf.lims, K, ρ, stf.resCarry, hK, hρ, hρ0, ?_⟩
      have hv := hf.val
      have : stf.resLimb = 0 := by omega
      rw [this, Nat.sub_zero] at hv
      rw [hv]; ring
    · simp only [ne_eq, hre0, not_false_eq_true, if_true, Option.some.injEq] at h
      subst h
      rw [hre]
      obtain ⟨h1, h2, q, h3⟩ := cross_top_block c stf.res stf.resLimb stf.resCarry hf.len (by omega) hf.zer hf.lims hf.rcb
      refine ⟨h1, h2, K, ρ, q, hK, hρ, hρ0, ?_⟩
      rw [h3, hf.val]; ring

/-- arithmetic of the class (N2): produces the relation consumed by `neg_final_arith` -/
theorem neg_rel_arith (V A T K q ρ dD : Int) (ab rb rs lsh Ln Sa d take pinit as_ : Nat)
    (has : as_ = Sa + d) (hLn : Ln * ab ≤ rb * rs)
    (hqq : pinit + Sa * ab + Ln * ab = rb * rs + take)
    (hcase : (take = 0 ∧ d = 0) ∨ pinit = 0)
    (hva : A * 2 ^ lsh = T * 2 ^ (ab * d) + dD) (hd0 : d = 0 → dD = 0)
    (hK : 2 ^ take * K = 2 ^ pinit * (T - ρ)) (hρ0 : take = 0 → ρ = 0)
    (hE : |ρ * 2 ^ (ab * d) + dD| ≤ 2 ^ take * 2 ^ (ab * d))
    (hZ : K = V + q * 2 ^ (rb * rs)) :
    ∃ E : Int, A * 2 ^ lsh * 2 ^ (rb * rs) = (V + q * 2 ^ (rb * rs)) * 2 ^ (ab * as_ + Ln * ab) + E * 2 ^ (rb * rs) ∧
      |E| * 2 ^ (rb * rs) ≤ 2 ^ (ab * as_ + Ln * ab) ∧ (d = 0 → ρ = 0 → E = 0) := by
  subst has
  have hcomm : ab * Sa = Sa * ab := Nat.mul_comm _ _
  rcases hcase with ⟨ht, hd⟩ | hp
  · subst ht; subst hd
    rw [hρ0 rfl] at hK
    rw [hd0 rfl] at hva
    simp only [Nat.mul_zero, pow_zero, mul_one, add_zero, one_mul, sub_zero, Nat.add_zero] at hva hK hqq ⊢
    refine ⟨0, ?_, by simp, fun _ _ => rfl⟩
    have e1 : (2 : Int) ^ (rb * rs) = 2 ^ pinit * 2 ^ (ab * Sa + Ln * ab) := by
      rw [← pow_add]; congr 1; omega
    rw [← hZ, hK, ← hva, zero_mul, add_zero]
    conv_lhs => rw [e1]
    ring
  · subst hp
    simp only [pow_zero, one_mul, Nat.zero_add] at hK hqq
    refine ⟨ρ * 2 ^ (ab * d) + dD, ?_, ?_, ?_⟩
    · have eg : (2 : Int) ^ (ab * (Sa + d) + Ln * ab) = 2 ^ take * 2 ^ (ab * d) * 2 ^ (rb * rs) := by
        rw [← pow_add, ← pow_add]; congr 1
        have : ab * (Sa + d) = Sa * ab + ab * d := by rw [Nat.mul_add, hcomm]
        omega
      have hT : T = 2 ^ take * K + ρ := by linarith
      rw [← hZ, eg, hva, hT]; ring
    · have eg : (2 : Int) ^ (ab * (Sa + d) + Ln * ab) = 2 ^ take * 2 ^ (ab * d) * 2 ^ (rb * rs) := by
        rw [← pow_add, ← pow_add]; congr 1
        have : ab * (Sa + d) = Sa * ab + ab * d := by rw [Nat.mul_add, hcomm]
        omega
      rw [eg]
      exact mul_le_mul_of_nonneg_right hE (le_of_lt (two_pow_pos _))
    · intro hd hr
      subst hd
      rw [hr, hd0 rfl]; ring

end

end NormL
