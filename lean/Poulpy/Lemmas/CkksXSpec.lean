import Poulpy.Lemmas.CkksAut
import Poulpy.Lemmas.CkksProg
import Poulpy.Lemmas.CkksMulComp
/-!
# C16: plaintext-level specification of programs with products, rotations and sums

The tracked state of a slot is a triple: plaintext coefficients `M j t`, error budget `E j`, magnitude bound `B j`
(`|M j t| ≤ B j`: what the error of a product needs).  This file is pure arithmetic (no ciphertext): the computable index map of
`σ_g` (`galIdx`), the magnitude bound of the linear calls (`specB`), and their soundness.
-/

namespace Ckks
open Hal Core AutoMul Ckks.Sem

/-! ### the signed coefficient permutation of `σ_g`, computably -/

/-- the inverse of `g` modulo `2N` (search) -/
def galInv (g : Int) (N : Nat) : Int :=
  Int.ofNat (((List.range (2 * N)).find? (fun (A : Nat) => (g * (A : Int)) % (2 * (N : Int)) == 1)).getD 0)

/-- coefficient `j` of `σ_g(a)` is `(galIdx g N j).2 · a[(galIdx g N j).1]` -/
def galIdx (g : Int) (N j : Nat) : Nat × Int :=
  let v := (((j : Int) * galInv g N) % (2 * (N : Int))).toNat
  if v < N then (v, 1) else (v - N, -1)

theorem galInv_spec {g : Int} {N : Nat} (hN : 0 < N) (hg : GalOk g N) : (g * galInv g N) % (2 * (N : Int)) = 1 := by
  obtain ⟨A0, B0, hAB⟩ := galOk_bezout hN hg
  have h2N : (0 : Int) < 2 * (N : Int) := by omega
  set A1 := (A0 % (2 * (N : Int))).toNat with hA1
  have hA1r : (A1 : Int) = A0 % (2 * (N : Int)) := Int.toNat_of_nonneg (Int.emod_nonneg _ (by omega))
  have hA1lt : A1 < 2 * N := by
    have := Int.emod_lt_of_pos A0 h2N
    omega
  have hprop : (g * (A1 : Int)) % (2 * (N : Int)) = 1 := by
    rw [hA1r, Int.mul_emod, Int.emod_emod_of_dvd _ (dvd_refl _), ← Int.mul_emod]
    have : g * A0 = 1 + 2 * (N : Int) * (-B0) := by linarith
    rw [this, Int.add_mul_emod_self_left]
    exact Int.emod_eq_of_lt (by norm_num) (by omega)
  unfold galInv
  cases hf : (List.range (2 * N)).find? (fun (A : Nat) => (g * (A : Int)) % (2 * (N : Int)) == 1) with
  | none =>
    rw [List.find?_eq_none] at hf
    have := hf A1 (List.mem_range.mpr hA1lt)
    simp [hprop] at this
  | some A =>
    have := List.find?_some hf
    simpa using this

theorem σ_galIdx (g : Int) (N : Nat) (hN : 0 < N) (hg : GalOk g N) (j : Nat) (hj : j < N) :
    (galIdx g N j).1 < N ∧ ((galIdx g N j).2 = 1 ∨ (galIdx g N j).2 = -1) ∧
      ∀ a : Poly, a.length = N → (σ g a).getD j 0 = (galIdx g N j).2 * a.getD (galIdx g N j).1 0 := by
  set A := galInv g N with hA
  have hinv := galInv_spec hN hg
  rw [← hA] at hinv
  have h2N : (0 : Int) < 2 * (N : Int) := by omega
  obtain ⟨B, hAB⟩ : ∃ B : Int, g * A + 2 * (N : Int) * B = 1 := by
    refine ⟨-((g * A) / (2 * (N : Int))), ?_⟩
    have := Int.emod_add_mul_ediv (g * A) (2 * (N : Int))
    rw [hinv] at this
    linarith
  have hs0 : 0 ≤ ((j : Int) * A) % (2 * (N : Int)) := Int.emod_nonneg _ (by omega)
  have hs1 : ((j : Int) * A) % (2 * (N : Int)) < 2 * (N : Int) := Int.emod_lt_of_pos _ (by omega)
  have key : ∀ a : Poly, a.length = N → (σ g a).getD j 0 = coeffZ id a ((j : Int) * A) := by
    intro a ha
    have hl : (σ g a).length = a.length := σ_length g a
    have hj' : j < (σ g a).length := by rw [hl, ha]; exact hj
    have e : (j : Int) = ((j : Int) * A) * g + 2 * (a.length : Int) * ((j : Int) * B) := by
      have : (j : Int) = (j : Int) * (g * A + 2 * (a.length : Int) * B) := by rw [ha, hAB]; ring
      conv_lhs => rw [this]
      ring
    have h1 : (σ g a).getD j 0 = coeffZ id (σ g a) (j : Int) := by
      rw [coeffZ_of_lt id _ j hj']
    have h2 : coeffZ id (σ g a) (j : Int) = coeffZ id (σ g a) (((j : Int) * A) * g) :=
      coeffZ_congr id _ _ _ (by rw [hl]; conv_lhs => rw [e]; rw [Int.add_mul_emod_self_left])
    rw [h1, h2, σ_coeffZ g a (by rw [ha]; exact hN) (by rw [ha]; exact hg)]
  by_cases hlt : (((j : Int) * A) % (2 * (N : Int))).toNat < N
  · have hgi : galIdx g N j = ((((j : Int) * A) % (2 * (N : Int))).toNat, 1) := by
      unfold galIdx; rw [← hA]; simp only [hlt, if_true]
    rw [hgi]
    refine ⟨hlt, Or.inl rfl, fun a ha => ?_⟩
    rw [key a ha]
    unfold coeffZ
    simp only [id, ha]
    rw [if_pos hlt]; ring
  · have hgi : galIdx g N j = ((((j : Int) * A) % (2 * (N : Int))).toNat - N, -1) := by
      unfold galIdx; rw [← hA]; simp only [hlt, if_false]
    rw [hgi]
    refine ⟨by simp only; omega, Or.inr rfl, fun a ha => ?_⟩
    rw [key a ha]
    unfold coeffZ
    simp only [id, ha]
    rw [if_neg hlt]; ring

/-- the Galois image on tracked plaintext coefficients -/
def galApply (g : Int) (N : Nat) (f : Nat → ℚ) (t : Nat) : ℚ := (galIdx g N t).2 * f (galIdx g N t).1

theorem autDecG_galIdx (s : List Poly) {N : Nat} (hN : 0 < N) {p : Int} (hg : GalOk p N) (g : GLWE) (β : Nat) {t : Nat} (ht : t < N) :
    autDecG s N p g β t = galApply p N (fun j => CoreSem.decG s g β j) t := by
  obtain ⟨h1, _, h⟩ := σ_galIdx p N hN hg t ht
  simp only [autDecG, galApply, CoreSem.decG, dec, tor]
  rw [h _ (by simp), C02L.valP_getD _ _ _ _ h1]
  push_cast; ring

/-! ### magnitude bounds -/

/-- `max_t |f t|` over `t < N` -/
def supN (N : Nat) (f : Nat → ℚ) : ℚ := ((List.range N).map (fun t => |f t|)).foldr max 0

theorem le_foldr_max (l : List ℚ) (x : ℚ) (hx : x ∈ l) : x ≤ l.foldr max 0 := by
  induction l with
  | nil => cases hx
  | cons y ys ih =>
    simp only [List.foldr_cons]
    rcases List.mem_cons.mp hx with rfl | h
    · exact le_max_left _ _
    · exact le_trans (ih h) (le_max_right _ _)

theorem foldr_max_nonneg (l : List ℚ) : 0 ≤ l.foldr max 0 := by
  induction l with
  | nil => simp
  | cons y ys ih => simp only [List.foldr_cons]; exact le_trans ih (le_max_right _ _)

theorem le_supN (N : Nat) (f : Nat → ℚ) {t : Nat} (ht : t < N) : |f t| ≤ supN N f :=
  le_foldr_max _ _ (List.mem_map.mpr ⟨t, List.mem_range.mpr ht, rfl⟩)

theorem supN_nonneg (N : Nat) (f : Nat → ℚ) : 0 ≤ supN N f := foldr_max_nonneg _

/-- the polynomial (list of `N` coefficients) of a tracked slot -/
def polyOf (N : Nat) (f : Nat → ℚ) : List ℚ := (List.range N).map f

theorem polyOf_length (N : Nat) (f : Nat → ℚ) : (polyOf N f).length = N := by simp [polyOf]

theorem polyOf_getD (N : Nat) (f : Nat → ℚ) {t : Nat} (ht : t < N) : (polyOf N f).getD t 0 = f t :=
  getD_range_map f N t 0 ht

theorem polyOf_supLe {N : Nat} {f : Nat → ℚ} {B : ℚ} (h : ∀ t, t < N → |f t| ≤ B) : SupLe (polyOf N f) B := by
  intro x hx
  obtain ⟨t, ht, rfl⟩ := List.mem_map.mp hx
  exact h t (List.mem_range.mp ht)

/-- magnitude bound of the linear calls -/
def specB (N : Nat) (B : Nat → ℚ) : LOp → Nat → ℚ
  | .add _ d a b => upd B d (B a + B b)
  | .addAssign _ d a => upd B d (B d + B a)
  | .neg d a => upd B d (B a)
  | .negAssign _ => B
  | .mulPow2 d a bits => upd B d (2 ^ bits * B a)
  | .mulPow2Assign d bits => upd B d (2 ^ bits * B d)
  | .divPow2 d a bits => upd B d ((2 ^ bits)⁻¹ * B a)
  | .divPow2Assign d bits => upd B d ((2 ^ bits)⁻¹ * B d)
  | .rescale d _ a => upd B d (B a)
  | .rescaleAssign _ _ => B
  | .align _ _ => B
  | .addPt _ d a pt pg => upd B d (B a + supN N (fun t => (Core.valCoeff pt.base2k pg t : ℚ) / 2 ^ pt.md.logDelta))
  | .addPtAssign _ d pt pg => upd B d (B d + supN N (fun t => (Core.valCoeff pt.base2k pg t : ℚ) / 2 ^ pt.md.logDelta))

/-- `M` is within `B`, slot by slot -/
def BoundedBy (N : Nat) (M : Nat → Nat → ℚ) (B : Nat → ℚ) : Prop := ∀ j t, t < N → |M j t| ≤ B j

theorem boundedBy_upd {N : Nat} {M : Nat → Nat → ℚ} {B : Nat → ℚ} (h : BoundedBy N M B) (d : Nat) (m : Nat → ℚ) (b : ℚ)
    (hm : ∀ t, t < N → |m t| ≤ b) : BoundedBy N (upd M d m) (upd B d b) := by
  intro j t ht
  unfold upd
  by_cases hj : j = d
  · simp only [hj, if_true]; exact hm t ht
  · simp only [hj, if_false]; exact h j t ht

theorem abs_sg' (sub : Bool) : |sg sub| = 1 := by cases sub <;> simp [sg]

theorem specB_ok {N : Nat} {M : Nat → Nat → ℚ} {B : Nat → ℚ} (h : BoundedBy N M B) (op : LOp) :
    BoundedBy N (specM M op) (specB N B op) := by
  cases op with
  | add sub d a b =>
    refine boundedBy_upd h d _ _ fun t ht => ?_
    calc |1 * M a t + sg sub * M b t| ≤ |1 * M a t| + |sg sub * M b t| := abs_add_le _ _
      _ = |M a t| + |M b t| := by rw [one_mul, abs_mul, abs_sg', one_mul]
      _ ≤ B a + B b := add_le_add (h a t ht) (h b t ht)
  | addAssign sub d a =>
    refine boundedBy_upd h d _ _ fun t ht => ?_
    calc |1 * M d t + sg sub * M a t| ≤ |1 * M d t| + |sg sub * M a t| := abs_add_le _ _
      _ = |M d t| + |M a t| := by rw [one_mul, abs_mul, abs_sg', one_mul]
      _ ≤ B d + B a := add_le_add (h d t ht) (h a t ht)
  | neg d a =>
    refine boundedBy_upd h d _ _ fun t ht => ?_
    rw [show (-1 : ℚ) * M a t = -(M a t) by ring, abs_neg]; exact h a t ht
  | negAssign d =>
    intro j t ht
    simp only [specM, specB, upd]
    by_cases hj : j = d
    · simp only [hj, if_true]
      rw [show (-1 : ℚ) * M d t = -(M d t) by ring, abs_neg]; exact h d t ht
    · simp only [hj, if_false]; exact h j t ht
  | mulPow2 d a bits =>
    refine boundedBy_upd h d _ _ fun t ht => ?_
    rw [abs_mul, abs_of_pos (by positivity : (0 : ℚ) < 2 ^ bits)]
    exact mul_le_mul_of_nonneg_left (h a t ht) (by positivity)
  | mulPow2Assign d bits =>
    refine boundedBy_upd h d _ _ fun t ht => ?_
    rw [abs_mul, abs_of_pos (by positivity : (0 : ℚ) < 2 ^ bits)]
    exact mul_le_mul_of_nonneg_left (h d t ht) (by positivity)
  | divPow2 d a bits =>
    refine boundedBy_upd h d _ _ fun t ht => ?_
    rw [abs_mul, abs_of_pos (by positivity : (0 : ℚ) < (2 ^ bits)⁻¹)]
    exact mul_le_mul_of_nonneg_left (h a t ht) (by positivity)
  | divPow2Assign d bits =>
    refine boundedBy_upd h d _ _ fun t ht => ?_
    rw [abs_mul, abs_of_pos (by positivity : (0 : ℚ) < (2 ^ bits)⁻¹)]
    exact mul_le_mul_of_nonneg_left (h d t ht) (by positivity)
  | rescale d k a =>
    refine boundedBy_upd h d _ _ fun t ht => ?_
    rw [one_mul]; exact h a t ht
  | rescaleAssign d k =>
    intro j t ht
    simp only [specM, specB, upd]
    by_cases hj : j = d
    · simp only [hj, if_true]; rw [one_mul]; exact h d t ht
    · simp only [hj, if_false]; exact h j t ht
  | align a b => exact h
  | addPt sub d a pt pg =>
    refine boundedBy_upd h d _ _ fun t ht => ?_
    calc |1 * M a t + sg sub * ((Core.valCoeff pt.base2k pg t : ℚ) / 2 ^ pt.md.logDelta)|
          ≤ |1 * M a t| + |sg sub * ((Core.valCoeff pt.base2k pg t : ℚ) / 2 ^ pt.md.logDelta)| := abs_add_le _ _
      _ = |M a t| + |(Core.valCoeff pt.base2k pg t : ℚ) / 2 ^ pt.md.logDelta| := by rw [one_mul, abs_mul, abs_sg', one_mul]
      _ ≤ _ := add_le_add (h a t ht) (le_supN N (fun t => (Core.valCoeff pt.base2k pg t : ℚ) / 2 ^ pt.md.logDelta) ht)
  | addPtAssign sub d pt pg =>
    refine boundedBy_upd h d _ _ fun t ht => ?_
    calc |1 * M d t + sg sub * ((Core.valCoeff pt.base2k pg t : ℚ) / 2 ^ pt.md.logDelta)|
          ≤ |1 * M d t| + |sg sub * ((Core.valCoeff pt.base2k pg t : ℚ) / 2 ^ pt.md.logDelta)| := abs_add_le _ _
      _ = |M d t| + |(Core.valCoeff pt.base2k pg t : ℚ) / 2 ^ pt.md.logDelta| := by rw [one_mul, abs_mul, abs_sg', one_mul]
      _ ≤ _ := add_le_add (h d t ht) (le_supN N (fun t => (Core.valCoeff pt.base2k pg t : ℚ) / 2 ^ pt.md.logDelta) ht)

theorem nonneg_upd {E : Nat → ℚ} (h : ∀ j, 0 ≤ E j) (d : Nat) {e : ℚ} (he : 0 ≤ e) : ∀ j, 0 ≤ upd E d e j := by
  intro j; unfold upd; split
  · exact he
  · exact h j

theorem specE_nonneg {σ u : ℚ} (hσ : 0 ≤ σ) (hu : 0 ≤ u) {E : Nat → ℚ} (h : ∀ j, 0 ≤ E j) (op : LOp) : ∀ j, 0 ≤ specE σ u E op j := by
  have hsu : 0 ≤ σ * u := mul_nonneg hσ hu
  cases op with
  | add sub d a b => exact nonneg_upd h d (by nlinarith [h a, h b])
  | addAssign sub d a => exact nonneg_upd h d (by nlinarith [h a, h d])
  | neg d a => exact nonneg_upd h d (by nlinarith [h a])
  | negAssign d => exact nonneg_upd h d (by nlinarith [h d])
  | mulPow2 d a bits =>
    exact nonneg_upd h d (by have : (0 : ℚ) ≤ 2 ^ bits * E a := mul_nonneg (by positivity) (h a); linarith)
  | mulPow2Assign d bits =>
    exact nonneg_upd h d (by have : (0 : ℚ) ≤ 2 ^ bits * E d := mul_nonneg (by positivity) (h d); linarith)
  | divPow2 d a bits =>
    exact nonneg_upd h d (by have : (0 : ℚ) ≤ (2 ^ bits)⁻¹ * E a := mul_nonneg (by positivity) (h a); linarith)
  | divPow2Assign d bits =>
    exact nonneg_upd h d (by have : (0 : ℚ) ≤ (2 ^ bits)⁻¹ * E d := mul_nonneg (by positivity) (h d); linarith)
  | rescale d k a => exact nonneg_upd h d (by nlinarith [h a])
  | rescaleAssign d k => exact nonneg_upd h d (by nlinarith [h d])
  | align a b => exact h
  | addPt sub d a pt pg => exact nonneg_upd h d (by nlinarith [h a])
  | addPtAssign sub d pt pg => exact nonneg_upd h d (by nlinarith [h d])

theorem specB_nonneg {N : Nat} {B : Nat → ℚ} (h : ∀ j, 0 ≤ B j) (op : LOp) : ∀ j, 0 ≤ specB N B op j := by
  cases op with
  | add sub d a b => exact nonneg_upd h d (add_nonneg (h a) (h b))
  | addAssign sub d a => exact nonneg_upd h d (add_nonneg (h d) (h a))
  | neg d a => exact nonneg_upd h d (h a)
  | negAssign d => exact h
  | mulPow2 d a bits => exact nonneg_upd h d (mul_nonneg (by positivity) (h a))
  | mulPow2Assign d bits => exact nonneg_upd h d (mul_nonneg (by positivity) (h d))
  | divPow2 d a bits => exact nonneg_upd h d (mul_nonneg (by positivity) (h a))
  | divPow2Assign d bits => exact nonneg_upd h d (mul_nonneg (by positivity) (h d))
  | rescale d k a => exact nonneg_upd h d (h a)
  | rescaleAssign d k => exact h
  | align a b => exact h
  | addPt sub d a pt pg => exact nonneg_upd h d (add_nonneg (h a) (supN_nonneg _ _))
  | addPtAssign sub d pt pg => exact nonneg_upd h d (add_nonneg (h d) (supN_nonneg _ _))

end Ckks
