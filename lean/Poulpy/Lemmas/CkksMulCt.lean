import Poulpy.Lemmas.CkksTensorPhase
import Poulpy.Lemmas.CkksXStep
/-!
# C16, piece 5: `ckks_mul_into` (rank 1) from the relinearisation contract

The ct × ct product contract `MulAdm` is reduced to a statement about `glwe_tensor_relinearize` alone (`RelinContract`: the
relinearised tensor decrypts to the tensor's phase under `(1, s₁, s₁²)` within `Ur` units of its last limb — the key-switch
theorem of C03/C05 for the `s₁²` column).  Everything else is proved: masking, the three tensor columns (truncated accumulators,
Karatsuba column), tensor phase = product of the phases (`tensor_phase_rel`), scale bookkeeping.
-/

namespace Ckks
open Hal Core Core.Ops C02L Ckks.Sem Ckks.CoreSem KsDec Ckks.Tensor

/-- **what `glwe_tensor_relinearize` has to provide on one rank-1 tensor** `[T0, T1, T2]` of `ts` limbs: it returns two columns of `rs`
balanced limbs whose phase under `s` is the tensor phase under `(1, s₁, s₁²)`, modulo 1, within `Ur` units of the tensor's last limb -/
def RelinContractAt (N b ts rs : Nat) (mk : MulKey) (s : List Poly) (Ur : Int) (T0 T1 T2 : Col) : Prop :=
  ∃ res, relinData mk N b rs [T0, T1, T2] = some res ∧ res.length = 2 ∧ (∀ c ∈ res, ColWF N rs c) ∧
    (∀ c ∈ res, ∀ l ∈ c, ∀ v ∈ l, |v| ≤ 2 ^ (b - 1)) ∧
    ∀ t, t < N → ∃ q e : Int,
      2 ^ (b * ts) * valCoeff b (phase s (Ks.mkCt b N res)) t
        = 2 ^ (b * rs) * (tensorPhase (s.getD 0 []) (valP b N T0) (valP b N T1) (valP b N T2)).getD t 0 + e + q * 2 ^ (b * rs + b * ts) ∧
      |e| ≤ Ur * 2 ^ (b * ts)

/-- … on every admissible tensor (columns of `ts` limbs, digits within `2^(b−1)`, `3·2^(b−1)`, `2^(b−1)`) -/
def RelinContract (N b ts rs : Nat) (mk : MulKey) (s : List Poly) (Ur : Int) : Prop :=
  ∀ T0 T1 T2 : Col, ColWF N ts T0 → ColWF N ts T1 → ColWF N ts T2 →
    (∀ l ∈ T0, ∀ v ∈ l, |v| ≤ 2 ^ (b - 1)) → (∀ l ∈ T1, ∀ v ∈ l, |v| ≤ 3 * 2 ^ (b - 1)) → (∀ l ∈ T2, ∀ v ∈ l, |v| ≤ 2 ^ (b - 1)) →
    RelinContractAt N b ts rs mk s Ur T0 T1 T2

/-- the phase polynomial of a rank-1 ciphertext -/
theorem valP_phase2 {N L : Nat} (b : Nat) (s : List Poly) (hs : s ≠ []) (c0 c1 : Col) (h0 : ColWF N L c0) (h1 : ColWF N L c1) :
    valP b N (phase s (Ks.mkCt b N [c0, c1])) = polyAdd (valP b N c0) (Hal.negMul (s.getD 0 []) (valP b N c1)) := by
  have hrank : (Ks.mkCt b N [c0, c1]).rank = 1 := by simp [GLWE.rank, Ks.mkCt]
  have hmin : min 1 s.length = 1 := by
    have : 0 < s.length := List.length_pos_of_ne_nil hs
    omega
  rw [phase_eq_linTo, hrank, hmin, valP_linTo (N := N) (rs := L) b 1 s _ (fun i hi => by
    have : i = 0 ∨ i = 1 := by omega
    rcases this with rfl | rfl
    · exact h0
    · exact h1)]
  rw [errTo_succ]
  rfl

/-- the prepared columns of an admissible operand: `L` limbs of `N` coefficients, digits within `2^b` -/
theorem prep_facts {N b r K : Nat} {g : GLWE} (hadm : Mask.MaskAdm N b r K g) (c : Col) (hc : c ∈ g.cols) :
    (c.take (divCeil K b)).length = divCeil K b ∧
    ColWF N (divCeil K b) (Hal.cnvPrepareCol N (c.take (divCeil K b)).length (msbMaskBottomLimb b K) (c.take (divCeil K b))) ∧
    (∀ l ∈ Hal.cnvPrepareCol N (c.take (divCeil K b)).length (msbMaskBottomLimb b K) (c.take (divCeil K b)), ∀ v ∈ l, |v| ≤ 2 ^ b) := by
  have hb1 := hadm.hb1
  have hwfc := hadm.gb.wf.2.2 c hc
  have hlen : (c.take (divCeil K b)).length = divCeil K b := by
    rw [List.length_take, hwfc.1]; exact Nat.min_eq_left hadm.hL
  have hlim : ∀ l ∈ c.take (divCeil K b), l.length = N := fun l hl => hwfc.2 l (List.mem_of_mem_take hl)
  have hL1 : 1 ≤ divCeil K b := Ckks.divCeil_pos K b hb1 hadm.hK
  have hK2 : K ≤ b * divCeil K b := by rw [Nat.mul_comm]; exact Ckks.le_divCeil_mul K b hb1
  have hK1 : b * (divCeil K b - 1) < K := by
    have := Ckks.divCeil_mul_lt K b hb1
    have e : divCeil K b * b = b * (divCeil K b - 1) + b := by
      have : divCeil K b = (divCeil K b - 1) + 1 := by omega
      conv_lhs => rw [this, Nat.add_mul, Nat.one_mul, Nat.mul_comm]
    omega
  refine ⟨hlen, ⟨by rw [Hal.cnvPrepareCol_length, hlen], cnvPrepareCol_limbs N _ _ _ hlim⟩, ?_⟩
  rw [hlen]
  exact Mask.prep_digits N (divCeil K b) b K hadm.hb _ hlen hL1 hlim hK1 hK2 (fun l hl v hv => by
    have := hadm.gb.nb c hc l (List.mem_of_mem_take hl) v hv
    linarith)

/-- `glwe_tensor_apply` on two columns per operand, unfolded to its loops on the prepared columns -/
theorem tensorApply_rank1 (big : Bool) (N rb rs cnv b : Nat) (A0 A1 B0 B1 : Col) (aK bK : Nat) (res0 : List Col) :
    Core.tensorApply false big N rb rs cnv b [A0, A1] aK [B0, B1] bK res0
      = tensorApplyCore false N 2 rs
        (fun i => cnvNorm big N rb rs b (limbBoundWithOffset (A0.length + B0.length - (cnvOffsetSplit b cnv).1) rs rb b (cnvOffsetSplit b cnv).2)
          (cnvOffsetSplit b cnv).1 (cnvOffsetSplit b cnv).2
          ([Hal.cnvPrepareCol N A0.length (msbMaskBottomLimb b aK) A0, Hal.cnvPrepareCol N A1.length (msbMaskBottomLimb b aK) A1].getD i [])
          ([Hal.cnvPrepareCol N B0.length (msbMaskBottomLimb b bK) B0, Hal.cnvPrepareCol N B1.length (msbMaskBottomLimb b bK) B1].getD i []))
        (fun i j => cnvNorm big N rb rs b (limbBoundWithOffset (A0.length + B0.length - (cnvOffsetSplit b cnv).1) rs rb b (cnvOffsetSplit b cnv).2)
          (cnvOffsetSplit b cnv).1 (cnvOffsetSplit b cnv).2
          (Hal.colAdd N ([Hal.cnvPrepareCol N A0.length (msbMaskBottomLimb b aK) A0, Hal.cnvPrepareCol N A1.length (msbMaskBottomLimb b aK) A1].getD i [])
            ([Hal.cnvPrepareCol N A0.length (msbMaskBottomLimb b aK) A0, Hal.cnvPrepareCol N A1.length (msbMaskBottomLimb b aK) A1].getD j []))
          (Hal.colAdd N ([Hal.cnvPrepareCol N B0.length (msbMaskBottomLimb b bK) B0, Hal.cnvPrepareCol N B1.length (msbMaskBottomLimb b bK) B1].getD i [])
            ([Hal.cnvPrepareCol N B0.length (msbMaskBottomLimb b bK) B0, Hal.cnvPrepareCol N B1.length (msbMaskBottomLimb b bK) B1].getD j []))) res0 := rfl

/-- scale bookkeeping of "tensor, then relinearisation" on one coefficient -/
theorem compose_rel (bts brs E cz j : Nat) (hj : brs ≤ bts + j) (X' TP Z eT qT eR qR UT Ur : Int) (hUT : 0 ≤ UT)
    (hT1 : 2 ^ E * TP = 2 ^ cz * 2 ^ bts * Z + eT + qT * 2 ^ (bts + E)) (hT2 : |eT| ≤ UT * 2 ^ E)
    (hR1 : 2 ^ bts * X' = 2 ^ brs * TP + eR + qR * 2 ^ (brs + bts)) (hR2 : |eR| ≤ Ur * 2 ^ bts) :
    ∃ q e : Int, 2 ^ E * X' = 2 ^ cz * 2 ^ brs * Z + e + q * 2 ^ (brs + E) ∧ |e| ≤ (UT * 2 ^ j + Ur) * 2 ^ E := by
  set e := 2 ^ E * X' - 2 ^ cz * 2 ^ brs * Z - (qT + qR) * 2 ^ (brs + E) with he
  have hkey : 2 ^ bts * e = 2 ^ brs * eT + 2 ^ E * eR := by
    have e1 : (2 : Int) ^ (bts + E) = 2 ^ bts * 2 ^ E := pow_add _ _ _
    have e2 : (2 : Int) ^ (brs + bts) = 2 ^ brs * 2 ^ bts := pow_add _ _ _
    have e3 : (2 : Int) ^ (brs + E) = 2 ^ brs * 2 ^ E := pow_add _ _ _
    rw [e1] at hT1
    rw [e2] at hR1
    rw [he, e3]
    linear_combination (2 ^ E) * hR1 + (2 ^ brs) * hT1
  refine ⟨qT + qR, e, by rw [he]; ring, ?_⟩
  have hpow : (2 : Int) ^ brs ≤ 2 ^ bts * 2 ^ j := by
    rw [← pow_add]; exact pow_le_pow_right₀ (by norm_num) hj
  have hpt : (0 : Int) < 2 ^ bts := by positivity
  have habs : |e| * 2 ^ bts ≤ ((UT * 2 ^ j + Ur) * 2 ^ E) * 2 ^ bts := by
    have h1 : |2 ^ bts * e| = |e| * 2 ^ bts := by rw [abs_mul, abs_of_pos hpt]; ring
    rw [← h1, hkey]
    have h2 : |2 ^ brs * eT| ≤ 2 ^ brs * (UT * 2 ^ E) := by
      rw [abs_mul, abs_of_pos (by positivity : (0 : Int) < 2 ^ brs)]
      exact mul_le_mul_of_nonneg_left hT2 (by positivity)
    have h3 : |2 ^ E * eR| ≤ 2 ^ E * (Ur * 2 ^ bts) := by
      rw [abs_mul, abs_of_pos (by positivity : (0 : Int) < 2 ^ E)]
      exact mul_le_mul_of_nonneg_left hR2 (by positivity)
    have h4 : (2 : Int) ^ brs * (UT * 2 ^ E) ≤ (2 ^ bts * 2 ^ j) * (UT * 2 ^ E) :=
      mul_le_mul_of_nonneg_right hpow (by positivity)
    calc |2 ^ brs * eT + 2 ^ E * eR| ≤ |2 ^ brs * eT| + |2 ^ E * eR| := abs_add_le _ _
      _ ≤ (2 ^ bts * 2 ^ j) * (UT * 2 ^ E) + 2 ^ E * (Ur * 2 ^ bts) := by linarith
      _ = _ := by ring
  exact le_of_mul_le_mul_right habs hpt

/-- the error constant of the tensor stage -/
def tensorU (N b Lb : Nat) (s1 : Poly) : Int :=
  (1 + 2 * (4 * (Lb : Int) * N * 2 ^ b)) + Hal.norm1 s1 * (3 * (1 + 2 * (4 * (Lb : Int) * N * 2 ^ b)))
    + Hal.norm1 s1 * (Hal.norm1 s1 * (1 + 2 * (4 * (Lb : Int) * N * 2 ^ b)))

theorem tensorU_nonneg (N b Lb : Nat) (s1 : Poly) : 0 ≤ tensorU N b Lb s1 := by
  have := Hal.norm1_nonneg s1
  unfold tensorU
  positivity

theorem cols2 {N b : Nat} {H : Int} {g : GLWE} (h : GB N b 1 H g) : ∃ c0 c1, g.cols = [c0, c1] := by
  have := h.wf.len; rw [h.rk] at this
  match hc : g.cols, this with
  | [x, y], _ => exact ⟨x, y, rfl⟩

theorem masked_cols2 {N b K : Nat} {g : GLWE} {c0 c1 : Col} (h : g.cols = [c0, c1]) :
    Mask.masked N b K g = Ks.mkCt b N [Hal.cnvPrepareCol N (c0.take (divCeil K b)).length (msbMaskBottomLimb b K) (c0.take (divCeil K b)),
      Hal.cnvPrepareCol N (c1.take (divCeil K b)).length (msbMaskBottomLimb b K) (c1.take (divCeil K b))] := by
  unfold Mask.masked; simp [prepAll, effCols, h]

/-- **the tensor of a rank-1 product**: `glwe_tensor_apply` on the CKKS operands returns three well-formed columns whose phase under
`(1, s₁, s₁²)` is the scaled product of the phases of the masked operands -/
theorem tensor_of_dok {N b : Nat} (hN : 0 < N) (big : Bool) (hb61 : b ≤ 61) {a bo : DCt}
    (hma : Mask.MaskAdm N b 1 a.md.effK a.g) (hmb : Mask.MaskAdm N b 1 bo.md.effK bo.g) (ts cnv : Nat) (hts : 1 ≤ ts)
    (hhi : (cnvOffsetSplit b cnv).1 ≤ divCeil a.md.effK b + divCeil bo.md.effK b - 1)
    (hroom : 2 ^ b * (4 * (divCeil bo.md.effK b : Int) * N * 2 ^ b) + 8 ≤ 2 ^ (bitsOf big - 2))
    (s : List Poly) (hs : s ≠ []) :
    ∃ T0 T1 T2, Core.tensorApply false big N b ts cnv b (effCols b a.md.effK a.g) a.md.effK (effCols b bo.md.effK bo.g) bo.md.effK
        (zeroC N (tensorCols a.g) ts) = some [T0, T1, T2] ∧
      ColWF N ts T0 ∧ ColWF N ts T1 ∧ ColWF N ts T2 ∧
      (∀ l ∈ T0, ∀ v ∈ l, |v| ≤ 2 ^ (b - 1)) ∧ (∀ l ∈ T1, ∀ v ∈ l, |v| ≤ 3 * 2 ^ (b - 1)) ∧ (∀ l ∈ T2, ∀ v ∈ l, |v| ≤ 2 ^ (b - 1)) ∧
      ∀ t, t < N → ∃ q e : Int,
        2 ^ (b * (divCeil a.md.effK b + divCeil bo.md.effK b) + (-(cnvOffsetSplit b cnv).2).toNat) *
            (tensorPhase (s.getD 0 []) (valP b N T0) (valP b N T1) (valP b N T2)).getD t 0
          = 2 ^ (cnv + (-(cnvOffsetSplit b cnv).2).toNat) * 2 ^ (b * ts) *
              (Hal.negMul (phaseP s N (Mask.masked N b a.md.effK a.g)) (phaseP s N (Mask.masked N b bo.md.effK bo.g))).getD t 0
            + e + q * 2 ^ (b * ts + (b * (divCeil a.md.effK b + divCeil bo.md.effK b) + (-(cnvOffsetSplit b cnv).2).toNat)) ∧
        |e| ≤ tensorU N b (divCeil bo.md.effK b) (s.getD 0 []) *
          2 ^ (b * (divCeil a.md.effK b + divCeil bo.md.effK b) + (-(cnvOffsetSplit b cnv).2).toNat) := by
  have hb1 := hma.hb1
  obtain ⟨a0, a1, hacols⟩ := cols2 hma.gb
  obtain ⟨b0, b1c, hbcols⟩ := cols2 hmb.gb
  obtain ⟨la0, wp0, dp0⟩ := prep_facts hma a0 (by rw [hacols]; simp)
  obtain ⟨la1, wp1, dp1⟩ := prep_facts hma a1 (by rw [hacols]; simp)
  obtain ⟨lb0, wr0, dr0⟩ := prep_facts hmb b0 (by rw [hbcols]; simp)
  obtain ⟨lb1, wr1, dr1⟩ := prep_facts hmb b1c (by rw [hbcols]; simp)
  rw [la0] at wp0 dp0
  rw [la1] at wp1 dp1
  rw [lb0] at wr0 dr0
  rw [lb1] at wr1 dr1
  have hLa1 : 1 ≤ divCeil a.md.effK b := Ckks.divCeil_pos _ _ hb1 hma.hK
  have hLb1 : 1 ≤ divCeil bo.md.effK b := Ckks.divCeil_pos _ _ hb1 hmb.hK
  obtain ⟨T0, T1, T2, hT, wT0, wT1, wT2, dT0, dT1, dT2, hcol⟩ := tensor2_value N hN big b ts cnv hb1 hb61 hts _ _ _ _
    (divCeil a.md.effK b) (divCeil bo.md.effK b) wp0 wp1 wr0 wr1 hLa1 hLb1 dp0 dp1 dr0 dr1 hhi hroom
    (List.replicate ts (List.replicate N 0)) (List.replicate ts (List.replicate N 0)) (List.replicate ts (List.replicate N 0))
  refine ⟨T0, T1, T2, ?_, wT0, wT1, wT2, dT0, dT1, dT2, fun t ht => ?_⟩
  · have hzc : zeroC N (tensorCols a.g) ts = [List.replicate ts (List.replicate N 0), List.replicate ts (List.replicate N 0),
        List.replicate ts (List.replicate N 0)] := by
      simp [zeroC, tensorCols, hacols]
    have hea : effCols b a.md.effK a.g = [a0.take (divCeil a.md.effK b), a1.take (divCeil a.md.effK b)] := by simp [effCols, hacols]
    have heb : effCols b bo.md.effK bo.g = [b0.take (divCeil bo.md.effK b), b1c.take (divCeil bo.md.effK b)] := by simp [effCols, hbcols]
    rw [hzc, hea, heb, tensorApply_rank1]
    simp only [la0, la1, lb0, lb1]
    exact hT
  · obtain ⟨_, _, _, hmabk⟩ := Mask.masked_wf hma
    obtain ⟨_, _, _, hmbbk⟩ := Mask.masked_wf hmb
    have hPA : phaseP s N (Mask.masked N b a.md.effK a.g)
        = polyAdd (valP b N (Hal.cnvPrepareCol N (divCeil a.md.effK b) (msbMaskBottomLimb b a.md.effK) (a0.take (divCeil a.md.effK b))))
            (Hal.negMul (s.getD 0 []) (valP b N (Hal.cnvPrepareCol N (divCeil a.md.effK b) (msbMaskBottomLimb b a.md.effK) (a1.take (divCeil a.md.effK b))))) := by
      unfold phaseP
      rw [hmabk, masked_cols2 hacols, la0, la1]
      exact valP_phase2 b s hs _ _ wp0 wp1
    have hPB : phaseP s N (Mask.masked N b bo.md.effK bo.g)
        = polyAdd (valP b N (Hal.cnvPrepareCol N (divCeil bo.md.effK b) (msbMaskBottomLimb b bo.md.effK) (b0.take (divCeil bo.md.effK b))))
            (Hal.negMul (s.getD 0 []) (valP b N (Hal.cnvPrepareCol N (divCeil bo.md.effK b) (msbMaskBottomLimb b bo.md.effK) (b1c.take (divCeil bo.md.effK b))))) := by
      unfold phaseP
      rw [hmbbk, masked_cols2 hbcols, lb0, lb1]
      exact valP_phase2 b s hs _ _ wr0 wr1
    rw [hPA, hPB]
    exact tensor_phase_rel N hN b ts cnv _ (s.getD 0 []) T0 T1 T2 _ _ _ _ (by simp) (by simp) (by simp) (by simp) _ _ _ hcol t ht

/-- the error constant of the discharged ct × ct product, in units of the result's last limb: the tensor stage (`tensorU`: `1 + 2·H₁`
per column, `H₁ = 4·L_b·N·2^b` the truncation of the accumulators, weighted by `1 + 3‖s₁‖₁ + ‖s₁‖₁²`), rescaled when the destination
has more limbs than the tensor, plus the relinearisation -/
def mulCtU (N b Lb ts rs : Nat) (s1 : Poly) (Ur : Int) : Int := tensorU N b Lb s1 * 2 ^ (b * (rs - ts)) + Ur

/-- **`ckks_mul_into` (rank 1) satisfies the product contract, given the relinearisation contract on the tensor it executes.** -/
theorem mulAdm_of_relin {env : Env} (he : EnvOK env) {N : Nat} (hN : 0 < N) {mk : MulKey} {dst a b : DCt} {Hd : Int}
    (hd : GB N env.base2k 1 Hd dst.g) (ha : DOK env N 1 a) (hb : DOK env N 1 b) {m : Ct}
    (hm : mulInto env dst.ct a.ct b.ct = .ok m) {q : MulP} (hq : mulCtParams env dst.ct a.ct b.ct = .ok q)
    (hhi : (cnvOffsetSplit env.base2k q.cnv).1 ≤ divCeil a.md.effK env.base2k + divCeil b.md.effK env.base2k - 1)
    (hroom : 2 ^ env.base2k * (4 * (divCeil b.md.effK env.base2k : Int) * N * 2 ^ env.base2k) + 8 ≤ 2 ^ (bitsOf mk.big - 2))
    {s : List Poly} (hs : s ≠ []) {Ur : Int}
    (hrel : ∀ T0 T1 T2, Core.tensorApply false mk.big N env.base2k (max a.g.size b.g.size) q.cnv env.base2k
        (effCols env.base2k a.md.effK a.g) a.md.effK (effCols env.base2k b.md.effK b.g) b.md.effK
        (zeroC N (tensorCols a.g) (max a.g.size b.g.size)) = some [T0, T1, T2] →
      ColWF N (max a.g.size b.g.size) T0 → ColWF N (max a.g.size b.g.size) T1 → ColWF N (max a.g.size b.g.size) T2 →
      (∀ l ∈ T0, ∀ v ∈ l, |v| ≤ 2 ^ (env.base2k - 1)) → (∀ l ∈ T1, ∀ v ∈ l, |v| ≤ 3 * 2 ^ (env.base2k - 1)) →
      (∀ l ∈ T2, ∀ v ∈ l, |v| ≤ 2 ^ (env.base2k - 1)) →
      RelinContractAt N env.base2k (max a.g.size b.g.size) dst.g.size mk s Ur T0 T1 T2) :
    MulAdm env N 1 s (mulCtU N env.base2k (divCeil b.md.effK env.base2k) (max a.g.size b.g.size) dst.g.size (s.getD 0 []) Ur : Int)
      dst a b (dMulInto env N mk dst a b) q := by
  have hm' := hm
  simp only [mulInto, hq] at hm'
  obtain ⟨hchk, hmq⟩ := finishMul_ok' hm'
  obtain ⟨⟨ha1, ha2⟩, ⟨hb1', hb2⟩⟩ := tensorCheck_none hchk
  have hma := maskAdm_of_dok he ha ha1 ha2
  have hmb := maskAdm_of_dok he hb hb1' hb2
  have hts1 : 1 ≤ max a.g.size b.g.size := by
    have h1 : divCeil a.md.effK env.base2k ≤ a.g.size := hma.hL
    have h2 := Ckks.divCeil_pos a.md.effK env.base2k he.lo hma.hK
    have h3 : a.g.size ≤ max a.g.size b.g.size := le_max_left _ _
    omega
  obtain ⟨T0, T1, T2, htens, wT0, wT1, wT2, dT0, dT1, dT2, hTv⟩ := tensor_of_dok hN mk.big he.hi hma hmb (max a.g.size b.g.size) q.cnv hts1
    hhi hroom s hs
  obtain ⟨res, hrl, hrlen, hrwf, hrd, hrv⟩ := hrel T0 T1 T2 htens wT0 wT1 wT2 dT0 dT1 dT2
  have hne : res ≠ [] := by intro e; rw [e] at hrlen; simp at hrlen
  have hsz' : ({ dst.g with cols := res } : GLWE).size = dst.g.size := by
    show (res.getD 0 []).length = dst.g.size
    cases hres : res with
    | nil => exact absurd hres hne
    | cons c0 rr => simpa using (hrwf c0 (by rw [hres]; simp)).1
  refine ⟨⟨{ dst.g with cols := res }, m.md⟩, ?_, by rw [hmq], hsz', ?_, (-(cnvOffsetSplit env.base2k q.cnv).2).toNat, ⟨fun t ht => ?_⟩⟩
  · simp only [dMulInto, withMeta_ok _ _ _ hm, hq, mulCols]
    rw [htens]
    simp only [Option.bind_some, hrl, ofOpt]
  · refine ⟨⟨hd.wf.1, hne, fun c hc => by rw [hsz']; exact hrwf c hc⟩, hd.bk, ?_, hrd⟩
    show res.length - 1 = 1
    rw [hrlen]
  · obtain ⟨_, hmasz, _, hmabk⟩ := Mask.masked_wf hma
    obtain ⟨qT, eT, hT1, hT2⟩ := hTv t ht
    obtain ⟨qR, eR, hR1, hR2⟩ := hrv t ht
    have hph : phase s ({ dst.g with cols := res } : GLWE) = phase s (Ks.mkCt env.base2k N res) := phase_cols_eq s rfl
    obtain ⟨q', e, h1, h2⟩ := compose_rel (env.base2k * max a.g.size b.g.size) (env.base2k * dst.g.size)
      (env.base2k * (divCeil a.md.effK env.base2k + divCeil b.md.effK env.base2k) + (-(cnvOffsetSplit env.base2k q.cnv).2).toNat)
      (q.cnv + (-(cnvOffsetSplit env.base2k q.cnv).2).toNat) (env.base2k * (dst.g.size - max a.g.size b.g.size))
      (by rw [← Nat.mul_add]; exact Nat.mul_le_mul_left _ (by omega)) _ _ _ eT qT eR qR _ Ur (tensorU_nonneg _ _ _ _) hT1 hT2 hR1 hR2
    refine ⟨q', e, ?_, ?_⟩
    · rw [hmabk, hmasz, hph]
      show 2 ^ (env.base2k * divCeil a.md.effK env.base2k + env.base2k * divCeil b.md.effK env.base2k + _) * valCoeff dst.g.base2k _ t
        = 2 ^ (q.cnv + _) * 2 ^ (dst.g.base2k * ({ dst.g with cols := res } : GLWE).size) * _ + e
          + q' * 2 ^ (dst.g.base2k * ({ dst.g with cols := res } : GLWE).size + (env.base2k * divCeil a.md.effK env.base2k + env.base2k * divCeil b.md.effK env.base2k + _))
      rw [hd.bk, hsz', ← Nat.mul_add]
      exact h1
    · rw [hmabk, hmasz, ← Nat.mul_add]
      unfold mulCtU
      exact_mod_cast cast_abs_le h2

end Ckks
