import Poulpy.Props.C03
import Poulpy.Lemmas.RingSize

/-!
Scratch determinacy of the key-switching internals: `glwe_keyswitch_internal` and the fused
automorphisms (`res = σ(KS(a)) ± a`), which do **not** zero the `res_dft` buffer they take from scratch.
-/

namespace C11Core
open Hal Ks

theorem setAct_meta (b : Buf) (c : Nat) (x : Col) :
    (b.setAct c x).n = b.n ∧ (b.setAct c x).size = b.size ∧ (b.setAct c x).cols = b.cols ∧ (b.setAct c x).maxSize = b.maxSize :=
  ⟨rfl, rfl, rfl, rfl⟩

theorem foldl_setAct_meta {α : Type} (F : Buf → α → Nat) (G : Buf → α → Col) (L : List α) (b : Buf) :
    (L.foldl (fun acc x => acc.setAct (F acc x) (G acc x)) b).n = b.n ∧
    (L.foldl (fun acc x => acc.setAct (F acc x) (G acc x)) b).size = b.size := by
  induction L generalizing b with
  | nil => exact ⟨rfl, rfl⟩
  | cons x t ih =>
    simp only [List.foldl_cons]
    obtain ⟨h1, h2⟩ := ih (b.setAct (F b x) (G b x))
    exact ⟨h1, h2⟩

theorem setFlat_meta (b : Buf) (fl : List Poly) : (b.setFlat fl).n = b.n ∧ (b.setFlat fl).size = b.size := by
  unfold Buf.setFlat
  exact foldl_setAct_meta (fun _ c => c) (fun _ c => (List.range b.size).map (fun j => fl.getD (j * b.cols + c) (zeroP b.n))) _ b

/-- size and degree of the product, both digit-size branches -/
theorem product_meta (res a : Buf) (key : Key) (hres : res.WF) (hs : res.size = key.mat.size)
    (hmax : res.maxSize = key.mat.size) (hcols : res.cols = key.mat.colsOut) (hn : res.n = a.n) :
    (gglweProductDft res a key).size = key.mat.size ∧ (gglweProductDft res a key).n = res.n := by
  unfold gglweProductDft
  by_cases h1 : key.dsize = 1
  · simp only [if_pos h1]
    unfold opVmp
    obtain ⟨e1, e2⟩ := setFlat_meta res (vmpFlat res.n a.flat key.mat 0 (res.size * res.cols))
    exact ⟨e2.trans hs, e1⟩
  · simp only [if_neg h1]
    obtain ⟨sh, _⟩ := product_loop res a key _ hcols (initial_shapes res a key hres hmax hn) key.dsize (Nat.le_refl _)
    exact ⟨sh.rmax, sh.rn⟩

/-- active column 0 after `setAct 0 x` when `x` has as many limbs as the active part of the old column -/
theorem act0_setAct (b : Buf) (x : Col) (hx : x.length = (b.act 0).length) : (b.setAct 0 x).act 0 = x.take b.size := by
  unfold Buf.act Buf.setAct at *
  simp only
  by_cases hd : 0 < b.data.length
  · simp only [List.getD_eq_getElem?_getD, List.getElem?_set, hd, if_true, Option.getD_some]
    simp only [List.getD_eq_getElem?_getD, List.length_take] at hx
    rw [List.take_append, List.take_take, Nat.min_self]
    have : b.size - (x.take b.size).length = 0 ∨ ((b.data[0]?).getD []).drop b.size = [] := by
      by_cases hc : b.size ≤ ((b.data[0]?).getD []).length
      · left; rw [List.length_take]; omega
      · right; exact List.drop_eq_nil_of_le (by omega)
    rcases this with h | h
    · rw [h]; simp
    · rw [h]; simp
  · have : b.data = [] := List.eq_nil_of_length_eq_zero (by omega)
    simp only [this, List.set_nil, List.getD_nil, List.take_nil] at hx ⊢
    have : x = [] := List.eq_nil_of_length_eq_zero (by simpa using hx)
    simp [this]

/-- two big accumulators that agree on every active column and on the degree -/
def BufAgree (cols : Nat) (r₁ r₂ : Buf) : Prop := (∀ c, c < cols → r₁.act c = r₂.act c) ∧ r₁.n = r₂.n

def ORelK {α : Type} (R : α → α → Prop) : Outcome α → Outcome α → Prop
  | .ok a, .ok b => R a b
  | .err e, .err e' => e = e'
  | .panic c, .panic c' => c = c'
  | _, _ => False

theorem aDft_n (a : Ct) : ((List.range (a.rank + 1 - 1)).foldl (fun (acc : Buf) ci =>
      opDftApply 1 0 acc ci (bufOfCols a.n a.size a.cols) (ci + 1)) (zeroBuf a.n (a.rank + 1 - 1) a.size)).n = a.n := by
  have := (foldl_setAct_meta (fun _ (ci : Nat) => ci)
    (fun acc ci => dftApplyCol acc.n 1 0 acc.size ((bufOfCols a.n a.size a.cols).act (ci + 1)))
    (List.range (a.rank + 1 - 1)) (zeroBuf a.n (a.rank + 1 - 1) a.size)).1
  exact this

/-- **`glwe_keyswitch_internal` does not depend on the previous content of `res_dft`** (any admissible digit size):
same outcome, and the big accumulators agree on every column -/
theorem keyswitchInternal_det (big : Bool) (d₁ d₂ : Buf) (a : Ct) (key : Key) (hD : 1 ≤ key.dsize)
    (w1 : d₁.WF) (w2 : d₂.WF) (hs1 : d₁.size = key.mat.size) (hs2 : d₂.size = key.mat.size)
    (hm1 : d₁.maxSize = key.mat.size) (hm2 : d₂.maxSize = key.mat.size)
    (hc1 : d₁.cols = key.mat.colsOut) (hc2 : d₂.cols = key.mat.colsOut) (hn1 : d₁.n = a.n) (hn2 : d₂.n = a.n) :
    ORelK (BufAgree key.mat.colsOut) (keyswitchInternal big d₁ a key) (keyswitchInternal big d₂ a key) := by
  unfold keyswitchInternal
  by_cases hb : a.base2k ≠ key.base2k
  · simp [hb, ORelK]
  · simp only [hb, if_false]
    generalize hA : (List.range (a.rank + 1 - 1)).foldl (fun (acc : Buf) ci =>
      opDftApply 1 0 acc ci (bufOfCols a.n a.size a.cols) (ci + 1)) (zeroBuf a.n (a.rank + 1 - 1) a.size) = aDft
    have hAn : aDft.n = a.n := by rw [← hA]; exact aDft_n a
    have hdet : ∀ c, c < key.mat.colsOut → (gglweProductDft d₁ aDft key).act c = (gglweProductDft d₂ aDft key).act c :=
      fun c hc => C03.product_determined d₁ d₂ aDft key hD w1 w2 hs1 hs2 hm1 hm2 hc1 hc2 (hn1.trans hAn.symm)
        (hn2.trans hAn.symm) c (by rw [hc1]; exact hc)
    obtain ⟨sz1, n1⟩ := product_meta d₁ aDft key w1 hs1 hm1 hc1 (hn1.trans hAn.symm)
    obtain ⟨sz2, n2⟩ := product_meta d₂ aDft key w2 hs2 hm2 hc2 (hn2.trans hAn.symm)
    simp only [ORelK]
    refine ⟨fun c hc => ?_, ?_⟩
    · by_cases h0 : c = 0
      · subst h0
        have e := hdet 0 hc
        rw [act0_setAct _ _ (by unfold bigAddSmallAssign; rw [vecAddAssignW_eq, _root_.assignCol_length]),
          act0_setAct _ _ (by unfold bigAddSmallAssign; rw [vecAddAssignW_eq, _root_.assignCol_length]), e, sz1, sz2]
      · rw [Buf.act_setAct_other _ 0 c _ h0, Buf.act_setAct_other _ 0 c _ h0]; exact hdet c hc
    · show (gglweProductDft d₁ aDft key).n = (gglweProductDft d₂ aDft key).n
      rw [n1, n2, hn1, hn2]

theorem convIn_n (a : Ct) (key : Key) (x : Ct) (h : convIn a key = .ok x) : x.n = a.n := by
  unfold convIn at h
  split at h
  · unfold Ks.glweNormalize at h
    generalize oall (a.cols.map (fun c => ofOpt (normalizeCol? key.base2k (divCeil (a.size * a.base2k) key.base2k) 0 c a.base2k a.n) "fuel")) = o at h
    cases o <;> simp [obind, mkCt] at h
    rw [← h]
  · cases h; rfl

/-- **the fused automorphisms `res = σ_p(KS(a)) ± a` take `res_dft` from scratch without zeroing it: the result does
not depend on its previous content** (`dft0`: `rank+1` columns, `size = max_size = key.size`, degree `a.n`) -/
theorem automorphismFused_det (f : Fused) (big : Bool) (d₁ d₂ : Buf) (rb rs rr : Nat) (a : Ct) (key : Key)
    (hD : 1 ≤ key.dsize) (w1 : d₁.WF) (w2 : d₂.WF) (hs1 : d₁.size = key.mat.size) (hs2 : d₂.size = key.mat.size)
    (hm1 : d₁.maxSize = key.mat.size) (hm2 : d₂.maxSize = key.mat.size)
    (hc1 : d₁.cols = key.mat.colsOut) (hc2 : d₂.cols = key.mat.colsOut) (hn1 : d₁.n = a.n) (hn2 : d₂.n = a.n)
    (hpos : 0 < key.mat.colsOut) :
    automorphismFused f big d₁ rb rs rr a key = automorphismFused f big d₂ rb rs rr a key := by
  unfold automorphismFused
  by_cases hc : a.rank ≠ key.rankIn ∨ rr ≠ key.rankOut ∨ a.rank ≠ rr
  · simp [hc]
  · simp only [hc, if_false]
    cases hx : convIn a key with
    | err e => simp [obind]
    | panic p => simp [obind]
    | ok x =>
      simp only [obind]
      have hxn := convIn_n a key x hx
      have key' := keyswitchInternal_det big d₁ d₂ x key hD w1 w2 hs1 hs2 hm1 hm2 hc1 hc2 (hn1.trans hxn.symm) (hn2.trans hxn.symm)
      cases h1 : keyswitchInternal big d₁ x key with
      | ok r₁ =>
        cases h2 : keyswitchInternal big d₂ x key with
        | ok r₂ =>
          rw [h1, h2] at key'
          obtain ⟨ha, hn⟩ := key'
          have hrr : rr + 1 = key.mat.colsOut := by
            have : rr = key.rankOut := by
              by_contra hne; exact hc (Or.inr (Or.inl hne))
            unfold Key.rankOut at this; omega
          simp only
          have : ∀ i ∈ List.range (rr + 1), r₁.act i = r₂.act i := fun i hi => ha i (by rw [← hrr]; exact List.mem_range.mp hi)
          rw [hn]
          congr 2
          apply List.map_congr_left
          intro i hi
          rw [this i hi]
        | err e => rw [h1, h2] at key'; exact key'.elim
        | panic p => rw [h1, h2] at key'; exact key'.elim
      | err e =>
        cases h2 : keyswitchInternal big d₂ x key with
        | ok r₂ => rw [h1, h2] at key'; exact key'.elim
        | err e' => rw [h1, h2] at key'; simp only [ORelK] at key'; rw [key']
        | panic p => rw [h1, h2] at key'; exact key'.elim
      | panic p =>
        cases h2 : keyswitchInternal big d₂ x key with
        | ok r₂ => rw [h1, h2] at key'; exact key'.elim
        | err e' => rw [h1, h2] at key'; exact key'.elim
        | panic p' => rw [h1, h2] at key'; simp only [ORelK] at key'; rw [key']

end C11Core
