import Poulpy.Lemmas.Fft64CnvPair

open Complex

namespace Fft64Cnv
open F64 Fft64 Fft64Avx NttMath Hal

/-- the twiddle accuracy at which the pairwise domain is stated: `2^-50 = τ51 + 4u` -/
noncomputable def τ50 : ℝ := (2:ℝ) ^ (-50:Int)

theorem τ51_le_τ50 : τ51 ≤ τ50 := by unfold τ51 τ50; exact two_pow_le _ _ (by norm_num)

theorem pair_growth_ok : (1 + γf τ51 / 2) * (1 + 3 / 2 * u) ≤ 1 + γf τ50 / 2 := by
  unfold γf κ u τ51 τ50; norm_num

theorem growthV50_le (K : Nat) (hK : K ≤ 15) : (Gv K 64 τ50 - 1) * (1 + u) + u ≤ (28 * K + 70) * u := by
  interval_cases K <;> (unfold Gv γi γf κ u τ50; norm_num)

theorem growthVL50_le (K : Nat) (hK : K ≤ 15) : (GvL K 64 τ50 - 1) * (1 + u) + u ≤ (57 * K + 197) * u := by
  interval_cases K <;> (unfold GvL ν2 γi γf κ u τ50; norm_num)

/-- `log2` of the proved bound on `R·Ma·Mb` for the pairwise convolution (`R = min(sizeL, sizeR)` accumulated products of the
*sums*; the doubling of both operands costs the two bits, the extra rounding and `τ50` at most one more) -/
def domBitsP : Nat → Nat
  | 2 => 37 | 3 => 35 | 4 => 33 | 5 => 31 | 6 => 28 | 7 => 26
  | 8 => 24 | 9 => 22 | 10 => 20 | 11 => 18 | 12 => 16 | 13 => 14 | 14 => 11 | 15 => 9
  | _ => 0

def domBitsPA : Nat → Nat
  | 2 => 36 | 3 => 34 | 4 => 32 | 5 => 29 | 6 => 27 | 7 => 25
  | 8 => 23 | 9 => 21 | 10 => 19 | 11 => 17 | 12 => 15 | 13 => 12 | 14 => 10 | 15 => 8
  | _ => 0

theorem domP_numeric (K : Nat) (hK2 : 2 ≤ K) (hK : K ≤ 15) :
    (4:ℝ) ^ K * (9 / 4) * ((28 * K + 70) * u) * (4 * (2:ℝ) ^ (domBitsP K)) ≤ 1 / 2 - 1 / 1024 := by
  interval_cases K <;> (unfold domBitsP u; norm_num)

theorem domPA_numeric (K : Nat) (hK2 : 2 ≤ K) (hK : K ≤ 15) :
    (4:ℝ) ^ K * (9 / 4) * ((57 * K + 197) * u) * (4 * (2:ℝ) ^ (domBitsPA K)) ≤ 1 / 2 - 1 / 1024 := by
  interval_cases K <;> (unfold domBitsPA u; norm_num)

theorem τ50_range : 0 ≤ τ50 ∧ τ50 ≤ 1 := by
  constructor
  · unfold τ50; positivity
  · unfold τ50; exact zpow_le_one_of_nonpos₀ (by norm_num) (by norm_num)

/-- `VmpDomain` at `τ50` with doubled operand bounds, in numbers -/
theorem vmpDomain_pair_numeric (K : Nat) (hK2 : 2 ≤ K) (hK : K ≤ 15) (R : Nat) (hR1 : 1 ≤ R) (hR : R ≤ 64) (Ma Mb : ℝ)
    (hMa : 1 ≤ Ma) (hMb : 1 ≤ Mb) (h : R * (Ma * Mb) ≤ (2:ℝ) ^ (domBitsP K)) : VmpDomain K R τ50 (2 * Ma) (2 * Mb) := by
  obtain ⟨hτ0, hτ1⟩ := τ50_range
  have hMa2 : (1:ℝ) ≤ 2 * Ma := by linarith
  have hMb2 : (1:ℝ) ≤ 2 * Mb := by linarith
  apply vmpDomain_of_main K R τ50 _ _ hτ0 hτ1 (by omega) hR1 hMa2 hMb2
  apply vmp_main_closed K R τ50 _ _ hτ0 hMa2 hMb2
  have hu := u_pos
  have hη := η_small
  have g1 := Gv_mono K R hR τ50 hτ0
  have g2 := growthV50_le K hK
  have g3 := domP_numeric K hK2 hK
  have hc : (Gv K R τ50 - 1) * (1 + u) + u ≤ (28 * K + 70) * u := by
    have : (Gv K R τ50 - 1) * (1 + u) ≤ (Gv K 64 τ50 - 1) * (1 + u) := mul_le_mul_of_nonneg_right (by linarith) (by linarith)
    linarith
  have hP0 : 0 ≤ (R:ℝ) * (Ma * Mb) := by positivity
  have h4 : (0:ℝ) ≤ 4 ^ K * (9 / 4) := by positivity
  have e : (R:ℝ) * (4 ^ K * (9 / 4)) * ((Gv K R τ50 - 1) * (1 + u) + u) * (2 * Ma * (2 * Mb)) =
      4 ^ K * (9 / 4) * ((Gv K R τ50 - 1) * (1 + u) + u) * (4 * (R * (Ma * Mb))) := by ring
  rw [e]
  have s1 : 4 ^ K * (9 / 4) * ((Gv K R τ50 - 1) * (1 + u) + u) * (4 * (R * (Ma * Mb))) ≤ 4 ^ K * (9 / 4) * ((28 * K + 70) * u) * (4 * (R * (Ma * Mb))) :=
    mul_le_mul_of_nonneg_right (mul_le_mul_of_nonneg_left hc h4) (by positivity)
  have s2 : 4 ^ K * (9 / 4) * ((28 * K + 70) * u) * (4 * (R * (Ma * Mb))) ≤ 4 ^ K * (9 / 4) * ((28 * K + 70) * u) * (4 * (2:ℝ) ^ (domBitsP K)) :=
    mul_le_mul_of_nonneg_left (by linarith) (by positivity)
  linarith

/-- `LaneDomainAvx` at `τ50` with doubled operand bounds, in numbers -/
theorem laneDomainAvx_pair_numeric (K : Nat) (hK2 : 2 ≤ K) (hK : K ≤ 15) (R : Nat) (hR1 : 1 ≤ R) (hR : R ≤ 64) (Ma Mb : ℝ)
    (hMa : 1 ≤ Ma) (hMb : 1 ≤ Mb) (h : R * (Ma * Mb) ≤ (2:ℝ) ^ (domBitsPA K)) : LaneDomainAvx K R τ50 (2 * Ma) (2 * Mb) := by
  obtain ⟨hτ0, hτ1⟩ := τ50_range
  have hMa2 : (1:ℝ) ≤ 2 * Ma := by linarith
  have hMb2 : (1:ℝ) ≤ 2 * Mb := by linarith
  apply laneDomainAvx_of_main K R τ50 _ _ hτ0 hτ1 (by omega) hR1 hMa2 hMb2
  apply lane_main_closed K R τ50 _ _ hτ0 hMa2 hMb2
  have hu := u_pos
  have hη := η_small
  have hu' : u ≤ 1 / 4096 := by
    unfold u
    calc (2:ℝ) ^ (-53:Int) ≤ (2:ℝ) ^ (-12:Int) := two_pow_le _ _ (by norm_num)
      _ = 1 / 4096 := by norm_num
  have g1 := GvL_mono K R hR τ50 hτ0
  have g2 := growthVL50_le K hK
  have g3 := domPA_numeric K hK2 hK
  have hc : (GvL K R τ50 - 1) * (1 + u) + u ≤ (57 * K + 197) * u := by
    have : (GvL K R τ50 - 1) * (1 + u) ≤ (GvL K 64 τ50 - 1) * (1 + u) := mul_le_mul_of_nonneg_right (by linarith) (by linarith)
    linarith
  have h4 : (0:ℝ) ≤ 4 ^ K * (9 / 4) := by positivity
  have e : (R:ℝ) * (4 ^ K * (9 / 4)) * ((GvL K R τ50 - 1) * (1 + u) + u) * (2 * Ma * (2 * Mb)) =
      4 ^ K * (9 / 4) * ((GvL K R τ50 - 1) * (1 + u) + u) * (4 * (R * (Ma * Mb))) := by ring
  rw [e]
  have s1 : 4 ^ K * (9 / 4) * ((GvL K R τ50 - 1) * (1 + u) + u) * (4 * (R * (Ma * Mb))) ≤ 4 ^ K * (9 / 4) * ((57 * K + 197) * u) * (4 * (R * (Ma * Mb))) :=
    mul_le_mul_of_nonneg_right (mul_le_mul_of_nonneg_left hc h4) (by positivity)
  have s2 : 4 ^ K * (9 / 4) * ((57 * K + 197) * u) * (4 * (R * (Ma * Mb))) ≤ 4 ^ K * (9 / 4) * ((57 * K + 197) * u) * (4 * (2:ℝ) ^ (domBitsPA K)) :=
    mul_le_mul_of_nonneg_left (by linarith) (by positivity)
  linarith

end Fft64Cnv
