import Poulpy.Lemmas.TraceJump
import Poulpy.Lemmas.AutoDecrypt
import Poulpy.Lemmas.KsHeadRoom
import Poulpy.Props.C02
import Poulpy.Props.C08

/-!
# The executed trace loop decrypts to the partial trace (end to end)

`Ks.traceLoop big128 keys res levels` (Model/Core/Ks.lean; the loop of `glwe_trace` / `glwe_trace_assign`) executes, for each level `i`,
`glwe_rsh(1, res)` and `glwe_automorphism_add_assign(res, keys[g_i])` (scratch `res_dft` created zeroed).  This file composes the three
end-to-end facts into a theorem on the executable loop:

* `ks_glweRsh_spec` — `Ks.glweRsh` (a map over the columns) is the C02 model `Core.Ops.glweRsh` (`C02.rsh_phase`), output digits balanced;
* `automorphismFused_digits` — the digits of the result of the fused forms are `≤ 2^bout − 1` (not exported by `AutoDecrypt`);
* `TraceKeyOk` — what a level needs from its key; **`trace_level_decrypts`** — one level (`rsh` + fused add): the pair `h1` / `h2` of
  `TraceJump.trace_compose`, shapes and digit bound of the result;
* `traceLoop_unroll` — induction on the levels of the executable loop: the successive ciphertexts and their `LevelRel`;
* **`glwe_trace_loop_decrypts`** (levels `List.range' j n`), `glwe_trace_loop_decrypts'` (levels `(List.range n).map (j + ·)`),
  **`glwe_trace_assign_decrypts`** (`Ks.traceAssign`, ciphertext already in the key radix);
* a closed instance (`N = 1`, no level).
-/

namespace KsDec
open Hal Core Core.Ops C02L AutoMul TraceJump

/-! ### 1. `Ks.glweRsh` is the C02 model `Core.Ops.glweRsh`, with balanced output digits -/

/-- the trace's `glwe_rsh` (`Ks.glweRsh`, a map over the columns) is the C02 model (`Core.Ops.glweRsh`, the column loop) on well-formed
ciphertexts under the C08 head-room, and its output digits are balanced: `|d| ≤ 2^(b−1)` -/
theorem ks_glweRsh_spec {N : Nat} {res : Ks.Ct} (hr : GWF N res) {H : Int} (hh : NormL.HeadRoom 64 res.base2k 0 H)
    (hb : GBound H res) (k : Nat) :
    ∃ r', Ks.glweRsh k res = .ok r' ∧ Core.Ops.glweRsh N 0 k res = .ok r' ∧ GBound (2 ^ (res.base2k - 1)) r' := by
  obtain ⟨r', h1, hs, hw, hsz, hcol⟩ := rsh_loop hr 0 k (fun a => rshCoef .overwrite res.base2k k a a) (fun _ => rfl)
  have hcols : r'.cols = res.cols.map (fun c => mapCoefs N c.length (fun t => rshCoef .overwrite res.base2k k (coefAt c t) (coefAt c t))) := by
    apply List.ext_getElem
    · rw [List.length_map]; exact hs.2.2.2
    · intro i h1 h2
      rw [List.length_map] at h2
      have hi : i ≤ res.rank := by have := hr.len; omega
      have := hcol i hi
      simp only [col, List.getD_eq_getElem?_getD, List.getElem?_eq_getElem h1, List.getElem?_eq_getElem h2, Option.getD_some] at this
      rw [this, List.getElem_map]
      have hl := (hr.2.2 _ (List.getElem_mem h2)).1
      rw [hl]
  have hks : Ks.glweRsh k res = .ok { res with cols := r'.cols } := by
    unfold Ks.glweRsh
    rw [oall_map_ok _ (fun c => mapCoefs N c.length (fun t => rshCoef .overwrite res.base2k k (coefAt c t) (coefAt c t))) res.cols]
    · rw [hcols]; rfl
    · intro c _
      rw [hr.1, rshAssignCol_some res.base2k k 0 (fun a => rshCoef .overwrite res.base2k k a a) (fun _ => rfl)]
  have e : r' = { res with cols := r'.cols } := by
    obtain ⟨b', k', n', c'⟩ := r'
    obtain ⟨h1, h2, h3, _⟩ := hs
    simp only at h1 h2 h3
    subst h1 h2 h3
    rfl
  refine ⟨r', by rw [hks, ← e], h1, ?_⟩
  intro c hc l hl x hx
  rw [hcols] at hc
  obtain ⟨c0, hc0, rfl⟩ := List.mem_map.mp hc
  obtain ⟨i, _, j, hj, rfl⟩ := CoreEnc.mapCoefs_mem hl hx
  have hv := C08.rsh_value hh k (coefAt c0 i) (coefAt c0 i) (coefAt_bound hh.hH0 (hb c0 hc0) i)
  have hlen : j < (rshCoef .overwrite res.base2k k (coefAt c0 i) (coefAt c0 i)).length := by
    rw [hv.1, CoreEnc.coefAt_length]; exact hj
  have hmem : (rshCoef .overwrite res.base2k k (coefAt c0 i) (coefAt c0 i)).getD j 0 ∈
      rshCoef .overwrite res.base2k k (coefAt c0 i) (coefAt c0 i) := by
    rw [List.getD_eq_getElem?_getD, List.getElem?_eq_getElem hlen]; exact List.getElem_mem hlen
  have hbal := hv.2.1 _ hmem
  unfold NormL.Balanced at hbal
  rw [abs_le]
  constructor <;> linarith [hbal.1, hbal.2]

/-! ### 2. the digits of the executed fused automorphism forms -/

/-- the digits of the result of the executed fused forms are `≤ 2^bout − 1` (the `vec_znx_big_normalize` output; same pipeline and hypotheses as
`glwe_automorphism_fused_decrypts`, which does not export this bound) -/
theorem automorphismFused_digits (f : Ks.Fused) (big128 : Bool) (N bout sout rout : Nat) (a : Ks.Ct) (key : Ks.Key)
    (sk : List Poly) (gInv : Int) (EL KL : ℕ → ℕ → Poly) (Hin Hp : Int)
    (hN : 0 < N) (hg : GalOk key.p N)
    (ha : GWF N a) (hrank : a.rank = key.rankIn) (hrout : rout = key.rankOut) (hra : a.rank = rout)
    (hc0 : 0 < key.mat.colsOut) (hD : 1 ≤ key.dsize) (hM : ∀ j q, (key.mat.entry j q).length = N) (hS : key.mat.rows * key.dsize ≤ key.mat.size)
    (hbi1 : 1 ≤ a.base2k) (hbi : a.base2k ≤ 62) (hbk1 : 1 ≤ key.base2k) (hbk : key.base2k ≤ 62) (hbo1 : 1 ≤ bout) (hbo : bout ≤ 62)
    (hIn0 : 0 ≤ Hin) (hIn : Hin + 8 ≤ 2 ^ 62) (hInB : ∀ c ∈ a.cols, ∀ l ∈ c, ∀ x ∈ l, |x| ≤ Hin)
    (hHp0 : 0 ≤ Hp) (hAcc : Hp + 2 * (Hin + 2 ^ key.base2k) + 8 ≤ 2 ^ (bitsOf big128 - 2))
    (hprod : ∀ aConv, Ks.convIn a key = .ok aConv → ∀ i, i < rout + 1 → ∀ l ∈ (prodOf rout aConv key).act i, ∀ x ∈ l, |x| ≤ Hp)
    (hEL : ∀ i r, (EL i r).length = N) (hKL : ∀ i r, (KL i r).length = N)
    (hkey : ∀ i, i < key.mat.colsIn → ∀ r, r < key.mat.rows →
      Gadget.val (Ks.radix N key.base2k) key.mat.size (Ks.keyPhase N (sk.map (σ gInv)) key.mat i r) =
        Ks.ι N (sk.getD i []) * Ks.radix N key.base2k ^ (key.mat.size - (r + 1) * key.dsize) + Ks.ι N (EL i r)
          + Ks.radix N key.base2k ^ key.mat.size * Ks.ι N (KL i r)) :
    ∀ res, Ks.automorphismFused f big128 (Ks.zeroBuf N (rout + 1) key.size) bout sout rout a key = .ok res →
      ∀ c ∈ res.cols, ∀ l ∈ c, ∀ x ∈ l, |x| ≤ 2 ^ bout - 1 := by
  intro res hres
  have hrank' : a.rank = key.mat.colsIn := hrank
  have hrout' : rout + 1 = key.mat.colsOut := by rw [hrout]; unfold Ks.Key.rankOut; omega
  have hpk : (0 : Int) < 2 ^ key.base2k := by positivity
  obtain ⟨aConv, hconv, gwC, hbC, hrC, hsC, hdigC, hph1⟩ := convIn_phase N a key Hin ha hbi1 hbi hbk1 hbk hIn0 hIn hInB
  have hbodymem : aConv.cols.getD 0 [] ∈ aConv.cols := col_mem 0 (by rw [gwC.len]; omega)
  have h2le : (2 : Int) ^ (bitsOf big128 - 2) ≤ 2 ^ (bitsOf big128 - 1) := pow_le_pow_right₀ (by norm_num) (by omega)
  generalize hHb : Hin + 2 ^ key.base2k = Hb at *
  have hHb0 : 0 ≤ Hb := by rw [← hHb]; linarith
  have hHadd : Hp + Hb < 2 ^ (bitsOf big128 - 1) := by linarith
  have hHadd2 : Hp + Hb + Hb < 2 ^ (bitsOf big128 - 1) := by linarith
  obtain ⟨resBig, hks, hbn, hwfacc, hbacc, hval⟩ := keyswitchInternal_value big128 N rout aConv key sk (sk.map (σ gInv)) EL KL Hp Hb
    hN gwC hbC (hrC.trans hrank') hrout' hD hM hS hEL hKL hkey hHb0 hHadd (hprod aConv hconv) (hdigC _ hbodymem)
  -- the columns of the pipeline
  have hactmem : ∀ i, i < rout + 1 → resBig.act i ∈ accCols rout resBig := fun i hi =>
    List.mem_map.mpr ⟨i, List.mem_range.mpr hi, rfl⟩
  have hXwf : ∀ i, i < rout + 1 → ColWF N key.mat.size ((resBig.act i).map (σ key.p)) := by
    intro i hi
    have := hwfacc _ (hactmem i hi)
    refine ⟨by rw [List.length_map]; exact this.1, ?_⟩
    intro l hl
    obtain ⟨l0, hl0, rfl⟩ := List.mem_map.mp hl
    rw [σ_length]; exact this.2 l0 hl0
  have hXb : ∀ i, i < rout + 1 → ∀ l ∈ (resBig.act i).map (σ key.p), ∀ v ∈ l, |v| ≤ Hp + Hb := by
    intro i hi l hl
    obtain ⟨l0, hl0, rfl⟩ := List.mem_map.mp hl
    have hlen := (hwfacc _ (hactmem i hi)).2 l0 hl0
    exact σ_bound key.p l0 (by rw [hlen]; exact hN) (by rw [hlen]; exact hg) _ (hbacc _ (hactmem i hi) l0 hl0)
  have hYwf : ∀ i, ColWF N key.mat.size (fit N key.mat.size (aConv.cols.getD i [])) := fun i => fit_wf (gwC.col_limbs i) _
  have hcolb : ∀ i, i < rout + 1 → ∀ l ∈ aConv.cols.getD i [], ∀ x ∈ l, |x| ≤ Hb := fun i hi =>
    hdigC _ (col_mem i (by rw [gwC.len, hrC, hra]; exact hi))
  have hstep : ∀ i, i < rout + 1 →
      f.apply big128 (Ks.bigAutomorphismAssign big128 key.p (resBig.act i)) (aConv.cols.getD i [])
        = List.zipWith (fusedPoly f) ((resBig.act i).map (σ key.p)) (fit N key.mat.size (aConv.cols.getD i [])) := by
    intro i hi
    rw [bigAuto_exact big128 key.p _ (Hp + Hb) hHadd (hbacc _ (hactmem i hi))]
    have := fusedApply_exact (N := N) f big128 (Hp + Hb) Hb hHadd2 hHb0 ((resBig.act i).map (σ key.p)) (aConv.cols.getD i [])
      (hXwf i hi).2 (hXb i hi) (hcolb i hi)
    rw [(hXwf i hi).1] at this
    exact this
  generalize hL : (List.range (rout + 1)).map (fun i =>
    List.zipWith (fusedPoly f) ((resBig.act i).map (σ key.p)) (fit N key.mat.size (aConv.cols.getD i []))) = L
  have hLne : L ≠ [] := by
    rw [← hL]; intro h; have := congrArg List.length h; simp at this
  have hLlen : L.length = rout + 1 := by rw [← hL]; simp
  have hLwf : ∀ c ∈ L, ColWF N key.mat.size c := by
    rw [← hL]
    intro c hc
    obtain ⟨i, hi, rfl⟩ := List.mem_map.mp hc
    exact fusedCol_wf f (hXwf i (List.mem_range.mp hi)) (hYwf i)
  have hLb : ∀ c ∈ L, ∀ l ∈ c, ∀ x ∈ l, |x| ≤ Hp + Hb + Hb := by
    rw [← hL]
    intro c hc
    obtain ⟨i, hi, rfl⟩ := List.mem_map.mp hc
    have hi' := List.mem_range.mp hi
    exact fusedCol_bound f _ _ (Hp + Hb) Hb (hXb i hi') (fit_bound N _ _ Hb hHb0 (hcolb i hi'))
  obtain ⟨cs, hok, hlen, hcwf, hdig, _⟩ := norm_stage big128 N bout sout key.base2k key.mat.size (Hp + Hb + Hb) L
    hbo1 hbo hbk1 hbk (by linarith) (by linarith) hLne hLwf hLb
  have hcsne : cs ≠ [] := by
    intro h; rw [h, hLlen] at hlen; simp at hlen
  obtain ⟨gw, gs⟩ := gwf_mk (N := N) bout sout cs hcsne hcwf
  have hfused : Ks.automorphismFused f big128 (Ks.zeroBuf N (rout + 1) key.size) bout sout rout a key = .ok (Ks.mkCt bout N cs) := by
    unfold Ks.automorphismFused
    rw [if_neg (by rw [not_or, not_or]; exact ⟨not_not.mpr hrank, not_not.mpr hrout, not_not.mpr hra⟩)]
    have hks' : Ks.keyswitchInternal big128 (Ks.zeroBuf N (rout + 1) key.size) aConv key = .ok resBig := by
      rw [← gwC.1]; exact hks
    have e : (List.range (rout + 1)).map (fun i => Ks.bigNormalize big128 bout sout
          (f.apply big128 (Ks.bigAutomorphismAssign big128 key.p (resBig.act i)) (aConv.cols.getD i [])) key.base2k N)
        = L.map (fun c => Ks.bigNormalize big128 bout sout c key.base2k N) := by
      rw [← hL, List.map_map]
      apply List.map_congr_left
      intro i hi
      simp only [Function.comp]
      rw [hstep i (List.mem_range.mp hi)]
    simp only [hconv, Ks.obind, hks', hbn]
    rw [e, hok]
  rw [hfused] at hres
  injection hres with hres
  subst hres
  exact hdig

/-! ### 3. one executed trace level -/

/-- what one trace level needs from its automorphism key (`b`, `S`, `rk`: radix, limb count and rank of the running ciphertext; the key is in
the same radix): the shape and key-relation hypotheses of `glwe_automorphism_add_decrypts` (covered regime), the head-room derived from a
bound `Dm` on the key digits for input digits `≤ 2^(b−1)` (what `glwe_rsh` returns), and a bound `BA`, uniform in the (balanced) input, on the
noise the fused automorphism-add contributes. -/
structure TraceKeyOk (big128 : Bool) (N b S rk : Nat) (sk : List Poly) (key : Ks.Key) (gInv : Int) (EL KL : ℕ → ℕ → Poly)
    (Dm BA : Int) : Prop where
  hinv : ∀ s ∈ sk, σ key.p (σ gInv s) = s
  hrank : rk = key.rankIn
  hrout : rk = key.rankOut
  hc0 : 0 < key.mat.colsOut
  hD : 1 ≤ key.dsize
  hM : ∀ j q, (key.mat.entry j q).length = N
  hS : key.mat.rows * key.dsize ≤ key.mat.size
  hbk : key.base2k = b
  hDm0 : 0 ≤ Dm
  hm : ∀ j q, normInf (key.mat.entry j q) ≤ Dm
  hAcc : prodBound key.dsize key.mat.colsIn key.mat.rows N (2 ^ (b - 1) + 2 ^ b) Dm + 2 * (2 ^ (b - 1) + 2 ^ b) + 8
    ≤ 2 ^ (bitsOf big128 - 2)
  hs : key.mat.colsIn ≤ sk.length
  hEL : ∀ i r, (EL i r).length = N
  hKL : ∀ i r, (KL i r).length = N
  hkey : ∀ i, i < key.mat.colsIn → ∀ r, r < key.mat.rows →
    Gadget.val (Ks.radix N key.base2k) key.mat.size (Ks.keyPhase N (sk.map (σ gInv)) key.mat i r) =
      Ks.ι N (sk.getD i []) * Ks.radix N key.base2k ^ (key.mat.size - (r + 1) * key.dsize) + Ks.ι N (EL i r)
        + Ks.radix N key.base2k ^ key.mat.size * Ks.ι N (KL i r)
  hcov1 : S ≤ key.mat.size
  hcov2 : S ≤ key.mat.rows * key.dsize
  hnoise : ∀ a : Ks.Ct, GWF N a → a.base2k = b → a.size = S → a.rank = rk → GBound (2 ^ (b - 1)) a →
    2 ^ (b * S + b * S) * gadgetBound N b (aDftOf a) key EL
      + 2 ^ (b * S + b * S) * dropBound N b (sk.map (σ gInv)) (aDftOf a) key
      + 2 ^ (b * S) * ((1 + snorm (min rk sk.length) sk) * C02.normTol (b * S) (b * key.mat.size)) ≤ BA

theorem convIn_same (a : Ks.Ct) (key : Ks.Key) (h : a.base2k = key.base2k) : Ks.convIn a key = .ok a := by
  unfold Ks.convIn; rw [if_neg (not_not.mpr h)]

theorem convSize_same_radix (a : Ks.Ct) (key : Ks.Key) (h : a.base2k = key.base2k) : convSize a key = a.size := by
  unfold convSize; rw [if_neg (not_not.mpr h)]

/-- the coefficient-wise relation of `glwe_rsh 1` divided by `2^M`: `2·V' = V + e' + q·2·2^M`, `|e'| ≤ 2·(1+‖s‖₁)` -/
theorem rsh1_coeff (V1 V e q P u : Int) (hP : 0 < P) (h : V1 * (P * 2) = V * P + e + q * (P * (P * 2))) (he : |e| ≤ u * (P * 2)) :
    ∃ q' e' : Int, 2 * V1 = 1 * V + e' + q' * (2 * P) ∧ |e'| ≤ 2 * u := by
  refine ⟨q, 2 * V1 - V - q * (2 * P), by ring, ?_⟩
  have e1 : e = P * (2 * V1 - V - q * (2 * P)) := by linarith
  rw [e1, abs_mul, abs_of_pos hP] at he
  have : P * |2 * V1 - V - q * (2 * P)| ≤ P * (2 * u) := by linarith
  exact le_of_mul_le_mul_left this hP

/-- **`trace_level_decrypts`** — one executed level of `Ks.traceLoop`: `glwe_rsh(1, res)` then `glwe_automorphism_add_assign(res, key)` with the
scratch `res_dft` entering zeroed (what `traceLoop` passes).  Input: a well-formed `res` in the key radix `b` with `S ≤ key size`,
`≤ rows·dsize` limbs, digits `≤ H` under the C08 head-room.  Both calls return `ok`; the result `r2` has the shape of `res`, digits
`≤ 2^b − 1`, and, with `M = b·S`, `c = 2^(M + b·S_key)`, in `R N`:

* `2 • φ(r1) = φ(res) + ι e + (2·2^M) • k`, `‖e‖∞ ≤ 2·(1 + ‖sk‖₁)` (the division by two, exact up to one unit of rounding, modulo `2^M`);
* `c • φ(r2) = c • φ(r1) + c • ι(σ_g(val(phase r1))) + ι EA + (c·2^M) • k'`, `‖EA‖∞ ≤ BA` (gadget error, dropped limbs, final normalisation).

These are the relations `h1` / `h2` of `TraceJump.trace_compose` for `ψ = c • φ`, `Q = c·2^M`. -/
theorem trace_level_decrypts (big128 : Bool) (N : Nat) (res : Ks.Ct) (key : Ks.Key) (sk : List Poly) (gInv : Int)
    (EL KL : ℕ → ℕ → Poly) (H Dm BA : Int)
    (hN : 0 < N) (hsk : Ks.AllLen N sk) (hg : GalOk key.p N)
    (hr : GWF N res) (hh : NormL.HeadRoom 64 res.base2k 0 H) (hb62 : res.base2k ≤ 62) (hbd : GBound H res)
    (hk : TraceKeyOk big128 N res.base2k res.size res.rank sk key gInv EL KL Dm BA) :
    ∃ r1 r2, Ks.glweRsh 1 res = .ok r1 ∧
      Ks.automorphismFused .add big128 (Ks.zeroBuf res.n (r1.rank + 1) key.size) r1.base2k r1.size r1.rank r1 key = .ok r2 ∧
      GWF N r2 ∧ r2.base2k = res.base2k ∧ r2.size = res.size ∧ r2.rank = res.rank ∧ GBound (2 ^ res.base2k - 1) r2 ∧
      ∃ (e EA : Poly) (k k' : Ks.R N), e.length = N ∧ EA.length = N ∧
        normInf e ≤ 2 * (1 + snorm (min res.rank sk.length) sk) ∧ normInf EA ≤ BA ∧
        2 • Ks.ι N (valP res.base2k N (phase sk r1))
          = Ks.ι N (valP res.base2k N (phase sk res)) + Ks.ι N e + (2 * 2 ^ (res.base2k * res.size) : ℤ) • k ∧
        (2 ^ (res.base2k * res.size + res.base2k * key.mat.size) : ℤ) • Ks.ι N (valP res.base2k N (phase sk r2))
          = (2 ^ (res.base2k * res.size + res.base2k * key.mat.size) : ℤ) • Ks.ι N (valP res.base2k N (phase sk r1))
            + (2 ^ (res.base2k * res.size + res.base2k * key.mat.size) : ℤ) • Ks.ι N (σ key.p (valP res.base2k N (phase sk r1)))
            + Ks.ι N EA
            + (2 ^ (res.base2k * res.size + res.base2k * key.mat.size) * 2 ^ (res.base2k * res.size) : ℤ) • k' := by
  obtain ⟨r1, hks, hcore, hbd1⟩ := ks_glweRsh_spec hr hh hbd 1
  obtain ⟨r1', hcore', hsame, hw1, hsz1, _, hph⟩ := C02.rsh_phase hr hh hbd 0 1
  obtain rfl : r1 = r1' := by
    have := hcore.symm.trans hcore'
    injection this
  have hn : res.n = N := hr.1
  have hrk1 : r1.rank = res.rank := by unfold GLWE.rank; rw [hsame.2.2.2]
  have hb1 : r1.base2k = res.base2k := hsame.1
  have hkb : key.base2k = res.base2k := hk.hbk
  have hb0 : 1 ≤ res.base2k := hh.hlsh
  generalize hbdef : res.base2k = b at *
  generalize hSdef : res.size = S at *
  generalize hrdef : res.rank = rk at *
  have hp1 : (0 : Int) < 2 ^ (b - 1) := by positivity
  have hIn : (2 : Int) ^ (b - 1) + 8 ≤ 2 ^ 62 := by
    have : (2 : Int) ^ (b - 1) ≤ 2 ^ 61 := pow_le_pow_right₀ (by norm_num) (by omega)
    linarith
  have hconv : Ks.convIn r1 key = .ok r1 := convIn_same r1 key (by rw [hb1, hkb])
  have hcs : convSize r1 key = S := by rw [convSize_same_radix r1 key (by rw [hb1, hkb]), hsz1]
  have hrout' : r1.rank + 1 = key.mat.colsOut := by
    rw [hrk1, hk.hrout]; have := hk.hc0; unfold Ks.Key.rankOut; omega
  have hprod := prodOf_conv_bound N r1.rank r1 key (2 ^ (b - 1)) Dm hw1 hrout' hk.hD (by rw [hb1]; exact hb0) (by rw [hb1]; exact hb62)
    (by rw [hkb]; exact hb0) (by rw [hkb]; exact hb62) hp1.le hIn hbd1 hk.hDm0 hk.hm
  have hHp0 := prodBound_nonneg key.dsize key.mat.colsIn key.mat.rows N (2 ^ (b - 1) + 2 ^ key.base2k) Dm (by positivity) hk.hDm0
  have hAcc : prodBound key.dsize key.mat.colsIn key.mat.rows N (2 ^ (b - 1) + 2 ^ key.base2k) Dm
      + 2 * (2 ^ (b - 1) + 2 ^ key.base2k) + 8 ≤ 2 ^ (bitsOf big128 - 2) := by rw [hkb]; exact hk.hAcc
  obtain ⟨r2, aConv, hfused, hconv', gw2, hb2, hs2, hr2, E1, E3, Q, hE1, hE3, hn1, hn3, hmain, hbound⟩ :=
    glwe_automorphism_add_decrypts big128 N r1.base2k r1.size r1.rank r1 key sk gInv EL KL (2 ^ (b - 1))
      (prodBound key.dsize key.mat.colsIn key.mat.rows N (2 ^ (b - 1) + 2 ^ key.base2k) Dm) hN hg hsk hk.hinv hw1
      (by rw [hrk1]; exact hk.hrank) (by rw [hrk1]; exact hk.hrout) rfl hk.hc0 hk.hD hk.hM hk.hS
      (by rw [hb1]; exact hb0) (by rw [hb1]; exact hb62) (by rw [hkb]; exact hb0) (by rw [hkb]; exact hb62)
      (by rw [hb1]; exact hb0) (by rw [hb1]; exact hb62) hp1.le hIn hbd1 hHp0 hAcc hprod hk.hs hk.hEL hk.hKL hk.hkey
      (by rw [hcs]; exact hk.hcov1) (by rw [hcs]; exact hk.hcov2)
  have hdig := automorphismFused_digits .add big128 N r1.base2k r1.size r1.rank r1 key sk gInv EL KL (2 ^ (b - 1))
      (prodBound key.dsize key.mat.colsIn key.mat.rows N (2 ^ (b - 1) + 2 ^ key.base2k) Dm) hN hg hw1
      (by rw [hrk1]; exact hk.hrank) (by rw [hrk1]; exact hk.hrout) rfl hk.hc0 hk.hD hk.hM hk.hS
      (by rw [hb1]; exact hb0) (by rw [hb1]; exact hb62) (by rw [hkb]; exact hb0) (by rw [hkb]; exact hb62)
      (by rw [hb1]; exact hb0) (by rw [hb1]; exact hb62) hp1.le hIn hbd1 hHp0 hAcc hprod hk.hEL hk.hKL hk.hkey r2 hfused
  rw [hconv] at hconv'
  injection hconv' with hconv'
  subst hconv'
  rw [hb1] at hb2 hdig
  rw [hsz1] at hs2
  rw [hrk1] at hr2
  -- the rsh relation
  obtain ⟨e, Qr, hel, hQr, hne, hrel1⟩ := coeff_to_ring N hN (phase sk r1) (phase sk res) b b 2 1 (2 * 2 ^ (b * S))
    (2 * (1 + snorm (min rk sk.length) sk)) (by
      intro t ht
      obtain ⟨q, e, he1, he2⟩ := hph sk t ht
      rw [pow_add, pow_add, pow_one] at he1
      rw [pow_add, pow_one] at he2
      exact rsh1_coeff _ _ e q (2 ^ (b * S)) _ (by positivity) he1 he2)
  -- the automorphism noise
  have hGl : (Ks.errL N key.base2k (aDftOf r1) key EL).length = N := Ks.errL_length N _ _ _ EL hk.hEL
  have hDl := dropL_length N key.base2k (sk.map (σ gInv)) (aDftOf r1) key hk.hc0 hk.hM
  have hErrl := ksErr_length N (2 ^ (r1.base2k * r1.size + key.base2k * (key.mat.size - convSize r1 key)))
    (2 ^ (r1.base2k * r1.size + r1.base2k * r1.size)) 0 E1 _ _ (zeroP N) hE1 hGl hDl (by simp [zeroP])
  rw [hb1, hsz1, hkb, hcs] at hmain hbound hErrl hn1
  rw [hb1, hsz1, hkb] at hn3
  rw [hrk1] at hn1 hn3 hbound
  generalize hERR : ksErr (2 ^ (b * S + b * (key.mat.size - S))) (2 ^ (b * S + b * S)) 0 E1
    (Ks.errL N b (aDftOf r1) key EL) (Ks.dropL N b (sk.map (σ gInv)) (aDftOf r1) key) (zeroP N) = ERR at hmain hbound hErrl
  have hσl : (σ key.p ERR).length = N := by rw [σ_length, hErrl]
  have hιEA : Ks.ι N (polyAdd (polyAdd (σ key.p ERR) (polyScale (2 ^ (b * S + b * (key.mat.size - S))) E1)) (polyScale (2 ^ (b * S)) E3))
      = Ks.ι N (σ key.p ERR) + Ks.ι N (polyScale (2 ^ (b * S + b * (key.mat.size - S))) E1) + Ks.ι N (polyScale (2 ^ (b * S)) E3) := by
    rw [Ks.ι_add N _ _ (by simp [hσl, hE1, hE3]), Ks.ι_add N _ _ (by simp [hσl, hE1])]
  have hn1' : normInf E1 ≤ 0 := by
    have : C02.normTol (b * S) (b * S) = 0 := by simp [C02.normTol]
    rw [this, mul_zero] at hn1
    exact hn1
  have hnoise := hk.hnoise r1 hw1 hb1 hsz1 hrk1 hbd1
  refine ⟨r1, r2, hks, by rw [hn]; exact hfused, gw2, hb2, hs2, hr2, hdig, e,
    polyAdd (polyAdd (σ key.p ERR) (polyScale (2 ^ (b * S + b * (key.mat.size - S))) E1)) (polyScale (2 ^ (b * S)) E3),
    Ks.ι N Qr, Q, hel, by simp [hσl, hE1, hE3], hne, ?_, ?_, ?_⟩
  · have a1 := normInf_polyAdd_le (polyAdd (σ key.p ERR) (polyScale (2 ^ (b * S + b * (key.mat.size - S))) E1)) (polyScale (2 ^ (b * S)) E3)
    have a2 := normInf_polyAdd_le (σ key.p ERR) (polyScale (2 ^ (b * S + b * (key.mat.size - S))) E1)
    rw [normInf_polyScale] at a1 a2
    have p1 : (0 : Int) ≤ 2 ^ (b * S + b * (key.mat.size - S)) := by positivity
    have p2 : (0 : Int) ≤ 2 ^ (b * S) := by positivity
    rw [abs_of_nonneg p1] at a2
    rw [abs_of_nonneg p2] at a1
    have m1 := mul_le_mul_of_nonneg_left hn1' p1
    have m3 := mul_le_mul_of_nonneg_left hn3 p2
    have : C02.normTol (b * S) (b * S) = 0 := by simp [C02.normTol]
    rw [this] at hbound
    simp only [mul_zero] at hbound m1
    linarith
  · have h := hrel1
    simp only [nsmul_eq_mul, zsmul_eq_mul]
    push_cast at h ⊢
    linear_combination h
  · rw [hιEA]
    simp only [sgA_add, sgB_add, Ks.ι_polyScale] at hmain ⊢
    simp only [zsmul_eq_mul]
    push_cast at hmain ⊢
    linear_combination hmain

/-! ### 4. the executed trace loop -/

/-- `ι(σ_g a) = σ_{g_i}(ι a)` for the Galois element of trace level `i` -/
theorem ι_σ_lvl (N : ℕ) (hN : 0 < N) (g : ℤ) (i : ℕ) (hg : IsLvl N g i) (a : Poly) (ha : a.length = N) :
    Ks.ι N (σ g a) = sig N (lvl N i) (Ks.ι N a) := by
  have h := ι_stepL N hN g i hg a ha
  unfold stepL TraceJump.step at h
  rw [Ks.ι_add N a _ (by rw [σ_length])] at h
  exact add_left_cancel h

/-- the scaled phase `c • ι(val(phase_sk x))` -/
noncomputable def sph (N b : ℕ) (c : ℤ) (sk : List Poly) (x : Ks.Ct) : Ks.R N := c • Ks.ι N (valP b N (phase sk x))

/-- invariant of the running ciphertext of the trace loop -/
def TraceInv (N b S rk : ℕ) (H : ℤ) (x : Ks.Ct) : Prop :=
  GWF N x ∧ x.base2k = b ∧ x.size = S ∧ x.rank = rk ∧ GBound H x

/-- the pair of relations `h1` / `h2` of `TraceJump.trace_compose` at level `i`, between the scaled phases before and after the level -/
def LevelRel (K i : ℕ) (Q a bb : ℤ) (ψx ψy : Ks.R (2 ^ K)) : Prop :=
  ∃ (g : ℤ) (ψ' : Ks.R (2 ^ K)) (e E : Poly) (k k' : Ks.R (2 ^ K)), IsLvl (2 ^ K) g i ∧ e.length = 2 ^ K ∧ E.length = 2 ^ K ∧
    normInf e ≤ a ∧ normInf E ≤ bb ∧
    2 • ψ' = ψx + Ks.ι (2 ^ K) e + (2 * Q) • k ∧
    ψy = ψ' + sig (2 ^ K) (lvl (2 ^ K) i) ψ' + Ks.ι (2 ^ K) E + Q • k'

theorem GBound.mono {H H' : ℤ} {x : Ks.Ct} (h : GBound H x) (hle : H ≤ H') : GBound H' x :=
  fun c hc l hl v hv => (h c hc l hl v hv).trans hle

/-- **the executed trace loop, unrolled**: the successive ciphertexts `seq j = x, …, seq (j+n) = r` of `Ks.traceLoop` over the levels
`j, …, j+n−1`, each level satisfying `LevelRel` (from `trace_level_decrypts`) and keeping the invariant -/
theorem traceLoop_unroll (big128 : Bool) (K : ℕ) (hK : K + 1 ≤ 64) (keys : List Ks.Key) (sk : List Poly) (b S Sk rk : ℕ) (H : ℤ)
    (BA : ℕ → ℤ) (hsk : Ks.AllLen (2 ^ K) sk) (hh : NormL.HeadRoom 64 b 0 H) (hb62 : b ≤ 62) (hH : 2 ^ b - 1 ≤ H)
    (hkeys : ∀ i p key, Ks.traceGalois (2 ^ K) i = .ok p → key ∈ keys → key.p = p →
      key.mat.size = Sk ∧ ∃ gInv EL KL Dm, TraceKeyOk big128 (2 ^ K) b S rk sk key gInv EL KL Dm (BA i))
    (n : ℕ) : ∀ (j : ℕ) (x r : Ks.Ct), TraceInv (2 ^ K) b S rk H x → Ks.traceLoop big128 keys x (List.range' j n) = .ok r →
      TraceInv (2 ^ K) b S rk H r ∧
      ∃ seq : ℕ → Ks.Ct, seq j = x ∧ seq (j + n) = r ∧ ∀ i, j ≤ i → i < j + n →
        LevelRel K i (2 ^ (b * S + b * Sk) * 2 ^ (b * S)) (2 ^ (b * S + b * Sk) * (2 * (1 + snorm (min rk sk.length) sk))) (BA i)
          (sph (2 ^ K) b (2 ^ (b * S + b * Sk)) sk (seq i)) (sph (2 ^ K) b (2 ^ (b * S + b * Sk)) sk (seq (i + 1))) := by
  have hN : 0 < 2 ^ K := by positivity
  induction n with
  | zero =>
    intro j x r hinv h
    simp only [List.range'_zero, Ks.traceLoop] at h
    injection h with h
    subst h
    exact ⟨hinv, fun _ => x, rfl, rfl, fun i h1 h2 => by omega⟩
  | succ n ih =>
    intro j x r hinv h
    obtain ⟨gw, hb, hS, hrk, hbd⟩ := hinv
    rw [List.range'_succ] at h
    simp only [Ks.traceLoop] at h
    obtain ⟨r1, hks, _, _⟩ := ks_glweRsh_spec gw (by rw [hb]; exact hh) hbd 1
    rw [hks, gw.1] at h
    simp only [Ks.obind] at h
    cases hp : Ks.traceGalois (2 ^ K) j with
    | err s => rw [hp] at h; simp at h
    | panic s => rw [hp] at h; simp at h
    | ok p =>
      rw [hp] at h
      simp only at h
      cases hf : keys.find? (fun k => k.p == p) with
      | none => rw [hf] at h; simp at h
      | some key =>
        rw [hf] at h
        simp only at h
        have hmem : key ∈ keys := List.mem_of_find?_eq_some hf
        have hkp : key.p = p := by
          have := List.find?_some hf
          simpa using this
        obtain ⟨hSk, gInv, EL, KL, Dm, hk⟩ := hkeys j p key hp hmem hkp
        have hlvl : IsLvl (2 ^ K) key.p j := by rw [hkp]; exact traceGalois_isLvl K j hK p hp
        obtain ⟨r1', r2, hks', hfused, gw2, hb2, hs2, hr2, hdig2, e, EA, k, k', hel, hEAl, hne, hnEA, h1, h2⟩ :=
          trace_level_decrypts big128 (2 ^ K) x key sk gInv EL KL H Dm (BA j) hN hsk hlvl.1 gw (by rw [hb]; exact hh)
            (by rw [hb]; exact hb62) hbd (by rw [hb, hS, hrk]; exact hk)
        obtain rfl : r1 = r1' := by
          have := hks.symm.trans hks'
          injection this
        rw [gw.1] at hfused
        rw [hfused] at h
        simp only at h
        rw [hb] at hb2 hdig2 h1 h2
        rw [hS] at hs2 h1 h2
        rw [hrk] at hr2 hne
        rw [hSk] at h2
        have hinv2 : TraceInv (2 ^ K) b S rk H r2 := ⟨gw2, hb2, hs2, hr2, GBound.mono hdig2 hH⟩
        obtain ⟨hinvr, seq', hs0, hsn, hrel⟩ := ih (j + 1) r2 r hinv2 h
        refine ⟨hinvr, fun i => if i = j then x else seq' i, by simp, ?_, ?_⟩
        · have : j + (n + 1) ≠ j := by omega
          simp only [this, if_false]
          rw [← hsn]; congr 1; omega
        · intro i hi1 hi2
          by_cases hij : i = j
          · subst hij
            have : i + 1 ≠ i := by omega
            simp only [this, if_true, if_false, hs0]
            generalize hc : (2 : ℤ) ^ (b * S + b * Sk) = c at *
            have hc0 : 0 ≤ c := by rw [← hc]; positivity
            refine ⟨key.p, sph (2 ^ K) b c sk r1, polyScale c e, EA, k, k', hlvl, by simp [hel], hEAl, ?_, hnEA, ?_, ?_⟩
            · rw [normInf_polyScale, abs_of_nonneg hc0]
              exact mul_le_mul_of_nonneg_left hne hc0
            · unfold sph
              rw [Ks.ι_polyScale]
              have h := congrArg (fun z => c • z) h1
              simp only [nsmul_eq_mul, zsmul_eq_mul] at h ⊢
              push_cast at h ⊢
              linear_combination h
            · unfold sph
              rw [map_zsmul, ← ι_σ_lvl (2 ^ K) hN key.p i hlvl _ (by simp)]
              exact h2
          · have h3 : i + 1 ≠ j := by omega
            simp only [hij, h3, if_false]
            exact hrel i (by omega) (by omega)

/-- **`glwe_trace_loop_decrypts`** — END-TO-END theorem of the executed `Ks.traceLoop` (the loop of `glwe_trace` / `glwe_trace_assign`:
for each level `i = j, …, K−1`, `glwe_rsh(1, res)` then `glwe_automorphism_add_assign(res, keys[g_i])`), `N = 2^K`, `j + n = K`.

Hypotheses: the input `res` is well formed, in the radix `b` of the keys (`traceAssign` converts beforehand), `S` limbs, digits `≤ H`
with the C08 head-room `H + 2^b + 4 ≤ 2^63` and `2^b − 1 ≤ H` (the fused output is normalised: digits `≤ 2^b − 1`, so the head-room
propagates); every key of the list carrying the Galois element of a level satisfies `TraceKeyOk` (shape, covered regime `S ≤ S_key`,
`≤ rows·dsize`, derived head-room, key relation with noise lists, `hinv`, noise bound `BA i` uniform in the balanced input), all with the
same limb count `S_key`.

Conclusion: the result `r` has the shape of `res`, digits `≤ H`, and with `M = b·S`, `c = 2^(M + b·S_key)`, in `R N`,
`(c·2^n) • φ(r) = c • traceOp [j, …, K−1] (φ(res)) + ι ErrL + (c·2^n·2^M) • z`,
`‖ErrL‖∞ ≤ 2^n · Σ_{i=j}^{K−1} (c·2·(1+‖sk‖₁) + BA i)`:
after division by `c·2^n` the result decrypts to the partial trace `2^(−n)·Π_i (1+σ_{g_i})` of the input's phase, plus at most the sum over
the levels of (one rounding unit `2(1+‖sk‖₁)` of `glwe_rsh` + the automorphism noise `BA i / c`), modulo `2^M`
(all wraps collected into one multiple of `c·2^n·2^M`, `TraceJump.trace_compose`). -/
theorem glwe_trace_loop_decrypts (big128 : Bool) (K j n : ℕ) (hjn : j + n = K) (hK : K + 1 ≤ 64) (keys : List Ks.Key) (sk : List Poly)
    (res r : Ks.Ct) (Sk : ℕ) (H : ℤ) (BA : ℕ → ℤ)
    (hsk : Ks.AllLen (2 ^ K) sk) (hr : GWF (2 ^ K) res) (hh : NormL.HeadRoom 64 res.base2k 0 H) (hb62 : res.base2k ≤ 62)
    (hH : 2 ^ res.base2k - 1 ≤ H) (hbd : GBound H res)
    (hkeys : ∀ i p key, Ks.traceGalois (2 ^ K) i = .ok p → key ∈ keys → key.p = p →
      key.mat.size = Sk ∧ ∃ gInv EL KL Dm, TraceKeyOk big128 (2 ^ K) res.base2k res.size res.rank sk key gInv EL KL Dm (BA i))
    (hrun : Ks.traceLoop big128 keys res (List.range' j n) = .ok r) :
    GWF (2 ^ K) r ∧ r.base2k = res.base2k ∧ r.size = res.size ∧ r.rank = res.rank ∧ GBound H r ∧
    ∃ (ErrL : Poly) (z : Ks.R (2 ^ K)), ErrL.length = 2 ^ K ∧
      normInf ErrL ≤ 2 ^ n * ∑ t ∈ Finset.range n,
        (2 ^ (res.base2k * res.size + res.base2k * Sk) * (2 * (1 + snorm (min res.rank sk.length) sk)) + BA (j + t)) ∧
      (2 ^ (res.base2k * res.size + res.base2k * Sk) * 2 ^ n : ℤ) • Ks.ι (2 ^ K) (valP res.base2k (2 ^ K) (phase sk r))
        = (2 ^ (res.base2k * res.size + res.base2k * Sk) : ℤ) •
            traceOp (2 ^ K) (List.range' j n) (Ks.ι (2 ^ K) (valP res.base2k (2 ^ K) (phase sk res)))
          + Ks.ι (2 ^ K) ErrL
          + (2 ^ (res.base2k * res.size + res.base2k * Sk) * 2 ^ n * 2 ^ (res.base2k * res.size) : ℤ) • z := by
  obtain ⟨hinvr, seq, hs0, hsn, hrel⟩ := traceLoop_unroll big128 K hK keys sk res.base2k res.size Sk res.rank H BA hsk hh hb62 hH hkeys n
    j res r ⟨hr, rfl, rfl, rfl, hbd⟩ hrun
  rw [hjn] at hsn hrel
  generalize hc : (2 : ℤ) ^ (res.base2k * res.size + res.base2k * Sk) = c at *
  generalize hQ : c * 2 ^ (res.base2k * res.size) = Q at *
  generalize ha : c * (2 * (1 + snorm (min res.rank sk.length) sk)) = a at *
  have tot : ∀ i, ∃ (g : ℤ) (ψ' : Ks.R (2 ^ K)) (e E : Poly) (k k' : Ks.R (2 ^ K)), e.length = 2 ^ K ∧ E.length = 2 ^ K ∧
      (j ≤ i → i < K → IsLvl (2 ^ K) g i ∧ normInf e ≤ a ∧ normInf E ≤ BA i ∧
        2 • ψ' = sph (2 ^ K) res.base2k c sk (seq i) + Ks.ι (2 ^ K) e + (2 * Q) • k ∧
        sph (2 ^ K) res.base2k c sk (seq (i + 1)) = ψ' + sig (2 ^ K) (lvl (2 ^ K) i) ψ' + Ks.ι (2 ^ K) E + Q • k') := by
    intro i
    by_cases hi : j ≤ i ∧ i < K
    · obtain ⟨g, ψ', e, E, k, k', h1, h2, h3, h4, h5, h6, h7⟩ := hrel i hi.1 hi.2
      exact ⟨g, ψ', e, E, k, k', h2, h3, fun _ _ => ⟨h1, h4, h5, h6, h7⟩⟩
    · exact ⟨0, 0, zeroP (2 ^ K), zeroP (2 ^ K), 0, 0, by simp [zeroP], by simp [zeroP], fun h1 h2 => absurd ⟨h1, h2⟩ hi⟩
  choose gs φ' eL EL k k' hel hEl hall using tot
  obtain ⟨kk, ErrL, hlen, hnorm, hfin⟩ := trace_compose K j n hjn Q gs (fun i => sph (2 ^ K) res.base2k c sk (seq i)) φ' k k' eL EL
    (fun _ => a) BA (fun i h1 h2 => (hall i h1 h2).1) hel hEl (fun i h1 h2 => (hall i h1 h2).2.1) (fun i h1 h2 => (hall i h1 h2).2.2.1)
    (fun i h1 h2 => (hall i h1 h2).2.2.2.1) (fun i h1 h2 => (hall i h1 h2).2.2.2.2)
  obtain ⟨g1, g2, g3, g4, g5⟩ := hinvr
  refine ⟨g1, g2, g3, g4, g5, ErrL, kk, hlen, hnorm, ?_⟩
  simp only [hs0, hsn] at hfin
  unfold sph at hfin
  rw [traceOp_zsmul] at hfin
  rw [← hQ] at hfin
  simp only [nsmul_eq_mul, zsmul_eq_mul] at hfin ⊢
  push_cast at hfin ⊢
  linear_combination hfin

/-- the same with the level list as `Ks.traceAssign` builds it: `(List.range n).map (j + ·)` -/
theorem glwe_trace_loop_decrypts' (big128 : Bool) (K j n : ℕ) (hjn : j + n = K) (hK : K + 1 ≤ 64) (keys : List Ks.Key) (sk : List Poly)
    (res r : Ks.Ct) (Sk : ℕ) (H : ℤ) (BA : ℕ → ℤ)
    (hsk : Ks.AllLen (2 ^ K) sk) (hr : GWF (2 ^ K) res) (hh : NormL.HeadRoom 64 res.base2k 0 H) (hb62 : res.base2k ≤ 62)
    (hH : 2 ^ res.base2k - 1 ≤ H) (hbd : GBound H res)
    (hkeys : ∀ i p key, Ks.traceGalois (2 ^ K) i = .ok p → key ∈ keys → key.p = p →
      key.mat.size = Sk ∧ ∃ gInv EL KL Dm, TraceKeyOk big128 (2 ^ K) res.base2k res.size res.rank sk key gInv EL KL Dm (BA i))
    (hrun : Ks.traceLoop big128 keys res ((List.range n).map (fun t => j + t)) = .ok r) :
    GWF (2 ^ K) r ∧ r.base2k = res.base2k ∧ r.size = res.size ∧ r.rank = res.rank ∧ GBound H r ∧
    ∃ (ErrL : Poly) (z : Ks.R (2 ^ K)), ErrL.length = 2 ^ K ∧
      normInf ErrL ≤ 2 ^ n * ∑ t ∈ Finset.range n,
        (2 ^ (res.base2k * res.size + res.base2k * Sk) * (2 * (1 + snorm (min res.rank sk.length) sk)) + BA (j + t)) ∧
      (2 ^ (res.base2k * res.size + res.base2k * Sk) * 2 ^ n : ℤ) • Ks.ι (2 ^ K) (valP res.base2k (2 ^ K) (phase sk r))
        = (2 ^ (res.base2k * res.size + res.base2k * Sk) : ℤ) •
            traceOp (2 ^ K) ((List.range n).map (fun t => j + t)) (Ks.ι (2 ^ K) (valP res.base2k (2 ^ K) (phase sk res)))
          + Ks.ι (2 ^ K) ErrL
          + (2 ^ (res.base2k * res.size + res.base2k * Sk) * 2 ^ n * 2 ^ (res.base2k * res.size) : ℤ) • z := by
  have e : (List.range n).map (fun t => j + t) = List.range' j n := List.range'_eq_map_range.symm
  rw [e] at hrun ⊢
  exact glwe_trace_loop_decrypts big128 K j n hjn hK keys sk res r Sk H BA hsk hr hh hb62 hH hbd hkeys hrun

/-- **`glwe_trace_assign_decrypts`** — the executed `Ks.traceAssign` (`glwe_trace_assign(res, skip, keys)`) on a ciphertext already in the key
radix (no conversion on entry / exit): its two assertions pass or it does not return `ok`, `skip ≤ K`, and the result satisfies the conclusion of
`glwe_trace_loop_decrypts` for the levels `skip, …, K−1`. -/
theorem glwe_trace_assign_decrypts (big128 : Bool) (K skip : ℕ) (hK : K + 1 ≤ 64) (keys : List Ks.Key) (sk : List Poly)
    (res r : Ks.Ct) (Sk : ℕ) (H : ℤ) (BA : ℕ → ℤ)
    (hsk : Ks.AllLen (2 ^ K) sk) (hr : GWF (2 ^ K) res) (hh : NormL.HeadRoom 64 res.base2k 0 H) (hb62 : res.base2k ≤ 62)
    (hH : 2 ^ res.base2k - 1 ≤ H) (hbd : GBound H res)
    (hkeys : ∀ i p key, Ks.traceGalois (2 ^ K) i = .ok p → key ∈ keys → key.p = p →
      key.mat.size = Sk ∧ ∃ gInv EL KL Dm, TraceKeyOk big128 (2 ^ K) res.base2k res.size res.rank sk key gInv EL KL Dm (BA i))
    (hrun : Ks.traceAssign big128 res.base2k keys skip res = .ok r) :
    skip ≤ K ∧ GWF (2 ^ K) r ∧ r.base2k = res.base2k ∧ r.size = res.size ∧ r.rank = res.rank ∧ GBound H r ∧
    ∃ (ErrL : Poly) (z : Ks.R (2 ^ K)), ErrL.length = 2 ^ K ∧
      normInf ErrL ≤ 2 ^ (K - skip) * ∑ t ∈ Finset.range (K - skip),
        (2 ^ (res.base2k * res.size + res.base2k * Sk) * (2 * (1 + snorm (min res.rank sk.length) sk)) + BA (skip + t)) ∧
      (2 ^ (res.base2k * res.size + res.base2k * Sk) * 2 ^ (K - skip) : ℤ) • Ks.ι (2 ^ K) (valP res.base2k (2 ^ K) (phase sk r))
        = (2 ^ (res.base2k * res.size + res.base2k * Sk) : ℤ) •
            traceOp (2 ^ K) ((List.range (K - skip)).map (fun t => skip + t)) (Ks.ι (2 ^ K) (valP res.base2k (2 ^ K) (phase sk res)))
          + Ks.ι (2 ^ K) ErrL
          + (2 ^ (res.base2k * res.size + res.base2k * Sk) * 2 ^ (K - skip) * 2 ^ (res.base2k * res.size) : ℤ) • z := by
  have hn : res.n = 2 ^ K := hr.1
  unfold Ks.traceAssign at hrun
  simp only [hn, Ks.log2Nat, Nat.log2_two_pow] at hrun
  split at hrun
  · cases hrun
  · rename_i hsk1
    split at hrun
    · cases hrun
    · rw [if_neg (by simp)] at hrun
      have hle : skip ≤ K := by omega
      exact ⟨hle, glwe_trace_loop_decrypts' big128 K skip (K - skip) (by omega) hK keys sk res r Sk H BA hsk hr hh hb62 hH hbd hkeys hrun⟩

/-- no level (`skip = log N`): the loop returns its input -/
example (big128 : Bool) (keys : List Ks.Key) (res : Ks.Ct) : Ks.traceLoop big128 keys res (List.range' 3 0) = .ok res := rfl

/-- closed instance of the theorem, `N = 2^0 = 1`, no level (`skip = log N = 0`), radix `2^4`, two limbs, rank 1, `H = 2^62`:
every hypothesis on the ciphertext is discharged by evaluation, the key hypothesis is empty -/
example : ∃ (ErrL : Poly) (z : Ks.R (2 ^ 0)), ErrL.length = 2 ^ 0 ∧ normInf ErrL ≤ 0 ∧
    (2 ^ (4 * 2 + 4 * 3) * 2 ^ 0 : ℤ) • Ks.ι (2 ^ 0) (valP 4 (2 ^ 0) (phase [[1]] exCtT))
      = (2 ^ (4 * 2 + 4 * 3) : ℤ) • traceOp (2 ^ 0) [] (Ks.ι (2 ^ 0) (valP 4 (2 ^ 0) (phase [[1]] exCtT)))
        + Ks.ι (2 ^ 0) ErrL + (2 ^ (4 * 2 + 4 * 3) * 2 ^ 0 * 2 ^ (4 * 2) : ℤ) • z := by
  obtain ⟨_, _, _, _, _, ErrL, z, h1, h2, h3⟩ := glwe_trace_loop_decrypts false 0 0 0 rfl (by norm_num) [] [[1]] exCtT exCtT 3 (2 ^ 62)
    (fun _ => 0) (by intro p hp; simp at hp; subst hp; rfl) (by decide) C02.hr4 (by decide) (by show (2 : ℤ) ^ 4 - 1 ≤ 2 ^ 62; norm_num)
    (by
      intro c hc l hl x hx
      simp [exCtT, Ks.mkCt] at hc
      rcases hc with rfl | rfl <;> simp at hl <;> rcases hl with rfl | rfl <;> simp at hx <;> subst hx <;> norm_num)
    (fun i p key _ hm => absurd hm List.not_mem_nil) rfl
  exact ⟨ErrL, z, h1, by simpa using h2, h3⟩

end KsDec
