import Poulpy.Lemmas.ScratchOps
/-
Compositional facts `fits ∧ aligned ∧ reqA ≤ tmp_bytes` for the core operations' trees (each uses only
the facts of its callees), for `n % 8 = 0`.  Used by Props/C12.lean.
-/

namespace Scratch

theorem vmpList_facts (aSize : Nat) (k : K) (cin : Nat) (W : Nat)
    (hW : ∀ di < k.dsize, vmpTmp (min ((aSize + di) / k.dsize) k.dnum) k.dnum cin ≤ W) :
    let ts := (List.range k.dsize).map (fun di => treeVmp (min ((aSize + di) / k.dsize) k.dnum) k.dnum cin)
    fits (altList ts) = true ∧ aligned (altList ts) = true ∧ reqA (altList ts) ≤ W := by
  intro ts
  refine ⟨fits_altList ts ?_, aligned_altList ts ?_, reqA_altList_le W ts ?_⟩
  · intro t ht
    simp only [ts, List.mem_map, List.mem_range] at ht
    obtain ⟨di, _, rfl⟩ := ht
    simp [treeVmp]
  · intro t ht
    simp only [ts, List.mem_map, List.mem_range] at ht
    obtain ⟨di, _, rfl⟩ := ht
    simp [treeVmp]
  · intro t ht
    simp only [ts, List.mem_map, List.mem_range] at ht
    obtain ⟨di, hdi, rfl⟩ := ht
    simpa [treeVmp] using hW di hdi

theorem gglweProduct_facts (be : BE) (n aCols aSize resCols : Nat) (k : K) (hn : n % 8 = 0)
    (hc : aCols = k.rankIn) (hr : resCols = k.rankOut + 1) :
    fits (treeGglweProduct be n aCols aSize resCols k) = true ∧
    aligned (treeGglweProduct be n aCols aSize resCols k) = true ∧
    reqA (treeGglweProduct be n aCols aSize resCols k) ≤ tbGglweProduct be n aSize k := by
  subst hc hr
  unfold treeGglweProduct tbGglweProduct
  by_cases hd : k.dsize = 1
  · simp [hd, treeVmp, fits, aligned, reqA]
  · simp only [hd, if_false]
    have hl := vmpList_facts aSize k k.rankIn (vmpTmp (min (ceilDiv aSize k.dsize) k.dnum) k.dnum k.rankIn) (by
      intro di hdi
      apply vmpTmp_mono
      have := div_le_ceilDiv (a := aSize) hdi
      omega)
    obtain ⟨h1, h2, h3⟩ := hl
    have hD1 := dft_mod64 be hn k.rankIn (min (ceilDiv aSize k.dsize) k.dnum)
    have hD2 := dft_mod64 be hn (k.rankOut + 1) k.size
    refine ⟨by simp [fits, h1], by simp [aligned, h2, hD1, hD2], ?_⟩
    simp only [reqA]
    omega

theorem ksInternal_facts (be : BE) (n resCols : Nat) (a : G) (k : K) (hn : n % 8 = 0)
    (hc : a.rank = k.rankIn) (hr : resCols = k.rankOut + 1) :
    fits (treeKsInternal be n resCols a k) = true ∧ aligned (treeKsInternal be n resCols a k) = true ∧
    reqA (treeKsInternal be n resCols a k) ≤ tbKsInternal be n a k := by
  obtain ⟨h1, h2, h3⟩ := gglweProduct_facts be n a.rank a.size resCols k hn hc hr
  have hD := dft_mod64 be hn a.rank a.size
  unfold treeKsInternal tbKsInternal
  refine ⟨by simp [fits, h1], by simp [aligned, h2, hD], ?_⟩
  simp only [reqA]
  omega

theorem glweNormalize_facts (n : Nat) :
    fits (treeGlweNormalize n) = true ∧ aligned (treeGlweNormalize n) = true ∧ reqA (treeGlweNormalize n) = normTmp n := by
  simp [treeGlweNormalize, treeNormalize, fits, aligned, reqA, tbGlweNormalize]

theorem conv_rank (g : G) (b : Nat) : (g.conv b).rank = g.rank := rfl

theorem keyswitch_facts (be : BE) (n : Nat) (res a : G) (k : K) (hn : n % 8 = 0)
    (ha : a.rank = k.rankIn) (hres : res.rank = k.rankOut) :
    fits (treeGlweKeyswitch be n res a k) = true ∧ aligned (treeGlweKeyswitch be n res a k) = true ∧
    reqA (treeGlweKeyswitch be n res a k) ≤ tbGlweKeyswitch be n res a k := by
  have hD := dft_mod64 be hn (res.rank + 1) k.size
  have hG := gbytes_mod64 hn (a.conv k.b2k)
  obtain ⟨n1, n2, n3⟩ := glweNormalize_facts n
  have hlb := reqA_loop_le (res.rank + 1) (treeBigNormalize be n)
  have hla : aligned (loop (res.rank + 1) (treeBigNormalize be n)) = true := aligned_loop _ _ (by simp [treeBigNormalize])
  have hlf : fits (loop (res.rank + 1) (treeBigNormalize be n)) = true := fits_loop _ _ (by simp [treeBigNormalize])
  have hbn : reqA (treeBigNormalize be n) = bigNormTmp be n := by simp [treeBigNormalize]
  unfold treeGlweKeyswitch tbGlweKeyswitch
  by_cases hx : a.b2k ≠ k.b2k
  · obtain ⟨h1, h2, h3⟩ := ksInternal_facts be n (res.rank + 1) (a.conv k.b2k) k hn (by rw [conv_rank]; exact ha) (by rw [hres])
    simp only [if_pos hx]
    refine ⟨by simp [fits, h1, n1, hlf], by simp [aligned, h2, n2, hla, hD, hG], ?_⟩
    simp only [reqA, n3, tbGlweNormalize]
    omega
  · obtain ⟨h1, h2, h3⟩ := ksInternal_facts be n (res.rank + 1) a k hn ha (by rw [hres])
    simp only [if_neg hx]
    refine ⟨by simp [fits, h1, hlf], by simp [aligned, h2, hla, hD], ?_⟩
    simp only [reqA]
    omega

theorem ceilDiv_mul_self (s b : Nat) (hb : 0 < b) : ceilDiv (s * b) b = s := by
  unfold ceilDiv
  have : s * b + b - 1 = (b - 1) + b * s := by
    rw [Nat.mul_comm s b]; omega
  rw [this, Nat.add_mul_div_left _ _ hb, Nat.div_eq_of_lt (by omega)]
  omega

theorem ceilDiv_one (s : Nat) : ceilDiv s 1 = s := by simp [ceilDiv]


theorem vmpList_facts' (aSize : Nat) (k : K) (cin : Nat) (W : Nat)
    (hW : ∀ di < k.dsize, vmpTmp ((aSize + di) / k.dsize) k.dnum cin ≤ W) :
    let ts := (List.range k.dsize).map (fun di => treeVmp ((aSize + di) / k.dsize) k.dnum cin)
    fits (altList ts) = true ∧ aligned (altList ts) = true ∧ reqA (altList ts) ≤ W := by
  intro ts
  refine ⟨fits_altList ts ?_, aligned_altList ts ?_, reqA_altList_le W ts ?_⟩
  · intro t ht
    simp only [ts, List.mem_map, List.mem_range] at ht
    obtain ⟨di, _, rfl⟩ := ht
    simp [treeVmp]
  · intro t ht
    simp only [ts, List.mem_map, List.mem_range] at ht
    obtain ⟨di, _, rfl⟩ := ht
    simp [treeVmp]
  · intro t ht
    simp only [ts, List.mem_map, List.mem_range] at ht
    obtain ⟨di, hdi, rfl⟩ := ht
    simpa [treeVmp] using hW di hdi

theorem extInternal_facts (be : BE) (n resCols : Nat) (a : G) (k : K) (hn : n % 8 = 0)
    (hb : a.b2k = k.b2k) (hb0 : 0 < k.b2k) (hd : 1 ≤ k.dsize) (hr : resCols = k.rankOut + 1) :
    fits (treeExtInternal be n resCols a k) = true ∧ aligned (treeExtInternal be n resCols a k) = true ∧
    reqA (treeExtInternal be n resCols a k) ≤ tbExtInternal be n a k := by
  subst hr
  have hin : ceilDiv a.maxK k.b2k = a.size := by
    unfold G.maxK; rw [hb]; exact ceilDiv_mul_self _ _ hb0
  unfold treeExtInternal tbExtInternal
  simp only [hin]
  have hD1 := dft_mod64 be hn (k.rankOut + 1) (ceilDiv a.size k.dsize)
  have hD2 := dft_mod64 be hn (k.rankOut + 1) k.size
  by_cases h1 : k.dsize = 1
  · have hv : vmpTmp a.size k.dnum (k.rankOut + 1) ≤ vmpTmp a.size a.size (k.rankOut + 1) := by
      unfold vmpTmp
      have : 8 * min a.size k.dnum * (k.rankOut + 1) ≤ 8 * min a.size a.size * (k.rankOut + 1) :=
        Nat.mul_le_mul_right _ (Nat.mul_le_mul_left 8 (by omega))
      omega
    simp only [h1, if_true, ceilDiv_one, Nat.lt_irrefl, if_false]
    rw [h1, ceilDiv_one] at hD1
    refine ⟨by simp [treeVmp, fits], by simp [treeVmp, aligned, hD1], ?_⟩
    simp only [treeVmp, reqA_leaf, reqA]
    omega
  · have hgt : k.dsize > 1 := by omega
    simp only [h1, if_false, hgt, if_true]
    have hl := vmpList_facts' a.size k (k.rankOut + 1) (vmpTmp (ceilDiv a.size k.dsize) (ceilDiv a.size k.dsize) (k.rankOut + 1)) (by
      intro di hdi
      have h2 := div_le_ceilDiv (a := a.size) hdi
      unfold vmpTmp
      have : 8 * min ((a.size + di) / k.dsize) k.dnum * (k.rankOut + 1) ≤
          8 * min (ceilDiv a.size k.dsize) (ceilDiv a.size k.dsize) * (k.rankOut + 1) :=
        Nat.mul_le_mul_right _ (Nat.mul_le_mul_left 8 (by omega))
      omega)
    obtain ⟨f1, f2, f3⟩ := hl
    refine ⟨by simp [fits, f1], by simp [aligned, f2, hD1, hD2], ?_⟩
    simp only [reqA]
    omega

theorem externalProduct_facts (be : BE) (n : Nat) (res a : G) (k : K) (hn : n % 8 = 0)
    (hres : res.rank = k.rankOut) (hb0 : 0 < k.b2k) (hd : 1 ≤ k.dsize) :
    fits (treeGlweExternalProduct be n res a k) = true ∧ aligned (treeGlweExternalProduct be n res a k) = true ∧
    reqA (treeGlweExternalProduct be n res a k) ≤ tbGlweExternalProduct be n res a k := by
  have hD := dft_mod64 be hn (res.rank + 1) k.size
  have hG := gbytes_mod64 hn (a.conv k.b2k)
  obtain ⟨n1, n2, n3⟩ := glweNormalize_facts n
  have hlb := reqA_loop_le (res.rank + 1) (treeBigNormalize be n)
  have hla : aligned (loop (res.rank + 1) (treeBigNormalize be n)) = true := aligned_loop _ _ (by simp [treeBigNormalize])
  have hlf : fits (loop (res.rank + 1) (treeBigNormalize be n)) = true := fits_loop _ _ (by simp [treeBigNormalize])
  have hbn : reqA (treeBigNormalize be n) = bigNormTmp be n := by simp [treeBigNormalize]
  unfold treeGlweExternalProduct tbGlweExternalProduct
  by_cases hx : a.b2k ≠ k.b2k
  · obtain ⟨h1, h2, h3⟩ := extInternal_facts be n (res.rank + 1) (a.conv k.b2k) k hn rfl hb0 hd (by rw [hres])
    simp only [if_pos hx]
    refine ⟨by simp [fits, h1, n1, hlf], by simp [aligned, h2, n2, hla, hD, hG], ?_⟩
    simp only [reqA, n3, tbGlweNormalize]
    omega
  · have hx' : a.b2k = k.b2k := by simpa using hx
    obtain ⟨h1, h2, h3⟩ := extInternal_facts be n (res.rank + 1) a k hn hx' hb0 hd (by rw [hres])
    simp only [if_neg hx]
    refine ⟨by simp [fits, h1, hlf], by simp [aligned, h2, hla, hD], ?_⟩
    simp only [reqA]
    omega

theorem automorphism_facts (be : BE) (n : Nat) (res a : G) (k : K) (hn : n % 8 = 0)
    (ha : a.rank = k.rankIn) (hres : res.rank = k.rankOut) :
    fits (treeGlweAutomorphism be n res a k) = true ∧ aligned (treeGlweAutomorphism be n res a k) = true ∧
    reqA (treeGlweAutomorphism be n res a k) ≤ tbGlweAutomorphism be n res a k := by
  obtain ⟨h1, h2, h3⟩ := keyswitch_facts be n res a k hn ha hres
  have hlb := reqA_loop_le (res.rank + 1) (treeOneLimb n)
  have hla : aligned (loop (res.rank + 1) (treeOneLimb n)) = true := aligned_loop _ _ (by simp [treeOneLimb])
  have hlf : fits (loop (res.rank + 1) (treeOneLimb n)) = true := fits_loop _ _ (by simp [treeOneLimb])
  have hbn : reqA (treeOneLimb n) = oneLimbTmp n := by simp [treeOneLimb]
  unfold treeGlweAutomorphism tbGlweAutomorphism
  refine ⟨by simp [fits, h1, hlf], by simp [aligned, h2, hla], ?_⟩
  simp only [reqA]
  omega

theorem bigAuto_le_bigNorm (be : BE) (n : Nat) : bigAutoTmp be n ≤ bigNormTmp be n := by
  unfold bigAutoTmp bigNormTmp
  have : n * be.big ≤ 3 * n * be.big := Nat.mul_le_mul_right _ (by omega)
  exact this

theorem automorphismAdd_facts (be : BE) (n : Nat) (res a : G) (k : K) (hn : n % 8 = 0)
    (ha : a.rank = k.rankIn) (hres : res.rank = k.rankOut) :
    fits (treeGlweAutomorphismAdd be n res a k) = true ∧ aligned (treeGlweAutomorphismAdd be n res a k) = true ∧
    reqA (treeGlweAutomorphismAdd be n res a k) ≤ tbGlweAutomorphism be n res a k := by
  have hD := dft_mod64 be hn (res.rank + 1) k.size
  have hG := gbytes_mod64 hn (a.conv k.b2k)
  obtain ⟨n1, n2, n3⟩ := glweNormalize_facts n
  have hab := bigAuto_le_bigNorm be n
  have hlb : reqA (loop (res.rank + 1) (.alt (treeBigAuto be n) (treeBigNormalize be n))) ≤ bigNormTmp be n := by
    refine Nat.le_trans (reqA_loop_le _ _) ?_
    simp [reqA, treeBigAuto, treeBigNormalize]; omega
  have hla : aligned (loop (res.rank + 1) (.alt (treeBigAuto be n) (treeBigNormalize be n))) = true :=
    aligned_loop _ _ (by simp [aligned, treeBigAuto, treeBigNormalize])
  have hlf : fits (loop (res.rank + 1) (.alt (treeBigAuto be n) (treeBigNormalize be n))) = true :=
    fits_loop _ _ (by simp [fits, treeBigAuto, treeBigNormalize])
  unfold treeGlweAutomorphismAdd tbGlweAutomorphism tbGlweKeyswitch
  by_cases hx : a.b2k ≠ k.b2k
  · obtain ⟨h1, h2, h3⟩ := ksInternal_facts be n (res.rank + 1) (a.conv k.b2k) k hn (by rw [conv_rank]; exact ha) (by rw [hres])
    simp only [if_pos hx]
    refine ⟨by simp [fits, h1, n1, hlf], by simp [aligned, h2, n2, hla, hD, hG], ?_⟩
    simp only [reqA, n3, tbGlweNormalize]
    omega
  · obtain ⟨h1, h2, h3⟩ := ksInternal_facts be n (res.rank + 1) a k hn ha (by rw [hres])
    simp only [if_neg hx]
    refine ⟨by simp [fits, h1, hlf], by simp [aligned, h2, hla, hD], ?_⟩
    simp only [reqA]
    omega

theorem encSkInternal_facts (be : BE) (n size cols : Nat) (sub : Bool) (hn : n % 8 = 0) :
    fits (treeEncSkInternal be n size cols sub) = true ∧ aligned (treeEncSkInternal be n size cols sub) = true ∧
    reqA (treeEncSkInternal be n size cols sub) ≤ tbGlweEncryptSk be n size := by
  have hV := vec_mod64 hn 1 size
  have hD := dft_mod64 be hn 1 size
  have hN := norm_mod64 hn
  have hB := bignorm_mod64 be hn
  refine ⟨?_, ?_, ?_⟩
  · simp only [treeEncSkInternal, treeNormalize, treeBigNormalize, leaf, loop, fits]
    cases sub <;> split <;> simp [fits]
  · simp only [treeEncSkInternal, treeNormalize, treeBigNormalize, leaf, loop]
    cases sub <;> split <;> simp [aligned, reqA, hV, hD, hN, hB]
  · simp only [treeEncSkInternal, treeNormalize, treeBigNormalize, leaf, loop, tbGlweEncryptSk]
    generalize vecBytes n 1 size = V
    generalize dftBytes be n 1 size = D
    generalize normTmp n = N
    generalize bigNormTmp be n = B
    cases sub <;> split <;> simp only [reqA, Bool.false_eq_true, if_false, if_true] <;> omega

theorem glweEncryptSk_facts (be : BE) (n : Nat) (g : G) (hn : n % 8 = 0) :
    fits (treeGlweEncryptSk be n g) = true ∧ aligned (treeGlweEncryptSk be n g) = true ∧
    reqA (treeGlweEncryptSk be n g) ≤ tbGlweEncryptSk be n g.size := by
  obtain ⟨h1, h2, h3⟩ := encSkInternal_facts be n g.size (g.rank + 1) false hn
  unfold treeGlweEncryptSk
  refine ⟨by simp [fits, h1], by simp [aligned, h2], ?_⟩
  simp only [reqA]; omega

theorem gglweEncryptSk_facts (be : BE) (n : Nat) (k : K) (hn : n % 8 = 0) :
    fits (treeGglweEncryptSk be n k) = true ∧ aligned (treeGglweEncryptSk be n k) = true ∧
    reqA (treeGglweEncryptSk be n k) ≤ tbGgxEncryptSk be n k.size := by
  obtain ⟨h1, h2, h3⟩ := glweEncryptSk_facts be n ⟨k.rankOut, k.size, k.b2k⟩ hn
  have hV := vec_mod64 hn 1 k.size
  have hlb := reqA_loop_le (k.rankIn * k.dnum) (.alt (treeNormalize n) (treeGlweEncryptSk be n ⟨k.rankOut, k.size, k.b2k⟩))
  have hla : aligned (loop (k.rankIn * k.dnum) (.alt (treeNormalize n) (treeGlweEncryptSk be n ⟨k.rankOut, k.size, k.b2k⟩))) = true :=
    aligned_loop _ _ (by simp [aligned, treeNormalize, h2])
  have hlf : fits (loop (k.rankIn * k.dnum) (.alt (treeNormalize n) (treeGlweEncryptSk be n ⟨k.rankOut, k.size, k.b2k⟩))) = true :=
    fits_loop _ _ (by simp [fits, treeNormalize, h1])
  unfold treeGglweEncryptSk tbGgxEncryptSk
  refine ⟨by simp [fits, hlf], by simp [aligned, hla, hV], ?_⟩
  simp only [reqA, treeNormalize, reqA_leaf] at *
  omega

theorem ggswEncryptSk_facts (be : BE) (n : Nat) (k : K) (hn : n % 8 = 0) :
    fits (treeGgswEncryptSk be n k) = true ∧ aligned (treeGgswEncryptSk be n k) = true ∧
    reqA (treeGgswEncryptSk be n k) ≤ tbGgxEncryptSk be n k.size := by
  obtain ⟨f1, f2, f3⟩ := encSkInternal_facts be n k.size (k.rankOut + 1) false hn
  obtain ⟨t1, t2, t3⟩ := encSkInternal_facts be n k.size (k.rankOut + 1) true hn
  have hV := vec_mod64 hn 1 k.size
  have hl2 := reqA_loop_le k.rankOut (treeEncSkInternal be n k.size (k.rankOut + 1) true)
  have hl2a := aligned_loop k.rankOut _ t2
  have hl2f := fits_loop k.rankOut _ t1
  let body := AllocTree.alt (treeNormalize n)
      (.alt (treeEncSkInternal be n k.size (k.rankOut + 1) false) (loop k.rankOut (treeEncSkInternal be n k.size (k.rankOut + 1) true)))
  have hb : reqA body ≤ max (normTmp n) (tbGlweEncryptSk be n k.size) := by
    simp only [body, reqA, treeNormalize, reqA_leaf]; omega
  have hba : aligned body = true := by simp [body, aligned, treeNormalize, f2, hl2a]
  have hbf : fits body = true := by simp [body, fits, treeNormalize, f1, hl2f]
  have hlb := reqA_loop_le k.dnum body
  have hla := aligned_loop k.dnum body hba
  have hlf := fits_loop k.dnum body hbf
  show fits (.need _ (.take _ (loop k.dnum body))) = true ∧ aligned (.need _ (.take _ (loop k.dnum body))) = true ∧
    reqA (.need _ (.take _ (loop k.dnum body))) ≤ _
  unfold tbGgxEncryptSk
  refine ⟨by simp [fits, hlf], by simp [aligned, hla, hV], ?_⟩
  simp only [reqA]
  omega

/-- one line for every operation whose tree satisfies `fits ∧ aligned ∧ reqA ≤ tmp_bytes` -/
theorem ok_of_facts {t : AllocTree} {tb : Nat} (h : fits t = true ∧ aligned t = true ∧ reqA t ≤ tb) (a : Arena)
    (ha : tb ≤ a.available) : (run t a).isOk = true :=
  run_ok_of_aligned t h.1 h.2.1 a (Nat.le_trans h.2.2 ha)


/-! ### trace -/

theorem rsh_le_bigNorm (be : BE) (n : Nat) : rshTmp n ≤ bigNormTmp be n := by
  unfold rshTmp bigNormTmp
  cases be <;> simp only [BE.big] <;> omega

theorem tbAuto_ge_bigNorm (be : BE) (n : Nat) (res a : G) (k : K) : bigNormTmp be n ≤ tbGlweAutomorphism be n res a k := by
  unfold tbGlweAutomorphism tbGlweKeyswitch
  simp only
  omega

theorem traceLoop_facts (be : BE) (n iters : Nat) (res : G) (k : K) (hn : n % 8 = 0)
    (hin : res.rank = k.rankIn) (hout : res.rank = k.rankOut) :
    fits (treeTraceLoop be n iters res k) = true ∧ aligned (treeTraceLoop be n iters res k) = true ∧
    reqA (treeTraceLoop be n iters res k) ≤ tbGlweAutomorphism be n res res k := by
  obtain ⟨h1, h2, h3⟩ := automorphismAdd_facts be n res res k hn hin hout
  have hr := rsh_le_bigNorm be n
  have hb := tbAuto_ge_bigNorm be n res res k
  have hbody : reqA (AllocTree.alt (treeGlweRsh n) (treeGlweAutomorphismAdd be n res res k)) ≤ tbGlweAutomorphism be n res res k := by
    simp only [reqA, treeGlweRsh, treeRsh, reqA_leaf, tbGlweShift, lshTmp, rshTmp] at *
    omega
  unfold treeTraceLoop
  refine ⟨fits_loop _ _ (by simp [fits, treeGlweRsh, treeRsh, h1]), aligned_loop _ _ (by simp [aligned, treeGlweRsh, treeRsh, h2]), ?_⟩
  exact Nat.le_trans (reqA_loop_le _ _) hbody

theorem conv_b2k (g : G) (b : Nat) : (g.conv b).b2k = b := rfl

/-- `glwe_trace_assign`, same-radix and cross-radix -/
theorem traceAssign_facts (be : BE) (n iters : Nat) (res : G) (k : K) (hn : n % 8 = 0)
    (hin : res.rank = k.rankIn) (hout : res.rank = k.rankOut) :
    fits (treeGlweTraceAssign be n iters res k) = true ∧ aligned (treeGlweTraceAssign be n iters res k) = true ∧
    reqA (treeGlweTraceAssign be n iters res k) ≤ tbGlweTraceAssign be n res res k := by
  obtain ⟨n1, n2, n3⟩ := glweNormalize_facts n
  unfold treeGlweTraceAssign
  by_cases hx : res.b2k ≠ k.b2k
  · -- cross radix: one conversion, then the loop on the converted ciphertext
    obtain ⟨l1, l2, l3⟩ := traceLoop_facts be n iters (res.conv k.b2k) k hn (by rw [conv_rank]; exact hin) (by rw [conv_rank]; exact hout)
    have hG := gbytes_mod64 hn (res.conv k.b2k)
    have hbytes : vecBytes n (k.rankOut + 1) (ceilDiv (min res.maxK res.maxK) k.b2k) = (res.conv k.b2k).bytes n := by
      simp [G.bytes, G.conv, hout]
    have hrc : ¬ ((res.conv k.b2k).b2k ≠ k.b2k) := by simp [conv_b2k]
    simp only [if_pos hx]
    refine ⟨by simp [fits, n1, l1], by simp [aligned, n2, l2, hG], ?_⟩
    simp only [reqA, n3]
    -- the arithmetic: unfold the two formulas down to shared atoms
    have hD : dftBytes be n ((res.conv k.b2k).rank + 1) k.size = dftBytes be n (res.rank + 1) k.size := by rw [conv_rank]
    have hba := bigAuto_le_bigNorm be n
    have hOL : oneLimbTmp n ≤ normTmp n := by unfold oneLimbTmp normTmp; omega
    simp only [tbGlweTraceAssign, tbGlweAutomorphism, tbGlweKeyswitch, if_pos hx, if_neg hrc, hbytes, hD, tbGlweNormalize,
      Nat.lt_irrefl, if_false] at *
    generalize tbKsInternal be n (res.conv k.b2k) k = KI at *
    generalize G.bytes n (res.conv k.b2k) = RC at *
    generalize dftBytes be n (res.rank + 1) k.size = D at *
    generalize bigNormTmp be n = BN at *
    generalize bigAutoTmp be n = BA at *
    generalize oneLimbTmp n = OL at *
    generalize normTmp n = NT at *
    generalize reqA (treeTraceLoop be n iters (res.conv k.b2k) k) = L at *
    omega
  · obtain ⟨l1, l2, l3⟩ := traceLoop_facts be n iters res k hn hin hout
    simp only [if_neg hx]
    refine ⟨by simp [fits, l1], by simp [aligned, l2], ?_⟩
    simp only [reqA, tbGlweTraceAssign, if_neg hx, Nat.lt_irrefl, if_false]
    omega

theorem reqA_ite_norm (c : Prop) [Decidable c] (n : Nat) :
    reqA (if c then AllocTree.done else treeGlweNormalize n) ≤ normTmp n ∧
    aligned (if c then AllocTree.done else treeGlweNormalize n) = true ∧
    fits (if c then AllocTree.done else treeGlweNormalize n) = true := by
  obtain ⟨n1, n2, n3⟩ := glweNormalize_facts n
  split <;> simp [reqA, aligned, fits, n1, n2, n3]

/-- `glwe_trace` -/
theorem trace_facts (be : BE) (n iters : Nat) (res a : G) (k : K) (hn : n % 8 = 0)
    (hin : res.rank = k.rankIn) (hout : res.rank = k.rankOut) :
    fits (treeGlweTrace be n iters res a k) = true ∧ aligned (treeGlweTrace be n iters res a k) = true ∧
    reqA (treeGlweTrace be n iters res a k) ≤ tbGlweTrace be n res a k := by
  obtain ⟨t1, t2, t3⟩ := traceAssign_facts be n iters (traceTmp res a k) k hn hin hout
  obtain ⟨a1, a2, a3⟩ := reqA_ite_norm (a.b2k = k.b2k) n
  obtain ⟨r1, r2, r3⟩ := reqA_ite_norm (res.b2k = k.b2k) n
  have hG := gbytes_mod64 hn (traceTmp res a k)
  unfold treeGlweTrace tbGlweTrace
  refine ⟨by simp [fits, t1, a3, r3], by simp [aligned, t2, a2, r2, hG], ?_⟩
  simp only [reqA, tbGlweNormalize]
  omega

/-! ### poulpy-bin-fhe -/

theorem cmux_facts (be : BE) (n : Nat) (res : G) (k : K) (hn : n % 8 = 0)
    (hres : res.rank = k.rankOut) (hb : res.b2k = k.b2k) (hb0 : 0 < k.b2k) (hd : 1 ≤ k.dsize) :
    fits (treeCmux be n res k) = true ∧ aligned (treeCmux be n res k) = true ∧
    reqA (treeCmux be n res k) ≤ tbCmux be n res k := by
  obtain ⟨h1, h2, h3⟩ := extInternal_facts be n (res.rank + 1) res k hn hb hb0 hd (by rw [hres])
  have hD := dft_mod64 be hn (res.rank + 1) k.size
  have hlb := reqA_loop_le (res.rank + 1) (treeBigNormalize be n)
  have hla : aligned (loop (res.rank + 1) (treeBigNormalize be n)) = true := aligned_loop _ _ (by simp [treeBigNormalize])
  have hlf : fits (loop (res.rank + 1) (treeBigNormalize be n)) = true := fits_loop _ _ (by simp [treeBigNormalize])
  have hbn : reqA (treeBigNormalize be n) = bigNormTmp be n := by simp [treeBigNormalize]
  unfold treeCmux tbCmux
  rw [← hres]
  refine ⟨by simp [fits, h1, hlf], by simp [aligned, h2, hla, hD], ?_⟩
  simp only [reqA]
  omega

theorem takeMany_facts (b : Nat) (k : AllocTree) (hb : b % 64 = 0) (hf : fits k = true) (ha : aligned k = true) :
    ∀ c, fits (takeMany c b k) = true ∧ aligned (takeMany c b k) = true ∧ reqA (takeMany c b k) = c * b + reqA k := by
  intro c
  induction c with
  | zero => simp [takeMany, hf, ha]
  | succ c ih =>
    obtain ⟨i1, i2, i3⟩ := ih
    refine ⟨by simp [takeMany, fits, i1], by simp [takeMany, aligned, i2, hb], ?_⟩
    simp only [takeMany, reqA, i3, Nat.succ_mul]; omega

theorem tbExtInternal_mod64 (be : BE) (n : Nat) (a : G) (k : K) (hn : n % 8 = 0) : tbExtInternal be n a k % 64 = 0 := by
  unfold tbExtInternal
  have h1 := dft_mod64 be hn (k.rankOut + 1) (ceilDiv (ceilDiv a.maxK k.b2k) k.dsize)
  have h2 := dft_mod64 be hn (k.rankOut + 1) k.size
  have h3 := vmpTmp_mod64 (ceilDiv (ceilDiv a.maxK k.b2k) k.dsize) (ceilDiv (ceilDiv a.maxK k.b2k) k.dsize) (k.rankOut + 1)
  simp only
  split <;> omega

theorem tbExecBdd_mod64 (be : BE) (n state : Nat) (res : G) (k : K) (hn : n % 8 = 0) : tbExecBdd be n state res k % 64 = 0 := by
  unfold tbExecBdd tbCmux
  have h1 := gbytes_mod64 hn res
  have h2 := dft_mod64 be hn (k.rankOut + 1) k.size
  have h3 := tbExtInternal_mod64 be n res k hn
  have h4 := bignorm_mod64 be hn
  have h5 : (2 * state * res.bytes n) % 64 = 0 := by
    obtain ⟨m, hm⟩ := Nat.dvd_of_mod_eq_zero h1
    rw [hm, ← Nat.mul_assoc, Nat.mul_comm _ 64, Nat.mul_assoc]; exact Nat.mul_mod_right 64 _
  omega

theorem execBdd_ok (be : BE) (n threads state : Nat) (res : G) (k : K) (hn : n % 8 = 0)
    (hres : res.rank = k.rankOut) (hb : res.b2k = k.b2k) (hb0 : 0 < k.b2k) (hd : 1 ≤ k.dsize) (w : Arena)
    (h : threads * tbExecBdd be n state res k ≤ w.available) : (run (treeExecBdd be n threads state res k) w).isOk = true := by
  obtain ⟨c1, c2, c3⟩ := cmux_facts be n res k hn hres hb hb0 hd
  obtain ⟨t1, t2, t3⟩ := takeMany_facts (res.bytes n) (treeCmux be n res k) (gbytes_mod64 hn res) c1 c2 (2 * state)
  have hlen := tbExecBdd_mod64 be n state res k hn
  have hbody : req (treeEvalLevel be n state res k) ≤ tbExecBdd be n state res k := by
    refine Nat.le_trans (req_le_reqA_of_aligned _ t2) ?_
    unfold treeEvalLevel tbExecBdd
    rw [t3]; omega
  apply run_ok_of_aligned
  · simp only [treeExecBdd, fits, Bool.and_eq_true, Bool.or_eq_true, decide_eq_true_eq]
    exact ⟨⟨Or.inr hbody, t1⟩, trivial⟩
  · simp only [treeExecBdd, aligned, Bool.and_eq_true, Bool.or_eq_true, beq_iff_eq]
    exact ⟨⟨Or.inl hlen, t2⟩, trivial⟩
  · simp only [treeExecBdd, reqA]; omega

end Scratch
