import Poulpy.Lemmas.Fft64CnvPairNumeric
import Poulpy.Lemmas.Fft64CnvConst

namespace Fft64Cnv
open Hal Fft64

theorem w64_add_w64 (x y : Int) : w64 (w64 x + w64 y) = w64 (x + y) := by unfold w64; omega
theorem w64_w64 (x : Int) : w64 (w64 x) = w64 x := by unfold w64; omega
theorem w64_zero : w64 0 = 0 := by decide

theorem fold_w64 (f : Nat → Int) : ∀ (l : List Nat) (s : Int),
    l.foldl (fun acc t => w64 (acc + w64 (f t))) (w64 s) = w64 (s + (l.map f).sum) := by
  intro l
  induction l with
  | nil => intro s; simp
  | cons t ts ih =>
    intro s
    simp only [List.foldl_cons, List.map_cons, List.sum_cons]
    rw [w64_add_w64, ih (s + f t)]
    congr 1; ring

theorem foldl_polyAdd_getD (n i : Nat) : ∀ (l : List Poly) (S : Poly), S.length = n → (∀ p ∈ l, p.length = n) →
    (l.foldl polyAdd S).getD i 0 = S.getD i 0 + (l.map (fun p => p.getD i 0)).sum := by
  intro l
  induction l with
  | nil => intro S _ _; simp
  | cons p ps ih =>
    intro S hS hl
    simp only [List.foldl_cons, List.map_cons, List.sum_cons]
    have hp := hl p (by simp)
    rw [ih (polyAdd S p) (by unfold polyAdd; simp [hS, hp]) (fun q hq => hl q (by simp [hq]))]
    have : (polyAdd S p).getD i 0 = S.getD i 0 + p.getD i 0 :=
      zipWith_getD_same (fun x y : Int => x + y) 0 0 (by simp) S p (by rw [hS, hp]) i
    rw [this]; ring

theorem polyScale_getD' (c : Int) (x : Poly) (i : Nat) : (polyScale c x).getD i 0 = c * x.getD i 0 := by
  unfold polyScale
  by_cases h : i < x.length
  · simp [List.getD_eq_getElem?_getD, List.getElem?_map, List.getElem?_eq_getElem h]
  · simp [List.getD_eq_getElem?_getD, List.getElem?_map, List.getElem?_eq_none (Nat.not_lt.mp h)]

theorem list_eq_of_getD (l1 l2 : List Int) (h : l1.length = l2.length) (hg : ∀ i < l1.length, l1.getD i 0 = l2.getD i 0) : l1 = l2 := by
  apply List.ext_getElem h
  intro i h1 h2
  have := hg i h1
  simpa [List.getD_eq_getElem?_getD, List.getElem?_eq_getElem h1, List.getElem?_eq_getElem h2] using this

theorem limbOr0_len (n : Nat) (a : Col) (ha : ∀ l ∈ a, l.length = n) (j : Nat) : (limbOr0 n a j).length = n := by
  unfold limbOr0
  by_cases hj : j < a.length
  · have : a.getD j (zeroP n) = a[j] := by rw [List.getD_eq_getElem?_getD, List.getElem?_eq_getElem hj]; rfl
    rw [this]; exact ha _ (List.getElem_mem _)
  · have : a.getD j (zeroP n) = zeroP n := by rw [List.getD_eq_getElem?_getD, List.getElem?_eq_none (by omega)]; rfl
    rw [this]; simp [zeroP]

/-- **`cnv_by_const_apply` on FFT64Ref is the specification with the `i64` wrap**: wrapping every product and every partial sum
equals wrapping the exact sum once -/
theorem cnvByConst_ref_matches_spec (K rs off : Nat) (a : Col) (b : List Int) (h8 : ¬ (2 * 2 ^ K < 8))
    (ha : ∀ l ∈ a, l.length = 2 * 2 ^ K) (ha0 : a.length ≠ 0) (hb0 : b.length ≠ 0) :
    cnvByConst false K rs off a b = .ok (cnvByConstCol w64 (2 * 2 ^ K) rs off a b) := by
  unfold cnvByConst cnvByConstCol
  simp only [if_neg h8, if_neg ha0, if_neg (not_or.mpr ⟨ha0, hb0⟩)]
  congr 1
  apply List.map_congr_left
  intro k _
  split
  · simp only [ge_iff_le]
    split
    · rfl
    · set n := 2 * 2 ^ K with hn
      set kk := k + min off (a.length + b.length - 1) with hkk
      set jMin := kk - (a.length - 1) with hjMin
      set T := min (kk + 1) b.length - jMin with hT
      set L := (List.range T).map (fun t => polyScale (b.getD (jMin + t) 0) (limbOr0 n a (kk - (jMin + t)))) with hL
      have hLlen : ∀ p ∈ L, p.length = n := by
        intro p hp
        rw [hL] at hp
        simp only [List.mem_map, List.mem_range] at hp
        obtain ⟨t, _, rfl⟩ := hp
        unfold polyScale; rw [List.length_map]; exact limbOr0_len n a ha _
      have hslen : (sumPolys n L).length = n := by
        unfold sumPolys; exact foldl_polyAdd_length _ _ _ (by simp [zeroP]) hLlen
      apply list_eq_of_getD
      · simp [hslen]
      · intro i hi
        simp only [List.length_map, List.length_range] at hi
        rw [mapRange_getD _ _ _ _ hi]
        have e1 : ((sumPolys n L).map w64).getD i 0 = w64 ((sumPolys n L).getD i 0) := by
          by_cases h : i < (sumPolys n L).length
          · simp [List.getD_eq_getElem?_getD, List.getElem?_map, List.getElem?_eq_getElem h]
          · omega
        rw [e1]
        unfold sumPolys
        rw [foldl_polyAdd_getD n i L (zeroP n) (by simp [zeroP]) hLlen]
        have hz : (zeroP n).getD i 0 = 0 := by simp [zeroP, List.getD_eq_getElem?_getD, hi]
        rw [hz, hL, List.map_map]
        have := fold_w64 (fun t => (limbOr0 n a (kk - (jMin + t))).getD i 0 * b.getD (jMin + t) 0) (List.range T) 0
        rw [w64_zero] at this
        simp only [byConstTerm, Bool.false_eq_true, if_false]
        rw [this]
        simp only [zero_add]
        congr 2
        apply List.map_congr_left
        intro t _
        simp only [Function.comp]
        rw [polyScale_getD']; ring
  · rfl

end Fft64Cnv
