import Poulpy.Lemmas.Fft64CnvTop

namespace Fft64Cnv
open Hal

theorem lo32_id (x : Int) (h : -(2 ^ 31) ≤ x ∧ x < 2 ^ 31) : lo32 x = x := by unfold lo32; omega

theorem byConstTerm_avx_eq (a b : Int) (ha : -(2 ^ 31) ≤ a ∧ a < 2 ^ 31) (hb : -(2 ^ 31) ≤ b ∧ b < 2 ^ 31) :
    byConstTerm true a b = byConstTerm false a b := by
  unfold byConstTerm
  simp only [if_true, Bool.false_eq_true, if_false]
  rw [lo32_id a ha, lo32_id b hb]
  have h1 : -(2 ^ 62) ≤ a * b ∧ a * b ≤ 2 ^ 62 := by
    constructor <;> nlinarith [ha.1, ha.2, hb.1, hb.2]
  unfold w64; omega

/-- **FFT64Avx `cnv_by_const_apply` = FFT64Ref** when every operand fits in `i32` (what `_mm256_mul_epi32` needs) -/
theorem cnvByConst_avx_eq_ref (K rs off : Nat) (a : Col) (b : List Int)
    (ha : ∀ j i, -(2 ^ 31) ≤ (limbOr0 (2 * 2 ^ K) a j).getD i 0 ∧ (limbOr0 (2 * 2 ^ K) a j).getD i 0 < 2 ^ 31)
    (hb : ∀ j, -(2 ^ 31) ≤ b.getD j 0 ∧ b.getD j 0 < 2 ^ 31) :
    cnvByConst true K rs off a b = cnvByConst false K rs off a b := by
  unfold cnvByConst
  simp only [byConstTerm_avx_eq _ _ (ha _ _) (hb _)]

/-- …and differs beyond: a digit `3·10^9 ≥ 2^31` times the constant `3` (the witness replayed on the implementation) -/
theorem cnvByConst_avx_counterexample :
    cnvByConst true 2 1 0 [[3000000000, 1, -3000000000, 5, 6, 7, 8, 9]] [3] ≠
    cnvByConst false 2 1 0 [[3000000000, 1, -3000000000, 5, 6, 7, 8, 9]] [3] := by
  intro h
  have e1 : cnvByConst true 2 1 0 [[3000000000, 1, -3000000000, 5, 6, 7, 8, 9]] [3] = .ok [[-3884901888, 3, 3884901888, 15, 18, 21, 24, 27]] := by rfl
  have e2 : cnvByConst false 2 1 0 [[3000000000, 1, -3000000000, 5, 6, 7, 8, 9]] [3] = .ok [[9000000000, 3, -9000000000, 15, 18, 21, 24, 27]] := by rfl
  rw [e1, e2] at h
  injection h with h
  revert h; decide

end Fft64Cnv
