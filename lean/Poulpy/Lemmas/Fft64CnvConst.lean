import Poulpy.Lemmas.Fft64CnvTop

namespace Fft64Cnv
open Hal

theorem lo32_id (x : Int) (h : -(2 ^ 31) ≤ x ∧ x < 2 ^ 31) : lo32 x = x := by unfold lo32; omega

/-- the lane product before patch 34 agreed with `wrapping_mul` only on operands that fit in `i32` -/
theorem byConstTermOldLane_eq (a b : Int) (ha : -(2 ^ 31) ≤ a ∧ a < 2 ^ 31) (hb : -(2 ^ 31) ≤ b ∧ b < 2 ^ 31) :
    byConstTermOldLane a b = byConstTerm true a b := by
  unfold byConstTerm byConstTermOldLane
  rw [lo32_id a ha, lo32_id b hb]
  have h1 : -(2 ^ 62) ≤ a * b ∧ a * b ≤ 2 ^ 62 := by
    constructor <;> nlinarith [ha.1, ha.2, hb.1, hb.2]
  unfold w64; omega

/-- **FFT64Avx `cnv_by_const_apply` = FFT64Ref on ALL inputs** (after patch 34: both lanes are `wrapping_mul`) -/
theorem cnvByConst_avx_eq_ref (K rs off : Nat) (a : Col) (b : List Int) :
    cnvByConst true K rs off a b = cnvByConst false K rs off a b := rfl

/-- the OLD lane (`_mm256_mul_epi32`) on the witness of the repaired defect: a digit `3·10^9 ≥ 2^31` times the constant `3` -/
theorem byConstTermOldLane_counterexample :
    byConstTermOldLane 3000000000 3 = -3884901888 ∧ byConstTerm true 3000000000 3 = 9000000000 ∧
    byConstTermOldLane 3000000000 3 ≠ byConstTerm true 3000000000 3 := by decide

end Fft64Cnv
