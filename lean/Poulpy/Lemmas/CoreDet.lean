import Poulpy.Model.Core.Ops
import Mathlib.Tactic.Ring
import Mathlib.Tactic.Linarith

/-!
Determinacy / frame machinery for the core-level operations (`Core.Ops`): two runs of the same
operation from two previous contents of the result operand are related column set by column set.
-/

namespace C11Core
open Core Core.Ops

/-- two previous contents of a result operand with the same shape: same metadata, same number of
columns, column by column the same number of limbs -/
def SameShapeG (g₁ g₂ : GLWE) : Prop :=
  g₁.base2k = g₂.base2k ∧ g₁.k = g₂.k ∧ g₁.n = g₂.n ∧ g₁.cols.length = g₂.cols.length ∧
  ∀ i, (g₁.cols.getD i []).length = (g₂.cols.getD i []).length

theorem SameShapeG.rank {g₁ g₂ : GLWE} (h : SameShapeG g₁ g₂) : g₂.rank = g₁.rank := by
  unfold GLWE.rank; rw [h.2.2.2.1]

theorem SameShapeG.size {g₁ g₂ : GLWE} (h : SameShapeG g₁ g₂) : g₂.size = g₁.size := by
  unfold GLWE.size; exact (h.2.2.2.2 0).symm

/-- same shape, and equal on the columns in `W` -/
def Agree (L : Nat) (W : Nat → Prop) (g₁ g₂ : GLWE) : Prop :=
  SameShapeG g₁ g₂ ∧ g₁.cols.length = L ∧ ∀ i, W i → g₁.cols[i]? = g₂.cols[i]?

/-- relation lifted to outcomes: same kind of outcome, same error / panic class, related values -/
def ORel {α : Type} (R : α → α → Prop) : Outcome α → Outcome α → Prop
  | .ok a, .ok b => R a b
  | .err e, .err e' => e = e'
  | .panic c, .panic c' => c = c'
  | _, _ => False

theorem ORel.refl_of {α : Type} {R : α → α → Prop} (x : Outcome α) (h : ∀ a, R a a) : ORel R x x := by
  cases x <;> simp [ORel, h]

theorem ORel.bind {α β : Type} {R : α → α → Prop} {S : β → β → Prop} {x y : Outcome α} {f f' : α → Outcome β}
    (h : ORel R x y) (hf : ∀ a b, R a b → ORel S (f a) (f' b)) : ORel S (Ops.bind x f) (Ops.bind y f') := by
  cases x <;> cases y <;> simp_all [ORel, Ops.bind]

theorem ORel.check {α : Type} {R : α → α → Prop} {x y : Outcome α} (c : Bool) (h : ORel R x y) :
    ORel R (Ops.check c x) (Ops.check c y) := by
  unfold Ops.check; split
  · exact h
  · simp [ORel]

theorem ORel.mono {α : Type} {R S : α → α → Prop} {x y : Outcome α} (h : ORel R x y) (hRS : ∀ a b, R a b → S a b) :
    ORel S x y := by
  cases x <;> cases y <;> simp_all [ORel]

theorem ORel.eq {α : Type} {x y : Outcome α} (h : ORel (fun a b => a = b) x y) : x = y := by
  cases x <;> cases y <;> simp_all [ORel]

theorem agree_all_eq {L : Nat} {W : Nat → Prop} {g₁ g₂ : GLWE} (h : Agree L W g₁ g₂) (hW : ∀ i, i < L → W i) : g₁ = g₂ := by
  obtain ⟨⟨h1, h2, h3, h4, _⟩, hL, hc⟩ := h
  obtain ⟨b1, k1, n1, c1⟩ := g₁
  obtain ⟨b2, k2, n2, c2⟩ := g₂
  simp only at h1 h2 h3 h4 hc hL
  subst h1 h2 h3
  congr 1
  apply List.ext_getElem?
  intro i
  by_cases hi : i < c1.length
  · exact hc i (hW i (by omega))
  · rw [List.getElem?_eq_none (by omega), List.getElem?_eq_none (by omega)]

theorem Agree.weaken {L : Nat} {W W' : Nat → Prop} {g₁ g₂ : GLWE} (h : Agree L W g₁ g₂) (hw : ∀ i, W' i → W i) :
    Agree L W' g₁ g₂ :=
  ⟨h.1, h.2.1, fun i hi => h.2.2 i (hw i hi)⟩

/-- one HAL call whose kernel depends on the previous column only through its number of limbs:
column `i` joins the agreement set -/
theorem updCol_agree (i : Nat) (k : Col → Outcome Col) (hk : ∀ o₁ o₂ : Col, o₁.length = o₂.length → k o₁ = k o₂)
    {L : Nat} {W : Nat → Prop} {g₁ g₂ : GLWE} (h : Agree L W g₁ g₂) :
    ORel (Agree L (fun j => W j ∨ j = i)) (updCol i k g₁) (updCol i k g₂) := by
  obtain ⟨hs, hL, hc⟩ := h
  obtain ⟨h1, h2, h3, h4, h5⟩ := hs
  unfold updCol
  by_cases hi : i < g₁.cols.length
  · have hi2 : i < g₂.cols.length := by omega
    rw [List.getElem?_eq_getElem hi, List.getElem?_eq_getElem hi2]
    have hl : g₁.cols[i].length = g₂.cols[i].length := by
      have := h5 i
      simpa [List.getD_eq_getElem?_getD, List.getElem?_eq_getElem hi, List.getElem?_eq_getElem hi2] using this
    simp only
    rw [hk _ _ hl]
    cases hk2 : k g₂.cols[i] with
    | ok c =>
      simp only [Ops.bind, ORel]
      refine ⟨⟨h1, h2, h3, by simp [h4], ?_⟩, by simpa using hL, ?_⟩
      · intro j
        simp only [List.getD_eq_getElem?_getD, List.getElem?_set]
        by_cases hji : i = j
        · subst hji; simp [hi, hi2]
        · simp only [hji, if_false]
          have := h5 j
          simpa [List.getD_eq_getElem?_getD] using this
      · intro j hj
        simp only [List.getElem?_set]
        by_cases hji : i = j
        · subst hji; simp [hi, hi2]
        · simp only [hji, if_false]
          rcases hj with hj | hj
          · exact hc j hj
          · exact absurd hj.symm hji
    | err e => simp [Ops.bind, ORel]
    | panic c => simp [Ops.bind, ORel]
  · have hi2 : ¬ i < g₂.cols.length := by omega
    rw [List.getElem?_eq_none (by omega), List.getElem?_eq_none (by omega)]
    simp [ORel]

/-- a loop body that makes column `i` agree, whatever agreed before -/
def Overwrites (body : Nat → GLWE → Outcome GLWE) : Prop :=
  ∀ (i L : Nat) (W : Nat → Prop) (g₁ g₂ : GLWE), Agree L W g₁ g₂ →
    ORel (Agree L (fun j => W j ∨ j = i)) (body i g₁) (body i g₂)

theorem forCols_agree (body : Nat → GLWE → Outcome GLWE) (hb : Overwrites body) (cnt : Nat) :
    ∀ (lo L : Nat) (W : Nat → Prop) (g₁ g₂ : GLWE), Agree L W g₁ g₂ →
      ORel (Agree L (fun j => W j ∨ (lo ≤ j ∧ j < lo + cnt))) (forCols cnt lo body g₁) (forCols cnt lo body g₂) := by
  induction cnt with
  | zero =>
    intro lo L W g₁ g₂ h
    simp only [forCols, ORel]
    exact h.weaken (fun i hi => by rcases hi with h | h; exact h; omega)
  | succ cnt ih =>
    intro lo L W g₁ g₂ h
    simp only [forCols]
    apply ORel.bind (hb lo L W g₁ g₂ h)
    intro a b hab
    refine (ih (lo + 1) L _ a b hab).mono ?_
    intro x y hxy
    exact hxy.weaken (fun i hi => by
      rcases hi with h | h
      · exact Or.inl (Or.inl h)
      · by_cases e : i = lo
        · exact Or.inl (Or.inr e)
        · exact Or.inr (by omega))

theorem forRange_agree (body : Nat → GLWE → Outcome GLWE) (hb : Overwrites body) (lo hi : Nat)
    {L : Nat} {W : Nat → Prop} {g₁ g₂ : GLWE} (h : Agree L W g₁ g₂) :
    ORel (Agree L (fun j => W j ∨ (lo ≤ j ∧ j < hi))) (forRange lo hi body g₁) (forRange lo hi body g₂) := by
  unfold forRange
  refine (forCols_agree body hb (hi - lo) lo L W g₁ g₂ h).mono ?_
  intro x y hxy
  exact hxy.weaken (fun i hi' => by
    rcases hi' with h | h
    · exact Or.inl h
    · exact Or.inr (by omega))

/-- interval form: the loops of the operations write the columns in increasing order -/
theorem forRange_lt (body : Nat → GLWE → Outcome GLWE) (hb : Overwrites body) (lo hi m : Nat) (hlo : lo ≤ m)
    {L : Nat} {g₁ g₂ : GLWE} (h : Agree L (fun j => j < m) g₁ g₂) :
    ORel (Agree L (fun j => j < max m hi)) (forRange lo hi body g₁) (forRange lo hi body g₂) :=
  (forRange_agree body hb lo hi h).mono (fun _ _ hh => hh.weaken (fun i hi' => by
    by_cases h1 : i < m
    · exact Or.inl h1
    · exact Or.inr (by omega)))

/-- same, with the new bound chosen by the caller -/
theorem forRange_to (body : Nat → GLWE → Outcome GLWE) (hb : Overwrites body) (lo hi m m' : Nat)
    {L : Nat} {g₁ g₂ : GLWE} (h : Agree L (fun j => j < m) g₁ g₂) (hlo : lo ≤ m) (hm' : m' ≤ max m hi) :
    ORel (Agree L (fun j => j < m')) (forRange lo hi body g₁) (forRange lo hi body g₂) :=
  (forRange_lt body hb lo hi m hlo h).mono (fun _ _ hh => hh.weaken (fun i hi' => by omega))

theorem agree_start0 {g₁ g₂ : GLWE} (h : SameShapeG g₁ g₂) : Agree g₁.cols.length (fun j => j < 0) g₁ g₂ :=
  ⟨h, rfl, fun _ hf => absurd hf (by omega)⟩

/-! ### the loop bodies of the overwriting operations -/

theorem orel_same {α : Type} (x : Outcome α) : ORel (fun a b => a = b) x x := ORel.refl_of x (fun _ => rfl)

theorem overwrites_fromCol (a : GLWE) (K : Col → Col) : Overwrites (fromCol a K) := by
  intro i L W g₁ g₂ h
  unfold fromCol
  apply ORel.bind (orel_same (colOf a i))
  intro ai _ e; subst e
  exact updCol_agree i _ (fun _ _ _ => rfl) h

theorem overwrites_selfConst (c : Col) : Overwrites (selfCol (fun _ => c)) := by
  intro i L W g₁ g₂ h
  exact updCol_agree i _ (fun _ _ _ => rfl) h

/-- `withCol` with a kernel that reads the previous column only through its length (`vec_znx_lsh`) -/
theorem overwrites_withCol (a : GLWE) (K : Col → Col → Col) (hK : ∀ o₁ o₂ x : Col, o₁.length = o₂.length → K o₁ x = K o₂ x) :
    Overwrites (withCol a K) := by
  intro i L W g₁ g₂ h
  unfold withCol
  apply ORel.bind (orel_same (colOf a i))
  intro ai _ e; subst e
  exact updCol_agree i _ (fun o₁ o₂ hl => by rw [hK o₁ o₂ ai hl]) h

theorem overwrites_two (a b : GLWE) (K : Col → Col → Col) :
    Overwrites (fun i r => Ops.bind (colOf a i) (fun ai => Ops.bind (colOf b i) (fun bi =>
      updCol i (fun _ => .ok (K ai bi)) r))) := by
  intro i L W g₁ g₂ h
  apply ORel.bind (orel_same (colOf a i))
  intro ai _ e; subst e
  apply ORel.bind (orel_same (colOf b i))
  intro bi _ e; subst e
  exact updCol_agree i _ (fun _ _ _ => rfl) h

theorem overwrites_from? (a : GLWE) (K : Col → Outcome Col) :
    Overwrites (fun i r => Ops.bind (colOf a i) (fun ai => updCol i (fun _ => K ai) r)) := by
  intro i L W g₁ g₂ h
  apply ORel.bind (orel_same (colOf a i))
  intro ai _ e; subst e
  exact updCol_agree i _ (fun _ _ _ => rfl) h

theorem agree_start {g₁ g₂ : GLWE} (h : SameShapeG g₁ g₂) : Agree g₁.cols.length (fun _ => False) g₁ g₂ :=
  ⟨h, rfl, fun _ hf => hf.elim⟩

/-- closing step: an outcome pair related by agreement on a set that covers every column is equal -/
theorem ORel.close {L : Nat} {W : Nat → Prop} {x y : Outcome GLWE} (h : ORel (Agree L W) x y)
    (hW : ∀ i, i < L → W i) : x = y := by
  cases x <;> cases y <;> simp_all [ORel]
  exact agree_all_eq h hW

end C11Core
