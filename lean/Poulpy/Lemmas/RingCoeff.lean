import Poulpy.Model.Ring
import Mathlib.Tactic.Ring
import Mathlib.Tactic.Linarith

/-!
Negacyclic extension of a coefficient list and the facts every index-level theorem of C09 uses.
-/

/-- `P` is a set of scalars closed under the wrapped negation `x ↦ w (-x)`, on which that negation
is an involution (`i64` range for `w64`, `i128` range for `w128`, everything for `id`). -/
structure NegOn (w : Int → Int) (P : Int → Prop) : Prop where
  invol : ∀ x, P x → w (-(w (-x))) = x
  closed : ∀ x, P x → P (w (-x))
  zero : P 0
  wzero : w 0 = 0

def AllP (P : Int → Prop) (a : Poly) : Prop := ∀ x ∈ a, P x

/-- coefficient at `k ∈ ℤ` of the `2n`-antiperiodic extension of `a` (`X^n = -1`):
`a[k mod 2n]` if that index is below `n`, else `-a[k mod 2n - n]` -/
def coeffZ (w : Int → Int) (a : Poly) (k : Int) : Int :=
  let s := (k % (2 * (a.length : Int))).toNat
  if s < a.length then a.getD s 0 else w (-(a.getD (s - a.length) 0))

theorem coeffZ_of_lt (w : Int → Int) (a : Poly) (j : Nat) (hj : j < a.length) :
    coeffZ w a (j : Int) = a.getD j 0 := by
  unfold coeffZ
  have h : ((j : Int) % (2 * (a.length : Int))).toNat = j := by
    rw [Int.emod_eq_of_lt (by omega) (by omega)]; simp
  simp [h, hj]

theorem coeffZ_period (w : Int → Int) (a : Poly) (k : Int) :
    coeffZ w a (k + 2 * (a.length : Int)) = coeffZ w a k := by
  unfold coeffZ
  simp

theorem coeffZ_congr (w : Int → Int) (a : Poly) (k k' : Int)
    (h : k % (2 * (a.length : Int)) = k' % (2 * (a.length : Int))) : coeffZ w a k = coeffZ w a k' := by
  unfold coeffZ; rw [h]


theorem emod_shift (x m q : Int) (h0 : 0 ≤ x + m * q) (h1 : x + m * q < m) : x % m = x + m * q := by
  rw [← Int.add_mul_emod_self_left x m q]; exact Int.emod_eq_of_lt h0 h1

theorem sub_emod_emod (j p m : Int) : (j - p) % m = (j - p % m) % m := by
  rw [Int.sub_emod, Int.sub_emod j (p % m), Int.emod_emod_of_dvd p (dvd_refl m)]

/-- index/sign formula of `znx_rotate` on the coefficients `0 ≤ j < n` -/
theorem rotate_getD (w : Int → Int) (p : Int) (a : Poly) (j : Nat) (hj : j < a.length) :
    (znxRotateW w p a).getD j 0 = coeffZ w a ((j : Int) - p) := by
  have hn : (0 : Int) < a.length := by omega
  have hR0 : 0 ≤ p % (2 * (a.length : Int)) := Int.emod_nonneg _ (by omega)
  have hR1 : p % (2 * (a.length : Int)) < 2 * (a.length : Int) := Int.emod_lt_of_pos _ (by omega)
  obtain ⟨r, hr⟩ : ∃ r : Nat, (r : Int) = p % (2 * (a.length : Int)) := ⟨_, Int.toNat_of_nonneg hR0⟩
  have hr2 : r < 2 * a.length := by omega
  unfold coeffZ znxRotateW
  dsimp only
  rw [sub_emod_emod, ← hr]
  simp only [Int.toNat_natCast]
  by_cases h1 : r < a.length
  · have hm : r % a.length = r := Nat.mod_eq_of_lt h1
    simp only [hm, h1, if_true]
    by_cases h2 : j < r
    · have e : ((j : Int) - r) % (2 * (a.length : Int)) = ((j + 2 * a.length - r : Nat) : Int) := by
        rw [emod_shift _ _ 1 (by omega) (by omega)]; omega
      rw [e]; simp only [Int.toNat_natCast]
      have : ¬ (j + 2 * a.length - r < a.length) := by omega
      simp only [this, if_false, List.getD_eq_getElem?_getD, znxNegateW, List.getElem?_append, List.length_map,
        List.length_drop, List.getElem?_map, List.getElem?_drop]
      have h3 : j < a.length - (a.length - r) := by omega
      simp only [h3, if_true]
      have e2 : a.length - r + j = j + 2 * a.length - r - a.length := by omega
      rw [e2]
      have h4 : j + 2 * a.length - r - a.length < a.length := by omega
      simp [List.getElem?_eq_getElem h4]
    · have e : ((j : Int) - r) % (2 * (a.length : Int)) = ((j - r : Nat) : Int) := by
        rw [Int.emod_eq_of_lt (by omega) (by omega)]; omega
      rw [e]; simp only [Int.toNat_natCast]
      have : j - r < a.length := by omega
      simp only [this, if_true, List.getD_eq_getElem?_getD, znxNegateW, List.getElem?_append, List.length_map,
        List.length_drop, List.getElem?_take]
      have h3 : ¬ j < a.length - (a.length - r) := by omega
      simp only [h3, if_false]
      have e2 : j - (a.length - (a.length - r)) = j - r := by omega
      have h4 : j - r < a.length - r := by omega
      simp [e2, h4]
  · have hm : r % a.length = r - a.length := by
      rw [Nat.mod_eq_sub_mod (by omega), Nat.mod_eq_of_lt (by omega)]
    simp only [hm, h1, if_false]
    by_cases h2 : j < r - a.length
    · have e : ((j : Int) - r) % (2 * (a.length : Int)) = ((j + 2 * a.length - r : Nat) : Int) := by
        rw [emod_shift _ _ 1 (by omega) (by omega)]; omega
      rw [e]; simp only [Int.toNat_natCast]
      have : j + 2 * a.length - r < a.length := by omega
      simp only [this, if_true, List.getD_eq_getElem?_getD, znxNegateW, List.getElem?_append,
        List.length_drop, List.getElem?_drop]
      have h3 : j < a.length - (a.length - (r - a.length)) := by omega
      simp only [h3, if_true]
      have e2 : a.length - (r - a.length) + j = j + 2 * a.length - r := by omega
      rw [e2]
    · have e : ((j : Int) - r) % (2 * (a.length : Int)) = ((j + 2 * a.length - r : Nat) : Int) := by
        rw [emod_shift _ _ 1 (by omega) (by omega)]; omega
      rw [e]; simp only [Int.toNat_natCast]
      have : ¬ j + 2 * a.length - r < a.length := by omega
      simp only [this, if_false, List.getD_eq_getElem?_getD, znxNegateW, List.getElem?_append,
        List.length_drop, List.getElem?_map, List.getElem?_take]
      have h3 : ¬ j < a.length - (a.length - (r - a.length)) := by omega
      simp only [h3, if_false]
      have e2 : j - (a.length - (a.length - (r - a.length))) = j + 2 * a.length - r - a.length := by omega
      have h4 : j + 2 * a.length - r - a.length < a.length - (r - a.length) := by omega
      have h5 : j + 2 * a.length - r - a.length < a.length := by omega
      simp [e2, h4, List.getElem?_eq_getElem h5]

theorem getD_mem_P {P : Int → Prop} {a : Poly} (ha : AllP P a) (i : Nat) (hi : i < a.length) : P (a.getD i 0) := by
  rw [List.getD_eq_getElem?_getD, List.getElem?_eq_getElem hi]; exact ha _ (List.getElem_mem hi)

/-- antiperiodicity `X^n = -1` of the extension -/
theorem coeffZ_add_n {w : Int → Int} {P : Int → Prop} (hw : NegOn w P) (a : Poly) (ha : AllP P a)
    (hn : 0 < a.length) (k : Int) :
    coeffZ w a (k + (a.length : Int)) = w (-(coeffZ w a k)) := by
  have hS0 : 0 ≤ k % (2 * (a.length : Int)) := Int.emod_nonneg _ (by omega)
  have hS1 : k % (2 * (a.length : Int)) < 2 * (a.length : Int) := Int.emod_lt_of_pos _ (by omega)
  obtain ⟨s, hs⟩ : ∃ s : Nat, (s : Int) = k % (2 * (a.length : Int)) := ⟨_, Int.toNat_of_nonneg hS0⟩
  have e0 : (k + (a.length : Int)) % (2 * (a.length : Int)) = ((s : Int) + a.length) % (2 * (a.length : Int)) := by
    rw [hs, Int.emod_add_emod]
  unfold coeffZ
  dsimp only
  rw [e0, ← hs]
  simp only [Int.toNat_natCast]
  by_cases h1 : s < a.length
  · have e : ((s : Int) + a.length) % (2 * (a.length : Int)) = ((s + a.length : Nat) : Int) := by
      rw [Int.emod_eq_of_lt (by omega) (by omega)]; omega
    rw [e]; simp only [Int.toNat_natCast]
    have : ¬ s + a.length < a.length := by omega
    simp [this, h1]
  · have e : ((s : Int) + a.length) % (2 * (a.length : Int)) = ((s - a.length : Nat) : Int) := by
      rw [emod_shift _ _ (-1) (by omega) (by omega)]; omega
    rw [e]; simp only [Int.toNat_natCast]
    have h2 : s - a.length < a.length := by omega
    simp only [h2, h1, if_true, if_false]
    exact (hw.invol _ (getD_mem_P ha _ h2)).symm

theorem coeffZ_emod (w : Int → Int) (a : Poly) (k : Int) :
    coeffZ w a (k % (2 * (a.length : Int))) = coeffZ w a k :=
  coeffZ_congr w a _ _ (Int.emod_emod_of_dvd _ (dvd_refl _))

/-- two lists of the same length with the same extension on `[0, n)` are equal -/
theorem coeffZ_ext (w : Int → Int) (a b : Poly) (hl : a.length = b.length)
    (h : ∀ j : Nat, j < a.length → coeffZ w a j = coeffZ w b j) : a = b := by
  apply List.ext_getElem hl
  intro i h1 h2
  have := h i h1
  rw [coeffZ_of_lt w a i h1, coeffZ_of_lt w b i h2] at this
  simpa [List.getD_eq_getElem?_getD, List.getElem?_eq_getElem h1, List.getElem?_eq_getElem h2] using this

/-- a statement about all `k ∈ ℤ` follows from the window `[0, n)` when both sides are extensions of
lists of length `n` composed with shifts that respect `k ↦ k + n` and `k ↦ k + 2n` -/
theorem eq_of_window (n : Nat) (hn : 0 < n) (f g : Int → Int) (ng : Int → Int)
    (fper : ∀ k, f (k + 2 * (n : Int)) = f k) (gper : ∀ k, g (k + 2 * (n : Int)) = g k)
    (fanti : ∀ k, f (k + (n : Int)) = ng (f k)) (ganti : ∀ k, g (k + (n : Int)) = ng (g k))
    (h : ∀ j : Nat, j < n → f j = g j) (k : Int) : f k = g k := by
  have red : ∀ (F : Int → Int), (∀ k, F (k + 2 * (n : Int)) = F k) → ∀ k, F k = F (k % (2 * (n : Int))) := by
    intro F hF k
    have key : ∀ (m : Nat) (x : Int), F (x + 2 * (n : Int) * m) = F x := by
      intro m; induction m with
      | zero => intro x; simp
      | succ m ih => intro x; rw [show x + 2 * (n : Int) * ((m + 1 : Nat) : Int) = (x + 2 * (n : Int) * m) + 2 * (n : Int) by push_cast; ring, hF, ih]
    have hk : k = k % (2 * (n : Int)) + 2 * (n : Int) * (k / (2 * (n : Int))) := (Int.emod_add_mul_ediv k _).symm
    rcases Int.le_total 0 (k / (2 * (n : Int))) with hq | hq
    · obtain ⟨m, hm⟩ := Int.eq_ofNat_of_zero_le hq
      conv_lhs => rw [hk, hm]
      exact key m _
    · obtain ⟨m, hm⟩ := Int.eq_ofNat_of_zero_le (Int.neg_nonneg_of_nonpos hq)
      have : k % (2 * (n : Int)) = k + 2 * (n : Int) * m := by
        have : k / (2 * (n : Int)) = -(m : Int) := by omega
        rw [this] at hk; linarith
      rw [this, key m k]
  rw [red f fper k, red g gper k]
  have hS0 : 0 ≤ k % (2 * (n : Int)) := Int.emod_nonneg _ (by omega)
  have hS1 : k % (2 * (n : Int)) < 2 * (n : Int) := Int.emod_lt_of_pos _ (by omega)
  obtain ⟨s, hs⟩ : ∃ s : Nat, (s : Int) = k % (2 * (n : Int)) := ⟨_, Int.toNat_of_nonneg hS0⟩
  rw [← hs]
  by_cases h1 : s < n
  · exact h s h1
  · have : (s : Int) = ((s - n : Nat) : Int) + n := by omega
    rw [this, fanti, ganti, h (s - n) (by omega)]
