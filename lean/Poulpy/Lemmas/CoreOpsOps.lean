import Poulpy.Lemmas.CoreOpsLoop

/-!
Per-operation results for the linear and rotation families: under the API's own admissibility
conditions the operation succeeds, keeps the shape of `res`, and its phase is the operation applied
to the fitted phases of the operands — for every secret.
-/

namespace C02L
open Hal Core Core.Ops

/-! ### zero columns -/

theorem fit_nil_wf (N rs : Nat) : ColWF N rs (fit N rs []) := fit_wf (limbsN_nil N) rs

theorem zmap {N : Nat} {T : Poly → Poly} (hT : LinT N T) (rs : Nat) : (fit N rs []).map T = fit N rs [] := by
  rw [← fit_map hT]; rfl

theorem colAdd_zero_right {N rs : Nat} {x : Col} (hx : ColWF N rs x) : colAdd x (fit N rs []) = x := by
  apply col_ext (N := N)
  · simp [colAdd, hx.1]
  · intro j hj
    have hj' : j < rs := by simpa [colAdd, hx.1] using hj
    rw [colAdd_getD _ _ j (by rw [hx.1]; exact hj') (by simpa using hj'), fit_getD _ _ _ _ hj']
    simp only [List.getD_nil]
    exact polyAdd_zero_right _ N (wf_getD hx j)

theorem colAdd_comm (a b : Col) : colAdd a b = colAdd b a := by
  unfold colAdd
  rw [List.zipWith_comm]
  congr 1
  funext x y
  exact polyAdd_comm y x

theorem colAdd_zero_left {N rs : Nat} {x : Col} (hx : ColWF N rs x) : colAdd (fit N rs []) x = x := by
  rw [colAdd_comm, colAdd_zero_right hx]

theorem map_id' (c : Col) : c.map id = c := List.map_id c

/-! ### finishing lemmas -/

theorem un_finish {N : Nat} {T : Poly → Poly} (hT : LinT N T) {res a r' : GLWE} (hr : GWF N res) (ha : GWF N a)
    (hs : Same res r') (hrk : a.rank ≤ res.rank)
    (hcol : ∀ i, i ≤ res.rank → col r' i = (fit N res.size (col a i)).map T) :
    GWF N r' ∧ r'.size = res.size ∧ ∀ s, phase s r' = (fit N res.size (phase s a)).map T := by
  obtain ⟨hwf, hsz⟩ := gwf_of_cols hr hs (fun i hi => by
    rw [hcol i hi]; exact map_wf hT (fit_wf (ha.col_limbs i) _))
  refine ⟨hwf, hsz, fun s => ?_⟩
  have h := phase_un hT hwf ha (fun i => ?_) s
  · rw [hsz] at h; exact h
  · rw [hsz]
    by_cases hi : i ≤ res.rank
    · rw [hcol i hi, fit_self (by simp)]
    · rw [col_of_gt i (by rw [hs.2.2.2, hr.len]; omega), col_of_gt i (by rw [ha.len]; omega), zmap hT]

theorem bin_finish {N : Nat} {T1 T2 : Poly → Poly} (h1 : LinT N T1) (h2 : LinT N T2) {res x y r' : GLWE}
    (hr : GWF N res) (hx : GWF N x) (hy : GWF N y) (hs : Same res r') (hxr : x.rank ≤ res.rank) (hyr : y.rank ≤ res.rank)
    (hcol : ∀ i, i ≤ res.rank →
      col r' i = colAdd ((fit N res.size (col x i)).map T1) ((fit N res.size (col y i)).map T2)) :
    GWF N r' ∧ r'.size = res.size ∧
      ∀ s, phase s r' = colAdd ((fit N res.size (phase s x)).map T1) ((fit N res.size (phase s y)).map T2) := by
  obtain ⟨hwf, hsz⟩ := gwf_of_cols hr hs (fun i hi => by
    rw [hcol i hi]
    exact colAdd_wf (map_wf h1 (fit_wf (hx.col_limbs i) _)) (map_wf h2 (fit_wf (hy.col_limbs i) _)))
  refine ⟨hwf, hsz, fun s => ?_⟩
  have h := phase_bin h1 h2 hwf hx hy (fun i => ?_) s
  · rw [hsz] at h; exact h
  · rw [hsz]
    by_cases hi : i ≤ res.rank
    · rw [hcol i hi, fit_self (by simp [colAdd])]
    · rw [col_of_gt i (by rw [hs.2.2.2, hr.len]; omega), col_of_gt i (by rw [hx.len]; omega),
        col_of_gt i (by rw [hy.len]; omega), zmap h1, zmap h2, colAdd_zero_right (fit_nil_wf N _)]

theorem beq_true {α} [BEq α] [LawfulBEq α] {a b : α} (h : a = b) : (a == b) = true := by simp [h]

/-! ### out-of-place unary operations -/

/-- shared proof of the operations `for i in 0..a.rank+1 { res_i = K(a_i) }; for i in a.rank+1..res.rank+1 { res_i = 0 }` -/
theorem unary_loops {N : Nat} {T : Poly → Poly} (hT : LinT N T) (K : Col → Col) {res a : GLWE}
    (hr : GWF N res) (ha : GWF N a) (hrk : a.rank ≤ res.rank)
    (hK : ∀ i, i ≤ a.rank → K (col a i) = (fit N res.size (col a i)).map T) :
    ∃ r', bind (forRange 0 (a.rank + 1) (fromCol a K) res)
        (fun r1 => forRange (a.rank + 1) (res.rank + 1) (selfCol (fun _ => vecZero N res.size)) r1) = .ok r' ∧
      Same res r' ∧ GWF N r' ∧ r'.size = res.size ∧ ∀ s, phase s r' = (fit N res.size (phase s a)).map T := by
  obtain ⟨r1, e1, s1, c1⟩ := forRange_spec (fun i _ => K (col a i)) (fromCol a K) 0 (a.rank + 1) res
    (fun i r _ hi hl => fromCol_ok a K i r (by rw [ha.len]; exact hi) (by rw [hl, hr.len]; omega)) (by rw [hr.len]; omega)
  obtain ⟨r2, e2, s2, c2⟩ := forRange_spec (fun _ _ => vecZero N res.size) (selfCol (fun _ => vecZero N res.size))
    (a.rank + 1) (res.rank + 1) r1
    (fun i r _ hi hl => selfCol_ok _ i r (by rw [hl, s1.2.2.2, hr.len]; exact hi)) (by rw [s1.2.2.2, hr.len])
  have hs := s1.trans s2
  have hcol : ∀ i, i ≤ res.rank → col r2 i = (fit N res.size (col a i)).map T := by
    intro i hi
    rw [c2 i, c1 i]
    by_cases h : i < a.rank + 1
    · have h' : ¬ (a.rank + 1 ≤ i ∧ i < res.rank + 1) := by omega
      simp only [h', if_false, Nat.zero_le, true_and, h, if_true]
      exact hK i (by omega)
    · have h' : a.rank + 1 ≤ i ∧ i < res.rank + 1 := by omega
      simp only [h', and_self, if_true]
      rw [vecZero_nf, col_of_gt i (by rw [ha.len]; omega), zmap hT]
  obtain ⟨w, sz, ph⟩ := un_finish hT hr ha hs hrk hcol
  exact ⟨r2, by rw [e1]; exact e2, hs, w, sz, ph⟩

theorem rank_cases {res a : GLWE} (h : (res.rank == a.rank || a.rank == 0) = true) : a.rank ≤ res.rank := by
  simp at h; omega

/-- `glwe_copy` -/
theorem copy_ok {N : Nat} {res a : GLWE} (hr : GWF N res) (ha : GWF N a) (hb : res.base2k = a.base2k)
    (hrank : (res.rank == a.rank || a.rank == 0) = true) :
    ∃ r', glweCopy N res a = .ok r' ∧ Same res r' ∧ GWF N r' ∧ r'.size = res.size ∧
      ∀ s, phase s r' = fit N res.size (phase s a) := by
  have hrk := rank_cases hrank
  unfold glweCopy
  rw [check_true _ _ (beq_true hr.1), check_true _ _ (beq_true ha.1), check_true _ _ (beq_true hb), check_true _ _ hrank]
  have e : min res.rank a.rank + 1 = a.rank + 1 := by omega
  simp only [e]
  obtain ⟨r', h1, h2, h3, h4, h5⟩ := unary_loops (linT_id N) (vecCopy N res.size) hr ha hrk
    (fun i _ => by rw [vecCopy_nf, map_id'])
  exact ⟨r', h1, h2, h3, h4, fun s => by rw [h5 s, map_id']⟩

/-- `glwe_rotate` -/
theorem rotate_ok {N : Nat} (k : Int) {res a : GLWE} (hr : GWF N res) (ha : GWF N a) (sa : GSmall a)
    (hb : res.base2k = a.base2k) (hrank : (res.rank == a.rank || a.rank == 0) = true) :
    ∃ r', glweRotate N k res a = .ok r' ∧ Same res r' ∧ GWF N r' ∧ r'.size = res.size ∧
      ∀ s, phase s r' = (fit N res.size (phase s a)).map (rotP k) := by
  have hrk := rank_cases hrank
  unfold glweRotate
  rw [check_true _ _ (beq_true ha.1), check_true _ _ (beq_true hr.1), check_true _ _ (beq_true hb), check_true _ _ hrank]
  exact unary_loops (linT_rot N k) (vecRotate k N res.size) hr ha hrk (fun i _ => vecRotate_nf k _ _ (sa.col i))

/-- shared proof of `for i in 0..res.rank+1 { res_i = K(a_i) }` with equal ranks -/
theorem unary_loop_eq {N : Nat} {T : Poly → Poly} (hT : LinT N T) (K : Col → Col) {res a : GLWE}
    (hr : GWF N res) (ha : GWF N a) (hrk : a.rank = res.rank)
    (hK : ∀ i, i ≤ a.rank → K (col a i) = (fit N res.size (col a i)).map T) :
    ∃ r', forRange 0 (res.rank + 1) (fromCol a K) res = .ok r' ∧
      Same res r' ∧ GWF N r' ∧ r'.size = res.size ∧ ∀ s, phase s r' = (fit N res.size (phase s a)).map T := by
  obtain ⟨r1, e1, s1, c1⟩ := forRange_spec (fun i _ => K (col a i)) (fromCol a K) 0 (res.rank + 1) res
    (fun i r _ hi hl => fromCol_ok a K i r (by rw [ha.len]; omega) (by rw [hl, hr.len]; omega)) (by rw [hr.len])
  have hcol : ∀ i, i ≤ res.rank → col r1 i = (fit N res.size (col a i)).map T := by
    intro i hi
    rw [c1 i]
    have h : 0 ≤ i ∧ i < res.rank + 1 := by omega
    simp only [h, and_self, if_true]
    exact hK i (by omega)
  obtain ⟨w, sz, ph⟩ := un_finish hT hr ha s1 (by omega) hcol
  exact ⟨r1, e1, s1, w, sz, ph⟩

/-- `glwe_negate` -/
theorem negate_ok {N : Nat} {res a : GLWE} (hr : GWF N res) (ha : GWF N a) (sa : GSmall a)
    (hb : res.base2k = a.base2k) (hrank : a.rank = res.rank) :
    ∃ r', glweNegate N res a = .ok r' ∧ Same res r' ∧ GWF N r' ∧ r'.size = res.size ∧
      ∀ s, phase s r' = (fit N res.size (phase s a)).map polyNeg := by
  unfold glweNegate
  rw [check_true _ _ (beq_true ha.1), check_true _ _ (beq_true hr.1), check_true _ _ (beq_true hb),
    check_true _ _ (beq_true hrank)]
  exact unary_loop_eq (linT_neg N) (vecNegate N res.size) hr ha hrank (fun i _ => vecNegate_nf _ _ (sa.col i))

/-- `glwe_mul_xp_minus_one` -/
theorem mulXpMinusOne_ok {N : Nat} (k : Int) {res a : GLWE} (hr : GWF N res) (ha : GWF N a) (sa : GSmall a)
    (hb : res.base2k = a.base2k) (hrank : res.rank = a.rank) :
    ∃ r', glweMulXpMinusOne N k res a = .ok r' ∧ Same res r' ∧ GWF N r' ∧ r'.size = res.size ∧
      ∀ s, phase s r' = (fit N res.size (phase s a)).map (mxpP k) := by
  unfold glweMulXpMinusOne
  rw [check_true _ _ (beq_true hr.1), check_true _ _ (beq_true ha.1), check_true _ _ (beq_true hb),
    check_true _ _ (beq_true hrank)]
  exact unary_loop_eq (linT_mxp N k) (vecMulXpMinusOne k N res.size) hr ha hrank.symm
    (fun i _ => vecMulXpMinusOne_nf k _ _ (ha.col_limbs i) (sa.col i))

/-! ### in-place unary operations -/

theorem selfmap_loop {N : Nat} {T : Poly → Poly} (hT : LinT N T) (K : Col → Col) {res : GLWE} (hr : GWF N res)
    (hK : ∀ i, i ≤ res.rank → K (col res i) = (col res i).map T) :
    ∃ r', forRange 0 (res.rank + 1) (selfCol K) res = .ok r' ∧
      Same res r' ∧ GWF N r' ∧ r'.size = res.size ∧ ∀ s, phase s r' = (phase s res).map T := by
  obtain ⟨r1, e1, s1, c1⟩ := forRange_spec (fun _ c => K c) (selfCol K) 0 (res.rank + 1) res
    (fun i r _ hi hl => selfCol_ok K i r (by rw [hl, hr.len]; omega)) (by rw [hr.len])
  have hcol : ∀ i, i ≤ res.rank → col r1 i = (fit N res.size (col res i)).map T := by
    intro i hi
    rw [c1 i]
    have h : 0 ≤ i ∧ i < res.rank + 1 := by omega
    simp only [h, and_self, if_true]
    rw [hK i hi, fit_self (hr.col_wf i hi).1]
  obtain ⟨w, sz, ph⟩ := un_finish hT hr hr s1 (Nat.le_refl _) hcol
  exact ⟨r1, e1, s1, w, sz, fun s => by rw [ph s, fit_self (phase_wf hr s).1]⟩

/-- `glwe_negate_assign` -/
theorem negateAssign_ok {N : Nat} {res : GLWE} (hr : GWF N res) (sr : GSmall res) :
    ∃ r', glweNegateAssign N res = .ok r' ∧ Same res r' ∧ GWF N r' ∧ r'.size = res.size ∧
      ∀ s, phase s r' = (phase s res).map polyNeg := by
  unfold glweNegateAssign
  rw [check_true _ _ (beq_true hr.1)]
  exact selfmap_loop (linT_neg N) _ hr (fun i _ => vecNegateAssign_nf _ (sr.col i))

/-- `glwe_rotate_assign` -/
theorem rotateAssign_ok {N : Nat} (k : Int) {res : GLWE} (hr : GWF N res) (sr : GSmall res) :
    ∃ r', glweRotateAssign N k res = .ok r' ∧ Same res r' ∧ GWF N r' ∧ r'.size = res.size ∧
      ∀ s, phase s r' = (phase s res).map (rotP k) := by
  unfold glweRotateAssign
  exact selfmap_loop (linT_rot N k) _ hr (fun i _ => vecRotateAssign_nf k _ (sr.col i))

/-- `glwe_mul_xp_minus_one_assign` -/
theorem mulXpMinusOneAssign_ok {N : Nat} (k : Int) {res : GLWE} (hr : GWF N res) (sr : GSmall res) :
    ∃ r', glweMulXpMinusOneAssign N k res = .ok r' ∧ Same res r' ∧ GWF N r' ∧ r'.size = res.size ∧
      ∀ s, phase s r' = (phase s res).map (mxpP k) := by
  unfold glweMulXpMinusOneAssign
  rw [check_true _ _ (beq_true hr.1)]
  exact selfmap_loop (linT_mxp N k) _ hr (fun i _ => vecMulXpMinusOneAssign_nf k _ (sr.col i))

end C02L
