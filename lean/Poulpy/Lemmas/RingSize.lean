import Poulpy.Lemmas.RingCoeff

/-! The documented size rule of the vec-level operations, limb by limb. -/

section seg
variable {α : Type}

theorem seg3_left (L1 L2 L3 : List α) (j : Nat) (h : j < L1.length) : (L1 ++ L2 ++ L3)[j]? = L1[j]? := by
  rw [List.append_assoc, List.getElem?_append_left h]

theorem seg3_mid (L1 L2 L3 : List α) (j : Nat) (h1 : L1.length ≤ j) (h2 : j < L1.length + L2.length) :
    (L1 ++ L2 ++ L3)[j]? = L2[j - L1.length]? := by
  rw [List.append_assoc, List.getElem?_append_right h1, List.getElem?_append_left (by omega)]

theorem seg3_right (L1 L2 L3 : List α) (j : Nat) (h : L1.length + L2.length ≤ j) :
    (L1 ++ L2 ++ L3)[j]? = L3[j - L1.length - L2.length]? := by
  rw [List.append_assoc, List.getElem?_append_right (by omega), List.getElem?_append_right (by omega)]

theorem zipTake_length (f : α → α → α) (a b : List α) (s : Nat) (ha : s ≤ a.length) (hb : s ≤ b.length) :
    (List.zipWith f (a.take s) (b.take s)).length = s := by
  simp; omega

theorem zipTake_get (f : α → α → α) (a b : List α) (s j : Nat) (hj : j < s) (ha : s ≤ a.length) (hb : s ≤ b.length) :
    (List.zipWith f (a.take s) (b.take s))[j]? = some (f (a[j]'(by omega)) (b[j]'(by omega))) := by
  rw [List.getElem?_zipWith, List.getElem?_take, List.getElem?_take, if_pos hj,
    List.getElem?_eq_getElem (show j < a.length by omega), List.getElem?_eq_getElem (show j < b.length by omega)]
  simp [hj]

theorem dropTake_length (b : List α) (s c : Nat) (hc : c ≤ b.length) : ((b.take c).drop s).length = c - s := by
  simp; omega

theorem dropTake_get (b : List α) (s c i : Nat) (hc : c ≤ b.length) (hi : s + i < c) :
    ((b.take c).drop s)[i]? = some (b[s + i]'(by omega)) := by
  rw [List.getElem?_drop, List.getElem?_take, if_pos hi, List.getElem?_eq_getElem]

end seg

/-- shape shared by negate / rotate / automorphism / switch_ring / copy -/
theorem unary_rule {α : Type} (f : α → α) (z : α) (resSize : Nat) (a : List α) (j : Nat) (hj : j < resSize) :
    ((a.take (min resSize a.length)).map f ++ List.replicate (resSize - min resSize a.length) z)[j]?
      = some (match a[j]? with | some x => f x | none => z) := by
  by_cases h : j < a.length
  · rw [List.getElem?_append_left (by simp; omega), List.getElem?_map, List.getElem?_take, if_pos (by omega),
      List.getElem?_eq_getElem h]
    rfl
  · rw [List.getElem?_append_right (by simp; omega), List.getElem?_replicate, List.getElem?_eq_none (by omega)]
    simp only [List.length_map, List.length_take]
    rw [if_pos (by omega)]

theorem unary_length {α : Type} (f : α → α) (z : α) (resSize : Nat) (a : List α) :
    ((a.take (min resSize a.length)).map f ++ List.replicate (resSize - min resSize a.length) z).length = resSize := by
  simp

/-- shape shared by add / sub (`gA`, `gB`: what happens to the longer operand's extra limbs) -/
def binCol {α : Type} (f : α → α → α) (gA gB : α → α) (z : α) (resSize : Nat) (a b : List α) : List α :=
  if a.length ≤ b.length then
    List.zipWith f (a.take (min a.length resSize)) (b.take (min a.length resSize))
      ++ ((b.take (min b.length resSize)).drop (min a.length resSize)).map gB
      ++ List.replicate (resSize - min b.length resSize) z
  else
    List.zipWith f (a.take (min b.length resSize)) (b.take (min b.length resSize))
      ++ ((a.take (min a.length resSize)).drop (min b.length resSize)).map gA
      ++ List.replicate (resSize - min a.length resSize) z

theorem binCol_length {α : Type} (f : α → α → α) (gA gB : α → α) (z : α) (resSize : Nat) (a b : List α) :
    (binCol f gA gB z resSize a b).length = resSize := by
  unfold binCol; split <;> simp <;> omega

theorem binCol_rule {α : Type} (f : α → α → α) (gA gB : α → α) (z : α) (resSize : Nat) (a b : List α) (j : Nat)
    (hj : j < resSize) :
    (binCol f gA gB z resSize a b)[j]? = some (match a[j]?, b[j]? with
      | some x, some y => f x y
      | some x, none => gA x
      | none, some y => gB y
      | none, none => z) := by
  unfold binCol
  split
  · rename_i hab
    generalize hs : min a.length resSize = s
    generalize hc : min b.length resSize = c
    have l1 := zipTake_length f a b s (by omega) (by omega)
    have l2 : (((b.take c).drop s).map gB).length = c - s := by rw [List.length_map, dropTake_length b s c (by omega)]
    by_cases h1 : j < a.length
    · rw [seg3_left _ _ _ _ (by omega), zipTake_get f a b s j (by omega) (by omega) (by omega),
        List.getElem?_eq_getElem (show j < a.length by omega), List.getElem?_eq_getElem (show j < b.length by omega)]
    · by_cases h2 : j < b.length
      · rw [seg3_mid _ _ _ _ (by omega) (by omega), List.getElem?_map, l1,
          dropTake_get b s c (j - s) (by omega) (by omega), List.getElem?_eq_none (l := a) (by omega)]
        have e : s + (j - s) = j := by omega
        simp only [e, List.getElem?_eq_getElem h2, Option.map_some]
      · rw [seg3_right _ _ _ _ (by omega), List.getElem?_replicate, if_pos (by omega),
          List.getElem?_eq_none (l := a) (by omega), List.getElem?_eq_none (l := b) (by omega)]
  · rename_i hab
    generalize hs : min b.length resSize = s
    generalize hc : min a.length resSize = c
    have l1 := zipTake_length f a b s (by omega) (by omega)
    have l2 : (((a.take c).drop s).map gA).length = c - s := by rw [List.length_map, dropTake_length a s c (by omega)]
    by_cases h1 : j < b.length
    · rw [seg3_left _ _ _ _ (by omega), zipTake_get f a b s j (by omega) (by omega) (by omega),
        List.getElem?_eq_getElem (show j < a.length by omega), List.getElem?_eq_getElem (show j < b.length by omega)]
    · by_cases h2 : j < a.length
      · rw [seg3_mid _ _ _ _ (by omega) (by omega), List.getElem?_map, l1,
          dropTake_get a s c (j - s) (by omega) (by omega), List.getElem?_eq_none (l := b) (by omega)]
        have e : s + (j - s) = j := by omega
        simp only [e, List.getElem?_eq_getElem h2, Option.map_some]
      · rw [seg3_right _ _ _ _ (by omega), List.getElem?_replicate, if_pos (by omega),
          List.getElem?_eq_none (l := a) (by omega), List.getElem?_eq_none (l := b) (by omega)]

/-- shape shared by the `_assign` forms: `res` keeps its size; limbs present in `a` are combined,
the others go through `h` -/
def assignCol {α : Type} (f : α → α → α) (h : α → α) (res a : List α) : List α :=
  List.zipWith f (res.take (min a.length res.length)) (a.take (min a.length res.length))
    ++ (res.drop (min a.length res.length)).map h

theorem assignCol_length {α : Type} (f : α → α → α) (h : α → α) (res a : List α) :
    (assignCol f h res a).length = res.length := by
  unfold assignCol; simp

theorem assignCol_rule {α : Type} (f : α → α → α) (h : α → α) (res a : List α) (j : Nat) :
    (assignCol f h res a)[j]? = (res[j]?).map (fun r => match a[j]? with | some x => f r x | none => h r) := by
  unfold assignCol
  generalize hs : min a.length res.length = s
  have l1 := zipTake_length f res a s (by omega) (by omega)
  by_cases hr : j < res.length
  · by_cases ha : j < a.length
    · rw [List.getElem?_append_left (by omega), zipTake_get f res a s j (by omega) (by omega) (by omega),
        List.getElem?_eq_getElem hr, List.getElem?_eq_getElem ha]
      rfl
    · rw [List.getElem?_append_right (by omega), List.getElem?_map, List.getElem?_drop, l1]
      have e : s + (j - s) = j := by omega
      rw [e, List.getElem?_eq_getElem hr, List.getElem?_eq_none (l := a) (by omega)]
  · rw [List.getElem?_eq_none (by simp; omega), List.getElem?_eq_none (l := res) (by omega)]
    rfl

/-! ### the model's operations are instances of the three shapes -/

theorem vecAddW_eq (w : Int → Int) (n resSize : Nat) (a b : Col) :
    vecAddW w n resSize a b = binCol (znxAddW w) id id (znxZero n) resSize a b := by
  unfold vecAddW binCol; simp only [List.map_id]

theorem vecSubW_eq (w : Int → Int) (n resSize : Nat) (a b : Col) :
    vecSubW w n resSize a b = binCol (znxSubW w) id (znxNegateW w) (znxZero n) resSize a b := by
  unfold vecSubW binCol; simp only [List.map_id]

theorem vecAddAssignW_eq (w : Int → Int) (res a : Col) :
    vecAddAssignW w res a = assignCol (znxAddW w) id res a := by
  unfold vecAddAssignW assignCol; simp only [List.map_id]

theorem vecSubAssignW_eq (w : Int → Int) (res a : Col) :
    vecSubAssignW w res a = assignCol (znxSubW w) id res a := by
  unfold vecSubAssignW assignCol; simp only [List.map_id]

theorem vecSubNegateAssignW_eq (w : Int → Int) (res a : Col) :
    vecSubNegateAssignW w res a = assignCol (fun r x => znxSubW w x r) (znxNegateW w) res a := by
  unfold vecSubNegateAssignW assignCol
  dsimp only
  rw [List.zipWith_comm]

/-! ### the NTT120 big-accumulator twins follow the same rule -/

theorem take_drop_self {α : Type} (l : List α) (s : Nat) : (l.take s).drop s = [] :=
  List.drop_eq_nil_of_le (by simp)

theorem ntt120BigAdd_eq (n resSize : Nat) (a b : Col) : ntt120BigAdd n resSize a b = vecAddW w128 n resSize a b := by
  unfold ntt120BigAdd vecAddW
  by_cases h : a.length ≤ b.length
  · simp only [h, if_true, Nat.min_eq_left h]
  · have h' : b.length ≤ a.length := by omega
    simp only [h, if_false, Nat.min_eq_right h']

theorem ntt120BigSub_eq (n resSize : Nat) (a b : Col) : ntt120BigSub n resSize a b = vecSubW w128 n resSize a b := by
  unfold ntt120BigSub vecSubW
  rcases Nat.lt_trichotomy a.length b.length with h | h | h
  · have h1 : a.length ≤ b.length := by omega
    have h2 : ¬ a.length ≥ b.length := by omega
    simp only [h1, h2, if_true, if_false, Nat.min_eq_left h1]
  · have hba : b.length = a.length := h.symm
    simp only [hba, Nat.min_self, ge_iff_le, Nat.le_refl, if_true, take_drop_self, List.map_nil]
  · have h1 : ¬ a.length ≤ b.length := by omega
    have h2 : a.length ≥ b.length := by omega
    simp only [h1, h2, if_true, if_false, Nat.min_eq_right h2]

theorem ntt120BigAddSmall_eq (n resSize : Nat) (a b : Col) :
    ntt120BigAddSmall n resSize a b = vecAddW w128 n resSize a b := by
  unfold ntt120BigAddSmall vecAddW
  by_cases h : a.length ≤ b.length
  · have hm : max (min a.length resSize) (min b.length resSize) = min b.length resSize := by omega
    simp only [h, if_true, Nat.min_eq_left h, take_drop_self, List.append_nil, hm]
  · have h' : b.length ≤ a.length := by omega
    have hm : max (min a.length resSize) (min b.length resSize) = min a.length resSize := by omega
    have hd : ((b.take (min b.length resSize)).drop (min a.length resSize)) = [] :=
      List.drop_eq_nil_of_le (by simp; omega)
    simp only [h, if_false, Nat.min_eq_right h', hd, List.append_nil, hm]

theorem ntt120BigSubSmallB_eq (n resSize : Nat) (a b : Col) :
    ntt120BigSubSmallB n resSize a b = vecSubW w128 n resSize a b := by
  unfold ntt120BigSubSmallB vecSubW
  by_cases h : a.length ≤ b.length
  · have hm : max (min a.length resSize) (min b.length resSize) = min b.length resSize := by omega
    simp only [h, if_true, Nat.min_eq_left h, take_drop_self, List.append_nil, hm]
  · have h' : b.length ≤ a.length := by omega
    have hm : max (min a.length resSize) (min b.length resSize) = min a.length resSize := by omega
    have hd : ((b.take (min b.length resSize)).drop (min a.length resSize)) = [] :=
      List.drop_eq_nil_of_le (by simp; omega)
    simp only [h, if_false, Nat.min_eq_right h', hd, List.map_nil, List.append_nil, hm]

theorem ntt120BigSubSmallA_eq (n resSize : Nat) (a b : Col) :
    ntt120BigSubSmallA n resSize a b = vecSubW w128 n resSize a b := by
  unfold ntt120BigSubSmallA vecSubW
  by_cases h : a.length ≤ b.length
  · have hm : max (min a.length resSize) (min b.length resSize) = min b.length resSize := by omega
    have hs : max (min a.length resSize) (min a.length resSize) = min a.length resSize := by omega
    simp only [h, if_true, Nat.min_eq_left h, take_drop_self, List.append_nil, hm, hs]
  · have h' : b.length ≤ a.length := by omega
    have hm : max (min a.length resSize) (min b.length resSize) = min a.length resSize := by omega
    have hs : max (min b.length resSize) (min a.length resSize) = min a.length resSize := by omega
    have hd : ((b.take (min b.length resSize)).drop (min a.length resSize)) = [] :=
      List.drop_eq_nil_of_le (by simp; omega)
    simp only [h, if_false, Nat.min_eq_right h', hd, List.map_nil, List.append_nil, hm, hs]

theorem ntt120BigSubNegateAssign_eq (res a : Col) :
    ntt120BigSubNegateAssign res a = vecSubNegateAssignW w128 res a := by
  unfold ntt120BigSubNegateAssign vecSubNegateAssignW
  dsimp only
  rw [Nat.min_comm res.length a.length]
  by_cases h : a.length ≤ res.length
  · rw [Nat.min_eq_left h]
  · have h1 : res.drop a.length = [] := List.drop_eq_nil_of_le (by omega)
    have h2 : res.drop (min a.length res.length) = [] := List.drop_eq_nil_of_le (by omega)
    rw [h1, h2]
