import Poulpy.Lemmas.BlindExec
import Poulpy.Lemmas.CmuxMachine
import Poulpy.Lemmas.RingNu
import Poulpy.Lemmas.BlkMachine

/-!
The executed block of `execute_block_binary` (`Core.Blind.bbBlock`) satisfies the block contract of the blind-rotation machine:
`phase(acc') = (1 + Σ_j s_j·(X^{a_j} − 1))·phase(acc) + Σ_j (X^{a_j} − 1)·e_j + u` in `ℤ[X]/(X^N+1)` modulo `2^(b·rs+b·S)`,
`‖e_j‖ ≤ B` (the gadget error of `C04`, read on coefficient lists), `‖u‖ ≤ U` (the normalisation of the block).
-/

namespace BlindMachine
open Noise Hal Core Core.Blind C04 KsDec Ks BlindExec CmuxMachine TraceJump Finset

variable {R : Type} [CommRing R]

/-- a weighted `Finset` sum of list sums, exchanged -/
theorem sum_list_comm {α : Type} (n : ℕ) (w : ℕ → R) (c : α → R) (f : ℕ → α → R) (ts : List α) :
    ∑ i ∈ range n, w i * (ts.map (fun t => c t * f i t)).sum = (ts.map (fun t => c t * ∑ i ∈ range n, w i * f i t)).sum := by
  induction ts with
  | nil => simp
  | cons t rest ih =>
    simp only [List.map_cons, List.sum_cons, mul_add, Finset.sum_add_distrib, ih]
    congr 1
    rw [Finset.mul_sum]
    apply Finset.sum_congr rfl
    intro i _; ring

theorem sum_list_comm' {α : Type} (n : ℕ) (w : ℕ → R) (c : α → R) (f : ℕ → α → R) (ts : List α) :
    ∑ i ∈ range n, (ts.map (fun t => c t * f i t)).sum * w i = (ts.map (fun t => c t * ∑ i ∈ range n, f i t * w i)).sum := by
  have := sum_list_comm n w c f ts
  simp only [mul_comm (w _)] at this
  exact this

/-- the phase of one limb across the columns with the weights `σ_0 = 1`, `σ_{i+1} = s_i` -/
theorem ι_phaseRow_σ (p : Par) (hN : 0 < p.N) (hsk : p.rank ≤ p.sk.length) (Rw : List Poly) (hlen : Rw.length = p.rank + 1)
    (hR : ∀ x ∈ Rw, x.length = p.N) :
    Ks.ι p.N (Ks.phaseRow p.sk Rw) = ∑ i ∈ range (p.rank + 1), p.σ i * Ks.ι p.N (Rw.getD i []) := by
  cases Rw with
  | nil => simp at hlen
  | cons b ms =>
    have hms : ms.length = p.rank := by simpa using hlen
    rw [Core.ι_phaseRow p.N hN p.sk b ms (hR b (by simp)) (fun m hm => hR m (by simp [hm])), hms, Nat.min_eq_right hsk,
      Finset.sum_range_succ']
    simp only [Par.σ, List.getD_cons_zero, List.getD_cons_succ, Nat.add_sub_cancel, if_true, one_mul, Nat.succ_ne_zero, if_false]
    rw [add_comm]

/-- the zero column of `acc_add_dft` -/
def zcol (N S : Nat) : Col := List.replicate S (zeroP N)

theorem zcol_wf (N S : Nat) : C02L.ColWF N S (zcol N S) := by
  refine ⟨by simp [zcol], ?_⟩
  intro x hx
  simp only [zcol, List.mem_replicate] at hx
  rw [hx.2]; simp [zeroP]

theorem ι_limb_zcol (N S l : Nat) : Ks.ι N (limbOr0 N (zcol N S) l) = 0 := by
  unfold limbOr0 zcol
  by_cases hl : l < S
  · rw [List.getD_eq_getElem?_getD, List.getElem?_replicate, if_pos hl]; exact Ks.ι_zero N N
  · rw [List.getD_eq_getElem?_getD, List.getElem?_replicate, if_neg hl]; exact Ks.ι_zero N N

/-- the columns of `acc_add_dft` after a block whose terms are `(k_t, V_t)` (`V_t` the `rank+1` columns of `vmp_res`) -/
def addCols (N S cols : Nat) (ts : List (Nat × List Col)) : List Col :=
  (List.range cols).map (fun i => foldCol N S (zcol N S) (ts.map (fun t => (t.1, t.2.getD i []))))

/-- value of a big accumulator (columns of `S` limbs) under the secret: `Σ_l phase(limb l)·β^{S−1−l}` -/
noncomputable def bigVal (p : Par) (P : List Col) : Ks.R p.N :=
  ∑ l ∈ range p.S, Ks.ι p.N (Ks.phaseRow p.sk (P.map (fun col => limbOr0 p.N col l))) * ((2 : Ks.R p.N) ^ p.b) ^ (p.S - 1 - l)

theorem getD_wf {N S : Nat} (V : List Col) (hV : ∀ c ∈ V, C02L.ColWF N S c) (i : Nat) (hi : i < V.length) : C02L.ColWF N S (V.getD i []) := by
  rw [List.getD_eq_getElem?_getD, List.getElem?_eq_getElem hi]; exact hV _ (List.getElem_mem hi)

theorem map_limb_getD (N : Nat) (V : List Col) (l i : Nat) (hi : i < V.length) :
    (V.map (fun col => limbOr0 N col l)).getD i [] = limbOr0 N (V.getD i []) l := by
  simp [List.getD_eq_getElem?_getD, List.getElem?_eq_getElem hi]

/-- one limb of the accumulated sum -/
theorem limb_addCols (p : Par) (hN : 0 < p.N) (hsk : p.rank ≤ p.sk.length) (ts : List (Nat × List Col))
    (hk : ∀ t ∈ ts, t.1 < 2 * p.N) (hlen : ∀ t ∈ ts, t.2.length = p.rank + 1) (hwf : ∀ t ∈ ts, ∀ c ∈ t.2, C02L.ColWF p.N p.S c)
    (l : Nat) (hl : l < p.S) :
    Ks.ι p.N (Ks.phaseRow p.sk ((addCols p.N p.S (p.rank + 1) ts).map (fun col => limbOr0 p.N col l)))
      = (ts.map (fun t => (rt p.N ^ t.1 - 1) * Ks.ι p.N (Ks.phaseRow p.sk (t.2.map (fun col => limbOr0 p.N col l))))).sum := by
  have hcolwf : ∀ i, i < p.rank + 1 → ∀ t ∈ ts.map (fun t => (t.1, t.2.getD i [])), C02L.ColWF p.N p.S t.2 := by
    intro i hi t ht
    obtain ⟨u, hu, rfl⟩ := List.mem_map.mp ht
    exact getD_wf u.2 (hwf u hu) i (by rw [hlen u hu]; exact hi)
  have hcolk : ∀ i, ∀ t ∈ ts.map (fun t => (t.1, t.2.getD i [])), t.1 < 2 * p.N := by
    intro i t ht
    obtain ⟨u, hu, rfl⟩ := List.mem_map.mp ht
    exact hk u hu
  have hAl : (addCols p.N p.S (p.rank + 1) ts).length = p.rank + 1 := by simp [addCols]
  have hA : ∀ x ∈ (addCols p.N p.S (p.rank + 1) ts).map (fun col => limbOr0 p.N col l), x.length = p.N := by
    intro x hx
    obtain ⟨c, hc, rfl⟩ := List.mem_map.mp hx
    obtain ⟨i, hi, rfl⟩ := List.mem_map.mp hc
    exact limbOr0_length_of_wf (foldCol_wf p.N p.S _ (hcolwf i (List.mem_range.mp hi)) _ (zcol_wf p.N p.S)) l
  rw [ι_phaseRow_σ p hN hsk _ (by rw [List.length_map, hAl]) hA]
  have hterm : ∀ i ∈ range (p.rank + 1), p.σ i * Ks.ι p.N (((addCols p.N p.S (p.rank + 1) ts).map (fun col => limbOr0 p.N col l)).getD i [])
      = p.σ i * (ts.map (fun t => (rt p.N ^ t.1 - 1) * Ks.ι p.N (limbOr0 p.N (t.2.getD i []) l))).sum := by
    intro i hi
    have hi' := Finset.mem_range.mp hi
    rw [map_limb_getD _ _ _ _ (by rw [hAl]; exact hi')]
    have hg : (addCols p.N p.S (p.rank + 1) ts).getD i [] = foldCol p.N p.S (zcol p.N p.S) (ts.map (fun t => (t.1, t.2.getD i []))) := by
      unfold addCols; exact mapRange_getD _ _ _ _ hi'
    rw [hg, ι_foldCol p.N p.S hN _ (hcolwf i hi') (hcolk i) l hl _ (zcol_wf p.N p.S), ι_limb_zcol, zero_add, List.map_map]
    congr 1
  rw [Finset.sum_congr rfl hterm, sum_list_comm]
  congr 1
  apply List.map_congr_left
  intro t ht
  have hB : ∀ x ∈ t.2.map (fun col => limbOr0 p.N col l), x.length = p.N := by
    intro x hx
    obtain ⟨c, hc, rfl⟩ := List.mem_map.mp hx
    exact limbOr0_length_of_wf (hwf t ht c hc) l
  rw [ι_phaseRow_σ p hN hsk _ (by rw [List.length_map, hlen t ht]) hB]
  congr 1
  apply Finset.sum_congr rfl
  intro i hi
  rw [map_limb_getD _ _ _ _ (by rw [hlen t ht]; exact Finset.mem_range.mp hi)]

/-- **the accumulated sum is linear in the terms**: `bigVal(Σ_t (X^{k_t} − 1)·V_t) = Σ_t (X^{k_t} − 1)·bigVal(V_t)` -/
theorem bigVal_addCols (p : Par) (hN : 0 < p.N) (hsk : p.rank ≤ p.sk.length) (ts : List (Nat × List Col))
    (hk : ∀ t ∈ ts, t.1 < 2 * p.N) (hlen : ∀ t ∈ ts, t.2.length = p.rank + 1) (hwf : ∀ t ∈ ts, ∀ c ∈ t.2, C02L.ColWF p.N p.S c) :
    bigVal p (addCols p.N p.S (p.rank + 1) ts) = (ts.map (fun t => (rt p.N ^ t.1 - 1) * bigVal p t.2)).sum := by
  unfold bigVal
  have h := sum_list_comm' (R := Ks.R p.N) p.S (fun l => ((2 : Ks.R p.N) ^ p.b) ^ (p.S - 1 - l)) (fun t : Nat × List Col => rt p.N ^ t.1 - 1)
    (fun l t => Ks.ι p.N (Ks.phaseRow p.sk (t.2.map (fun col => limbOr0 p.N col l)))) ts
  beta_reduce at h
  rw [← h]
  apply Finset.sum_congr rfl
  intro l hl
  rw [limb_addCols p hN hsk ts hk hlen hwf l (Finset.mem_range.mp hl)]

/-! ### one key bit: the value of `vmp_res` -/

/-- side conditions of the block-binary loop (all decidable): accumulator and key in one radix, `rs ≤ S` accumulator limbs, `dnum ≤ S` key rows
(when `rs > dnum` the tail limbs of the accumulator are not multiplied: they enter the error, `tailL`), `dsize = 1`, head-room of the big
accumulator for blocks of at most `L` key bits -/
def BrOk (p : Par) (L : Nat) : Prop :=
  0 < p.N ∧ 1 ≤ p.b ∧ p.b ≤ 60 ∧ 1 ≤ p.rs ∧ p.rs ≤ p.S ∧ p.dnum ≤ p.S ∧ p.dsize = 1 ∧ p.rank ≤ p.sk.length ∧ 0 ≤ p.Dm ∧ 0 ≤ p.BE ∧
  (L : Int) * (2 * prodBound 1 (p.rank + 1) p.dnum p.N p.Hin p.Dm) + p.Hin + 8 ≤ 2 ^ (bitsOf p.big128 - 2)

instance (p : Par) (L : Nat) : Decidable (BrOk p L) := by unfold BrOk; infer_instance

/-- the phase of a ciphertext of the loop at the common scale `2^(b·S)`, in `ℤ[X]/(X^N+1)` -/
noncomputable def phR (p : Par) (c : List Col) : Ks.R p.N :=
  (2 : Ks.R p.N) ^ (p.b * p.S) * Ks.ι p.N (C02L.valP p.b p.N (Core.Ops.phase p.sk (Ks.mkCt p.b p.N c)))

/-- the accumulator as `vmp_apply_dft_to_dft` reads it -/
def outT (p : Par) (out : List Col) : List Col := accT p.N (p.rank + 1) p.dnum out

/-- the gadget error of one key bit as a coefficient list (C03's `errL` through `EpGGSW.toKey`) -/
def bitErrL (p : Par) (out : List Col) (x : GBit p.N) : Poly :=
  Ks.errL p.N p.b (mkBuf p.N (p.rank + 1) p.dnum (outT p out)) x.g.toKey x.EL

/-- the multiple of `β^S` that the key relation leaves (`head` of the gadget decomposition and the `K` part of the key error) -/
noncomputable def bitHead (p : Par) (out : List Col) (x : GBit p.N) : Ks.R p.N :=
  ∑ i ∈ range (p.rank + 1),
    (Gadget.head ((2 : Ks.R p.N) ^ p.b) p.dsize p.dnum p.dnum (Ks.inLimb p.N (mkBuf p.N (p.rank + 1) p.dnum (outT p out)) i)
        (Ks.keyPhase p.N p.sk x.g.toPMat i)
      - ∑ r ∈ range p.dnum, Gadget.digit ((2 : Ks.R p.N) ^ p.b) p.dsize p.dnum p.dnum
          (Ks.inLimb p.N (mkBuf p.N (p.rank + 1) p.dnum (outT p out)) i) r * x.K i r)

theorem wfC_limbs (p : Par) (out : List Col) (h : WfC p out) (j : Nat) : C02L.LimbsN p.N (out.getD j []) :=
  shapeOk_limbs p.N (p.rank + 1) p.rs out h.1 j

theorem outT_shape (p : Par) (out : List Col) (h : WfC p out) : shapeOk p.N (p.rank + 1) p.dnum (outT p out) = true :=
  accT_shape p.N (p.rank + 1) p.dnum out (fun j _ => wfC_limbs p out h j)

theorem outT_len0 (p : Par) (out : List Col) (h : WfC p out) : ((outT p out).getD 0 []).length = p.dnum :=
  wf_of_shapeOk' _ _ _ _ (outT_shape p out h) 0 (Nat.succ_pos _)

theorem outT_bound (p : Par) (hH : 0 ≤ p.Hin) (out : List Col) (h : WfC p out) : ∀ c ∈ outT p out, ∀ l ∈ c, ∀ y ∈ l, |y| ≤ p.Hin := by
  intro c hc
  obtain ⟨j, _, rfl⟩ := List.mem_map.mp hc
  exact fit_bound p.N p.dnum _ p.Hin hH (getD_bound out p.Hin h.2 j)

theorem Hin_nonneg (p : Par) : 0 ≤ p.Hin := by
  unfold Par.Hin; have : (1 : Int) ≤ 2 ^ p.b := one_le_pow₀ (by norm_num); linarith

/-- the limbs of the accumulator that `vmp_apply_dft_to_dft` does not read (limbs `≥ dnum` of every column; the zero list when `rs ≤ dnum`), as
ONE coefficient list at the scale of the `rs` limbs: C03's `truncL` -/
def tailL (p : Par) (out : List Col) : Poly :=
  KsDec.truncL p.N p.b (min p.rs p.dnum) (min p.rs p.dnum) p.sk p.rank (Ks.mkCt p.b p.N out)

theorem col_cut (N b S rs dnum : Nat) (c : Col) (hc : C02L.ColWF N rs c) (hrs : rs ≤ S) (hd : dnum ≤ S) :
    ((2 : Ks.R N) ^ b) ^ (S - dnum) * Ks.ι N (C02L.valP b N (C02L.fit N dnum c))
      = ((2 : Ks.R N) ^ b) ^ (S - rs) * (Ks.ι N (C02L.valP b N c) - Ks.ι N (C02L.valP b N (c.drop (min rs dnum)))) := by
  have h1 := KsDec.col_used_value N b dnum (min rs dnum) c hc.2 (by rw [hc.1]; exact Nat.min_le_left _ _) (Nat.min_le_right _ _)
  have h2 := KsDec.ι_valP_fit_gen N b dnum c hc.2
  rw [hc.1] at h1 h2
  rw [← h2, Ks.radix_eq] at h1
  by_cases h : dnum ≤ rs
  · have e1 : dnum - rs = 0 := by omega
    rw [e1, pow_zero, one_mul] at h1
    have e2 : ((2 : Ks.R N) ^ b) ^ (S - dnum) = ((2 : Ks.R N) ^ b) ^ (S - rs) * ((2 : Ks.R N) ^ b) ^ (rs - dnum) := by
      rw [← pow_add]; congr 1; omega
    rw [e2, mul_assoc, h1]
  · have e1 : rs - dnum = 0 := by omega
    rw [e1, pow_zero, one_mul] at h1
    have e2 : ((2 : Ks.R N) ^ b) ^ (S - rs) = ((2 : Ks.R N) ^ b) ^ (S - dnum) * ((2 : Ks.R N) ^ b) ^ (dnum - rs) := by
      rw [← pow_add]; congr 1; omega
    rw [e2, mul_assoc, h1]

/-- the phase of the accumulator as the product reads it, against the phase of the accumulator: `β^{S−dnum}·phase(acc|dnum) = β^{S−rs}·(phase(acc) − ι(tailL))` -/
theorem outT_phase (p : Par) (hN : 0 < p.N) (hsk : p.rank ≤ p.sk.length) (hrs : p.rs ≤ p.S) (hd : p.dnum ≤ p.S) (out : List Col) (hout : WfC p out) :
    ((2 : Ks.R p.N) ^ p.b) ^ (p.S - p.dnum) * Ks.ι p.N (C02L.valP p.b p.N (Core.Ops.phase p.sk (Ks.mkCt p.b p.N (outT p out))))
      = ((2 : Ks.R p.N) ^ p.b) ^ (p.S - p.rs)
          * (Ks.ι p.N (C02L.valP p.b p.N (Core.Ops.phase p.sk (Ks.mkCt p.b p.N out))) - Ks.ι p.N (tailL p out)) := by
  have hol : out.length = p.rank + 1 := (wf_of_shapeOk p.N _ _ _ hout.1).1
  have hne : out ≠ [] := by intro h; rw [h] at hol; simp at hol
  have hwf := (wf_of_shapeOk p.N _ _ _ hout.1).2
  have hsh := outT_shape p out hout
  have hTl : (outT p out).length = p.rank + 1 := (wf_of_shapeOk p.N _ _ _ hsh).1
  have hTne : outT p out ≠ [] := by intro h; rw [h] at hTl; simp at hTl
  rw [Core.ι_valP_phase_cols p.N hN p.b p.dnum p.sk (outT p out) hTne (wf_of_shapeOk p.N _ _ _ hsh).2,
    Core.ι_valP_phase_cols p.N hN p.b p.rs p.sk out hne hwf, hTl, hol, Nat.add_sub_cancel, Nat.min_eq_left hsk]
  unfold tailL
  rw [KsDec.ι_truncL _ _ _ _ _ _ _ hN]
  have hcol : ∀ j, j < p.rank + 1 → (outT p out).getD j [] = C02L.fit p.N p.dnum (out.getD j []) := by
    intro j hj; unfold outT accT; exact mapRange_getD _ _ _ _ hj
  have hcw : ∀ j, j < p.rank + 1 → C02L.ColWF p.N p.rs (out.getD j []) := by
    intro j hj
    have hj' : j < out.length := by rw [hol]; exact hj
    rw [List.getD_eq_getElem?_getD, List.getElem?_eq_getElem hj']; exact hwf _ (List.getElem_mem hj')
  have h0 := col_cut p.N p.b p.S p.rs p.dnum (out.getD 0 []) (hcw 0 (by omega)) hrs hd
  rw [hcol 0 (by omega), mul_add, h0, Finset.mul_sum]
  have hsum : ∀ i ∈ range p.rank, ((2 : Ks.R p.N) ^ p.b) ^ (p.S - p.dnum)
        * (Ks.ι p.N (p.sk.getD i []) * Ks.ι p.N (C02L.valP p.b p.N ((outT p out).getD (i + 1) [])))
      = ((2 : Ks.R p.N) ^ p.b) ^ (p.S - p.rs) * (Ks.ι p.N (p.sk.getD i []) * Ks.ι p.N (C02L.valP p.b p.N (out.getD (i + 1) []))
          - Ks.ι p.N (p.sk.getD i []) * Ks.ι p.N (C02L.valP p.b p.N ((out.getD (i + 1) []).drop (min p.rs p.dnum)))) := by
    intro i hi
    have hi' := Finset.mem_range.mp hi
    have := col_cut p.N p.b p.S p.rs p.dnum (out.getD (i + 1) []) (hcw (i + 1) (by omega)) hrs hd
    rw [hcol (i + 1) (by omega)]
    linear_combination Ks.ι p.N (p.sk.getD i []) * this
  rw [Finset.sum_congr rfl hsum, ← Finset.mul_sum, Finset.sum_sub_distrib]
  show _ = ((2 : Ks.R p.N) ^ p.b) ^ (p.S - p.rs) * (_ - (∑ i ∈ range p.rank, Ks.ι p.N (p.sk.getD i [])
      * Ks.ι p.N (C02L.valP p.b p.N (((Ks.mkCt p.b p.N out).cols.getD (i + 1) []).drop (min p.rs p.dnum)))
    + Ks.ι p.N (C02L.valP p.b p.N (((Ks.mkCt p.b p.N out).cols.getD 0 []).drop (min p.rs p.dnum)))))
  show _ = ((2 : Ks.R p.N) ^ p.b) ^ (p.S - p.rs) * (_ - (∑ i ∈ range p.rank, Ks.ι p.N (p.sk.getD i [])
      * Ks.ι p.N (C02L.valP p.b p.N ((out.getD (i + 1) []).drop (min p.rs p.dnum)))
    + Ks.ι p.N (C02L.valP p.b p.N ((out.getD 0 []).drop (min p.rs p.dnum)))))
  ring

/-- **value of `vmp_res` of one key bit**: `bit·β^{S−rs}·phase(acc) + ι(errL) − β^S·head` -/
theorem bigVal_vmp (p : Par) (L : Nat) (hok : BrOk p L) (out : List Col) (hout : WfC p out) (x : GBit p.N) (hx : Good p x) :
    bigVal p (epInternal (outT p out) x.g (zeroCols p.N (p.rank + 1) p.S) (zeroCols p.N (p.rank + 1) p.S))
      = bitR x.bit * (((2 : Ks.R p.N) ^ p.b) ^ (p.S - p.rs)
            * (Ks.ι p.N (C02L.valP p.b p.N (Core.Ops.phase p.sk (Ks.mkCt p.b p.N out))) - Ks.ι p.N (tailL p out)))
        + Ks.ι p.N (bitErrL p out x) - ((2 : Ks.R p.N) ^ p.b) ^ p.S * bitHead p out x := by
  obtain ⟨hN, hb1, hb60, hrs1, hrsS, hdS, hd1, hsk, hDm, hBE, _⟩ := hok
  obtain ⟨hgn, hgw, hgb, hgr, hgdn, hgds, hgS, hgd, hEL, hBEL, hM, hkey⟩ := hx
  have hsh := outT_shape p out hout
  have h0 := outT_len0 p out hout
  have hz : shapeOk x.g.n (x.g.rank + 1) x.g.size (zeroCols p.N (p.rank + 1) p.S) = true := by
    rw [hgn, hgr, hgS]; exact zeroCols_shape _ _ _
  have hσ0 : p.σ 0 = 1 := by simp [Par.σ]
  have hσ : ∀ i, i < x.g.rank → p.σ (i + 1) = Ks.ι p.N (p.sk.getD i []) := by intro i _; simp [Par.σ]
  have hval := epInternal_value p.N p.sk (outT p out) x.g (zeroCols p.N (p.rank + 1) p.S) (zeroCols p.N (p.rank + 1) p.S)
    ((2 : Ks.R p.N) ^ p.b) (bitR x.bit) p.σ (fun i r => Ks.ι p.N (x.EL i r) + ((2 : Ks.R p.N) ^ p.b) ^ p.S * x.K i r)
    (by rw [hgds, hd1]) hN hgn (by rw [hgn, hgr, h0]; exact hsh) hz hz hM (by rw [hgdn, hgds, hgS, hd1]; omega)
    (by intro i hi r hr
        have := hkey i (by rw [← hgr]; exact hi) r (by rw [← hgdn]; exact hr)
        rw [hgS, hgds]
        exact this)
  have hcov := ep_covered_value p.N hN (outT p out) x.g p.sk p.σ p.dnum (by rw [hgr]; simp [outT, accT])
    (by rw [← hgr] at hsh; exact (wf_of_shapeOk p.N _ _ _ hsh).2) (by rw [hgds, hd1]) (by rw [hgS]; exact hdS)
    (by rw [hgdn, hgds, hd1]; omega) (by rw [hgr]; exact hsk) hσ0 hσ
  have hph := outT_phase p hN hsk hrsS hdS out hout
  have hlist := EpCoeff.epErr_list p.N p.sk (outT p out) x.g x.EL x.K hN hgn (by rw [hgn, hgr, h0]; exact hsh) hEL (by rw [hgds, hd1]; norm_num)
  unfold epValue at hval
  unfold epErr at hlist
  simp only [hgb, hgS, hgds, hgdn, hgn, hgr, h0] at hcov hlist hval
  unfold bigVal
  rw [hval, hcov, hph]
  unfold bitErrL bitHead
  linear_combination hlist

/-! ### the block -/

/-- the terms of a block: `(a_j mod 2N, acc ⊡ BRK_j)` -/
def blkTerms (p : Par) (out : List Col) (blk : List (Int × GBit p.N)) : List (Nat × List Col) :=
  blk.map (fun x => (Lut.posMod x.1 (2 * p.N),
    epInternal (outT p out) x.2.g (zeroCols p.N (p.rank + 1) p.S) (zeroCols p.N (p.rank + 1) p.S)))

/-- the key list of a block as the code sees it -/
def blkKeys {N : Nat} (blk : List (Int × GBit N)) : List (Int × EpGGSW) := blk.map (fun x => (x.1, x.2.g))

theorem bbAdd_cols (p : Par) (hd1 : p.dsize = 1) (out : List Col) (hout : WfC p out) (blk : List (Int × GBit p.N))
    (hgood : ∀ x ∈ blk, Good p x.2) :
    BufShape p.N (p.rank + 1) p.S (bbAdd p.N (p.rank + 1) p.S p.dnum p.rs out (blkKeys blk)) ∧
    (bbAdd p.N (p.rank + 1) p.S p.dnum p.rs out (blkKeys blk)).size = p.S ∧
    ∀ j, j < p.rank + 1 → (bbAdd p.N (p.rank + 1) p.S p.dnum p.rs out (blkKeys blk)).act j
      = (addCols p.N p.S (p.rank + 1) (blkTerms p out blk)).getD j [] := by
  have hz := (mkBuf_shape p.N (p.rank + 1) p.S _ (zeroCols_shape p.N (p.rank + 1) p.S))
  have hz1 := (mkBuf_shape p.N 1 p.S _ (zeroCols_shape p.N 1 p.S))
  obtain ⟨h1, h2, h3⟩ := bitFold_spec p.N p.S (p.rank + 1) (accToDft p.N (p.rank + 1) p.dnum p.rs out) (blkKeys blk)
    _ _ hz.1 hz.2 hz1.1 hz1.2
  refine ⟨h1, h2, ?_⟩
  intro j hj
  have e : bbAdd p.N (p.rank + 1) p.S p.dnum p.rs out (blkKeys blk)
      = ((blkKeys blk).foldl (fun st q => bbBit p.N (p.rank + 1) p.S (accToDft p.N (p.rank + 1) p.dnum p.rs out) st q.1 q.2)
          (mkBuf p.N (p.rank + 1) p.S (zeroCols p.N (p.rank + 1) p.S), mkBuf p.N 1 p.S (zeroCols p.N 1 p.S))).1 := rfl
  rw [e, h3 j hj, zbuf_act _ _ _ _ hj, bitsCol_eq_foldCol]
  unfold addCols
  rw [mapRange_getD _ _ _ _ hj]
  show foldCol p.N p.S (zcol p.N p.S) _ = _
  congr 1
  unfold blkKeys blkTerms
  rw [List.map_map, List.map_map]
  apply List.map_congr_left
  intro x hx
  obtain ⟨hgn, _, _, hgr, _, hgds, hgS, _⟩ := hgood x hx
  have hv := vmpCols_eq p.N (p.rank + 1) p.S p.dnum p.rs out x.2.g hout.1 hgn (by rw [hgr]) hgS (by rw [hgds, hd1])
  show (_, _) = (_, _)
  congr 1
  show (vmpBuf p.N (p.rank + 1) p.S (accToDft p.N (p.rank + 1) p.dnum p.rs out) x.2.g).act j = _
  have : (epInternal (outT p out) x.2.g (zeroCols p.N (p.rank + 1) p.S) (zeroCols p.N (p.rank + 1) p.S)).getD j []
      = (vmpBuf p.N (p.rank + 1) p.S (accToDft p.N (p.rank + 1) p.dnum p.rs out) x.2.g).act j := by
    unfold outT
    rw [← hv, mapRange_getD _ _ _ _ hj]
  exact this.symm

theorem posMod_lt (x : Int) (m : Nat) (hm : 0 < m) : Lut.posMod x m < m := by
  unfold Lut.posMod
  have h1 := Int.emod_nonneg (w64 (x + (m : Int))) (by exact_mod_cast (Nat.pos_iff_ne_zero.mp hm) : (m : Int) ≠ 0)
  have h2 := Int.emod_lt_of_pos (w64 (x + (m : Int))) (by exact_mod_cast hm : (0 : Int) < (m : Int))
  omega

/-- the per-key-bit error bound `B` of the block-binary loop, units of `2^-(b·rs+b·S)` of the torus: the gadget error
`2^(b·rs)·(rank+1)·dnum·N·(2^b−1)·BE` plus, when the accumulator has more limbs than the key has rows, the un-multiplied tail
`2^(b·S)·(1+Σ‖s_i‖₁)·(2^b−1)·Σ_{k<rs−dnum} 2^(b·k)` (C03's `truncBound`; `0` when `rs ≤ dnum`) -/
def brB (p : Par) : Int :=
  2 ^ (p.b * p.rs) * (((p.rank + 1 : Nat) : Int) * ((p.dnum : Int) *
    ((∑ di ∈ range p.dsize, (2 : Int) ^ (p.b * di)) * ((p.N : Int) * p.Hin) * p.BE)))
  + 2 ^ (p.b * p.S) * KsDec.truncBound p.b (min p.rs p.dnum) (min p.rs p.dnum) p.sk p.rank p.rs p.Hin

/-- the error of one key bit as a coefficient list: `2^(b·rs)·errL − bit·2^(b·S)·tailL` -/
def bitErr (p : Par) (out : List Col) (x : GBit p.N) : Poly :=
  Hal.polyAdd (Hal.polyScale (2 ^ (p.b * p.rs)) (bitErrL p out x)) (Hal.polyScale (-(if x.bit then 2 ^ (p.b * p.S) else 0)) (tailL p out))

/-- the per-block normalisation error `U` -/
def brU (p : Par) : Int := (1 + C02L.snorm (min p.rank p.sk.length) p.sk) * C02.normTol (p.b * p.rs) (p.b * p.S)

theorem list_sum_lin {α : Type} (l : List α) (c m e h : α → R) (A T : R) :
    (l.map (fun x => c x * (m x * A + e x - T * h x))).sum
      = A * (l.map (fun x => m x * c x)).sum + (l.map (fun x => c x * e x)).sum - T * (l.map (fun x => c x * h x)).sum := by
  induction l with
  | nil => simp
  | cons a t ih => simp only [List.map_cons, List.sum_cons, ih]; ring

theorem list_sum_lin2 {α : Type} (l : List α) (c m e : α → R) (k T : R) :
    (l.map (fun x => c x * (k * e x - m x * T))).sum = k * (l.map (fun x => c x * e x)).sum - T * (l.map (fun x => m x * c x)).sum := by
  induction l with
  | nil => simp
  | cons a t ih => simp only [List.map_cons, List.sum_cons, ih]; ring

theorem list_sum_scale {α : Type} (l : List α) (c e : α → R) (k : R) :
    (l.map (fun x => c x * (k * e x))).sum = k * (l.map (fun x => c x * e x)).sum := by
  induction l with
  | nil => simp
  | cons a t ih => simp only [List.map_cons, List.sum_cons, ih]; ring

theorem wfC_gwf (p : Par) (out : List Col) (hout : WfC p out) : C02L.GWF p.N (Ks.mkCt p.b p.N out) ∧ (Ks.mkCt p.b p.N out).size = p.rs := by
  have hol : out.length = p.rank + 1 := (wf_of_shapeOk p.N _ _ _ hout.1).1
  exact gwf_mk p.b p.rs out (by intro h; rw [h] at hol; simp at hol) (wf_of_shapeOk p.N _ _ _ hout.1).2

theorem tailL_bound (p : Par) (out : List Col) (hout : WfC p out) :
    (tailL p out).length = p.N ∧ normInf (tailL p out) ≤ KsDec.truncBound p.b (min p.rs p.dnum) (min p.rs p.dnum) p.sk p.rank p.rs p.Hin := by
  obtain ⟨hg, hs⟩ := wfC_gwf p out hout
  have hol : out.length = p.rank + 1 := (wf_of_shapeOk p.N _ _ _ hout.1).1
  refine ⟨KsDec.truncL_length _ _ _ _ _ _ _, ?_⟩
  have := KsDec.normInf_truncL_le p.N p.b (min p.rs p.dnum) (min p.rs p.dnum) p.sk p.rank (Ks.mkCt p.b p.N out) p.Hin (Hin_nonneg p) hg
    (by show p.rank ≤ out.length - 1; rw [hol]; omega) hout.2
  rw [hs] at this
  exact this

theorem ι_bitErr (p : Par) (L : Nat) (hok : BrOk p L) (out : List Col) (hout : WfC p out) (x : GBit p.N) (hx : Good p x) :
    Ks.ι p.N (bitErr p out x) = (2 : Ks.R p.N) ^ (p.b * p.rs) * Ks.ι p.N (bitErrL p out x)
      - bitR x.bit * ((2 : Ks.R p.N) ^ (p.b * p.S) * Ks.ι p.N (tailL p out)) := by
  have hElen := Ks.errL_length p.N p.b (mkBuf p.N (p.rank + 1) p.dnum (outT p out)) x.g.toKey x.EL hx.2.2.2.2.2.2.2.2.1
  unfold bitErr
  rw [Ks.ι_add p.N _ _ (by simp [Hal.polyScale, bitErrL, hElen, (tailL_bound p out hout).1]), Ks.ι_polyScale, Ks.ι_polyScale]
  cases x.bit <;> simp [bitR] <;> push_cast <;> ring

theorem bitErr_bound (p : Par) (L : Nat) (hok : BrOk p L) (out : List Col) (hout : WfC p out) (x : GBit p.N) (hx : Good p x) :
    (bitErr p out x).length = p.N ∧ normInf (bitErr p out x) ≤ brB p := by
  obtain ⟨hN, hb1, hb60, hrs1, hrsd, hdS, hd1, hsk, hDm, hBE, _⟩ := hok
  obtain ⟨hgn, hgw, hgb, hgr, hgdn, hgds, hgS, hgd, hEL, hBEL, hM, hkey⟩ := hx
  have hsh := outT_shape p out hout
  have hwf := (wf_of_shapeOk p.N _ _ _ hsh).2
  have hAlen : ∀ c l, (limbOr0 p.N ((mkBuf p.N (p.rank + 1) p.dnum (outT p out)).act c) l).length = p.N := by
    apply Ks.limbOr0_act_length
    intro col hcol q hq
    exact (hwf col hcol).2 q hq
  have hAB : ∀ i l, normInf (limbOr0 p.N ((mkBuf p.N (p.rank + 1) p.dnum (outT p out)).act i) l) ≤ p.Hin := by
    intro i l
    refine normInf_le_of_forall ?_ (Hin_nonneg p)
    intro y hy
    unfold limbOr0 at hy
    rw [List.getD_eq_getElem?_getD] at hy
    cases hl : ((mkBuf p.N (p.rank + 1) p.dnum (outT p out)).act i)[l]? with
    | none =>
      rw [hl] at hy
      simp only [Option.getD_none, zeroP, List.mem_replicate] at hy
      rw [hy.2]; simpa using Hin_nonneg p
    | some q =>
      rw [hl] at hy
      simp only [Option.getD_some] at hy
      have hq : q ∈ (mkBuf p.N (p.rank + 1) p.dnum (outT p out)).act i := List.mem_of_getElem? hl
      unfold Buf.act at hq
      have hq' := List.mem_of_mem_take hq
      rw [List.getD_eq_getElem?_getD] at hq'
      cases hc : (mkBuf p.N (p.rank + 1) p.dnum (outT p out)).data[i]? with
      | none => rw [hc] at hq'; simp at hq'
      | some col =>
        rw [hc] at hq'
        simp only [Option.getD_some] at hq'
        exact outT_bound p (Hin_nonneg p) out hout col (List.mem_of_getElem? hc) q hq' y hy
  have hnormE := Ks.normInf_errL_le_of_bounds p.N p.b (mkBuf p.N (p.rank + 1) p.dnum (outT p out)) x.g.toKey x.EL p.Hin p.BE hAlen hAB hBEL
  have hElen := Ks.errL_length p.N p.b (mkBuf p.N (p.rank + 1) p.dnum (outT p out)) x.g.toKey x.EL hEL
  obtain ⟨hTl, hTb⟩ := tailL_bound p out hout
  refine ⟨by simp [bitErr, Hal.polyAdd, Hal.polyScale, bitErrL, hElen, hTl], ?_⟩
  unfold bitErr
  refine le_trans (normInf_polyAdd_le _ _) ?_
  rw [normInf_polyScale, normInf_polyScale, abs_pow, abs_two, abs_neg]
  unfold brB bitErrL
  have hcols : (x.g.toKey.mat.colsIn : Int) = ((p.rank + 1 : Nat) : Int) := by show ((x.g.rank + 1 : Nat) : Int) = _; rw [hgr]
  have hrows : (x.g.toKey.mat.rows : Int) = (p.dnum : Int) := by show (x.g.dnum : Int) = _; rw [hgdn]
  have hds : x.g.toKey.dsize = p.dsize := hgds
  rw [hcols, hrows, hds] at hnormE
  have h1 := mul_le_mul_of_nonneg_left hnormE (by positivity : (0 : Int) ≤ 2 ^ (p.b * p.rs))
  have hT0 : 0 ≤ normInf (tailL p out) := normInf_nonneg _
  have habs : |(if x.bit = true then (2 : Int) ^ (p.b * p.S) else 0)| ≤ 2 ^ (p.b * p.S) := by
    split
    · rw [abs_pow, abs_two]
    · simp
  have h2 : |(if x.bit = true then (2 : Int) ^ (p.b * p.S) else 0)| * normInf (tailL p out)
      ≤ 2 ^ (p.b * p.S) * KsDec.truncBound p.b (min p.rs p.dnum) (min p.rs p.dnum) p.sk p.rank p.rs p.Hin :=
    le_trans (mul_le_mul_of_nonneg_right habs hT0) (mul_le_mul_of_nonneg_left hTb (by positivity))
  linarith

theorem shapeOk_of_wf (N cols size : Nat) (x : List Col) (hl : x.length = cols) (hw : ∀ c ∈ x, C02L.ColWF N size c) :
    shapeOk N cols size x = true := by
  unfold shapeOk
  simp only [Bool.and_eq_true, beq_iff_eq, List.all_eq_true]
  exact ⟨hl, fun c hc => ⟨(hw c hc).1, fun l hl' => (hw c hc).2 l hl'⟩⟩

/-- **one executed block of `execute_block_binary`**: it returns, the result is again a ciphertext of the loop (shape, digits `≤ 2^b − 1`), and
`phase(acc') = (1 + Σ_j s_j·(X^{a_j} − 1))·phase(acc) + Σ_j (X^{a_j} − 1)·ι(e_j) + ι(E) + 2^(b·rs+b·S)·Y` in `ℤ[X]/(X^N+1)` with
`e_j = 2^(b·rs)·errL_j − s_j·2^(b·S)·tailL` (`bitErr`, `‖e_j‖_∞ ≤ brB`: `bitErr_bound`) and `‖E‖_∞ ≤ brU` -/
theorem bbBlock_spec (p : Par) (L : Nat) (hok : BrOk p L) (out : List Col) (hout : WfC p out)
    (blk : List (Int × GBit p.N)) (hL : blk.length ≤ L) (hgood : ∀ x ∈ blk, Good p x.2) :
    ∃ res, bbBlock p.big128 p.N p.b p.rs p.S (p.rank + 1) p.dnum out (blkKeys blk) = some res ∧ WfC p res ∧
      ∃ (E : Poly) (Y : Ks.R p.N), E.length = p.N ∧ normInf E ≤ brU p ∧
        phR p res = (1 + (blk.map (fun x => bitR x.2.bit * (rt p.N ^ Lut.posMod x.1 (2 * p.N) - 1))).sum) * phR p out
          + (blk.map (fun x => (rt p.N ^ Lut.posMod x.1 (2 * p.N) - 1) * Ks.ι p.N (bitErr p out x.2))).sum
          + Ks.ι p.N E + ((p.modulus : ℤ) : Ks.R p.N) * Y := by
  have hok' := hok
  obtain ⟨hN, hb1, hb60, hrs1, hrsd, hdS, hd1, hsk, hDm, hBE, hhead⟩ := hok
  have hH0 := Hin_nonneg p
  have hsh := outT_shape p out hout
  have h0 := outT_len0 p out hout
  have hV0 : 0 ≤ prodBound 1 (p.rank + 1) p.dnum p.N p.Hin p.Dm := prodBound_nonneg _ _ _ _ _ _ hH0 hDm
  -- the terms
  have htk : ∀ t ∈ blkTerms p out blk, t.1 < 2 * p.N := by
    intro t ht
    obtain ⟨x, _, rfl⟩ := List.mem_map.mp ht
    exact posMod_lt _ _ (by omega)
  have htlen : ∀ t ∈ blkTerms p out blk, t.2.length = p.rank + 1 := by
    intro t ht
    obtain ⟨x, hx, rfl⟩ := List.mem_map.mp ht
    rw [epInternal_length, (hgood x hx).2.2.2.1]
  have hzs : ∀ x ∈ blk, shapeOk x.2.g.n (x.2.g.rank + 1) x.2.g.size (zeroCols p.N (p.rank + 1) p.S) = true := by
    intro x hx
    obtain ⟨hgn, _, _, hgr, _, _, hgS, _⟩ := hgood x hx
    rw [hgn, hgr, hgS]; exact zeroCols_shape _ _ _
  have hash : ∀ x ∈ blk, shapeOk x.2.g.n (x.2.g.rank + 1) ((outT p out).getD 0 []).length (outT p out) = true := by
    intro x hx
    obtain ⟨hgn, _, _, hgr, _⟩ := hgood x hx
    rw [hgn, hgr, h0]; exact hsh
  have htwf : ∀ t ∈ blkTerms p out blk, ∀ c ∈ t.2, C02L.ColWF p.N p.S c := by
    intro t ht
    obtain ⟨x, hx, rfl⟩ := List.mem_map.mp ht
    obtain ⟨hgn, _, _, hgr, _, hgds, hgS, _, _, _, hM, _⟩ := hgood x hx
    have := epInternal_wf p.N (outT p out) x.2.g _ _ (by rw [hgds, hd1]) hgn (hash x hx) (hzs x hx) (hzs x hx) hM
    rw [hgS] at this
    exact this
  have htb : ∀ t ∈ blkTerms p out blk, ∀ c ∈ t.2, ∀ l ∈ c, ∀ y ∈ l, |y| ≤ prodBound 1 (p.rank + 1) p.dnum p.N p.Hin p.Dm := by
    intro t ht
    obtain ⟨x, hx, rfl⟩ := List.mem_map.mp ht
    obtain ⟨hgn, _, _, hgr, hgdn, hgds, hgS, hgd, _⟩ := hgood x hx
    have := ep_headroom p.N (outT p out) x.2.g (zeroCols p.N (p.rank + 1) p.S) (zeroCols p.N (p.rank + 1) p.S) p.Hin p.Dm hH0 hDm
      (by rw [hgds, hd1]) hgn (hash x hx) (hzs x hx) (hzs x hx) (outT_bound p hH0 out hout) hgd
    rw [hgds, hd1, hgr, hgdn] at this
    exact this
  -- the big accumulator of the block
  set P := addCols p.N p.S (p.rank + 1) (blkTerms p out blk) with hP
  have hPlen : P.length = p.rank + 1 := by simp [hP, addCols]
  have hcolwf : ∀ i, i < p.rank + 1 → ∀ t ∈ (blkTerms p out blk).map (fun t => (t.1, t.2.getD i [])), C02L.ColWF p.N p.S t.2 := by
    intro i hi t ht
    obtain ⟨u, hu, rfl⟩ := List.mem_map.mp ht
    exact getD_wf u.2 (htwf u hu) i (by rw [htlen u hu]; exact hi)
  have hcolk : ∀ i, ∀ t ∈ (blkTerms p out blk).map (fun t => (t.1, t.2.getD i [])), t.1 < 2 * p.N := by
    intro i t ht
    obtain ⟨u, hu, rfl⟩ := List.mem_map.mp ht
    exact htk u hu
  have hcolb : ∀ i, i < p.rank + 1 → ∀ t ∈ (blkTerms p out blk).map (fun t => (t.1, t.2.getD i [])),
      ColB p.N p.S t.2 (prodBound 1 (p.rank + 1) p.dnum p.N p.Hin p.Dm) := by
    intro i hi t ht
    obtain ⟨u, hu, rfl⟩ := List.mem_map.mp ht
    apply colB_of_forall hV0
    exact getD_bound u.2 _ (htb u hu) i
  have hPwf : ∀ c ∈ P, C02L.ColWF p.N p.S c := by
    intro c hc
    obtain ⟨i, hi, rfl⟩ := List.mem_map.mp hc
    exact foldCol_wf p.N p.S _ (hcolwf i (List.mem_range.mp hi)) _ (zcol_wf p.N p.S)
  have hPb : ∀ c ∈ P, ∀ l ∈ c, ∀ y ∈ l, |y| ≤ (blk.length : Int) * (2 * prodBound 1 (p.rank + 1) p.dnum p.N p.Hin p.Dm) := by
    intro c hc
    obtain ⟨i, hi, rfl⟩ := List.mem_map.mp hc
    have hi' := List.mem_range.mp hi
    have hb := foldCol_bound p.N p.S hN _ _ (hcolwf i hi') (hcolk i) (hcolb i hi') (zcol p.N p.S) 0 (zcol_wf p.N p.S)
      (by intro l _; rw [show limbOr0 p.N (zcol p.N p.S) l = zeroP p.N by
            unfold limbOr0 zcol; rw [List.getD_eq_getElem?_getD, List.getElem?_replicate]; split <;> rfl]
          rw [normInf_zeroP])
    rw [zero_add, List.length_map] at hb
    have hlen : (blkTerms p out blk).length = blk.length := by simp [blkTerms]
    rw [hlen] at hb
    exact forall_of_colB (foldCol_wf p.N p.S _ (hcolwf i hi') _ (zcol_wf p.N p.S)).1 hb
  have hX0 : (0 : Int) ≤ (blk.length : Int) * (2 * prodBound 1 (p.rank + 1) p.dnum p.N p.Hin p.Dm) := by positivity
  have hH : (blk.length : Int) * (2 * prodBound 1 (p.rank + 1) p.dnum p.N p.Hin p.Dm) + p.Hin + 8 ≤ 2 ^ (bitsOf p.big128 - 2) := by
    have : (blk.length : Int) ≤ (L : Int) := by exact_mod_cast hL
    have := mul_le_mul_of_nonneg_right this (by linarith : (0 : Int) ≤ 2 * prodBound 1 (p.rank + 1) p.dnum p.N p.Hin p.Dm)
    linarith
  obtain ⟨cs, h1, h2, h3, h4, h5⟩ := acc_norm_total p.big128 p.N p.b p.rs p.b p.S p.rank 0 _ p.Hin P (fun j => out.getD j []) hN
    hb1 (by omega) hb1 (by omega) hX0 hH0 hH hPlen hPwf hPb (fun j _ => wfC_limbs p out hout j) (fun j _ => getD_bound out p.Hin hout.2 j)
  have hcsne : cs ≠ [] := by intro h; rw [h] at h2; simp at h2
  -- the executed block is this normalisation
  obtain ⟨ha1, ha2, ha3⟩ := bbAdd_cols p hd1 out hout blk hgood
  have hrun : bbBlock p.big128 p.N p.b p.rs p.S (p.rank + 1) p.dnum out (blkKeys blk) = some cs := by
    unfold bbBlock
    rw [blockFinish_eq _ _ _ _ _ _ _ _ ha1 ha2, ← h1]
    apply mapM_congr_opt
    intro i hi
    rw [ha3 i (List.mem_range.mp hi)]
    rfl
  refine ⟨cs, hrun, ⟨shapeOk_of_wf _ _ _ _ h2 h3, h4⟩, ?_⟩
  obtain ⟨E, Q, hE, hQ, hnm, he⟩ := h5 p.sk
  rw [normTolOff_zero] at hnm
  refine ⟨E, Ks.ι p.N Q - (blk.map (fun x => (rt p.N ^ Lut.posMod x.1 (2 * p.N) - 1) * bitHead p out x.2)).sum, hE, hnm, ?_⟩
  -- the value of the accumulated sum
  have hbv : ∑ l ∈ range p.S, Ks.ι p.N (Ks.phaseRow p.sk (P.map (fun col => limbOr0 p.N col l))) * ((2 : Ks.R p.N) ^ p.b) ^ (p.S - 1 - l)
      = bigVal p P := rfl
  rw [hbv, hP, bigVal_addCols p hN hsk _ htk htlen htwf] at he
  have hmap : ((blkTerms p out blk).map (fun t => (rt p.N ^ t.1 - 1) * bigVal p t.2))
      = blk.map (fun x => (rt p.N ^ Lut.posMod x.1 (2 * p.N) - 1) *
          (bitR x.2.bit * (((2 : Ks.R p.N) ^ p.b) ^ (p.S - p.rs)
              * (Ks.ι p.N (C02L.valP p.b p.N (Core.Ops.phase p.sk (Ks.mkCt p.b p.N out))) - Ks.ι p.N (tailL p out)))
            + Ks.ι p.N (bitErrL p out x.2) - ((2 : Ks.R p.N) ^ p.b) ^ p.S * bitHead p out x.2)) := by
    unfold blkTerms
    rw [List.map_map]
    apply List.map_congr_left
    intro x hx
    show (rt p.N ^ Lut.posMod x.1 (2 * p.N) - 1) * bigVal p _ = _
    rw [bigVal_vmp p L hok' out hout x.2 (hgood x hx)]
  rw [hmap, list_sum_lin] at he
  have hol : out.length = p.rank + 1 := (wf_of_shapeOk p.N _ _ _ hout.1).1
  have hfit := Core.ι_valP_phase_fit p.N hN p.b p.rs p.S p.sk out
    (by intro h; rw [h] at hol; simp at hol) (wf_of_shapeOk p.N _ _ _ hout.1).2 hrsd
  rw [hol] at hfit
  rw [hfit] at he
  have hsc : (blk.map (fun x => (rt p.N ^ Lut.posMod x.1 (2 * p.N) - 1) * Ks.ι p.N (bitErr p out x.2))).sum
      = (2 : Ks.R p.N) ^ (p.b * p.rs) * (blk.map (fun x => (rt p.N ^ Lut.posMod x.1 (2 * p.N) - 1) * Ks.ι p.N (bitErrL p out x.2))).sum
        - ((2 : Ks.R p.N) ^ (p.b * p.S) * Ks.ι p.N (tailL p out))
          * (blk.map (fun x => bitR x.2.bit * (rt p.N ^ Lut.posMod x.1 (2 * p.N) - 1))).sum := by
    rw [← list_sum_lin2]
    congr 1
    apply List.map_congr_left
    intro x hx
    rw [ι_bitErr p L hok' out hout x.2 (hgood x hx)]
  rw [hsc]
  unfold phR Par.modulus
  have hpw : ((2 : Ks.R p.N) ^ p.b) ^ (p.S - p.rs) * (2 : Ks.R p.N) ^ (p.b * p.rs) = (2 : Ks.R p.N) ^ (p.b * p.S) := by
    rw [← pow_mul, ← pow_add]; congr 1
    rw [← Nat.mul_add, Nat.sub_add_cancel hrsd]
  have hpS : ((2 : Ks.R p.N) ^ p.b) ^ p.S = (2 : Ks.R p.N) ^ (p.b * p.S) := by rw [← pow_mul]
  have hpM : (((2 ^ (p.b * p.rs + p.b * p.S) : ℕ) : ℤ) : Ks.R p.N) = (2 : Ks.R p.N) ^ (p.b * p.rs) * (2 : Ks.R p.N) ^ (p.b * p.S) := by
    push_cast; rw [pow_add]
  rw [hpM]
  simp only [Int.neg_zero, Int.toNat_zero, Nat.add_zero, pow_zero, mul_one] at he
  rw [hpS] at he
  have hpA : (2 : Ks.R p.N) ^ (p.b * p.rs + p.b * p.S) = (2 : Ks.R p.N) ^ (p.b * p.rs) * (2 : Ks.R p.N) ^ (p.b * p.S) := pow_add _ _ _
  rw [hpA] at he
  linear_combination he
    + ((1 + (blk.map (fun x => bitR x.2.bit * (rt p.N ^ Lut.posMod x.1 (2 * p.N) - 1))).sum)
        * Ks.ι p.N (C02L.valP p.b p.N (Core.Ops.phase p.sk (Ks.mkCt p.b p.N out)))
      - (blk.map (fun x => bitR x.2.bit * (rt p.N ^ Lut.posMod x.1 (2 * p.N) - 1))).sum * Ks.ι p.N (tailL p out)) * hpw

/-! ### the block machine on the executed loop -/

theorem posMod_eq_xexp (N : Nat) (hN2 : 2 * N < 2 ^ 62) (a : Int) (ha : |a| < 2 ^ 62) : Lut.posMod a (2 * N) = RingNu.xexp N a := by
  unfold Lut.posMod RingNu.xexp
  have hb := abs_lt.mp ha
  have hm : ((2 * N : ℕ) : Int) < 2 ^ 62 := by exact_mod_cast hN2
  have hm0 : (0 : Int) ≤ ((2 * N : ℕ) : Int) := Int.natCast_nonneg _
  rw [C02L.w64_small _ (by linarith) (by linarith), Int.add_emod_right]

/-- one block as a total function (`bbBlock` returns on every input of the theorems) -/
def stepC (p : Par) (c : List Col) (blk : List (Int × GBit p.N)) : List Col :=
  match bbBlock p.big128 p.N p.b p.rs p.S (p.rank + 1) p.dnum c (blkKeys blk) with
  | some r => r
  | none => c

theorem stepC_spec (p : Par) (L : Nat) (hok : BrOk p L) (hN2 : 2 * p.N < 2 ^ 62) (c : List Col) (blk : List (Int × GBit p.N))
    (hc : WfC p c) (hL : blk.length ≤ L) (hgood : ∀ x ∈ blk, Good p x.2 ∧ |x.1| < 2 ^ 62) :
    bbBlock p.big128 p.N p.b p.rs p.S (p.rank + 1) p.dnum c (blkKeys blk) = some (stepC p c blk) ∧ WfC p (stepC p c blk) ∧
    (RingNu.size p.modulus p.N hok.1).ν (phR p (stepC p c blk)
        - (1 + (blk.map fun x => (bitR x.2.bit : Ks.R p.N) * ((RingNu.mono p.modulus p.N hok.1).X x.1 - 1)).sum) * phR p c)
      ≤ 2 * (blk.length * brB p) + brU p := by
  have hN := hok.1
  obtain ⟨res, hres, hwf, E, Y, hE, hnE, hid⟩ := bbBlock_spec p L hok c hc blk hL (fun x hx => (hgood x hx).1)
  have hst : stepC p c blk = res := by unfold stepC; rw [hres]
  rw [hst]
  refine ⟨hres, hwf, ?_⟩
  have hX : ∀ x ∈ blk, rt p.N ^ Lut.posMod x.1 (2 * p.N) = (RingNu.mono p.modulus p.N hN).X x.1 := by
    intro x hx
    rw [posMod_eq_xexp p.N hN2 x.1 (hgood x hx).2]; rfl
  have e1 : (blk.map (fun x => bitR x.2.bit * (rt p.N ^ Lut.posMod x.1 (2 * p.N) - 1)))
      = blk.map (fun x => (bitR x.2.bit : Ks.R p.N) * ((RingNu.mono p.modulus p.N hN).X x.1 - 1)) := by
    apply List.map_congr_left; intro x hx; rw [hX x hx]
  have e2 : (blk.map (fun x => (rt p.N ^ Lut.posMod x.1 (2 * p.N) - 1) * Ks.ι p.N (bitErr p c x.2)))
      = blk.map (fun x => ((RingNu.mono p.modulus p.N hN).X x.1 - 1) * Ks.ι p.N (bitErr p c x.2)) := by
    apply List.map_congr_left; intro x hx; rw [hX x hx]
  rw [e1, e2] at hid
  have hdiff : phR p res - (1 + (blk.map fun x => (bitR x.2.bit : Ks.R p.N) * ((RingNu.mono p.modulus p.N hN).X x.1 - 1)).sum) * phR p c
      = (blk.map (fun x => ((RingNu.mono p.modulus p.N hN).X x.1 - 1) * Ks.ι p.N (bitErr p c x.2))).sum
        + (Ks.ι p.N E + ((p.modulus : ℤ) : Ks.R p.N) * Y) := by rw [hid]; ring
  rw [hdiff]
  have hS := (RingNu.size p.modulus p.N hN).add_le
    ((blk.map (fun x => ((RingNu.mono p.modulus p.N hN).X x.1 - 1) * Ks.ι p.N (bitErr p c x.2))).sum)
    (Ks.ι p.N E + ((p.modulus : ℤ) : Ks.R p.N) * Y)
  have hU : (RingNu.size p.modulus p.N hN).ν (Ks.ι p.N E + ((p.modulus : ℤ) : Ks.R p.N) * Y) ≤ brU p :=
    le_trans (RingNu.nu_le_of_repr hN _ Y E hE rfl) hnE
  have hA := (RingNu.size p.modulus p.N hN).sum_le
    (blk.map (fun x => ((RingNu.mono p.modulus p.N hN).X x.1 - 1) * Ks.ι p.N (bitErr p c x.2)))
    (2 * brB p) (by
      intro y hy
      obtain ⟨x, hx, rfl⟩ := List.mem_map.mp hy
      have hb := bitErr_bound p L hok c hc x.2 (hgood x hx).1
      have h1 := (RingNu.mono p.modulus p.N hN).xm1_le x.1 (Ks.ι p.N (bitErr p c x.2))
      have h2 : (RingNu.size p.modulus p.N hN).ν (Ks.ι p.N (bitErr p c x.2)) ≤ brB p :=
        le_trans (RingNu.nu_le_of_repr hN _ 0 _ hb.1 (by simp)) hb.2
      linarith)
  rw [List.length_map] at hA
  linarith

/-- **the block machine of `NoiseAlg` on the executed `execute_block_binary`**: no contract left -/
noncomputable def machine (p : Par) (L : Nat) (hok : BrOk p L) (hN2 : 2 * p.N < 2 ^ 62) :
    BlkMachine (Ks.R p.N) (RingNu.size p.modulus p.N hok.1) (RingNu.mono p.modulus p.N hok.1) (List Col) (GBit p.N) where
  ph := phR p
  step := stepC p
  inv := WfC p
  good := fun x => Good p x.2 ∧ |x.1| < 2 ^ 62
  bit := fun x => x.bit
  maxLen := L
  B := brB p
  U := brU p
  step_spec := fun c blk hc hL hg => (stepC_spec p L hok hN2 c blk hc hL hg).2

/-- the executed loop is the machine's run -/
theorem bbLoop_eq_exec (p : Par) (L : Nat) (hok : BrOk p L) (hN2 : 2 * p.N < 2 ^ 62) (blocks : List (List (Int × GBit p.N))) :
    ∀ (acc : List Col), WfC p acc → (∀ blk ∈ blocks, blk.length ≤ L) → (∀ blk ∈ blocks, ∀ x ∈ blk, Good p x.2 ∧ |x.1| < 2 ^ 62) →
      bbLoop p.big128 p.N p.b p.rs p.S (p.rank + 1) p.dnum acc (blocks.map blkKeys) = some ((machine p L hok hN2).exec acc blocks) := by
  induction blocks with
  | nil => intro acc _ _ _; rfl
  | cons blk rest ih =>
    intro acc hacc hlen hgood
    obtain ⟨h1, h2, _⟩ := stepC_spec p L hok hN2 acc blk hacc (hlen blk (by simp)) (hgood blk (by simp))
    have e : bbLoop p.big128 p.N p.b p.rs p.S (p.rank + 1) p.dnum acc ((blk :: rest).map blkKeys)
        = bbLoop p.big128 p.N p.b p.rs p.S (p.rank + 1) p.dnum (stepC p acc blk) (rest.map blkKeys) := by
      unfold bbLoop
      simp only [List.map_cons, List.foldl_cons, Option.bind_some, h1]
    rw [e, ih _ h2 (fun b hb => hlen b (by simp [hb])) (fun b hb => hgood b (by simp [hb]))]
    rfl

end BlindMachine
