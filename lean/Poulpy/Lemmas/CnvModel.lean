import Poulpy.Model.Core.Mul
import Poulpy.Lemmas.GadgetExec
import Poulpy.Lemmas.CnvValue

/-! The executed constant convolution (`Core.cnvByConstCol`, `cnv_by_const_apply`) as the ring-level convolution `CnvValue.conv`. -/

namespace Core
open Hal Ks Finset

theorem ι_polyScale (N : Nat) (c : Int) (p : Poly) : ι N (polyScale c p) = (c : R N) * ι N p := by
  unfold ι
  have e : polyScale c p = smulL c p := rfl
  rw [e, toPoly_smulL, map_mul]
  rfl

theorem val_split {R : Type*} [CommRing R] (β : R) (hi S : ℕ) (c : ℕ → R) :
    CnvValue.val β (hi + S) c = β ^ S * CnvValue.val β hi c + ∑ k ∈ range S, c (k + hi) * β ^ (S - 1 - k) := by
  unfold CnvValue.val
  rw [Finset.sum_range_add, Finset.mul_sum]
  congr 1
  · apply Finset.sum_congr rfl
    intro l hl
    have hl' : l < hi := mem_range.mp hl
    have e : hi + S - 1 - l = S + (hi - 1 - l) := by omega
    rw [e, pow_add]; ring
  · apply Finset.sum_congr rfl
    intro k hk
    have hk' : k < S := mem_range.mp hk
    have e1 : hi + k = k + hi := Nat.add_comm _ _
    have e2 : hi + S - 1 - (hi + k) = S - 1 - k := by omega
    rw [e2, e1]

/-- one limb of the executed constant convolution is the ring-level convolution limb -/
theorem ι_cnvConstCoeff (N : Nat) (x : Col) (b : List Int) (k : Nat) (hx : ∀ l ∈ x, l.length = N) (hsa : 1 ≤ x.length) :
    ι N (cnvConstCoeff N x b k)
      = CnvValue.conv (fun m => ι N (limbOr0 N x m)) (fun j => ((b.getD j 0 : Int) : R N)) x.length b.length k := by
  unfold cnvConstCoeff CnvValue.conv
  by_cases hk : k ≥ x.length + b.length
  · rw [if_pos hk, ι_zero]
    symm
    apply Finset.sum_eq_zero
    intro j hj
    have hj' : j < b.length := mem_range.mp hj
    rw [if_neg (by omega)]
  · rw [if_neg hk]
    simp only []
    have hlen : ∀ t, t < min (k + 1) b.length - (k - (x.length - 1)) →
        (polyScale (b.getD (k - (x.length - 1) + t) 0) (limbOr0 N x (k - (k - (x.length - 1) + t)))).length = N := by
      intro t _
      rw [polyScale_length]
      unfold limbOr0
      by_cases h : k - (k - (x.length - 1) + t) < x.length
      · rw [List.getD_eq_getElem?_getD, List.getElem?_eq_getElem h]
        exact hx _ (List.getElem_mem _)
      · rw [List.getD_eq_getElem?_getD, List.getElem?_eq_none (by omega)]
        simp [zeroP]
    rw [ι_sumPolys_range N _ _ hlen]
    rw [← Finset.sum_filter]
    symm
    apply Finset.sum_bij' (fun j _ => j - (k - (x.length - 1))) (fun t _ => k - (x.length - 1) + t)
    · intro j hj
      simp only [mem_filter, mem_range] at hj
      simp only [mem_range]; omega
    · intro t ht
      simp only [mem_range] at ht
      simp only [mem_filter, mem_range]; omega
    · intro j hj
      simp only [mem_filter, mem_range] at hj
      omega
    · intro t _; omega
    · intro j hj
      simp only [mem_filter, mem_range] at hj
      have e : k - (x.length - 1) + (j - (k - (x.length - 1))) = j := by omega
      rw [e, ι_polyScale]
      ring

/-- **value of one accumulator column of `glwe_mul_const`**: the `sa + sb − hi` limbs of `cnv_by_const_apply(hi, x, b)` together with the
`hi` top limbs it skips have the value `β·val(x)·val(b)`: the accumulator is the full product up to a multiple of `β^{sa+sb−hi}`. -/
theorem mulConst_column_value (N : Nat) (x : Col) (b : List Int) (hi : Nat) (β : R N)
    (hx : ∀ l ∈ x, l.length = N) (hsa : 1 ≤ x.length) (hsb : 1 ≤ b.length) (hhi : hi ≤ x.length + b.length - 1) :
    ∑ k ∈ range (x.length + b.length - hi),
        ι N (limbOr0 N (cnvByConstCol N (x.length + b.length - hi) hi x b) k) * β ^ (x.length + b.length - hi - 1 - k)
      + β ^ (x.length + b.length - hi) *
          CnvValue.val β hi (CnvValue.conv (fun m => ι N (limbOr0 N x m)) (fun j => ((b.getD j 0 : Int) : R N)) x.length b.length)
      = β * CnvValue.val β x.length (fun m => ι N (limbOr0 N x m)) * CnvValue.val β b.length (fun j => ((b.getD j 0 : Int) : R N)) := by
  rw [← CnvValue.conv_value]
  have hsum : x.length + b.length = hi + (x.length + b.length - hi) := by omega
  conv_rhs => rw [hsum]
  rw [val_split, add_comm]
  congr 1
  apply Finset.sum_congr rfl
  intro k hk
  have hk' : k < x.length + b.length - hi := mem_range.mp hk
  congr 1
  unfold cnvByConstCol limbOr0
  rw [mapRange_getD _ _ _ _ hk']
  have hoff : min hi (x.length + b.length - 1) = hi := by omega
  by_cases hm : k < min (x.length + b.length - hi) (x.length + b.length - 1)
  · rw [if_pos hm, hoff]
    exact ι_cnvConstCoeff N x b (k + hi) hx hsa
  · rw [if_neg hm, ι_zero]
    -- only possible for hi = 0, k = sa + sb − 1: that convolution limb is empty
    have hk0 : k + hi ≥ x.length + b.length - 1 := by omega
    symm
    unfold CnvValue.conv
    apply Finset.sum_eq_zero
    intro j hj
    have hj' : j < b.length := mem_range.mp hj
    rw [if_neg (by omega)]

/-! ### polynomial × polynomial convolution (`cnv_apply_dft`, `Hal.cnvApplyCol`) -/

theorem limbOr0_length (N : Nat) (x : Col) (m : Nat) (hx : ∀ l ∈ x, l.length = N) : (limbOr0 N x m).length = N := by
  unfold limbOr0
  by_cases h : m < x.length
  · rw [List.getD_eq_getElem?_getD, List.getElem?_eq_getElem h]; exact hx _ (List.getElem_mem _)
  · rw [List.getD_eq_getElem?_getD, List.getElem?_eq_none (by omega)]; simp [zeroP]

theorem ι_cnvCoeff (N : Nat) (hN : 0 < N) (x y : Col) (k : Nat) (hx : ∀ l ∈ x, l.length = N) (hy : ∀ l ∈ y, l.length = N)
    (hsa : 1 ≤ x.length) :
    ι N (Hal.cnvCoeff N x y k)
      = CnvValue.conv (fun m => ι N (limbOr0 N x m)) (fun j => ι N (limbOr0 N y j)) x.length y.length k := by
  unfold Hal.cnvCoeff CnvValue.conv
  by_cases hk : k ≥ x.length + y.length
  · rw [if_pos hk, ι_zero]
    symm
    apply Finset.sum_eq_zero
    intro j hj
    have hj' : j < y.length := mem_range.mp hj
    rw [if_neg (by omega)]
  · rw [if_neg hk]
    simp only []
    rw [ι_sumPolys_range N _ _ (fun t _ => by rw [Hal.negMul_length]; exact limbOr0_length N y _ hy)]
    rw [← Finset.sum_filter]
    symm
    apply Finset.sum_bij' (fun j _ => j - (k - (x.length - 1))) (fun t _ => k - (x.length - 1) + t)
    · intro j hj
      simp only [mem_filter, mem_range] at hj
      simp only [mem_range]; omega
    · intro t ht
      simp only [mem_range] at ht
      simp only [mem_filter, mem_range]; omega
    · intro j hj
      simp only [mem_filter, mem_range] at hj
      omega
    · intro t _; omega
    · intro j hj
      simp only [mem_filter, mem_range] at hj
      have e : k - (x.length - 1) + (j - (k - (x.length - 1))) = j := by omega
      rw [e, ι_negMul N _ _ (limbOr0_length N y _ hy) hN]

/-- value of one accumulator column of `glwe_mul_plain` / of one diagonal column of the tensor product -/
theorem cnvApply_column_value (N : Nat) (hN : 0 < N) (x y : Col) (hi : Nat) (β : R N)
    (hx : ∀ l ∈ x, l.length = N) (hy : ∀ l ∈ y, l.length = N) (hsa : 1 ≤ x.length) (hsb : 1 ≤ y.length)
    (hhi : hi ≤ x.length + y.length - 1) :
    ∑ k ∈ range (x.length + y.length - hi),
        ι N (limbOr0 N (Hal.cnvApplyCol N (x.length + y.length - hi) hi x y) k) * β ^ (x.length + y.length - hi - 1 - k)
      + β ^ (x.length + y.length - hi) *
          CnvValue.val β hi (CnvValue.conv (fun m => ι N (limbOr0 N x m)) (fun j => ι N (limbOr0 N y j)) x.length y.length)
      = β * CnvValue.val β x.length (fun m => ι N (limbOr0 N x m)) * CnvValue.val β y.length (fun j => ι N (limbOr0 N y j)) := by
  rw [← CnvValue.conv_value]
  have hsum : x.length + y.length = hi + (x.length + y.length - hi) := by omega
  conv_rhs => rw [hsum]
  rw [val_split, add_comm]
  congr 1
  apply Finset.sum_congr rfl
  intro k hk
  have hk' : k < x.length + y.length - hi := mem_range.mp hk
  congr 1
  unfold Hal.cnvApplyCol limbOr0
  rw [mapRange_getD _ _ _ _ hk']
  have hoff : min hi (x.length + y.length - 1) = hi := by omega
  by_cases hm : k < min (x.length + y.length - hi) (x.length + y.length - 1)
  · rw [if_pos hm, hoff]
    exact ι_cnvCoeff N hN x y (k + hi) hx hy hsa
  · rw [if_neg hm, ι_zero]
    symm
    unfold CnvValue.conv
    apply Finset.sum_eq_zero
    intro j hj
    have hj' : j < y.length := mem_range.mp hj
    rw [if_neg (by omega)]

/-- `ι` of the phase of one limb across columns: `ι body + Σ_i ι s_i · ι mask_i` -/
theorem ι_phaseRow_fold (N : Nat) (hN : 0 < N) : ∀ (sk ms : List Poly) (b : Poly), b.length = N → (∀ m ∈ ms, m.length = N) →
    ι N ((List.zipWith Hal.negMul sk ms).foldl polyAdd b)
      = ι N b + ∑ i ∈ range (min sk.length ms.length), ι N (sk.getD i []) * ι N (ms.getD i [])
  | [], ms, b, _, _ => by simp
  | s :: sk, [], b, _, _ => by simp
  | s :: sk, m :: ms, b, hb, hm => by
    have hm0 : m.length = N := hm m List.mem_cons_self
    simp only [List.zipWith_cons_cons, List.foldl_cons]
    rw [ι_phaseRow_fold N hN sk ms (polyAdd b (Hal.negMul s m)) (by simp [hb, Hal.negMul_length, hm0])
      (fun x hx => hm x (List.mem_cons_of_mem _ hx))]
    rw [ι_add N _ _ (by rw [hb, Hal.negMul_length, hm0]), ι_negMul N s m hm0 hN]
    have e : min (s :: sk).length (m :: ms).length = min sk.length ms.length + 1 := by simp
    rw [e, Finset.sum_range_succ']
    simp only [List.getD_cons_succ, List.getD_cons_zero]
    ring

theorem ι_phaseRow (N : Nat) (hN : 0 < N) (sk : List Poly) (b : Poly) (ms : List Poly) (hb : b.length = N) (hm : ∀ m ∈ ms, m.length = N) :
    ι N (phaseRow sk (b :: ms)) = ι N b + ∑ i ∈ range (min sk.length ms.length), ι N (sk.getD i []) * ι N (ms.getD i []) :=
  ι_phaseRow_fold N hN sk ms b hb hm

/-- the `hi` top limbs of the convolution that `cnv_by_const_apply(hi, …)` skips, as a value -/
noncomputable def constTop (N : Nat) (β : R N) (x : Col) (b : List Int) (hi : Nat) : R N :=
  CnvValue.val β hi (CnvValue.conv (fun m => ι N (limbOr0 N x m)) (fun j => ((b.getD j 0 : Int) : R N)) x.length b.length)

/-- value of a column (limbs as ring elements, most significant first) -/
noncomputable def colVal (N : Nat) (β : R N) (x : Col) : R N := CnvValue.val β x.length (fun m => ι N (limbOr0 N x m))

/-- value of the integer constant -/
noncomputable def constVal (N : Nat) (β : R N) (b : List Int) : R N := CnvValue.val β b.length (fun j => ((b.getD j 0 : Int) : R N))

theorem cnvByConstCol_limb_length (N S hi : Nat) (x : Col) (b : List Int) (k : Nat) (hx : ∀ l ∈ x, l.length = N) :
    (limbOr0 N (cnvByConstCol N S hi x b) k).length = N := by
  unfold limbOr0 cnvByConstCol
  by_cases hk : k < S
  · rw [mapRange_getD _ _ _ _ hk]
    split
    · unfold cnvConstCoeff
      split
      · simp [zeroP]
      · apply sumPolys_length
        intro p hp
        simp only [List.mem_map, List.mem_range] at hp
        obtain ⟨t, _, rfl⟩ := hp
        rw [polyScale_length]
        unfold limbOr0
        by_cases h : k + min hi (x.length + b.length - 1) - (k + min hi (x.length + b.length - 1) - (x.length - 1) + t) < x.length
        · rw [List.getD_eq_getElem?_getD, List.getElem?_eq_getElem h]
          exact hx _ (List.getElem_mem _)
        · rw [List.getD_eq_getElem?_getD, List.getElem?_eq_none (by omega)]
          simp [zeroP]
    · simp [zeroP]
  · rw [mapRange_getD_ge _ _ _ _ (by omega)]
    simp [zeroP]

/-- generic step: column-wise value identities `V(F x) + β^S·top x = β·cv x·v` lift to the phase -/
theorem phase_value_of_columns (N : Nat) (hN : 0 < N) (sk : List Poly) (a0 : Col) (as : List Col) (S : Nat) (β : R N)
    (F : Col → Col) (top cv : Col → R N) (v : R N)
    (hlen : ∀ x k, (x = a0 ∨ x ∈ as) → (limbOr0 N (F x) k).length = N)
    (hcol : ∀ x, (x = a0 ∨ x ∈ as) →
      ∑ k ∈ range S, ι N (limbOr0 N (F x) k) * β ^ (S - 1 - k) + β ^ S * top x = β * cv x * v) :
    ∑ k ∈ range S, ι N (phaseRow sk (((a0 :: as).map F).map (fun col => limbOr0 N col k))) * β ^ (S - 1 - k)
      + β ^ S * (top a0 + ∑ i ∈ range (min sk.length as.length), ι N (sk.getD i []) * top (as.getD i []))
      = β * (cv a0 + ∑ i ∈ range (min sk.length as.length), ι N (sk.getD i []) * cv (as.getD i [])) * v := by
  have hphase : ∀ k, ι N (phaseRow sk (((a0 :: as).map F).map (fun col => limbOr0 N col k)))
      = ι N (limbOr0 N (F a0) k)
        + ∑ i ∈ range (min sk.length as.length), ι N (sk.getD i []) * ι N (limbOr0 N (F (as.getD i [])) k) := by
    intro k
    simp only [List.map_cons]
    rw [ι_phaseRow N hN sk _ _ (hlen a0 k (Or.inl rfl)) (by
      intro m hm
      simp only [List.mem_map] at hm
      obtain ⟨c, ⟨x, hxm, rfl⟩, rfl⟩ := hm
      exact hlen x k (Or.inr hxm))]
    congr 1
    simp only [List.length_map]
    apply Finset.sum_congr rfl
    intro i hi'
    have hil : i < as.length := by have := mem_range.mp hi'; omega
    congr 2
    simp [List.getD_eq_getElem?_getD, hil]
  have e1 : ∑ k ∈ range S, ι N (phaseRow sk (((a0 :: as).map F).map (fun col => limbOr0 N col k))) * β ^ (S - 1 - k)
      = ∑ k ∈ range S, ι N (limbOr0 N (F a0) k) * β ^ (S - 1 - k)
        + ∑ i ∈ range (min sk.length as.length), ι N (sk.getD i []) *
            ∑ k ∈ range S, ι N (limbOr0 N (F (as.getD i [])) k) * β ^ (S - 1 - k) := by
    simp only [hphase, add_mul, Finset.sum_add_distrib, Finset.sum_mul, Finset.mul_sum]
    congr 1
    rw [Finset.sum_comm]
    apply Finset.sum_congr rfl
    intro i _
    apply Finset.sum_congr rfl
    intro k _
    ring
  have hs' : ∀ i ∈ range (min sk.length as.length),
      ι N (sk.getD i []) * (∑ k ∈ range S, ι N (limbOr0 N (F (as.getD i [])) k) * β ^ (S - 1 - k))
        + β ^ S * (ι N (sk.getD i []) * top (as.getD i []))
      = β * (ι N (sk.getD i []) * cv (as.getD i [])) * v := by
    intro i hi'
    have hil : i < as.length := by have := mem_range.mp hi'; omega
    have hmem : as.getD i [] ∈ as := by
      rw [List.getD_eq_getElem?_getD, List.getElem?_eq_getElem hil]; exact List.getElem_mem _
    have hc := hcol _ (Or.inr hmem)
    linear_combination (ι N (sk.getD i [])) * hc
  have h0' := hcol a0 (Or.inl rfl)
  rw [e1, mul_add, Finset.mul_sum, mul_add, add_mul, Finset.mul_sum, Finset.sum_mul]
  have hsum := Finset.sum_congr rfl hs'
  rw [Finset.sum_add_distrib] at hsum
  linear_combination h0' + hsum

/-- **phase value of the accumulators of `glwe_mul_const`**: with `a = a₀ :: as` (body and masks, all of `sa` limbs) and the constant `b`,
the phase of the `sa + sb − hi` limbs of the accumulators, plus `β^{sa+sb−hi}` times the skipped top limbs, is
`β · (val a₀ + Σ_i s_i·val as_i) · val b` = `β · val(phase a) · val(b)`. -/
theorem mulConst_phase_value (N : Nat) (hN : 0 < N) (sk : List Poly) (a0 : Col) (as : List Col) (b : List Int) (hi sa : Nat) (β : R N)
    (h0 : a0.length = sa) (hall : ∀ x ∈ as, x.length = sa) (hx0 : ∀ l ∈ a0, l.length = N) (hxs : ∀ x ∈ as, ∀ l ∈ x, l.length = N)
    (hsa : 1 ≤ sa) (hsb : 1 ≤ b.length) (hhi : hi ≤ sa + b.length - 1) :
    ∑ k ∈ range (sa + b.length - hi),
        ι N (phaseRow sk (((a0 :: as).map (fun x => cnvByConstCol N (sa + b.length - hi) hi x b)).map (fun col => limbOr0 N col k)))
          * β ^ (sa + b.length - hi - 1 - k)
      + β ^ (sa + b.length - hi) * (constTop N β a0 b hi
          + ∑ i ∈ range (min sk.length as.length), ι N (sk.getD i []) * constTop N β (as.getD i []) b hi)
      = β * (colVal N β a0 + ∑ i ∈ range (min sk.length as.length), ι N (sk.getD i []) * colVal N β (as.getD i [])) * constVal N β b := by
  apply phase_value_of_columns N hN sk a0 as (sa + b.length - hi) β (fun x => cnvByConstCol N (sa + b.length - hi) hi x b)
    (fun x => constTop N β x b hi) (colVal N β) (constVal N β b)
  · intro x k hx
    rcases hx with rfl | hx
    · exact cnvByConstCol_limb_length N _ hi _ b k hx0
    · exact cnvByConstCol_limb_length N _ hi x b k (hxs x hx)
  · intro x hx
    have hxl : x.length = sa := by rcases hx with rfl | hx; exact h0; exact hall x hx
    have hxn : ∀ l ∈ x, l.length = N := by rcases hx with rfl | hx; exact hx0; exact hxs x hx
    have := mulConst_column_value N x b hi β hxn (by omega) hsb (by omega)
    rw [hxl] at this
    unfold constTop colVal constVal
    rw [hxl]
    exact this

/-- the skipped top limbs of the polynomial convolution, as a value -/
noncomputable def plainTop (N : Nat) (β : R N) (x y : Col) (hi : Nat) : R N :=
  CnvValue.val β hi (CnvValue.conv (fun m => ι N (limbOr0 N x m)) (fun j => ι N (limbOr0 N y j)) x.length y.length)

theorem cnvApplyCol_limb_length (N S hi : Nat) (x y : Col) (k : Nat) (hy : ∀ l ∈ y, l.length = N) :
    (limbOr0 N (Hal.cnvApplyCol N S hi x y) k).length = N := by
  unfold limbOr0 Hal.cnvApplyCol
  by_cases hk : k < S
  · rw [mapRange_getD _ _ _ _ hk]
    split
    · unfold Hal.cnvCoeff
      split
      · simp [zeroP]
      · apply sumPolys_length
        intro p hp
        simp only [List.mem_map, List.mem_range] at hp
        obtain ⟨t, _, rfl⟩ := hp
        rw [Hal.negMul_length]
        exact limbOr0_length N y _ hy
    · simp [zeroP]
  · rw [mapRange_getD_ge _ _ _ _ (by omega)]
    simp [zeroP]

/-- **phase value of the accumulators of `glwe_mul_plain`** (`a'`, `pt'` the masked operands): `β · val(phase a') · val(pt')` up to the skipped top limbs -/
theorem mulPlain_phase_value (N : Nat) (hN : 0 < N) (sk : List Poly) (a0 : Col) (as : List Col) (pt : Col) (hi sa : Nat) (β : R N)
    (h0 : a0.length = sa) (hall : ∀ x ∈ as, x.length = sa) (hx0 : ∀ l ∈ a0, l.length = N) (hxs : ∀ x ∈ as, ∀ l ∈ x, l.length = N)
    (hpt : ∀ l ∈ pt, l.length = N) (hsa : 1 ≤ sa) (hsb : 1 ≤ pt.length) (hhi : hi ≤ sa + pt.length - 1) :
    ∑ k ∈ range (sa + pt.length - hi),
        ι N (phaseRow sk (((a0 :: as).map (fun x => Hal.cnvApplyCol N (sa + pt.length - hi) hi x pt)).map (fun col => limbOr0 N col k)))
          * β ^ (sa + pt.length - hi - 1 - k)
      + β ^ (sa + pt.length - hi) * (plainTop N β a0 pt hi
          + ∑ i ∈ range (min sk.length as.length), ι N (sk.getD i []) * plainTop N β (as.getD i []) pt hi)
      = β * (colVal N β a0 + ∑ i ∈ range (min sk.length as.length), ι N (sk.getD i []) * colVal N β (as.getD i [])) * colVal N β pt := by
  apply phase_value_of_columns N hN sk a0 as (sa + pt.length - hi) β (fun x => Hal.cnvApplyCol N (sa + pt.length - hi) hi x pt)
    (fun x => plainTop N β x pt hi) (colVal N β) (colVal N β pt)
  · intro x k _
    exact cnvApplyCol_limb_length N _ hi x pt k hpt
  · intro x hx
    have hxl : x.length = sa := by rcases hx with rfl | hx; exact h0; exact hall x hx
    have hxn : ∀ l ∈ x, l.length = N := by rcases hx with rfl | hx; exact hx0; exact hxs x hx
    have := cnvApply_column_value N hN x pt hi β hxn hpt (by omega) hsb (by omega)
    rw [hxl] at this
    unfold plainTop colVal
    rw [hxl]
    exact this

end Core
