import Poulpy.Lemmas.RingRotate

/-! The scatter loop of `znx_automorphism_ref` as a sequence of writes. -/

/-- one write of the loop: running index `k < 2n`, value `x` -/
def autoWrite (w : Int → Int) (n : Nat) (res : Poly) (k : Nat) (x : Int) : Poly :=
  if k < n then res.set k x else res.set (k - n) (w (-x))

def writes (w : Int → Int) (n : Nat) : List (Nat × Int) → Poly → Poly
  | [], res => res
  | (k, x) :: t, res => writes w n t (autoWrite w n res k x)

/-- the running indices `k_1, k_2, …` after `k` -/
def runKs (n p2n : Nat) : Nat → Nat → List Nat
  | 0, _ => []
  | c + 1, k => ((k + p2n) % (2 * n)) :: runKs n p2n c ((k + p2n) % (2 * n))

theorem autoLoop_eq_writes (w : Int → Int) (n p2n : Nat) (rest : List Int) (k : Nat) (res : Poly) :
    autoLoop w n p2n rest k res = writes w n ((runKs n p2n rest.length k).zip rest) res := by
  induction rest generalizing k res with
  | nil => simp [autoLoop, runKs, writes]
  | cons x t ih =>
    simp only [autoLoop, List.length_cons, runKs, List.zip_cons_cons, writes, autoWrite]
    exact ih _ _

theorem runKs_length (n p2n c k : Nat) : (runKs n p2n c k).length = c := by
  induction c generalizing k with
  | zero => simp [runKs]
  | succ c ih => simp [runKs, ih]

theorem runKs_getElem? (n p2n c k m : Nat) (hm : m < c) :
    (runKs n p2n c k)[m]? = some ((k + (m + 1) * p2n) % (2 * n)) := by
  induction c generalizing k m with
  | zero => omega
  | succ c ih =>
    cases m with
    | zero => simp [runKs]
    | succ m =>
      simp only [runKs, List.getElem?_cons_succ]
      rw [ih _ m (by omega)]
      congr 1
      rw [Nat.add_mod, Nat.mod_mod, ← Nat.add_mod]
      congr 1; ring

theorem autoWrite_length (w : Int → Int) (n : Nat) (res : Poly) (k : Nat) (x : Int) :
    (autoWrite w n res k x).length = res.length := by
  unfold autoWrite; split <;> simp

theorem writes_length (w : Int → Int) (n : Nat) (L : List (Nat × Int)) (res : Poly) :
    (writes w n L res).length = res.length := by
  induction L generalizing res with
  | nil => rfl
  | cons h t ih => obtain ⟨k, x⟩ := h; simp [writes, ih, autoWrite_length]

theorem autoWrite_other (w : Int → Int) (n : Nat) (hn : 0 < n) (res : Poly) (k : Nat) (hk : k < 2 * n) (x : Int) (q : Nat)
    (hq : k % n ≠ q) : (autoWrite w n res k x)[q]? = res[q]? := by
  unfold autoWrite
  split
  · rename_i h; rw [Nat.mod_eq_of_lt h] at hq; exact List.getElem?_set_ne hq
  · rename_i h
    have : k % n = k - n := by rw [Nat.mod_eq_sub_mod (by omega), Nat.mod_eq_of_lt (by omega)]
    rw [this] at hq; exact List.getElem?_set_ne hq

theorem autoWrite_self (w : Int → Int) (n : Nat) (hn : 0 < n) (res : Poly) (hl : res.length = n) (k : Nat) (hk : k < 2 * n)
    (x : Int) : (autoWrite w n res k x)[k % n]? = some (if k < n then x else w (-x)) := by
  unfold autoWrite
  split
  · rename_i h; rw [Nat.mod_eq_of_lt h]; exact List.getElem?_set_self (by omega)
  · rename_i h
    have : k % n = k - n := by rw [Nat.mod_eq_sub_mod (by omega), Nat.mod_eq_of_lt (by omega)]
    rw [this]; exact List.getElem?_set_self (by omega)

theorem writes_other (w : Int → Int) (n : Nat) (hn : 0 < n) (L : List (Nat × Int)) (res : Poly)
    (hk : ∀ e ∈ L, e.1 < 2 * n) (q : Nat) (hq : ∀ e ∈ L, e.1 % n ≠ q) :
    (writes w n L res)[q]? = res[q]? := by
  induction L generalizing res with
  | nil => rfl
  | cons h t ih =>
    obtain ⟨k, x⟩ := h
    simp only [writes]
    rw [ih _ (fun e he => hk e (List.mem_cons_of_mem _ he)) (fun e he => hq e (List.mem_cons_of_mem _ he))]
    exact autoWrite_other w n hn res k (hk (k, x) (List.mem_cons_self)) x q (hq (k, x) (List.mem_cons_self))

theorem writes_get (w : Int → Int) (n : Nat) (hn : 0 < n) (L : List (Nat × Int)) (res : Poly) (hl : res.length = n)
    (hk : ∀ e ∈ L, e.1 < 2 * n) (hnd : (L.map (fun e => e.1 % n)).Nodup) (e : Nat × Int) (he : e ∈ L) :
    (writes w n L res)[e.1 % n]? = some (if e.1 < n then e.2 else w (-e.2)) := by
  induction L generalizing res with
  | nil => cases he
  | cons h t ih =>
    obtain ⟨k, x⟩ := h
    simp only [writes]
    simp only [List.map_cons, List.nodup_cons] at hnd
    rcases List.mem_cons.mp he with rfl | he'
    · rw [writes_other w n hn t _ (fun e he => hk e (List.mem_cons_of_mem _ he)) (k % n)]
      · exact autoWrite_self w n hn res hl k (hk (k, x) List.mem_cons_self) x
      · intro e' he' heq
        exact hnd.1 (List.mem_map.mpr ⟨e', he', heq⟩)
    · exact ih _ (by rw [autoWrite_length]; exact hl) (fun e he => hk e (List.mem_cons_of_mem _ he)) hnd.2 he'

theorem allP_set {P : Int → Prop} {l : Poly} (hl : AllP P l) (i : Nat) {x : Int} (hx : P x) : AllP P (l.set i x) := by
  intro y hy
  rcases List.mem_or_eq_of_mem_set hy with h | h
  · exact hl y h
  · exact h ▸ hx

theorem writes_allP {w : Int → Int} {P : Int → Prop} (hw : NegOn w P) (n : Nat) (L : List (Nat × Int)) (res : Poly)
    (hres : AllP P res) (hL : ∀ e ∈ L, P e.2) : AllP P (writes w n L res) := by
  induction L generalizing res with
  | nil => exact hres
  | cons h t ih =>
    obtain ⟨k, x⟩ := h
    simp only [writes]
    apply ih _ _ (fun e he => hL e (List.mem_cons_of_mem _ he))
    have hx : P x := hL (k, x) List.mem_cons_self
    unfold autoWrite; split
    · exact allP_set hres _ hx
    · exact allP_set hres _ (hw.closed x hx)
